(* C14 model: abstract syntax of the covered put/filter language and a fuelled big-step interpreter mirroring
   pkg/dsl/cst (root.go, blocks.go, statements.go, assignments.go, lvalues.go, leaves.go, collections.go, if.go,
   while.go, for.go, cond.go, udf.go, block_exit.go, emit1.go, emit_emitp.go, print.go, filter.go,
   builtin_functions.go) and pkg/transformers/put_or_filter.go, over the abstract scope stack of Stack.v.

   The interpreter is written in open-recursion style: [step rec] performs one layer of evaluation and calls
   [rec] for every sub-evaluation (sub-expressions, statements, loop iterations, function bodies), and
   [run fuel = step (run (fuel-1))].  Fuel exhaustion is the distinct result [OutOfFuel].
   Definitions only. *)
From Miller Require Export C14.Value C14.Stack.
Open Scope Z_scope.

(* ---- syntax *)
Inductive bop := BArith (o : aop) | BDot | BCmp (o : cop).

Inductive hof := HApply | HSelect | HReduce | HFold | HAny | HEvery | HSort.

Inductive expr :=
| EInt (z : Z) | EStr (s : bytes) | EBool (b : bool)
| EField (k : bytes) | EOos (k : bytes) | ELocal (x : bytes)
| ESrec | EOosAll | ENR
| EBin (o : bop) (a b : expr)
| EAnd (a b : expr) | EOr (a b : expr) | ENot (a : expr) | ENeg (a : expr)
| ETern (c a b : expr) | ECoal (a b : expr)
| EMapLit (kvs : list (expr * expr))
| EArrLit (es : list expr)
| EIndex (base idx : expr)
| ESlice (base lo hi : expr)                        (* x[lo:hi]; an omitted bound is the empty string, as in the CST *)
| ECall (f : bytes) (args : list expr)
| EFun1 (f : fun1) (a : expr)
| EPosName (i : expr)                               (* $[[i]] *)
| EPosVal (i : expr)                                (* $[[[i]]] *)
| ENF                                               (* NF: field count of the current record, absent without one *)
| EHof (h : hof) (c : expr) (lit : bool) (fn : bytes) (init : option expr).
    (* apply/select/reduce/fold/any/every/sort(c, fn [, init]): fn names a user-defined function, or (lit = true) the
       function literal written at this place, which the renderer hoists into the function list under a name starting with '#' *)

Inductive lbase := LField (k : bytes) | LOos (k : bytes) | LLocal (x : bytes).

Inductive stmt :=
| SAssign (b : lbase) (idx : list expr) (e : expr)
| SDefine (t : tyname) (x : bytes) (e : expr)
| SAssignSrec (e : expr)
| SUnset (b : lbase) (idx : list expr)
| SIf (arms : list (expr * list stmt)) (els : option (list stmt))
| SWhile (c : expr) (body : list stmt)
| SDo (body : list stmt) (c : expr)
| SFor1 (k : bytes) (e : expr) (body : list stmt)
| SFor2 (k v : bytes) (e : expr) (body : list stmt)
| SForMulti (ks : list bytes) (v : bytes) (e : expr) (body : list stmt)   (* for ((k1,...,kn), v in e) *)
| SForC (init : list stmt) (c : option expr) (upd : list stmt) (body : list stmt)
| SCond (c : expr) (body : list stmt)
| SBreak | SContinue | SReturn (e : option expr)
| SPrint (e : expr)
| SEmit1 (e : expr)
| SEmitMap (e : expr)                               (* emit @*, emit $*, emit {...} *)
| SEmitNamed (name : bytes) (e : expr) (keys : list bytes)  (* emit @name / emit name [, "k1", ...] *)
| SFilter (e : expr)
| SBare (e : expr)
| SCall (name : bytes) (args : list expr)         (* call of a subroutine *)
| SAssignPosName (i e : expr)                       (* $[[i]] = e : rename *)
| SAssignPosVal (i e : expr)                        (* $[[[i]]] = e *)
| SEmitF (items : list (bytes * expr))              (* emitf @a, @b: one record with those names *)
| SEmitP (name : bytes) (e : expr) (keys : list bytes)   (* emitp @name [, "k1", ...] *)
| SEmitLashed (isp : bool) (items : list (bytes * expr)) (* emit (@a, @b) / emitp (@a, @b), no keys *)
| SPrintN (e : expr)                                (* printn: no newline *)
| SEprint (e : expr)                                (* eprint / eprintn: standard error, not part of the output stream *)
| SDump (e : option expr)                           (* dump / dump expr *)
| SEdump.                                           (* edump: standard error *)

(* user-defined functions and subroutines (f_sub = true; separate name spaces, f_ret unused) *)
Record fdef := { f_name : bytes; f_sub : bool; f_params : list (tyname * bytes); f_ret : tyname; f_body : list stmt }.

Record prog := { p_funcs : list fdef; p_begin : list (list stmt); p_main : list stmt; p_end : list (list stmt) }.

(* a behaviour of an earlier tree that contradicted the reference, kept selectable as documentation (DESIGN 2.5):
   v_filter_per_record = false is the code before the repair of put_or_filter.go (FilterExpression never reset).
   The tree and the reference are [documented]. *)
Record variant := { v_filter_per_record : bool }.
Definition documented : variant := {| v_filter_per_record := true |}.

(* ---- runtime state: pkg/runtime/state.go *)
Inductive outitem := ORec (r : amap) | OLine (s : bytes) | OText (s : bytes).   (* OText: text without a final newline (printn) *)

Record state := {
  inrec : option amap;
  oos : amap;
  stk : astack;
  filt : value;              (* FilterExpression; anything that is not a boolean lets a put record through *)
  outp : list outitem;       (* reversed *)
  nr : Z
}.

Definition set_inrec r (st : state) := {| inrec := r; oos := oos st; stk := stk st; filt := filt st; outp := outp st; nr := nr st |}.
Definition set_oos o (st : state) := {| inrec := inrec st; oos := o; stk := stk st; filt := filt st; outp := outp st; nr := nr st |}.
Definition set_stk s (st : state) := {| inrec := inrec st; oos := oos st; stk := s; filt := filt st; outp := outp st; nr := nr st |}.
Definition set_filt f (st : state) := {| inrec := inrec st; oos := oos st; stk := stk st; filt := f; outp := outp st; nr := nr st |}.
Definition emit_item i (st : state) := {| inrec := inrec st; oos := oos st; stk := stk st; filt := filt st; outp := i :: outp st; nr := nr st |}.
Definition set_nr n (st : state) := {| inrec := inrec st; oos := oos st; stk := stk st; filt := filt st; outp := outp st; nr := n |}.

Inductive outcome := ONormal | OBreak | OContinue | ORetVoid | ORet (v : value) | OErr.

(* ---- tasks: everything the interpreter recurses on *)
Inductive task :=
| TEval (e : expr)
| TEvals (es : list expr)
| TIdx (es : list expr) (acc : list value)            (* lvalue indices: stop at the first absent one *)
| TArgs (soft : bool) (es : list expr) (ps : list (tyname * bytes))  (* call arguments with their parameter gates;
                                                          a rejected argument is fatal for functions, a statement error (soft) for subroutines *)
| TMapLit (kvs : list (expr * expr)) (acc : amap)
| TExec (s : stmt)
| TSeq (ss : list stmt)                               (* ExecuteFrameless *)
| TBlock (ss : list stmt)                             (* StatementBlockNode.Execute: own frame *)
| TIfArms (arms : list (expr * list stmt)) (els : option (list stmt))
| TWhile (c : expr) (body : list stmt)
| TDoTail (body : list stmt) (c : expr)
| TIter (k : bytes) (v : option bytes) (entries : list (value * value)) (body : list stmt)
    (* single-variable loops bind k to the first component (map key / array ELEMENT), key-value loops bind k to the key
       (map key as a string / 1-up array index) and v to the value *)
| TMulti (ks : list bytes) (v : bytes) (entries : amap) (body : list stmt)  (* executeOuter / executeInner *)
| TForCLoop (c : option expr) (upd : list stmt) (body : list stmt)
| TEmitNI (nvs : amap)
| TEmitIdx (isp : bool) (template : amap) (name : bytes) (entries : amap) (keys : list bytes)
| THof (h : hof) (ismap : bool) (lit : bool) (fn : bytes) (items : list (list value)) (acc : value)
| TSort (lit : bool) (fn : bytes) (arr : list (list value)) (i j : nat).   (* insertion sort, as sort.Slice does up to 12 elements *)

Inductive tres :=
| RV (v : value)
| RVs (vs : list value)
| ROpt (o : option (list value))
| RO (o : outcome).

Definition recfn := task -> state -> res (tres * state).

Section Step.

Variable fns : list fdef.
Variable rec : recfn.

Definition ev (e : expr) (st : state) : res (value * state) :=
  do (r, st') <- rec (TEval e) st; match r with RV v => Ok (v, st') | _ => Unsup end.
Definition evs (es : list expr) (st : state) : res (list value * state) :=
  do (r, st') <- rec (TEvals es) st; match r with RVs v => Ok (v, st') | _ => Unsup end.
Definition ex (t : task) (st : state) : res (outcome * state) :=
  do (r, st') <- rec t st; match r with RO o => Ok (o, st') | _ => Unsup end.

Definition rv (v : value) (st : state) : res (tres * state) := Ok (RV v, st).
Definition ro (o : outcome) (st : state) : res (tres * state) := Ok (RO o, st).

Definition push_frame (st : state) := set_stk (a_push_frame (stk st)) st.
Definition pop_frame (st : state) := set_stk (a_pop_frame (stk st)) st.
Definition push_set (st : state) := set_stk (a_push_set (stk st)) st.
Definition pop_set (st : state) := set_stk (a_pop_set (stk st)) st.

Fixpoint find_fn (sub : bool) (name : bytes) (arity : nat) (l : list fdef) : option fdef :=
  match l with
  | [] => None
  | f :: t => if Bool.eqb sub (f_sub f) && beqb name (f_name f) && Nat.eqb arity (List.length (f_params f)) then Some f
              else find_fn sub name arity t
  end.
Definition fn_named (name : bytes) (l : list fdef) : bool := existsb (fun f => negb (f_sub f) && beqb name (f_name f)) l.

Fixpoint bind_params (ps : list (tyname * bytes)) (vs : list value) (s : astack) : option astack :=
  match ps, vs with
  | [], [] => Some s
  | (t, x) :: ps', v :: vs' => match a_define x t v s with Some s' => bind_params ps' vs' s' | None => None end
  | _, _ => None
  end.

(* LogicalANDOperatorNode / LogicalOROperatorNode (builtin_functions.go); [short] is the absorbing boolean *)
Definition logic_rhs_after_absent (b : value) : value :=
  match b with
  | VError => VError
  | VStr [] => VAbsent
  | VAbsent => VAbsent
  | VBool _ => b
  | _ => VError
  end.
Definition logic_rhs_after_void (b : value) : value :=
  match b with
  | VError => VError
  | VStr [] => VError
  | VAbsent => VAbsent
  | VBool _ => b
  | _ => VError
  end.
Definition logic_rhs_general (isand : bool) (a b : value) : value :=
  match b with
  | VAbsent => VAbsent
  | VBool y => match a with
               | VBool x => VBool (if isand then x && y else x || y)
               | _ => VError
               end
  | _ => VError
  end.

Definition eval_logic (isand : bool) (a b : expr) (st : state) : res (tres * state) :=
  do (va, st1) <- ev a st;
  match va with
  | VError => rv VError st1
  | VAbsent => do (vb, st2) <- ev b st1; rv (logic_rhs_after_absent vb) st2
  | VStr [] => do (vb, st2) <- ev b st1; rv (logic_rhs_after_void vb) st2
  | _ =>
      if (match va with VBool x => Bool.eqb x (negb isand) | _ => false end)
      then rv va st1
      else do (vb, st2) <- ev b st1; rv (logic_rhs_general isand va vb) st2
  end.

Definition lift (r : res value) (st : state) : res (tres * state) :=
  do v <- r; rv v st.

Definition eval_call (f : bytes) (args : list expr) (st : state) : res (tres * state) :=
  match find_fn false f (List.length args) fns with
  | None => Fatal
  | Some fd =>
      do (r, st1) <- rec (TArgs false args (f_params fd)) st;
      match r with
      | RVs vs =>
          match bind_params (f_params fd) vs (a_push_set (stk st1)) with
          | None => Fatal
          | Some s2 =>
              do (o, st3) <- ex (TBlock (f_body fd)) (set_stk s2 st1);
              let st4 := pop_set st3 in
              match o with
              | OErr => if gate (f_ret fd) VError then rv VError st4 else Fatal
              | ORet v => if gate (f_ret fd) v then rv v st4 else Fatal
              | _ => if gate (f_ret fd) VAbsent then rv VAbsent st4 else Fatal
              end
          end
      | _ => Unsup
      end
  end.

(* ---- higher-order functions: pkg/dsl/cst/hofs.go.  The callback is invoked through UDFCallsite.EvaluateWithArguments:
   a named function in a frameset of its own, a function literal in a new FRAME of the current frameset (it sees the
   locals of the place it is called from).  A literal that leaves the enclosing locals changed is outside the fragment:
   the stack after the call is compared with the one before. *)
Definition binding_eqb (a b : binding) : bool := tyname_eqb (b_ty a) (b_ty b) && value_eqb (b_val a) (b_val b).
Fixpoint scope_eqb (a b : scope) : bool :=
  match a, b with
  | [], [] => true
  | (x, u) :: a', (y, v) :: b' => beqb x y && binding_eqb u v && scope_eqb a' b'
  | _, _ => false
  end.
Fixpoint fset_eqb (a b : fset) : bool :=
  match a, b with
  | [], [] => true
  | x :: a', y :: b' => scope_eqb x y && fset_eqb a' b'
  | _, _ => false
  end.
Definition top_fset_eqb (s s' : astack) : bool :=
  match s, s' with
  | a :: _, b :: _ => fset_eqb a b
  | _, _ => false
  end.

Definition is_lit_name (n : bytes) : bool := match n with "#"%char :: _ => true | _ => false end.

Definition ret_value (fd : fdef) (o : outcome) : option value :=
  match o with
  | OErr => if gate (f_ret fd) VError then Some VError else None
  | ORet v => if gate (f_ret fd) v then Some v else None
  | _ => if gate (f_ret fd) VAbsent then Some VAbsent else None
  end.

Definition call_values (lit : bool) (name : bytes) (vs : list value) (st : state) : res (value * state) :=
  if negb (Bool.eqb lit (is_lit_name name)) then Unsup else
  match find_fn false name (List.length vs) fns with
  | None => Fatal                                      (* not found, or found with another arity: os.Exit *)
  | Some fd =>
      if lit then
        match bind_params (f_params fd) vs (a_push_frame (stk st)) with
        | None => Fatal
        | Some s2 =>
            do (o, st3) <- ex (TBlock (f_body fd)) (set_stk s2 st);
            if top_fset_eqb (a_pop_frame (stk st3)) (stk st) then
              match ret_value fd o with Some v => Ok (v, set_stk (stk st) st3) | None => Fatal end
            else Unsup
        end
      else
        match bind_params (f_params fd) vs (a_push_set (stk st)) with
        | None => Fatal
        | Some s2 =>
            do (o, st3) <- ex (TBlock (f_body fd)) (set_stk s2 st);
            match ret_value fd o with Some v => Ok (v, pop_set st3) | None => Fatal end
        end
  end.

(* the arguments of one callback invocation and what its result does to the accumulator *)
Inductive hres := HCont (acc : value) | HDone (v : value) | HFatal.

Definition single_entry (v : value) : option (bytes * value) :=
  match v with VMap [(k, x)] => Some (k, x) | _ => None end.

Definition hof_args (h : hof) (ismap : bool) (acc : value) (item : list value) : list value :=
  match h with
  | HReduce | HFold =>
      if ismap then match single_entry acc with Some (k, x) => VStr k :: x :: item | None => item end
      else acc :: item
  | _ => item
  end.

Definition hof_next (h : hof) (ismap : bool) (acc : value) (item : list value) (r : value) : hres :=
  match h with
  | HApply =>
      if ismap then
        match single_entry r, acc with
        | Some (k, x), VMap m => HCont (VMap (mput k x m))
        | _, _ => HFatal
        end
      else match r, acc with
           | VAbsent, _ => HFatal
           | _, VArr l => HCont (VArr (l ++ [r]))
           | _, _ => HFatal
           end
  | HSelect =>
      match r with
      | VBool true =>
          match ismap, item, acc with
          | true, [VStr k; x], VMap m => HCont (VMap (mput k x m))
          | false, [x], VArr l => HCont (VArr (l ++ [x]))
          | _, _, _ => HFatal
          end
      | VBool false => HCont acc
      | _ => HFatal
      end
  | HAny => match r with VBool true => HDone (VBool true) | VBool false => HCont acc | _ => HFatal end
  | HEvery => match r with VBool false => HDone (VBool false) | VBool true => HCont acc | _ => HFatal end
  | HReduce | HFold =>
      if ismap then match single_entry r with Some _ => HCont r | None => HFatal end
      else match r with VAbsent => HFatal | _ => HCont r end
  | HSort => HFatal
  end.

Definition arr_items (l : list value) : list (list value) := map (fun x => [x]) l.
Definition map_items (m : amap) : list (list value) := map (fun kv => [VStr (fst kv); snd kv]) m.
Definition items_value (ismap : bool) (items : list (list value)) : value :=
  if ismap then VMap (flat_map (fun it => match it with [VStr k; x] => [(k, x)] | _ => [] end) items)
  else VArr (flat_map (fun it => match it with [x] => [x] | _ => [] end) items).

Definition fn_resolvable (lit : bool) (fn : bytes) (st : state) : bool :=
  (* a named function given as a bare word is looked up as a local first (LocalVariableNode): a local of that name is outside the fragment *)
  lit || match a_get fn (stk st) with Some _ => false | None => true end.

(* getHOFSpace runs before the first callback (and for empty collections too): the function must exist with the arity
   this higher-order function needs for this kind of collection, else the program ends *)
Definition hof_arity (h : hof) (ismap : bool) : nat :=
  match h with
  | HApply | HSelect | HAny | HEvery => if ismap then 2%nat else 1%nat
  | HReduce | HFold | HSort => if ismap then 4%nat else 2%nat
  end.
Definition hof_fn_ok (h : hof) (ismap : bool) (lit : bool) (fn : bytes) : bool :=
  Bool.eqb lit (is_lit_name fn) &&
  match find_fn false fn (hof_arity h ismap) fns with Some _ => true | None => false end.

Definition eval_hof (h : hof) (c : expr) (lit : bool) (fn : bytes) (init : option expr) (st : state) : res (tres * state) :=
  do (vc, st1) <- ev c st;
  if negb (fn_resolvable lit fn st1) then Unsup else
  do (vi, st2) <- match init with Some ie => ev ie st1 | None => Ok (VAbsent, st1) end;
  if (match vc with VArr _ => negb (hof_fn_ok h false lit fn) | VMap _ => negb (hof_fn_ok h true lit fn) | _ => false end)
  then (if Bool.eqb lit (is_lit_name fn) then Fatal else Unsup) else
  match h, init with
  | HFold, None => Unsup
  | HFold, Some _ =>
      match vc with
      | VArr l => rec (THof HFold false lit fn (arr_items l) vi) st2
      | VMap [] => rv VAbsent st2
      | VMap m => match single_entry vi with
                  | Some _ => rec (THof HFold true lit fn (map_items m) vi) st2
                  | None => Fatal
                  end
      | _ => rv VError st2
      end
  | _, Some _ => Unsup
  | HApply, None | HSelect, None =>
      match vc with
      | VArr l => rec (THof h false lit fn (arr_items l) (VArr [])) st2
      | VMap m => rec (THof h true lit fn (map_items m) (VMap [])) st2
      | _ => rv VError st2
      end
  | HAny, None | HEvery, None =>
      match vc with
      | VArr l => rec (THof h false lit fn (arr_items l) (VBool (match h with HAny => false | _ => true end))) st2
      | VMap m => rec (THof h true lit fn (map_items m) (VBool (match h with HAny => false | _ => true end))) st2
      | _ => rv VError st2
      end
  | HReduce, None =>
      match vc with
      | VArr [] => rv vc st2
      | VArr (x :: l) => rec (THof HReduce false lit fn (arr_items l) x) st2
      | VMap [] => rv vc st2
      | VMap ((k, x) :: m) => rec (THof HReduce true lit fn (map_items m) (VMap [(k, x)])) st2
      | _ => rv VError st2
      end
  | HSort, None =>
      match vc with
      | VArr [] | VMap [] => rv vc st2
      | VArr l => if (12 <? alen l) then Unsup else rec (TSort lit fn (arr_items l) 1 1) st2
      | VMap m => if (12 <? Z.of_nat (List.length m)) then Unsup else rec (TSort lit fn (map_items m) 1 1) st2
      | _ => rv VError st2
      end
  end.

Fixpoint swap_adj {A} (l : list A) (j : nat) : list A :=   (* swap positions j-1 and j *)
  match l, j with
  | a :: b :: t, 1%nat => b :: a :: t
  | a :: t, S j' => a :: swap_adj t j'
  | _, _ => l
  end.

Definition eval_expr (e : expr) (st : state) : res (tres * state) :=
  match e with
  | EInt z => rv (VInt z) st
  | EStr s => rv (VStr s) st
  | EBool b => rv (VBool b) st
  | EField k => rv (match inrec st with
                    | Some r => match mget k r with Some v => v | None => VAbsent end
                    | None => VAbsent
                    end) st
  | EOos k => rv (match mget k (oos st) with Some v => v | None => VAbsent end) st
  | ELocal x => match a_get x (stk st) with
                | Some v => rv v st
                | None => if fn_named x fns then Unsup else rv VAbsent st
                end
  | ESrec => rv (match inrec st with Some r => VMap r | None => VAbsent end) st
  | EOosAll => rv (VMap (oos st)) st
  | ENR => rv (VInt (nr st)) st
  | EBin BDot a b =>
      do (va, st1) <- ev a st;
      if is_map va then Unsup else
      do (vb, st2) <- ev b st1; lift (dot va vb) st2
  | EBin (BArith o) a b =>
      do (va, st1) <- ev a st; do (vb, st2) <- ev b st1; lift (arith o va vb) st2
  | EBin (BCmp o) a b =>
      do (va, st1) <- ev a st; do (vb, st2) <- ev b st1; lift (compare_values o va vb) st2
  | EAnd a b => eval_logic true a b st
  | EOr a b => eval_logic false a b st
  | ENot a => do (va, st1) <- ev a st; rv (lnot va) st1
  | ENeg a => do (va, st1) <- ev a st; lift (uneg va) st1
  | ETern c a b =>
      do (vc, st1) <- ev c st;
      match vc with
      | VBool true => rec (TEval a) st1
      | VBool false => rec (TEval b) st1
      | _ => rv VError st1
      end
  | ECoal a b =>
      do (va, st1) <- ev a st;
      match va with VAbsent => rec (TEval b) st1 | _ => rv va st1 end
  | EMapLit kvs => rec (TMapLit kvs []) st
  | EArrLit es => do (vs, st1) <- evs es st; rv (VArr vs) st1          (* ArrayLiteralNode: absent elements are kept *)
  | EIndex b i =>
      do (vb, st1) <- ev b st; do (vi, st2) <- ev i st1; lift (index_read vb vi) st2
  | ESlice b lo hi =>
      do (vb, st1) <- ev b st; do (vl, st2) <- ev lo st1; do (vh, st3) <- ev hi st2; rv (slice_read vb vl vh) st3
  | ECall f args => eval_call f args st
  | EFun1 f a => do (va, st1) <- ev a st; rv (apply_fun1 f va) st1
  | EPosName i =>
      (* PositionalFieldNameNode.Evaluate (with the nil-record guard of fix 600e7ca15) *)
      do (vi, st1) <- ev i st;
      match vi with
      | VAbsent => rv VAbsent st1
      | VInt p => rv (match inrec st1 with
                      | Some r => match pos_name r p with Some k => VStr k | None => VAbsent end
                      | None => VAbsent
                      end) st1
      | _ => rv VError st1
      end
  | EPosVal i =>
      do (vi, st1) <- ev i st;
      match vi with
      | VAbsent => rv VAbsent st1
      | VInt p => rv (match inrec st1 with
                      | Some r => match pos_value r p with Some v => v | None => VAbsent end
                      | None => VAbsent
                      end) st1
      | _ => rv VError st1
      end
  | ENF => rv (match inrec st with Some r => VInt (Z.of_nat (List.length r)) | None => VAbsent end) st
  | EHof h c lit fn init => eval_hof h c lit fn init st
  end.

(* ---- assignments: lvalues.go *)
Definition assign_direct (b : lbase) (v : value) (st : state) : res (tres * state) :=
  match b with
  | LField k => match inrec st with
                | None => ro OErr st
                | Some r => ro ONormal (set_inrec (Some (mput k v r)) st)
                end
  | LOos k => ro ONormal (set_oos (mput k v (oos st)) st)
  | LLocal x => match a_set x v (stk st) with
                | Some s => ro ONormal (set_stk s st)
                | None => ro OErr st
                end
  end.

Definition of_pres (p : pres) (k : amap -> res (tres * state)) (st : state) : res (tres * state) :=
  match p with POk m => k m | PErr => ro OErr st | PUnsup => Unsup end.

(* StackFrameSet.setIndexed / StackFrame.setIndexed: the nearest frame that has the name, else the current frame.
   A variable that is unset, absent or holds a non-collection is ASSIGNED a fresh map (through its type gate, frame.set);
   a variable holding a map is updated in place. *)
Definition fresh_indexed (vs : list value) (v : value) : pres :=
  match vs with
  | k :: _ => match strict_key k with None => PErr | Some _ => put_indexed_map [] vs v end
  | [] => PUnsup
  end.

Definition assign_local_indexed (x : bytes) (vs : list value) (v : value) (st : state) : res (tres * state) :=
  match stk st with
  | [] => Unsup
  | fs :: r =>
      match (match fs_get x fs with Some c => if is_coll c then Some c else None | None => None end) with
      | Some cur =>
          (* a map stays a map and an array stays an array under PutIndexed: updated in place *)
          match put_indexed cur vs v with
          | VOk c' => match fs_poke x c' fs with
                      | Some fs' => ro ONormal (set_stk (fs' :: r) st)
                      | None => Unsup
                      end
          | VErr => ro OErr st
          | VUnsup => Unsup
          end
      | None =>
          (* not bound at all (new "any" slot in the current frame) or bound to a non-collection (gated assignment):
             both are what a_set does *)
          of_pres (fresh_indexed vs v)
            (fun m => match a_set x (VMap m) (stk st) with
                      | Some s => ro ONormal (set_stk s st)
                      | None => ro OErr st
                      end) st
      end
  end.

(* $k[...] / @k[...] when $k / @k currently holds a non-collection: putIndexedOnMap gives the slot a copy of the scalar,
   which PutIndexed then converts (fix 382305ab0; before it the stored value was converted in place, which was visible through
   a local bound to that field/oosvar by reference).  [top_scalar] is kept for the statement of that case. *)
Definition top_scalar (k : bytes) (m : amap) : bool :=
  match mget k m with
  | Some (VMap _) => false
  | Some _ => true
  | None => false
  end.

Definition assign_indexed (b : lbase) (vs : list value) (v : value) (st : state) : res (tres * state) :=
  match b with
  | LField k => match inrec st with
                | None => ro OErr st
                | Some r => of_pres (put_indexed_map r (VStr k :: vs) v)
                              (fun m => ro ONormal (set_inrec (Some m) st)) st
                end
  | LOos k => of_pres (put_indexed_map (oos st) (VStr k :: vs) v)
                (fun m => ro ONormal (set_oos m st)) st
  | LLocal x => assign_local_indexed x vs v st
  end.

Definition unset_lvalue (b : lbase) (vs : list value) (st : state) : state :=
  match b, vs with
  | LField k, [] => match inrec st with Some r => set_inrec (Some (mremove k r)) st | None => st end
  | LField k, _ => match inrec st with Some r => set_inrec (Some (remove_indexed_map r (VStr k :: vs))) st | None => st end
  | LOos k, [] => set_oos (mremove k (oos st)) st
  | LOos k, _ => set_oos (remove_indexed_map (oos st) (VStr k :: vs)) st
  | LLocal x, [] => set_stk (a_unset x (stk st)) st
  | LLocal x, _ =>
      match stk st with
      | fs :: r =>
          match fs_get x fs with
          | Some c => match fs_poke x (remove_indexed c vs) fs with
                      | Some fs' => set_stk (fs' :: r) st
                      | None => st
                      end
          | None => st
          end
      | [] => st
      end
  end.

Definition print_string (v : value) : option bytes :=
  match v with
  | VAbsent => Some []
  | VError => Some (B "(error)")
  | VMap _ | VArr _ => json 0 v
  | _ => scalar_string v
  end.

Definition map_entries (m : amap) : list (value * value) := map (fun kv => (VStr (fst kv), snd kv)) m.
Fixpoint arr_entries (i : Z) (a : list value) : list (value * value) :=
  match a with [] => [] | e :: t => (VInt i, e) :: arr_entries (i + 1) t end.

Definition first_is_map (m : amap) : bool :=
  match m with (_, VMap _) :: _ => true | _ => false end.

Definition loop_after_body (o : outcome) (st : state) (continue_ : state -> res (tres * state)) : res (tres * state) :=
  match o with
  | OBreak => ro ONormal st
  | ORetVoid => ro ORetVoid st
  | ORet v => ro (ORet v) st
  | OErr => ro OErr st
  | ONormal | OContinue => continue_ st
  end.

(* UDSCallsite.Execute (uds.go).  A rejected argument or parameter binding is a statement error.  [return] inside the
   subroutine ends the subroutine only (reference semantics; the tree hands the return payload on to the caller's block:
   pending finding subroutine-return-exits-caller-block, the generator does not put return into subroutines). *)
Definition exec_call (name : bytes) (args : list expr) (st : state) : res (tres * state) :=
  match find_fn true name (List.length args) fns with
  | None => Fatal
  | Some fd =>
      do (r, st1) <- rec (TArgs true args (f_params fd)) st;
      match r with
      | ROpt None => ro OErr st1
      | RVs vs =>
          match bind_params (f_params fd) vs (a_push_set (stk st1)) with
          | None => ro OErr st1
          | Some s2 =>
              do (o, st3) <- ex (TBlock (f_body fd)) (set_stk s2 st1);
              let st4 := pop_set st3 in
              match o with
              | OErr => ro OErr st4
              | _ => ro ONormal st4
              end
          end
      | _ => Unsup
      end
  end.

Definition exec_stmt (s : stmt) (st : state) : res (tres * state) :=
  match s with
  | SAssign b idx e =>
      do (v, st1) <- ev e st;
      match v with
      | VAbsent => ro ONormal st1
      | _ =>
          match idx with
          | [] => assign_direct b v st1
          | _ =>
              do (r, st2) <- rec (TIdx idx []) st1;
              match r with
              | ROpt None => ro ONormal st2
              | ROpt (Some vs) => assign_indexed b vs v st2
              | _ => Unsup
              end
          end
      end
  | SDefine t x e =>
      do (v, st1) <- ev e st;
      match v with
      | VAbsent => ro ONormal st1
      | _ => match a_define x t v (stk st1) with
             | Some s' => ro ONormal (set_stk s' st1)
             | None => ro OErr st1
             end
      end
  | SAssignSrec e =>
      do (v, st1) <- ev e st;
      match v with
      | VAbsent => ro ONormal st1
      | VMap m => match inrec st1 with
                  | Some _ => ro ONormal (set_inrec (Some m) st1)
                  | None => ro OErr st1
                  end
      | _ => ro OErr st1
      end
  | SUnset b idx =>
      do (vs, st1) <- evs idx st;
      ro ONormal (unset_lvalue b vs st1)
  | SIf arms els => rec (TIfArms arms els) st
  | SWhile c body => rec (TWhile c body) st
  | SDo body c => rec (TDoTail body c) st
  | SFor1 k e body =>
      do (v, st1) <- ev e st;
      match v with
      | VMap m => do (o, st2) <- ex (TIter k None (map_entries m) body) (push_frame st1); ro o (pop_frame st2)
      | VArr a => do (o, st2) <- ex (TIter k None (map (fun e => (e, e)) a) body) (push_frame st1); ro o (pop_frame st2)
      | _ => ro ONormal st1
      end
  | SFor2 k vn e body =>
      do (v, st1) <- ev e st;
      match v with
      | VMap m => do (o, st2) <- ex (TIter k (Some vn) (map_entries m) body) (push_frame st1); ro o (pop_frame st2)
      | VArr a => do (o, st2) <- ex (TIter k (Some vn) (arr_entries 1 a) body) (push_frame st1); ro o (pop_frame st2)
      | _ => ro ONormal st1
      end
  | SForMulti ks vn e body =>
      (* ForLoopMultivariableNode.Execute: the frame for the loop variables is pushed whatever the value is; a break
         coming back from any key level ends the whole loop *)
      do (v, st1) <- ev e st;
      match v with
      | VMap m =>
          do (o, st2) <- ex (TMulti ks vn m body) (push_frame st1);
          ro (match o with OBreak => ONormal | _ => o end) (pop_frame st2)
      | VArr _ => Unsup                        (* multi-key loops over arrays: not modelled *)
      | _ => ro ONormal st1
      end
  | SForC init c upd body =>
      do (o, st1) <- ex (TSeq init) (push_frame st);
      match o with
      | OErr => ro OErr (pop_frame st1)
      | _ => do (o2, st2) <- ex (TForCLoop c upd body) st1; ro o2 (pop_frame st2)
      end
  | SCond c body =>
      do (vc, st1) <- ev c st;
      match vc with
      | VAbsent => ro ONormal st1
      | VBool true => rec (TBlock body) st1
      | VBool false => ro ONormal st1
      | _ => ro OErr st1
      end
  | SBreak => ro OBreak st
  | SContinue => ro OContinue st
  | SReturn None => ro ORetVoid st
  | SReturn (Some e) => do (v, st1) <- ev e st; ro (ORet v) st1
  | SPrint e =>
      do (v, st1) <- ev e st;
      match print_string v with
      | Some s => ro ONormal (emit_item (OLine s) st1)
      | None => Unsup
      end
  | SEmit1 e =>
      do (v, st1) <- ev e st;
      match v with
      | VMap m => ro ONormal (emit_item (ORec m) st1)
      | _ => ro ONormal st1
      end
  | SEmitMap e =>
      do (v, st1) <- ev e st;
      match v with
      | VMap m => do (_, st2) <- rec (TEmitNI m) st1; ro ONormal st2
      | _ => ro ONormal st1
      end
  | SEmitNamed name e keys =>
      do (v, st1) <- ev e st;
      match keys with
      | [] => do (_, st2) <- rec (TEmitNI [(name, v)]) st1; ro ONormal st2
      | _ => match v with
             | VMap m => do (_, st2) <- rec (TEmitIdx false [] name m keys) st1; ro ONormal st2
             | _ => ro ONormal st1
             end
      end
  | SFilter e => do (v, st1) <- ev e st; ro ONormal (set_filt v st1)
  | SBare e => do (v, st1) <- ev e st; ro ONormal st1
  | SCall name args => exec_call name args st
  | SAssignPosName i e =>
      (* PositionalFieldNameLvalueNode.Assign: out-of-range position and unusable name are no-ops *)
      do (v, st1) <- ev e st;
      match v with
      | VAbsent => ro ONormal st1
      | _ =>
          match inrec st1 with
          | None => ro OErr st1
          | Some _ =>
              do (vi, st2) <- ev i st1;
              match vi, inrec st2 with
              | VInt p, Some r => ro ONormal (set_inrec (Some (pos_put_name r p v)) st2)
              | _, _ => ro OErr st2
              end
          end
      end
  | SAssignPosVal i e =>
      do (v, st1) <- ev e st;
      match v with
      | VAbsent => ro ONormal st1
      | _ =>
          match inrec st1 with
          | None => ro OErr st1
          | Some _ =>
              do (vi, st2) <- ev i st1;
              match vi, inrec st2 with
              | VInt p, Some r => ro ONormal (set_inrec (Some (pos_put_value r p v)) st2)
              | _, _ => ro OErr st2
              end
          end
      end
  | SEmitF items =>
      (* EmitFStatementNode.Execute: one record, absent values skipped, PutCopy in order *)
      do (vs, st1) <- evs (map snd items) st;
      ro ONormal (emit_item (ORec (fold_left (fun r kv => match snd kv with VAbsent => r | v => mput (fst kv) v r end)
                                             (combine (map fst items) vs) [])) st1)
  | SEmitP name e keys =>
      (* executeNonIndexedNonLashedEmitP: one record {name: value}; executeIndexed + executeIndexedNonLashedEmitPAux *)
      do (v, st1) <- ev e st;
      match keys with
      | [] => match v with
              | VAbsent => ro ONormal st1
              | _ => ro ONormal (emit_item (ORec [(name, v)]) st1)
              end
      | _ => match v with
             | VMap m => do (_, st2) <- rec (TEmitIdx true [] name m keys) st1; ro ONormal st2
             | _ => ro ONormal st1
             end
      end
  | SEmitLashed isp items =>
      do (vs, st1) <- evs (map snd items) st;
      let nvs := combine (map fst items) vs in
      if isp then
        (* executeNonIndexedLashedEmitP: one record with the present names *)
        ro ONormal (emit_item (ORec (fold_left (fun r kv => match snd kv with VAbsent => r | v => mput (fst kv) v r end) nvs [])) st1)
      else
        match vs with
        | VMap _ :: _ => do (_, st2) <- rec (TEmitNI nvs) st1; ro ONormal st2     (* leading value a map: as the non-lashed emit *)
        | _ :: _ =>
            (* one record: map values are merged in, the others keep their names *)
            ro ONormal (emit_item (ORec (fold_left (fun r kv => match snd kv with
                                                                 | VAbsent => r
                                                                 | VMap m => fold_left (fun r2 kv2 => mput (fst kv2) (snd kv2) r2) m r
                                                                 | v => mput (fst kv) v r
                                                                 end) nvs [])) st1)
        | [] => Unsup
        end
  | SPrintN e =>
      do (v, st1) <- ev e st;
      match print_string v with
      | Some s => ro ONormal (emit_item (OText s) st1)
      | None => Unsup
      end
  | SEprint e => do (v, st1) <- ev e st; ro ONormal st1
  | SDump eo =>
      (* DumpStatementNode.Execute: the text of each present value and a newline, as ONE output string *)
      do (v, st1) <- match eo with Some e => ev e st | None => Ok (VMap (oos st), st) end;
      match v with
      | VAbsent => ro ONormal (emit_item (OText []) st1)
      | _ => match print_string v with
             | Some s => ro ONormal (emit_item (OLine s) st1)
             | None => Unsup
             end
      end
  | SEdump => ro ONormal st
  end.

Definition cond_bool (v : value) : option bool := match v with VBool b => Some b | _ => None end.

Definition step (t : task) (st : state) : res (tres * state) :=
  match t with
  | TEval e => eval_expr e st
  | TEvals [] => Ok (RVs [], st)
  | TEvals (e :: es) =>
      do (v, st1) <- ev e st; do (vs, st2) <- evs es st1; Ok (RVs (v :: vs), st2)
  | TIdx [] acc => Ok (ROpt (Some (rev acc)), st)
  | TIdx (e :: es) acc =>
      do (v, st1) <- ev e st;
      match v with VAbsent => Ok (ROpt None, st1) | _ => rec (TIdx es (v :: acc)) st1 end
  | TArgs soft [] [] => Ok (RVs [], st)
  | TArgs soft (e :: es) ((ty, _) :: ps) =>
      do (v, st1) <- ev e st;
      if gate ty v then
        do (r, st2) <- rec (TArgs soft es ps) st1;
        match r with
        | RVs vs => Ok (RVs (v :: vs), st2)
        | ROpt None => Ok (ROpt None, st2)
        | _ => Unsup
        end
      else if soft then Ok (ROpt None, st1) else Fatal
  | TArgs _ _ _ => Fatal
  | TMapLit [] acc => rv (VMap acc) st
  | TMapLit ((ke, ve) :: rest) acc =>
      do (vk, st1) <- ev ke st; do (vv, st2) <- ev ve st1;
      let acc' := match vv with
                  | VAbsent => acc
                  | _ => match key_for_put vk with Some ks => mput ks vv acc | None => acc end
                  end in
      rec (TMapLit rest acc') st2
  | TExec s => exec_stmt s st
  | TSeq [] => ro ONormal st
  | TSeq (s :: rest) =>
      do (o, st1) <- ex (TExec s) st;
      match o with ONormal => rec (TSeq rest) st1 | _ => ro o st1 end
  | TBlock ss =>
      do (o, st1) <- ex (TSeq ss) (push_frame st); ro o (pop_frame st1)
  | TIfArms [] None => ro ONormal st
  | TIfArms [] (Some b) => rec (TBlock b) st
  | TIfArms ((c, b) :: more) els =>
      do (vc, st1) <- ev c st;
      match cond_bool vc with
      | None => ro OErr st1
      | Some true => rec (TBlock b) st1
      | Some false => rec (TIfArms more els) st1
      end
  | TWhile c body =>
      do (vc, st1) <- ev c st;
      match cond_bool vc with
      | None => ro OErr st1
      | Some false => ro ONormal st1
      | Some true =>
          do (o, st2) <- ex (TBlock body) st1;
          loop_after_body o st2 (rec (TWhile c body))
      end
  | TDoTail body c =>
      do (o, st1) <- ex (TBlock body) st;
      loop_after_body o st1 (fun st1 =>
        do (vc, st2) <- ev c st1;
        match cond_bool vc with
        | None => ro OErr st2
        | Some false => ro ONormal st2
        | Some true => rec (TDoTail body c) st2
        end)
  | TIter k vn [] body => ro ONormal st
  | TIter k vn ((key, val) :: more) body =>
      match a_set_at_scope k key (stk st) with
      | None => ro OErr st
      | Some s1 =>
          match (match vn with Some vname => a_set_at_scope vname val s1 | None => Some s1 end) with
          | None => ro OErr st
          | Some s2 =>
              do (o, st1) <- ex (TBlock body) (set_stk s2 st);
              loop_after_body o st1 (rec (TIter k vn more body))
          end
      end
  | TMulti [] vn _ body => ro ONormal st
  | TMulti (k :: ks) vn [] body => ro ONormal st
  | TMulti (k :: ks) vn ((key, val) :: more) body =>
      match a_set_at_scope k (VStr key) (stk st) with
      | None => ro OErr st
      | Some s1 =>
          match ks with
          | [] =>
              (* executeInner: bind the value too and run the body *)
              match a_set_at_scope vn val s1 with
              | None => ro OErr st
              | Some s2 =>
                  do (o, st1) <- ex (TBlock body) (set_stk s2 st);
                  match o with
                  | ONormal | OContinue => rec (TMulti (k :: ks) vn more body) st1
                  | _ => ro o st1                      (* break, return, error: handed upward unchanged *)
                  end
              end
          | _ =>
              (* executeOuter: descend into map-valued entries, skip the others *)
              match val with
              | VMap sub =>
                  do (o, st1) <- ex (TMulti ks vn sub body) (set_stk s1 st);
                  match o with
                  | ONormal => rec (TMulti (k :: ks) vn more body) st1
                  | _ => ro o st1
                  end
              | VArr _ => Unsup
              | _ => rec (TMulti (k :: ks) vn more body) (set_stk s1 st)
              end
          end
      end
  | TForCLoop c upd body =>
      do (vc, st1) <- match c with Some ce => ev ce st | None => Ok (VBool true, st) end;
      match cond_bool vc with
      | None => ro OErr st1
      | Some false => ro ONormal st1
      | Some true =>
          do (o, st2) <- ex (TBlock body) st1;
          loop_after_body o st2 (fun st2 =>
            do (o3, st3) <- ex (TSeq upd) (push_frame st2);
            match o3 with
            | OErr => ro OErr (pop_frame st3)
            | _ => rec (TForCLoop c upd body) (pop_frame st3)
            end)
      end
  | TEmitNI [] => ro ONormal st
  | TEmitNI ((n, v) :: rest) =>
      match v with
      | VAbsent => rec (TEmitNI rest) st
      | VMap m =>
          if first_is_map m
          then do (_, st1) <- rec (TEmitNI m) st; rec (TEmitNI rest) st1
          else rec (TEmitNI rest) (emit_item (ORec m) st)
      | _ => rec (TEmitNI rest) (emit_item (ORec [(n, v)]) st)
      end
  | TEmitIdx isp template name [] keys => ro ONormal st
  | TEmitIdx isp template name ((k, v) :: more) [] => Unsup
  | TEmitIdx isp template name ((k, v) :: more) (key :: krest) =>
      let newrec := mput key (VStr k) template in
      do (_, st1) <-
        match krest with
        | [] =>
            match v, isp with
            | VMap vm, false => ro ONormal (emit_item (ORec (fold_left (fun r kv => mput (fst kv) (snd kv) r) vm newrec)) st)
            | _, _ => ro ONormal (emit_item (ORec (mput name v newrec)) st)
            end
        | _ =>
            match v with
            | VMap vm => rec (TEmitIdx true newrec name vm krest) st
            | _ => ro ONormal (emit_item (ORec (mput name v newrec)) st)
            end
        end;
      rec (TEmitIdx isp template name more (key :: krest)) st1
  | THof h ismap lit fn [] acc => rv acc st
  | THof h ismap lit fn (item :: rest) acc =>
      do (r, st1) <- call_values lit fn (hof_args h ismap acc item) st;
      match hof_next h ismap acc item r with
      | HCont acc' => rec (THof h ismap lit fn rest acc') st1
      | HDone v => rv v st1
      | HFatal => Fatal
      end
  | TSort lit fn arr i j =>
      (* insertionSortLessFunc: for i := 1; i < n; i++ { for j := i; j > 0 && less(j, j-1); j-- { swap(j, j-1) } } *)
      if (List.length arr <=? i)%nat then rv (items_value (match arr with [_; _] :: _ => true | _ => false end) arr) st
      else match j with
           | O => rec (TSort lit fn arr (S i) (S i)) st
           | S j' =>
               do (r, st1) <- call_values lit fn (nth j arr [] ++ nth j' arr []) st;
               match r with
               | VInt z => if z <? 0 then rec (TSort lit fn (swap_adj arr j) i j') st1
                           else rec (TSort lit fn arr (S i) (S i)) st1
               | _ => Fatal
               end
           end
  end.

End Step.

Fixpoint run (fns : list fdef) (fuel : nat) : recfn :=
  match fuel with
  | O => fun _ _ => OutOfFuel
  | S f => step fns (run fns f)
  end.

(* ---- the put transformer: put_or_filter.go Transform *)
Definition init_state : state :=
  {| inrec := None; oos := []; stk := a_new; filt := VAbsent; outp := []; nr := 0 |}.

Definition run_block (fns : list fdef) (fuel : nat) (b : list stmt) (st : state) : res state :=
  do (r, st') <- run fns fuel (TBlock b) st;
  match r with
  | RO OErr => Fatal
  | RO _ => Ok st'
  | _ => Unsup
  end.

Fixpoint run_blocks (fns : list fdef) (fuel : nat) (bs : list (list stmt)) (st : state) : res state :=
  match bs with
  | [] => Ok st
  | b :: t => do st' <- run_block fns fuel b st; run_blocks fns fuel t st'
  end.

Definition passes (quiet : bool) (f : value) : bool :=
  if quiet then false else match f with VBool false => false | _ => true end.

Fixpoint run_records (vr : variant) (p : prog) (quiet : bool) (fuel : nat) (recs : list amap) (st : state) : res state :=
  match recs with
  | [] => Ok st
  | r :: t =>
      let st0 := set_nr (nr st + 1) (set_inrec (Some r) st) in
      let st0 := if v_filter_per_record vr then set_filt VAbsent st0 else st0 in
      do st1 <- run_block (p_funcs p) fuel (p_main p) st0;
      let st2 := match inrec st1 with
                 | Some r' => if passes quiet (filt st1) then emit_item (ORec r') st1 else st1
                 | None => st1
                 end in
      run_records vr p quiet fuel t st2
  end.

Definition run_prog (vr : variant) (p : prog) (quiet : bool) (fuel : nat) (recs : list amap) : res (list outitem) :=
  (* the begin blocks run when the first record arrives, with that record's context (NR = 1), or at end of stream (NR = 0) *)
  do st1 <- run_blocks (p_funcs p) fuel (p_begin p) (set_nr (match recs with [] => 0 | _ => 1 end) init_state);
  do st2 <- run_records vr p quiet fuel recs (set_nr 0 st1);
  do st3 <- run_blocks (p_funcs p) fuel (p_end p) (set_inrec None st2);
  Ok (rev (outp st3)).
