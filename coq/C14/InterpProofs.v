(* C14 lemmas about single interpreter steps, the record loop, and emit-by-names. *)
From Miller Require Import C14.Value C14.Stack C14.Model C14.Proofs C14.StackProofs.
Open Scope Z_scope.

(* ---- absent assignment is skipped: the statement changes nothing beyond what evaluating its right-hand side did;
   the indices of the left-hand side are not even evaluated *)
Lemma absent_assignment_skipped fns rec b idx e st st1 :
  rec (TEval e) st = Ok (RV VAbsent, st1) ->
  step fns rec (TExec (SAssign b idx e)) st = Ok (RO ONormal, st1).
Proof. intros H. cbn [step exec_stmt]. unfold ev. rewrite H. reflexivity. Qed.

Lemma absent_declaration_skipped fns rec t x e st st1 :
  rec (TEval e) st = Ok (RV VAbsent, st1) ->
  step fns rec (TExec (SDefine t x e)) st = Ok (RO ONormal, st1).
Proof. intros H. cbn [step exec_stmt]. unfold ev. rewrite H. reflexivity. Qed.

(* a present value assigned to a field lands in the record by Mlrmap.PutCopy: position kept or appended (Proofs.v) *)
Lemma field_assignment_is_put fns rec k e st st1 v r :
  rec (TEval e) st = Ok (RV v, st1) -> v <> VAbsent -> inrec st1 = Some r ->
  step fns rec (TExec (SAssign (LField k) [] e)) st = Ok (RO ONormal, set_inrec (Some (mput k v r)) st1).
Proof.
  intros H Hv Hr. cbn [step exec_stmt]. unfold ev. rewrite H. cbn. destruct v; try contradiction; cbn; unfold assign_direct; rewrite Hr; reflexivity.
Qed.

(* ---- out-of-stream variables persist across records: the next record starts from the oosvars (and nothing else of the
   DSL state but the filter flag and the recycled stack) the previous record's main block left behind *)
Lemma oosvars_persist vr p q fuel r t st st1 :
  run_block (p_funcs p) fuel (p_main p)
    (let st0 := set_nr (nr st + 1) (set_inrec (Some r) st) in if v_filter_per_record vr then set_filt VAbsent st0 else st0) = Ok st1 ->
  exists st2, run_records vr p q fuel (r :: t) st = run_records vr p q fuel t st2 /\ oos st2 = oos st1 /\ stk st2 = stk st1.
Proof.
  intros H. cbn [run_records]. cbv zeta in H. rewrite H. cbn [bind].
  eexists. split; [reflexivity|]. destruct (inrec st1); [destruct (passes q (filt st1))|]; split; reflexivity.
Qed.

(* ---- the filter statement decides about the current record only (reference semantics = variant [documented]) *)
Lemma filter_is_per_record vr p q fuel r t st f :
  v_filter_per_record vr = true ->
  run_records vr p q fuel (r :: t) (set_filt f st) = run_records vr p q fuel (r :: t) st.
Proof. intros Hv. cbn [run_records]. rewrite Hv. reflexivity. Qed.

(* the pinned tree keeps FilterExpression across records (put_or_filter.go never resets it): in that variant a filter
   statement executed for record 1 drops record 2 as well *)
Definition sticky_witness : prog :=
  {| p_funcs := []; p_begin := [];
     p_main := [SIf [(EBin (BCmp CEq) ENR (EInt 1), [SFilter (EBool false)])] None];
     p_end := [] |}.

Lemma filter_sticky_variant_drops_later_records :
  run_prog {| v_filter_per_record := false |} sticky_witness false 50 [[(B "a", VInt 1)]; [(B "a", VInt 2)]] = Ok []
  /\ run_prog documented sticky_witness false 50 [[(B "a", VInt 1)]; [(B "a", VInt 2)]] = Ok [ORec [(B "a", VInt 2)]].
Proof. split; vm_compute; reflexivity. Qed.

(* ---- indexed assignment to a typed local is an assignment: a local declared with type t accepts x[i] = v only when t
   admits maps; a scalar-, void-, absent- or error-valued local becomes a fresh map through its gate, a map-valued one is
   updated (and stays a map) *)
Lemma gate_map_irrelevant t m m' : gate t (VMap m) = gate t (VMap m').
Proof. destruct t; reflexivity. Qed.

Lemma gate_arr_irrelevant t a a' : gate t (VArr a) = gate t (VArr a').
Proof. destruct t; reflexivity. Qed.

(* with arrays in the value domain: either the declared type admits maps, or the local already held an array (which
   PutIndexed keeps an array, see ArrayProofs.put_indexed_keeps_kind) and the type admits arrays *)
Lemma indexed_assignment_gated x vs v st fs r t st' :
  stk st = fs :: r -> fs_type x fs = Some t ->
  (forall c, fs_get x fs = Some c -> is_coll c = true -> gate t c = true) ->
  assign_local_indexed x vs v st = Ok (RO ONormal, st') ->
  (forall m, gate t (VMap m) = true) \/ (exists a, fs_get x fs = Some (VArr a) /\ forall a', gate t (VArr a') = true).
Proof.
  intros Hs Ht Hwt H. unfold assign_local_indexed in H. rewrite Hs in H.
  assert (Hfresh : of_pres (fresh_indexed vs v)
            (fun m0 => match a_set x (VMap m0) (fs :: r) with
                       | Some s => ro ONormal (set_stk s st)
                       | None => ro OErr st
                       end) st = Ok (RO ONormal, st') -> forall m, gate t (VMap m) = true).
  { unfold of_pres. destruct (fresh_indexed vs v) as [m0| |]; try discriminate.
    destruct (a_set x (VMap m0) (fs :: r)) as [s|] eqn:E; [|discriminate]. intros _ m.
    rewrite (gate_map_irrelevant t m m0). eapply C14.StackProofs.set_respects_gate; eauto. }
  destruct (fs_get x fs) as [c|] eqn:Eg; [|left; now apply Hfresh].
  destruct c; cbn [is_coll is_map is_arr orb] in H; try (left; now apply Hfresh).
  - left. intros m0. rewrite (gate_map_irrelevant t m0 m). now apply Hwt.
  - right. exists l. split; [reflexivity|]. intros a'. rewrite (gate_arr_irrelevant t a' l). now apply Hwt.
Qed.

(* ---- emit @name, "a", "b" on a two-level map = the records of the two-level grouping, in map order *)
Definition group2 (name a b : bytes) (m : amap) : list amap :=
  flat_map (fun kv => match snd kv with
                      | VMap m1 => map (fun kv2 => [(a, VStr (fst kv)); (b, VStr (fst kv2)); (name, snd kv2)]) m1
                      | _ => []
                      end) m.

Definition leaf (v : value) : bool := match v with VMap _ => false | _ => true end.
Definition two_level (m : amap) : bool :=
  forallb (fun kv => match snd kv with VMap m1 => forallb (fun kv2 => leaf (snd kv2)) m1 | _ => false end) m.

Fixpoint total2 (m : amap) : nat :=
  match m with
  | [] => O
  | (_, v) :: t => S ((match v with VMap m1 => List.length m1 | _ => O end) + total2 t)
  end.

Definition emit_all (rs : list amap) (st : state) : state := fold_left (fun s r => emit_item (ORec r) s) rs st.

Lemma beqb_false a b : a <> b -> beqb a b = false.
Proof. intros H. destruct (beqb_spec a b); congruence. Qed.

Lemma emit_inner fns name a b k1 : a <> b -> a <> name -> b <> name ->
  forall m1 fuel st, forallb (fun kv2 => leaf (snd kv2)) m1 = true -> (List.length m1 < fuel)%nat ->
  run fns fuel (TEmitIdx true [(a, VStr k1)] name m1 [b]) st
  = Ok (RO ONormal, emit_all (map (fun kv2 => [(a, VStr k1); (b, VStr (fst kv2)); (name, snd kv2)]) m1) st).
Proof.
  intros Hab Han Hbn. induction m1 as [|[k2 v] m1 IH]; intros fuel st Hl Hf; (destruct fuel as [|f]; [cbn in Hf; lia|]).
  - reflexivity.
  - cbn [forallb snd] in Hl. apply andb_true_iff in Hl. destruct Hl as [Hv Hl].
    assert (Hf' : (List.length m1 < f)%nat) by (cbn in Hf; lia).
    destruct v; try discriminate Hv;
      (cbn [run step]; cbn [mput]; rewrite (beqb_false b a) by congruence; cbn [mput];
       rewrite (beqb_false name a), (beqb_false name b) by congruence;
       unfold ro; cbn [bind]; rewrite (IH f _ Hl Hf'); reflexivity).
Qed.

Lemma emit_all_app rs1 rs2 st : emit_all (rs1 ++ rs2) st = emit_all rs2 (emit_all rs1 st).
Proof. unfold emit_all. now rewrite fold_left_app. Qed.

Lemma emit_by_names_is_grouping fns name a b : a <> b -> a <> name -> b <> name ->
  forall m fuel st, two_level m = true -> (total2 m < fuel)%nat ->
  run fns fuel (TEmitIdx false [] name m [a; b]) st = Ok (RO ONormal, emit_all (group2 name a b m) st).
Proof.
  intros Hab Han Hbn. induction m as [|[k1 v1] m IH]; intros fuel st Hl Hf; (destruct fuel as [|f]; [cbn in Hf; lia|]).
  - reflexivity.
  - cbn [two_level forallb snd] in Hl. apply andb_true_iff in Hl. destruct Hl as [Hv Hl].
    destruct v1 as [| | | | |m1|]; try discriminate.
    cbn [run step]. cbn [mput total2] in *.
    rewrite (emit_inner fns name a b k1 Hab Han Hbn m1 f st Hv) by lia.
    cbn [bind]. rewrite IH; [|exact Hl|lia].
    cbn [group2 flat_map snd fst]. rewrite emit_all_app. reflexivity.
Qed.

(* ---- multi-key for-loops: a break (or return, or error) coming back from a deeper key level is handed upward unchanged
   by every enclosing key level, and ends the whole loop *)
Lemma multikey_exit_propagates fns rec k k2 ks vn key sub more body st s1 o st2 :
  a_set_at_scope k (VStr key) (stk st) = Some s1 ->
  rec (TMulti (k2 :: ks) vn sub body) (set_stk s1 st) = Ok (RO o, st2) -> o <> ONormal ->
  step fns rec (TMulti (k :: k2 :: ks) vn ((key, VMap sub) :: more) body) st = Ok (RO o, st2).
Proof.
  intros Hs Hr Ho. cbn [step]. rewrite Hs. unfold ex. rewrite Hr. cbn [bind]. destruct o; try reflexivity. contradiction.
Qed.

Lemma multikey_break_ends_loop fns rec ks vn e body st m st1 st2 :
  rec (TEval e) st = Ok (RV (VMap m), st1) ->
  rec (TMulti ks vn m body) (push_frame st1) = Ok (RO OBreak, st2) ->
  step fns rec (TExec (SForMulti ks vn e body)) st = Ok (RO ONormal, pop_frame st2).
Proof. intros He Hm. cbn [step exec_stmt]. unfold ev, ex. rewrite He. cbn [bind]. rewrite Hm. reflexivity. Qed.

(* ---- by value at function RETURN: once a sub-expression has been evaluated to v, v is what the enclosing expression
   uses, whatever the evaluation of the remaining sub-expressions does to the storage v was read from *)
Lemma earlier_value_is_a_snapshot fns rec e es st v st1 vs st2 :
  rec (TEval e) st = Ok (RV v, st1) -> rec (TEvals es) st1 = Ok (RVs vs, st2) ->
  step fns rec (TEvals (e :: es)) st = Ok (RVs (v :: vs), st2).
Proof. intros He Hs. cbn [step]. unfold ev, evs. rewrite He. cbn [bind]. rewrite Hs. reflexivity. Qed.

Lemma earlier_argument_is_a_snapshot fns rec soft e es t x ps st v st1 vs st2 :
  rec (TEval e) st = Ok (RV v, st1) -> gate t v = true -> rec (TArgs soft es ps) st1 = Ok (RVs vs, st2) ->
  step fns rec (TArgs soft (e :: es) ((t, x) :: ps)) st = Ok (RVs (v :: vs), st2).
Proof. intros He Hg Hs. cbn [step]. unfold ev. rewrite He. cbn [bind]. rewrite Hg, Hs. reflexivity. Qed.

(* the scenario of the missed mutation: f() returns the oosvar map @c, bump() then changes @c, g receives both *)
Definition return_snapshot_witness : prog :=
  let incr n := SAssign (LOos (B "c")) [EStr (B "v")] (EBin (BArith OAdd) (EIndex (EOos (B "c")) (EStr (B "v"))) (EInt n)) in
  {| p_funcs := [
       {| f_name := B "f"; f_sub := false; f_params := []; f_ret := TMap; f_body := [incr 1; SReturn (Some (EOos (B "c")))] |};
       {| f_name := B "bump"; f_sub := false; f_params := []; f_ret := TStr; f_body := [incr 100; SReturn (Some (EStr (B "bumped")))] |};
       {| f_name := B "g"; f_sub := false; f_params := [(TMap, B "m"); (TStr, B "s")]; f_ret := TStr;
          f_body := [SReturn (Some (EBin BDot (EBin BDot (EIndex (ELocal (B "m")) (EStr (B "v"))) (EStr (B "/"))) (ELocal (B "s"))))] |}];
     p_begin := []; p_main := [];
     p_end := [[SPrint (ECall (B "g") [ECall (B "f") []; ECall (B "bump") []]); SPrint (EIndex (EOos (B "c")) (EStr (B "v")))]] |}.

Lemma return_snapshot_example :
  run_prog documented return_snapshot_witness false 60 [] = Ok [OLine (B "1/bumped"); OLine (B "101")].
Proof. vm_compute. reflexivity. Qed.
