(* C14 lemmas about the interpreter of Model.v *)
From Miller Require Import C14.Value C14.Stack C14.Model.
Open Scope Z_scope.

Lemma beqb_refl a : beqb a a = true.
Proof. destruct (beqb_spec a a); congruence. Qed.

(* ---- records: new fields append, reassigned fields keep their position (Mlrmap.PutCopy) *)
Lemma mkeys_mput_present k v m : mhas k m = true -> mkeys (mput k v m) = mkeys m.
Proof.
  unfold mhas. induction m as [|[k' v'] m IH]; cbn; [discriminate|].
  destruct (beqb k k') eqn:E; cbn; [reflexivity|]. intros H. unfold mkeys in IH. now rewrite IH.
Qed.

Lemma mkeys_mput_absent k v m : mhas k m = false -> mkeys (mput k v m) = mkeys m ++ [k].
Proof.
  unfold mhas. induction m as [|[k' v'] m IH]; cbn; [reflexivity|].
  destruct (beqb k k') eqn:E; cbn; [discriminate|]. intros H. unfold mkeys in IH. now rewrite IH.
Qed.

Lemma mget_mput_same k v m : mget k (mput k v m) = Some v.
Proof.
  induction m as [|[k' v'] m IH]; cbn; [now rewrite beqb_refl|].
  destruct (beqb k k') eqn:E; cbn; rewrite E; auto.
Qed.

Lemma mget_mput_other k k' v m : k <> k' -> mget k' (mput k v m) = mget k' m.
Proof.
  intros Hne. induction m as [|[k2 v2] m IH]; cbn.
  - destruct (beqb_spec k' k); [congruence|reflexivity].
  - destruct (beqb_spec k k2) as [->|Hk]; cbn.
    + destruct (beqb_spec k' k2); [congruence|reflexivity].
    + destruct (beqb k' k2); auto.
Qed.

(* ---- fuel monotonicity: more fuel never changes a result other than OutOfFuel *)
Definition le_res {A} (r r' : res A) : Prop := r = OutOfFuel \/ r = r'.
Definition rec_le (f g : recfn) : Prop := forall t st, le_res (f t st) (g t st).

Lemma le_res_refl {A} (r : res A) : le_res r r.
Proof. right; reflexivity. Qed.

Lemma le_bind {A B} (r r' : res A) (k k' : A -> res B) :
  le_res r r' -> (forall a, le_res (k a) (k' a)) -> le_res (bind r k) (bind r' k').
Proof.
  intros [-> | ->] Hk; [left; reflexivity|]. destruct r'; cbn; auto using le_res_refl.
Qed.

Ltac mono H :=
  repeat first
    [ apply le_res_refl
    | apply H
    | apply le_bind; [|intros]
    | match goal with
      | |- le_res (match ?x with _ => _ end) (match ?x with _ => _ end) => destruct x
      | |- le_res (if ?x then _ else _) (if ?x then _ else _) => destruct x
      | |- le_res (let '(_, _) := ?x in _) (let '(_, _) := ?x in _) => destruct x
      end ].

Lemma step_mono fns f g : rec_le f g -> rec_le (step fns f) (step fns g).
Proof.
  intros H t st. destruct t; cbn [step].
  - (* TEval *)
    destruct e; cbn [eval_expr]; unfold eval_hof, eval_logic, eval_call, ev, evs, ex, lift, rv, ro; mono H.
  - destruct es; unfold ev, evs; mono H.
  - destruct es; unfold ev, evs; mono H.
  - destruct es; destruct ps; unfold ev, evs; mono H.
  - destruct kvs as [|[ke ve] rest]; unfold ev, evs, rv; mono H.
  - (* TExec *)
    destruct s; cbn [exec_stmt];
      unfold exec_call, assign_direct, assign_indexed, assign_local_indexed, fresh_indexed, of_pres, loop_after_body, ev, evs, ex, lift, rv, ro; mono H.
  - destruct ss; unfold ex, ro; mono H.
  - unfold ex, ro; mono H.
  - destruct arms as [|[c b] more]; unfold ev, ro; mono H.
  - unfold loop_after_body, ev, ex, ro; mono H.
  - unfold loop_after_body, ev, ex, ro; mono H.
  - destruct entries as [|[key val] more]; unfold loop_after_body, ev, ex, ro; mono H.
  - destruct ks as [|k ks]; [unfold ro; mono H|]. destruct entries as [|[key val] more]; unfold ex, ro; mono H.
  - unfold loop_after_body, ev, ex, ro; mono H.
  - destruct nvs as [|[n v] rest]; unfold ro; mono H.
  - destruct entries as [|[k v] more]; [unfold ro; mono H|]. destruct keys as [|key krest]; unfold ro; mono H.
  - destruct items; unfold call_values, ex, rv; mono H.
  - unfold call_values, ex, rv; mono H.
Qed.

Lemma run_mono_S fns fuel : rec_le (run fns fuel) (run fns (S fuel)).
Proof.
  induction fuel as [|n IH]; [intros t st; left; reflexivity|].
  change (run fns (S (S n))) with (step fns (run fns (S n))).
  change (run fns (S n)) with (step fns (run fns n)) at 1.
  now apply step_mono.
Qed.

Lemma run_mono fns fuel fuel' : (fuel <= fuel')%nat -> rec_le (run fns fuel) (run fns fuel').
Proof.
  induction 1 as [|m Hle IH]; [intros t st; apply le_res_refl|].
  intros t st. destruct (IH t st) as [-> | ->]; [left; reflexivity|]. apply run_mono_S.
Qed.

Lemma fuel_monotone fns fuel fuel' t st r :
  (fuel <= fuel')%nat -> run fns fuel t st = r -> r <> OutOfFuel -> run fns fuel' t st = r.
Proof.
  intros Hle Hr Hne. destruct (run_mono fns fuel fuel' Hle t st) as [E|E]; congruence.
Qed.
