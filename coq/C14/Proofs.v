(* C14 lemmas about the interpreter of Model.v *)
From Miller Require Import C14.Value C14.Stack C14.Model.
Open Scope Z_scope.

Lemma beqb_refl a : beqb a a = true.
Proof. destruct (beqb_spec a a); congruence. Qed.

(* ---- records: new fields append, reassigned fields keep their position (Mlrmap.PutCopy) *)
Lemma mkeys_mput_present k v m : mhas k m = true -> mkeys (mput k v m) = mkeys m.
Proof.
  unfold mhas. induction m as [|[k' v'] m IH]; cbn; [discriminate|].
  destruct (beqb k k') eqn:E; cbn; [reflexivity|]. intros H. unfold mkeys in IH. now rewrite IH.
Qed.

Lemma mkeys_mput_absent k v m : mhas k m = false -> mkeys (mput k v m) = mkeys m ++ [k].
Proof.
  unfold mhas. induction m as [|[k' v'] m IH]; cbn; [reflexivity|].
  destruct (beqb k k') eqn:E; cbn; [discriminate|]. intros H. unfold mkeys in IH. now rewrite IH.
Qed.

Lemma mget_mput_same k v m : mget k (mput k v m) = Some v.
Proof.
  induction m as [|[k' v'] m IH]; cbn; [now rewrite beqb_refl|].
  destruct (beqb k k') eqn:E; cbn; rewrite E; auto.
Qed.

Lemma mget_mput_other k k' v m : k <> k' -> mget k' (mput k v m) = mget k' m.
Proof.
  intros Hne. induction m as [|[k2 v2] m IH]; cbn.
  - destruct (beqb_spec k' k); [congruence|reflexivity].
  - destruct (beqb_spec k k2) as [->|Hk]; cbn.
    + destruct (beqb_spec k' k2); [congruence|reflexivity].
    + destruct (beqb k' k2); auto.
Qed.
