(* C14: laws of the array part of the value model (Value.v: arr_get, put_indexed, remove_indexed, slice_list),
   i.e. of pkg/mlrval/mlrval_collections.go UnaliasArrayLengthIndex / ArrayGet / putIndexedOnArray / removeIndexedOnArray
   and bifs.MillerSliceAccess as used by ArraySliceAccessNode. *)
From Miller Require Import C14.Value C14.Stack C14.Model.
From Coq Require Import Lia ZifyBool ZifyNat.
Open Scope Z_scope.

Ltac unal := unfold arr_get, arr_inb, zidx, C15.Model.unalias in *.

(* negative aliases: -1 is the last element, -n the first *)
Lemma array_index_alias a k : 1 <= k <= alen a -> arr_get a (k - alen a - 1) = arr_get a k.
Proof.
  intros H. unal. set (n := alen a) in *.
  replace (((1 <=? k - n - 1) && (k - n - 1 <=? n)) || ((k - n - 1 <=? -1) && (- n <=? k - n - 1))) with true by lia.
  replace (((1 <=? k) && (k <=? n)) || ((k <=? -1) && (- n <=? k))) with true by lia.
  destruct (1 <=? k - n - 1) eqn:E1; [lia|]. destruct (k - n - 1 <=? -1) eqn:E2; [|lia].
  destruct (1 <=? k) eqn:E3; [|lia]. f_equal. lia.
Qed.

(* reads out of bounds (index 0 included) are absent, not errors *)
Lemma array_read_out_of_bounds_is_absent a k : arr_inb (alen a) k = false -> index_read (VArr a) (VInt k) = Ok VAbsent.
Proof. intros H. cbn. unfold arr_get. now rewrite H. Qed.

Lemma array_read_in_bounds a k : 1 <= k <= alen a -> index_read (VArr a) (VInt k) = Ok (nth (Z.to_nat (k - 1)) a VAbsent).
Proof.
  intros H. cbn. unal. replace (((1 <=? k) && (k <=? alen a)) || ((k <=? -1) && (- alen a <=? k))) with true by lia.
  destruct (1 <=? k) eqn:E; [|lia].
  assert (Hl : (Z.to_nat (k - 1) < List.length a)%nat) by (unfold alen in H; lia).
  destruct (nth_error a (Z.to_nat (k - 1))) eqn:En.
  - now rewrite (nth_error_nth _ _ _ En).
  - apply nth_error_None in En. lia.
Qed.

Lemma list_set_length {A} (l : list A) : forall i x, List.length (arr_set l i x) = List.length l.
Proof. induction l as [|h t IH]; intros [|i] x; cbn; auto. Qed.

Lemma list_set_nth_same {A} (l : list A) : forall i x, (i < List.length l)%nat -> nth_error (arr_set l i x) i = Some x.
Proof. induction l as [|h t IH]; intros [|i] x H; cbn in *; try lia; auto. apply IH. lia. Qed.

Lemma list_set_nth_other {A} (l : list A) : forall i j x, i <> j -> nth_error (arr_set l i x) j = nth_error l j.
Proof. induction l as [|h t IH]; intros [|i] [|j] x H; cbn in *; auto; try congruence. Qed.

(* assignment to an in-bounds index (positive or negative alias) replaces exactly that element *)
Lemma array_put_get a k v :
  arr_inb (alen a) k = true ->
  exists a', put_indexed (VArr a) [VInt k] v = VOk (VArr a') /\ arr_get a' k = Some v /\ alen a' = alen a.
Proof.
  intros H. exists (arr_set a (zidx (alen a) k) v). cbn. rewrite H. split; [reflexivity|].
  assert (Hl : alen (arr_set a (zidx (alen a) k) v) = alen a) by (unfold alen; now rewrite list_set_length).
  split; [|exact Hl]. unfold arr_get. rewrite Hl, H. apply list_set_nth_same.
  unal. unfold alen in *. destruct (1 <=? k) eqn:E1; [lia|]. destruct (k <=? -1) eqn:E2; lia.
Qed.

Lemma array_put_other a k j v :
  arr_inb (alen a) k = true -> zidx (alen a) k <> zidx (alen a) j ->
  arr_get (arr_set a (zidx (alen a) k) v) j = arr_get a j.
Proof.
  intros H Hne. unfold arr_get. replace (alen (arr_set a (zidx (alen a) k) v)) with (alen a) by (unfold alen; now rewrite list_set_length).
  destruct (arr_inb (alen a) j); [|reflexivity]. now apply list_set_nth_other.
Qed.

(* auto-extend: writing one past the end appends exactly one element; index 0 and negative indices before the start are
   errors (the array is untouched: the statement fails); further out Miller fills the gap with JSON nulls, which the
   model does not represent (VUnsup: such programs are skipped by the correspondence) *)
Lemma array_auto_extend_by_one a v : put_indexed (VArr a) [VInt (alen a + 1)] v = VOk (VArr (a ++ [v])).
Proof.
  cbn. unfold arr_inb. replace (((1 <=? alen a + 1) && (alen a + 1 <=? alen a)) || ((alen a + 1 <=? -1) && (- alen a <=? alen a + 1))) with false by (unfold alen; lia).
  replace (alen a + 1 <=? 0) with false by (unfold alen; lia). now rewrite Z.eqb_refl.
Qed.

Lemma array_put_zero_or_before_start_is_error a k v : k = 0 \/ k < - alen a -> put_indexed (VArr a) [VInt k] v = VErr.
Proof.
  intros H. cbn. unfold arr_inb. replace (((1 <=? k) && (k <=? alen a)) || ((k <=? -1) && (- alen a <=? k))) with false by (unfold alen in *; lia).
  replace (k <=? 0) with true by (unfold alen in *; lia). reflexivity.
Qed.

Lemma array_put_beyond_is_outside_fragment a k v : alen a + 1 < k -> put_indexed (VArr a) [VInt k] v = VUnsup.
Proof.
  intros H. cbn. unfold arr_inb. replace (((1 <=? k) && (k <=? alen a)) || ((k <=? -1) && (- alen a <=? k))) with false by (unfold alen in *; lia).
  replace (k <=? 0) with false by (unfold alen in *; lia). replace (k =? alen a + 1) with false by lia. reflexivity.
Qed.

(* PutIndexed never changes the kind of the collection it is applied to: a map stays a map, an array an array (so a local
   declared arr/map keeps satisfying its declaration under indexed assignment) *)
Lemma put_indexed_keeps_kind idx : forall c v c', is_coll c = true -> put_indexed c idx v = VOk c' -> is_map c' = is_map c /\ is_arr c' = is_arr c.
Proof.
  destruct idx as [|k rest]; intros c v c' Hc H; [discriminate|].
  destruct c; try discriminate Hc; cbn [put_indexed] in H.
  - destruct rest.
    + destruct (key_for_put k); inversion H; subst; auto.
    + destruct (strict_key k); [|discriminate]. destruct (mget b m).
      * destruct (put_indexed v1 (v0 :: rest) v); inversion H; subst; auto.
      * destruct (strict_key v0); [|discriminate]. destruct (put_indexed (VMap []) (v0 :: rest) v); inversion H; subst; auto.
  - destruct k; try discriminate. destruct (arr_inb (alen l) z).
    + destruct rest; [inversion H; subst; auto|].
      destruct (match v0 with VStr (_ :: _) => _ | VInt _ => _ | _ => None end); [|discriminate].
      destruct (put_indexed v1 (v0 :: rest) v); inversion H; subst; auto.
    + destruct (z <=? 0); [discriminate|]. destruct (z =? alen l + 1); [|discriminate].
      destruct rest; [inversion H; subst; auto|]. destruct (put_indexed (VStr []) (v0 :: rest) v); inversion H; subst; auto.
Qed.

(* inclusive slices: for 1 <= lo <= hi <= n the slice [lo:hi] is elements lo..hi, both ends included *)
Lemma slice_is_firstn_skipn {A} (l : list A) lo hi :
  1 <= lo -> lo <= hi -> hi <= Z.of_nat (List.length l) ->
  slice_list l lo hi = firstn (Z.to_nat (hi - lo + 1)) (skipn (Z.to_nat (lo - 1)) l).
Proof.
  intros H1 H2 H3. unfold slice_list, C15.Model.slice_access, C15.Model.unalias. set (n := Z.of_nat (List.length l)) in *.
  cbn [andb]. destruct (1 <=? lo) eqn:E1; [|lia]. destruct (1 <=? hi) eqn:E2; [|lia].
  destruct (hi - 1 <? lo - 1) eqn:E3; [lia|]. destruct (lo - 1 <? 0) eqn:E4; [lia|]. rewrite E3.
  destruct (n - 1 <? hi - 1) eqn:E5; [lia|]. rewrite E3. f_equal. lia.
Qed.

Lemma slice_length {A} (l : list A) lo hi :
  1 <= lo -> lo <= hi -> hi <= Z.of_nat (List.length l) -> Z.of_nat (List.length (slice_list l lo hi)) = hi - lo + 1.
Proof.
  intros H1 H2 H3. rewrite slice_is_firstn_skipn by assumption. rewrite firstn_length, skipn_length. lia.
Qed.

(* negative aliases in slices: [lo-n-1 : hi-n-1] is [lo:hi] *)
Lemma slice_negative_alias {A} (l : list A) lo hi :
  1 <= lo <= Z.of_nat (List.length l) -> 1 <= hi <= Z.of_nat (List.length l) ->
  slice_list l (lo - Z.of_nat (List.length l) - 1) (hi - Z.of_nat (List.length l) - 1) = slice_list l lo hi.
Proof.
  intros H1 H2. unfold slice_list, C15.Model.slice_access, C15.Model.unalias. set (n := Z.of_nat (List.length l)) in *. cbn [andb].
  destruct (1 <=? lo - n - 1) eqn:E1; [lia|]. destruct (lo - n - 1 <=? -1) eqn:E2; [|lia].
  destruct (1 <=? hi - n - 1) eqn:E3; [lia|]. destruct (hi - n - 1 <=? -1) eqn:E4; [|lia].
  destruct (1 <=? lo) eqn:E5; [|lia]. destruct (1 <=? hi) eqn:E6; [|lia].
  replace (lo - n - 1 + n) with (lo - 1) by lia. replace (hi - n - 1 + n) with (hi - 1) by lia. reflexivity.
Qed.

(* out-of-range slice bounds are trimmed to the array (Python-like), never an error *)
Lemma slice_trims {A} (l : list A) lo hi :
  1 <= lo -> Z.of_nat (List.length l) <= hi -> slice_list l lo hi = skipn (Z.to_nat (lo - 1)) l.
Proof.
  intros H1 H2. unfold slice_list, C15.Model.slice_access, C15.Model.unalias. set (n := Z.of_nat (List.length l)) in *. cbn [andb].
  destruct (1 <=? lo) eqn:E1; [|lia]. destruct (1 <=? hi) eqn:E2.
  2:{ assert (n = 0) by lia. destruct l; [|cbn in *; lia]. rewrite skipn_nil.
      repeat match goal with |- context [if ?c then _ else _] => destruct c end; now rewrite ?skipn_nil, ?firstn_nil. }
  destruct (hi - 1 <? lo - 1) eqn:E3.
  { rewrite skipn_all2; [reflexivity|]. lia. }
  destruct (lo - 1 <? 0) eqn:E4; [lia|]. rewrite E3.
  destruct (n - 1 <? hi - 1) eqn:E5.
  - destruct (n - 1 <? lo - 1) eqn:E6.
    + rewrite skipn_all2; [reflexivity|]. lia.
    + rewrite firstn_all2; [reflexivity|]. rewrite skipn_length. lia.
  - rewrite E3. rewrite firstn_all2; [reflexivity|]. rewrite skipn_length. lia.
Qed.

(* unset of an array element removes it and shifts the later elements down *)
Lemma array_unset_shifts a k : 1 <= k <= alen a ->
  remove_indexed (VArr a) [VInt k] = VArr (firstn (Z.to_nat (k - 1)) a ++ skipn (Z.to_nat k) a).
Proof.
  intros H. cbn. unal. replace (((1 <=? k) && (k <=? alen a)) || ((k <=? -1) && (- alen a <=? k))) with true by lia.
  destruct (1 <=? k) eqn:E; [|lia]. unfold list_remove_at. do 3 f_equal. lia.
Qed.

(* by value for arrays: a function that overwrites, extends and unsets elements of its array parameter leaves the
   caller's array as it was (instance of ScopeProofs.expressions_preserve_locals, computed) *)
Definition array_by_value_witness : prog :=
  {| p_funcs := [{| f_name := B "f"; f_sub := false; f_params := [(TArr, B "a")]; f_ret := TAny;
                    f_body := [SAssign (LLocal (B "a")) [EInt 1] (EInt 99);
                               SAssign (LLocal (B "a")) [EBin (BArith OAdd) (EFun1 FLength (ELocal (B "a"))) (EInt 1)] (EInt 7);
                               SUnset (LLocal (B "a")) [EInt 2];
                               SReturn (Some (ELocal (B "a")))] |}];
     p_begin := []; p_main := [];
     p_end := [[SAssign (LLocal (B "xs")) [] (EArrLit [EInt 1; EInt 2; EInt 3]);
                SEmit1 (EMapLit [(EStr (B "inner"), ECall (B "f") [ELocal (B "xs")]); (EStr (B "outer"), ELocal (B "xs"))])]] |}.

Lemma array_by_value_example :
  run_prog documented array_by_value_witness false 60 [] =
  Ok [ORec [(B "inner", VArr [VInt 99; VInt 3; VInt 7]); (B "outer", VArr [VInt 1; VInt 2; VInt 3])]].
Proof. vm_compute. reflexivity. Qed.

(* ---- positional names: positions 1..n and the aliases -n..-1; an out-of-range position makes both assignments no-ops *)
Lemma positional_out_of_range_is_noop m p v : pos_idx m p = None -> pos_put_value m p v = m /\ pos_put_name m p v = m.
Proof. intros H. unfold pos_put_value, pos_put_name. now rewrite H. Qed.

Lemma positional_alias m p : 1 <= p <= Z.of_nat (List.length m) -> pos_idx m (p - Z.of_nat (List.length m) - 1) = pos_idx m p.
Proof.
  intros H. unfold pos_idx, arr_inb, zidx, C15.Model.unalias. set (n := Z.of_nat (List.length m)) in *.
  replace (((1 <=? p - n - 1) && (p - n - 1 <=? n)) || ((p - n - 1 <=? -1) && (- n <=? p - n - 1))) with true by lia.
  replace (((1 <=? p) && (p <=? n)) || ((p <=? -1) && (- n <=? p))) with true by lia.
  destruct (1 <=? p - n - 1) eqn:E1; [lia|]. destruct (p - n - 1 <=? -1) eqn:E2; [|lia].
  destruct (1 <=? p) eqn:E3; [|lia]. f_equal. lia.
Qed.

(* assignment to a positional value keeps every field name and the field order *)
Lemma pos_set_value_keys m : forall i v, mkeys (pos_set_value m i v) = mkeys m.
Proof. induction m as [|[k x] t IH]; intros [|i] v; cbn; auto. f_equal. apply IH. Qed.

Lemma positional_value_assignment_keeps_names m p v : mkeys (pos_put_value m p v) = mkeys m.
Proof. unfold pos_put_value. destruct (pos_idx m p); [apply pos_set_value_keys|reflexivity]. Qed.

(* emitf @a, @b, ...: exactly one record, holding the present values under those names in order *)
Lemma emitf_is_one_record fns rec items st vs st1 :
  rec (TEvals (map snd items)) st = Ok (RVs vs, st1) ->
  step fns rec (TExec (SEmitF items)) st =
  Ok (RO ONormal, emit_item (ORec (fold_left (fun r kv => match snd kv with VAbsent => r | v => mput (fst kv) v r end)
                                             (combine (map fst items) vs) [])) st1).
Proof. intros H. cbn [step exec_stmt]. unfold evs. rewrite H. reflexivity. Qed.
