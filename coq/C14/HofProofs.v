(* C14: short-circuit evaluation, emitp, higher-order functions and then-chains. *)
From Miller Require Import C14.Value C14.Stack C14.Model C14.Proofs C14.ScopeProofs C14.InterpProofs C14.Harness.
Open Scope Z_scope.

(* ---- short circuit: when the left operand decides, the skipped operand is not evaluated: result AND state are those of
   the left operand, whatever the skipped expression is (so none of its side effects happen) *)
Lemma and_short_circuit fns rec a b st st1 :
  rec (TEval a) st = Ok (RV (VBool false), st1) ->
  step fns rec (TEval (EAnd a b)) st = Ok (RV (VBool false), st1).
Proof. intros H. cbn [step eval_expr]. unfold eval_logic, ev. rewrite H. reflexivity. Qed.

Lemma or_short_circuit fns rec a b st st1 :
  rec (TEval a) st = Ok (RV (VBool true), st1) ->
  step fns rec (TEval (EOr a b)) st = Ok (RV (VBool true), st1).
Proof. intros H. cbn [step eval_expr]. unfold eval_logic, ev. rewrite H. reflexivity. Qed.

Lemma ternary_evaluates_one_branch fns rec c a b b' st st1 (bv : bool) :
  rec (TEval c) st = Ok (RV (VBool true), st1) ->
  step fns rec (TEval (ETern c a b)) st = step fns rec (TEval (ETern c a b')) st
  /\ step fns rec (TEval (ETern c a b)) st = rec (TEval a) st1.
Proof. intros H. cbn [step eval_expr]. unfold ev. rewrite H. split; reflexivity. Qed.

Lemma ternary_false_skips_then fns rec c a a' b st st1 :
  rec (TEval c) st = Ok (RV (VBool false), st1) ->
  step fns rec (TEval (ETern c a b)) st = step fns rec (TEval (ETern c a' b)) st
  /\ step fns rec (TEval (ETern c a b)) st = rec (TEval b) st1.
Proof. intros H. cbn [step eval_expr]. unfold ev. rewrite H. split; reflexivity. Qed.

Lemma coalesce_skips_rhs_when_present fns rec a b st v st1 :
  rec (TEval a) st = Ok (RV v, st1) -> v <> VAbsent ->
  step fns rec (TEval (ECoal a b)) st = Ok (RV v, st1).
Proof. intros H Hv. cbn [step eval_expr]. unfold ev. rewrite H. cbn [bind]. destruct v; try reflexivity. contradiction. Qed.

(* ---- emitp @name, "a", "b" on a two-level map gives the same records as emit @name, "a", "b": the two statements differ
   only when a leaf is itself a map (emit splices it, emitp keeps it under the name) *)
Lemma emitp_by_names_is_grouping fns name a b : a <> b -> a <> name -> b <> name ->
  forall m fuel st, two_level m = true -> (total2 m < fuel)%nat ->
  run fns fuel (TEmitIdx true [] name m [a; b]) st = Ok (RO ONormal, emit_all (group2 name a b m) st).
Proof.
  intros Hab Han Hbn. induction m as [|[k1 v1] m IH]; intros fuel st Hl Hf; (destruct fuel as [|f]; [cbn in Hf; lia|]).
  - reflexivity.
  - cbn [two_level forallb snd] in Hl. apply andb_true_iff in Hl. destruct Hl as [Hv Hl].
    destruct v1 as [| | | | |m1|]; try discriminate.
    cbn [run step]. cbn [mput total2] in *.
    rewrite (emit_inner fns name a b k1 Hab Han Hbn m1 f st Hv) by lia.
    cbn [bind]. rewrite IH; [|exact Hl|lia].
    cbn [group2 flat_map snd fst]. rewrite emit_all_app. reflexivity.
Qed.

Lemma emitp_emit_agree_on_two_level_maps fns name a b : a <> b -> a <> name -> b <> name ->
  forall m fuel st, two_level m = true -> (total2 m < fuel)%nat ->
  run fns fuel (TEmitIdx true [] name m [a; b]) st = run fns fuel (TEmitIdx false [] name m [a; b]) st.
Proof.
  intros. rewrite emitp_by_names_is_grouping, emit_by_names_is_grouping by assumption. reflexivity.
Qed.

(* emitp @name without keys: one record holding the value under its name, nothing for an absent value *)
Lemma emitp_unindexed_is_one_named_record fns rec name e st v st1 :
  rec (TEval e) st = Ok (RV v, st1) -> v <> VAbsent ->
  step fns rec (TExec (SEmitP name e [])) st = Ok (RO ONormal, emit_item (ORec [(name, v)]) st1).
Proof. intros H Hv. cbn [step exec_stmt]. unfold ev. rewrite H. cbn [bind]. destruct v; try reflexivity. contradiction. Qed.

(* ---- higher-order functions: the callback is called once per element, in order, with the accumulator threaded through;
   stated for one step: the first element's call, then the rest of the loop *)
Lemma hof_step fns rec h ismap lit fn item rest acc st r st1 acc' :
  call_values fns rec lit fn (hof_args h ismap acc item) st = Ok (r, st1) ->
  hof_next h ismap acc item r = HCont acc' ->
  step fns rec (THof h ismap lit fn (item :: rest) acc) st = rec (THof h ismap lit fn rest acc') st1.
Proof. intros Hc Hn. cbn [step]. rewrite Hc. cbn [bind]. rewrite Hn. reflexivity. Qed.

(* any / every stop at the first deciding element: the remaining elements are never passed to the callback *)
Lemma any_stops_at_first_true fns rec ismap lit fn item rest rest' acc st st1 :
  call_values fns rec lit fn (hof_args HAny ismap acc item) st = Ok (VBool true, st1) ->
  step fns rec (THof HAny ismap lit fn (item :: rest) acc) st = Ok (RV (VBool true), st1)
  /\ step fns rec (THof HAny ismap lit fn (item :: rest') acc) st = Ok (RV (VBool true), st1).
Proof. intros Hc. cbn [step]. rewrite Hc. split; reflexivity. Qed.

Lemma every_stops_at_first_false fns rec ismap lit fn item rest rest' acc st st1 :
  call_values fns rec lit fn (hof_args HEvery ismap acc item) st = Ok (VBool false, st1) ->
  step fns rec (THof HEvery ismap lit fn (item :: rest) acc) st = Ok (RV (VBool false), st1)
  /\ step fns rec (THof HEvery ismap lit fn (item :: rest') acc) st = Ok (RV (VBool false), st1).
Proof. intros Hc. cbn [step]. rewrite Hc. split; reflexivity. Qed.

(* a callback -- named function or function literal -- returns with the caller's locals exactly as they were: whole
   executions, any fuel (for literals: inside the fragment, which excludes literals that assign enclosing locals) *)
Lemma callbacks_preserve_locals fns fuel lit fn vs st v st' :
  stk st <> [] -> call_values fns (run fns fuel) lit fn vs st = Ok (v, st') -> stk st' = stk st.
Proof. intros Hne H. exact (call_values_inv fns (run fns fuel) (run_inv fns fuel) lit fn vs st v st' Hne H). Qed.

(* ---- then-chains: every verb runs as a program of its own -- its own functions, oosvars and stack -- on the records the
   previous verb emitted *)
Lemma chain_is_composition vr p q p2 rest fuel ins outs rs :
  run_prog vr p q fuel ins = Ok outs -> recs_of outs = Some rs ->
  run_chain vr ((p, q) :: p2 :: rest) fuel ins = run_chain vr (p2 :: rest) fuel rs.
Proof. intros H Hr. cbn [run_chain]. destruct p2 as [p2' q2]. rewrite H. cbn [bind]. rewrite Hr. reflexivity. Qed.

(* instances computed by the kernel: a literal reads an enclosing local; two verbs with a same-named function *)
Definition hof_witness : prog :=
  {| p_funcs := [{| f_name := B "#1"; f_sub := false; f_params := [(TAny, B "e")]; f_ret := TAny;
                    f_body := [SReturn (Some (EBin (BArith OMul) (ELocal (B "e")) (ELocal (B "cap"))))] |};
                 {| f_name := B "g"; f_sub := false; f_params := [(TAny, B "acc"); (TAny, B "e")]; f_ret := TInt;
                    f_body := [SReturn (Some (EBin (BArith OAdd) (ELocal (B "acc")) (ELocal (B "e"))))] |}];
     p_begin := []; p_main := [];
     p_end := [[SAssign (LLocal (B "cap")) [] (EInt 10);
                SPrint (EHof HApply (EArrLit [EInt 1; EInt 2; EInt 3]) true (B "#1") None);
                SPrint (EHof HFold (EArrLit [EInt 1; EInt 2; EInt 3]) false (B "g") (Some (EInt 100)));
                SPrint (EHof HSort (EArrLit [EInt 3; EInt 1; EInt 2]) false (B "g") None);
                SPrint (ELocal (B "cap"))]] |}.

Lemma hof_example :
  run_prog documented hof_witness false 60 [] =
  Ok [OLine (B "[10, 20, 30]"); OLine (B "106"); OLine (B "[3, 1, 2]"); OLine (B "10")].
Proof. vm_compute. reflexivity. Qed.

Definition verb (k : Z) (field : bytes) : prog :=
  {| p_funcs := [{| f_name := B "f"; f_sub := false; f_params := [(TAny, B "e")]; f_ret := TAny;
                    f_body := [SReturn (Some (EBin (BArith OAdd) (ELocal (B "e")) (EInt k)))] |}];
     p_begin := []; p_main := [SAssign (LField field) [] (EHof HApply (EArrLit [EInt 1; EInt 2]) false (B "f") None)]; p_end := [] |}.

Lemma chain_example :
  run_chain documented [(verb 1 (B "x"), false); (verb 10 (B "y"), false)] 60 [[(B "a", VInt 0)]] =
  Ok [ORec [(B "a", VInt 0); (B "x", VArr [VInt 2; VInt 3]); (B "y", VArr [VInt 11; VInt 12])]].
Proof. vm_compute. reflexivity. Qed.
