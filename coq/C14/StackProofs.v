(* C14: the pooled concrete stack (frames and framesets recycled through pools, cleared on reuse, slots found
   through the namesToOffsets map) refines the abstract list-of-scopes stack, for ALL operation sequences. *)
From Miller Require Import C14.Value C14.Stack.
Open Scope nat_scope.

Fixpoint mk_n2o (k : nat) (l : list cslot) : list (bytes * nat) :=
  match l with [] => [] | sl :: t => (c_name sl, k) :: mk_n2o (S k) t end.

Definition frame_ok (f : cframe) : Prop := n2o f = mk_n2o 0 (vars f).
Definition fset_ok (fs : cfset) : Prop := frames fs <> [] /\ Forall frame_ok (frames fs).
Definition pooled_ok (fs : cfset) : Prop := frames fs <> [].
Definition stack_ok (s : cstack) : Prop := Forall fset_ok (sets s) /\ Forall pooled_ok (spool s).

Definition mkb (sl : cslot) : binding := {| b_ty := c_ty sl; b_val := c_val sl |}.
Definition abs_vars (l : list cslot) : scope := map (fun sl => (c_name sl, mkb sl)) l.

Lemma abs_frame_vars f : abs_frame f = abs_vars (vars f).
Proof. reflexivity. Qed.

Fixpoint first_idx (x : bytes) (l : list cslot) : option nat :=
  match l with
  | [] => None
  | sl :: t => if beqb x (c_name sl) then Some 0 else option_map S (first_idx x t)
  end.

Lemma olookup_mk x l : forall k, olookup x (mk_n2o k l) = option_map (Nat.add k) (first_idx x l).
Proof.
  induction l as [|sl l IH]; intros k; cbn; [reflexivity|].
  destruct (beqb x (c_name sl)); cbn; [f_equal; lia|].
  rewrite IH. destruct (first_idx x l); cbn; [f_equal; lia|reflexivity].
Qed.

Lemma first_idx_none x l : first_idx x l = None -> sget x (abs_vars l) = None.
Proof.
  induction l as [|sl l IH]; cbn; [reflexivity|].
  destruct (beqb x (c_name sl)); [discriminate|].
  destruct (first_idx x l); cbn; [discriminate|auto].
Qed.

Lemma first_idx_some x l : forall i, first_idx x l = Some i ->
  exists sl, nth_error l i = Some sl /\ sget x (abs_vars l) = Some (mkb sl).
Proof.
  induction l as [|sl l IH]; cbn; intros i H; [discriminate|].
  destruct (beqb x (c_name sl)) eqn:E.
  - inversion H; subst. exists sl. cbn. auto.
  - destruct (first_idx x l) as [j|]; cbn in H; [|discriminate]. inversion H; subst.
    destruct (IH j eq_refl) as (sl' & Hn & Hg). exists sl'. cbn. auto.
Qed.

Lemma first_idx_set x l : forall i sl t v, first_idx x l = Some i -> nth_error l i = Some sl ->
  abs_vars (list_set i {| c_name := c_name sl; c_ty := t; c_val := v |} l)
  = sreplace x {| b_ty := t; b_val := v |} (abs_vars l).
Proof.
  induction l as [|s0 l IH]; cbn; intros i sl t v H Hn; [discriminate|].
  destruct (beqb x (c_name s0)) eqn:E.
  - inversion H; subst. cbn in Hn. inversion Hn; subst. reflexivity.
  - destruct (first_idx x l) as [j|] eqn:Ej; cbn in H; [|discriminate]. inversion H; subst.
    cbn in Hn. cbn. f_equal. apply IH; auto.
Qed.

Lemma mk_n2o_set l : forall k i sl t v, nth_error l i = Some sl ->
  mk_n2o k (list_set i {| c_name := c_name sl; c_ty := t; c_val := v |} l) = mk_n2o k l.
Proof.
  induction l as [|s0 l IH]; intros k i sl t v Hn; destruct i; cbn in *; try discriminate.
  - inversion Hn; subst. reflexivity.
  - f_equal. eapply IH; eauto.
Qed.

Lemma mk_n2o_app l : forall k sl, mk_n2o k (l ++ [sl]) = mk_n2o k l ++ [(c_name sl, k + List.length l)].
Proof.
  induction l as [|s0 l IH]; intros k sl; cbn; [f_equal; f_equal; lia|].
  f_equal. rewrite IH. f_equal. f_equal. f_equal. lia.
Qed.

(* ---- frame level *)
Lemma cf_get_abs x f : frame_ok f -> option_map mkb (cf_get x f) = sget x (abs_frame f).
Proof.
  unfold frame_ok, cf_get. intros ->. rewrite olookup_mk, (abs_frame_vars f).
  destruct (first_idx x (vars f)) as [i|] eqn:E; cbn.
  - destruct (first_idx_some _ _ _ E) as (sl & Hn & Hg). rewrite Hn, Hg. reflexivity.
  - now rewrite first_idx_none.
Qed.

Lemma cf_has_abs x f : frame_ok f ->
  cf_has x f = match sget x (abs_frame f) with Some _ => true | None => false end.
Proof.
  unfold frame_ok, cf_has. intros ->. rewrite olookup_mk, (abs_frame_vars f).
  destruct (first_idx x (vars f)) as [i|] eqn:E; cbn.
  - destruct (first_idx_some _ _ _ E) as (sl & Hn & Hg). now rewrite Hg.
  - now rewrite first_idx_none.
Qed.

Lemma cf_append_ok sl f : frame_ok f -> frame_ok (cf_append sl f).
Proof. unfold frame_ok, cf_append. cbn. intros ->. now rewrite mk_n2o_app. Qed.

Lemma cf_append_abs sl f : abs_frame (cf_append sl f) = abs_frame f ++ [(c_name sl, mkb sl)].
Proof. unfold abs_frame, cf_append. cbn. now rewrite map_app. Qed.

Lemma cf_define_abs x t v f : frame_ok f ->
  option_map abs_frame (cf_define x t v f) = sc_define x t v (abs_frame f)
  /\ (forall f', cf_define x t v f = Some f' -> frame_ok f').
Proof.
  intros Hok. unfold cf_define, sc_define.
  pose proof (cf_has_abs x f Hok) as Hh. unfold cf_has in Hh.
  destruct (olookup x (n2o f)); destruct (sget x (abs_frame f)); try discriminate; cbn [option_map].
  - split; [reflexivity|discriminate].
  - destruct (gate t v); cbn [option_map].
    + split; [now rewrite cf_append_abs|]. intros f' H; inversion H; subst. now apply cf_append_ok.
    + split; [reflexivity|discriminate].
Qed.

Lemma cf_set_abs x v f : frame_ok f ->
  option_map abs_frame (cf_set x v f) = sc_set x v (abs_frame f)
  /\ (forall f', cf_set x v f = Some f' -> frame_ok f').
Proof.
  intros Hok. unfold cf_set, sc_set. pose proof Hok as Hok'. unfold frame_ok in Hok.
  replace (olookup x (n2o f)) with (olookup x (mk_n2o 0 (vars f))) by now rewrite Hok.
  rewrite olookup_mk, (abs_frame_vars f).
  destruct (first_idx x (vars f)) as [i|] eqn:E; cbn [option_map Nat.add].
  - destruct (first_idx_some _ _ _ E) as (sl & Hn & Hg). rewrite Hn, Hg. cbn [mkb b_ty b_val].
    destruct (gate (c_ty sl) v); cbn [option_map].
    + split.
      * unfold abs_frame. cbn. f_equal. now apply first_idx_set.
      * intros f' H; inversion H; subst. unfold frame_ok; cbn. rewrite mk_n2o_set; auto.
    + split; [reflexivity|discriminate].
  - rewrite (first_idx_none _ _ E). cbn [option_map]. split.
    + now rewrite cf_append_abs, abs_frame_vars.
    + intros f' H; inversion H; subst. now apply cf_append_ok.
Qed.

Definition sc_poke (x : bytes) (v : value) (sc : scope) : scope :=
  match sget x sc with
  | Some b => sreplace x {| b_ty := b_ty b; b_val := v |} sc
  | None => sc
  end.

Lemma cf_poke_abs x v f : frame_ok f ->
  abs_frame (cf_poke x v f) = sc_poke x v (abs_frame f) /\ frame_ok (cf_poke x v f).
Proof.
  intros Hok. unfold cf_poke, sc_poke. pose proof Hok as Hok'. unfold frame_ok in Hok.
  replace (olookup x (n2o f)) with (olookup x (mk_n2o 0 (vars f))) by now rewrite Hok.
  rewrite olookup_mk, (abs_frame_vars f).
  destruct (first_idx x (vars f)) as [i|] eqn:E; cbn [option_map Nat.add].
  - destruct (first_idx_some _ _ _ E) as (sl & Hn & Hg). rewrite Hn, Hg. cbn [mkb b_ty b_val]. split.
    + unfold abs_frame. cbn. now apply first_idx_set.
    + unfold frame_ok; cbn. rewrite mk_n2o_set; auto.
  - rewrite (first_idx_none _ _ E). auto.
Qed.

(* ---- frame lists *)
Lemma cfl_get_abs x fl : Forall frame_ok fl -> cfl_get x fl = fs_get x (map abs_frame fl).
Proof.
  induction 1 as [|f fl Hf _ IH]; cbn; [reflexivity|].
  rewrite <- (cf_get_abs x f Hf). destruct (cf_get x f); cbn; auto.
Qed.

Lemma cfl_set_existing_abs x v fl : Forall frame_ok fl ->
  match cfl_set_existing x v fl, fs_set_existing x v (map abs_frame fl) with
  | Some (Some fl'), Some (Some fs') => map abs_frame fl' = fs' /\ Forall frame_ok fl' /\ (fl <> [] -> fl' <> [])
  | Some None, Some None => True
  | None, None => True
  | _, _ => False
  end.
Proof.
  induction 1 as [|f fl Hf Hfl IH]; cbn; [exact I|].
  rewrite (cf_has_abs x f Hf).
  destruct (sget x (abs_frame f)) eqn:E.
  - destruct (cf_set_abs x v f Hf) as [Ha Hk].
    destruct (cf_set x v f) as [f'|]; cbn in Ha; rewrite <- Ha; cbn; [|exact I].
    split; [reflexivity|]. split; [constructor; auto|discriminate].
  - destruct (cfl_set_existing x v fl) as [[fl'|]|]; destruct (fs_set_existing x v (map abs_frame fl)) as [[fs'|]|]; try contradiction; try exact I.
    destruct IH as (Ha & Hk & _). split; [cbn; now rewrite Ha|]. split; [constructor; auto|discriminate].
Qed.

Lemma cfl_poke_abs x v fl : Forall frame_ok fl ->
  match cfl_poke x v fl, fs_poke x v (map abs_frame fl) with
  | Some fl', Some fs' => map abs_frame fl' = fs' /\ Forall frame_ok fl' /\ (fl <> [] -> fl' <> [])
  | None, None => True
  | _, _ => False
  end.
Proof.
  induction 1 as [|f fl Hf Hfl IH]; cbn; [exact I|].
  rewrite (cf_has_abs x f Hf).
  destruct (cf_poke_abs x v f Hf) as [Ha Hk]. unfold sc_poke in Ha.
  destruct (sget x (abs_frame f)) eqn:E.
  - split; [cbn; now rewrite Ha|]. split; [constructor; auto|discriminate].
  - destruct (cfl_poke x v fl) as [fl'|]; destruct (fs_poke x v (map abs_frame fl)) as [fs'|]; try contradiction; try exact I.
    destruct IH as (Ha' & Hk' & _). split; [cbn; now rewrite Ha'|]. split; [constructor; auto|discriminate].
Qed.

(* ---- frameset level *)
Lemma cf_clear_ok f : frame_ok (cf_clear f).
Proof. reflexivity. Qed.

Lemma cfs_push_ok fs : fset_ok fs -> fset_ok (cfs_push fs) /\ abs_fset (cfs_push fs) = [] :: abs_fset fs.
Proof.
  intros [Hne Hall]. unfold cfs_push, abs_fset. destruct (fpool fs); cbn; (split; [split; [discriminate|constructor; [reflexivity|auto]]|reflexivity]).
Qed.

Lemma cfs_pop_ok fs : fset_ok fs ->
  fset_ok (cfs_pop fs) /\ abs_fset (cfs_pop fs) = match abs_fset fs with _ :: ((_ :: _) as r) => r | other => other end.
Proof.
  intros [Hne Hall]. split.
  - unfold cfs_pop. destruct (frames fs) as [|f [|g r]] eqn:E.
    + contradiction.
    + split; rewrite E; [discriminate|auto].
    + split; cbn; [discriminate|inversion Hall; auto].
  - unfold cfs_pop, abs_fset. destruct (frames fs) as [|f [|g r]] eqn:E; cbn; rewrite ?E; reflexivity.
Qed.

Lemma cfs_pop_pooled fs : pooled_ok fs -> pooled_ok (cfs_pop fs).
Proof.
  unfold pooled_ok, cfs_pop. destruct (frames fs) as [|f [|g r]] eqn:E; cbn; intros H; auto; try (rewrite E; auto); discriminate.
Qed.

Lemma cfs_pop_all_len n : forall fs, pooled_ok fs -> List.length (frames fs) <= S n ->
  exists f, frames (cfs_pop_all n fs) = [f].
Proof.
  induction n as [|n IH]; intros fs Hp Hl; cbn.
  - unfold pooled_ok in Hp. destruct (frames fs) as [|f [|g r]]; cbn in *; [contradiction|eauto|lia].
  - apply IH; [now apply cfs_pop_pooled|].
    unfold cfs_pop. destruct (frames fs) as [|f [|g r]] eqn:E; cbn in *; rewrite ?E; cbn; lia.
Qed.

Lemma cfs_reset_ok fs : pooled_ok fs -> fset_ok (cfs_reset fs) /\ abs_fset (cfs_reset fs) = [ [] ].
Proof.
  intros Hp. unfold cfs_reset.
  destruct (cfs_pop_all_len (List.length (frames fs)) fs Hp) as [f Hf]; [lia|].
  rewrite Hf. unfold abs_fset, fset_ok; cbn. split; [split; [discriminate|repeat constructor]|reflexivity].
Qed.

(* ---- operations on the top frame *)
Lemma top_refines (g : cframe -> option cframe) (h : scope -> option scope) s :
  (forall f, frame_ok f -> option_map abs_frame (g f) = h (abs_frame f) /\ (forall f', g f = Some f' -> frame_ok f')) ->
  stack_ok s ->
  match c_top g s with
  | Some s' => stack_ok s' /\ a_top h (abs_stack s) = Some (abs_stack s')
  | None => a_top h (abs_stack s) = None
  end.
Proof.
  intros Hg [Hsets Hpool]. unfold c_top, abs_stack. destruct (sets s) as [|fs r] eqn:E; [reflexivity|].
  inversion Hsets as [|? ? [Hne Hall] Hr]; subst.
  destruct (frames fs) as [|f fl] eqn:Ef; [contradiction|]. inversion Hall as [|? ? Hf Hfl]; subst.
  destruct (Hg f Hf) as [Ha Hk].
  assert (Hfs : abs_fset fs = abs_frame f :: map abs_frame fl) by (unfold abs_fset; now rewrite Ef).
  cbn [map]. rewrite Hfs. cbn [a_top]. rewrite <- Ha.
  destruct (g f) as [f'|] eqn:Eg; cbn [option_map].
  - split.
    + split; [|exact Hpool]. cbn [sets]. constructor; [|exact Hr]. split; cbn [frames]; [discriminate|constructor; auto].
    + reflexivity.
  - reflexivity.
Qed.

(* ---- the simulation: one step *)
Lemma step_refines s o : stack_ok s ->
  stack_ok (fst (c_step s o)) /\ a_step (abs_stack s) o = (abs_stack (fst (c_step s o)), snd (c_step s o)).
Proof.
  intros Hok. pose proof Hok as [Hsets Hpool]. destruct o; cbn [c_step a_step fst snd].
  - (* push frame *)
    unfold c_push_frame, abs_stack. destruct (sets s) as [|fs r] eqn:E.
    + split; [exact Hok|]. cbn. now rewrite E.
    + inversion Hsets; subst. destruct (cfs_push_ok fs H1) as [Hk Ha].
      split; [split; [constructor; auto|auto]|]. cbn [sets map a_push_frame]. now rewrite Ha.
  - (* pop frame *)
    unfold c_pop_frame, abs_stack. destruct (sets s) as [|fs r] eqn:E.
    + split; [exact Hok|]. cbn. now rewrite E.
    + inversion Hsets; subst. destruct (cfs_pop_ok fs H1) as [Hk Ha].
      split; [split; [constructor; auto|auto]|]. cbn [sets map a_pop_frame]. rewrite Ha.
      destruct (abs_fset fs) as [|a [|b c]]; reflexivity.
  - (* push set *)
    unfold c_push_set, abs_stack. destruct (spool s) as [|fs p] eqn:E.
    + split; [split; [constructor; [split; [discriminate|repeat constructor]|auto]|constructor]|reflexivity].
    + inversion Hpool; subst. destruct (cfs_reset_ok fs H1) as [Hk Ha].
      split; [split; [constructor; auto|auto]|]. cbn [sets map]. unfold a_push_set. now rewrite Ha.
  - (* pop set *)
    unfold c_pop_set, abs_stack. destruct (sets s) as [|fs [|g r]] eqn:E.
    + split; [exact Hok|]. cbn. now rewrite E.
    + split; [exact Hok|]. cbn. now rewrite E.
    + inversion Hsets; subst. split; [split; [auto|constructor; [apply H1|auto]]|reflexivity].
  - (* define *)
    pose proof (top_refines (cf_define x t v) (sc_define x t v) s (cf_define_abs x t v) Hok) as H.
    unfold c_define, a_define. destruct (c_top (cf_define x t v) s) as [s'|]; cbn [fst snd].
    + destruct H as [H1 H2]. now rewrite H2.
    + now rewrite H.
  - (* set *)
    unfold c_set, a_set, abs_stack. destruct (sets s) as [|fs r] eqn:E.
    + split; [exact Hok|]. cbn. now rewrite E.
    + inversion Hsets as [|? ? [Hne Hall] Hr]; subst.
      pose proof (cfl_set_existing_abs x v (frames fs) Hall) as Hse. cbn [map]. unfold abs_fset at 1.
      destruct (cfl_set_existing x v (frames fs)) as [[fl'|]|]; destruct (fs_set_existing x v (map abs_frame (frames fs))) as [[fs'|]|]; try contradiction; cbn [fst snd].
      * destruct Hse as (Ha & Hk & Hn). split; [split; [constructor; [split; auto|auto]|auto]|].
        cbn [sets map]. unfold abs_fset at 2; cbn [frames]. now rewrite Ha.
      * split; [exact Hok|]. cbn. now rewrite E.
      * pose proof (top_refines (cf_set x v) (sc_set x v) s (cf_set_abs x v) Hok) as H.
        unfold c_set_at_scope, a_set_at_scope. unfold abs_stack in H. rewrite E in H. cbn [map] in H.
        destruct (c_top (cf_set x v) s) as [s'|]; cbn [fst snd].
        -- destruct H as [H1 H2]. now rewrite H2.
        -- rewrite H. split; [exact Hok|]. cbn. now rewrite E.
  - (* set at scope *)
    pose proof (top_refines (cf_set x v) (sc_set x v) s (cf_set_abs x v) Hok) as H.
    unfold c_set_at_scope, a_set_at_scope. destruct (c_top (cf_set x v) s) as [s'|]; cbn [fst snd].
    + destruct H as [H1 H2]. now rewrite H2.
    + now rewrite H.
  - (* unset *)
    unfold c_unset, a_unset, abs_stack. destruct (sets s) as [|fs r] eqn:E.
    + split; [exact Hok|]. cbn. now rewrite E.
    + inversion Hsets as [|? ? [Hne Hall] Hr]; subst.
      pose proof (cfl_poke_abs x VAbsent (frames fs) Hall) as Hp. cbn [map]. unfold abs_fset at 1.
      destruct (cfl_poke x VAbsent (frames fs)) as [fl'|]; destruct (fs_poke x VAbsent (map abs_frame (frames fs))) as [fs'|]; try contradiction.
      * destruct Hp as (Ha & Hk & Hn). split; [split; [constructor; [split; auto|auto]|auto]|].
        cbn [sets map]. unfold abs_fset at 2; cbn [frames]. now rewrite Ha.
      * split; [exact Hok|]. cbn. now rewrite E.
  - (* get *)
    split; [exact Hok|]. unfold c_get, a_get, abs_stack. destruct (sets s) as [|fs r] eqn:E; cbn; [reflexivity|].
    inversion Hsets as [|? ? [Hne Hall] Hr]; subst. unfold abs_fset. now rewrite (cfl_get_abs x _ Hall).
Qed.

Lemma run_refines ops : forall s, stack_ok s ->
  snd (c_run s ops) = snd (a_run (abs_stack s) ops)
  /\ abs_stack (fst (c_run s ops)) = fst (a_run (abs_stack s) ops)
  /\ stack_ok (fst (c_run s ops)).
Proof.
  induction ops as [|o ops IH]; intros s Hok; cbn; [auto|].
  destruct (step_refines s o Hok) as [Hok' Ha]. rewrite Ha.
  destruct (c_step s o) as [s' ob]. cbn [fst snd] in *. destruct (IH s' Hok') as (H1 & H2 & H3).
  destruct (c_run s' ops) as [s'' obs]. destruct (a_run (abs_stack s') ops) as [t'' obs']. cbn in *.
  subst. auto.
Qed.

Lemma c_new_ok : stack_ok c_new.
Proof. split; repeat constructor. discriminate. Qed.

Lemma pooled_stack_refines_abstract ops :
  snd (c_run c_new ops) = snd (a_run a_new ops) /\ abs_stack (fst (c_run c_new ops)) = fst (a_run a_new ops).
Proof. destruct (run_refines ops c_new c_new_ok) as (H1 & H2 & _). exact (conj H1 H2). Qed.

(* ---- scoping laws of the abstract stack (the one the interpreter runs on) *)
Lemma beqb_refl' a : beqb a a = true.
Proof. destruct (beqb_spec a a); congruence. Qed.

(* a variable declared inside a block is gone when the block exits and never touches outer frames *)
Lemma define_in_block_is_local x t v sc fs r s' :
  a_define x t v (a_push_frame ((sc :: fs) :: r)) = Some s' -> a_pop_frame s' = (sc :: fs) :: r.
Proof.
  unfold a_define, sc_define. cbn. destruct (gate t v); [|discriminate]. intros H; inversion H; subst. reflexivity.
Qed.

(* an inner declaration shadows: reads inside the block see the inner value, whatever the outer frames hold *)
Lemma inner_define_shadows x t v s s' :
  a_define x t v (a_push_frame s) = Some s' -> a_get x s' = Some v.
Proof.
  unfold a_define, sc_define. destruct s as [|fs r]; cbn; [discriminate|]. destruct (gate t v); [|discriminate].
  intros H; inversion H; subst. cbn. now rewrite beqb_refl'.
Qed.

(* the type gate: a successful declaration or assignment stores a value accepted by the declared type *)
Lemma define_respects_gate x t v s s' : a_define x t v s = Some s' -> gate t v = true.
Proof.
  unfold a_define, a_top, sc_define. destruct s as [|[|sc fs] r]; try discriminate.
  destruct (sget x sc); [discriminate|]. destruct (gate t v); [reflexivity|discriminate].
Qed.

Lemma fs_set_existing_gate x v fs fs' t :
  fs_set_existing x v fs = Some (Some fs') -> fs_type x fs = Some t -> gate t v = true.
Proof.
  revert fs'. induction fs as [|sc fs IH]; cbn; intros fs' H Ht; [discriminate|].
  unfold sc_set in H. destruct (sget x sc) as [b|] eqn:E.
  - inversion Ht; subst. destruct (gate (b_ty b) v); [reflexivity|discriminate].
  - destruct (fs_set_existing x v fs) as [[t'|]|]; try discriminate. eapply IH; eauto.
Qed.

(* an untyped assignment to a variable declared with a type anywhere in the enclosing scopes passes that type's gate *)
Lemma set_respects_gate x v fs r s' t :
  a_set x v (fs :: r) = Some s' -> fs_type x fs = Some t -> gate t v = true.
Proof.
  unfold a_set. intros H Ht. destruct (fs_set_existing x v fs) as [[fs'|]|] eqn:E; try discriminate.
  - eapply fs_set_existing_gate; eauto.
  - exfalso. clear H. revert E Ht. induction fs as [|sc fs IH]; cbn; [discriminate|].
    destruct (sget x sc); [discriminate|]. destruct (fs_set_existing x v fs) as [[?|]|]; try discriminate. auto.
Qed.

(* undeclared assignment updates the nearest enclosing binding: after the block exits the outer variable has the new value *)
Lemma set_in_block_updates_outer x v b sc fs r s' :
  sget x sc = Some b -> gate (b_ty b) v = true ->
  a_set x v (a_push_frame ((sc :: fs) :: r)) = Some s' ->
  a_pop_frame s' = (sreplace x {| b_ty := b_ty b; b_val := v |} sc :: fs) :: r.
Proof.
  intros Hs Hg. unfold a_set. cbn. unfold sc_set. rewrite Hs, Hg. intros H; inversion H; subst. reflexivity.
Qed.

(* a new frameset hides every caller variable, and popping it restores the caller's stack exactly *)
Lemma push_set_hides x s : a_get x (a_push_set s) = None.
Proof. reflexivity. Qed.

Lemma pop_push_set s : s <> [] -> a_pop_set (a_push_set s) = s.
Proof. destruct s; [contradiction|reflexivity]. Qed.
