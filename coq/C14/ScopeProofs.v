(* C14: isolation invariants of the whole interpreter, by induction on fuel.
   (1) evaluating an expression -- including every user-defined function it calls, recursively, with all their
       assignments to locals and (collection-valued) parameters -- leaves the caller's local-variable stack EXACTLY as it was:
       arguments are passed by value and callee locals are fenced off;
   (2) executing statements only ever touches the current frameset: the framesets of all callers are unchanged. *)
From Miller Require Import C14.Value C14.Stack C14.Model C14.Proofs.
Open Scope Z_scope.

Definition is_expr_task (t : task) : bool :=
  match t with TEval _ | TEvals _ | TIdx _ _ | TArgs _ _ _ | TMapLit _ _ | THof _ _ _ _ _ _ | TSort _ _ _ _ _ => true | _ => false end.

Definition frame_rel (s s' : astack) : Prop := tl s' = tl s /\ s' <> [].

Definition post (t : task) (st st' : state) : Prop :=
  if is_expr_task t then stk st' = stk st else frame_rel (stk st) (stk st').

Definition inv (f : recfn) : Prop :=
  forall t st r st', stk st <> [] -> f t st = Ok (r, st') -> post t st st'.

Lemma frame_refl s : s <> [] -> frame_rel s s.
Proof. split; auto. Qed.
Lemma frame_trans a b c : frame_rel a b -> frame_rel b c -> frame_rel a c.
Proof. intros [H1 H2] [H3 H4]. split; congruence. Qed.

Lemma a_top_frame h s s' : a_top h s = Some s' -> frame_rel s s'.
Proof.
  unfold a_top. destruct s as [|[|sc fs] r]; try discriminate. destruct (h sc); [|discriminate].
  intros H; inversion H; subst. split; [reflexivity|discriminate].
Qed.
Lemma a_define_frame x t v s s' : a_define x t v s = Some s' -> frame_rel s s'.
Proof. apply a_top_frame. Qed.
Lemma a_set_at_scope_frame x v s s' : a_set_at_scope x v s = Some s' -> frame_rel s s'.
Proof. apply a_top_frame. Qed.
Lemma a_set_frame x v s s' : a_set x v s = Some s' -> frame_rel s s'.
Proof.
  unfold a_set. destruct s as [|fs r]; [discriminate|].
  destruct (fs_set_existing x v fs) as [[fs'|]|]; [|discriminate|apply a_set_at_scope_frame].
  intros H; inversion H; subst. split; [reflexivity|discriminate].
Qed.
Lemma a_unset_frame x s : s <> [] -> frame_rel s (a_unset x s).
Proof.
  unfold a_unset. destruct s as [|fs r]; [contradiction|]. intros _.
  destruct (fs_poke x VAbsent fs); split; try reflexivity; discriminate.
Qed.
Lemma a_push_frame_frame s : s <> [] -> frame_rel s (a_push_frame s).
Proof. destruct s; [contradiction|]. intros _. split; [reflexivity|discriminate]. Qed.
Lemma a_pop_frame_frame s : s <> [] -> frame_rel s (a_pop_frame s).
Proof.
  destruct s as [|[|sc [|sc2 fs]] r]; [contradiction| | |]; intros _; split; try reflexivity; discriminate.
Qed.
Lemma bind_params_frame ps : forall vs s s', s <> [] -> bind_params ps vs s = Some s' -> frame_rel s s'.
Proof.
  induction ps as [|[t x] ps IH]; intros [|v vs] s s' Hne; cbn; try discriminate.
  - intros H; inversion H; subst. now apply frame_refl.
  - destruct (a_define x t v s) as [s1|] eqn:E; [|discriminate]. intros H.
    pose proof (a_define_frame _ _ _ _ _ E) as F1. eapply frame_trans; [exact F1|]. eapply IH; [apply F1|exact H].
Qed.
Lemma pop_after_call s0 s3 : s0 <> [] -> tl s3 = s0 -> s3 <> [] -> a_pop_set s3 = s0.
Proof. destruct s3 as [|h t]; [contradiction|]. cbn. intros Hne <- _. destruct t; [contradiction|reflexivity]. Qed.

(* forward reasoning through a chain of binds *)
Ltac inv_step HP :=
  repeat match goal with
  | H : Ok _ = Ok _ |- _ => inversion H; subst; clear H
  | H : bind ?r _ = Ok _ |- _ =>
      let E := fresh "E" in destruct r as [[? ?]| | |] eqn:E; cbn [bind] in H; try discriminate H
  | H : match ?x with _ => _ end = Ok _ |- _ =>
      let E := fresh "E" in destruct x eqn:E; try discriminate H
  | H : (if ?x then _ else _) = Ok _ |- _ =>
      let E := fresh "E" in destruct x eqn:E; try discriminate H
  | H : (let '(_, _) := ?x in _) = Ok _ |- _ => destruct x
  end.

Ltac use_inv HP :=
  repeat match goal with
  | H : ?f ?t ?s = Ok (_, ?s'), Hne : stk ?s <> [] |- _ =>
      lazymatch goal with
      | _ : post t s s' |- _ => fail
      | _ => let Hp := fresh "Hp" in pose proof (HP t s _ s' Hne H) as Hp; unfold post in Hp; cbn [is_expr_task] in Hp
      end
  end.

Lemma stk_set_inrec r st : stk (set_inrec r st) = stk st. Proof. reflexivity. Qed.
Lemma stk_set_oos r st : stk (set_oos r st) = stk st. Proof. reflexivity. Qed.
Lemma stk_set_filt r st : stk (set_filt r st) = stk st. Proof. reflexivity. Qed.
Lemma stk_emit_item r st : stk (emit_item r st) = stk st. Proof. reflexivity. Qed.
Lemma stk_set_stk s st : stk (set_stk s st) = s. Proof. reflexivity. Qed.

Ltac finish :=
  unfold post; cbn [is_expr_task];
  cbn [stk set_inrec set_oos set_filt emit_item set_stk set_nr push_frame pop_frame push_set pop_set] in *;
  try congruence;
  try (split; congruence);
  eauto using frame_refl, frame_trans, a_define_frame, a_set_frame, a_set_at_scope_frame, a_unset_frame, a_push_frame_frame, a_pop_frame_frame.

Lemma ev_inv f e st v st' : ev f e st = Ok (v, st') -> inv f -> stk st <> [] -> stk st' = stk st.
Proof.
  intros H HP Hne. unfold ev in H. inv_step HP. exact (HP (TEval e) st _ _ Hne E).
Qed.
Lemma evs_inv f es st v st' : evs f es st = Ok (v, st') -> inv f -> stk st <> [] -> stk st' = stk st.
Proof.
  intros H HP Hne. unfold evs in H. inv_step HP. exact (HP (TEvals es) st _ _ Hne E).
Qed.
Lemma ex_inv f t st o st' : ex f t st = Ok (o, st') -> inv f -> is_expr_task t = false -> stk st <> [] -> frame_rel (stk st) (stk st').
Proof.
  intros H HP Ht Hne. unfold ex in H. inv_step HP. pose proof (HP t st _ _ Hne E) as Hp. unfold post in Hp. now rewrite Ht in Hp.
Qed.
Lemma rec_expr_inv f t st r st' : f t st = Ok (r, st') -> inv f -> is_expr_task t = true -> stk st <> [] -> stk st' = stk st.
Proof. intros H HP Ht Hne. pose proof (HP t st _ _ Hne H) as Hp. unfold post in Hp. now rewrite Ht in Hp. Qed.
Lemma rec_stmt_inv f t st r st' : f t st = Ok (r, st') -> inv f -> is_expr_task t = false -> stk st <> [] -> frame_rel (stk st) (stk st').
Proof. intros H HP Ht Hne. pose proof (HP t st _ _ Hne H) as Hp. unfold post in Hp. now rewrite Ht in Hp. Qed.

Ltac simp_stk :=
  cbn [stk set_inrec set_oos set_filt emit_item set_stk set_nr push_frame pop_frame push_set pop_set] in *.

Ltac facts :=
  repeat match goal with
         | H : a_set _ _ _ = Some _ |- _ => apply a_set_frame in H
         | H : a_define _ _ _ _ = Some _ |- _ => apply a_define_frame in H
         | H : a_set_at_scope _ _ _ = Some _ |- _ => apply a_set_at_scope_frame in H
         end;
  repeat match goal with
         | H : frame_rel _ ?s |- _ =>
             lazymatch goal with
             | _ : s <> [] |- _ => fail
             | _ => pose proof (proj2 H)
             end
         end.

Ltac add_ne :=
  repeat match goal with
         | H : frame_rel _ ?s |- _ =>
             lazymatch goal with
             | _ : s <> [] |- _ => fail
             | _ => pose proof (proj2 H)
             end
         end.

Ltac ne :=
  simp_stk; facts; add_ne;
  first [ assumption | congruence
        | apply a_push_frame_frame; ne | apply a_pop_frame_frame; ne ].

Ltac go f HP :=
  repeat (first
    [ match goal with
      | H : Ok _ = Ok _ |- _ => inversion H; subst; clear H
      | H : Some _ = Some _ |- _ => inversion H; subst; clear H
      | H : Unsup = Ok _ |- _ => discriminate H
      | H : Fatal = Ok _ |- _ => discriminate H
      | H : OutOfFuel = Ok _ |- _ => discriminate H
      | H : bind (ev f ?e ?s) _ = Ok _ |- _ =>
          let E := fresh "E" in destruct (ev f e s) as [[? ?]| | |] eqn:E; cbn [bind] in H; try discriminate H;
          apply ev_inv in E; [|exact HP|ne]
      | H : bind (evs f ?e ?s) _ = Ok _ |- _ =>
          let E := fresh "E" in destruct (evs f e s) as [[? ?]| | |] eqn:E; cbn [bind] in H; try discriminate H;
          apply evs_inv in E; [|exact HP|ne]
      | H : bind (ex f ?t ?s) _ = Ok _ |- _ =>
          let E := fresh "E" in destruct (ex f t s) as [[? ?]| | |] eqn:E; cbn [bind] in H; try discriminate H;
          apply ex_inv in E; [|exact HP|reflexivity|ne]
      | H : bind (f ?t ?s) _ = Ok _ |- _ =>
          let E := fresh "E" in destruct (f t s) as [[? ?]| | |] eqn:E; cbn [bind] in H; try discriminate H;
          first [ apply rec_expr_inv in E; [|exact HP|reflexivity|ne] | apply rec_stmt_inv in E; [|exact HP|reflexivity|ne] ]
      | H : f ?t ?s = Ok (_, _) |- _ =>
          first [ apply rec_expr_inv in H; [|exact HP|reflexivity|ne] | apply rec_stmt_inv in H; [|exact HP|reflexivity|ne] ]
      | H : bind (Ok _) _ = Ok _ |- _ => cbn [bind] in H
      | H : bind (ro _ _) _ = Ok _ |- _ => unfold ro in H; cbn [bind] in H
      | H : bind (rv _ _) _ = Ok _ |- _ => unfold rv in H; cbn [bind] in H
      | H : bind (arith _ _ _) _ = Ok _ |- _ => destruct (arith _ _ _) eqn:?; cbn [bind] in H; try discriminate H
      | H : bind (dot _ _) _ = Ok _ |- _ => destruct (dot _ _) eqn:?; cbn [bind] in H; try discriminate H
      | H : bind (compare_values _ _ _) _ = Ok _ |- _ => destruct (compare_values _ _ _) eqn:?; cbn [bind] in H; try discriminate H
      | H : bind (uneg _) _ = Ok _ |- _ => destruct (uneg _) eqn:?; cbn [bind] in H; try discriminate H
      | H : bind (index_read _ _) _ = Ok _ |- _ => destruct (index_read _ _) eqn:?; cbn [bind] in H; try discriminate H
      | H : bind (match ?x with _ => _ end) _ = Ok _ |- _ => destruct x eqn:?; try discriminate H
      | H : match ?x with _ => _ end = Ok _ |- _ => destruct x eqn:?; try discriminate H
      | H : (if ?x then _ else _) = Ok _ |- _ => destruct x eqn:?; try discriminate H
      | H : rv _ _ = Ok _ |- _ => unfold rv in H
      | H : ro _ _ = Ok _ |- _ => unfold ro in H
      | H : lift _ _ = Ok _ |- _ => unfold lift in H
      end ]).

Ltac close :=
  simp_stk;
  repeat match goal with H : frame_rel _ _ |- _ => destruct H end;
  first [ congruence | split; congruence
        | (unfold frame_rel; split; congruence) ].

Section StepInv.
Variable vr : variant.
Variable fns : list fdef.
Variable f : recfn.
Hypothesis HP : inv f.

Lemma eval_logic_inv isand a b st r st' :
  stk st <> [] -> eval_logic f isand a b st = Ok (r, st') -> stk st' = stk st.
Proof. intros Hne H. unfold eval_logic in H. go f HP; close. Qed.

Lemma eval_call_inv name args st r st' :
  stk st <> [] -> eval_call fns f name args st = Ok (r, st') -> stk st' = stk st.
Proof.
  intros Hne H. unfold eval_call in H.
  destruct (find_fn false name (List.length args) fns) as [fd|]; [|discriminate].
  destruct (f (TArgs false args (f_params fd)) st) as [[r1 st1]| | |] eqn:E1; cbn [bind] in H; try discriminate.
  apply rec_expr_inv in E1; [|exact HP|reflexivity|assumption].
  destruct r1; try discriminate.
  destruct (bind_params (f_params fd) vs (a_push_set (stk st1))) as [s2|] eqn:E2; [|discriminate].
  assert (F2 : frame_rel (a_push_set (stk st1)) s2) by (eapply bind_params_frame; [discriminate|exact E2]).
  destruct (ex f (TBlock (f_body fd)) (set_stk s2 st1)) as [[o st3]| | |] eqn:E3; cbn [bind] in H; try discriminate.
  apply ex_inv in E3; [|exact HP|reflexivity|simp_stk; exact (proj2 F2)].
  simp_stk.
  assert (Hpop : a_pop_set (stk st3) = stk st1).
  { apply pop_after_call; [congruence| |exact (proj2 E3)]. destruct E3 as [E3 _]. destruct F2 as [F2 _]. rewrite E3, F2. reflexivity. }
  destruct o; go f HP; simp_stk; congruence.
Qed.

Lemma exec_call_inv name args st r st' :
  stk st <> [] -> exec_call fns f name args st = Ok (r, st') -> stk st' = stk st.
Proof.
  intros Hne H. unfold exec_call in H.
  destruct (find_fn true name (List.length args) fns) as [fd|]; [|discriminate].
  destruct (f (TArgs true args (f_params fd)) st) as [[r1 st1]| | |] eqn:E1; cbn [bind] in H; try discriminate.
  apply rec_expr_inv in E1; [|exact HP|reflexivity|assumption].
  destruct r1 as [v|vs|[l|]|o]; try discriminate.
  - destruct (bind_params (f_params fd) vs (a_push_set (stk st1))) as [s2|] eqn:E2.
    + assert (F2 : frame_rel (a_push_set (stk st1)) s2) by (eapply bind_params_frame; [discriminate|exact E2]).
      destruct (ex f (TBlock (f_body fd)) (set_stk s2 st1)) as [[o st3]| | |] eqn:E3; cbn [bind] in H; try discriminate.
      apply ex_inv in E3; [|exact HP|reflexivity|simp_stk; exact (proj2 F2)].
      simp_stk.
      assert (Hpop : a_pop_set (stk st3) = stk st1).
      { apply pop_after_call; [congruence| |exact (proj2 E3)]. destruct E3 as [E3 _]. destruct F2 as [F2 _]. rewrite E3, F2. reflexivity. }
      destruct o; unfold ro in H; inversion H; subst; simp_stk; congruence.
    + unfold ro in H. inversion H; subst. exact E1.
  - unfold ro in H. inversion H; subst. exact E1.
Qed.

(* a callback invoked by a higher-order function: a named function runs in a frameset of its own, which is popped; a
   function literal runs in a frame of the current frameset, and the call is inside the fragment only when the enclosing
   locals come back as they were *)
Lemma call_values_inv lit name vs st v st' :
  stk st <> [] -> call_values fns f lit name vs st = Ok (v, st') -> stk st' = stk st.
Proof.
  intros Hne H. unfold call_values in H.
  destruct (negb (Bool.eqb lit (is_lit_name name))); [discriminate|].
  destruct (find_fn false name (List.length vs) fns) as [fd|]; [|discriminate].
  destruct lit.
  - destruct (bind_params (f_params fd) vs (a_push_frame (stk st))) as [s2|]; [|discriminate].
    destruct (ex f (TBlock (f_body fd)) (set_stk s2 st)) as [[o st3]| | |]; cbn [bind] in H; try discriminate.
    destruct (top_fset_eqb (a_pop_frame (stk st3)) (stk st)); [|discriminate].
    destruct (ret_value fd o); [|discriminate]. inversion H; subst. reflexivity.
  - destruct (bind_params (f_params fd) vs (a_push_set (stk st))) as [s2|] eqn:E2; [|discriminate].
    assert (F2 : frame_rel (a_push_set (stk st)) s2) by (eapply bind_params_frame; [discriminate|exact E2]).
    destruct (ex f (TBlock (f_body fd)) (set_stk s2 st)) as [[o st3]| | |] eqn:E3; cbn [bind] in H; try discriminate.
    apply ex_inv in E3; [|exact HP|reflexivity|simp_stk; exact (proj2 F2)].
    simp_stk.
    assert (Hpop : a_pop_set (stk st3) = stk st).
    { apply pop_after_call; [assumption| |exact (proj2 E3)]. destruct E3 as [E3 _]. destruct F2 as [F2 _]. rewrite E3, F2. reflexivity. }
    destruct (ret_value fd o); [|discriminate]. inversion H; subst. simp_stk. exact Hpop.
Qed.

Lemma eval_hof_inv h c lit fn init st r st' :
  stk st <> [] -> eval_hof fns f h c lit fn init st = Ok (r, st') -> stk st' = stk st.
Proof.
  intros Hne H. unfold eval_hof in H.
  destruct (ev f c st) as [[vc st1]| | |] eqn:E1; cbn [bind] in H; try discriminate.
  apply ev_inv in E1; [|exact HP|assumption].
  destruct (negb (fn_resolvable lit fn st1)); [discriminate|].
  assert (Hi : forall vi st2, match init with Some ie => ev f ie st1 | None => Ok (VAbsent, st1) end = Ok (vi, st2) -> stk st2 = stk st).
  { intros vi st2 Hi. destruct init as [ie|].
    - apply ev_inv in Hi; [congruence|exact HP|congruence].
    - inversion Hi; subst. exact E1. }
  destruct (match init with Some ie => ev f ie st1 | None => Ok (VAbsent, st1) end) as [[vi st2]| | |] eqn:E2; cbn [bind] in H; try discriminate.
  specialize (Hi _ _ eq_refl).
  assert (Hne2 : stk st2 <> []) by congruence.
  match type of H with (if ?b then _ else _) = _ => destruct b; [destruct (Bool.eqb lit (is_lit_name fn)); discriminate|] end.
  destruct h; destruct init; try discriminate H; go f HP; simp_stk; congruence.
Qed.

Lemma eval_expr_inv e st r st' :
  stk st <> [] -> eval_expr fns f e st = Ok (r, st') -> stk st' = stk st.
Proof.
  intros Hne H. destruct e; cbn [eval_expr] in H;
    try (apply eval_logic_inv in H; assumption);
    try (apply eval_call_inv in H; assumption);
    try (apply eval_hof_inv in H; assumption);
    go f HP; close.
Qed.

End StepInv.

Ltac eqs :=
  simp_stk;
  repeat match goal with
         | H : stk ?a = stk ?b |- _ => rewrite H in *; clear H
         end.

Ltac close2 :=
  eqs; facts;
  first [ assumption
        | apply frame_refl; assumption
        | eauto 8 using frame_refl, frame_trans, a_unset_frame, a_push_frame_frame, a_pop_frame_frame
        | (split; [reflexivity|discriminate]) ].

Section StepInv2.
Variable vr : variant.
Variable fns : list fdef.
Variable f : recfn.
Hypothesis HP : inv f.

Lemma assign_direct_inv b v st r st' :
  stk st <> [] -> assign_direct b v st = Ok (r, st') -> frame_rel (stk st) (stk st').
Proof. intros Hne H. unfold assign_direct in H. destruct b; go f HP; close2. Qed.

Lemma fs_poke_frame x v fs fs' (r : astack) : fs_poke x v fs = Some fs' -> frame_rel (fs :: r) (fs' :: r).
Proof. intros _. split; [reflexivity|discriminate]. Qed.

Lemma assign_local_indexed_inv x vs v st r st' :
  stk st <> [] -> assign_local_indexed x vs v st = Ok (r, st') -> frame_rel (stk st) (stk st').
Proof.
  intros Hne H. unfold assign_local_indexed, of_pres in H.
  destruct (stk st) as [|fs r0] eqn:Es; [contradiction|].
  rewrite <- Es in H.
  go f HP; simp_stk; facts; try rewrite Es in *;
    first [ assumption | apply frame_refl; discriminate | (split; [reflexivity|discriminate]) ].
Qed.

Lemma assign_indexed_inv b vs v st r st' :
  stk st <> [] -> assign_indexed b vs v st = Ok (r, st') -> frame_rel (stk st) (stk st').
Proof.
  intros Hne H. unfold assign_indexed, of_pres in H. destruct b.
  - go f HP; close2.
  - go f HP; close2.
  - now apply assign_local_indexed_inv in H.
Qed.

Lemma unset_lvalue_frame b vs st : stk st <> [] -> frame_rel (stk st) (stk (unset_lvalue b vs st)).
Proof.
  intros Hne. unfold unset_lvalue. destruct b as [k|k|x]; destruct vs as [|v0 vs]; simp_stk.
  - destruct (inrec st); now apply frame_refl.
  - destruct (inrec st); now apply frame_refl.
  - now apply frame_refl.
  - now apply frame_refl.
  - now apply a_unset_frame.
  - destruct (stk st) as [|fs r] eqn:Es; [contradiction|].
    destruct (fs_get x fs) as [c|]; simp_stk; try (rewrite Es; now apply frame_refl).
    destruct (fs_poke x (remove_indexed c (v0 :: vs)) fs); simp_stk; rewrite ?Es; split; try reflexivity; discriminate.
Qed.

End StepInv2.

Section StepInv3.
Variable vr : variant.
Variable fns : list fdef.
Variable f : recfn.
Hypothesis HP : inv f.

Ltac stmt_tac :=
  go f HP;
  repeat match goal with
         | H : assign_direct _ _ _ = Ok _ |- _ => apply assign_direct_inv in H; [|ne]
         | H : assign_indexed _ _ _ _ = Ok _ |- _ => apply assign_indexed_inv in H; [|ne]
         end;
  try close2.

Lemma exec_stmt_inv s st r st' :
  stk st <> [] -> exec_stmt fns f s st = Ok (r, st') -> frame_rel (stk st) (stk st').
Proof.
  intros Hne H. destruct s; cbn [exec_stmt] in H; unfold loop_after_body in H.
  - (* SAssign *) stmt_tac.
  - stmt_tac.
  - stmt_tac.
  - (* SUnset *) go f HP. rewrite <- E. apply unset_lvalue_frame. congruence.
  - stmt_tac.
  - stmt_tac.
  - stmt_tac.
  - (* SFor1 *) stmt_tac.
  - stmt_tac.
  - (* SForMulti *) stmt_tac.
  - (* SForC *) stmt_tac.
  - stmt_tac.
  - stmt_tac.
  - stmt_tac.
  - destruct e; stmt_tac.
  - stmt_tac.
  - stmt_tac.
  - stmt_tac.
  - stmt_tac.
  - stmt_tac.
  - stmt_tac.
  - (* SCall *) apply (exec_call_inv fns f HP) in H; [|assumption]. rewrite H. now apply frame_refl.
  - stmt_tac.
  - stmt_tac.
  - stmt_tac.
  - (* SEmitP *) stmt_tac.
  - (* SEmitLashed *) stmt_tac.
  - stmt_tac.
  - stmt_tac.
  - (* SDump *) destruct e; stmt_tac.
  - stmt_tac.
Qed.

End StepInv3.

Section StepInv4.
Variable vr : variant.
Variable fns : list fdef.
Variable f : recfn.
Hypothesis HP : inv f.

Ltac t_expr := go f HP; simp_stk; congruence.
Ltac t_stmt := unfold loop_after_body in *; go f HP; try close2.

Lemma step_inv : inv (step fns f).
Proof.
  intros t st r st' Hne H. unfold post. destruct t; cbn [is_expr_task step] in *.
  - now apply (eval_expr_inv fns f HP) in H.
  - destruct es; t_expr.
  - destruct es; t_expr.
  - destruct es; destruct ps as [|[ty x] ps]; t_expr.
  - destruct kvs as [|[ke ve] rest]; t_expr.
  - now apply (exec_stmt_inv fns f HP) in H.
  - destruct ss; t_stmt.
  - t_stmt.
  - destruct arms as [|[c b] more]; [destruct els|]; t_stmt.
  - t_stmt.
  - t_stmt.
  - destruct entries as [|[key val] more]; [t_stmt|]. destruct v; t_stmt.
  - destruct ks as [|k ks]; [t_stmt|]. destruct entries as [|[key val] more]; [t_stmt|]. destruct ks; t_stmt.
  - t_stmt.
  - destruct nvs as [|[n v] rest]; t_stmt.
  - destruct entries as [|[k v] more]; [t_stmt|]. destruct keys as [|key krest]; t_stmt.
  - (* THof *) destruct items as [|item rest]; [t_expr|].
    destruct (call_values fns f lit fn (hof_args h ismap acc item) st) as [[r0 st1]| | |] eqn:E; cbn [bind] in H; try discriminate.
    apply (call_values_inv fns f HP) in E; [|assumption].
    assert (stk st1 <> []) by congruence.
    destruct (hof_next h ismap acc item r0); t_expr.
  - (* TSort *) destruct (List.length arr <=? i)%nat; [t_expr|]. destruct j as [|j']; [t_expr|].
    destruct (call_values fns f lit fn (nth (S j') arr [] ++ nth j' arr []) st) as [[r0 st1]| | |] eqn:E; cbn [bind] in H; try discriminate.
    apply (call_values_inv fns f HP) in E; [|assumption].
    assert (stk st1 <> []) by congruence.
    t_expr.
Qed.

End StepInv4.

Lemma run_inv fns fuel : inv (run fns fuel).
Proof.
  induction fuel as [|n IH]; [intros t st r st' _ H; discriminate H|].
  change (run fns (S n)) with (step fns (run fns n)). now apply step_inv.
Qed.

(* (1) by-value argument passing and fenced callee locals: an expression, whatever functions it calls, leaves the local
   variable stack of its evaluation context exactly as it found it *)
Lemma expressions_preserve_locals fns fuel e st v st' :
  stk st <> [] -> run fns fuel (TEval e) st = Ok (RV v, st') -> stk st' = stk st.
Proof. intros Hne H. exact (run_inv fns fuel (TEval e) st _ _ Hne H). Qed.

(* (2) statements only touch the current frameset: all the callers' framesets are unchanged *)
Lemma statements_preserve_caller_framesets fns fuel ss st o st' :
  stk st <> [] -> run fns fuel (TBlock ss) st = Ok (RO o, st') -> tl (stk st') = tl (stk st) /\ stk st' <> [].
Proof. intros Hne H. exact (run_inv fns fuel (TBlock ss) st _ _ Hne H). Qed.
