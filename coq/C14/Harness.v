(* C14 correspondence harness: the checks evaluated by vm_compute on cases written by harness/py/checks/c14.py. *)
From Miller Require Import C14.Value C14.Stack C14.Model.
Open Scope Z_scope.

Definition harness_fuel : nat := 700.

Definition variant_of (n : Z) : variant :=
  {| v_filter_per_record := Z.testbit n 0 |}.

Definition outitem_eqb (a b : outitem) : bool :=
  match a, b with
  | ORec r, ORec r' => amap_eqb r r'
  | OLine s, OLine s' => beqb s s'
  | OText s, OText s' => beqb s s'
  | _, _ => false
  end.

Fixpoint outs_eqb (a b : list outitem) : bool :=
  match a, b with
  | [], [] => true
  | x :: a', y :: b' => outitem_eqb x y && outs_eqb a' b'
  | _, _ => false
  end.

(* a program case: (variant bits, program, put -q, input records, observed status 0 ok / 1 error,
   observed output stream: emitted records (typed values, field order) and printed lines, in order).
   Result code: 0 agree, 1 DISAGREE, 2 model out of fuel (skipped), 3 outside the modelled fragment (skipped). *)
Definition pcase := (Z * prog * bool * list amap * Z * list outitem)%type.

Definition classify (c : pcase) : N :=
  let '(vb, p, q, ins, status, outs) := c in
  match run_prog (variant_of vb) p q harness_fuel ins with
  | Ok out => if (status =? 0) && outs_eqb out outs then 0%N else 1%N
  | Fatal => if status =? 1 then 0%N else 1%N
  | OutOfFuel => 2%N
  | Unsup => 3%N
  end.

(* a then-chain of put verbs: each verb is a program run of its own (own functions, own oosvars, own stack); the records a
   verb emits are the input of the next.  Text printed by a verb other than the last is outside the modelled chain. *)
Fixpoint recs_of (outs : list outitem) : option (list amap) :=
  match outs with
  | [] => Some []
  | ORec r :: t => match recs_of t with Some rs => Some (r :: rs) | None => None end
  | _ :: _ => None
  end.

Fixpoint run_chain (vr : variant) (ps : list (prog * bool)) (fuel : nat) (ins : list amap) : res (list outitem) :=
  match ps with
  | [] => Ok (map ORec ins)
  | [(p, q)] => run_prog vr p q fuel ins
  | (p, q) :: rest =>
      do outs <- run_prog vr p q fuel ins;
      match recs_of outs with Some rs => run_chain vr rest fuel rs | None => Unsup end
  end.

Definition ccase := (list (prog * bool) * list amap * Z * list outitem)%type.

Definition classify_chain (c : ccase) : N :=
  let '(ps, ins, status, outs) := c in
  match run_chain documented ps harness_fuel ins with
  | Ok out => if (status =? 0) && outs_eqb out outs then 0%N else 1%N
  | Fatal => if status =? 1 then 0%N else 1%N
  | OutOfFuel => 2%N
  | Unsup => 3%N
  end.

(* what the model computes, for diagnostics in the replay path *)
Definition model_output (c : pcase) : res (list outitem) :=
  let '(vb, p, q, ins, status, outs) := c in
  run_prog (variant_of vb) p q harness_fuel ins.

(* ---- stack-op cases: (ops, observations of the real runtime.Stack) *)
Fixpoint sobs_eqb (a b : list sobs) : bool :=
  match a, b with
  | [], [] => true
  | ObsUnit :: a', ObsUnit :: b' => sobs_eqb a' b'
  | ObsErr :: a', ObsErr :: b' => sobs_eqb a' b'
  | ObsVal None :: a', ObsVal None :: b' => sobs_eqb a' b'
  | ObsVal (Some x) :: a', ObsVal (Some y) :: b' => value_eqb x y && sobs_eqb a' b'
  | _, _ => false
  end.

Definition chk_stack (c : list sop * list sobs) : bool :=
  let '(ops, obs) := c in
  sobs_eqb (snd (c_run c_new ops)) obs && sobs_eqb (snd (a_run a_new ops)) obs.
