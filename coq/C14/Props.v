(* C14 property theorems.  Only statements closed by [exact]; each followed by Print Assumptions. *)
From Miller Require Import C14.Value C14.Stack C14.Model C14.Proofs.
Open Scope Z_scope.

(* new fields are appended while reassigned fields keep their position: the field order after [$k = v] *)
Theorem C14_reassigned_field_keeps_position :
  forall k v r, mhas k r = true -> mkeys (mput k v r) = mkeys r.
Proof. exact mkeys_mput_present. Qed.
Print Assumptions C14_reassigned_field_keeps_position.

Theorem C14_new_field_is_appended :
  forall k v r, mhas k r = false -> mkeys (mput k v r) = mkeys r ++ [k].
Proof. exact mkeys_mput_absent. Qed.
Print Assumptions C14_new_field_is_appended.
