(* C14 property theorems.  Only statements closed by [exact]; each followed by Print Assumptions.
   Stated over the definitions the harness runs (C14.Model.run / run_prog on the abstract stack of C14.Stack). *)
From Miller Require Import C14.Value C14.Stack C14.Model C14.Proofs C14.StackProofs.
Open Scope Z_scope.

(* ---- the pooled, recycled frames and framesets of pkg/runtime/stack.go are observationally the abstract scopes:
   for ALL operation sequences (push/pop frame, push/pop frameset, typed define, set, set-at-scope, unset, get)
   the concrete model and the list-of-scopes model give the same observations and related final states *)
Theorem C14_pooled_stack_refines_abstract :
  forall ops : list sop,
    snd (c_run c_new ops) = snd (a_run a_new ops) /\ abs_stack (fst (c_run c_new ops)) = fst (a_run a_new ops).
Proof. exact pooled_stack_refines_abstract. Qed.
Print Assumptions C14_pooled_stack_refines_abstract.

(* ---- block scoping on the stack the interpreter runs on *)
(* inner `var` shadows: inside the block the inner value is read, whatever outer frames hold *)
Theorem C14_inner_var_shadows :
  forall x t v s s', a_define x t v (a_push_frame s) = Some s' -> a_get x s' = Some v.
Proof. exact inner_define_shadows. Qed.
Print Assumptions C14_inner_var_shadows.

(* ... and when the block exits every outer binding is exactly as before *)
Theorem C14_block_local_declaration_vanishes :
  forall x t v sc fs r s', a_define x t v (a_push_frame ((sc :: fs) :: r)) = Some s' -> a_pop_frame s' = (sc :: fs) :: r.
Proof. exact define_in_block_is_local. Qed.
Print Assumptions C14_block_local_declaration_vanishes.

(* undeclared assignment inside a block updates the nearest enclosing binding, in place, keeping its declared type *)
Theorem C14_undeclared_assignment_updates_enclosing :
  forall x v b sc fs r s',
    sget x sc = Some b -> gate (b_ty b) v = true ->
    a_set x v (a_push_frame ((sc :: fs) :: r)) = Some s' ->
    a_pop_frame s' = (sreplace x {| b_ty := b_ty b; b_val := v |} sc :: fs) :: r.
Proof. exact set_in_block_updates_outer. Qed.
Print Assumptions C14_undeclared_assignment_updates_enclosing.

(* ---- type declarations are enforced: at the declaration and at every later plain assignment, from any nested scope *)
Theorem C14_type_gate_at_declaration :
  forall x t v s s', a_define x t v s = Some s' -> gate t v = true.
Proof. exact define_respects_gate. Qed.
Print Assumptions C14_type_gate_at_declaration.

Theorem C14_type_gate_at_assignment :
  forall x v fs r s' t, a_set x v (fs :: r) = Some s' -> fs_type x fs = Some t -> gate t v = true.
Proof. exact set_respects_gate. Qed.
Print Assumptions C14_type_gate_at_assignment.

(* ---- function calls get a fresh frameset: no caller variable is visible, and the caller's stack comes back intact *)
Theorem C14_callee_sees_no_caller_locals : forall x s, a_get x (a_push_set s) = None.
Proof. exact push_set_hides. Qed.
Print Assumptions C14_callee_sees_no_caller_locals.

Theorem C14_caller_stack_restored : forall s, s <> [] -> a_pop_set (a_push_set s) = s.
Proof. exact pop_push_set. Qed.
Print Assumptions C14_caller_stack_restored.

(* ---- new fields are appended while reassigned fields keep their position *)
Theorem C14_reassigned_field_keeps_position :
  forall k v r, mhas k r = true -> mkeys (mput k v r) = mkeys r.
Proof. exact mkeys_mput_present. Qed.
Print Assumptions C14_reassigned_field_keeps_position.

Theorem C14_new_field_is_appended :
  forall k v r, mhas k r = false -> mkeys (mput k v r) = mkeys r ++ [k].
Proof. exact mkeys_mput_absent. Qed.
Print Assumptions C14_new_field_is_appended.

(* ---- more fuel never changes a result other than OutOfFuel *)
Theorem C14_fuel_monotone :
  forall vr fns fuel fuel' t st r,
    (fuel <= fuel')%nat -> run vr fns fuel t st = r -> r <> OutOfFuel -> run vr fns fuel' t st = r.
Proof. exact fuel_monotone. Qed.
Print Assumptions C14_fuel_monotone.
