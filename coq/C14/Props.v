(* C14 property theorems.  Only statements closed by [exact]; each followed by Print Assumptions.
   Stated over the definitions the harness runs (C14.Model.run / run_prog on the abstract stack of C14.Stack). *)
From Miller Require Import C14.Value C14.Stack C14.Model C14.Proofs C14.StackProofs C14.ScopeProofs C14.DepthProofs C14.InterpProofs C14.PrecProofs C14.ArrayProofs C14.Harness C14.HofProofs gen.Gen_Precedence.
Open Scope Z_scope.

(* ---- the pooled, recycled frames and framesets of pkg/runtime/stack.go are observationally the abstract scopes:
   for ALL operation sequences (push/pop frame, push/pop frameset, typed define, set, set-at-scope, unset, get)
   the concrete model and the list-of-scopes model give the same observations and related final states *)
Theorem C14_pooled_stack_refines_abstract :
  forall ops : list sop,
    snd (c_run c_new ops) = snd (a_run a_new ops) /\ abs_stack (fst (c_run c_new ops)) = fst (a_run a_new ops).
Proof. exact pooled_stack_refines_abstract. Qed.
Print Assumptions C14_pooled_stack_refines_abstract.

(* ---- block scoping on the stack the interpreter runs on *)
(* inner `var` shadows: inside the block the inner value is read, whatever outer frames hold *)
Theorem C14_inner_var_shadows :
  forall x t v s s', a_define x t v (a_push_frame s) = Some s' -> a_get x s' = Some v.
Proof. exact inner_define_shadows. Qed.
Print Assumptions C14_inner_var_shadows.

(* ... and when the block exits every outer binding is exactly as before *)
Theorem C14_block_local_declaration_vanishes :
  forall x t v sc fs r s', a_define x t v (a_push_frame ((sc :: fs) :: r)) = Some s' -> a_pop_frame s' = (sc :: fs) :: r.
Proof. exact define_in_block_is_local. Qed.
Print Assumptions C14_block_local_declaration_vanishes.

(* undeclared assignment inside a block updates the nearest enclosing binding, in place, keeping its declared type *)
Theorem C14_undeclared_assignment_updates_enclosing :
  forall x v b sc fs r s',
    sget x sc = Some b -> gate (b_ty b) v = true ->
    a_set x v (a_push_frame ((sc :: fs) :: r)) = Some s' ->
    a_pop_frame s' = (sreplace x {| b_ty := b_ty b; b_val := v |} sc :: fs) :: r.
Proof. exact set_in_block_updates_outer. Qed.
Print Assumptions C14_undeclared_assignment_updates_enclosing.

(* ---- type declarations are enforced: at the declaration and at every later plain assignment, from any nested scope *)
Theorem C14_type_gate_at_declaration :
  forall x t v s s', a_define x t v s = Some s' -> gate t v = true.
Proof. exact define_respects_gate. Qed.
Print Assumptions C14_type_gate_at_declaration.

Theorem C14_type_gate_at_assignment :
  forall x v fs r s' t, a_set x v (fs :: r) = Some s' -> fs_type x fs = Some t -> gate t v = true.
Proof. exact set_respects_gate. Qed.
Print Assumptions C14_type_gate_at_assignment.

(* ---- function calls get a fresh frameset: no caller variable is visible, and the caller's stack comes back intact *)
Theorem C14_callee_sees_no_caller_locals : forall x s, a_get x (a_push_set s) = None.
Proof. exact push_set_hides. Qed.
Print Assumptions C14_callee_sees_no_caller_locals.

Theorem C14_caller_stack_restored : forall s, s <> [] -> a_pop_set (a_push_set s) = s.
Proof. exact pop_push_set. Qed.
Print Assumptions C14_caller_stack_restored.

(* ---- arguments are passed by value and callee locals are fenced off, over WHOLE executions (induction on fuel):
   evaluating any expression -- with all the user-defined functions it calls, recursively, and every assignment they make to
   their parameters and locals, indexed or not -- returns the local-variable stack of the evaluation context unchanged *)
Theorem C14_arguments_by_value_callee_cannot_touch_caller_locals :
  forall fns fuel e st v st',
    stk st <> [] -> run fns fuel (TEval e) st = Ok (RV v, st') -> stk st' = stk st.
Proof. exact expressions_preserve_locals. Qed.
Print Assumptions C14_arguments_by_value_callee_cannot_touch_caller_locals.

(* statements (blocks, loops, emits ...) only ever change the CURRENT frameset: every caller's frameset is untouched *)
Theorem C14_statements_touch_only_current_frameset :
  forall fns fuel ss st o st',
    stk st <> [] -> run fns fuel (TBlock ss) st = Ok (RO o, st') -> tl (stk st') = tl (stk st) /\ stk st' <> [].
Proof. exact statements_preserve_caller_framesets. Qed.
Print Assumptions C14_statements_touch_only_current_frameset.

(* block scoping over whole executions (induction on fuel): a block -- with every nested block, loop, break/continue/return,
   function and subroutine call in it -- returns with the current frameset at the frame depth it was entered with, and with
   all callers' framesets untouched: the scopes visible after the block are the ones visible before it *)
Theorem C14_blocks_restore_scope_depth :
  forall fns fuel ss st o st',
    (1 <= depth (stk st))%nat -> run fns fuel (TBlock ss) st = Ok (RO o, st') ->
    depth (stk st') = depth (stk st) /\ tl (stk st') = tl (stk st).
Proof. exact blocks_restore_scope_depth. Qed.
Print Assumptions C14_blocks_restore_scope_depth.

(* ---- new fields are appended while reassigned fields keep their position *)
Theorem C14_reassigned_field_keeps_position :
  forall k v r, mhas k r = true -> mkeys (mput k v r) = mkeys r.
Proof. exact mkeys_mput_present. Qed.
Print Assumptions C14_reassigned_field_keeps_position.

Theorem C14_new_field_is_appended :
  forall k v r, mhas k r = false -> mkeys (mput k v r) = mkeys r ++ [k].
Proof. exact mkeys_mput_absent. Qed.
Print Assumptions C14_new_field_is_appended.

(* ---- more fuel never changes a result other than OutOfFuel *)
Theorem C14_fuel_monotone :
  forall fns fuel fuel' t st r,
    (fuel <= fuel')%nat -> run fns fuel t st = r -> r <> OutOfFuel -> run fns fuel' t st = r.
Proof. exact fuel_monotone. Qed.
Print Assumptions C14_fuel_monotone.

(* ---- documented precedence: the operator chain REGENERATED from pkg/parsing/mlr.bnf on this run has the levels, operator
   sets, associativity and arity of the reference table (docs/src/reference-dsl-operators.md, entered in PrecProofs.v) *)
Theorem C14_precedence_matches_reference : levels_eqb gen_levels documented_levels = true.
Proof. exact precedence_matches_reference. Qed.
Print Assumptions C14_precedence_matches_reference.

(* ---- absent rules: assigning an absent value is skipped, for every kind of left-hand side, with or without indices *)
Theorem C14_absent_assignment_skipped :
  forall fns rec b idx e st st1,
    rec (TEval e) st = Ok (RV VAbsent, st1) ->
    step fns rec (TExec (SAssign b idx e)) st = Ok (RO ONormal, st1).
Proof. exact absent_assignment_skipped. Qed.
Print Assumptions C14_absent_assignment_skipped.

Theorem C14_absent_declaration_skipped :
  forall fns rec t x e st st1,
    rec (TEval e) st = Ok (RV VAbsent, st1) ->
    step fns rec (TExec (SDefine t x e)) st = Ok (RO ONormal, st1).
Proof. exact absent_declaration_skipped. Qed.
Print Assumptions C14_absent_declaration_skipped.

(* a present value assigned to $k is stored by PutCopy (so the two field-order theorems above apply to it) *)
Theorem C14_field_assignment_is_put :
  forall fns rec k e st st1 v r,
    rec (TEval e) st = Ok (RV v, st1) -> v <> VAbsent -> inrec st1 = Some r ->
    step fns rec (TExec (SAssign (LField k) [] e)) st = Ok (RO ONormal, set_inrec (Some (mput k v r)) st1).
Proof. exact field_assignment_is_put. Qed.
Print Assumptions C14_field_assignment_is_put.

(* ---- out-of-stream variables persist across records *)
Theorem C14_oosvars_persist_across_records :
  forall vr p q fuel r t st st1,
    run_block (p_funcs p) fuel (p_main p)
      (let st0 := set_nr (nr st + 1) (set_inrec (Some r) st) in if v_filter_per_record vr then set_filt VAbsent st0 else st0) = Ok st1 ->
    exists st2, run_records vr p q fuel (r :: t) st = run_records vr p q fuel t st2 /\ oos st2 = oos st1 /\ stk st2 = stk st1.
Proof. exact oosvars_persist. Qed.
Print Assumptions C14_oosvars_persist_across_records.

(* ---- filter statement: in the reference semantics the decision taken for earlier records is irrelevant ... *)
Theorem C14_filter_is_per_record :
  forall vr p q fuel r t st f,
    v_filter_per_record vr = true ->
    run_records vr p q fuel (r :: t) (set_filt f st) = run_records vr p q fuel (r :: t) st.
Proof. exact filter_is_per_record. Qed.
Print Assumptions C14_filter_is_per_record.

(* ... which was false of the tree before the repair of put_or_filter.go (FilterExpression never reset), kept as
   documentation of that variant: witness *)
Theorem C14_filter_is_per_record_refuted_for_old_variant :
  run_prog {| v_filter_per_record := false |} sticky_witness false 50 [[(B "a", VInt 1)]; [(B "a", VInt 2)]] = Ok []
  /\ run_prog documented sticky_witness false 50 [[(B "a", VInt 1)]; [(B "a", VInt 2)]] = Ok [ORec [(B "a", VInt 2)]].
Proof. exact filter_sticky_variant_drops_later_records. Qed.
Print Assumptions C14_filter_is_per_record_refuted_for_old_variant.

(* ---- type declarations are enforced at indexed assignment too, for every local: x[i...] = v on a local declared with
   type t succeeds only if t admits maps (so it always fails on int/num/str/bool locals) -- or, now that arrays are values,
   if the local already holds an array and t admits arrays (PutIndexed keeps an array an array: next theorem) -- given that
   a collection currently stored in the slot respects the declaration.  (Before arrays were modelled the conclusion was
   the first disjunct alone; that statement is false once `arr x = [1]; x[1] = 2` is in the language.) *)
Theorem C14_type_gate_enforced_indexed :
  forall x vs v st fs r t st',
    stk st = fs :: r -> fs_type x fs = Some t ->
    (forall c, fs_get x fs = Some c -> is_coll c = true -> gate t c = true) ->
    assign_local_indexed x vs v st = Ok (RO ONormal, st') ->
    (forall m, gate t (VMap m) = true) \/ (exists a, fs_get x fs = Some (VArr a) /\ forall a', gate t (VArr a') = true).
Proof. exact indexed_assignment_gated. Qed.
Print Assumptions C14_type_gate_enforced_indexed.

Theorem C14_indexed_assignment_keeps_collection_kind :
  forall idx c v c', is_coll c = true -> put_indexed c idx v = VOk c' -> is_map c' = is_map c /\ is_arr c' = is_arr c.
Proof. exact put_indexed_keeps_kind. Qed.
Print Assumptions C14_indexed_assignment_keeps_collection_kind.

(* ---- arrays: 1-up indexing with negative aliases (-1 = last), reads out of bounds are absent *)
Theorem C14_array_index_alias : forall a k, 1 <= k <= alen a -> arr_get a (k - alen a - 1) = arr_get a k.
Proof. exact array_index_alias. Qed.
Print Assumptions C14_array_index_alias.

Theorem C14_array_read_in_bounds_is_1_up :
  forall a k, 1 <= k <= alen a -> index_read (VArr a) (VInt k) = Ok (nth (Z.to_nat (k - 1)) a VAbsent).
Proof. exact array_read_in_bounds. Qed.
Print Assumptions C14_array_read_in_bounds_is_1_up.

Theorem C14_array_read_out_of_bounds_is_absent :
  forall a k, arr_inb (alen a) k = false -> index_read (VArr a) (VInt k) = Ok VAbsent.
Proof. exact array_read_out_of_bounds_is_absent. Qed.
Print Assumptions C14_array_read_out_of_bounds_is_absent.

(* assignment to an in-bounds index (alias or not) replaces that element, keeps the length and every other element *)
Theorem C14_array_put_get :
  forall a k v, arr_inb (alen a) k = true ->
    exists a', put_indexed (VArr a) [VInt k] v = VOk (VArr a') /\ arr_get a' k = Some v /\ alen a' = alen a.
Proof. exact array_put_get. Qed.
Print Assumptions C14_array_put_get.

Theorem C14_array_put_leaves_other_elements :
  forall a k j v, arr_inb (alen a) k = true -> zidx (alen a) k <> zidx (alen a) j ->
    arr_get (arr_set a (zidx (alen a) k) v) j = arr_get a j.
Proof. exact array_put_other. Qed.
Print Assumptions C14_array_put_leaves_other_elements.

(* auto-extend: one past the end appends exactly one element; index 0 and negative indices before the start are statement
   errors.  FULL statement of the reference (reference-main-arrays.md "Auto-extend and null-gaps"): writing further out
   extends the array and fills the gap with JSON null.  The model has no null value: it leaves the fragment there
   (third theorem), and the correspondence skips and counts such programs. *)
Theorem C14_array_auto_extend_by_one : forall a v, put_indexed (VArr a) [VInt (alen a + 1)] v = VOk (VArr (a ++ [v])).
Proof. exact array_auto_extend_by_one. Qed.
Print Assumptions C14_array_auto_extend_by_one.

Theorem C14_array_put_zero_or_before_start_is_error :
  forall a k v, k = 0 \/ k < - alen a -> put_indexed (VArr a) [VInt k] v = VErr.
Proof. exact array_put_zero_or_before_start_is_error. Qed.
Print Assumptions C14_array_put_zero_or_before_start_is_error.

Theorem C14_array_put_beyond_partial : forall a k v, alen a + 1 < k -> put_indexed (VArr a) [VInt k] v = VUnsup.
Proof. exact array_put_beyond_is_outside_fragment. Qed.
Print Assumptions C14_array_put_beyond_partial.

(* inclusive slices with 1-up bounds, negative aliases, trimming *)
Theorem C14_slice_is_inclusive :
  forall (l : list value) lo hi, 1 <= lo -> lo <= hi -> hi <= Z.of_nat (List.length l) ->
    slice_list l lo hi = firstn (Z.to_nat (hi - lo + 1)) (skipn (Z.to_nat (lo - 1)) l).
Proof. exact (@slice_is_firstn_skipn value). Qed.
Print Assumptions C14_slice_is_inclusive.

Theorem C14_slice_length :
  forall (l : list value) lo hi, 1 <= lo -> lo <= hi -> hi <= Z.of_nat (List.length l) ->
    Z.of_nat (List.length (slice_list l lo hi)) = hi - lo + 1.
Proof. exact (@slice_length value). Qed.
Print Assumptions C14_slice_length.

Theorem C14_slice_negative_alias :
  forall (l : list value) lo hi, 1 <= lo <= Z.of_nat (List.length l) -> 1 <= hi <= Z.of_nat (List.length l) ->
    slice_list l (lo - Z.of_nat (List.length l) - 1) (hi - Z.of_nat (List.length l) - 1) = slice_list l lo hi.
Proof. exact (@slice_negative_alias value). Qed.
Print Assumptions C14_slice_negative_alias.

Theorem C14_slice_out_of_range_is_trimmed :
  forall (l : list value) lo hi, 1 <= lo -> Z.of_nat (List.length l) <= hi -> slice_list l lo hi = skipn (Z.to_nat (lo - 1)) l.
Proof. exact (@slice_trims value). Qed.
Print Assumptions C14_slice_out_of_range_is_trimmed.

Theorem C14_array_unset_shifts :
  forall a k, 1 <= k <= alen a -> remove_indexed (VArr a) [VInt k] = VArr (firstn (Z.to_nat (k - 1)) a ++ skipn (Z.to_nat k) a).
Proof. exact array_unset_shifts. Qed.
Print Assumptions C14_array_unset_shifts.

(* arguments by value, arrays: C14_arguments_by_value_callee_cannot_touch_caller_locals above quantifies over all values,
   arrays included; this is its computed instance (the callee overwrites, extends and unsets elements of its parameter) *)
Theorem C14_array_argument_by_value_instance :
  run_prog documented array_by_value_witness false 60 [] =
  Ok [ORec [(B "inner", VArr [VInt 99; VInt 3; VInt 7]); (B "outer", VArr [VInt 1; VInt 2; VInt 3])]].
Proof. exact array_by_value_example. Qed.
Print Assumptions C14_array_argument_by_value_instance.

(* ---- positional names $[[n]] / values $[[[n]]] *)
Theorem C14_positional_out_of_range_assignment_is_noop :
  forall m p v, pos_idx m p = None -> pos_put_value m p v = m /\ pos_put_name m p v = m.
Proof. exact positional_out_of_range_is_noop. Qed.
Print Assumptions C14_positional_out_of_range_assignment_is_noop.

Theorem C14_positional_negative_alias :
  forall m p, 1 <= p <= Z.of_nat (List.length m) -> pos_idx m (p - Z.of_nat (List.length m) - 1) = pos_idx m p.
Proof. exact positional_alias. Qed.
Print Assumptions C14_positional_negative_alias.

Theorem C14_positional_value_assignment_keeps_names : forall m p v, mkeys (pos_put_value m p v) = mkeys m.
Proof. exact positional_value_assignment_keeps_names. Qed.
Print Assumptions C14_positional_value_assignment_keeps_names.

(* ---- emitf @a, @b = one record with those names *)
Theorem C14_emitf_is_one_record :
  forall fns rec items st vs st1,
    rec (TEvals (map snd items)) st = Ok (RVs vs, st1) ->
    step fns rec (TExec (SEmitF items)) st =
    Ok (RO ONormal, emit_item (ORec (fold_left (fun r kv => match snd kv with VAbsent => r | v => mput (fst kv) v r end)
                                               (combine (map fst items) vs) [])) st1).
Proof. exact emitf_is_one_record. Qed.
Print Assumptions C14_emitf_is_one_record.

Example C14_positional_nonvacuous :
  pos_idx [(B "a", VInt 1); (B "b", VInt 2)] 3 = None
  /\ pos_put_name [(B "a", VInt 1); (B "b", VInt 2); (B "c", VInt 3)] 1 (VStr (B "b")) = [(B "b", VInt 1); (B "c", VInt 3)]
  /\ pos_name [(B "a", VInt 1); (B "b", VInt 2)] (-1) = Some (B "b").
Proof. repeat split; vm_compute; reflexivity. Qed.

Example C14_arrays_nonvacuous :
  arr_get [VInt 10; VInt 20; VInt 30] (-1) = Some (VInt 30)
  /\ arr_inb (alen [VInt 10; VInt 20; VInt 30]) (-3) = true /\ arr_inb 3 0 = false /\ arr_inb 3 4 = false
  /\ slice_list [VInt 1; VInt 2; VInt 3; VInt 4; VInt 5] 2 3 = [VInt 2; VInt 3]
  /\ slice_list [VInt 1; VInt 2; VInt 3; VInt 4; VInt 5] (-2) (-1) = [VInt 4; VInt 5]
  /\ slice_read (VStr (B "hello")) (VInt 2) (VInt 3) = VStr (B "el")
  /\ put_indexed (VArr [VInt 1]) [VInt 2; VStr (B "k")] (VInt 5) = VOk (VArr [VInt 1; VMap [(B "k", VInt 5)]]).
Proof. repeat split; vm_compute; reflexivity. Qed.

(* ---- emit @name, "a", "b" splits a two-level map exactly into the records of the two-level grouping *)
Theorem C14_emit_by_names_splits_like_grouping :
  forall fns name a b, a <> b -> a <> name -> b <> name ->
  forall m fuel st, two_level m = true -> (total2 m < fuel)%nat ->
    run fns fuel (TEmitIdx false [] name m [a; b]) st = Ok (RO ONormal, emit_all (group2 name a b m) st).
Proof. exact emit_by_names_is_grouping. Qed.
Print Assumptions C14_emit_by_names_splits_like_grouping.

(* ---- multi-key for-loops for ((k1,...,kn), v in m): break (return, error) from any key level ends the whole loop *)
Theorem C14_multikey_exit_propagates_through_every_level :
  forall fns rec k k2 ks vn key sub more body st s1 o st2,
    a_set_at_scope k (VStr key) (stk st) = Some s1 ->
    rec (TMulti (k2 :: ks) vn sub body) (set_stk s1 st) = Ok (RO o, st2) -> o <> ONormal ->
    step fns rec (TMulti (k :: k2 :: ks) vn ((key, VMap sub) :: more) body) st = Ok (RO o, st2).
Proof. exact multikey_exit_propagates. Qed.
Print Assumptions C14_multikey_exit_propagates_through_every_level.

Theorem C14_multikey_break_ends_whole_loop :
  forall fns rec ks vn e body st m st1 st2,
    rec (TEval e) st = Ok (RV (VMap m), st1) ->
    rec (TMulti ks vn m body) (push_frame st1) = Ok (RO OBreak, st2) ->
    step fns rec (TExec (SForMulti ks vn e body)) st = Ok (RO ONormal, pop_frame st2).
Proof. exact multikey_break_ends_loop. Qed.
Print Assumptions C14_multikey_break_ends_whole_loop.

(* ---- by value at function RETURN: the value a call (or any sub-expression) produced is the value its consumer gets,
   whatever the later sub-expressions of the same expression do to the storage it was read from (st2 is arbitrary) *)
Theorem C14_returned_value_unaffected_by_later_mutation :
  forall fns rec e es st v st1 vs st2,
    rec (TEval e) st = Ok (RV v, st1) -> rec (TEvals es) st1 = Ok (RVs vs, st2) ->
    step fns rec (TEvals (e :: es)) st = Ok (RVs (v :: vs), st2).
Proof. exact earlier_value_is_a_snapshot. Qed.
Print Assumptions C14_returned_value_unaffected_by_later_mutation.

Theorem C14_argument_unaffected_by_later_sibling_arguments :
  forall fns rec soft e es t x ps st v st1 vs st2,
    rec (TEval e) st = Ok (RV v, st1) -> gate t v = true -> rec (TArgs soft es ps) st1 = Ok (RVs vs, st2) ->
    step fns rec (TArgs soft (e :: es) ((t, x) :: ps)) st = Ok (RVs (v :: vs), st2).
Proof. exact earlier_argument_is_a_snapshot. Qed.
Print Assumptions C14_argument_unaffected_by_later_sibling_arguments.

Theorem C14_return_snapshot_instance :
  run_prog documented return_snapshot_witness false 60 [] = Ok [OLine (B "1/bumped"); OLine (B "101")].
Proof. exact return_snapshot_example. Qed.
Print Assumptions C14_return_snapshot_instance.

(* non-vacuity: concrete inputs meeting the hypotheses, and a recursive program the interpreter really runs *)
Example C14_nonvacuous :
  two_level [(B "pan", VMap [(B "x", VInt 1); (B "y", VInt 2)]); (B "eks", VMap [(B "x", VInt 3)])] = true
  /\ group2 (B "sum") (B "a") (B "b") [(B "pan", VMap [(B "x", VInt 1)])] = [[(B "a", VStr (B "pan")); (B "b", VStr (B "x")); (B "sum", VInt 1)]]
  /\ a_define (B "x") TInt (VInt 1) (a_push_frame a_new) <> None
  /\ a_define (B "x") TInt (VStr (B "a")) a_new = None
  /\ run_prog documented
       {| p_funcs := [{| f_name := B "f"; f_sub := false; f_params := [(TInt, B "n")]; f_ret := TInt;
                         f_body := [SIf [(EBin (BCmp CLe) (ELocal (B "n")) (EInt 1), [SReturn (Some (EInt 1))])] None;
                                    SReturn (Some (EBin (BArith OMul) (ELocal (B "n")) (ECall (B "f") [EBin (BArith OSub) (ELocal (B "n")) (EInt 1)])))] |}];
          p_begin := []; p_main := [SAssign (LField (B "y")) [] (ECall (B "f") [EField (B "a")])]; p_end := [] |}
       false 100 [[(B "a", VInt 5)]] = Ok [ORec [(B "a", VInt 5); (B "y", VInt 120)]].
Proof. repeat split; try (vm_compute; congruence); vm_compute; reflexivity. Qed.

(* ---- round 3: short circuit, emitp, higher-order functions with function literals, then-chains *)
(* && / || / ?: / ?? never evaluate the skipped side: result and state are the left operand's, for EVERY skipped expression *)
Theorem C14_and_short_circuits :
  forall fns rec a b st st1, rec (TEval a) st = Ok (RV (VBool false), st1) ->
    step fns rec (TEval (EAnd a b)) st = Ok (RV (VBool false), st1).
Proof. exact and_short_circuit. Qed.
Print Assumptions C14_and_short_circuits.

Theorem C14_or_short_circuits :
  forall fns rec a b st st1, rec (TEval a) st = Ok (RV (VBool true), st1) ->
    step fns rec (TEval (EOr a b)) st = Ok (RV (VBool true), st1).
Proof. exact or_short_circuit. Qed.
Print Assumptions C14_or_short_circuits.

Theorem C14_ternary_true_skips_else :
  forall fns rec c a b b' st st1 (bv : bool), rec (TEval c) st = Ok (RV (VBool true), st1) ->
    step fns rec (TEval (ETern c a b)) st = step fns rec (TEval (ETern c a b')) st
    /\ step fns rec (TEval (ETern c a b)) st = rec (TEval a) st1.
Proof. exact ternary_evaluates_one_branch. Qed.
Print Assumptions C14_ternary_true_skips_else.

Theorem C14_ternary_false_skips_then :
  forall fns rec c a a' b st st1, rec (TEval c) st = Ok (RV (VBool false), st1) ->
    step fns rec (TEval (ETern c a b)) st = step fns rec (TEval (ETern c a' b)) st
    /\ step fns rec (TEval (ETern c a b)) st = rec (TEval b) st1.
Proof. exact ternary_false_skips_then. Qed.
Print Assumptions C14_ternary_false_skips_then.

Theorem C14_absent_coalescing_skips_rhs_when_present :
  forall fns rec a b st v st1, rec (TEval a) st = Ok (RV v, st1) -> v <> VAbsent ->
    step fns rec (TEval (ECoal a b)) st = Ok (RV v, st1).
Proof. exact coalesce_skips_rhs_when_present. Qed.
Print Assumptions C14_absent_coalescing_skips_rhs_when_present.

(* emitp by names = the grouping, = emit by names, on two-level maps *)
Theorem C14_emitp_by_names_splits_like_grouping :
  forall fns name a b, a <> b -> a <> name -> b <> name ->
  forall m fuel st, two_level m = true -> (total2 m < fuel)%nat ->
    run fns fuel (TEmitIdx true [] name m [a; b]) st = Ok (RO ONormal, emit_all (group2 name a b m) st).
Proof. exact emitp_by_names_is_grouping. Qed.
Print Assumptions C14_emitp_by_names_splits_like_grouping.

Theorem C14_emitp_equals_emit_on_two_level_maps :
  forall fns name a b, a <> b -> a <> name -> b <> name ->
  forall m fuel st, two_level m = true -> (total2 m < fuel)%nat ->
    run fns fuel (TEmitIdx true [] name m [a; b]) st = run fns fuel (TEmitIdx false [] name m [a; b]) st.
Proof. exact emitp_emit_agree_on_two_level_maps. Qed.
Print Assumptions C14_emitp_equals_emit_on_two_level_maps.

Theorem C14_emitp_unindexed_is_one_named_record :
  forall fns rec name e st v st1, rec (TEval e) st = Ok (RV v, st1) -> v <> VAbsent ->
    step fns rec (TExec (SEmitP name e [])) st = Ok (RO ONormal, emit_item (ORec [(name, v)]) st1).
Proof. exact emitp_unindexed_is_one_named_record. Qed.
Print Assumptions C14_emitp_unindexed_is_one_named_record.

(* higher-order functions: one callback call per element in order, accumulator threaded; any/every stop early;
   callbacks (named functions and, inside the fragment, function literals) leave the caller's locals as they were *)
Theorem C14_hof_calls_callback_per_element_in_order :
  forall fns rec h ismap lit fn item rest acc st r st1 acc',
    call_values fns rec lit fn (hof_args h ismap acc item) st = Ok (r, st1) ->
    hof_next h ismap acc item r = HCont acc' ->
    step fns rec (THof h ismap lit fn (item :: rest) acc) st = rec (THof h ismap lit fn rest acc') st1.
Proof. exact hof_step. Qed.
Print Assumptions C14_hof_calls_callback_per_element_in_order.

Theorem C14_any_stops_at_first_true :
  forall fns rec ismap lit fn item rest rest' acc st st1,
    call_values fns rec lit fn (hof_args HAny ismap acc item) st = Ok (VBool true, st1) ->
    step fns rec (THof HAny ismap lit fn (item :: rest) acc) st = Ok (RV (VBool true), st1)
    /\ step fns rec (THof HAny ismap lit fn (item :: rest') acc) st = Ok (RV (VBool true), st1).
Proof. exact any_stops_at_first_true. Qed.
Print Assumptions C14_any_stops_at_first_true.

Theorem C14_every_stops_at_first_false :
  forall fns rec ismap lit fn item rest rest' acc st st1,
    call_values fns rec lit fn (hof_args HEvery ismap acc item) st = Ok (VBool false, st1) ->
    step fns rec (THof HEvery ismap lit fn (item :: rest) acc) st = Ok (RV (VBool false), st1)
    /\ step fns rec (THof HEvery ismap lit fn (item :: rest') acc) st = Ok (RV (VBool false), st1).
Proof. exact every_stops_at_first_false. Qed.
Print Assumptions C14_every_stops_at_first_false.

Theorem C14_callbacks_preserve_caller_locals :
  forall fns fuel lit fn vs st v st', stk st <> [] ->
    call_values fns (run fns fuel) lit fn vs st = Ok (v, st') -> stk st' = stk st.
Proof. exact callbacks_preserve_locals. Qed.
Print Assumptions C14_callbacks_preserve_caller_locals.

(* then-chains: each put is a program of its own (functions, oosvars, stack) on the records the previous one emitted *)
Theorem C14_chain_verbs_are_separate_programs :
  forall vr p q p2 rest fuel ins outs rs, run_prog vr p q fuel ins = Ok outs -> recs_of outs = Some rs ->
    run_chain vr ((p, q) :: p2 :: rest) fuel ins = run_chain vr (p2 :: rest) fuel rs.
Proof. exact chain_is_composition. Qed.
Print Assumptions C14_chain_verbs_are_separate_programs.

Example C14_round3_nonvacuous :
  run_prog documented hof_witness false 60 [] = Ok [OLine (B "[10, 20, 30]"); OLine (B "106"); OLine (B "[3, 1, 2]"); OLine (B "10")]
  /\ run_chain documented [(verb 1 (B "x"), false); (verb 10 (B "y"), false)] 60 [[(B "a", VInt 0)]] =
     Ok [ORec [(B "a", VInt 0); (B "x", VArr [VInt 2; VInt 3]); (B "y", VArr [VInt 11; VInt 12])]].
Proof. split; [exact hof_example|exact chain_example]. Qed.
