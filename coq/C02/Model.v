(* C02 model, part 1: flatten / unflatten of nested record values.
   Transliteration of
     pkg/mlrval/mlrval_accessors.go        FlattenToMap
     pkg/mlrval/mlrmap_flatten_unflatten.go Flatten, CopyUnflattened, unflattenTerminal, SplitAXHelper
     pkg/mlrval/mlrval_collections.go       PutIndexed / putIndexedOnMap (string indices only), Arrayify
     pkg/cli/flatten_unflatten.go           DecideFinalFlatten / DecideFinalUnflatten
   Definitions only. *)
From Coq Require Import DecimalString.
From Miller Require Export Base.Bytes.
Open Scope char_scope.

(* JSON-ish values as Miller holds them: a number keeps its source text *)
Inductive jv : Type :=
| JStr (s : bytes)
| JNum (t : bytes)
| JBool (b : bool)
| JNull
| JMap (m : list (bytes * jv))
| JArr (l : list jv).

Definition jmap := list (bytes * jv).

Definition is_coll (v : jv) : bool := match v with JMap _ | JArr _ => true | _ => false end.

(* Mlrmap.Get / PutReference|PutCopy: overwrite in place, else append *)
Fixpoint jget (k : bytes) (m : jmap) : option jv :=
  match m with
  | [] => None
  | (k', v) :: t => if beqb k k' then Some v else jget k t
  end.

Fixpoint jput (k : bytes) (v : jv) (m : jmap) : jmap :=
  match m with
  | [] => [(k, v)]
  | (k', v') :: t => if beqb k k' then (k', v) :: t else (k', v') :: jput k v t
  end.

Definition putall (src dst : jmap) : jmap := fold_left (fun acc kv => jput (fst kv) (snd kv) acc) src dst.

(* strconv.Itoa on positive indices *)
Definition itoa (n : N) : bytes := list_ascii_of_string (NilZero.string_of_uint (N.to_uint n)).

Definition is_nil {A} (l : list A) : bool := match l with [] => true | _ => false end.

(* nextPrefix := key, or prefix + delimiter + key when prefix != "" *)
Definition next_prefix (sep prefix k : bytes) : bytes :=
  match prefix with [] => k | _ => prefix ++ sep ++ k end.

(* Mlrval.FlattenToMap(prefix, delimiter) *)
Fixpoint ftm (sep prefix : bytes) (v : jv) {struct v} : jmap :=
  match v with
  | JMap m =>
      (fix go (m : jmap) (acc : jmap) {struct m} : jmap :=
         match m with
         | [] => acc
         | (k, x) :: t =>
             go t (if is_coll x then putall (ftm sep (next_prefix sep prefix k) x) acc
                   else jput (next_prefix sep prefix k) x acc)
         end) m (if is_nil m && negb (is_nil prefix) then [(prefix, JStr (B "{}"))] else [])
  | JArr l =>
      (fix go (l : list jv) (i : N) (acc : jmap) {struct l} : jmap :=
         match l with
         | [] => acc
         | x :: t =>
             go t (N.succ i) (if is_coll x then putall (ftm sep (next_prefix sep prefix (itoa i)) x) acc
                              else jput (next_prefix sep prefix (itoa i)) x acc)
         end) l 1%N (if is_nil l && negb (is_nil prefix) then [(prefix, JStr (B "[]"))] else [])
  | _ => [(prefix, v)]
  end.

(* Mlrmap.Flatten(separator), including the isFlattenable fast path *)
Definition flatten_step (sep : bytes) (acc : jmap) (kv : bytes * jv) : jmap :=
  if is_coll (snd kv) then putall (ftm sep (fst kv) (snd kv)) acc else jput (fst kv) (snd kv) acc.

Definition flatten (sep : bytes) (r : jmap) : jmap :=
  if existsb (fun kv => is_coll (snd kv)) r then fold_left (flatten_step sep) r [] else r.

(* ---- unflatten ---- *)

(* unflattenTerminal: only STRING values "{}" / "[]" *)
Definition ut (v : jv) : jv :=
  match v with
  | JStr s => if beqb s (B "{}") then JMap [] else if beqb s (B "[]") then JArr [] else v
  | _ => v
  end.

(* strings.Contains / strings.Split for a non-empty separator *)
Fixpoint containsb (sep s : bytes) : bool :=
  match s with
  | [] => is_nil sep
  | _ :: t => prefixb sep s || containsb sep t
  end.

Fixpoint split_aux (sep : bytes) (cur : bytes) (skip : nat) (s : bytes) : list bytes :=
  match s with
  | [] => [rev cur]
  | c :: t =>
      match skip with
      | S k => split_aux sep cur k t
      | O => if prefixb sep s then rev cur :: split_aux sep [] (List.length sep - 1) t
             else split_aux sep (c :: cur) 0 t
      end
  end.
(* lib.SplitString: "" gives the empty list *)
Definition split (sep s : bytes) : list bytes := match s with [] => [] | _ => split_aux sep [] 0 s end.

Fixpoint join (sep : bytes) (l : list bytes) : bytes :=
  match l with
  | [] => []
  | [x] => x
  | x :: t => x ++ sep ++ join sep t
  end.

(* putIndexedOnMap with string indices (SplitAXHelper builds MT_STRING indices, so the array branch of
   PutIndexed is entered only to fail: "Array index must be int").  None = error (ignored by the caller,
   and no mutation has happened by then). *)
Fixpoint pim (idx : list bytes) (v : jv) (m : jmap) : option jmap :=
  match idx with
  | [] => None
  | k :: rest =>
      match rest with
      | [] => Some (jput k v m)
      | _ =>
          let sub := match jget k m with
                     | None => Some []                  (* NewMlrvalForAutoDeepen: fresh map *)
                     | Some (JMap mm) => Some mm
                     | Some (JArr _) => None           (* putIndexedOnArray with a string index: error *)
                     | Some _ => Some []               (* non-collection: *mv = empty map *)
                     end in
          match sub with
          | None => None
          | Some mm => match pim rest v mm with
                       | None => None
                       | Some mm' => Some (jput k (JMap mm') m)
                       end
          end
      end
  end.

(* keys are "i", "i+1", ... *)
Fixpoint seqkeys (i : N) (m : jmap) : bool :=
  match m with
  | [] => true
  | (k, _) :: t => beqb k (itoa i) && seqkeys (N.succ i) t
  end.

(* Mlrval.Arrayify: maps recurse into their values and become arrays when their keys are "1".."n";
   on an array the function returns the deep copy it took BEFORE recursing, i.e. the array unchanged *)
Fixpoint arrayify (v : jv) : jv :=
  match v with
  | JMap m =>
      match m with
      | [] => v
      | _ =>
          let m' := (fix go (m : jmap) : jmap :=
                       match m with [] => [] | (k, x) :: t => (k, arrayify x) :: go t end) m in
          if seqkeys 1 m then JArr (map snd m') else JMap m'
      end
  | _ => v
  end.

Definition bmem (k : bytes) (l : list bytes) : bool := existsb (beqb k) l.

(* one pass of the loop of CopyUnflattened; state = (other, affectedBaseIndices in first-seen order) *)
Definition unflatten_step (sep : bytes) (st : jmap * list bytes) (kv : bytes * jv) : jmap * list bytes :=
  let '(other, aff) := st in
  let '(k, v) := kv in
  if negb (containsb sep k) then (jput k (ut v) other, aff)
  else
    let pieces := split sep k in
    if existsb is_nil pieces then (jput k (ut v) other, aff)
    else
      let base := hd [] pieces in
      (match pim pieces (ut v) other with Some o => o | None => other end,
       if bmem base aff then aff else aff ++ [base]).

Definition arrayify_at (o : jmap) (b : bytes) : jmap :=
  match jget b o with Some v => jput b (arrayify v) o | None => o end.

(* Mlrmap.CopyUnflattened(separator).  Go iterates affectedBaseIndices in map order; the updates touch
   distinct keys, so any order gives the same result; the model uses first-seen order. *)
Definition unflatten (sep : bytes) (r : jmap) : jmap :=
  let '(other, aff) := fold_left (unflatten_step sep) r ([], []) in
  fold_left arrayify_at aff other.

(* ---- mlr flatten -f / unflatten -f ---- *)

(* Mlrmap.FlattenFields(fieldNameSet, separator) *)
Definition flatten_fields (fs : list bytes) (sep : bytes) (r : jmap) : jmap :=
  if existsb (fun kv => is_coll (snd kv)) r
  then fold_left (fun acc kv => if is_coll (snd kv) && bmem (fst kv) fs then putall (ftm sep (fst kv) (snd kv)) acc
                                else jput (fst kv) (snd kv) acc) r []
  else r.

(* putIndexedOnMap when pieces may be empty (CopyUnflattenFields has no empty-piece check): SplitAXHelper turns ""
   into VOID, which is accepted as the LAST index (IsStringOrInt) and rejected everywhere else
   ("map indices must be string, int", NewMlrvalForAutoDeepen, non-collection base).  Levels created on the way
   stay when a deeper level fails.  Result: (map after the call, success). *)
Fixpoint pimv (idx : list bytes) (v : jv) (m : jmap) : jmap * bool :=
  match idx with
  | [] => (m, false)
  | k :: rest =>
      match rest with
      | [] => (jput k v m, true)
      | k2 :: _ =>
          if is_nil k then (m, false)
          else
            let sub := match jget k m with
                       | None => if is_nil k2 then None else Some []
                       | Some (JMap mm) => Some mm
                       | Some (JArr _) => None
                       | Some _ => if is_nil k2 then None else Some []
                       end in
            match sub with
            | None => (m, false)
            | Some mm => let '(mm', ok) := pimv rest v mm in (jput k (JMap mm') m, ok)
            end
      end
  end.

Definition unflatten_fields_step (fs : list bytes) (sep : bytes) (st : jmap * list bytes) (kv : bytes * jv)
  : jmap * list bytes :=
  let '(other, aff) := st in
  let '(k, v) := kv in
  if containsb sep k then
    let pieces := split sep k in
    let base := hd [] pieces in
    if bmem base fs
    then (fst (pimv pieces (ut v) other), if bmem base aff then aff else aff ++ [base])
    else (jput k (ut v) other, aff)
  else (jput k (ut v) other, aff).

(* Mlrmap.CopyUnflattenFields.  None: lib.InternalCodingErrorIf(oldValue == nil) -- an affected base that was never
   created (the process exits with "Internal coding error detected") *)
Definition unflatten_fields (fs : list bytes) (sep : bytes) (r : jmap) : option jmap :=
  let '(other, aff) := fold_left (unflatten_fields_step fs sep) r ([], []) in
  if forallb (fun b => match jget b other with Some _ => true | None => false end) aff
  then Some (fold_left arrayify_at aff other) else None.

(* ---- pkg/cli/flatten_unflatten.go ---- *)
Definition is_nestable (fmt : bytes) : bool := beqb fmt (B "json") || beqb fmt (B "jsonl") || beqb fmt (B "yaml").

Definition decide_final_flatten (ofmt : bytes) (auto_flatten : bool) : bool :=
  auto_flatten && negb (is_nestable ofmt) && negb (beqb ofmt (B "dcf")).

Definition decide_final_unflatten (ifmt ofmt : bytes) (auto_unflatten : bool) (last_verb : bytes) : bool :=
  if beqb last_verb (B "flatten") then false
  else auto_unflatten && negb (is_nestable ifmt) && is_nestable ofmt.

(* what the main chain does to a record on its way out (parseCommandLinePassTwo appends flatten, then unflatten) *)
Definition auto_convert (sep ifmt ofmt : bytes) (last_verb : bytes) (r : jmap) : jmap :=
  let r1 := if decide_final_flatten ofmt true then flatten sep r else r in
  if decide_final_unflatten ifmt ofmt true last_verb then unflatten sep r1 else r1.
