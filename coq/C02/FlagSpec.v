(* C02, flag-table part.  Definitions only.

   Clause: "the outcome depends only on which formats and separators are selected, not on how the selection is
   spelled: every keystroke-saver flag, -i/-o/--io form, named separator and .mlrrc line is equivalent to its
   documented expansion."

   The domain is finite: the complete main-flag table of pkg/cli (FLAG_TABLE, 276 entries at the time of writing) and
   the separator alias tables, REGENERATED from the implementation on every run into gen/Gen_Flags.v together with
   the effect of every relevant argv on the option structs.  The documented side (which flags a spelling stands
   for) is written down HERE, from the documentation, independently of the generated data:
     docs/src/reference-main-flag-list.md   (keystroke-saver matrix, -p, -T, -N, -i/-o/--io, file-format flags)
     docs/src/reference-main-separators.md  (alias table, regex aliases, default separators by format)
     docs/src/shell-completion.md           (the file-format names accepted by -i/-o/--io)
   The boolean checks below are decided by vm_compute in FlagProofs.v.  Every check returns false when an [effect]
   lookup is None (argv not evaluated, a token rejected, or Finalize*Options failed) or when the relevant flag list
   is empty, so none of them can hold vacuously. *)
From Miller Require Import Base.Bytes Base.Record gen.Gen_Flags.
Open Scope char_scope.

(* ------------------------------------------------------------------ helpers *)
Fixpoint lbeqb (a b : list bytes) : bool :=
  match a, b with
  | [], [] => true
  | x :: a', y :: b' => beqb x y && lbeqb a' b'
  | _, _ => false
  end.
Definition is_some {A} (o : option A) : bool := match o with Some _ => true | None => false end.
Definition nonemptyb {A} (l : list A) : bool := match l with [] => false | _ :: _ => true end.
Definition suffixb (s k : bytes) : bool := prefixb (rev s) (rev k).
Definition pre (p : string) (x : bytes) : bytes := B p ++ x.
Fixpoint assoc {A} (k : bytes) (l : list (bytes * A)) : option A :=
  match l with
  | [] => None
  | (k', v) :: t => if beqb k k' then Some v else assoc k t
  end.

(* ------------------------------------------------------------------ the effect of a main-flag argv *)
Definition opts := list (bytes * bytes).   (* (field name, value) in declaration order of TOptions *)

Fixpoint lookup_eval (argv : list bytes) (l : list (list bytes * option opts)) : option (option opts) :=
  match l with
  | [] => None
  | (a, r) :: t => if lbeqb argv a then Some r else lookup_eval argv t
  end.
(* gen_evals_by_head groups the evaluated argvs by their first token: find the bucket, then the remaining tokens.
   The empty argv is gen_base itself (by construction: c02_flags.py takes gen_base from the evaluation of []). *)
Definition lookup_argv (argv : list bytes) : option (option opts) :=
  match argv with
  | [] => Some (Some [])
  | h :: rest => match assoc h gen_evals_by_head with
                 | Some bucket => lookup_eval rest bucket
                 | None => None
                 end
  end.

(* gen_evals stores only the fields that differ from gen_base, in the order of gen_base (checked by gen_wellformed):
   one merging walk rebuilds the full dump *)
Fixpoint patch (base d : opts) : opts :=
  match base with
  | [] => []
  | (k, v) :: base' =>
      match d with
      | (k', v') :: d' => if beqb k k' then (k, v') :: patch base' d' else (k, v) :: patch base' d
      | [] => (k, v) :: patch base' []
      end
  end.
(* d is a subsequence of base as far as field names go, i.e. the walk above consumes all of d *)
Fixpoint subseq_keys (base d : opts) : bool :=
  match d with
  | [] => true
  | (k', _) :: d' =>
      match base with
      | [] => false
      | (k, _) :: base' => if beqb k k' then subseq_keys base' d' else subseq_keys base' d
      end
  end.

(* [effect argv] = every field of TOptions after parsing argv like climain.ParseCommandLine does (Getoptify, pass one,
   pass two from cli.DefaultOptions()), then FinalizeReaderOptions + FinalizeWriterOptions -- the state the
   reader/writer factories and the DSL separator variables see -- plus DecideFinalFlatten / DecideFinalUnflatten.
   None: argv was not evaluated, a token was rejected, or Finalize* returned an error. *)
Definition effect (argv : list bytes) : option opts :=
  match lookup_argv argv with
  | Some (Some d) => Some (patch gen_base d)
  | _ => None
  end.

(* the generated deltas mention only fields of gen_base, in its order, and field names are distinct (otherwise [patch] would drop data) *)
Definition gen_wellformed : bool :=
  nodupb (keys gen_base) && nonemptyb gen_base &&
  forallb (fun ar => match snd ar with
                     | Some d => subseq_keys gen_base d
                     | None => true
                     end) gen_evals
  && nodupb (map fst gen_evals_by_head).

(* Two option states are compared on EVERY field except the unexported xxxWasSpecified bits
   (ifs/ips/irs/allowRepeatIFS/ofs/ops/ors/flushOnEveryRecord WasSpecified).  Those bits are read only by
   FinalizeReaderOptions/FinalizeWriterOptions, whose result is what is compared here; a keystroke saver and its
   expansion legitimately differ in them (--c2t sets irsWasSpecified, --icsv --otsv sets ofsWasSpecified).  They are not
   strictly unobservable: a LATER change of format (on the command line, or in the local flags of join/tee/split/put,
   which re-run Finalize* on a copy) consults them again.  The separator-override contexts below cover the common case;
   [same_effect] (used for aliases, alternate names, legacy flags) compares the bits too. *)
Definition ignored_field (k : bytes) : bool := suffixb (B "WasSpecified") k.
Fixpoint opts_eqb (a b : opts) : bool :=
  match a, b with
  | [], [] => true
  | (k, v) :: a', (k', v') :: b' => beqb k k' && (ignored_field k || beqb v v') && opts_eqb a' b'
  | _, _ => false
  end.

(* contexts: the same overriding separator flags appended to both spellings *)
Definition ctx_tails : list (list bytes) :=
  [ [];
    [B "--ifs"; B ";"; B "--ips"; B ":"];
    [B "--ofs"; B ";"; B "--ops"; B ":"];
    [B "--irs"; B ";"; B "--ors"; B ";"] ].

Definition equiv_in (a b t : list bytes) : bool :=
  match effect (a ++ t), effect (b ++ t) with
  | Some x, Some y => opts_eqb x y
  | _, _ => false
  end.
Definition equiv_ctx (a b : list bytes) : bool := forallb (equiv_in a b) ctx_tails.

(* strict: all fields, WasSpecified bits included *)
Definition same_effect (a b : list bytes) : bool :=
  match effect a, effect b with
  | Some x, Some y => record_eqb x y
  | _, _ => false
  end.

(* Prop renderings used by the theorem statements *)
Definition equivalent_in_context (a b t : list bytes) : Prop :=
  exists x y, effect (a ++ t) = Some x /\ effect (b ++ t) = Some y /\ opts_eqb x y = true.
Definition identical_effect (a b : list bytes) : Prop :=
  exists x, effect a = Some x /\ effect b = Some x.

(* ------------------------------------------------------------------ the flag table *)
Definition entry := (bytes * bytes * list bytes * bytes)%type.
Definition fsection (f : entry) : bytes := match f with (s, _, _, _) => s end.
Definition fname (f : entry) : bytes := match f with (_, n, _, _) => n end.
Definition falts (f : entry) : list bytes := match f with (_, _, a, _) => a end.
Definition farg (f : entry) : bytes := match f with (_, _, _, a) => a end.

Definition all_spellings : list bytes := flat_map (fun f => fname f :: falts f) gen_flag_table.
Definition has_spelling (s : bytes) : bool := mem s all_spellings.
Definition section_names (sec : bytes) : list bytes :=
  map fname (filter (fun f => beqb (fsection f) sec) gen_flag_table).
Definition takes_arg (s : bytes) : bool :=
  existsb (fun f => (beqb (fname f) s || mem s (falts f)) && nonemptyb (farg f)) gen_flag_table.

(* ------------------------------------------------------------------ documented expansions (from the docs, not from the code) *)
(* "The letters c, t, j, l, d, n, x, p, m, and y refer to formats CSV, TSV, JSON, JSON Lines, DKVP, NIDX, XTAB, PPRINT,
   markdown, and YAML, respectively." *)
Definition in_flag (c : ascii) : option bytes :=
  if Ascii.eqb c "c" then Some (B "--icsv") else
  if Ascii.eqb c "t" then Some (B "--itsv") else
  if Ascii.eqb c "j" then Some (B "--ijson") else
  if Ascii.eqb c "l" then Some (B "--ijsonl") else
  if Ascii.eqb c "d" then Some (B "--idkvp") else
  if Ascii.eqb c "n" then Some (B "--inidx") else
  if Ascii.eqb c "x" then Some (B "--ixtab") else
  if Ascii.eqb c "p" then Some (B "--ipprint") else
  if Ascii.eqb c "m" then Some (B "--imd") else
  if Ascii.eqb c "y" then Some (B "--iyaml") else None.

(* b: "--c2b  Use CSV for input, PPRINT with `--barred` for output." *)
Definition out_flags (c : ascii) : option (list bytes) :=
  if Ascii.eqb c "c" then Some [B "--ocsv"] else
  if Ascii.eqb c "t" then Some [B "--otsv"] else
  if Ascii.eqb c "j" then Some [B "--ojson"] else
  if Ascii.eqb c "l" then Some [B "--ojsonl"] else
  if Ascii.eqb c "d" then Some [B "--odkvp"] else
  if Ascii.eqb c "n" then Some [B "--onidx"] else
  if Ascii.eqb c "x" then Some [B "--oxtab"] else
  if Ascii.eqb c "p" then Some [B "--opprint"] else
  if Ascii.eqb c "m" then Some [B "--omd"] else
  if Ascii.eqb c "y" then Some [B "--oyaml"] else
  if Ascii.eqb c "b" then Some [B "--opprint"; B "--barred"] else None.

(* "-p is a keystroke-saver for --nidx --fs space --repifs", "-T is a keystroke-saver for --nidx --fs tab",
   "-N: Keystroke-saver for --implicit-csv-header --headerless-csv-output",
   "--md-aligned ... Implies --md" / "--omd-aligned ... Implies --omd" *)
Definition explicit_expansions : list (bytes * list bytes) :=
  [ (B "-p", [B "--nidx"; B "--fs"; B "space"; B "--repifs"]);
    (B "-T", [B "--nidx"; B "--fs"; B "tab"]);
    (B "-N", [B "--implicit-csv-header"; B "--headerless-csv-output"]);
    (B "--md-aligned", [B "--md"; B "--omd-aligned"]);
    (B "--markdown-aligned", [B "--md"; B "--omd-aligned"]) ].

Definition expansion_of_name (n : bytes) : option (list bytes) :=
  match assoc n explicit_expansions with
  | Some e => Some e
  | None =>
    match n with
    | d1 :: d2 :: x :: two :: y :: [] =>
        if Ascii.eqb d1 "-" && Ascii.eqb d2 "-" && Ascii.eqb two "2" then
          match in_flag x, out_flags y with
          | Some i, Some o => Some (i :: o)
          | _, _ => None
          end
        else None
    | _ => None
    end
  end.

(* ------------------------------------------------------------------ (1) keystroke savers *)
Definition ks_section : bytes := B "Format-conversion keystroke-saver flags".
Definition ks_check (s : bytes) : bool :=
  match expansion_of_name s with
  | Some e => equiv_ctx [s] e
  | None => false
  end.
(* every spelling anywhere in the table (primary or alternate: --c2c, -c ... live in the file-format section) that the
   documentation gives an expansion for *)
Definition keystroke_spellings : list bytes := filter (fun s => is_some (expansion_of_name s)) all_spellings.
(* no flag of the keystroke-saver section lacks a documented expansion *)
Definition ks_section_covered : bool := forallb (fun n => is_some (expansion_of_name n)) (section_names ks_section).
(* the documented matrix (mlr help / reference-main-flag-list.md): every --x2y for the ten letters, except markdown
   to markdown which the matrix leaves blank *)
Definition letters : list ascii := ["c"; "t"; "j"; "l"; "d"; "n"; "x"; "p"; "m"; "y"].
Definition matrix_name (x y : ascii) : bytes := ["-"; "-"; x; "2"; y].
Definition matrix_present : bool :=
  forallb (fun x => forallb (fun y => (Ascii.eqb x "m" && Ascii.eqb y "m") || has_spelling (matrix_name x y)) letters) letters.
Definition ks_domain_ok : bool :=
  nonemptyb (section_names ks_section) && ks_section_covered && matrix_present
  && has_spelling (B "-p") && has_spelling (B "-T").

Definition keystroke_savers_ok : bool := ks_domain_ok && forallb ks_check keystroke_spellings.

(* (The spellings that differed on the pinned tree -- --t2n lazy quotes, --X2l json/jsonl, --m2X IFS -- were repaired in
   /repo; there is no exclusion list any more.) *)
Definition ks_failing : list bytes := filter (fun s => negb (ks_check s)) keystroke_spellings.

(* ---- prefix contexts: a separator flag given BEFORE the keystroke saver / its expansion ---- *)
Definition ctx_prefixes : list (list bytes) :=
  [ [B "--ifs"; B ";"]; [B "--ofs"; B ";"]; [B "--ips"; B ":"]; [B "--ops"; B ":"]; [B "--irs"; B ";"]; [B "--ors"; B ";"] ].
Definition equiv_pre (p a b : list bytes) : bool :=
  match effect (p ++ a), effect (p ++ b) with
  | Some x, Some y => opts_eqb x y
  | _, _ => false
  end.
Definition ks_prefix_check (s : bytes) : bool :=
  match expansion_of_name s with
  | Some e => forallb (fun p => equiv_pre p [s] e) ctx_prefixes
  | None => false
  end.
(* Order-sensitive spellings: none since the repair of the --X2t / --X2n / --tsv / --nidx closures (they now assign OFS
   exactly as --otsv / --onidx do; KNOWN_FINDINGS.txt "fixed:" line flag-spelling:--ofs-before-X2t-X2n).  The list is kept
   (empty) so that a regression shows up as a failing obligation with the offending spellings computed by
   [ks_prefix_failing]. *)
Definition ks_prefix_sensitive : list bytes := [].
Definition keystroke_savers_prefix_ok_partial : bool :=
  forallb (fun s => mem s ks_prefix_sensitive || ks_prefix_check s) keystroke_spellings.
(* the exclusion list is exact: each listed spelling is in the table, differs under the prefix --ofs, and only there *)
Definition ks_prefix_failing : list bytes := filter (fun s => negb (ks_prefix_check s)) keystroke_spellings.
Definition ks_prefix_sensitive_exact : bool :=
  forallb (fun s => mem s keystroke_spellings
                    && match expansion_of_name s with
                       | Some e => negb (equiv_pre [B "--ofs"; B ";"] [s] e)
                                   && forallb (fun p => lbeqb p [B "--ofs"; B ";"] || equiv_pre p [s] e) ctx_prefixes
                       | None => false
                       end) ks_prefix_sensitive.

(* ------------------------------------------------------------------ (2) --X = --iX --oX  ("Use X format for input and output data") *)
Definition io_pair_names : list bytes :=
  [ B "csv"; B "csvlite"; B "tsv"; B "tsvlite"; B "asv"; B "asvlite"; B "usv"; B "usvlite"; B "dkvp"; B "json"; B "jsonl";
    B "yaml"; B "dcf"; B "recutils"; B "nidx"; B "xtab"; B "pprint"; B "md"; B "markdown" ].
Definition io_pair_check (x : bytes) : bool := equiv_ctx [pre "--" x] [pre "--i" x; pre "--o" x].
Definition io_pairs_ok : bool :=
  forallb (fun x => has_spelling (pre "--" x) && has_spelling (pre "--i" x) && has_spelling (pre "--o" x)) io_pair_names
  && forallb io_pair_check io_pair_names.

(* ------------------------------------------------------------------ (3) -i X = --iX, -o X = --oX, --io X = --X *)
(* file-format names: shell-completion.md ("mlr -i TAB") plus recutils (file-formats.md uses -i recutils), and every key of
   the regenerated defaultFSes (the set the implementation itself offers for -i/-o/--io) *)
Definition doc_format_names : list bytes :=
  [ B "csv"; B "csvlite"; B "dcf"; B "dkvp"; B "dkvpx"; B "gen"; B "json"; B "markdown"; B "nidx"; B "pprint"; B "recutils";
    B "tsv"; B "xtab"; B "yaml" ].
(* md and jsonl: names of the long flags --imd/--omd/--md and --ijsonl/--ojsonl/--jsonl (accepted by -i/-o/--io since the repair) *)
Definition extra_format_names : list bytes := [ B "md"; B "jsonl" ].
Definition format_names : list bytes := doc_format_names ++ keys gen_default_fs ++ extra_format_names.
(* names for which all of --iX, --oX, --X must exist (non-vacuity of the check) *)
Definition core_format_names : list bytes :=
  [ B "csv"; B "csvlite"; B "tsv"; B "json"; B "dkvp"; B "nidx"; B "xtab"; B "pprint"; B "markdown"; B "yaml"; B "dcf"; B "recutils" ].
Definition io_form_check (short : bytes) (long_prefix : string) (x : bytes) : bool :=
  negb (has_spelling (pre long_prefix x)) || equiv_ctx [short; x] [pre long_prefix x].
Definition io_forms_ok : bool :=
  takes_arg (B "-i") && takes_arg (B "-o") && takes_arg (B "--io")
  && forallb (fun x => has_spelling (pre "--i" x) && has_spelling (pre "--o" x) && has_spelling (pre "--" x)) core_format_names
  && forallb (fun x => io_form_check (B "-i") "--i" x && io_form_check (B "-o") "--o" x && io_form_check (B "--io") "--" x)
             format_names.

(* ------------------------------------------------------------------ (4) named separators *)
(* reference-main-separators.md, "Aliases" (mlr help list-separator-aliases), sorted by name *)
Definition doc_sep_aliases : list (bytes * bytes) :=
  [ (B "ascii_esc", B "\x1b"); (B "ascii_etx", B "\x03"); (B "ascii_fs", B "\x1c"); (B "ascii_gs", B "\x1d");
    (B "ascii_null", B "\x00"); (B "ascii_rs", B "\x1e"); (B "ascii_soh", B "\x01"); (B "ascii_stx", B "\x02");
    (B "ascii_us", B "\x1f"); (B "asv_fs", B "\x1f"); (B "asv_rs", B "\x1e"); (B "colon", B ":"); (B "comma", B ",");
    (B "cr", B "\r"); (B "crcr", B "\r\r"); (B "crlf", B "\r\n"); (B "crlfcrlf", B "\r\n\r\n"); (B "equals", B "=");
    (B "lf", B "\n"); (B "lflf", B "\n\n"); (B "newline", B "\n"); (B "pipe", B "|"); (B "semicolon", B ";");
    (B "slash", B "/"); (B "space", B " "); (B "tab", B "\t"); (B "usv_fs", B "\xe2\x90\x9f"); (B "usv_rs", B "\xe2\x90\x9e") ].
(* NB: Coq string literals have no escapes: "\x1b" above is the four characters backslash x 1 b, exactly the literal
   text the documentation shows and a user types after --ifs. *)
Definition doc_sep_regex_aliases : list (bytes * bytes) :=
  [ (B "spaces", B "( )+"); (B "tabs", B "(\t)+"); (B "whitespace", B "([ \t])+") ].
Definition sep_flags : list bytes :=
  [ B "--ifs"; B "--ofs"; B "--fs"; B "--ips"; B "--ops"; B "--ps"; B "--irs"; B "--ors"; B "--rs"; B "--flatsep"; B "--jflatsep" ].
Definition sep_regex_flags : list bytes := [ B "--ifs-regex"; B "--ips-regex" ].
Definition alias_check (flags : list bytes) (nl : bytes * bytes) : bool :=
  forallb (fun f => same_effect [f; fst nl] [f; snd nl]) flags.
Definition sep_aliases_ok : bool :=
  record_eqb gen_sep_aliases doc_sep_aliases && record_eqb gen_sep_regex_aliases doc_sep_regex_aliases
  && forallb takes_arg (sep_flags ++ sep_regex_flags)
  && forallb (alias_check sep_flags) gen_sep_aliases
  && forallb (alias_check sep_regex_flags) gen_sep_regex_aliases.

(* reference-main-flag-list.md, "Default separators by format" *)
Definition doc_default_seps : list (bytes * (bytes * bytes * bytes)) :=   (* format, (FS, PS, RS) *)
  let na := B "N/A" in let nl := [ascii_of_N 10] in
  [ (B "csv", (B ",", na, nl)); (B "csvlite", (B ",", na, nl)); (B "dcf", (na, na, na)); (B "dkvp", (B ",", B "=", nl));
    (B "dkvpx", (B ",", B "=", nl)); (B "gen", (B ",", na, nl)); (B "json", (na, na, na)); (B "markdown", (B " ", na, nl));
    (B "nidx", (B " ", na, nl)); (B "pprint", (B " ", na, nl)); (B "recutils", (na, na, na));
    (B "tsv", ([ascii_of_N 9], na, nl)); (B "xtab", (nl, B " ", nl ++ nl)); (B "yaml", (na, na, na)) ].
Definition default_seps_ok : bool :=
  record_eqb gen_default_fs (map (fun d => (fst d, fst (fst (snd d)))) doc_default_seps)
  && record_eqb gen_default_ps (map (fun d => (fst d, snd (fst (snd d)))) doc_default_seps)
  && record_eqb gen_default_rs (map (fun d => (fst d, snd (snd d))) doc_default_seps).

(* ------------------------------------------------------------------ (5) alternate names, legacy no-ops *)
(* for a flag that takes an argument: some argument value with which the primary name was evaluated successfully *)
Fixpoint sample_arg_in (l : list (list bytes * option opts)) : option bytes :=
  match l with
  | [] => None
  | (v :: [], Some _) :: t => Some v
  | _ :: t => sample_arg_in t
  end.
Definition sample_arg (n : bytes) : option bytes :=
  match assoc n gen_evals_by_head with Some bucket => sample_arg_in bucket | None => None end.
Definition alt_check (f : entry) : bool :=
  forallb (fun a =>
    match farg f with
    | [] => same_effect [a] [fname f]
    | _ :: _ => match sample_arg (fname f) with
                | Some v => same_effect [a; v] [fname f; v]
                | None => false
                end
    end) (falts f).
Definition alt_names_ok : bool :=
  nonemptyb (filter (fun f => nonemptyb (falts f)) gen_flag_table) && forallb alt_check gen_flag_table.

(* "Legacy flags: These are flags which don't do anything in the current Miller version." *)
Definition legacy_section : bytes := B "Legacy flags".
Definition legacy_noop_ok : bool :=
  nonemptyb (section_names legacy_section) && forallb (fun n => same_effect [n] []) (section_names legacy_section).
