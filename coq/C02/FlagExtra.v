(* C02, flag-table part: the format names md and jsonl, whose long flags exist, are accepted by -i / -o / --io with the
   effect of the long flags (they were rejected before the repair: KNOWN_FINDINGS.txt "fixed:" lines
   flag-spelling:-i_jsonl-rejected, --io_jsonl-rejected, --io_md-rejected).  Decided on the table regenerated from the
   implementation. *)
From Miller Require Import Base.Bytes Base.Record gen.Gen_Flags C02.FlagSpec.

Lemma io_forms_names_fixed :
  has_spelling (B "--ijsonl") = true /\ has_spelling (B "--jsonl") = true /\ has_spelling (B "--md") = true
  /\ has_spelling (B "--ojsonl") = true /\ has_spelling (B "--imd") = true /\ has_spelling (B "--omd") = true
  /\ is_some (lookup_argv [B "-i"; B "jsonl"]) = true /\ is_some (lookup_argv [B "--io"; B "jsonl"]) = true
  /\ is_some (lookup_argv [B "--io"; B "md"]) = true
  /\ is_some (effect [B "-i"; B "jsonl"]) = true /\ is_some (effect [B "--io"; B "jsonl"]) = true
  /\ is_some (effect [B "--io"; B "md"]) = true
  /\ forallb (fun x => io_form_check (B "-i") "--i" x && io_form_check (B "-o") "--o" x && io_form_check (B "--io") "--" x)
             extra_format_names = true.
Proof. vm_compute. repeat split; reflexivity. Qed.
