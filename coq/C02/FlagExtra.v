(* C02, flag-table part: format names for which the long flags exist but the -i / --io forms are rejected
   (decided on the table regenerated from the implementation). *)
From Miller Require Import Base.Bytes Base.Record gen.Gen_Flags C02.FlagSpec.

Lemma io_forms_names_refuted :
  has_spelling (B "--ijsonl") = true /\ has_spelling (B "--jsonl") = true /\ has_spelling (B "--md") = true
  /\ is_some (lookup_argv [B "-i"; B "jsonl"]) = true /\ is_some (lookup_argv [B "--io"; B "jsonl"]) = true
  /\ is_some (lookup_argv [B "--io"; B "md"]) = true
  /\ io_form_check (B "-i") "--i" (B "jsonl") = false
  /\ io_form_check (B "--io") "--" (B "jsonl") = false
  /\ io_form_check (B "--io") "--" (B "md") = false.
Proof. vm_compute. repeat split; reflexivity. Qed.
