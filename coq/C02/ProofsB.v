(* C02 proofs, part B: Flatten emits exactly the (joined path, leaf) entries of the record, when the joined keys are distinct;
   paths of a well-formed value are distinct. *)
From Miller Require Import Base.Bytes Base.Record C02.Model C02.Spec C02.ProofsA.
Open Scope char_scope.

(* ---------- join ---------- *)
Lemma join_snoc sep P k : P <> [] -> join sep (P ++ [k]) = join sep P ++ sep ++ k.
Proof.
  induction P as [|x P IH]; intros H; [congruence|].
  destruct P as [|y P]; [reflexivity|].
  change (join sep ((x :: y :: P) ++ [k])) with (x ++ sep ++ join sep ((y :: P) ++ [k])).
  rewrite IH by discriminate.
  change (join sep (x :: y :: P)) with (x ++ sep ++ join sep (y :: P)).
  now rewrite <- !app_assoc.
Qed.

(* next_prefix builds the joined key of the extended path, as long as the prefix is "" only at the top *)
Lemma next_prefix_join sep P k :
  (P = [] \/ join sep P <> []) -> next_prefix sep (join sep P) k = join sep (P ++ [k]).
Proof.
  intros [->|H]; [reflexivity|].
  assert (HP : P <> []) by (intros ->; now apply H).
  rewrite join_snoc by exact HP. unfold next_prefix. destruct (join sep P); [congruence|reflexivity].
Qed.

Lemma join_snoc_nonempty sep P k : P <> [] -> join sep P <> [] -> join sep (P ++ [k]) <> [].
Proof. intros HP H. rewrite join_snoc by exact HP. destruct (join sep P); [congruence|discriminate]. Qed.

(* ---------- flatten = keyed entries ---------- *)
Definition keyed (sep : bytes) (P : list bytes) (e : list bytes * jv) : bytes * jv := (join sep (P ++ fst e), snd e).

Lemma map_keyed_pcons sep P k es :
  map (keyed sep P) (map (pcons k) es) = map (keyed sep (P ++ [k])) es.
Proof.
  rewrite map_map. apply map_ext. intros [q x]. unfold keyed, pcons; cbn. now rewrite <- app_assoc.
Qed.

Lemma keyed_nil sep P x : keyed sep P ([], x) = (join sep P, x).
Proof. unfold keyed; cbn [fst snd]. now rewrite app_nil_r. Qed.

Lemma ents_scalar v : is_coll v = false -> ents v = [([], v)].
Proof. destruct v; try reflexivity; discriminate. Qed.

Lemma kids_scalar v : is_coll v = false -> kids v = [].
Proof. destruct v; try reflexivity; discriminate. Qed.

(* the fold over the children, given the statement for each child *)
Lemma fold_fstep sep P ks :
  (P = [] \/ join sep P <> []) ->
  (forall kx, In kx ks -> join sep (P ++ [fst kx]) <> []) ->
  (forall kx, In kx ks -> is_coll (snd kx) = true ->
      NoDup (map fst (map (keyed sep (P ++ [fst kx])) (ents (snd kx)))) ->
      ftm sep (join sep (P ++ [fst kx])) (snd kx) = map (keyed sep (P ++ [fst kx])) (ents (snd kx))) ->
  forall acc,
  NoDup (map fst acc ++ map fst (map (keyed sep P) (ents_of_kids ks))) ->
  fold_left (fstep sep (join sep P)) ks acc = acc ++ map (keyed sep P) (ents_of_kids ks).
Proof.
  intros HP. induction ks as [|[k x] ks IH]; intros Hne Hkid acc Hnd; cbn; [now rewrite app_nil_r|].
  unfold ents_of_kids in *. cbn [flat_map fst snd] in *.
  rewrite map_app, map_app, map_keyed_pcons in Hnd. rewrite map_app, map_keyed_pcons.
  assert (Hstep : fstep sep (join sep P) acc (k, x) = acc ++ map (keyed sep (P ++ [k])) (ents x)).
  { unfold fstep; cbn [fst snd]. rewrite next_prefix_join by exact HP.
    destruct (is_coll x) eqn:Ec.
    - pose proof (Hkid (k, x) (or_introl eq_refl) Ec) as Hf. cbn [fst snd] in Hf.
      rewrite Hf.
      + apply putall_fresh. rewrite app_assoc in Hnd. exact (NoDup_app_l _ _ Hnd).
      + apply NoDup_app_r in Hnd. exact (NoDup_app_l _ _ Hnd).
    - rewrite (ents_scalar x Ec) in Hnd |- *. cbn [map] in Hnd |- *. rewrite keyed_nil in Hnd |- *.
      apply jput_absent. intros Hin. apply (NoDup_app_disj _ _ _ Hnd Hin). cbn. now left. }
  rewrite Hstep. rewrite IH.
  - now rewrite <- app_assoc.
  - intros kx Hin. apply Hne. now right.
  - intros kx Hin. apply Hkid. now right.
  - rewrite map_app, <- app_assoc. exact Hnd.
Qed.

Lemma ents_of_kids_nonnil ks : ks <> [] -> (forall kx, In kx ks -> ents (snd kx) <> []) -> ents_of_kids ks <> [].
Proof.
  destruct ks as [|[k x] ks]; [congruence|]. intros _ H. unfold ents_of_kids; cbn.
  specialize (H (k, x) (or_introl eq_refl)). cbn in H. destruct (ents x); [congruence|discriminate].
Qed.

Lemma ftm_ents sep : forall v P,
  P <> [] -> join sep P <> [] ->
  NoDup (map fst (map (keyed sep P) (ents v))) ->
  ftm sep (join sep P) v = map (keyed sep P) (ents v).
Proof.
  induction v as [v IH] using jv_size_ind. intros P HP HJ Hnd.
  rewrite ftm_eq. destruct (is_coll v) eqn:Ec.
  - rewrite ents_eq in Hnd |- *. destruct (is_nil (kids v)) eqn:En.
    + destruct (kids v); [|discriminate]. cbn. destruct (join sep P) eqn:EJ; [congruence|].
      cbn. unfold keyed; cbn. now rewrite app_nil_r, EJ.
    + replace (is_nil (kids v) && negb (is_nil (join sep P))) with false by (now rewrite En).
      rewrite (fold_fstep sep P (kids v)); [reflexivity|now right| | |exact Hnd].
      * intros kx _. now apply join_snoc_nonempty.
      * intros kx Hin Hc Hn. apply IH; [exact Hin|destruct P; discriminate|now apply join_snoc_nonempty|exact Hn].
  - rewrite (ents_scalar v Ec). unfold keyed; cbn. now rewrite app_nil_r.
Qed.

Lemma flatten_step_fstep sep : flatten_step sep = fstep sep (join sep []).
Proof. reflexivity. Qed.

(* top level: Mlrmap.Flatten *)
Lemma flatten_ents sep r :
  (forall kx, In kx r -> fst kx <> []) ->
  NoDup (map fst (map (keyed sep []) (ents_of_kids r))) ->
  flatten sep r = map (keyed sep []) (ents_of_kids r).
Proof.
  intros Hk Hnd. unfold flatten.
  match goal with |- context [existsb ?f r] => destruct (existsb f r) eqn:Ex end.
  - rewrite flatten_step_fstep. rewrite (fold_fstep sep [] r); [reflexivity|now left| | |exact Hnd].
    + intros kx Hin. cbn. now apply Hk.
    + intros kx Hin Hc Hn. cbn [app] in *. apply ftm_ents; [discriminate|cbn; now apply Hk|exact Hn].
  - clear Hnd. induction r as [|[k x] r IH]; [reflexivity|].
    cbn in Ex. apply orb_false_iff in Ex. destruct Ex as [Ex1 Ex2].
    unfold ents_of_kids in *. cbn [flat_map fst snd]. rewrite (ents_scalar x Ex1). cbn.
    f_equal. apply IH; [|exact Ex2]. intros kx Hin. apply Hk. now right.
Qed.

(* ---------- distinct paths ---------- *)
Lemma paths_of_kids_nodup ks :
  NoDup (map fst ks) ->
  (forall kx, In kx ks -> NoDup (map fst (ents (snd kx)))) ->
  NoDup (map fst (ents_of_kids ks)).
Proof.
  unfold ents_of_kids. induction ks as [|[k x] ks IH]; cbn; intros Hk He; [constructor|].
  inversion Hk as [|? ? Hkn Hk']; subst. rewrite map_app. apply NoDup_app_intro.
  - rewrite map_map. cbn. rewrite <- (map_map fst (cons k)).
    apply NoDup_map_inj_in; [apply (He (k, x)); now left|]. intros a b _ _ H. now injection H.
  - apply IH; [exact Hk'|]. intros kx Hin. apply He. now right.
  - intros p Hp Hq. rewrite map_map in Hp. apply in_map_iff in Hp. destruct Hp as (e & <- & _).
    apply in_map_iff in Hq. destruct Hq as (e' & Heq & Hin').
    apply in_flat_map in Hin'. destruct Hin' as (kx & Hkx & Hin').
    apply in_map_iff in Hin'. destruct Hin' as (e'' & <- & _). cbn in Heq.
    injection Heq as Hk2 _. apply Hkn. rewrite <- Hk2. apply in_map. exact Hkx.
Qed.

Lemma paths_nodup : forall v, jall wf_node v = true -> NoDup (map fst (ents v)).
Proof.
  induction v as [v IH] using jv_size_ind. intros Hwf.
  rewrite ents_eq. destruct (is_nil (kids v)); [cbn; constructor; [intros []|constructor]|].
  apply paths_of_kids_nodup.
  - apply kids_nodup. now apply jall_node.
  - intros kx Hin. apply IH; [exact Hin|]. now apply (jall_kid _ v).
Qed.

Lemma rec_paths_nodup r : wf_rec r = true -> NoDup (map fst (ents_of_kids r)).
Proof.
  unfold wf_rec, rall. intros H. apply andb_true_iff in H. destruct H as [H1 H2].
  apply paths_of_kids_nodup; [now apply nodupb_NoDup|].
  intros kx Hin. apply paths_nodup. rewrite forallb_forall in H2. now apply H2.
Qed.

Lemma ents_nonnil : forall v, ents v <> [].
Proof.
  induction v as [v IH] using jv_size_ind. rewrite ents_eq.
  destruct (is_nil (kids v)) eqn:E; [discriminate|].
  apply ents_of_kids_nonnil; [now apply is_nil_false|]. intros kx Hin. now apply IH.
Qed.
