(* C02 property theorems.  Only statements closed by [exact]; each followed by Print Assumptions.
   Part 1/3 are about the model the correspondence harness runs (C02.Model: flatten, unflatten, auto_convert);
   part 2 is about the option records REGENERATED from cli.FLAG_TABLE on every run (gen/Gen_Flags.v). *)
From Coq Require Import Permutation.
From Miller Require Import Base.Bytes Base.Record C02.Model C02.Spec C02.Proofs C02.ProofsE C02.ProofsF.
From Miller Require Import C02.Codecs.
From Miller Require Import gen.Gen_Flags C02.FlagSpec C02.FlagProofs C02.FlagExtra C02.Mlrrc C02.MlrrcTable.
Open Scope char_scope.

(* ---- nested -> flat -> nested is the identity (property clause 2) ----
   For every record (any width, depth, nesting of maps and arrays) and every one-byte separator that is not a
   digit: if no map repeats a key (Mlrmap invariant), every key is non-empty and free of the separator (the
   property's own side condition), no string leaf is "{}" or "[]" and no nested non-empty map has exactly the
   keys "1".."n" (the two information losses, see the _refuted theorems), then Unflatten (Flatten r) = r. *)
Theorem C02_unflatten_flatten_partial :
  forall (c : ascii) (r : jmap),
    is_digit c = false ->
    wf_rec r = true -> keys_ok_rec c r = true -> no_sentinel_rec r = true -> no_intkeyed_rec r = true ->
    unflatten [c] (flatten [c] r) = r.
Proof. exact unflatten_flatten_char. Qed.
Print Assumptions C02_unflatten_flatten_partial.

(* any separator (multi-byte included): the hypothesis on keys becomes "every separator-joined path splits back
   into its pieces" (a decidable check, implied by keys_ok for one-byte separators: C02_paths_ok_of_keys_ok) *)
Theorem C02_unflatten_flatten_anysep_partial :
  forall (sep : bytes) (r : jmap),
    wf_rec r = true -> paths_ok sep r = true -> no_sentinel_rec r = true -> no_intkeyed_rec r = true ->
    unflatten sep (flatten sep r) = r.
Proof. exact unflatten_flatten_paths. Qed.
Print Assumptions C02_unflatten_flatten_anysep_partial.

Theorem C02_paths_ok_of_keys_ok :
  forall c r, is_digit c = false -> keys_ok_rec c r = true -> paths_ok [c] r = true.
Proof. exact paths_ok_single. Qed.
Print Assumptions C02_paths_ok_of_keys_ok.

(* what Flatten hands to a writer that cannot nest holds no map and no array *)
Theorem C02_flatten_output_is_flat :
  forall sep r, wf_rec r = true -> paths_ok sep r = true ->
    forallb (fun kv => negb (is_coll (snd kv))) (flatten sep r) = true.
Proof. exact flatten_is_flat. Qed.
Print Assumptions C02_flatten_output_is_flat.

(* "changes syntax only" for data that is flat already: Flatten leaves a record without collections alone, and
   Unflatten leaves alone every record whose keys do not contain the separator and whose values are not "{}"/"[]" *)
Theorem C02_flat_records_untouched :
  forall sep r,
    (existsb (fun kv => is_coll (snd kv)) r = false -> flatten sep r = r) /\
    (nodupb (map fst r) = true ->
     forallb (fun kv => negb (containsb sep (fst kv)) && no_sentinel_node (snd kv)) r = true ->
     unflatten sep r = r).
Proof. exact (fun sep r => conj (flatten_noop sep r) (unflatten_noop sep r)). Qed.
Print Assumptions C02_flat_records_untouched.

(* `mlr flatten -f FS` then `mlr unflatten -f FS` (FlattenFields / CopyUnflattenFields, which has no empty-piece check
   and can abort with "Internal coding error"): under the same hypotheses the record comes back, the run does not
   abort (Some), and the fields not named in FS -- collections included -- are carried through untouched *)
Theorem C02_unflatten_flatten_fields_partial :
  forall (fs : list bytes) (c : ascii) (r : jmap),
    is_digit c = false ->
    wf_rec r = true -> keys_ok_rec c r = true -> no_sentinel_rec r = true -> no_intkeyed_rec r = true ->
    unflatten_fields fs [c] (flatten_fields fs [c] r) = Some r.
Proof. exact unflatten_flatten_fields_char. Qed.
Print Assumptions C02_unflatten_flatten_fields_partial.

(* outside those hypotheses `unflatten -f` can abort: mlr --json unflatten -f a on {"a..b":1,"c":2} *)
Theorem C02_unflatten_fields_abort_refuted :
  unflatten_fields [B "a"] (B ".") [(B "a..b", JNum (B "1")); (B "c", JNum (B "2"))] = None.
Proof. exact unflatten_fields_crash_witness. Qed.
Print Assumptions C02_unflatten_fields_abort_refuted.

(* Go ranges over affectedBaseIndices (a map) in an unspecified order; the model uses first-seen order.  Whatever
   order the runtime picks, the result of CopyUnflattened is the model's: for EVERY input record *)
Theorem C02_unflatten_order_irrelevant :
  forall sep r aff',
    Permutation (snd (fold_left (unflatten_step sep) r ([], []))) aff' ->
    fold_left arrayify_at aff' (fst (fold_left (unflatten_step sep) r ([], []))) = unflatten sep r.
Proof. exact unflatten_order_irrelevant. Qed.
Print Assumptions C02_unflatten_order_irrelevant.

(* the chain as assembled by parseCommandLinePassTwo: a nesting format J (json, jsonl, yaml) to a non-nesting
   format T (anything else but dcf) appends `flatten`; T back to J appends `unflatten` unless the user's last verb
   is `flatten`; the composition gives the record back *)
Theorem C02_json_tabular_json_partial :
  forall c r J T v1 v2,
    is_nestable J = true -> is_nestable T = false -> beqb T (B "dcf") = false -> beqb v2 (B "flatten") = false ->
    is_digit c = false ->
    wf_rec r = true -> keys_ok_rec c r = true -> no_sentinel_rec r = true -> no_intkeyed_rec r = true ->
    auto_convert [c] T J v2 (auto_convert [c] J T v1 r) = r.
Proof. exact json_tabular_json. Qed.
Print Assumptions C02_json_tabular_json_partial.

(* ---- the statement WITHOUT the two extra hypotheses is false of the faithful model (and of mlr: the same
   inputs are found by the harness's search oracle) ---- *)
Theorem C02_unflatten_flatten_intkeyed_refuted :
  exists r, wf_rec r = true /\ keys_ok_rec "." r = true /\ no_sentinel_rec r = true
            /\ unflatten (B ".") (flatten (B ".") r) <> r.
Proof. exact (ex_intro _ r_intkeyed (conj (proj1 intkeyed_refuted) (conj (proj1 (proj2 intkeyed_refuted))
         (conj (proj1 (proj2 (proj2 intkeyed_refuted))) (proj2 (proj2 (proj2 (proj2 intkeyed_refuted)))))))). Qed.
Print Assumptions C02_unflatten_flatten_intkeyed_refuted.

Theorem C02_unflatten_flatten_sentinel_refuted :
  exists r, wf_rec r = true /\ keys_ok_rec "." r = true /\ no_intkeyed_rec r = true
            /\ unflatten (B ".") (flatten (B ".") r) <> r.
Proof. exact (ex_intro _ r_sentinel (conj (proj1 sentinel_refuted) (conj (proj1 (proj2 sentinel_refuted))
         (conj (proj1 (proj2 (proj2 sentinel_refuted))) (proj2 (proj2 (proj2 (proj2 sentinel_refuted)))))))). Qed.
Print Assumptions C02_unflatten_flatten_sentinel_refuted.

(* the side conditions of the property statement are needed: empty key, key containing the separator *)
Theorem C02_unflatten_flatten_emptykey_refuted :
  exists r, wf_rec r = true /\ no_sentinel_rec r = true /\ no_intkeyed_rec r = true
            /\ unflatten (B ".") (flatten (B ".") r) <> r.
Proof. exact (ex_intro _ r_emptykey emptykey_refuted). Qed.
Print Assumptions C02_unflatten_flatten_emptykey_refuted.

Theorem C02_unflatten_flatten_sepkey_refuted :
  exists r, wf_rec r = true /\ no_sentinel_rec r = true /\ no_intkeyed_rec r = true
            /\ unflatten (B ".") (flatten (B ".") r) <> r.
Proof. exact (ex_intro _ r_sepkey sepkey_refuted). Qed.
Print Assumptions C02_unflatten_flatten_sepkey_refuted.

(* separators for which "keys free of the separator" is not enough: a digit; a self-overlapping two-byte string *)
Theorem C02_unflatten_flatten_digitsep_refuted :
  exists r, wf_rec r = true /\ keys_ok_rec "1" r = true /\ no_sentinel_rec r = true /\ no_intkeyed_rec r = true
            /\ unflatten (B "1") (flatten (B "1") r) <> r.
Proof. exact (ex_intro _ r_digitsep digitsep_refuted). Qed.
Print Assumptions C02_unflatten_flatten_digitsep_refuted.

Theorem C02_unflatten_flatten_overlapsep_refuted :
  exists r, wf_rec r = true /\ no_sentinel_rec r = true /\ no_intkeyed_rec r = true
            /\ containsb (B "aa") (B "xa") = false /\ containsb (B "aa") (B "b") = false
            /\ paths_ok (B "aa") r = false
            /\ unflatten (B "aa") (flatten (B "aa") r) <> r.
Proof. exact (ex_intro _ r_overlap overlap_refuted). Qed.
Print Assumptions C02_unflatten_flatten_overlapsep_refuted.

(* ---- A->B = A->C->B and A->B->A = id (property clause 1), parametric in the codecs: for ANY family of
   writers/readers that round-trip on their representable data (C01's theorems per format), converting through an
   intermediate format that can represent the data changes nothing.  The tie of the real readers/writers to this
   statement is the harness's conversion matrix (mlr runs), not a model. ---- *)
Theorem C02_conv_via :
  forall (fmt text recs : Type) (write : fmt -> recs -> text) (read : fmt -> text -> option recs)
         (representable : fmt -> recs -> Prop),
    (forall F x, representable F x -> read F (write F x) = Some x) ->
    forall A C B x, representable A x -> representable C x ->
      bind (conv fmt text recs write read A C (write A x)) (conv fmt text recs write read C B)
      = conv fmt text recs write read A B (write A x).
Proof. exact conv_via. Qed.
Print Assumptions C02_conv_via.

Theorem C02_conv_there_and_back :
  forall (fmt text recs : Type) (write : fmt -> recs -> text) (read : fmt -> text -> option recs)
         (representable : fmt -> recs -> Prop),
    (forall F x, representable F x -> read F (write F x) = Some x) ->
    forall A B x, representable A x -> representable B x ->
      bind (conv fmt text recs write read A B (write A x)) (conv fmt text recs write read B A) = Some (write A x).
Proof. exact conv_there_and_back. Qed.
Print Assumptions C02_conv_there_and_back.

(* ---- the same through the REAL codec models: C01's reader/writer transliterations (CSV, TSV, DKVP, NIDX, XTAB, PPRINT,
   PPRINT --barred, CSVlite, JSON, JSON Lines with their default separators) and C01's round-trip theorems, imported
   unchanged.  The domain of a conversion is the intersection of the formats' own domain predicates ([cdomain]). ---- *)
Theorem C02_codecs_roundtrip :
  forall F x, cdomain F x = true -> cread F (cwrite F x) = Some x.
Proof. exact codec_roundtrip. Qed.
Print Assumptions C02_codecs_roundtrip.

Theorem C02_codecs_conv_via :
  forall A C B x, cdomain A x && cdomain C x = true ->
  bind (cconv A C (cwrite A x)) (cconv C B) = cconv A B (cwrite A x).
Proof. exact codecs_conv_via. Qed.
Print Assumptions C02_codecs_conv_via.

Theorem C02_codecs_there_and_back :
  forall A B x, cdomain A x && cdomain B x = true ->
  bind (cconv A B (cwrite A x)) (cconv B A) = Some (cwrite A x).
Proof. exact codecs_there_and_back. Qed.
Print Assumptions C02_codecs_there_and_back.

(* any number of intermediate formats: the result is what B's writer prints for the records, so only the syntax changed *)
Theorem C02_codecs_conv_chain :
  forall mids A B x, cdomain A x = true -> forallb (fun C => cdomain C x) mids = true ->
  conv_chain A mids B (cwrite A x) = Some (cwrite B x).
Proof. exact codecs_conv_chain. Qed.
Print Assumptions C02_codecs_conv_chain.

Example C02_codecs_nonvacuous :
  forallb (fun F => cdomain F x_example) [FCsv; FTsv; FDkvp; FXtab; FPprint; FPprintBarred; FCsvlite; FJson; FJsonl] = true
  /\ forallb (fun F => cdomain F x_positional) [FCsv; FTsv; FDkvp; FNidx; FXtab; FPprint; FCsvlite; FJson] = true
  /\ conv_chain FCsv [FJson; FXtab; FPprintBarred; FTsv] FDkvp (cwrite FCsv x_example) = Some (B "id=1,name=pan,v=0xff
id=2,name=wye,v=1.500
")
  /\ conv_chain FNidx [FCsv] FNidx (cwrite FNidx x_positional) = Some (B "a 0x1F
b +5
").
Proof. exact examples_in_domain. Qed.

(* ================= part 2: flag spellings, over the table REGENERATED from cli.FLAG_TABLE =================
   [effect argv] is every field of TReaderOptions/TWriterOptions after parsing argv like ParseCommandLine does and
   applying FinalizeReaderOptions/FinalizeWriterOptions (plus DecideFinalFlatten/Unflatten), as dumped by
   `implrun flag-eval` from the real closures.  [equivalent_in_context a b t]: a++t and b++t are both accepted and
   give the same final option record (the xxxWasSpecified bookkeeping bits aside); [identical_effect]: all fields.
   The quantifiers range over the complete regenerated table; the proofs are vm_compute over it. *)

(* every keystroke saver = its documented expansion (--X2Y = --iX --oY, b = --opprint --barred, -p, -T, -N ...),
   alone and followed by separator overrides: the whole table, no exception (the three families that differed on the
   pinned tree were repaired in /repo; a regression breaks this theorem) *)
Theorem C02_keystroke_savers_equal_expansion :
  forall s e t, In s all_spellings -> expansion_of_name s = Some e -> In t ctx_tails ->
  equivalent_in_context [s] e t.
Proof. exact keystroke_savers_equal_expansion. Qed.
Print Assumptions C02_keystroke_savers_equal_expansion.

(* the same with a separator flag given BEFORE the keystroke saver: every spelling, no exception (the --X2t / --X2n /
   --tsv / --nidx closures were repaired in /repo to assign OFS as --otsv / --onidx do) *)
Theorem C02_keystroke_savers_prefix :
  forall s e p, In s all_spellings -> expansion_of_name s = Some e -> In p ctx_prefixes ->
  equivalent_in_context (p ++ [s]) (p ++ e) [].
Proof. exact keystroke_savers_prefix. Qed.
Print Assumptions C02_keystroke_savers_prefix.

(* regression probe: the 16 spellings of the former finding agree with their expansion after --ofs ";" *)
Theorem C02_keystroke_former_prefix_sensitive_fixed :
  forallb (fun s => mem s keystroke_spellings
                    && match expansion_of_name s with Some e => equiv_pre [B "--ofs"; B ";"] [s] e | None => false end)
    [ B "--t2t"; B "--c2t"; B "--j2t"; B "--l2t"; B "--m2t"; B "--n2t"; B "--p2t"; B "--x2t"; B "--y2t";
      B "--n2n"; B "--j2n"; B "--l2n"; B "--m2n"; B "--p2n"; B "--x2n"; B "--y2n" ] = true.
Proof. exact ks_former_prefix_sensitive_fixed. Qed.
Print Assumptions C02_keystroke_former_prefix_sensitive_fixed.

(* non-vacuity of the above: the section is not empty, every flag in it has a documented expansion, the whole
   documented 10 x 10 matrix (markdown-to-markdown aside) is present in the table *)
Theorem C02_keystroke_domain :
  section_names ks_section <> []
  /\ (forall n, In n (section_names ks_section) -> exists e, expansion_of_name n = Some e)
  /\ (forall x y, In x letters -> In y letters -> (x, y) <> ("m"%char, "m"%char) -> In (matrix_name x y) all_spellings)
  /\ In (B "-p") all_spellings /\ In (B "-T") all_spellings.
Proof. exact keystroke_domain. Qed.
Print Assumptions C02_keystroke_domain.

Theorem C02_io_pairs_equal :
  forall x t, In x io_pair_names -> In t ctx_tails ->
  In (pre "--" x) all_spellings /\ equivalent_in_context [pre "--" x] [pre "--i" x; pre "--o" x] t.
Proof. exact io_pairs_equal. Qed.
Print Assumptions C02_io_pairs_equal.

(* -i X = --iX, -o X = --oX, --io X = --X for the documented format names, every key of defaultFSes, and md / jsonl *)
Theorem C02_io_forms_equal :
  forall x t, In x format_names -> In t ctx_tails ->
     (In (pre "--i" x) all_spellings -> equivalent_in_context [B "-i"; x] [pre "--i" x] t)
  /\ (In (pre "--o" x) all_spellings -> equivalent_in_context [B "-o"; x] [pre "--o" x] t)
  /\ (In (pre "--" x) all_spellings -> equivalent_in_context [B "--io"; x] [pre "--" x] t).
Proof. exact io_forms_equal. Qed.
Print Assumptions C02_io_forms_equal.

Theorem C02_io_forms_domain :
  forall x, In x core_format_names ->
  In (pre "--i" x) all_spellings /\ In (pre "--o" x) all_spellings /\ In (pre "--" x) all_spellings.
Proof. exact io_forms_domain. Qed.
Print Assumptions C02_io_forms_domain.

(* md and jsonl (long flags --imd/--omd/--md, --ijsonl/--ojsonl/--jsonl) are accepted and covered by the theorem above *)
Theorem C02_io_forms_names_fixed :
  has_spelling (B "--ijsonl") = true /\ has_spelling (B "--jsonl") = true /\ has_spelling (B "--md") = true
  /\ has_spelling (B "--ojsonl") = true /\ has_spelling (B "--imd") = true /\ has_spelling (B "--omd") = true
  /\ is_some (lookup_argv [B "-i"; B "jsonl"]) = true /\ is_some (lookup_argv [B "--io"; B "jsonl"]) = true
  /\ is_some (lookup_argv [B "--io"; B "md"]) = true
  /\ is_some (effect [B "-i"; B "jsonl"]) = true /\ is_some (effect [B "--io"; B "jsonl"]) = true
  /\ is_some (effect [B "--io"; B "md"]) = true
  /\ forallb (fun x => io_form_check (B "-i") "--i" x && io_form_check (B "-o") "--o" x && io_form_check (B "--io") "--" x)
             extra_format_names = true.
Proof. exact io_forms_names_fixed. Qed.
Print Assumptions C02_io_forms_names_fixed.

(* the alias tables are the documented ones, and every alias has exactly the effect of its literal under every
   separator flag *)
Theorem C02_sep_alias_tables_documented :
  gen_sep_aliases = doc_sep_aliases /\ gen_sep_regex_aliases = doc_sep_regex_aliases.
Proof. exact sep_alias_tables_documented. Qed.
Print Assumptions C02_sep_alias_tables_documented.

Theorem C02_sep_aliases_equal :
  forall n l f, In (n, l) doc_sep_aliases -> In f sep_flags -> identical_effect [f; n] [f; l].
Proof. exact sep_aliases_equal. Qed.
Print Assumptions C02_sep_aliases_equal.

Theorem C02_sep_regex_aliases_equal :
  forall n l f, In (n, l) doc_sep_regex_aliases -> In f sep_regex_flags -> identical_effect [f; n] [f; l].
Proof. exact sep_regex_aliases_equal. Qed.
Print Assumptions C02_sep_regex_aliases_equal.

Theorem C02_alt_names_equal_noarg :
  forall f a, In f gen_flag_table -> farg f = [] -> In a (falts f) -> identical_effect [a] [fname f].
Proof. exact alt_names_equal_noarg. Qed.
Print Assumptions C02_alt_names_equal_noarg.

Theorem C02_alt_names_equal_arg :
  forall f a, In f gen_flag_table -> farg f <> [] -> In a (falts f) -> exists v, identical_effect [a; v] [fname f; v].
Proof. exact alt_names_equal_arg. Qed.
Print Assumptions C02_alt_names_equal_arg.

Theorem C02_legacy_flags_are_noops :
  section_names legacy_section <> [] /\ forall n, In n (section_names legacy_section) -> identical_effect [n] [].
Proof. exact legacy_flags_are_noops. Qed.
Print Assumptions C02_legacy_flags_are_noops.

(* ================= .mlrrc (pkg/climain/mlrcli_mlrrc.go, transliterated in C02.Mlrrc) =================
   A flag with its argument tokens written on one line -- with or without the leading "--", surrounded by blanks,
   followed by a comment -- is read as exactly the command-line tokens; FLAG_TABLE.Parse is then applied to them as for
   the command line, so the line has the effect of the flag.  For ALL token lists (any flag, any arguments): *)
Theorem C02_mlrrc_line_with_dashes :
  forall (flag : bytes) (args : list bytes),
  forallb tok_ok (("-" :: flag) :: args) = true -> mem ("-" :: flag) refused = false ->
  handle_line (join_sp (("-" :: flag) :: args)) = RFlags (("-" :: flag) :: args).
Proof. exact line_with_dashes. Qed.
Print Assumptions C02_mlrrc_line_with_dashes.

Theorem C02_mlrrc_line_without_dashes :
  forall (name : bytes) (args : list bytes),
  forallb tok_ok (("-" :: "-" :: name) :: args) = true -> (match name with "-" :: _ => false | _ => true end) = true ->
  mem ("-" :: "-" :: name) refused = false ->
  handle_line (join_sp (name :: args)) = RFlags (("-" :: "-" :: name) :: args).
Proof. exact line_without_dashes. Qed.
Print Assumptions C02_mlrrc_line_without_dashes.

(* over the regenerated table: every spelling (alone / with an argument, dashed / undashed, with blanks and a comment)
   is read as the command-line tokens, except the flags that .mlrrc refuses (code execution, --profile) *)
Theorem C02_mlrrc_lines_over_flag_table :
  forall s, In s all_spellings -> rc_spelling_ok s = true.
Proof. exact rc_table_spec. Qed.
Print Assumptions C02_mlrrc_lines_over_flag_table.

(* MLRRC=__none__ disables all files; $MLRRC naming a readable file replaces them; otherwise ~/.mlrrc, then
   $XDG_CONFIG_HOME/miller/mlrrc, then ./.mlrrc, and the command line last (later flags override earlier ones) *)
Theorem C02_mlrrc_none :
  forall profile e cmdline, e_mlrrc e = Some (B "__none__") -> effective_argv false profile e cmdline = Some (List.concat cmdline).
Proof. exact mlrrc_none. Qed.
Print Assumptions C02_mlrrc_none.

Theorem C02_mlrrc_precedence :
  forall profile e cmdline h x c,
  e_mlrrc e = None -> load_opt profile (f_home e) = Some h -> load_opt profile (f_xdg e) = Some x -> load_opt profile (f_cwd e) = Some c ->
  effective_argv false profile e cmdline = Some (List.concat h ++ List.concat x ++ List.concat c ++ List.concat cmdline).
Proof. exact mlrrc_precedence. Qed.
Print Assumptions C02_mlrrc_precedence.

Theorem C02_mlrrc_env_only :
  forall profile e cmdline v t rc,
  e_mlrrc e = Some v -> v <> B "__none__" -> f_mlrrc e = Some t -> rc_file profile t = Some rc ->
  effective_argv false profile e cmdline = Some (List.concat rc ++ List.concat cmdline).
Proof. exact mlrrc_env_only. Qed.
Print Assumptions C02_mlrrc_env_only.

Example C02_mlrrc_nonvacuous :
  rc_file [] (B "-i csv
ofs semicolon") = Some [[B "-i"; B "csv"]; [B "--ofs"; B "semicolon"]]
  /\ rc_file [] (B "prepipe rm -rf /
") = None
  /\ rc_file (B "work") (B "icsv
[home]
ojson
[ work ]
oxtab
") = Some [[B "--icsv"]; [B "--oxtab"]]
  /\ effective_argv false [] (RcEnv None None (Some (B "ojson
")) None (Some (B "oxtab
"))) [[B "--icsv"]] = Some [B "--ojson"; B "--oxtab"; B "--icsv"]
  /\ forallb (fun s => mem s all_spellings) [B "--prepipe"; B "--prepipex"; B "--load"; B "--mload"] = true.
Proof. vm_compute. repeat split; reflexivity. Qed.

(* ---- non-vacuity ---- *)
Example C02_nonvacuous :
  wf_rec r_example = true /\ keys_ok_rec "." r_example = true /\ no_sentinel_rec r_example = true
  /\ no_intkeyed_rec r_example = true /\ paths_ok (B ".") r_example = true /\ paths_ok (B "::") r_example = true
  /\ List.length (flatten (B ".") r_example) = 14%nat.
Proof. exact example_meets_hypotheses. Qed.
