(* C02 property theorems.  Only statements closed by [exact]; each followed by Print Assumptions.
   Part 1/3 are about the model the correspondence harness runs (C02.Model: flatten, unflatten, auto_convert);
   part 2 is about the option records REGENERATED from cli.FLAG_TABLE on every run (gen/Gen_Flags.v). *)
From Miller Require Import Base.Bytes Base.Record C02.Model C02.Spec C02.Proofs.
Open Scope char_scope.

(* ---- nested -> flat -> nested is the identity (property clause 2) ----
   For every record (any width, depth, nesting of maps and arrays) and every one-byte separator that is not a
   digit: if no map repeats a key (Mlrmap invariant), every key is non-empty and free of the separator (the
   property's own side condition), no string leaf is "{}" or "[]" and no nested non-empty map has exactly the
   keys "1".."n" (the two information losses, see the _refuted theorems), then Unflatten (Flatten r) = r. *)
Theorem C02_unflatten_flatten_partial :
  forall (c : ascii) (r : jmap),
    is_digit c = false ->
    wf_rec r = true -> keys_ok_rec c r = true -> no_sentinel_rec r = true -> no_intkeyed_rec r = true ->
    unflatten [c] (flatten [c] r) = r.
Proof. exact unflatten_flatten_char. Qed.
Print Assumptions C02_unflatten_flatten_partial.

(* any separator (multi-byte included): the hypothesis on keys becomes "every separator-joined path splits back
   into its pieces" (a decidable check, implied by keys_ok for one-byte separators: C02_paths_ok_of_keys_ok) *)
Theorem C02_unflatten_flatten_anysep_partial :
  forall (sep : bytes) (r : jmap),
    wf_rec r = true -> paths_ok sep r = true -> no_sentinel_rec r = true -> no_intkeyed_rec r = true ->
    unflatten sep (flatten sep r) = r.
Proof. exact unflatten_flatten_paths. Qed.
Print Assumptions C02_unflatten_flatten_anysep_partial.

Theorem C02_paths_ok_of_keys_ok :
  forall c r, is_digit c = false -> keys_ok_rec c r = true -> paths_ok [c] r = true.
Proof. exact paths_ok_single. Qed.
Print Assumptions C02_paths_ok_of_keys_ok.

(* the chain as assembled by parseCommandLinePassTwo: a nesting format J (json, jsonl, yaml) to a non-nesting
   format T (anything else but dcf) appends `flatten`; T back to J appends `unflatten` unless the user's last verb
   is `flatten`; the composition gives the record back *)
Theorem C02_json_tabular_json_partial :
  forall c r J T v1 v2,
    is_nestable J = true -> is_nestable T = false -> beqb T (B "dcf") = false -> beqb v2 (B "flatten") = false ->
    is_digit c = false ->
    wf_rec r = true -> keys_ok_rec c r = true -> no_sentinel_rec r = true -> no_intkeyed_rec r = true ->
    auto_convert [c] T J v2 (auto_convert [c] J T v1 r) = r.
Proof. exact json_tabular_json. Qed.
Print Assumptions C02_json_tabular_json_partial.

(* ---- the statement WITHOUT the two extra hypotheses is false of the faithful model (and of mlr: the same
   inputs are found by the harness's search oracle) ---- *)
Theorem C02_unflatten_flatten_intkeyed_refuted :
  exists r, wf_rec r = true /\ keys_ok_rec "." r = true /\ no_sentinel_rec r = true
            /\ unflatten (B ".") (flatten (B ".") r) <> r.
Proof. exact (ex_intro _ r_intkeyed (conj (proj1 intkeyed_refuted) (conj (proj1 (proj2 intkeyed_refuted))
         (conj (proj1 (proj2 (proj2 intkeyed_refuted))) (proj2 (proj2 (proj2 (proj2 intkeyed_refuted)))))))). Qed.
Print Assumptions C02_unflatten_flatten_intkeyed_refuted.

Theorem C02_unflatten_flatten_sentinel_refuted :
  exists r, wf_rec r = true /\ keys_ok_rec "." r = true /\ no_intkeyed_rec r = true
            /\ unflatten (B ".") (flatten (B ".") r) <> r.
Proof. exact (ex_intro _ r_sentinel (conj (proj1 sentinel_refuted) (conj (proj1 (proj2 sentinel_refuted))
         (conj (proj1 (proj2 (proj2 sentinel_refuted))) (proj2 (proj2 (proj2 (proj2 sentinel_refuted)))))))). Qed.
Print Assumptions C02_unflatten_flatten_sentinel_refuted.

(* the side conditions of the property statement are needed: empty key, key containing the separator *)
Theorem C02_unflatten_flatten_emptykey_refuted :
  exists r, wf_rec r = true /\ no_sentinel_rec r = true /\ no_intkeyed_rec r = true
            /\ unflatten (B ".") (flatten (B ".") r) <> r.
Proof. exact (ex_intro _ r_emptykey emptykey_refuted). Qed.
Print Assumptions C02_unflatten_flatten_emptykey_refuted.

Theorem C02_unflatten_flatten_sepkey_refuted :
  exists r, wf_rec r = true /\ no_sentinel_rec r = true /\ no_intkeyed_rec r = true
            /\ unflatten (B ".") (flatten (B ".") r) <> r.
Proof. exact (ex_intro _ r_sepkey sepkey_refuted). Qed.
Print Assumptions C02_unflatten_flatten_sepkey_refuted.

(* separators for which "keys free of the separator" is not enough: a digit; a self-overlapping two-byte string *)
Theorem C02_unflatten_flatten_digitsep_refuted :
  exists r, wf_rec r = true /\ keys_ok_rec "1" r = true /\ no_sentinel_rec r = true /\ no_intkeyed_rec r = true
            /\ unflatten (B "1") (flatten (B "1") r) <> r.
Proof. exact (ex_intro _ r_digitsep digitsep_refuted). Qed.
Print Assumptions C02_unflatten_flatten_digitsep_refuted.

Theorem C02_unflatten_flatten_overlapsep_refuted :
  exists r, wf_rec r = true /\ no_sentinel_rec r = true /\ no_intkeyed_rec r = true
            /\ containsb (B "aa") (B "xa") = false /\ containsb (B "aa") (B "b") = false
            /\ paths_ok (B "aa") r = false
            /\ unflatten (B "aa") (flatten (B "aa") r) <> r.
Proof. exact (ex_intro _ r_overlap overlap_refuted). Qed.
Print Assumptions C02_unflatten_flatten_overlapsep_refuted.

(* ---- A->B = A->C->B and A->B->A = id (property clause 1), parametric in the codecs: for ANY family of
   writers/readers that round-trip on their representable data (C01's theorems per format), converting through an
   intermediate format that can represent the data changes nothing.  The tie of the real readers/writers to this
   statement is the harness's conversion matrix (mlr runs), not a model. ---- *)
Theorem C02_conv_via :
  forall (fmt text recs : Type) (write : fmt -> recs -> text) (read : fmt -> text -> option recs)
         (representable : fmt -> recs -> Prop),
    (forall F x, representable F x -> read F (write F x) = Some x) ->
    forall A C B x, representable A x -> representable C x ->
      bind (conv fmt text recs write read A C (write A x)) (conv fmt text recs write read C B)
      = conv fmt text recs write read A B (write A x).
Proof. exact conv_via. Qed.
Print Assumptions C02_conv_via.

Theorem C02_conv_there_and_back :
  forall (fmt text recs : Type) (write : fmt -> recs -> text) (read : fmt -> text -> option recs)
         (representable : fmt -> recs -> Prop),
    (forall F x, representable F x -> read F (write F x) = Some x) ->
    forall A B x, representable A x -> representable B x ->
      bind (conv fmt text recs write read A B (write A x)) (conv fmt text recs write read B A) = Some (write A x).
Proof. exact conv_there_and_back. Qed.
Print Assumptions C02_conv_there_and_back.

(* ---- non-vacuity ---- *)
Example C02_nonvacuous :
  wf_rec r_example = true /\ keys_ok_rec "." r_example = true /\ no_sentinel_rec r_example = true
  /\ no_intkeyed_rec r_example = true /\ paths_ok (B ".") r_example = true /\ paths_ok (B "::") r_example = true
  /\ List.length (flatten (B ".") r_example) = 14%nat.
Proof. exact example_meets_hypotheses. Qed.
