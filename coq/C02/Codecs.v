(* C02, clause 1 through the REAL codec models: C01's reader/writer models (the Gallina transliterations that C01's
   correspondence check ties to pkg/input and pkg/output) and C01's round-trip theorems are imported unchanged, and the
   parametric corollary "A -> B = A -> C -> B when C round-trips" (C02.Proofs.conv_via) is instantiated with them.
   The domain of a conversion is the intersection of the formats' own domain predicates (C01's wf_* booleans). *)
From Miller Require Import Base.Bytes Base.Record C02.Proofs.
From Miller Require Import C01.Model C01.ProofsUtil C01.ProofsTsv C01.ProofsDkvp C01.ProofsCsv C01.ProofsCsv2 C01.ModelJson C01.ProofsJson
  C01.ModelXtab C01.ProofsXtab C01.ModelLite C01.ProofsLite C01.ModelPprint C01.ProofsPprint C01.ProofsBarred.
Open Scope char_scope.

(* the formats with their default separators and options (what --icsv/--ocsv etc. select without further flags) *)
Inductive cfmt := FCsv | FTsv | FDkvp | FNidx | FXtab | FPprint | FPprintBarred | FCsvlite | FJson | FJsonl.

Definition recs := list record.
Definition width : bytes -> nat := @List.length ascii.       (* column width of ASCII text; any width function is allowed by C01 *)
Definition total (o : option bytes) : bytes := match o with Some t => t | None => [] end.

Definition cwrite (F : cfmt) (x : recs) : bytes :=
  match F with
  | FCsv => total (write_csv false false false "," x)
  | FTsv => total (write_tsv false false x)
  | FDkvp => write_dkvp [","] ["="] false x
  | FNidx => write_nidx [SP] false x
  | FXtab => write_xtab width [SP] false x
  | FPprint => write_pprint_g width false false false false x
  | FPprintBarred => write_pprint_g width false true false false x
  | FCsvlite => write_csvlite [","] false false x
  | FJson => write_json true true x                          (* --ojson: multi-line, wrapped in an outer list *)
  | FJsonl => write_json false false x                       (* --ojsonl *)
  end.

Definition cread (F : cfmt) (t : bytes) : option recs :=
  match F with
  | FCsv => read_csv false false true false "," t
  | FTsv => read_tsv true false t
  | FDkvp => Some (read_dkvp [","] ["="] false true t)
  | FNidx => Some (read_nidx_ws t)
  | FXtab => read_xtab [SP] true t
  | FPprint => read_pprint true false t
  | FPprintBarred => read_pprint_barred false true false t
  | FCsvlite => read_csvlite [","] true false t
  | FJson | FJsonl => read_json_ref t                         (* RFC-8259 reference reader, string values (C01 _partial) *)
  end.

(* per-format domain: C01's own predicate for that codec *)
Definition cdomain (F : cfmt) (x : recs) : bool :=
  match F with
  | FCsv => wf_csv false "," x
  | FTsv => wf_tsv x
  | FDkvp => wf_dkvp [","] ["="] false x
  | FNidx => forallb (wf_nidx_ws_rec false) x
  | FXtab => wf_xtab SP x
  | FPprint => wf_pprint false x
  | FPprintBarred => wf_barred x
  | FCsvlite => wf_lite "," x
  | FJson | FJsonl => forallb (fun r => nodupb (keys r)) x
  end.
Definition representable (F : cfmt) (x : recs) : Prop := cdomain F x = true.

Lemma total_obind (w : option bytes) (rd : bytes -> option recs) x : obind w rd = Some x -> rd (total w) = Some x.
Proof. destruct w; cbn; [auto|discriminate]. Qed.

(* every concrete codec round-trips on its domain: C01's theorems *)
Lemma codec_roundtrip F x : representable F x -> cread F (cwrite F x) = Some x.
Proof.
  unfold representable. destruct F; cbn [cdomain cread cwrite]; intros H.
  - apply total_obind. now apply csv_roundtrip.
  - apply total_obind. now apply tsv_roundtrip.
  - f_equal. now apply dkvp_roundtrip.
  - f_equal. now apply nidx_ws_roundtrip.
  - now apply xtab_roundtrip.
  - now apply pprint_roundtrip.
  - now apply pprint_barred_roundtrip.
  - now apply csvlite_roundtrip.
  - now apply json_roundtrip.
  - now apply json_roundtrip.
Qed.

Definition cconv := conv cfmt bytes recs cwrite cread.

(* A -> C -> B = A -> B, for the concrete codecs, on data inside the domains of A and C *)
Theorem codecs_conv_via A C B x :
  cdomain A x && cdomain C x = true ->
  bind (cconv A C (cwrite A x)) (cconv C B) = cconv A B (cwrite A x).
Proof.
  intros H. apply andb_true_iff in H. destruct H as [HA HC].
  exact (conv_via cfmt bytes recs cwrite cread representable codec_roundtrip A C B x HA HC).
Qed.

(* ... and the result is the text B's writer produces for the records *)
Theorem codecs_conv_direct A B x : cdomain A x = true -> cconv A B (cwrite A x) = Some (cwrite B x).
Proof. intros H. exact (conv_direct cfmt bytes recs cwrite cread representable codec_roundtrip A B x H). Qed.

(* A -> B -> A reproduces the original text *)
Theorem codecs_there_and_back A B x :
  cdomain A x && cdomain B x = true ->
  bind (cconv A B (cwrite A x)) (cconv B A) = Some (cwrite A x).
Proof.
  intros H. apply andb_true_iff in H. destruct H as [HA HB].
  exact (conv_there_and_back cfmt bytes recs cwrite cread representable codec_roundtrip A B x HA HB).
Qed.

(* whole chains of conversions through any list of intermediate formats *)
Fixpoint conv_chain (A : cfmt) (mids : list cfmt) (B : cfmt) (t : bytes) : option bytes :=
  match mids with
  | [] => cconv A B t
  | C :: rest => bind (cconv A C t) (conv_chain C rest B)
  end.

Theorem codecs_conv_chain mids : forall A B x,
  cdomain A x = true -> forallb (fun C => cdomain C x) mids = true ->
  conv_chain A mids B (cwrite A x) = Some (cwrite B x).
Proof.
  induction mids as [|C rest IH]; intros A B x HA Hm; cbn [conv_chain].
  - now apply codecs_conv_direct.
  - cbn [forallb] in Hm. apply andb_true_iff in Hm. destruct Hm as [HC Hr].
    rewrite codecs_conv_direct by exact HA. cbn [bind]. now apply IH.
Qed.

(* non-vacuity: a stream with numbers of several spellings, a value with a space and unicode, inside the domain of
   every format at once except NIDX (keyed data) -- and a positional stream inside NIDX's *)
Definition x_example : recs :=
  [ [(B "id", B "1"); (B "name", B "pan"); (B "v", B "0xff")];
    [(B "id", B "2"); (B "name", B "wye"); (B "v", B "1.500")] ].
Definition x_positional : recs := [ [(B "1", B "a"); (B "2", B "0x1F")]; [(B "1", B "b"); (B "2", B "+5")] ].

Lemma examples_in_domain :
  forallb (fun F => cdomain F x_example) [FCsv; FTsv; FDkvp; FXtab; FPprint; FPprintBarred; FCsvlite; FJson; FJsonl] = true
  /\ forallb (fun F => cdomain F x_positional) [FCsv; FTsv; FDkvp; FNidx; FXtab; FPprint; FCsvlite; FJson] = true
  /\ conv_chain FCsv [FJson; FXtab; FPprintBarred; FTsv] FDkvp (cwrite FCsv x_example) = Some (B "id=1,name=pan,v=0xff
id=2,name=wye,v=1.500
")
  /\ conv_chain FNidx [FCsv] FNidx (cwrite FNidx x_positional) = Some (B "a 0x1F
b +5
").
Proof. vm_compute. repeat split; reflexivity. Qed.
