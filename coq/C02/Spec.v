(* C02: the boolean domain predicates the round-trip theorems are stated with, and the path-level view of a
   nested value used by the proofs.  Definitions only. *)
From Miller Require Import Base.Bytes Base.Record C02.Model.
Open Scope char_scope.

(* [jall P v]: P holds at v and at every value nested inside v *)
Fixpoint jall (P : jv -> bool) (v : jv) {struct v} : bool :=
  P v &&
  match v with
  | JMap m => (fix go (m : jmap) : bool := match m with [] => true | (_, x) :: t => jall P x && go t end) m
  | JArr l => (fix go (l : list jv) : bool := match l with [] => true | x :: t => jall P x && go t end) l
  | _ => true
  end.

(* a Mlrmap never holds a key twice *)
Definition wf_node (v : jv) : bool := match v with JMap m => nodupb (map fst m) | _ => true end.
(* keys non-empty and free of the separator byte *)
Definition key_ok (c : ascii) (k : bytes) : bool := negb (is_nil k) && negb (existsb (Ascii.eqb c) k).
Definition keys_ok_node (c : ascii) (v : jv) : bool :=
  match v with JMap m => forallb (fun kv => key_ok c (fst kv)) m | _ => true end.
(* information loss 1: the STRINGS "{}" and "[]" are the encodings of the empty map / empty array *)
Definition no_sentinel_node (v : jv) : bool :=
  match v with JStr s => negb (beqb s (B "{}")) && negb (beqb s (B "[]")) | _ => true end.
(* information loss 2: a non-empty map whose keys are "1","2",..,"n" in this order is read back as an array *)
Definition no_intkeyed_node (v : jv) : bool :=
  match v with JMap m => is_nil m || negb (seqkeys 1 m) | _ => true end.

Definition rall (P : jv -> bool) (r : jmap) : bool := forallb (fun kv => jall P (snd kv)) r.

Definition wf_rec (r : jmap) : bool := nodupb (map fst r) && rall wf_node r.
Definition keys_ok_rec (c : ascii) (r : jmap) : bool := forallb (fun kv => key_ok c (fst kv)) r && rall (keys_ok_node c) r.
Definition no_sentinel_rec (r : jmap) : bool := rall no_sentinel_node r.
(* the record itself is never turned into an array, only the values of its fields *)
Definition no_intkeyed_rec (r : jmap) : bool := rall no_intkeyed_node r.

Definition is_digit (c : ascii) : bool := in_range "0" "9" c.

(* ---- path-level view ---- *)
Fixpoint indexed (i : N) (l : list jv) : jmap :=
  match l with [] => [] | x :: t => (itoa i, x) :: indexed (N.succ i) t end.

Definition kids (v : jv) : jmap := match v with JMap m => m | JArr l => indexed 1 l | _ => [] end.
Definition leafrep (v : jv) : jv := match v with JMap _ => JStr (B "{}") | JArr _ => JStr (B "[]") | _ => v end.

Definition pcons (k : bytes) (e : list bytes * jv) : list bytes * jv := (k :: fst e, snd e).

(* (path, leaf) entries of a value, in the order Flatten emits them; empty collections give their sentinel *)
Fixpoint ents (v : jv) {struct v} : list (list bytes * jv) :=
  match v with
  | JMap m =>
      match m with
      | [] => [([], JStr (B "{}"))]
      | _ => (fix go (m : jmap) : list (list bytes * jv) :=
                match m with [] => [] | (k, x) :: t => map (pcons k) (ents x) ++ go t end) m
      end
  | JArr l =>
      match l with
      | [] => [([], JStr (B "[]"))]
      | _ => (fix go (l : list jv) (i : N) : list (list bytes * jv) :=
                match l with [] => [] | x :: t => map (pcons (itoa i)) (ents x) ++ go t (N.succ i) end) l 1%N
      end
  | _ => [([], v)]
  end.

Definition ents_of_kids (ks : jmap) : list (list bytes * jv) :=
  flat_map (fun kx => map (pcons (fst kx)) (ents (snd kx))) ks.

(* the separator-joined key really splits back into its pieces, none empty, and "contains the separator" iff
   it has at least two pieces: what CopyUnflattened needs of a flattened key.  For a one-byte separator this
   follows from keys_ok (Proofs); for longer separators it can fail even when no key contains the separator. *)
Fixpoint lbeqb (a b : list bytes) : bool :=
  match a, b with [], [] => true | x :: a', y :: b' => beqb x y && lbeqb a' b' | _, _ => false end.

Definition path_okb (sep : bytes) (p : list bytes) : bool :=
  negb (is_nil p) && negb (existsb is_nil p)
  && lbeqb (split sep (join sep p)) p
  && Bool.eqb (containsb sep (join sep p)) (2 <=? List.length p)%nat.

Definition paths_ok (sep : bytes) (r : jmap) : bool := forallb (fun e => path_okb sep (fst e)) (ents_of_kids r).

(* a value with arrays replaced by maps keyed "1".."n" (what PutIndexed builds before Arrayify) *)
Fixpoint mapify (v : jv) {struct v} : jv :=
  match v with
  | JMap m => JMap ((fix go (m : jmap) : jmap := match m with [] => [] | (k, x) :: t => (k, mapify x) :: go t end) m)
  | JArr l =>
      match l with
      | [] => v
      | _ => JMap ((fix go (l : list jv) (i : N) : jmap :=
                      match l with [] => [] | x :: t => (itoa i, mapify x) :: go t (N.succ i) end) l 1%N)
      end
  | _ => v
  end.

Fixpoint jsize (v : jv) {struct v} : nat :=
  match v with
  | JMap m => S ((fix go (m : jmap) : nat := match m with [] => 0 | (_, x) :: t => jsize x + go t end) m)
  | JArr l => S ((fix go (l : list jv) : nat := match l with [] => 0 | x :: t => jsize x + go t end) l)
  | _ => 1
  end.
