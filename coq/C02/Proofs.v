(* C02 proofs, part D: the round-trip theorem, its one-byte-separator corollary, the chain-level corollary,
   conversions through an intermediate format, and the refutation witnesses. *)
From Coq Require Import DecimalString DecimalN DecimalPos.
From Miller Require Import Base.Bytes Base.Record C02.Model C02.Spec C02.ProofsA C02.ProofsB C02.ProofsC.
Open Scope char_scope.

Lemma lbeqb_eq a b : lbeqb a b = true -> a = b.
Proof.
  revert b; induction a as [|x a IH]; intros [|y b]; cbn; try discriminate; [reflexivity|].
  intros H. apply andb_true_iff in H. destruct H as [H1 H2].
  destruct (beqb_spec x y); [|discriminate]. subst. f_equal. now apply IH.
Qed.

Lemma path_ok_parts sep p :
  path_okb sep p = true ->
  p <> [] /\ existsb is_nil p = false /\ split sep (join sep p) = p
  /\ containsb sep (join sep p) = (2 <=? List.length p)%nat.
Proof.
  unfold path_okb. intros H.
  apply andb_true_iff in H. destruct H as [H H4].
  apply andb_true_iff in H. destruct H as [H H3].
  apply andb_true_iff in H. destruct H as [H1 H2].
  repeat split.
  - destruct p; [discriminate|congruence].
  - now apply negb_true_iff.
  - now apply lbeqb_eq.
  - now apply eqb_prop.
Qed.

(* the string-level step of CopyUnflattened is the path-level step, on a flattened key *)
Lemma step_tie sep o a p leaf :
  path_okb sep p = true ->
  unflatten_step sep (o, a) (join sep p, leaf) = (pstep_o o (p, leaf), astep a (p, leaf)).
Proof.
  intros H. destruct (path_ok_parts _ _ H) as (Hne & Hnil & Hsplit & Hcont).
  unfold unflatten_step, pstep_o, astep. cbn [fst snd]. rewrite Hcont.
  destruct (2 <=? List.length p)%nat eqn:El; cbn [negb].
  - rewrite Hsplit, Hnil. reflexivity.
  - destruct p as [|k [|k2 p]]; [congruence| |discriminate]. reflexivity.
Qed.

Lemma fold_pair {A B E} (f : A -> E -> A) (g : B -> E -> B) (l : list E) a b :
  fold_left (fun st e => (f (fst st) e, g (snd st) e)) l (a, b) = (fold_left f l a, fold_left g l b).
Proof. revert a b; induction l as [|e l IH]; intros a b; cbn; [reflexivity|]. apply IH. Qed.

Lemma first_entry r k v : In (k, v) r -> exists e', In e' (ents v) /\ In (pcons k e') (ents_of_kids r).
Proof.
  intros Hin. destruct (ents v) as [|e' es] eqn:E; [exfalso; now apply (ents_nonnil v)|].
  exists e'. split; [now left|]. unfold ents_of_kids. apply in_flat_map. exists (k, v). split; [exact Hin|].
  cbn [fst snd]. rewrite E. now left.
Qed.

Lemma long_entry r k v :
  In (k, v) r -> is_nil (kids v) = false ->
  exists e, In e (ents_of_kids r) /\ hd [] (fst e) = k /\ (2 <= List.length (fst e))%nat.
Proof.
  intros Hin En. destruct (first_entry r k v Hin) as (e' & He' & Hin').
  exists (pcons k e'). split; [exact Hin'|]. split; [reflexivity|].
  rewrite ents_eq, En in He'. apply ents_of_kids_paths_nonnil in He'.
  unfold pcons; cbn [fst List.length]. destruct (fst e'); [congruence|cbn; lia].
Qed.

(* Flatten emits exactly the separator-joined (path, leaf) entries *)
Lemma flatten_paths_eq sep r :
  wf_rec r = true -> paths_ok sep r = true -> flatten sep r = map (keyed sep []) (ents_of_kids r).
Proof.
  intros Hwf Hp.
  pose proof (rec_paths_nodup r Hwf) as Hpaths.
  unfold paths_ok in Hp. rewrite forallb_forall in Hp.
  assert (Hkeys : NoDup (map fst (map (keyed sep []) (ents_of_kids r)))).
  { rewrite map_map. cbn [keyed fst app].
    rewrite <- (map_map fst (join sep)). apply NoDup_map_inj_in; [exact Hpaths|].
    intros p q Hp1 Hq1 Heq.
    apply in_map_iff in Hp1. destruct Hp1 as (e1 & <- & He1).
    apply in_map_iff in Hq1. destruct Hq1 as (e2 & <- & He2).
    destruct (path_ok_parts _ _ (Hp e1 He1)) as (_ & _ & S1 & _).
    destruct (path_ok_parts _ _ (Hp e2 He2)) as (_ & _ & S2 & _).
    rewrite <- S1, <- S2. now rewrite Heq. }
  assert (Hknz : forall kx, In kx r -> fst kx <> []).
  { intros [k v] Hin. destruct (first_entry r k v Hin) as (e' & _ & Hin').
    destruct (path_ok_parts _ _ (Hp _ Hin')) as (_ & Hnil & _). cbn in Hnil.
    apply orb_false_iff in Hnil. destruct Hnil as [Hk _]. cbn. destruct k; [discriminate|congruence]. }
  exact (flatten_ents sep r Hknz Hkeys).
Qed.

Lemma ents_leaf_scalar : forall v e, In e (ents v) -> is_coll (snd e) = false.
Proof.
  induction v as [v IH] using jv_size_ind. intros e Hin. rewrite ents_eq in Hin.
  destruct (is_nil (kids v)) eqn:En.
  - destruct Hin as [<-|[]]. now destruct v.
  - unfold ents_of_kids in Hin. apply in_flat_map in Hin. destruct Hin as (kx & Hkx & Hin).
    apply in_map_iff in Hin. destruct Hin as (e' & <- & He'). cbn [pcons snd]. now apply (IH kx Hkx).
Qed.

(* the flattened record holds no map and no array: it can be written by a format that cannot nest *)
Theorem flatten_is_flat sep r :
  wf_rec r = true -> paths_ok sep r = true ->
  forallb (fun kv => negb (is_coll (snd kv))) (flatten sep r) = true.
Proof.
  intros Hwf Hp. rewrite (flatten_paths_eq sep r Hwf Hp). apply forallb_forall. intros kv Hin.
  apply in_map_iff in Hin. destruct Hin as (e & <- & He). unfold keyed; cbn [snd].
  unfold ents_of_kids in He. apply in_flat_map in He. destruct He as (kx & _ & He).
  apply in_map_iff in He. destruct He as (e' & <- & He'). cbn [pcons snd].
  now rewrite (ents_leaf_scalar _ _ He').
Qed.

(* records without collections pass Flatten untouched; records whose keys do not contain the separator and whose
   values are not the sentinel strings pass Unflatten untouched *)
Lemma flatten_noop sep r : existsb (fun kv => is_coll (snd kv)) r = false -> flatten sep r = r.
Proof. intros H. unfold flatten. now rewrite H. Qed.

Lemma unflatten_noop_gen sep : forall r o,
  NoDup (map fst o ++ map fst r) ->
  (forall kv, In kv r -> containsb sep (fst kv) = false /\ ut (snd kv) = snd kv) ->
  fold_left (unflatten_step sep) r (o, []) = (o ++ r, []).
Proof.
  induction r as [|[k v] r IH]; intros o Hnd H; cbn [fold_left]; [now rewrite app_nil_r|].
  destruct (H (k, v) (or_introl eq_refl)) as [Hc Hu]. cbn [fst snd] in Hc, Hu.
  assert (Hs : unflatten_step sep (o, []) (k, v) = (o ++ [(k, v)], [])).
  { unfold unflatten_step. cbv beta iota zeta. rewrite Hc. cbn [negb]. rewrite Hu.
    rewrite jput_absent; [reflexivity|]. intros Hin. apply (NoDup_app_disj _ _ _ Hnd Hin). now left. }
  rewrite Hs. rewrite IH.
  - now rewrite <- app_assoc.
  - rewrite map_app, <- app_assoc. exact Hnd.
  - intros kv Hin. apply H. now right.
Qed.

Lemma unflatten_noop sep r :
  nodupb (map fst r) = true ->
  forallb (fun kv => negb (containsb sep (fst kv)) && no_sentinel_node (snd kv)) r = true ->
  unflatten sep r = r.
Proof.
  intros Hnd H. unfold unflatten. rewrite (unflatten_noop_gen sep r []).
  - reflexivity.
  - cbn [map app]. now apply nodupb_NoDup.
  - intros [k v] Hin. rewrite forallb_forall in H. specialize (H _ Hin). cbn [fst snd] in *.
    apply andb_true_iff in H. destruct H as [H1 H2]. split; [now apply negb_true_iff|].
    destruct v as [s|t|b| |m|l]; try reflexivity. cbn [no_sentinel_node] in H2.
    apply andb_true_iff in H2. destruct H2 as [Ha Hb]. apply negb_true_iff in Ha, Hb. cbn [ut]. now rewrite Ha, Hb.
Qed.

(* ===== the round-trip theorem, any separator ===== *)
Theorem unflatten_flatten_paths sep r :
  wf_rec r = true -> paths_ok sep r = true -> no_sentinel_rec r = true -> no_intkeyed_rec r = true ->
  unflatten sep (flatten sep r) = r.
Proof.
  intros Hwf Hp Hns Hni.
  rewrite (flatten_paths_eq sep r Hwf Hp).
  unfold paths_ok in Hp. rewrite forallb_forall in Hp.
  unfold unflatten. rewrite fold_left_map.
  rewrite (fold_left_ext_in _ (fun st e => (pstep_o (fst st) e, astep (snd st) e))).
  2:{ intros [o a] [p leaf] Hin. unfold keyed; cbn [fst snd app]. apply step_tie. exact (Hp _ Hin). }
  rewrite fold_pair. rewrite (build_rec r Hwf Hns).
  assert (Hnd : NoDup (map fst r)).
  { unfold wf_rec in Hwf. apply andb_true_iff in Hwf. destruct Hwf as [Hwf _]. now apply nodupb_NoDup. }
  rewrite arrayify_pass.
  - rewrite map_map. rewrite <- (map_id r) at 2. apply map_ext_in. intros [k v] Hin.
    unfold upd_if; cbn [fst snd]. f_equal.
    destruct (bmem k (fold_left astep (ents_of_kids r) [])) eqn:E.
    + apply arrayify_mapify. unfold no_intkeyed_rec, rall in Hni. rewrite forallb_forall in Hni. exact (Hni _ Hin).
    + rewrite mapify_eq. destruct (is_nil (kids v)) eqn:En; [reflexivity|]. exfalso.
      destruct (long_entry r k v Hin En) as (e & He & Hhd & Hlen).
      pose proof (astep_adds (ents_of_kids r) [] e He Hlen) as Hadd.
      assert (Hk : In k (fold_left astep (ents_of_kids r) [])) by (rewrite <- Hhd; exact Hadd).
      apply bmem_In in Hk. congruence.
  - rewrite map_map. cbn [fst]. exact Hnd.
  - apply astep_nodup. constructor.
Qed.

(* ===== one-byte separators: paths_ok follows from the keys being non-empty and free of the byte ===== *)
Definition piece_ok (c : ascii) (k : bytes) : Prop := k <> [] /\ ~ In c k.

Lemma key_ok_piece c k : key_ok c k = true -> piece_ok c k.
Proof.
  unfold key_ok. intros H. apply andb_true_iff in H. destruct H as [H1 H2]. split.
  - destruct k; [discriminate|congruence].
  - intros Hin. apply negb_true_iff in H2.
    assert (existsb (Ascii.eqb c) k = true); [|congruence].
    apply existsb_exists. exists c. split; [exact Hin|apply Ascii.eqb_refl].
Qed.

Lemma split_aux_end c x : forall cur, ~ In c x -> split_aux [c] cur 0 x = [rev cur ++ x].
Proof.
  induction x as [|ch x IH]; intros cur Hn; cbn [split_aux]; [now rewrite app_nil_r|].
  assert (E : prefixb [c] (ch :: x) = false).
  { cbn. destruct (Ascii.eqb_spec c ch) as [->|]; [exfalso; apply Hn; now left|reflexivity]. }
  rewrite E. rewrite IH by (intros H; apply Hn; now right). cbn [rev]. now rewrite <- app_assoc.
Qed.

Lemma split_aux_piece c x s : forall cur, ~ In c x ->
  split_aux [c] cur 0 (x ++ c :: s) = (rev cur ++ x) :: split_aux [c] [] 0 s.
Proof.
  induction x as [|ch x IH]; intros cur Hn.
  - cbn [app split_aux]. assert (E : prefixb [c] (c :: s) = true) by (cbn; now rewrite Ascii.eqb_refl).
    rewrite E. cbn [List.length Nat.sub]. now rewrite app_nil_r.
  - cbn [app split_aux].
    assert (E : prefixb [c] (ch :: x ++ c :: s) = false).
    { cbn. destruct (Ascii.eqb_spec c ch) as [->|]; [exfalso; apply Hn; now left|reflexivity]. }
    rewrite E. rewrite IH by (intros H; apply Hn; now right). cbn [rev]. now rewrite <- app_assoc.
Qed.

Lemma split_aux_join c p : p <> [] -> Forall (piece_ok c) p -> split_aux [c] [] 0 (join [c] p) = p.
Proof.
  induction p as [|x p IH]; intros Hne Hall; [congruence|].
  inversion Hall as [|? ? [Hx1 Hx2] Hall']; subst.
  destruct p as [|y p].
  - cbn [join]. now rewrite split_aux_end.
  - change (join [c] (x :: y :: p)) with (x ++ c :: join [c] (y :: p)).
    rewrite split_aux_piece by exact Hx2. cbn [rev app]. f_equal. apply IH; [discriminate|exact Hall'].
Qed.

Lemma containsb_single c s : containsb [c] s = existsb (Ascii.eqb c) s.
Proof.
  induction s as [|ch s IH]; [reflexivity|]. cbn [containsb existsb prefixb]. rewrite IH.
  now rewrite andb_true_r.
Qed.

Lemma join_nonnil c p x : x <> [] -> join [c] (x :: p) <> [].
Proof. intros H. destruct p; cbn [join]; [exact H|]. destruct x; [congruence|discriminate]. Qed.

Lemma path_ok_single c p : p <> [] -> Forall (piece_ok c) p -> path_okb [c] p = true.
Proof.
  intros Hne Hall. unfold path_okb.
  assert (H2 : existsb is_nil p = false).
  { clear Hne. induction Hall as [|x p [Hx _] _ IH]; [reflexivity|]. cbn. rewrite IH. destruct x; [congruence|reflexivity]. }
  assert (H3 : split [c] (join [c] p) = p).
  { unfold split. destruct p as [|x p]; [congruence|]. inversion Hall as [|? ? [Hx _] _]; subst.
    destruct (join [c] (x :: p)) eqn:E; [exfalso; now apply (join_nonnil c p x)|].
    rewrite <- E. now apply split_aux_join. }
  assert (H4 : containsb [c] (join [c] p) = (2 <=? List.length p)%nat).
  { rewrite containsb_single. destruct p as [|x [|y p]]; [congruence| |].
    - inversion Hall as [|? ? [_ Hx] _]; subst. cbn [join List.length Nat.leb].
      destruct (existsb (Ascii.eqb c) x) eqn:E; [|reflexivity]. exfalso.
      apply existsb_exists in E. destruct E as (ch & Hin & Heq). apply Ascii.eqb_eq in Heq. now subst.
    - change (join [c] (x :: y :: p)) with (x ++ c :: join [c] (y :: p)).
      rewrite existsb_app. cbn [existsb]. rewrite Ascii.eqb_refl. cbn. now rewrite orb_true_r. }
  rewrite H2, H3, H4. cbn [negb]. rewrite eqb_reflx, andb_true_r.
  assert (lbeqb p p = true) as ->. { clear. induction p as [|x p IH]; [reflexivity|]. cbn. now rewrite beqb_refl. }
  destruct p; [congruence|reflexivity].
Qed.

(* decimal index strings: non-empty, digits only *)
Lemma uint_digits d : Forall (fun ch => is_digit ch = true) (list_ascii_of_string (NilEmpty.string_of_uint d)).
Proof. induction d; cbn; constructor; auto. Qed.

Lemma nz_digits d : Forall (fun ch => is_digit ch = true) (list_ascii_of_string (NilZero.string_of_uint d)).
Proof.
  destruct d; try (exact (uint_digits _)). cbn. constructor; [reflexivity|constructor].
Qed.

Lemma itoa_piece c n : is_digit c = false -> piece_ok c (itoa n).
Proof.
  intros Hc. split.
  - unfold itoa, NilZero.string_of_uint. destruct (N.to_uint n); discriminate.
  - intros Hin. unfold itoa in Hin. pose proof (nz_digits (N.to_uint n)) as H.
    rewrite Forall_forall in H. specialize (H c Hin). congruence.
Qed.

Lemma kids_pieces c v :
  is_digit c = false -> keys_ok_node c v = true -> forall kx, In kx (kids v) -> piece_ok c (fst kx).
Proof.
  intros Hc Hk kx Hin. destruct v as [s|t|b| |m|l]; cbn [kids] in Hin; try contradiction.
  - cbn [keys_ok_node] in Hk. rewrite forallb_forall in Hk. apply key_ok_piece. now apply Hk.
  - apply in_map with (f := fst) in Hin. apply indexed_keys in Hin. destruct Hin as (j & _ & ->).
    now apply itoa_piece.
Qed.

Lemma ents_pieces c : is_digit c = false ->
  forall v, jall (keys_ok_node c) v = true -> forall e, In e (ents v) -> Forall (piece_ok c) (fst e).
Proof.
  intros Hc. induction v as [v IH] using jv_size_ind. intros Hk e Hin.
  rewrite ents_eq in Hin. destruct (is_nil (kids v)) eqn:En.
  - destruct Hin as [<-|[]]. constructor.
  - unfold ents_of_kids in Hin. apply in_flat_map in Hin. destruct Hin as (kx & Hkx & Hin).
    apply in_map_iff in Hin. destruct Hin as (e' & <- & He'). cbn [pcons fst]. constructor.
    + apply (kids_pieces c v Hc); [now apply jall_node|exact Hkx].
    + apply (IH kx Hkx); [now apply (jall_kid _ v)|exact He'].
Qed.

Lemma paths_ok_single c r :
  is_digit c = false -> keys_ok_rec c r = true -> paths_ok [c] r = true.
Proof.
  intros Hc Hk. unfold keys_ok_rec, rall in Hk. apply andb_true_iff in Hk. destruct Hk as [Hk1 Hk2].
  rewrite forallb_forall in Hk1, Hk2.
  unfold paths_ok. apply forallb_forall. intros e Hin.
  unfold ents_of_kids in Hin. apply in_flat_map in Hin. destruct Hin as (kx & Hkx & Hin).
  apply in_map_iff in Hin. destruct Hin as (e' & <- & He'). cbn [pcons fst].
  apply path_ok_single; [discriminate|]. constructor.
  - apply key_ok_piece. now apply Hk1.
  - apply (ents_pieces c Hc (snd kx)); [now apply Hk2|exact He'].
Qed.

Theorem unflatten_flatten_char c r :
  is_digit c = false ->
  wf_rec r = true -> keys_ok_rec c r = true -> no_sentinel_rec r = true -> no_intkeyed_rec r = true ->
  unflatten [c] (flatten [c] r) = r.
Proof.
  intros Hc Hwf Hk Hns Hni. apply unflatten_flatten_paths; auto. now apply paths_ok_single.
Qed.

(* ===== chain level: what parseCommandLinePassTwo appends (nesting -> non-nesting -> nesting) ===== *)
Theorem json_tabular_json c r J T v1 v2 :
  is_nestable J = true -> is_nestable T = false -> beqb T (B "dcf") = false -> beqb v2 (B "flatten") = false ->
  is_digit c = false ->
  wf_rec r = true -> keys_ok_rec c r = true -> no_sentinel_rec r = true -> no_intkeyed_rec r = true ->
  auto_convert [c] T J v2 (auto_convert [c] J T v1 r) = r.
Proof.
  intros HJ HT Hd Hv Hc Hwf Hk Hns Hni.
  unfold auto_convert, decide_final_flatten, decide_final_unflatten.
  rewrite HJ, HT, Hd, Hv. cbn [andb negb]. destruct (beqb v1 (B "flatten")); cbn [andb negb];
    now apply unflatten_flatten_char.
Qed.

(* ===== conversions through an intermediate format, parametric in the codecs ===== *)
Section Conversions.
  Variables (fmt text recs : Type).
  Variable write : fmt -> recs -> text.
  Variable read : fmt -> text -> option recs.
  Variable representable : fmt -> recs -> Prop.
  Hypothesis roundtrip : forall F x, representable F x -> read F (write F x) = Some x.

  Definition conv (A B : fmt) (t : text) : option text := option_map (write B) (read A t).
  Definition bind {X Y} (o : option X) (f : X -> option Y) : option Y := match o with Some x => f x | None => None end.

  Lemma conv_direct A B x : representable A x -> conv A B (write A x) = Some (write B x).
  Proof. intros H. unfold conv. now rewrite roundtrip. Qed.

  Lemma conv_via A C B x :
    representable A x -> representable C x ->
    bind (conv A C (write A x)) (conv C B) = conv A B (write A x).
  Proof. intros HA HC. rewrite !conv_direct by assumption. cbn. now apply conv_direct. Qed.

  Lemma conv_there_and_back A B x :
    representable A x -> representable B x ->
    bind (conv A B (write A x)) (conv B A) = Some (write A x).
  Proof. intros HA HB. rewrite conv_direct by assumption. cbn. now apply conv_direct. Qed.
End Conversions.

(* ===== what happens when a hypothesis is dropped ===== *)
Definition r_intkeyed : jmap := [(B "a", JMap [(B "1", JNum (B "5")); (B "2", JNum (B "6"))])].
Definition r_sentinel : jmap := [(B "b", JStr (B "{}"))].
Definition r_sentinel2 : jmap := [(B "b", JMap [(B "c", JStr (B "[]"))])].
Definition r_emptykey : jmap := [(B "a", JMap [(B "", JNum (B "1"))])].
Definition r_sepkey : jmap := [(B "a.b", JNum (B "1"))].
Definition r_digitsep : jmap := [(B "a", JArr [JNum (B "5")])].
Definition r_overlap : jmap := [(B "xa", JMap [(B "b", JNum (B "1"))])].

Definition dot : ascii := ".".

Lemma intkeyed_refuted :
  wf_rec r_intkeyed = true /\ keys_ok_rec dot r_intkeyed = true /\ no_sentinel_rec r_intkeyed = true
  /\ no_intkeyed_rec r_intkeyed = false /\ unflatten [dot] (flatten [dot] r_intkeyed) <> r_intkeyed.
Proof. vm_compute. repeat split; try reflexivity. discriminate. Qed.

Lemma sentinel_refuted :
  wf_rec r_sentinel = true /\ keys_ok_rec dot r_sentinel = true /\ no_intkeyed_rec r_sentinel = true
  /\ no_sentinel_rec r_sentinel = false /\ unflatten [dot] (flatten [dot] r_sentinel) <> r_sentinel.
Proof. vm_compute. repeat split; try reflexivity. discriminate. Qed.

Lemma sentinel_nested_refuted :
  wf_rec r_sentinel2 = true /\ keys_ok_rec dot r_sentinel2 = true /\ no_intkeyed_rec r_sentinel2 = true
  /\ unflatten [dot] (flatten [dot] r_sentinel2) <> r_sentinel2.
Proof. vm_compute. repeat split; try reflexivity. discriminate. Qed.

Lemma emptykey_refuted :
  wf_rec r_emptykey = true /\ no_sentinel_rec r_emptykey = true /\ no_intkeyed_rec r_emptykey = true
  /\ unflatten [dot] (flatten [dot] r_emptykey) <> r_emptykey.
Proof. vm_compute. repeat split; try reflexivity. discriminate. Qed.

Lemma sepkey_refuted :
  wf_rec r_sepkey = true /\ no_sentinel_rec r_sepkey = true /\ no_intkeyed_rec r_sepkey = true
  /\ unflatten [dot] (flatten [dot] r_sepkey) <> r_sepkey.
Proof. vm_compute. repeat split; try reflexivity. discriminate. Qed.

(* a digit as separator collides with array indices *)
Lemma digitsep_refuted :
  wf_rec r_digitsep = true /\ keys_ok_rec "1" r_digitsep = true /\ no_sentinel_rec r_digitsep = true
  /\ no_intkeyed_rec r_digitsep = true /\ unflatten ["1"] (flatten ["1"] r_digitsep) <> r_digitsep.
Proof. vm_compute. repeat split; try reflexivity. discriminate. Qed.

(* a two-byte separator: no key contains "aa", yet "xa"+"aa"+"b" splits as "x","ab" *)
Lemma overlap_refuted :
  wf_rec r_overlap = true /\ no_sentinel_rec r_overlap = true /\ no_intkeyed_rec r_overlap = true
  /\ containsb (B "aa") (B "xa") = false /\ containsb (B "aa") (B "b") = false
  /\ paths_ok (B "aa") r_overlap = false
  /\ unflatten (B "aa") (flatten (B "aa") r_overlap) <> r_overlap.
Proof. vm_compute. repeat split; try reflexivity. discriminate. Qed.

(* non-vacuity: a nested record meeting every hypothesis, with maps in arrays, arrays in maps, empty collections,
   integer-looking keys that are not 1..n, every leaf kind *)
Definition r_example : jmap :=
  [(B "id", JNum (B "17"));
   (B "req", JMap [(B "method", JStr (B "GET")); (B "hdr", JMap [(B "2", JStr (B "x")); (B "1", JStr (B "y"))]);
                   (B "sizes", JArr [JNum (B "1"); JArr [JNum (B "2.50"); JNull]; JMap [(B "u", JBool true); (B "e", JMap [])]])]);
   (B "tags", JArr [JStr (B "a b"); JStr (B ""); JArr []]);
   (B "3", JMap [(B "0", JStr (B "{ }"))]);
   (B "ok", JBool false)].

Lemma example_meets_hypotheses :
  wf_rec r_example = true /\ keys_ok_rec dot r_example = true /\ no_sentinel_rec r_example = true
  /\ no_intkeyed_rec r_example = true /\ paths_ok [dot] r_example = true /\ paths_ok (B "::") r_example = true
  /\ List.length (flatten [dot] r_example) = 14%nat.
Proof. vm_compute. repeat split; reflexivity. Qed.
