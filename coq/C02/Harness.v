(* C02 correspondence harness: executable checks evaluated by vm_compute on cases written by the Python driver
   (observed behaviour of the scratch-built mlr). *)
From Miller Require Import Base.Bytes C02.Model.
Open Scope Z_scope.

Fixpoint jv_eqb (a b : jv) {struct a} : bool :=
  match a, b with
  | JStr s, JStr s' => beqb s s'
  | JNum s, JNum s' => beqb s s'
  | JBool x, JBool y => Bool.eqb x y
  | JNull, JNull => true
  | JMap m, JMap m' =>
      (fix go (m m' : jmap) {struct m} : bool :=
         match m, m' with
         | [], [] => true
         | (k, x) :: t, (k', x') :: t' => beqb k k' && jv_eqb x x' && go t t'
         | _, _ => false
         end) m m'
  | JArr l, JArr l' =>
      (fix go (l l' : list jv) {struct l} : bool :=
         match l, l' with
         | [], [] => true
         | x :: t, x' :: t' => jv_eqb x x' && go t t'
         | _, _ => false
         end) l l'
  | _, _ => false
  end.

Definition jmap_eqb (a b : jmap) : bool := jv_eqb (JMap a) (JMap b).

(* case = (kind, sep, input record, observed output record)
   kind 0: mlr --ijson --ojson --flatsep SEP flatten
   kind 1: mlr --ijson --ojson --flatsep SEP unflatten
   kind 2: mlr --ijson --ojson --flatsep SEP flatten then unflatten
   kind 3: JSON -> non-nesting format -> JSON through two mlr runs (auto-flatten, then auto-unflatten),
           on records whose leaves survive the text trip unchanged *)
Definition run_model (kind : Z) (sep : bytes) (r : jmap) : jmap :=
  if kind =? 0 then flatten sep r
  else if kind =? 1 then unflatten sep r
  else if kind =? 2 then unflatten sep (flatten sep r)
  else auto_convert sep (B "csv") (B "json") (B "cat") (auto_convert sep (B "json") (B "csv") (B "cat") r).

Definition chk (c : Z * bytes * jmap * jmap) : bool :=
  let '(kind, sep, r, obs) := c in jmap_eqb (run_model kind sep r) obs.
