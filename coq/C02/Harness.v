(* C02 correspondence harness: executable checks evaluated by vm_compute on cases written by the Python driver
   (observed behaviour of the scratch-built mlr). *)
From Miller Require Import Base.Bytes C02.Model.
Open Scope Z_scope.

Fixpoint jv_eqb (a b : jv) {struct a} : bool :=
  match a, b with
  | JStr s, JStr s' => beqb s s'
  | JNum s, JNum s' => beqb s s'
  | JBool x, JBool y => Bool.eqb x y
  | JNull, JNull => true
  | JMap m, JMap m' =>
      (fix go (m m' : jmap) {struct m} : bool :=
         match m, m' with
         | [], [] => true
         | (k, x) :: t, (k', x') :: t' => beqb k k' && jv_eqb x x' && go t t'
         | _, _ => false
         end) m m'
  | JArr l, JArr l' =>
      (fix go (l l' : list jv) {struct l} : bool :=
         match l, l' with
         | [], [] => true
         | x :: t, x' :: t' => jv_eqb x x' && go t t'
         | _, _ => false
         end) l l'
  | _, _ => false
  end.

Definition jmap_eqb (a b : jmap) : bool := jv_eqb (JMap a) (JMap b).

(* case = (kind, sep, -f field names, input record, crashed, observed output record)
   kind 0: mlr --ijson --ojson --flatsep SEP flatten
   kind 1: mlr --ijson --ojson --flatsep SEP unflatten
   kind 2: mlr --ijson --ojson --flatsep SEP flatten then unflatten
   kind 3: JSON -> non-nesting format -> JSON through two mlr runs (auto-flatten, then auto-unflatten),
           on records whose leaves survive the text trip unchanged
   kind 4: mlr ... flatten -f FS          kind 5: mlr ... unflatten -f FS (crashed = the run ended with
           "Internal coding error detected")          kind 6: flatten -f FS then unflatten -f FS *)
Definition run_model (kind : Z) (sep : bytes) (fs : list bytes) (r : jmap) : option jmap :=
  if kind =? 0 then Some (flatten sep r)
  else if kind =? 1 then Some (unflatten sep r)
  else if kind =? 2 then Some (unflatten sep (flatten sep r))
  else if kind =? 3 then Some (auto_convert sep (B "csv") (B "json") (B "cat") (auto_convert sep (B "json") (B "csv") (B "cat") r))
  else if kind =? 4 then Some (flatten_fields fs sep r)
  else if kind =? 5 then unflatten_fields fs sep r
  else unflatten_fields fs sep (flatten_fields fs sep r).

Definition chk (c : Z * bytes * list bytes * jmap * bool * jmap) : bool :=
  let '(kind, sep, fs, r, crashed, obs) := c in
  match run_model kind sep fs r with
  | Some m => negb crashed && jmap_eqb m obs
  | None => crashed
  end.
