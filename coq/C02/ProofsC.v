(* C02 proofs, part C: CopyUnflattened rebuilds the value from its (path, leaf) entries; Arrayify restores arrays. *)
From Miller Require Import Base.Bytes Base.Record C02.Model C02.Spec C02.ProofsA C02.ProofsB.
Open Scope char_scope.

(* path-level step on `other` *)
Definition pstep_o (o : jmap) (e : list bytes * jv) : jmap :=
  match pim (fst e) (ut (snd e)) o with Some o' => o' | None => o end.

(* path-level step on the affected-base list *)
Definition astep (a : list bytes) (e : list bytes * jv) : list bytes :=
  if (2 <=? List.length (fst e))%nat then (if bmem (hd [] (fst e)) a then a else a ++ [hd [] (fst e)]) else a.

Lemma pim_nil_some q v : q <> [] -> pim q v [] <> None.
Proof.
  induction q as [|k q IH]; intros H; [congruence|].
  destruct q as [|k2 q]; [discriminate|].
  change (pim (k :: k2 :: q) v []) with
    (match pim (k2 :: q) v [] with None => None | Some mm' => Some (jput k (JMap mm') []) end).
  destruct (pim (k2 :: q) v []) eqn:E; [discriminate|]. exfalso. now apply IH.
Qed.

(* navigating through an existing map *)
Lemma pstep_nav k q leaf M mm :
  q <> [] -> jget k M = Some (JMap mm) ->
  pstep_o M (k :: q, leaf) = jput k (JMap (pstep_o mm (q, leaf))) M.
Proof.
  intros Hq Hg. unfold pstep_o; cbn [fst snd].
  destruct q as [|k2 q]; [congruence|].
  change (pim (k :: k2 :: q) (ut leaf) M) with
    (match (match jget k M with
            | None => Some [] | Some (JMap mm) => Some mm | Some (JArr _) => None | Some _ => Some [] end) with
     | None => None
     | Some mm0 => match pim (k2 :: q) (ut leaf) mm0 with None => None | Some mm' => Some (jput k (JMap mm') M) end
     end).
  rewrite Hg. destruct (pim (k2 :: q) (ut leaf) mm); [reflexivity|]. symmetry. now apply jput_same.
Qed.

Lemma fold_nav k es : forall M mm,
  (forall e, In e es -> fst e <> []) -> jget k M = Some (JMap mm) ->
  fold_left pstep_o (map (pcons k) es) M = jput k (JMap (fold_left pstep_o es mm)) M.
Proof.
  induction es as [|[q leaf] es IH]; intros M mm Hne Hg; cbn [map fold_left].
  - symmetry. now apply jput_same.
  - change (pcons k (q, leaf)) with (k :: q, leaf). rewrite (pstep_nav k q leaf M mm); [|apply (Hne (q, leaf)); now left|exact Hg].
    rewrite (IH _ (pstep_o mm (q, leaf))).
    + now rewrite jput_jput.
    + intros e Hin. apply Hne. now right.
    + apply jget_jput_same.
Qed.

(* creating the map for a fresh key *)
Lemma fold_fresh k es M :
  es <> [] -> (forall e, In e es -> fst e <> []) -> ~ In k (map fst M) ->
  fold_left pstep_o (map (pcons k) es) M = M ++ [(k, JMap (fold_left pstep_o es []))].
Proof.
  intros Hes Hne Hk. destruct es as [|[q leaf] es]; [congruence|].
  cbn [map fold_left]. change (pcons k (q, leaf)) with (k :: q, leaf).
  assert (Hq : q <> []) by (apply (Hne (q, leaf)); now left).
  assert (H1 : pstep_o M (k :: q, leaf) = M ++ [(k, JMap (pstep_o [] (q, leaf)))]).
  { unfold pstep_o; cbn [fst snd]. destruct q as [|k2 q]; [congruence|].
    change (pim (k :: k2 :: q) (ut leaf) M) with
      (match (match jget k M with
              | None => Some [] | Some (JMap mm) => Some mm | Some (JArr _) => None | Some _ => Some [] end) with
       | None => None
       | Some mm0 => match pim (k2 :: q) (ut leaf) mm0 with None => None | Some mm' => Some (jput k (JMap mm') M) end
       end).
    rewrite (jget_notin k M Hk).
    destruct (pim (k2 :: q) (ut leaf) []) eqn:E.
    - now apply jput_absent.
    - exfalso. revert E. apply pim_nil_some. discriminate. }
  rewrite H1. rewrite (fold_nav k es _ (pstep_o [] (q, leaf))).
  - now apply jput_app_last.
  - intros e Hin. apply Hne. now right.
  - now apply jget_app_last.
Qed.

Lemma ents_of_kids_paths_nonnil ks e : In e (ents_of_kids ks) -> fst e <> [].
Proof.
  unfold ents_of_kids. intros H. apply in_flat_map in H. destruct H as (kx & _ & H).
  apply in_map_iff in H. destruct H as (e' & <- & _). discriminate.
Qed.

Lemma ut_leafrep v : is_nil (kids v) = true -> no_sentinel_node v = true -> ut (leafrep v) = v.
Proof.
  destruct v as [s|t|b| |m|l]; cbn; try reflexivity.
  - intros _ H. apply andb_true_iff in H. destruct H as [H1 H2].
    apply negb_true_iff in H1, H2. now rewrite H1, H2.
  - destruct m; [reflexivity|discriminate].
  - destruct l; [reflexivity|discriminate].
Qed.

(* the value is rebuilt, with arrays still as maps *)
Lemma build_list (Q : jv -> Prop) ks :
  (forall kx, In kx ks -> forall M, ~ In (fst kx) (map fst M) ->
       fold_left pstep_o (map (pcons (fst kx)) (ents (snd kx))) M = M ++ [(fst kx, mapify (snd kx))]) ->
  forall M, NoDup (map fst M ++ map fst ks) ->
  fold_left pstep_o (ents_of_kids ks) M = M ++ map (fun kx => (fst kx, mapify (snd kx))) ks.
Proof.
  unfold ents_of_kids. induction ks as [|[k x] ks IH]; intros HQ M Hnd; cbn [flat_map map]; [now rewrite app_nil_r|].
  rewrite fold_left_app. cbn [fst snd].
  rewrite (HQ (k, x)); [|now left|].
  - cbn [fst snd]. rewrite IH.
    + now rewrite <- app_assoc.
    + intros kx Hin. apply HQ. now right.
    + rewrite map_app, <- app_assoc. exact Hnd.
  - cbn [fst]. intros Hin. apply (NoDup_app_disj _ _ _ Hnd Hin). now left.
Qed.

Lemma build : forall v,
  jall wf_node v = true -> jall no_sentinel_node v = true ->
  forall k M, ~ In k (map fst M) ->
  fold_left pstep_o (map (pcons k) (ents v)) M = M ++ [(k, mapify v)].
Proof.
  induction v as [v IH] using jv_size_ind. intros Hwf Hns k M Hk.
  rewrite ents_eq, mapify_eq. destruct (is_nil (kids v)) eqn:En.
  - cbn [map fold_left]. unfold pcons, pstep_o; cbn [fst snd pim].
    rewrite ut_leafrep; [|exact En|now apply jall_node]. now apply jput_absent.
  - rewrite fold_fresh.
    + f_equal. f_equal. f_equal.
      rewrite (build_list (fun _ => True) (kids v)); [reflexivity| |].
      * intros kx Hin M' HM'. apply IH; [exact Hin|now apply (jall_kid _ v)|now apply (jall_kid _ v)|exact HM'].
      * cbn [map app]. apply kids_nodup. now apply jall_node.
    + apply ents_of_kids_nonnil; [now apply is_nil_false|]. intros kx _. apply ents_nonnil.
    + intros e. apply ents_of_kids_paths_nonnil.
    + exact Hk.
Qed.

Lemma build_rec r :
  wf_rec r = true -> no_sentinel_rec r = true ->
  fold_left pstep_o (ents_of_kids r) [] = map (fun kx => (fst kx, mapify (snd kx))) r.
Proof.
  unfold wf_rec, no_sentinel_rec, rall. intros Hwf Hns. apply andb_true_iff in Hwf. destruct Hwf as [Hnd Hwf].
  rewrite forallb_forall in Hwf, Hns.
  rewrite (build_list (fun _ => True) r); [reflexivity| |].
  - intros kx Hin M HM. apply build; auto.
  - cbn [map app]. now apply nodupb_NoDup.
Qed.

(* ---------- Arrayify undoes mapify ---------- *)
Lemma seqkeys_indexed_id i l : seqkeys i (indexed i l) = true.
Proof. revert i; induction l as [|x l IH]; intros i; cbn; [reflexivity|]. now rewrite beqb_refl, IH. Qed.

Lemma map_snd_indexed_id i l : map snd (indexed i l) = l.
Proof. revert i; induction l as [|x l IH]; intros i; cbn; [reflexivity|]. now rewrite IH. Qed.

Lemma arrayify_mapify : forall v, jall no_intkeyed_node v = true -> arrayify (mapify v) = v.
Proof.
  induction v as [v IH] using jv_size_ind. intros H.
  rewrite mapify_eq. destruct (is_nil (kids v)) eqn:En.
  - destruct v as [s|t|b| |m|l]; try reflexivity. destruct m; [reflexivity|discriminate].
  - assert (Hmap : map (fun kx => (fst kx, arrayify (snd kx))) (map (fun kx => (fst kx, mapify (snd kx))) (kids v)) = kids v).
    { rewrite map_map. cbn [fst snd]. rewrite <- (map_id (kids v)) at 2. apply map_ext_in.
      intros [k x] Hin. cbn [fst snd]. f_equal. apply (IH (k, x) Hin). now apply (jall_kid _ v _ H Hin). }
    rewrite arrayify_eq.
    replace (is_nil (map (fun kx => (fst kx, mapify (snd kx))) (kids v))) with false
      by (destruct (kids v); [discriminate|reflexivity]).
    rewrite seqkeys_map_snd. rewrite Hmap.
    destruct v as [s|t|b| |m|l]; try discriminate.
    + cbn [kids] in *. apply jall_node in H. cbn [no_intkeyed_node] in H.
      destruct m as [|p m]; [discriminate|]. cbn [is_nil orb] in H. apply negb_true_iff in H. now rewrite H.
    + cbn [kids] in *. rewrite seqkeys_indexed_id. f_equal. apply map_snd_indexed_id.
Qed.

(* ---------- the affected list and the final pass ---------- *)
Lemma bmem_In k l : bmem k l = true <-> In k l.
Proof. exact (mem_In k l). Qed.

Lemma astep_nodup es : forall a, NoDup a -> NoDup (fold_left astep es a).
Proof.
  induction es as [|e es IH]; intros a Ha; cbn; [exact Ha|]. apply IH. unfold astep.
  destruct (2 <=? List.length (fst e))%nat; [|exact Ha].
  destruct (bmem (hd [] (fst e)) a) eqn:E; [exact Ha|].
  apply NoDup_app_intro; [exact Ha|constructor; [intros []|constructor]|].
  intros x Hx [<-|[]]. apply bmem_In in Hx. congruence.
Qed.

Lemma astep_mono es : forall a x, In x a -> In x (fold_left astep es a).
Proof.
  induction es as [|e es IH]; intros a x Hx; cbn; [exact Hx|]. apply IH. unfold astep.
  destruct (2 <=? List.length (fst e))%nat; [|exact Hx].
  destruct (bmem (hd [] (fst e)) a); [exact Hx|]. apply in_app_iff. now left.
Qed.

Lemma astep_adds es : forall a e, In e es -> (2 <= List.length (fst e))%nat -> In (hd [] (fst e)) (fold_left astep es a).
Proof.
  induction es as [|e0 es IH]; intros a e Hin Hlen; [contradiction|]. cbn [fold_left].
  destruct Hin as [->|Hin]; [|now apply IH].
  apply astep_mono. unfold astep. apply Nat.leb_le in Hlen.
  match goal with |- context [if ?c then _ else a] => replace c with true end.
  match goal with |- context [if ?c then a else _] => destruct c eqn:E end;
    [apply bmem_In; exact E|]. apply in_app_iff. right. now left.
Qed.

Definition upd_if (aff : list bytes) (kv : bytes * jv) : bytes * jv :=
  (fst kv, if bmem (fst kv) aff then arrayify (snd kv) else snd kv).

Lemma arrayify_at_map m b :
  NoDup (map fst m) -> arrayify_at m b = map (upd_if [b]) m.
Proof.
  unfold arrayify_at. induction m as [|[k v] m IH]; intros Hnd; [reflexivity|].
  inversion Hnd as [|? ? Hk Hnd']; subst. cbn [jget map]. unfold upd_if at 1; cbn [fst snd bmem existsb].
  destruct (beqb_spec b k) as [->|Hne].
  - rewrite beqb_refl. cbn [orb jput]. rewrite beqb_refl. f_equal.
    rewrite <- (map_id m) at 1. apply map_ext_in. intros [k' v'] Hin. unfold upd_if; cbn [fst snd bmem existsb].
    destruct (beqb_spec k' k) as [->|]; [|reflexivity]. exfalso. apply Hk. now apply (in_map fst _ (k, v')).
  - assert (E : beqb k b = false) by (destruct (beqb_spec k b); [congruence|reflexivity]).
    rewrite E. cbn [orb]. specialize (IH Hnd').
    destruct (jget b m) eqn:Eg.
    + cbn [jput]. destruct (beqb_spec b k); [congruence|]. now rewrite IH.
    + rewrite <- IH. reflexivity.
Qed.

Lemma arrayify_pass aff : forall m,
  NoDup (map fst m) -> NoDup aff -> fold_left arrayify_at aff m = map (upd_if aff) m.
Proof.
  induction aff as [|b aff IH]; intros m Hm Ha; cbn [fold_left].
  - rewrite <- (map_id m) at 1. apply map_ext. now intros [k v].
  - inversion Ha as [|? ? Hb Ha']; subst. rewrite arrayify_at_map by exact Hm.
    rewrite IH; [|rewrite map_map; cbn [upd_if fst]; exact Hm|exact Ha'].
    rewrite map_map. apply map_ext. intros [k v]. unfold upd_if; cbn [fst snd].
    assert (Eb : bmem b aff = false).
    { destruct (bmem b aff) eqn:E; [|reflexivity]. exfalso. apply Hb. now apply bmem_In. }
    change (bmem k (b :: aff)) with (beqb k b || bmem k aff).
    change (bmem k [b]) with (beqb k b || false).
    destruct (beqb_spec k b) as [->|Hne]; cbn [orb].
    + now rewrite Eb.
    + reflexivity.
Qed.
