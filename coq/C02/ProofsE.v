(* C02 proofs, part E: the order in which Go ranges over affectedBaseIndices (a Go map) does not matter. *)
From Coq Require Import Permutation.
From Miller Require Import Base.Bytes Base.Record C02.Model C02.Spec C02.ProofsA C02.ProofsB C02.ProofsC.

Lemma arrayify_order_irrelevant aff aff' m :
  NoDup (map fst m) -> NoDup aff -> Permutation aff aff' ->
  fold_left arrayify_at aff m = fold_left arrayify_at aff' m.
Proof.
  intros Hm Ha Hp. rewrite (arrayify_pass aff m Hm Ha).
  rewrite (arrayify_pass aff' m Hm (Permutation_NoDup Hp Ha)).
  apply map_ext. intros [k v]. unfold upd_if; cbn [fst snd].
  assert (E : bmem k aff = bmem k aff').
  { destruct (bmem k aff) eqn:E1, (bmem k aff') eqn:E2; try reflexivity.
    - apply bmem_In in E1. apply (Permutation_in _ Hp) in E1. apply bmem_In in E1. congruence.
    - apply bmem_In in E2. apply (Permutation_in _ (Permutation_sym Hp)) in E2. apply bmem_In in E2. congruence. }
  now rewrite E.
Qed.

Lemma jput_keys_in x k v m : In x (map fst (jput k v m)) -> x = k \/ In x (map fst m).
Proof.
  induction m as [|[k' v'] m IH]; cbn.
  - intros [<-|[]]. now left.
  - destruct (beqb k k'); cbn; intros [<-|H]; auto. destruct (IH H); auto.
Qed.

Lemma jput_keys_nodup k v m : NoDup (map fst m) -> NoDup (map fst (jput k v m)).
Proof.
  induction m as [|[k' v'] m IH]; cbn; intros H.
  - constructor; [intros []|constructor].
  - inversion H as [|? ? Hn H']; subst. destruct (beqb_spec k k') as [->|Hne]; cbn; constructor; auto.
    intros Hin. destruct (jput_keys_in _ _ _ _ Hin); [congruence|contradiction].
Qed.

Lemma pim_is_jput idx v m o : pim idx v m = Some o -> exists k x, o = jput k x m.
Proof.
  destruct idx as [|k [|k2 rest]].
  - intros H; cbn in H; discriminate H.
  - intros H; cbn in H. injection H as <-. eauto.
  - intros H.
    change (pim (k :: k2 :: rest) v m) with
      (match (match jget k m with
              | None => Some [] | Some (JMap mm) => Some mm | Some (JArr _) => None | Some _ => Some [] end) with
       | None => None
       | Some mm0 => match pim (k2 :: rest) v mm0 with None => None | Some mm' => Some (jput k (JMap mm') m) end
       end) in H.
    destruct (match jget k m with
              | None => Some [] | Some (JMap mm) => Some mm | Some (JArr _) => None | Some _ => Some [] end) as [mm|];
      [|discriminate H].
    destruct (pim (k2 :: rest) v mm) as [mm'|]; [|discriminate H]. injection H as <-. eauto.
Qed.

Lemma unflatten_step_nodup sep o a kv :
  NoDup (map fst o) -> NoDup a ->
  NoDup (map fst (fst (unflatten_step sep (o, a) kv))) /\ NoDup (snd (unflatten_step sep (o, a) kv)).
Proof.
  intros Ho Ha. destruct kv as [k v]. unfold unflatten_step.
  destruct (negb (containsb sep k)); cbn [fst snd]; [split; [now apply jput_keys_nodup|exact Ha]|].
  destruct (existsb is_nil (split sep k)); cbn [fst snd]; [split; [now apply jput_keys_nodup|exact Ha]|].
  split.
  - destruct (pim (split sep k) (ut v) o) as [o'|] eqn:E; [|exact Ho].
    destruct (pim_is_jput _ _ _ _ E) as (k' & x & ->). now apply jput_keys_nodup.
  - destruct (bmem (hd [] (split sep k)) a) eqn:E; [exact Ha|].
    apply NoDup_app_intro; [exact Ha|constructor; [intros []|constructor]|].
    intros y Hy [<-|[]]. apply bmem_In in Hy. congruence.
Qed.

Lemma unflatten_fold_nodup sep r : forall st,
  NoDup (map fst (fst st)) -> NoDup (snd st) ->
  NoDup (map fst (fst (fold_left (unflatten_step sep) r st))) /\ NoDup (snd (fold_left (unflatten_step sep) r st)).
Proof.
  induction r as [|kv r IH]; intros [o a] Ho Ha; cbn [fold_left]; [split; assumption|].
  cbn [fst snd] in Ho, Ha. destruct (unflatten_step_nodup sep o a kv Ho Ha) as [H1 H2]. now apply IH.
Qed.

(* whatever order the runtime picks for the affected base names, CopyUnflattened returns what the model returns *)
Theorem unflatten_order_irrelevant sep r aff' :
  Permutation (snd (fold_left (unflatten_step sep) r ([], []))) aff' ->
  fold_left arrayify_at aff' (fst (fold_left (unflatten_step sep) r ([], []))) = unflatten sep r.
Proof.
  intros Hp. unfold unflatten.
  destruct (unflatten_fold_nodup sep r ([], [])) as [H1 H2]; [constructor|constructor|].
  destruct (fold_left (unflatten_step sep) r ([], [])) as [o a]. cbn [fst snd] in *.
  symmetry. now apply arrayify_order_irrelevant.
Qed.
