(* C02, flag-table part: the checks of FlagSpec.v decided over the table REGENERATED from /repo on every run.
   [vm_compute; reflexivity] is a genuine proof here: the domain (every entry of FLAG_TABLE, every alias, every
   format name, four contexts) is finite and enumerated completely in gen/Gen_Flags.v.

   Style note: every fact that is decided by computation is stated in exactly the syntactic form in which it is used
   below (a [forallb ...] or a [mem ...]), so that no step asks the kernel to convert two large closed terms by lazy
   reduction (that would take minutes; vm_compute takes a second). *)
From Miller Require Import Base.Bytes Base.Record gen.Gen_Flags C02.FlagSpec.

(* ------------------------------------------------------------------ decided facts: the checks as a whole *)
Lemma gen_wellformed_true : gen_wellformed = true.
Proof. vm_compute; reflexivity. Qed.

Lemma keystroke_savers_ok_true : keystroke_savers_ok = true.
Proof. vm_compute; reflexivity. Qed.

Lemma keystroke_savers_prefix_ok_partial_true : keystroke_savers_prefix_ok_partial = true.
Proof. vm_compute; reflexivity. Qed.

Lemma ks_prefix_sensitive_exact_true : ks_prefix_sensitive_exact = true.
Proof. vm_compute; reflexivity. Qed.

Lemma io_pairs_ok_true : io_pairs_ok = true.
Proof. vm_compute; reflexivity. Qed.

Lemma io_forms_ok_true : io_forms_ok = true.
Proof. vm_compute; reflexivity. Qed.

Lemma sep_aliases_ok_true : sep_aliases_ok = true.
Proof. vm_compute; reflexivity. Qed.

Lemma default_seps_ok_true : default_seps_ok = true.
Proof. vm_compute; reflexivity. Qed.

Lemma alt_names_ok_true : alt_names_ok = true.
Proof. vm_compute; reflexivity. Qed.

Lemma legacy_noop_ok_true : legacy_noop_ok = true.
Proof. vm_compute; reflexivity. Qed.

(* ------------------------------------------------------------------ generic glue *)
Lemma forallb_In {A} (f : A -> bool) l : forallb f l = true -> forall x, In x l -> f x = true.
Proof. intros H. apply (proj1 (forallb_forall f l) H). Qed.

Lemma nonemptyb_spec {A} (l : list A) : nonemptyb l = true -> l <> [].
Proof. destruct l; [discriminate|congruence]. Qed.

Lemma record_eqb_true a b : record_eqb a b = true -> a = b.
Proof. destruct (record_eqb_spec a b); [auto|discriminate]. Qed.

Lemma equiv_in_spec a b t : equiv_in a b t = true -> equivalent_in_context a b t.
Proof.
  unfold equiv_in, equivalent_in_context.
  destruct (effect (a ++ t)) as [x|]; [|discriminate].
  destruct (effect (b ++ t)) as [y|]; [|discriminate].
  intros H. exists x, y. auto.
Qed.

Lemma equiv_ctx_spec a b : equiv_ctx a b = true -> forall t, In t ctx_tails -> equivalent_in_context a b t.
Proof. intros H t Ht. apply equiv_in_spec. exact (forallb_In _ _ H t Ht). Qed.

Lemma same_effect_spec a b : same_effect a b = true -> identical_effect a b.
Proof.
  unfold same_effect, identical_effect.
  destruct (effect a) as [x|]; [|discriminate].
  destruct (effect b) as [y|]; [|discriminate].
  intros H. apply record_eqb_true in H. subst. exists y. auto.
Qed.

(* ------------------------------------------------------------------ (1) keystroke savers *)
Lemma ks_all : forallb ks_check keystroke_spellings = true.
Proof. vm_compute; reflexivity. Qed.

(* every documented keystroke saver of the table is equivalent to its documented expansion, in each (tail) context *)
Lemma keystroke_savers_equal_expansion :
  forall s e t, In s all_spellings -> expansion_of_name s = Some e -> In t ctx_tails ->
  equivalent_in_context [s] e t.
Proof.
  intros s e t Hs He Ht.
  assert (Hin : In s keystroke_spellings).
  { unfold keystroke_spellings. apply filter_In. split; [exact Hs|]. rewrite He. reflexivity. }
  pose proof (forallb_In _ _ ks_all s Hin) as H. cbv beta in H.
  unfold ks_check in H. rewrite He in H. exact (equiv_ctx_spec _ _ H t Ht).
Qed.

(* prefix contexts *)
Lemma equiv_pre_spec p a b : equiv_pre p a b = true -> equivalent_in_context (p ++ a) (p ++ b) [].
Proof.
  unfold equiv_pre, equivalent_in_context. rewrite !app_nil_r.
  destruct (effect (p ++ a)) as [x|]; [|discriminate]. destruct (effect (p ++ b)) as [y|]; [|discriminate].
  intros H. exists x, y. auto.
Qed.

Lemma ks_prefix_partial_all :
  forallb (fun s => mem s ks_prefix_sensitive || ks_prefix_check s) keystroke_spellings = true.
Proof. vm_compute; reflexivity. Qed.

Lemma keystroke_savers_prefix_partial :
  forall s e p, In s all_spellings -> expansion_of_name s = Some e -> ~ In s ks_prefix_sensitive -> In p ctx_prefixes ->
  equivalent_in_context (p ++ [s]) (p ++ e) [].
Proof.
  intros s e p Hs He Hnb Hp.
  assert (Hin : In s keystroke_spellings).
  { unfold keystroke_spellings. apply filter_In. split; [exact Hs|]. rewrite He. reflexivity. }
  pose proof (forallb_In _ _ ks_prefix_partial_all s Hin) as H. cbv beta in H.
  destruct (mem s ks_prefix_sensitive) eqn:Em.
  - apply mem_In in Em. contradiction.
  - cbn [orb] in H. unfold ks_prefix_check in H. rewrite He in H.
    exact (equiv_pre_spec _ _ _ (forallb_In _ _ H p Hp)).
Qed.

(* full strength: no spelling is excluded *)
Lemma keystroke_savers_prefix :
  forall s e p, In s all_spellings -> expansion_of_name s = Some e -> In p ctx_prefixes ->
  equivalent_in_context (p ++ [s]) (p ++ e) [].
Proof. intros s e p Hs He Hp. apply keystroke_savers_prefix_partial; auto. Qed.

(* the 16 spellings of the former finding, under the prefix that used to tell them apart *)
Lemma ks_former_prefix_sensitive_fixed :
  forallb (fun s => mem s keystroke_spellings
                    && match expansion_of_name s with Some e => equiv_pre [B "--ofs"; B ";"] [s] e | None => false end)
    [ B "--t2t"; B "--c2t"; B "--j2t"; B "--l2t"; B "--m2t"; B "--n2t"; B "--p2t"; B "--x2t"; B "--y2t";
      B "--n2n"; B "--j2n"; B "--l2n"; B "--m2n"; B "--p2n"; B "--x2n"; B "--y2n" ] = true.
Proof. vm_compute; reflexivity. Qed.

(* the quantification above is not empty and covers the documented matrix *)
Lemma ks_section_nonempty : nonemptyb (section_names ks_section) = true.
Proof. vm_compute; reflexivity. Qed.
Lemma ks_section_all_documented : forallb (fun n => is_some (expansion_of_name n)) (section_names ks_section) = true.
Proof. vm_compute; reflexivity. Qed.
Lemma ks_matrix_all :
  forallb (fun x => forallb (fun y => (Ascii.eqb x "m" && Ascii.eqb y "m") || mem (matrix_name x y) all_spellings) letters) letters = true.
Proof. vm_compute; reflexivity. Qed.
Lemma ks_p_present : mem (B "-p") all_spellings = true.
Proof. vm_compute; reflexivity. Qed.
Lemma ks_T_present : mem (B "-T") all_spellings = true.
Proof. vm_compute; reflexivity. Qed.

Lemma keystroke_domain :
  section_names ks_section <> []
  /\ (forall n, In n (section_names ks_section) -> exists e, expansion_of_name n = Some e)
  /\ (forall x y, In x letters -> In y letters -> (x, y) <> ("m"%char, "m"%char) -> In (matrix_name x y) all_spellings)
  /\ In (B "-p") all_spellings /\ In (B "-T") all_spellings.
Proof.
  split; [|split; [|split; [|split]]].
  - exact (nonemptyb_spec _ ks_section_nonempty).
  - intros n Hn. pose proof (forallb_In _ _ ks_section_all_documented n Hn) as H. cbv beta in H.
    destruct (expansion_of_name n) as [e|]; [eauto|discriminate].
  - intros x y Hx Hy Hne.
    pose proof (forallb_In _ _ (forallb_In _ _ ks_matrix_all x Hx) y Hy) as H. cbv beta in H.
    apply orb_true_iff in H. destruct H as [H|H].
    + apply andb_true_iff in H. destruct H as [H1 H2].
      apply Ascii.eqb_eq in H1. apply Ascii.eqb_eq in H2. subst. congruence.
    + apply mem_In. exact H.
  - apply mem_In. exact ks_p_present.
  - apply mem_In. exact ks_T_present.
Qed.

Lemma io_pairs_all : forallb io_pair_check io_pair_names = true.
Proof. vm_compute; reflexivity. Qed.
Lemma io_pairs_present :
  forallb (fun x => mem (pre "--" x) all_spellings && mem (pre "--i" x) all_spellings && mem (pre "--o" x) all_spellings)
          io_pair_names = true.
Proof. vm_compute; reflexivity. Qed.

Lemma io_pairs_equal :
  forall x t, In x io_pair_names -> In t ctx_tails ->
  In (pre "--" x) all_spellings /\ equivalent_in_context [pre "--" x] [pre "--i" x; pre "--o" x] t.
Proof.
  intros x t Hx Ht. split.
  - pose proof (forallb_In _ _ io_pairs_present x Hx) as H. cbv beta in H.
    apply andb_true_iff in H. destruct H as [H _]. apply andb_true_iff in H. destruct H as [H _]. apply mem_In. exact H.
  - exact (equiv_ctx_spec _ _ (forallb_In _ _ io_pairs_all x Hx) t Ht).
Qed.

(* ------------------------------------------------------------------ (3) -i X = --iX, -o X = --oX, --io X = --X *)
Lemma io_forms_all :
  forallb (fun x => io_form_check (B "-i") "--i" x && io_form_check (B "-o") "--o" x && io_form_check (B "--io") "--" x)
          format_names = true.
Proof. vm_compute; reflexivity. Qed.
Lemma io_forms_core_present :
  forallb (fun x => mem (pre "--i" x) all_spellings && mem (pre "--o" x) all_spellings && mem (pre "--" x) all_spellings)
          core_format_names = true.
Proof. vm_compute; reflexivity. Qed.

Lemma io_form_check_spec short lp x t :
  io_form_check short lp x = true -> In (pre lp x) all_spellings -> In t ctx_tails ->
  equivalent_in_context [short; x] [pre lp x] t.
Proof.
  intros Hc Hin Ht. unfold io_form_check, has_spelling in Hc. apply mem_In in Hin. rewrite Hin in Hc.
  cbn [negb orb] in Hc. exact (equiv_ctx_spec _ _ Hc t Ht).
Qed.

(* for every format name (documented list and regenerated defaultFSes keys) for which the long flag exists *)
Lemma io_forms_equal :
  forall x t, In x format_names -> In t ctx_tails ->
     (In (pre "--i" x) all_spellings -> equivalent_in_context [B "-i"; x] [pre "--i" x] t)
  /\ (In (pre "--o" x) all_spellings -> equivalent_in_context [B "-o"; x] [pre "--o" x] t)
  /\ (In (pre "--" x) all_spellings -> equivalent_in_context [B "--io"; x] [pre "--" x] t).
Proof.
  intros x t Hx Ht. pose proof (forallb_In _ _ io_forms_all x Hx) as H. cbv beta in H.
  apply andb_true_iff in H. destruct H as [H H3]. apply andb_true_iff in H. destruct H as [H1 H2].
  split; [|split]; intros Hin.
  - exact (io_form_check_spec _ _ _ _ H1 Hin Ht).
  - exact (io_form_check_spec _ _ _ _ H2 Hin Ht).
  - exact (io_form_check_spec _ _ _ _ H3 Hin Ht).
Qed.

Lemma io_forms_domain :
  forall x, In x core_format_names ->
  In (pre "--i" x) all_spellings /\ In (pre "--o" x) all_spellings /\ In (pre "--" x) all_spellings.
Proof.
  intros x Hx. pose proof (forallb_In _ _ io_forms_core_present x Hx) as H. cbv beta in H.
  apply andb_true_iff in H. destruct H as [H H3]. apply andb_true_iff in H. destruct H as [H1 H2].
  split; [|split]; apply mem_In; assumption.
Qed.

(* ------------------------------------------------------------------ (4) named separators *)
Lemma sep_alias_table_eq : record_eqb gen_sep_aliases doc_sep_aliases = true.
Proof. vm_compute; reflexivity. Qed.
Lemma sep_regex_alias_table_eq : record_eqb gen_sep_regex_aliases doc_sep_regex_aliases = true.
Proof. vm_compute; reflexivity. Qed.
Lemma sep_alias_all : forallb (alias_check sep_flags) gen_sep_aliases = true.
Proof. vm_compute; reflexivity. Qed.
Lemma sep_regex_alias_all : forallb (alias_check sep_regex_flags) gen_sep_regex_aliases = true.
Proof. vm_compute; reflexivity. Qed.

(* the alias tables of the implementation are the documented ones ... *)
Lemma sep_alias_tables_documented :
  gen_sep_aliases = doc_sep_aliases /\ gen_sep_regex_aliases = doc_sep_regex_aliases.
Proof. split; apply record_eqb_true; [exact sep_alias_table_eq|exact sep_regex_alias_table_eq]. Qed.

(* ... and every alias has exactly the effect of its documented literal, with every separator flag *)
Lemma sep_aliases_equal :
  forall n l f, In (n, l) doc_sep_aliases -> In f sep_flags -> identical_effect [f; n] [f; l].
Proof.
  intros n l f Hnl Hf. rewrite <- (proj1 sep_alias_tables_documented) in Hnl.
  pose proof (forallb_In _ _ sep_alias_all (n, l) Hnl) as H. unfold alias_check in H.
  exact (same_effect_spec _ _ (forallb_In _ _ H f Hf)).
Qed.

Lemma sep_regex_aliases_equal :
  forall n l f, In (n, l) doc_sep_regex_aliases -> In f sep_regex_flags -> identical_effect [f; n] [f; l].
Proof.
  intros n l f Hnl Hf. rewrite <- (proj2 sep_alias_tables_documented) in Hnl.
  pose proof (forallb_In _ _ sep_regex_alias_all (n, l) Hnl) as H. unfold alias_check in H.
  exact (same_effect_spec _ _ (forallb_In _ _ H f Hf)).
Qed.

Lemma default_fs_eq : record_eqb gen_default_fs (map (fun d => (fst d, fst (fst (snd d)))) doc_default_seps) = true.
Proof. vm_compute; reflexivity. Qed.
Lemma default_ps_eq : record_eqb gen_default_ps (map (fun d => (fst d, snd (fst (snd d)))) doc_default_seps) = true.
Proof. vm_compute; reflexivity. Qed.
Lemma default_rs_eq : record_eqb gen_default_rs (map (fun d => (fst d, snd (snd d))) doc_default_seps) = true.
Proof. vm_compute; reflexivity. Qed.

Lemma default_separators_documented :
  gen_default_fs = map (fun d => (fst d, fst (fst (snd d)))) doc_default_seps
  /\ gen_default_ps = map (fun d => (fst d, snd (fst (snd d)))) doc_default_seps
  /\ gen_default_rs = map (fun d => (fst d, snd (snd d))) doc_default_seps.
Proof. split; [|split]; apply record_eqb_true; [exact default_fs_eq|exact default_ps_eq|exact default_rs_eq]. Qed.

(* ------------------------------------------------------------------ (5) alternate names, legacy no-ops *)
Lemma alt_all : forallb alt_check gen_flag_table = true.
Proof. vm_compute; reflexivity. Qed.
Lemma alt_some : nonemptyb (filter (fun f => nonemptyb (falts f)) gen_flag_table) = true.
Proof. vm_compute; reflexivity. Qed.

(* every alternate name of every flag of the table has exactly the effect of the primary name *)
Lemma alt_names_equal_noarg :
  forall f a, In f gen_flag_table -> farg f = [] -> In a (falts f) -> identical_effect [a] [fname f].
Proof.
  intros f a Hf Harg Ha. pose proof (forallb_In _ _ alt_all f Hf) as H. unfold alt_check in H.
  pose proof (forallb_In _ _ H a Ha) as H'. cbv beta in H'. rewrite Harg in H'. exact (same_effect_spec _ _ H').
Qed.

Lemma alt_names_equal_arg :
  forall f a, In f gen_flag_table -> farg f <> [] -> In a (falts f) ->
  exists v, identical_effect [a; v] [fname f; v].
Proof.
  intros f a Hf Harg Ha. pose proof (forallb_In _ _ alt_all f Hf) as H. unfold alt_check in H.
  pose proof (forallb_In _ _ H a Ha) as H'. cbv beta in H'.
  destruct (farg f) as [|c r]; [congruence|].
  destruct (sample_arg (fname f)) as [v|]; [|discriminate].
  exists v. exact (same_effect_spec _ _ H').
Qed.

Lemma legacy_nonempty : nonemptyb (section_names legacy_section) = true.
Proof. vm_compute; reflexivity. Qed.
Lemma legacy_all : forallb (fun n => same_effect [n] []) (section_names legacy_section) = true.
Proof. vm_compute; reflexivity. Qed.

Lemma legacy_flags_are_noops :
  section_names legacy_section <> [] /\ forall n, In n (section_names legacy_section) -> identical_effect [n] [].
Proof.
  split.
  - exact (nonemptyb_spec _ legacy_nonempty).
  - intros n Hn. exact (same_effect_spec _ _ (forallb_In _ _ legacy_all n Hn)).
Qed.
