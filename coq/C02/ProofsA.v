(* C02 proofs, part A: association-list facts, unfolding equations of the nested fixpoints, itoa, size induction. *)
From Coq Require Import DecimalString DecimalN DecimalPos.
From Miller Require Import Base.Bytes Base.Record C02.Model C02.Spec.
Open Scope char_scope.

(* ---------- lists ---------- *)
Lemma NoDup_app_intro {A} (a b : list A) :
  NoDup a -> NoDup b -> (forall x, In x a -> ~ In x b) -> NoDup (a ++ b).
Proof.
  induction a as [|x a IH]; intros Ha Hb Hd; cbn; [exact Hb|].
  inversion Ha as [|? ? Hx Ha']; subst. constructor.
  - rewrite in_app_iff. intros [H|H]; [contradiction|]. apply (Hd x); [now left|exact H].
  - apply IH; auto. intros y Hy. apply Hd. now right.
Qed.

Lemma NoDup_app_l {A} (a b : list A) : NoDup (a ++ b) -> NoDup a.
Proof.
  induction a as [|x a IH]; cbn; intros H; [constructor|].
  inversion H as [|? ? Hx H']; subst. constructor; [|auto].
  intros Hin. apply Hx. apply in_app_iff. now left.
Qed.

Lemma NoDup_app_r {A} (a b : list A) : NoDup (a ++ b) -> NoDup b.
Proof. induction a as [|x a IH]; cbn; intros H; [exact H|]. inversion H; subst; auto. Qed.

Lemma NoDup_app_disj {A} (a b : list A) x : NoDup (a ++ b) -> In x a -> ~ In x b.
Proof.
  induction a as [|y a IH]; cbn; intros H Hin; [contradiction|].
  inversion H as [|? ? Hy H']; subst. destruct Hin as [->|Hin]; [|auto].
  intros Hb. apply Hy. apply in_app_iff. now right.
Qed.

Lemma NoDup_map_inj_in {A B} (f : A -> B) (l : list A) :
  NoDup l -> (forall x y, In x l -> In y l -> f x = f y -> x = y) -> NoDup (map f l).
Proof.
  induction l as [|x l IH]; cbn; intros Hn Hinj; [constructor|].
  inversion Hn as [|? ? Hx Hn']; subst. constructor.
  - rewrite in_map_iff. intros (y & Hy & Hin). apply Hx.
    assert (y = x) by (apply Hinj; auto). now subst.
  - apply IH; auto.
Qed.

Lemma fold_left_ext_in {A B} (f g : A -> B -> A) (l : list B) (a : A) :
  (forall a x, In x l -> f a x = g a x) -> fold_left f l a = fold_left g l a.
Proof.
  revert a; induction l as [|x l IH]; intros a H; cbn; [reflexivity|].
  rewrite H by now left. apply IH. intros; apply H. now right.
Qed.

Lemma fold_left_map {A B C} (f : A -> B -> A) (g : C -> B) (l : list C) (a : A) :
  fold_left f (map g l) a = fold_left (fun a x => f a (g x)) l a.
Proof. revert a; induction l as [|x l IH]; intros a; cbn; auto. Qed.

(* ---------- jget / jput / putall ---------- *)
Lemma jget_notin k m : ~ In k (map fst m) -> jget k m = None.
Proof.
  induction m as [|[k' v] m IH]; cbn; intros H; [reflexivity|].
  destruct (beqb_spec k k') as [->|Hne]; [exfalso; apply H; now left|]. apply IH. intros Hin; apply H; now right.
Qed.

Lemma jput_absent k v m : ~ In k (map fst m) -> jput k v m = m ++ [(k, v)].
Proof.
  induction m as [|[k' v'] m IH]; cbn; intros H; [reflexivity|].
  destruct (beqb_spec k k') as [->|Hne]; [exfalso; apply H; now left|]. f_equal. apply IH. intros Hin; apply H; now right.
Qed.

Lemma jget_app_last k v m : ~ In k (map fst m) -> jget k (m ++ [(k, v)]) = Some v.
Proof.
  induction m as [|[k' v'] m IH]; cbn; intros H; [now rewrite beqb_refl|].
  destruct (beqb_spec k k') as [->|Hne]; [exfalso; apply H; now left|]. apply IH. intros Hin; apply H; now right.
Qed.

Lemma jput_app_last k v v' m : ~ In k (map fst m) -> jput k v' (m ++ [(k, v)]) = m ++ [(k, v')].
Proof.
  induction m as [|[k2 v2] m IH]; cbn; intros H; [now rewrite beqb_refl|].
  destruct (beqb_spec k k2) as [->|Hne]; [exfalso; apply H; now left|]. f_equal. apply IH. intros Hin; apply H; now right.
Qed.

Lemma jget_jput_same k v m : jget k (jput k v m) = Some v.
Proof.
  induction m as [|[k' v'] m IH]; cbn; [now rewrite beqb_refl|].
  destruct (beqb k k') eqn:E; cbn; rewrite E; auto.
Qed.

Lemma jput_jput k v v' m : jput k v' (jput k v m) = jput k v' m.
Proof.
  induction m as [|[k2 v2] m IH]; cbn; [now rewrite beqb_refl|].
  destruct (beqb k k2) eqn:E; cbn; rewrite E; [reflexivity|]. now rewrite IH.
Qed.

Lemma jput_same k v m : jget k m = Some v -> jput k v m = m.
Proof.
  induction m as [|[k2 v2] m IH]; cbn; [discriminate|].
  destruct (beqb k k2) eqn:E; [intros [= ->]; reflexivity|]. intros H. now rewrite IH.
Qed.

Lemma putall_fresh src m : NoDup (map fst m ++ map fst src) -> putall src m = m ++ src.
Proof.
  unfold putall. revert m; induction src as [|[k v] src IH]; intros m H; cbn; [now rewrite app_nil_r|].
  rewrite jput_absent.
  - rewrite IH; [now rewrite <- app_assoc|]. rewrite map_app, <- app_assoc. exact H.
  - intros Hin. apply (NoDup_app_disj _ _ k H Hin). cbn. now left.
Qed.

(* ---------- itoa ---------- *)
Lemma to_uint_nonnil n : N.to_uint n <> Decimal.Nil.
Proof. destruct n; cbn; [discriminate|]. apply DecimalPos.Unsigned.to_uint_nonnil. Qed.

Lemma itoa_inj a b : itoa a = itoa b -> a = b.
Proof.
  unfold itoa. intros H.
  assert (H1 : NilZero.string_of_uint (N.to_uint a) = NilZero.string_of_uint (N.to_uint b)).
  { rewrite <- (string_of_list_ascii_of_string (NilZero.string_of_uint (N.to_uint a))).
    rewrite <- (string_of_list_ascii_of_string (NilZero.string_of_uint (N.to_uint b))). now rewrite H. }
  apply (f_equal NilZero.uint_of_string) in H1. rewrite !NilZero.usu in H1 by apply to_uint_nonnil.
  injection H1 as H1. apply (f_equal N.of_uint) in H1. now rewrite !DecimalN.Unsigned.of_to in H1.
Qed.

Lemma indexed_keys i l k : In k (map fst (indexed i l)) -> exists j, (i <= j)%N /\ k = itoa j.
Proof.
  revert i; induction l as [|x l IH]; intros i; cbn; [contradiction|].
  intros [<-|H]; [exists i; split; [lia|reflexivity]|].
  destruct (IH _ H) as (j & Hj & ->). exists j. split; [lia|reflexivity].
Qed.

Lemma indexed_nodup i l : NoDup (map fst (indexed i l)).
Proof.
  revert i; induction l as [|x l IH]; intros i; cbn; constructor; [|apply IH].
  intros H. destruct (indexed_keys _ _ _ H) as (j & Hj & E). apply itoa_inj in E. lia.
Qed.

Lemma seqkeys_indexed (f : jv -> jv) i l :
  seqkeys i (map (fun kx => (fst kx, f (snd kx))) (indexed i l)) = true.
Proof. revert i; induction l as [|x l IH]; intros i; cbn; [reflexivity|]. now rewrite beqb_refl, IH. Qed.

Lemma seqkeys_map_snd (f : jv -> jv) i m :
  seqkeys i (map (fun kx => (fst kx, f (snd kx))) m) = seqkeys i m.
Proof. revert i; induction m as [|[k x] m IH]; intros i; cbn; [reflexivity|]. now rewrite IH. Qed.

Lemma map_snd_indexed (f : jv -> jv) i l :
  map snd (map (fun kx => (fst kx, f (snd kx))) (indexed i l)) = map f l.
Proof. revert i; induction l as [|x l IH]; intros i; cbn; [reflexivity|]. now rewrite IH. Qed.

(* ---------- unfolding equations for the nested fixpoints ---------- *)
Lemma ents_map_go m :
  (fix go (m : jmap) : list (list bytes * jv) :=
     match m with [] => [] | (k, x) :: t => map (pcons k) (ents x) ++ go t end) m = ents_of_kids m.
Proof. unfold ents_of_kids. induction m as [|[k x] m IH]; cbn; [reflexivity|]. now rewrite IH. Qed.

Lemma ents_arr_go l i :
  (fix go (l : list jv) (i : N) : list (list bytes * jv) :=
     match l with [] => [] | x :: t => map (pcons (itoa i)) (ents x) ++ go t (N.succ i) end) l i
  = ents_of_kids (indexed i l).
Proof. unfold ents_of_kids. revert i; induction l as [|x l IH]; intros i; cbn; [reflexivity|]. now rewrite IH. Qed.

Lemma ents_eq v :
  ents v = if is_nil (kids v) then [([], leafrep v)] else ents_of_kids (kids v).
Proof.
  destruct v as [s|t|b| |m|l]; try reflexivity.
  - destruct m as [|p m]; [reflexivity|]. exact (ents_map_go (p :: m)).
  - destruct l as [|x0 l]; [reflexivity|]. exact (ents_arr_go (x0 :: l) 1%N).
Qed.

Definition fstep (sep prefix : bytes) (acc : jmap) (kx : bytes * jv) : jmap :=
  if is_coll (snd kx) then putall (ftm sep (next_prefix sep prefix (fst kx)) (snd kx)) acc
  else jput (next_prefix sep prefix (fst kx)) (snd kx) acc.

Lemma ftm_map_go sep p m acc :
  (fix go (m : jmap) (acc : jmap) {struct m} : jmap :=
     match m with
     | [] => acc
     | (k, x) :: t =>
         go t (if is_coll x then putall (ftm sep (next_prefix sep p k) x) acc
               else jput (next_prefix sep p k) x acc)
     end) m acc = fold_left (fstep sep p) m acc.
Proof. revert acc; induction m as [|[k x] m IH]; intros acc; cbn; [reflexivity|]. now rewrite IH. Qed.

Lemma ftm_arr_go sep p l i acc :
  (fix go (l : list jv) (i : N) (acc : jmap) {struct l} : jmap :=
     match l with
     | [] => acc
     | x :: t =>
         go t (N.succ i) (if is_coll x then putall (ftm sep (next_prefix sep p (itoa i)) x) acc
                          else jput (next_prefix sep p (itoa i)) x acc)
     end) l i acc = fold_left (fstep sep p) (indexed i l) acc.
Proof. revert i acc; induction l as [|x l IH]; intros i acc; cbn; [reflexivity|]. now rewrite IH. Qed.

Lemma ftm_eq sep p v :
  ftm sep p v =
  if is_coll v
  then fold_left (fstep sep p) (kids v) (if is_nil (kids v) && negb (is_nil p) then [(p, leafrep v)] else [])
  else [(p, v)].
Proof.
  destruct v as [s|t|b| |m|l]; try reflexivity.
  - exact (ftm_map_go sep p m _).
  - cbn [is_coll kids leafrep].
    replace (is_nil (indexed 1 l)) with (is_nil l) by (destruct l; reflexivity).
    exact (ftm_arr_go sep p l 1%N _).
Qed.

Lemma mapify_map_go m :
  (fix go (m : jmap) : jmap := match m with [] => [] | (k, x) :: t => (k, mapify x) :: go t end) m
  = map (fun kx => (fst kx, mapify (snd kx))) m.
Proof. induction m as [|[k x] m IH]; cbn; [reflexivity|]. now rewrite IH. Qed.

Lemma mapify_arr_go l i :
  (fix go (l : list jv) (i : N) : jmap :=
     match l with [] => [] | x :: t => (itoa i, mapify x) :: go t (N.succ i) end) l i
  = map (fun kx => (fst kx, mapify (snd kx))) (indexed i l).
Proof. revert i; induction l as [|x l IH]; intros i; cbn; [reflexivity|]. now rewrite IH. Qed.

Lemma mapify_eq v :
  mapify v = if is_nil (kids v) then v else JMap (map (fun kx => (fst kx, mapify (snd kx))) (kids v)).
Proof.
  destruct v as [s|t|b| |m|l]; try reflexivity.
  - destruct m as [|p m]; [reflexivity|]. exact (f_equal JMap (mapify_map_go (p :: m))).
  - destruct l as [|x0 l]; [reflexivity|]. exact (f_equal JMap (mapify_arr_go (x0 :: l) 1%N)).
Qed.

Lemma arrayify_go m :
  (fix go (m : jmap) : jmap := match m with [] => [] | (k, x) :: t => (k, arrayify x) :: go t end) m
  = map (fun kx => (fst kx, arrayify (snd kx))) m.
Proof. induction m as [|[k x] m IH]; cbn; [reflexivity|]. now rewrite IH. Qed.

Lemma arrayify_eq m :
  arrayify (JMap m) =
  if is_nil m then JMap m
  else if seqkeys 1 m then JArr (map snd (map (fun kx => (fst kx, arrayify (snd kx))) m))
       else JMap (map (fun kx => (fst kx, arrayify (snd kx))) m).
Proof.
  destruct m as [|p m]; [reflexivity|]. cbn [is_nil].
  rewrite <- (arrayify_go (p :: m)). reflexivity.
Qed.

Lemma jall_map_go P m :
  (fix go (m : jmap) : bool := match m with [] => true | (_, x) :: t => jall P x && go t end) m
  = forallb (fun kx => jall P (snd kx)) m.
Proof. induction m as [|[k x] m IH]; cbn; [reflexivity|]. now rewrite IH. Qed.

Lemma jall_arr_go P l i :
  (fix go (l : list jv) : bool := match l with [] => true | x :: t => jall P x && go t end) l
  = forallb (fun kx => jall P (snd kx)) (indexed i l).
Proof. revert i; induction l as [|x l IH]; intros i; cbn; [reflexivity|]. now rewrite (IH (N.succ i)). Qed.

Lemma jall_eq P v : jall P v = P v && forallb (fun kx => jall P (snd kx)) (kids v).
Proof.
  destruct v as [s|t|b| |m|l]; try (cbn; now rewrite andb_true_r).
  - exact (f_equal (andb (P (JMap m))) (jall_map_go P m)).
  - exact (f_equal (andb (P (JArr l))) (jall_arr_go P l 1%N)).
Qed.

Lemma jall_node P v : jall P v = true -> P v = true.
Proof. rewrite jall_eq. intros H; apply andb_true_iff in H; tauto. Qed.

Lemma jall_kid P v kx : jall P v = true -> In kx (kids v) -> jall P (snd kx) = true.
Proof.
  rewrite jall_eq. intros H Hin; apply andb_true_iff in H. destruct H as [_ H].
  rewrite forallb_forall in H. now apply H.
Qed.

Lemma jsize_map_go m kx :
  In kx m -> jsize (snd kx) <= (fix go (m : jmap) : nat := match m with [] => 0 | (_, x) :: t => jsize x + go t end) m.
Proof. induction m as [|[k x] m IH]; cbn; [contradiction|]. intros [<-|H]; cbn; [lia|]. specialize (IH H). lia. Qed.

Lemma jsize_arr_go l i kx :
  In kx (indexed i l) -> jsize (snd kx) <= (fix go (l : list jv) : nat := match l with [] => 0 | x :: t => jsize x + go t end) l.
Proof. revert i; induction l as [|x l IH]; intros i; cbn; [contradiction|]. intros [<-|H]; cbn; [lia|]. specialize (IH _ H). lia. Qed.

(* ---------- size induction ---------- *)
Lemma kids_size v kx : In kx (kids v) -> jsize (snd kx) < jsize v.
Proof.
  destruct v as [s|t|b| |m|l]; cbn [kids]; try contradiction; intros H.
  - apply jsize_map_go in H. cbn [jsize]. lia.
  - apply jsize_arr_go in H. cbn [jsize]. lia.
Qed.

Lemma jv_size_ind (P : jv -> Prop) :
  (forall v, (forall kx, In kx (kids v) -> P (snd kx)) -> P v) -> forall v, P v.
Proof.
  intros H v. remember (jsize v) as n eqn:E. revert v E.
  induction n as [n IH] using lt_wf_ind. intros v E. apply H. intros kx Hin.
  apply (IH (jsize (snd kx))); [subst; now apply kids_size|reflexivity].
Qed.

Lemma kids_nodup v : wf_node v = true -> NoDup (map fst (kids v)).
Proof.
  destruct v as [s|t|b| |m|l]; cbn [kids wf_node]; intros H; try constructor.
  - now apply nodupb_NoDup.
  - apply indexed_nodup.
Qed.

Lemma is_nil_false {A} (l : list A) : is_nil l = false -> l <> [].
Proof. destruct l; [discriminate|congruence]. Qed.
