(* C02: every spelling of the REGENERATED flag table, written as an .mlrrc line (with and without the leading "--", with
   an argument token), is read by the .mlrrc model as exactly the command-line tokens -- so its effect is, by
   definition of ParseCommandLine (FLAG_TABLE.Parse on those tokens), the effect of the command-line flag that
   C02.FlagSpec.effect looks up in the same table.  Decided by vm_compute over the whole table. *)
From Miller Require Import Base.Bytes Base.Record gen.Gen_Flags C02.FlagSpec C02.Mlrrc.
Open Scope char_scope.

Fixpoint lbeq (a b : list bytes) : bool :=
  match a, b with [], [] => true | x :: a', y :: b' => beqb x y && lbeq a' b' | _, _ => false end.
Definition is_flags (r : rcline) (l : list bytes) : bool := match r with RFlags a => lbeq a l | _ => false end.
Definition is_refused (r : rcline) : bool := match r with RRefused => true | _ => false end.
Definition undash (s : bytes) : option bytes := match s with "-" :: "-" :: ("-" :: _) => None | "-" :: "-" :: n => Some n | _ => None end.

Definition rc_spelling_ok (s : bytes) : bool :=
  if mem s refused then is_refused (classify s) && is_refused (classify (s ++ B " x"))
  else is_flags (classify s) [s] && is_flags (classify (B "  " ++ s ++ B "  v   # comment")) [s; B "v"]
       && match undash s with
          | Some n => is_flags (classify n) [s] && is_flags (classify (n ++ B " v")) [s; B "v"]
          | None => true
          end.
Definition rc_table_ok : bool := forallb rc_spelling_ok all_spellings.

Lemma rc_table_ok_true : rc_table_ok = true.
Proof. vm_compute; reflexivity. Qed.

Lemma rc_table_spec s : In s all_spellings -> rc_spelling_ok s = true.
Proof. intros H. pose proof rc_table_ok_true as T. unfold rc_table_ok in T. rewrite forallb_forall in T. exact (T s H). Qed.

Lemma rc_refused_in_table : forallb (fun s => mem s all_spellings) [B "--prepipe"; B "--prepipex"; B "--load"; B "--mload"] = true.
Proof. vm_compute; reflexivity. Qed.
