(* C02: .mlrrc handling (pkg/climain/mlrcli_mlrrc.go), as a Gallina transliteration, and the clause
   "an .mlrrc line is equivalent to the corresponding command-line flag".
   stripMlrrcLine (comment from '#', TrimSpace), handleMlrrcLine (optional leading "--", strings.Fields, the refused
   flags, then cli.FLAG_TABLE.Parse on the tokens), tryLoadMlrrc (lines, [section] headers, --profile), loadMlrrcFiles
   (MLRRC, MLRRC=__none__, ~/.mlrrc, $XDG_CONFIG_HOME/miller/mlrrc, ./.mlrrc; the command line comes last).
   Whitespace is ASCII whitespace: the statements are about lines of bytes below 0x80 (strings.Fields / TrimSpace treat
   UTF-8 encoded U+0085, U+00A0, ... as space too; the generator stays in ASCII). *)
From Miller Require Import Base.Bytes Base.Record.
Open Scope char_scope.

Definition is_ws (c : ascii) : bool :=
  let n := code c in ((9 <=? n) && (n <=? 13))%N || (n =? 32)%N.
Definition eqa (a b : ascii) : bool := Ascii.eqb a b.

Fixpoint strip_comment (s : bytes) : bytes :=
  match s with [] => [] | c :: t => if eqa c "#" then [] else c :: strip_comment t end.
Fixpoint ltrim (s : bytes) : bytes := match s with c :: t => if is_ws c then ltrim t else s | [] => [] end.
Definition rtrim (s : bytes) : bytes := rev (ltrim (rev s)).
Definition strip_line (s : bytes) : bytes := rtrim (ltrim (strip_comment s)).

(* strings.Fields *)
Fixpoint fields_aux (s : bytes) (cur : bytes) : list bytes :=
  match s with
  | [] => match cur with [] => [] | _ => [rev cur] end
  | c :: t => if is_ws c then match cur with [] => fields_aux t [] | _ => rev cur :: fields_aux t [] end
              else fields_aux t (c :: cur)
  end.
Definition fields (s : bytes) : list bytes := fields_aux s [].

Inductive rcline := RBlank | RSection (name : bytes) | RBad | RRefused | RFlags (args : list bytes).

Definition refused : list bytes := [B "--prepipe"; B "--prepipex"; B "--load"; B "--mload"; B "--profile"; B "-P"].

(* handleMlrrcLine on a stripped, non-empty line *)
Definition handle_line (stripped : bytes) : rcline :=
  let line := match stripped with "-" :: _ => stripped | _ => "-" :: "-" :: stripped end in
  match fields line with
  | [] => RBlank
  | a0 :: rest => if mem a0 refused then RRefused else RFlags (a0 :: rest)
  end.

(* parseMlrrcSectionHeader *)
Definition parse_section (s : bytes) : option bytes :=
  match s, rev s with
  | "[" :: body, "]" :: _ =>
      let name := rtrim (ltrim (removelast body)) in
      match name with
      | [] => None
      | _ => if existsb (fun c => eqa c "[" || eqa c "]") name then None else Some name
      end
  | _, _ => None
  end.

Definition classify (raw : bytes) : rcline :=
  match strip_line raw with
  | [] => RBlank
  | "[" :: t => match parse_section ("[" :: t) with Some n => RSection n | None => RBad end
  | s => handle_line s
  end.

(* the file as lines: ReadString('\n') per line; since the repair (see KNOWN_FINDINGS "fixed:" mlrrc-last-line) a last
   line without terminating newline counts *)
Fixpoint split_lines_aux (s cur : bytes) : list bytes :=
  match s with
  | [] => match cur with [] => [] | _ => [rev cur] end
  | c :: t => if eqa c "010" then rev cur :: split_lines_aux t [] else split_lines_aux t (c :: cur)
  end.
Definition split_lines (s : bytes) : list bytes := split_lines_aux s [].

(* tryLoadMlrrc: the flag token lists a file contributes, in order; None = parse error (the run ends).
   Global lines always apply; lines of a [section] apply only when it is the requested profile, and are otherwise not
   even parsed. *)
Fixpoint rc_lines (profile cur : bytes) (ls : list bytes) : option (list (list bytes)) :=
  match ls with
  | [] => Some []
  | l :: t =>
      match classify l with
      | RBlank => rc_lines profile cur t
      | RSection n => rc_lines profile n t
      | RBad => None
      | r =>
          let in_scope := match cur with [] => true | _ => beqb cur profile end in
          if in_scope then
            match r with
            | RFlags a => option_map (cons a) (rc_lines profile cur t)
            | _ => None
            end
          else rc_lines profile cur t
      end
  end.
Definition rc_file (profile : bytes) (text : bytes) : option (list (list bytes)) := rc_lines profile [] (split_lines text).

(* loadMlrrcFiles: which files are read, in which order.  An environment: MLRRC (None = unset or empty), and the
   contents of the candidate files (None = cannot be opened). *)
Record rcenv := RcEnv { e_mlrrc : option bytes; f_mlrrc : option bytes; f_home : option bytes; f_xdg : option bytes; f_cwd : option bytes }.

Definition cat_opt (a b : option (list (list bytes))) : option (list (list bytes)) :=
  match a, b with Some x, Some y => Some (x ++ y) | _, _ => None end.
Definition load_opt (profile : bytes) (f : option bytes) : option (list (list bytes)) :=
  match f with None => Some [] | Some t => rc_file profile t end.

Definition load_all (profile : bytes) (e : rcenv) : option (list (list bytes)) :=
  let stacked := cat_opt (load_opt profile (f_home e)) (cat_opt (load_opt profile (f_xdg e)) (load_opt profile (f_cwd e))) in
  match e_mlrrc e with
  | Some v => if beqb v (B "__none__") then Some []
              else match f_mlrrc e with Some t => rc_file profile t | None => stacked end
  | None => stacked
  end.

(* the flags ParseCommandLine applies, in order: every .mlrrc line as its tokens, then the main flags of the command
   line (so the command line overrides .mlrrc, and ./.mlrrc overrides ~/.mlrrc); --norc skips the files *)
Definition effective_argv (norc : bool) (profile : bytes) (e : rcenv) (cmdline : list (list bytes)) : option (list bytes) :=
  if norc then Some (List.concat cmdline)
  else option_map (fun rc => List.concat (rc ++ cmdline)) (load_all profile e).

(* ------------------------------------------------------------------ the line grammar: print then parse *)
Definition tok_ok (t : bytes) : bool :=
  match t with [] => false | _ => forallb (fun c => negb (is_ws c) && negb (eqa c "#")) t end.

Fixpoint join_sp (l : list bytes) : bytes :=
  match l with [] => [] | [x] => x | x :: t => x ++ " " :: join_sp t end.

Lemma fields_aux_tok t : forall cur rest,
  forallb (fun c => negb (is_ws c)) t = true ->
  fields_aux (t ++ rest) cur = fields_aux rest (rev t ++ cur).
Proof.
  induction t as [|c t IH]; intros cur rest H; cbn [app rev fields_aux]; [reflexivity|].
  cbn [forallb] in H. apply andb_true_iff in H. destruct H as [Hc Ht].
  apply negb_true_iff in Hc. rewrite Hc. rewrite IH by exact Ht. now rewrite <- app_assoc.
Qed.

Lemma tok_ok_nows t : tok_ok t = true -> forallb (fun c => negb (is_ws c)) t = true /\ t <> [].
Proof.
  unfold tok_ok. destruct t as [|c t]; [discriminate|]. intros H. split; [|discriminate].
  rewrite forallb_forall in *. intros x Hx. specialize (H x Hx). apply andb_true_iff in H. tauto.
Qed.

Lemma fields_join l : forallb tok_ok l = true -> fields (join_sp l) = l.
Proof.
  unfold fields. induction l as [|x t IH]; intros H; [reflexivity|].
  cbn [forallb] in H. apply andb_true_iff in H. destruct H as [Hx Ht].
  destruct (tok_ok_nows x Hx) as [Hn Hne].
  destruct t as [|y t'].
  - cbn [join_sp]. rewrite <- (app_nil_r x) at 1. rewrite fields_aux_tok by exact Hn. cbn [fields_aux].
    rewrite app_nil_r. destruct (rev x) eqn:E; [apply (f_equal (@rev ascii)) in E; rewrite rev_involutive in E; cbn in E; contradiction|].
    rewrite <- E, rev_involutive. reflexivity.
  - change (join_sp (x :: y :: t')) with (x ++ " " :: join_sp (y :: t')).
    rewrite fields_aux_tok by exact Hn. cbn [fields_aux]. change (is_ws " ") with true. cbn iota.
    rewrite app_nil_r. destruct (rev x) eqn:E; [apply (f_equal (@rev ascii)) in E; rewrite rev_involutive in E; cbn in E; contradiction|].
    rewrite <- E, rev_involutive. f_equal. apply IH. exact Ht.
Qed.

(* a flag with its arguments written on one line, with the leading dashes, is read back as exactly those tokens *)
Theorem line_with_dashes (flag : bytes) (args : list bytes) :
  forallb tok_ok (("-" :: flag) :: args) = true -> mem ("-" :: flag) refused = false ->
  handle_line (join_sp (("-" :: flag) :: args)) = RFlags (("-" :: flag) :: args).
Proof.
  intros Hok Hr. unfold handle_line.
  assert (E : exists rest, join_sp (("-" :: flag) :: args) = "-" :: rest).
  { destruct args; cbn [join_sp app]; eauto. }
  destruct E as [rest E]. rewrite E. rewrite <- E. rewrite fields_join by exact Hok. now rewrite Hr.
Qed.

Lemma not_dash_match {T} c (r : bytes) (A D : T) : c <> "-" -> match c :: r with "-" :: _ => A | _ => D end = D.
Proof. intros H. destruct c as [[] [] [] [] [] [] [] []]; try reflexivity. contradiction H; reflexivity. Qed.

(* "you can leave off the initial --": name args  is read as  --name args *)
Theorem line_without_dashes (name : bytes) (args : list bytes) :
  forallb tok_ok (("-" :: "-" :: name) :: args) = true -> (match name with "-" :: _ => false | _ => true end) = true ->
  mem ("-" :: "-" :: name) refused = false ->
  handle_line (join_sp (name :: args)) = RFlags (("-" :: "-" :: name) :: args).
Proof.
  intros Hok Hd Hr. unfold handle_line.
  assert (E : (match join_sp (name :: args) with "-" :: _ => join_sp (name :: args) | _ => "-" :: "-" :: join_sp (name :: args) end)
              = join_sp (("-" :: "-" :: name) :: args)).
  { destruct name as [|c n].
    - cbn [forallb tok_ok] in Hok. destruct args; cbn [join_sp app]; reflexivity.
    - destruct (Ascii.eqb_spec c "-") as [->|Hne]; [discriminate Hd|].
      destruct args as [|a args']; cbn [join_sp app]; destruct c as [[] [] [] [] [] [] [] []]; try reflexivity; exfalso; apply Hne; reflexivity. }
  rewrite E, fields_join by exact Hok. now rewrite Hr.
Qed.

(* MLRRC=__none__ disables every file; --norc likewise *)
Theorem mlrrc_none profile e cmdline :
  e_mlrrc e = Some (B "__none__") -> effective_argv false profile e cmdline = Some (List.concat cmdline).
Proof. intros H. unfold effective_argv, load_all. rewrite H. reflexivity. Qed.

(* precedence: ~/.mlrrc, then the XDG file, then ./.mlrrc, then the command line *)
Theorem mlrrc_precedence profile e cmdline h x c :
  e_mlrrc e = None -> load_opt profile (f_home e) = Some h -> load_opt profile (f_xdg e) = Some x -> load_opt profile (f_cwd e) = Some c ->
  effective_argv false profile e cmdline = Some (List.concat h ++ List.concat x ++ List.concat c ++ List.concat cmdline).
Proof.
  intros He Hh Hx Hc. unfold effective_argv, load_all. rewrite He, Hh, Hx, Hc. cbn [cat_opt option_map].
  now rewrite !concat_app, <- !app_assoc.
Qed.

(* $MLRRC names a readable file: it and only it *)
Theorem mlrrc_env_only profile e cmdline v t rc :
  e_mlrrc e = Some v -> v <> B "__none__" -> f_mlrrc e = Some t -> rc_file profile t = Some rc ->
  effective_argv false profile e cmdline = Some (List.concat rc ++ List.concat cmdline).
Proof.
  intros He Hv Hf Hr. unfold effective_argv, load_all. rewrite He, Hf, Hr.
  destruct (beqb_spec v (B "__none__")); [contradiction|]. cbn [option_map]. now rewrite concat_app.
Qed.

(* ------------------------------------------------------------------ correspondence + non-vacuity *)
(* case = (.mlrrc text, the command-line argv with the same meaning): the model reads the text as those tokens *)
Definition chk_rc (c : bytes * list bytes) : bool :=
  match rc_file [] (fst c) with
  | Some rc =>
      (fix eq (a b : list bytes) : bool :=
         match a, b with [], [] => true | x :: a', y :: b' => beqb x y && eq a' b' | _, _ => false end) (List.concat rc) (snd c)
  | None => false
  end.

Lemma mlrrc_examples :
  rc_file [] (B "# a comment

   icsv   # trailing comment
	
#ojson
opprint
") = Some [[B "--icsv"]; [B "--opprint"]]
  /\ rc_file [] (B "-i csv
ofs semicolon") = Some [[B "-i"; B "csv"]; [B "--ofs"; B "semicolon"]]
  /\ rc_file [] (B "prepipe rm -rf /
") = None
  /\ rc_file (B "work") (B "icsv
[home]
ojson
[ work ]
oxtab
") = Some [[B "--icsv"]; [B "--oxtab"]]
  /\ rc_file [] (B "icsv
[home]
load x
") = Some [[B "--icsv"]]
  /\ effective_argv false [] (RcEnv None None (Some (B "ojson
")) None (Some (B "oxtab
"))) [[B "--icsv"]] = Some [B "--ojson"; B "--oxtab"; B "--icsv"].
Proof. vm_compute. repeat split; reflexivity. Qed.
