(* C02 proofs, part F: mlr flatten -f FS / unflatten -f FS round trip. *)
From Miller Require Import Base.Bytes Base.Record C02.Model C02.Spec C02.ProofsA C02.ProofsB C02.ProofsC C02.Proofs.
Open Scope char_scope.

Definition selected (fs : list bytes) (kx : bytes * jv) : bool := is_coll (snd kx) && bmem (fst kx) fs.

(* entries emitted by FlattenFields: a selected collection is spread, everything else is kept as one field *)
Definition fents (fs : list bytes) (kx : bytes * jv) : list (list bytes * jv) :=
  if is_coll (snd kx) && negb (bmem (fst kx) fs) then [([fst kx], snd kx)] else map (pcons (fst kx)) (ents (snd kx)).
Definition fents_of (fs : list bytes) (r : jmap) : list (list bytes * jv) := flat_map (fents fs) r.
Definition fpaths_ok (fs : list bytes) (sep : bytes) (r : jmap) : bool :=
  forallb (fun e => path_okb sep (fst e)) (fents_of fs r).

Lemma fents_scalar fs k x : is_coll x = false -> fents fs (k, x) = [([k], x)].
Proof. intros H. unfold fents; cbn [fst snd]. rewrite H. cbn. now rewrite (ents_scalar x H). Qed.

Lemma keyed_nil_path sep k x : keyed sep [] ([k], x) = (k, x).
Proof. reflexivity. Qed.

(* ---------- FlattenFields emits the keyed entries ---------- *)
Definition ffstep (fs : list bytes) (sep : bytes) (acc : jmap) (kv : bytes * jv) : jmap :=
  if is_coll (snd kv) && bmem (fst kv) fs then putall (ftm sep (fst kv) (snd kv)) acc else jput (fst kv) (snd kv) acc.

Lemma fold_ffstep fs sep r : forall acc,
  (forall kx, In kx r -> fst kx <> []) ->
  NoDup (map fst acc ++ map fst (map (keyed sep []) (fents_of fs r))) ->
  fold_left (ffstep fs sep) r acc = acc ++ map (keyed sep []) (fents_of fs r).
Proof.
  induction r as [|[k x] r IH]; intros acc Hk Hnd; cbn [fold_left]; [cbn; now rewrite app_nil_r|].
  unfold fents_of in *. cbn [flat_map] in *. rewrite map_app, map_app in Hnd. rewrite map_app.
  assert (Hk0 : k <> []) by (apply (Hk (k, x)); now left).
  assert (Hstep : ffstep fs sep acc (k, x) = acc ++ map (keyed sep []) (fents fs (k, x))).
  { unfold ffstep, fents; cbn [fst snd]. destruct (is_coll x) eqn:Ec; cbn [andb].
    - destruct (bmem k fs) eqn:Es; cbn [negb].
      + rewrite map_keyed_pcons. cbn [app].
        assert (Hn1 : NoDup (map fst (map (keyed sep [k]) (ents x)))).
        { unfold fents in Hnd; cbn [fst snd] in Hnd. rewrite Ec, Es in Hnd. cbn [andb negb] in Hnd.
          rewrite map_keyed_pcons in Hnd. cbn [app] in Hnd. apply NoDup_app_r in Hnd. exact (NoDup_app_l _ _ Hnd). }
        pose proof (ftm_ents sep x [k]) as Hf. cbn [join] in Hf. rewrite Hf; [|discriminate|exact Hk0|exact Hn1].
        apply putall_fresh.
        unfold fents in Hnd; cbn [fst snd] in Hnd. rewrite Ec, Es in Hnd. cbn [andb negb] in Hnd.
        rewrite map_keyed_pcons in Hnd. cbn [app] in Hnd. rewrite app_assoc in Hnd. exact (NoDup_app_l _ _ Hnd).
      + cbn [map]. rewrite keyed_nil_path. apply jput_absent.
        unfold fents in Hnd; cbn [fst snd] in Hnd. rewrite Ec, Es in Hnd. cbn [andb negb map] in Hnd.
        rewrite keyed_nil_path in Hnd. intros Hin. apply (NoDup_app_disj _ _ _ Hnd Hin). cbn. now left.
    - rewrite (ents_scalar x Ec). cbn [map]. unfold pcons; cbn [fst snd]. rewrite keyed_nil_path. apply jput_absent.
      unfold fents in Hnd; cbn [fst snd] in Hnd. rewrite Ec in Hnd. cbn [andb] in Hnd. rewrite (ents_scalar x Ec) in Hnd.
      cbn [map] in Hnd. unfold pcons in Hnd; cbn [fst snd] in Hnd. rewrite keyed_nil_path in Hnd.
      intros Hin. apply (NoDup_app_disj _ _ _ Hnd Hin). cbn. now left. }
  rewrite Hstep. rewrite IH.
  - now rewrite <- app_assoc.
  - intros kx Hin. apply Hk. now right.
  - rewrite map_app, <- app_assoc. exact Hnd.
Qed.

Lemma fents_all_scalar fs sep r :
  existsb (fun kv => is_coll (snd kv)) r = false -> map (keyed sep []) (fents_of fs r) = r.
Proof.
  induction r as [|[k x] r IH]; [reflexivity|]. cbn [existsb snd]. intros H.
  apply orb_false_iff in H. destruct H as [H1 H2].
  unfold fents_of in *. cbn [flat_map]. rewrite (fents_scalar fs k x H1). cbn [app map]. rewrite keyed_nil_path.
  f_equal. now apply IH.
Qed.

Lemma first_fentry fs r k v : In (k, v) r -> exists e, In e (fents_of fs r) /\ hd [] (fst e) = k.
Proof.
  intros Hin. unfold fents_of.
  destruct (is_coll v && negb (bmem k fs)) eqn:E.
  - exists ([k], v). split; [|reflexivity]. apply in_flat_map. exists (k, v). split; [exact Hin|].
    unfold fents; cbn [fst snd]. rewrite E. now left.
  - destruct (ents v) as [|e' es] eqn:Ee; [exfalso; now apply (ents_nonnil v)|].
    exists (pcons k e'). split; [|reflexivity]. apply in_flat_map. exists (k, v). split; [exact Hin|].
    unfold fents; cbn [fst snd]. rewrite E, Ee. now left.
Qed.

Lemma fpaths_nodup fs r : wf_rec r = true -> NoDup (map fst (fents_of fs r)).
Proof.
  unfold wf_rec, rall. intros H. apply andb_true_iff in H. destruct H as [H1 H2].
  apply nodupb_NoDup in H1. rewrite forallb_forall in H2. unfold fents_of.
  induction r as [|[k x] r IH]; cbn [flat_map map]; [constructor|].
  cbn [map fst] in H1. inversion H1 as [|? ? Hkn Hk']; subst. rewrite map_app. apply NoDup_app_intro.
  - unfold fents; cbn [fst snd]. destruct (is_coll x && negb (bmem k fs)); [cbn; constructor; [intros []|constructor]|].
    rewrite map_map. cbn. rewrite <- (map_map fst (cons k)).
    apply NoDup_map_inj_in; [apply paths_nodup; apply (H2 (k, x)); now left|]. intros a b _ _ H. now injection H.
  - apply IH; [exact Hk'|]. intros kx Hin. apply H2. now right.
  - intros p Hp Hq.
    assert (Hh : hd [] p = k).
    { unfold fents in Hp; cbn [fst snd] in Hp. destruct (is_coll x && negb (bmem k fs)).
      - destruct Hp as [<-|[]]. reflexivity.
      - rewrite map_map in Hp. apply in_map_iff in Hp. destruct Hp as (e & <- & _). reflexivity. }
    apply in_map_iff in Hq. destruct Hq as (e' & Heq & Hin').
    apply in_flat_map in Hin'. destruct Hin' as ([k' x'] & Hkx & Hin').
    assert (Hh' : hd [] (fst e') = k').
    { unfold fents in Hin'; cbn [fst snd] in Hin'. destruct (is_coll x' && negb (bmem k' fs)).
      - destruct Hin' as [<-|[]]. reflexivity.
      - apply in_map_iff in Hin'. destruct Hin' as (e'' & <- & _). reflexivity. }
    apply Hkn. rewrite <- Hh, <- Heq, Hh'. now apply (in_map fst _ (k', x')).
Qed.

Lemma flatten_fields_eq fs sep r :
  wf_rec r = true -> fpaths_ok fs sep r = true ->
  flatten_fields fs sep r = map (keyed sep []) (fents_of fs r).
Proof.
  intros Hwf Hp. pose proof (fpaths_nodup fs r Hwf) as Hpaths.
  unfold fpaths_ok in Hp. rewrite forallb_forall in Hp.
  assert (Hkeys : NoDup (map fst (map (keyed sep []) (fents_of fs r)))).
  { rewrite map_map. cbn [keyed fst app].
    rewrite <- (map_map fst (join sep)). apply NoDup_map_inj_in; [exact Hpaths|].
    intros p q Hp1 Hq1 Heq.
    apply in_map_iff in Hp1. destruct Hp1 as (e1 & <- & He1).
    apply in_map_iff in Hq1. destruct Hq1 as (e2 & <- & He2).
    destruct (path_ok_parts _ _ (Hp e1 He1)) as (_ & _ & S1 & _).
    destruct (path_ok_parts _ _ (Hp e2 He2)) as (_ & _ & S2 & _).
    rewrite <- S1, <- S2. now rewrite Heq. }
  assert (Hknz : forall kx, In kx r -> fst kx <> []).
  { intros [k v] Hin. destruct (first_fentry fs r k v Hin) as (e & He & Hhd).
    destruct (path_ok_parts _ _ (Hp _ He)) as (Hne & Hnil & _). cbn [fst].
    destruct (fst e) as [|k0 q]; [congruence|]. cbn in Hhd, Hnil. subst k0.
    apply orb_false_iff in Hnil. destruct Hnil as [Hk _]. destruct k; [discriminate|congruence]. }
  unfold flatten_fields.
  match goal with |- context [existsb ?f r] => destruct (existsb f r) eqn:Ex end.
  - change (fold_left _ r []) with (fold_left (ffstep fs sep) r []).
    rewrite (fold_ffstep fs sep r [] Hknz); [reflexivity|exact Hkeys].
  - symmetry. now apply fents_all_scalar.
Qed.

(* ---------- CopyUnflattenFields on the keyed entries ---------- *)
Lemma pimv_pim : forall idx v m,
  existsb is_nil idx = false ->
  pimv idx v m = match pim idx v m with Some o => (o, true) | None => (m, false) end.
Proof.
  induction idx as [|k idx IH]; intros v m H; [reflexivity|].
  destruct idx as [|k2 rest]; [reflexivity|].
  cbn [existsb] in H. apply orb_false_iff in H. destruct H as [Hk H].
  assert (Hk2 : is_nil k2 = false) by (cbn [existsb] in H; apply orb_false_iff in H; tauto).
  change (pimv (k :: k2 :: rest) v m) with
    (if is_nil k then (m, false)
     else match (match jget k m with
                 | None => if is_nil k2 then None else Some []
                 | Some (JMap mm) => Some mm
                 | Some (JArr _) => None
                 | Some _ => if is_nil k2 then None else Some []
                 end) with
          | None => (m, false)
          | Some mm => let '(mm', ok) := pimv (k2 :: rest) v mm in (jput k (JMap mm') m, ok)
          end).
  change (pim (k :: k2 :: rest) v m) with
    (match (match jget k m with
            | None => Some [] | Some (JMap mm) => Some mm | Some (JArr _) => None | Some _ => Some [] end) with
     | None => None
     | Some mm0 => match pim (k2 :: rest) v mm0 with None => None | Some mm' => Some (jput k (JMap mm') m) end
     end).
  rewrite Hk, Hk2.
  assert (Hrec : forall mm, (let '(mm', ok) := pimv (k2 :: rest) v mm in (jput k (JMap mm') m, ok))
                            = match pim (k2 :: rest) v mm with
                              | Some mm' => (jput k (JMap mm') m, true)
                              | None => (jput k (JMap mm) m, false)
                              end).
  { intros mm. rewrite (IH v mm H). destruct (pim (k2 :: rest) v mm); reflexivity. }
  destruct (jget k m) as [[s|t|b| |mm|l]|] eqn:Eg; try (rewrite Hrec; destruct (pim (k2 :: rest) v []) eqn:Ep; [reflexivity|]);
    try reflexivity.
  - exfalso. revert Ep. apply pim_nil_some. discriminate.
  - exfalso. revert Ep. apply pim_nil_some. discriminate.
  - exfalso. revert Ep. apply pim_nil_some. discriminate.
  - exfalso. revert Ep. apply pim_nil_some. discriminate.
  - rewrite Hrec. destruct (pim (k2 :: rest) v mm); [reflexivity|]. f_equal. now apply jput_same.
  - exfalso. revert Ep. apply pim_nil_some. discriminate.
Qed.

Lemma fstep_tie fs sep o a p leaf :
  path_okb sep p = true ->
  ((2 <= List.length p)%nat -> bmem (hd [] p) fs = true) ->
  unflatten_fields_step fs sep (o, a) (join sep p, leaf) = (pstep_o o (p, leaf), astep a (p, leaf)).
Proof.
  intros H Hsel. destruct (path_ok_parts _ _ H) as (Hne & Hnil & Hsplit & Hcont).
  unfold unflatten_fields_step, pstep_o, astep. cbn [fst snd]. rewrite Hcont.
  destruct (2 <=? List.length p)%nat eqn:El.
  - rewrite Hsplit. rewrite Hsel by (now apply Nat.leb_le). rewrite (pimv_pim p (ut leaf) o Hnil).
    destruct (pim p (ut leaf) o); reflexivity.
  - destruct p as [|k [|k2 p]]; [congruence| |discriminate]. reflexivity.
Qed.

Lemma fents_long_selected fs r e :
  In e (fents_of fs r) -> (2 <= List.length (fst e))%nat -> bmem (hd [] (fst e)) fs = true.
Proof.
  unfold fents_of. intros Hin Hlen. apply in_flat_map in Hin. destruct Hin as ([k x] & _ & Hin).
  unfold fents in Hin; cbn [fst snd] in Hin.
  destruct (is_coll x) eqn:Ec; cbn [andb] in Hin.
  - destruct (bmem k fs) eqn:Es; cbn [negb] in Hin.
    + apply in_map_iff in Hin. destruct Hin as (e' & <- & _). exact Es.
    + destruct Hin as [<-|[]]. cbn in Hlen. lia.
  - rewrite (ents_scalar x Ec) in Hin. destruct Hin as [<-|[]]. cbn in Hlen. lia.
Qed.

Lemma build_list_gen (g : bytes * jv -> list (list bytes * jv)) (h : bytes * jv -> jv) ks :
  (forall kx, In kx ks -> forall M, ~ In (fst kx) (map fst M) ->
       fold_left pstep_o (g kx) M = M ++ [(fst kx, h kx)]) ->
  forall M, NoDup (map fst M ++ map fst ks) ->
  fold_left pstep_o (flat_map g ks) M = M ++ map (fun kx => (fst kx, h kx)) ks.
Proof.
  induction ks as [|[k x] ks IH]; intros HQ M Hnd; cbn [flat_map map]; [now rewrite app_nil_r|].
  rewrite fold_left_app. rewrite (HQ (k, x)); [|now left|].
  - cbn [fst snd]. rewrite IH.
    + now rewrite <- app_assoc.
    + intros kx Hin. apply HQ. now right.
    + rewrite map_app, <- app_assoc. exact Hnd.
  - cbn [fst]. intros Hin. apply (NoDup_app_disj _ _ _ Hnd Hin). now left.
Qed.

Definition stored (fs : list bytes) (kx : bytes * jv) : jv :=
  if is_coll (snd kx) && negb (bmem (fst kx) fs) then snd kx else mapify (snd kx).

Lemma build_fields fs r :
  wf_rec r = true -> no_sentinel_rec r = true ->
  fold_left pstep_o (fents_of fs r) [] = map (fun kx => (fst kx, stored fs kx)) r.
Proof.
  unfold wf_rec, no_sentinel_rec, rall. intros Hwf Hns. apply andb_true_iff in Hwf. destruct Hwf as [Hnd Hwf].
  rewrite forallb_forall in Hwf, Hns. unfold fents_of.
  rewrite (build_list_gen (fents fs) (stored fs) r); [reflexivity| |].
  - intros [k x] Hin M HM. unfold fents, stored; cbn [fst snd].
    destruct (is_coll x && negb (bmem k fs)) eqn:E.
    + cbn [fold_left]. unfold pstep_o; cbn [fst snd pim].
      assert (Hu : ut x = x) by (destruct x; try reflexivity; discriminate). rewrite Hu. now apply jput_absent.
    + apply build; [exact (Hwf _ Hin)|exact (Hns _ Hin)|exact HM].
  - cbn [map app]. now apply nodupb_NoDup.
Qed.

Lemma astep_sub es : forall a b,
  In b (fold_left astep es a) -> In b a \/ exists e, In e es /\ (2 <= List.length (fst e))%nat /\ hd [] (fst e) = b.
Proof.
  induction es as [|e es IH]; intros a b H; cbn [fold_left] in H; [now left|].
  destruct (IH _ _ H) as [Ha|(e' & He' & Hl & Hh)]; [|right; exists e'; split; [now right|auto]].
  unfold astep in Ha. destruct (2 <=? List.length (fst e))%nat eqn:El; [|now left].
  destruct (bmem (hd [] (fst e)) a); [now left|]. apply in_app_iff in Ha. destruct Ha as [Ha|[<-|[]]]; [now left|].
  right. exists e. split; [now left|]. split; [now apply Nat.leb_le|reflexivity].
Qed.

Lemma fents_hd_key fs r e : In e (fents_of fs r) -> exists x, In (hd [] (fst e), x) r /\ In e (fents fs (hd [] (fst e), x)).
Proof.
  unfold fents_of. intros Hin. apply in_flat_map in Hin. destruct Hin as ([k x] & Hkx & Hin).
  assert (Hh : hd [] (fst e) = k).
  { unfold fents in Hin; cbn [fst snd] in Hin. destruct (is_coll x && negb (bmem k fs)).
    - destruct Hin as [<-|[]]. reflexivity.
    - apply in_map_iff in Hin. destruct Hin as (e' & <- & _). reflexivity. }
  exists x. rewrite Hh. auto.
Qed.

Lemma jget_in_keys k m : In k (map fst m) -> jget k m <> None.
Proof.
  induction m as [|[k' v] m IH]; cbn; [contradiction|].
  destruct (beqb_spec k k'); [discriminate|]. intros [H|H]; [congruence|auto].
Qed.

Lemma nodup_keys_unique (r : jmap) k v v' : NoDup (map fst r) -> In (k, v) r -> In (k, v') r -> v = v'.
Proof.
  induction r as [|[k0 v0] r IH]; cbn; intros Hnd H1 H2; [contradiction|].
  inversion Hnd as [|? ? Hn Hnd']; subst.
  destruct H1 as [H1|H1], H2 as [H2|H2].
  - congruence.
  - exfalso. apply Hn. injection H1 as -> _. now apply (in_map fst _ (k, v')).
  - exfalso. apply Hn. injection H2 as -> _. now apply (in_map fst _ (k, v)).
  - now apply IH.
Qed.

(* ===== flatten -f FS then unflatten -f FS gives the record back ===== *)
Theorem unflatten_flatten_fields_paths fs sep r :
  wf_rec r = true -> fpaths_ok fs sep r = true -> no_sentinel_rec r = true -> no_intkeyed_rec r = true ->
  unflatten_fields fs sep (flatten_fields fs sep r) = Some r.
Proof.
  intros Hwf Hp Hns Hni.
  rewrite (flatten_fields_eq fs sep r Hwf Hp).
  unfold fpaths_ok in Hp. rewrite forallb_forall in Hp.
  unfold unflatten_fields. rewrite fold_left_map.
  rewrite (fold_left_ext_in _ (fun st e => (pstep_o (fst st) e, astep (snd st) e))).
  2:{ intros [o a] [p leaf] Hin. unfold keyed; cbn [fst snd app]. apply fstep_tie; [exact (Hp _ Hin)|].
      intros Hlen. exact (fents_long_selected fs r _ Hin Hlen). }
  rewrite fold_pair. rewrite (build_fields fs r Hwf Hns).
  assert (Hnd : NoDup (map fst r)).
  { unfold wf_rec in Hwf. apply andb_true_iff in Hwf. destruct Hwf as [Hwf _]. now apply nodupb_NoDup. }
  set (aff := fold_left astep (fents_of fs r) []).
  assert (Haff : forall b, In b aff -> exists x, In (b, x) r /\ is_coll x = true /\ bmem b fs = true).
  { intros b Hb. destruct (astep_sub _ _ _ Hb) as [[]|(e & He & Hl & Hh)].
    destruct (fents_hd_key fs r e He) as (x & Hx & Hex). rewrite Hh in Hx, Hex. exists x. split; [exact Hx|].
    pose proof (fents_long_selected fs r e He Hl) as Hs. rewrite Hh in Hs. split; [|exact Hs].
    unfold fents in Hex; cbn [fst snd] in Hex. destruct (is_coll x) eqn:Ec; [reflexivity|]. cbn [andb] in Hex.
    rewrite (ents_scalar x Ec) in Hex. destruct Hex as [<-|[]]. cbn in Hl. lia. }
  assert (Hall : forallb (fun b => match jget b (map (fun kx => (fst kx, stored fs kx)) r) with Some _ => true | None => false end) aff = true).
  { apply forallb_forall. intros b Hb. destruct (Haff b Hb) as (x & Hx & _).
    destruct (jget b (map (fun kx => (fst kx, stored fs kx)) r)) eqn:E; [reflexivity|]. exfalso. revert E. apply jget_in_keys.
    rewrite map_map. cbn [fst]. now apply (in_map fst _ (b, x)). }
  rewrite Hall. f_equal.
  rewrite arrayify_pass.
  - rewrite map_map. rewrite <- (map_id r) at 2. apply map_ext_in. intros [k v] Hin.
    unfold upd_if; cbn [fst snd]. f_equal. unfold stored; cbn [fst snd].
    destruct (bmem k aff) eqn:E.
    + apply bmem_In in E. destruct (Haff k E) as (x & Hx & Hc & Hs).
      assert (x = v) by (eapply nodup_keys_unique; eauto). subst x. rewrite Hc, Hs. cbn [andb negb].
      apply arrayify_mapify. unfold no_intkeyed_rec, rall in Hni. rewrite forallb_forall in Hni. exact (Hni _ Hin).
    + destruct (is_coll v && negb (bmem k fs)) eqn:Eu; [reflexivity|].
      rewrite mapify_eq. destruct (is_nil (kids v)) eqn:En; [reflexivity|]. exfalso.
      (* a long entry of this field puts k into aff *)
      assert (Hc : is_coll v = true) by (destruct v; try reflexivity; discriminate).
      assert (Hent : exists e', In e' (ents v) /\ fst e' <> []).
      { rewrite ents_eq, En. destruct (ents_of_kids (kids v)) as [|e' es] eqn:Ee.
        - exfalso. revert Ee. apply ents_of_kids_nonnil; [now apply is_nil_false|]. intros kx _. apply ents_nonnil.
        - exists e'. split; [now left|]. apply (ents_of_kids_paths_nonnil (kids v)). rewrite Ee. now left. }
      destruct Hent as (e' & He' & Hne').
      assert (Hin' : In (pcons k e') (fents_of fs r)).
      { unfold fents_of. apply in_flat_map. exists (k, v). split; [exact Hin|]. unfold fents; cbn [fst snd]. rewrite Eu.
        now apply in_map. }
      assert (Hlen : (2 <= List.length (fst (pcons k e')))%nat).
      { unfold pcons; cbn [fst List.length]. destruct (fst e'); [congruence|cbn; lia]. }
      pose proof (astep_adds (fents_of fs r) [] _ Hin' Hlen) as Hadd. cbn [pcons fst hd] in Hadd.
      fold aff in Hadd. apply bmem_In in Hadd. congruence.
  - rewrite map_map. cbn [fst]. exact Hnd.
  - apply astep_nodup. constructor.
Qed.

Lemma fpaths_ok_single fs c r :
  is_digit c = false -> keys_ok_rec c r = true -> fpaths_ok fs [c] r = true.
Proof.
  intros Hc Hk. unfold keys_ok_rec, rall in Hk. apply andb_true_iff in Hk. destruct Hk as [Hk1 Hk2].
  rewrite forallb_forall in Hk1, Hk2.
  unfold fpaths_ok. apply forallb_forall. intros e Hin.
  unfold fents_of in Hin. apply in_flat_map in Hin. destruct Hin as ([k x] & Hkx & Hin).
  pose proof (key_ok_piece c k (Hk1 _ Hkx)) as Hpk.
  unfold fents in Hin; cbn [fst snd] in Hin. destruct (is_coll x && negb (bmem k fs)).
  - destruct Hin as [<-|[]]. cbn [fst]. apply path_ok_single; [discriminate|]. constructor; [exact Hpk|constructor].
  - apply in_map_iff in Hin. destruct Hin as (e' & <- & He'). cbn [pcons fst].
    apply path_ok_single; [discriminate|]. constructor; [exact Hpk|].
    apply (ents_pieces c Hc x); [exact (Hk2 _ Hkx)|exact He'].
Qed.

Theorem unflatten_flatten_fields_char fs c r :
  is_digit c = false ->
  wf_rec r = true -> keys_ok_rec c r = true -> no_sentinel_rec r = true -> no_intkeyed_rec r = true ->
  unflatten_fields fs [c] (flatten_fields fs [c] r) = Some r.
Proof.
  intros Hc Hwf Hk Hns Hni. apply unflatten_flatten_fields_paths; auto. now apply fpaths_ok_single.
Qed.

(* without -f hypotheses being met the run can even abort: the model reproduces
   "Internal coding error detected at file mlrmap_flatten_unflatten.go" *)
Lemma unflatten_fields_crash_witness :
  unflatten_fields [B "a"] (B ".") [(B "a..b", JNum (B "1")); (B "c", JNum (B "2"))] = None.
Proof. vm_compute. reflexivity. Qed.
