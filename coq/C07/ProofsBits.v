(* C07 lemmas: bit operators and shifts are 64-bit two's complement; min/max/unary int-ness. *)
From Coq Require Import Floats.
From Miller Require Import Base.Bytes C06.Model C07.Model C07.Proofs.
Open Scope Z_scope.

(* an int64 is a Z whose bits from position 63 upward all equal its sign *)
Lemma in64_bits x : in64 x = true <-> (forall i, 63 <= i -> Z.testbit x i = (x <? 0)).
Proof.
  split.
  - intros H i Hi. apply in64_iff in H. consts.
    destruct (Z.ltb_spec x 0) as [Hneg|Hpos].
    + assert (Hl : Z.testbit (Z.lnot x) i = false).
      { destruct (Z.eq_dec (Z.lnot x) 0) as [->|Hnz]; [apply Z.testbit_0_l|].
        apply Z.bits_above_log2; [unfold Z.lnot; lia|].
        apply Z.lt_le_trans with 63; [|exact Hi]. apply Z.log2_lt_pow2; unfold Z.lnot in *; [lia|].
        change (2 ^ 63) with 9223372036854775808. lia. }
      rewrite Z.lnot_spec in Hl by lia. destruct (Z.testbit x i); [reflexivity|discriminate].
    + destruct (Z.eq_dec x 0) as [->|Hnz]; [apply Z.testbit_0_l|].
      apply Z.bits_above_log2; [lia|]. apply Z.lt_le_trans with 63; [|exact Hi].
      apply Z.log2_lt_pow2; [lia|]. change (2 ^ 63) with 9223372036854775808. lia.
  - intros H. apply in64_iff. consts.
    destruct (Z.ltb_spec x 0) as [Hneg|Hpos].
    + split; [|lia]. destruct (Z_le_gt_dec (-9223372036854775808) x) as [|Hlt]; [assumption|exfalso].
      set (y := Z.lnot x). assert (Hy : 9223372036854775808 <= y) by (unfold y, Z.lnot; lia).
      assert (Hlog : 63 <= Z.log2 y) by (change 63 with (Z.log2 (2 ^ 63)); apply Z.log2_le_mono; exact Hy).
      pose proof (Z.bit_log2 y ltac:(lia)) as Hb. unfold y in Hb at 1. rewrite Z.lnot_spec in Hb by lia.
      rewrite (H _ Hlog) in Hb. discriminate.
    + split; [lia|]. destruct (Z_lt_le_dec x 9223372036854775808) as [|Hge]; [assumption|exfalso].
      assert (Hlog : 63 <= Z.log2 x) by (change 63 with (Z.log2 (2 ^ 63)); apply Z.log2_le_mono; exact Hge).
      pose proof (Z.bit_log2 x ltac:(lia)) as Hb. rewrite (H _ Hlog) in Hb. discriminate.
Qed.

Lemma ltb0_land a b : (Z.land a b <? 0) = (a <? 0) && (b <? 0).
Proof.
  pose proof (Z.land_neg a b).
  destruct (Z.ltb_spec (Z.land a b) 0), (Z.ltb_spec a 0), (Z.ltb_spec b 0); cbn; try reflexivity; lia.
Qed.
Lemma ltb0_lor a b : (Z.lor a b <? 0) = (a <? 0) || (b <? 0).
Proof.
  pose proof (Z.lor_neg a b).
  destruct (Z.ltb_spec (Z.lor a b) 0), (Z.ltb_spec a 0), (Z.ltb_spec b 0); cbn; try reflexivity; lia.
Qed.
Lemma ltb0_lxor a b : (Z.lxor a b <? 0) = xorb (a <? 0) (b <? 0).
Proof.
  pose proof (Z.lxor_nonneg a b).
  destruct (Z.ltb_spec (Z.lxor a b) 0), (Z.ltb_spec a 0), (Z.ltb_spec b 0); cbn; try reflexivity; lia.
Qed.

Lemma land_in64 a b : in64 a = true -> in64 b = true -> in64 (Z.land a b) = true.
Proof.
  intros Ha Hb. apply in64_bits. intros i Hi. rewrite Z.land_spec, ltb0_land.
  rewrite (proj1 (in64_bits a) Ha i Hi), (proj1 (in64_bits b) Hb i Hi). reflexivity.
Qed.
Lemma lor_in64 a b : in64 a = true -> in64 b = true -> in64 (Z.lor a b) = true.
Proof.
  intros Ha Hb. apply in64_bits. intros i Hi. rewrite Z.lor_spec, ltb0_lor.
  rewrite (proj1 (in64_bits a) Ha i Hi), (proj1 (in64_bits b) Hb i Hi). reflexivity.
Qed.
Lemma lxor_in64 a b : in64 a = true -> in64 b = true -> in64 (Z.lxor a b) = true.
Proof.
  intros Ha Hb. apply in64_bits. intros i Hi. rewrite Z.lxor_spec, ltb0_lxor.
  rewrite (proj1 (in64_bits a) Ha i Hi), (proj1 (in64_bits b) Hb i Hi). reflexivity.
Qed.
Lemma lnot_in64 a : in64 a = true -> in64 (Z.lnot a) = true.
Proof. intros Ha. apply in64_iff in Ha. apply in64_iff. unfold Z.lnot. consts. lia. Qed.

(* & | ^ ~ : the result is an int64 whose every bit is the boolean operation of the operand bits *)
Lemma bitand_spec a b : in64 a = true -> in64 b = true ->
  exists r, bitand_ii a b = RInt r /\ in64 r = true /\ forall i, 0 <= i -> Z.testbit r i = Z.testbit a i && Z.testbit b i.
Proof. intros Ha Hb. exists (Z.land a b). split; [reflexivity|]. split; [apply land_in64; assumption|]. intros i _. apply Z.land_spec. Qed.
Lemma bitor_spec a b : in64 a = true -> in64 b = true ->
  exists r, bitor_ii a b = RInt r /\ in64 r = true /\ forall i, 0 <= i -> Z.testbit r i = Z.testbit a i || Z.testbit b i.
Proof. intros Ha Hb. exists (Z.lor a b). split; [reflexivity|]. split; [apply lor_in64; assumption|]. intros i _. apply Z.lor_spec. Qed.
Lemma bitxor_spec a b : in64 a = true -> in64 b = true ->
  exists r, bitxor_ii a b = RInt r /\ in64 r = true /\ forall i, 0 <= i -> Z.testbit r i = xorb (Z.testbit a i) (Z.testbit b i).
Proof. intros Ha Hb. exists (Z.lxor a b). split; [reflexivity|]. split; [apply lxor_in64; assumption|]. intros i _. apply Z.lxor_spec. Qed.
Lemma bitnot_spec a : in64 a = true ->
  exists r, bitnot_i a = RInt r /\ in64 r = true /\ r = - a - 1 /\ forall i, 0 <= i -> Z.testbit r i = negb (Z.testbit a i).
Proof.
  intros Ha. exists (Z.lnot a). split; [reflexivity|]. split; [apply lnot_in64; assumption|].
  split; [unfold Z.lnot; lia|]. intros i Hi. apply Z.lnot_spec. exact Hi.
Qed.

(* the unsigned 64-bit patterns correspond *)
Lemma u64_ones a : u64 a = Z.land a (Z.ones 64).
Proof. unfold u64, two64. symmetry. apply Z.land_ones. lia. Qed.
Lemma u64_land a b : u64 (Z.land a b) = Z.land (u64 a) (u64 b).
Proof.
  rewrite !u64_ones. apply Z.bits_inj'. intros n Hn. rewrite !Z.land_spec.
  destruct (Z.testbit a n), (Z.testbit b n), (Z.testbit (Z.ones 64) n); reflexivity.
Qed.
Lemma u64_lor a b : u64 (Z.lor a b) = Z.lor (u64 a) (u64 b).
Proof.
  rewrite !u64_ones. apply Z.bits_inj'. intros n Hn. rewrite !Z.land_spec, !Z.lor_spec, !Z.land_spec.
  destruct (Z.testbit a n), (Z.testbit b n), (Z.testbit (Z.ones 64) n); reflexivity.
Qed.
Lemma u64_lxor a b : u64 (Z.lxor a b) = Z.lxor (u64 a) (u64 b).
Proof.
  rewrite !u64_ones. apply Z.bits_inj'. intros n Hn. rewrite !Z.land_spec, !Z.lxor_spec, !Z.land_spec.
  destruct (Z.testbit a n), (Z.testbit b n), (Z.testbit (Z.ones 64) n); reflexivity.
Qed.

(* ---------------------------------------------------------------- shifts *)
Lemma u64_count b : in64 b = true -> (0 <= b < 64 /\ u64 b = b) \/ ((b < 0 \/ 64 <= b) /\ 64 <= u64 b).
Proof.
  intros Hb. apply in64_iff in Hb. unfold u64. consts.
  destruct (Z_lt_le_dec b 0) as [Hn|Hp].
  - right. split; [lia|]. rewrite <- (Z.mod_add b 1) by lia. rewrite Z.mod_small by lia. lia.
  - rewrite Z.mod_small by lia. destruct (Z_lt_le_dec b 64); [left|right]; lia.
Qed.

Lemma lsh_spec a b : in64 b = true ->
  lsh_ii a b = RInt (if (0 <=? b) && (b <? 64) then wrap64 (a * 2 ^ b) else 0).
Proof.
  intros Hb. unfold lsh_ii. destruct (u64_count b Hb) as [(Hr & ->)|(Hr & Hu)].
  - destruct (Z.leb_spec 64 b); [lia|]. destruct (Z.leb_spec 0 b); [|lia]. destruct (Z.ltb_spec b 64); [|lia].
    cbn [andb]. rewrite Z.shiftl_mul_pow2 by lia. reflexivity.
  - destruct (Z.leb_spec 64 (u64 b)); [|lia].
    destruct (Z.leb_spec 0 b), (Z.ltb_spec b 64); cbn [andb]; try reflexivity; lia.
Qed.

Lemma srsh_spec a b : in64 b = true ->
  srsh_ii a b = RInt (if (0 <=? b) && (b <? 64) then a / 2 ^ b else if a <? 0 then -1 else 0).
Proof.
  intros Hb. unfold srsh_ii. destruct (u64_count b Hb) as [(Hr & ->)|(Hr & Hu)].
  - destruct (Z.leb_spec 64 b); [lia|]. destruct (Z.leb_spec 0 b); [|lia]. destruct (Z.ltb_spec b 64); [|lia].
    cbn [andb]. rewrite Z.shiftr_div_pow2 by lia. reflexivity.
  - destruct (Z.leb_spec 64 (u64 b)); [|lia].
    destruct (Z.leb_spec 0 b), (Z.ltb_spec b 64); cbn [andb]; try reflexivity; lia.
Qed.

Lemma ursh_spec a b : in64 b = true ->
  ursh_ii a b = RInt (if (0 <=? b) && (b <? 64) then wrap64 (u64 a / 2 ^ b) else 0).
Proof.
  intros Hb. unfold ursh_ii. destruct (u64_count b Hb) as [(Hr & ->)|(Hr & Hu)].
  - destruct (Z.leb_spec 64 b); [lia|]. destruct (Z.leb_spec 0 b); [|lia]. destruct (Z.ltb_spec b 64); [|lia].
    cbn [andb]. rewrite Z.shiftr_div_pow2 by lia. reflexivity.
  - destruct (Z.leb_spec 64 (u64 b)); [|lia].
    destruct (Z.leb_spec 0 b), (Z.ltb_spec b 64); cbn [andb]; try reflexivity; lia.
Qed.

(* a signed right shift of an int64 is an int64 (no wrap needed): floor(a / 2^b) *)
Lemma srsh_in64 a b : in64 a = true -> 0 <= b -> in64 (a / 2 ^ b) = true.
Proof.
  intros Ha Hb. apply in64_iff in Ha. apply in64_iff. consts.
  assert (Hp : 0 < 2 ^ b) by (apply Z.pow_pos_nonneg; lia).
  pose proof (Z.div_mod a (2 ^ b) ltac:(lia)). pose proof (Z.mod_pos_bound a (2 ^ b) Hp). nia.
Qed.

(* ---------------------------------------------------------------- min / max keep ints ints (abs..roundm: ProofsInt.v) *)
Lemma min_ints a b : min_variadic2 (NInt a) (NInt b) = RInt (Z.min a b).
Proof.
  unfold min_variadic2, min_bin, num_of_res. rewrite Z.ltb_irrefl.
  destruct (Z.ltb_spec a b); f_equal; lia.
Qed.
Lemma max_ints a b : max_variadic2 (NInt a) (NInt b) = RInt (Z.max a b).
Proof.
  unfold max_variadic2, max_bin, num_of_res. rewrite Z.ltb_irrefl.
  destruct (Z.ltb_spec b a); f_equal; lia.
Qed.

Lemma neg_wrap a : eval_un UNeg (NInt a) = RInt (wrap64 (- a)). Proof. reflexivity. Qed.
