(* C07 witnesses (by vm_compute on the model, floats included) for the _refuted theorems. *)
From Coq Require Import Floats.
From Miller Require Import Base.Bytes C06.Model C07.Model.
Open Scope Z_scope.

(* a * b >= 2^63 whose double product rounds to 2^63 - 1024: the threshold test alone would let the wrapped product
   through; the division check catches it and the result is the float *)
Lemma times_former_wrap_witness :
  in64 (16440948372290153 * 561) = false /\
  eval_bin OTimes (NInt 16440948372290153) (NInt 561) = RFloat (i2f 16440948372290153 * i2f 561)%float /\
  bits_of_f (i2f 16440948372290153 * i2f 561)%float = float_of_int 9223372036854774784.
Proof. vm_compute. repeat split. Qed.

