(* C07 lemmas: no operator or function of the C07 scope can reach RPanic (the model's outcome for a Go run-time
   panic: integer division by zero), on any int64 / float64 operands. *)
From Coq Require Import Floats.
From Miller Require Import Base.Bytes C06.Model C07.Model C07.Proofs C07.ProofsInt C07.ProofsPow C07.ProofsMod.
Open Scope Z_scope.

(* a number as the implementation can hold it: ints are int64 *)
Definition num_ok (x : num) : Prop := match x with NInt n => in64 n = true | NFloat _ => True end.

Ltac top_cases :=
  cbv zeta;
  repeat (match goal with
          | |- (if ?c then _ else _) <> _ => destruct c
          | |- (match ?c with Some _ => _ | None => _ end) <> _ => destruct c
          end; cbv zeta);
  try (intros HH; discriminate HH).

Lemma un_no_panic op x : eval_un op x <> RPanic.
Proof.
  destruct op as [| | | |u]; destruct x as [a|f]; cbn [eval_un]; try discriminate.
  destruct u; unfold math_unary_i; top_cases.
Qed.

(* the division ux / um in roundm_f_ii cannot see um = 0: the magnitude of a non-zero int64 is non-zero *)
Lemma roundm_ii_no_panic x m : in64 m = true -> roundm_ii x m <> RPanic.
Proof.
  intros Hm. unfold roundm_ii. destruct (Z.eqb_spec m 0) as [|Hm0]; [discriminate|].
  rewrite (umag_abs m Hm). destruct (Z.eqb_spec (Z.abs m) 0) as [Hz|_]; [lia|]. top_cases.
Qed.

Lemma bin_no_panic op x y : num_ok x -> num_ok y -> eval_bin op x y <> RPanic.
Proof.
  intros Hx Hy.
  destruct op; destruct x as [a|fa], y as [b|fb];
    cbn [eval_bin min_variadic2 max_variadic2 min_bin max_bin num_of_res to_f];
    try (intros H; discriminate H).
  - unfold plus_ii. top_cases.
  - unfold minus_ii. top_cases.
  - unfold times_ii. top_cases.
  - unfold divide_ii. top_cases.
  - unfold int_divide_ii. top_cases.
  - unfold modulus_ii. top_cases.
  - apply pow_ii_no_panic.
  - unfold pow_ff. top_cases.
  - unfold pow_ff. top_cases.
  - unfold pow_ff. top_cases.
  - unfold dotdivide_ii. top_cases.
  - unfold lsh_ii. top_cases.
  - unfold srsh_ii. top_cases.
  - unfold ursh_ii. top_cases.
  - apply roundm_ii_no_panic. exact Hy.
Qed.

(* the explicit list of what the three evaluators cover *)
Definition all_binops : list binop :=
  [OPlus; OMinus; OTimes; ODivide; OIntDivide; OMod; OPow; ODotPlus; ODotMinus; ODotTimes; ODotDivide;
   OAnd; OOr; OXor; OLsh; OSrsh; OUrsh; ORoundm; OMin; OMax].
Definition all_unops : list unop :=
  [UNeg; UPos; UNot; UBitcount; UMath FAbs; UMath FCeil; UMath FFloor; UMath FRound; UMath FSgn].
Definition all_ternops : list ternop := [TMadd; TMsub; TMmul; TMexp].

Lemma all_binops_complete op : In op all_binops.
Proof. destruct op; cbn; tauto. Qed.
Lemma all_unops_complete op : In op all_unops.
Proof. destruct op as [| | | |u]; [| | | |destruct u]; cbn; tauto. Qed.
Lemma all_ternops_complete op : In op all_ternops.
Proof. destruct op; cbn; tauto. Qed.

Definition is_value (r : res) : Prop :=
  match r with RInt _ | RFloat _ | RError | RUnmodelled => True | RPanic => False end.

Lemma never_panics_all :
  (forall op x y, In op all_binops -> num_ok x -> num_ok y -> is_value (eval_bin op x y))
  /\ (forall op x, In op all_unops -> num_ok x -> is_value (eval_un op x))
  /\ (forall op x y z, In op all_ternops -> num_ok x -> num_ok y -> num_ok z -> is_value (eval_tern op x y z))
  /\ (forall op, In op all_binops) /\ (forall op, In op all_unops) /\ (forall op, In op all_ternops).
Proof.
  split; [|split; [|split; [|split; [|split]]]].
  - intros op x y _ Hx Hy. pose proof (bin_no_panic op x y Hx Hy) as H. destruct (eval_bin op x y); cbn; try exact I. apply H. reflexivity.
  - intros op x _ _. pose proof (un_no_panic op x) as H. destruct (eval_un op x); cbn; try exact I. apply H. reflexivity.
  - intros op x y z _ _ _ _. pose proof (tern_no_panic op x y z) as H. destruct (eval_tern op x y z); cbn; try exact I. apply H. reflexivity.
  - exact all_binops_complete.
  - exact all_unops_complete.
  - exact all_ternops_complete.
Qed.
