(* C07 lemmas: the int-preserving functions abs ceiling floor round sgn roundm on ints are exact integer arithmetic
   (no float64 round trip), for ALL int64 operands. *)
From Coq Require Import Floats.
From Miller Require Import Base.Bytes C06.Model C07.Model C07.Proofs.
Open Scope Z_scope.

(* ---------------------------------------------------------------- uint64 magnitude / conversions *)
Lemma umag_abs a : in64 a = true -> umag a = Z.abs a.
Proof.
  intros Ha. apply in64_iff in Ha. unfold umag. consts.
  destruct (Z.ltb_spec a 0) as [Hn|Hp].
  - assert (H1 : a mod 18446744073709551616 = a + 18446744073709551616)
      by (symmetry; apply (Z.mod_unique a 18446744073709551616 (-1)); lia).
    rewrite H1. rewrite Z.abs_neq by lia.
    symmetry. apply (Z.mod_unique _ 18446744073709551616 (-1)); lia.
  - rewrite Z.abs_eq by lia. apply Z.mod_small. lia.
Qed.

(* hi == 0 && lo <= 2^63   where hi:lo is the 128-bit value p >= 0 *)
Lemma hi_lo_le p : 0 <= p -> (p / two64 =? 0) && (p mod two64 <=? two63) = (p <=? two63).
Proof.
  intros Hp. consts.
  pose proof (Z.div_mod p 18446744073709551616 ltac:(lia)) as Hdm.
  pose proof (Z.mod_pos_bound p 18446744073709551616 ltac:(lia)) as Hb.
  assert (0 <= p / 18446744073709551616) by (apply Z.div_pos; lia).
  destruct (Z.eqb_spec (p / 18446744073709551616) 0) as [Hz|Hz]; cbn [andb].
  - rewrite Hz in Hdm. replace (p mod 18446744073709551616) with p by lia. reflexivity.
  - symmetry. apply Z.leb_gt. lia.
Qed.

Lemma hi_lo_lt p : 0 <= p -> (p / two64 =? 0) && (p mod two64 <? two63) = (p <? two63).
Proof.
  intros Hp. consts.
  pose proof (Z.div_mod p 18446744073709551616 ltac:(lia)) as Hdm.
  pose proof (Z.mod_pos_bound p 18446744073709551616 ltac:(lia)) as Hb.
  assert (0 <= p / 18446744073709551616) by (apply Z.div_pos; lia).
  destruct (Z.eqb_spec (p / 18446744073709551616) 0) as [Hz|Hz]; cbn [andb].
  - rewrite Hz in Hdm. replace (p mod 18446744073709551616) with p by lia. reflexivity.
  - symmetry. apply Z.ltb_ge. lia.
Qed.

(* int64(-lo) for a uint64 lo <= 2^63 *)
Lemma neg_u64_to_int64 p : 0 <= p <= two63 -> wrap64 ((- (p mod two64)) mod two64) = - p.
Proof.
  intros Hp. consts. rewrite (Z.mod_small p) by lia.
  destruct (Z.eq_dec p 0) as [->|Hnz]; [reflexivity|].
  assert (H1 : (- p) mod 18446744073709551616 = 18446744073709551616 - p)
    by (symmetry; apply (Z.mod_unique _ 18446744073709551616 (-1)); lia).
  rewrite H1. symmetry. apply wrap64_unique.
  - apply in64_iff. consts. lia.
  - consts. replace (18446744073709551616 - p) with (- p + 1 * 18446744073709551616) by lia.
    rewrite Z.mod_add by lia. reflexivity.
Qed.

Lemma pos_u64_to_int64 p : 0 <= p < two63 -> wrap64 (p mod two64) = p.
Proof. intros Hp. consts. rewrite Z.mod_small by lia. apply wrap64_id. apply in64_iff. consts. lia. Qed.

(* ---------------------------------------------------------------- abs ceiling floor round sgn *)
Lemma abs_int_exact a : in64 a = true -> a <> min_int64 -> eval_un (UMath FAbs) (NInt a) = RInt (Z.abs a).
Proof.
  intros Ha Hne. cbn [eval_un math_unary_i]. destruct (Z.eqb_spec a min_int64) as [|_]; [contradiction|].
  apply in64_iff in Ha. unfold min_int64 in Hne. consts.
  destruct (Z.ltb_spec a 0); [rewrite wrap64_id by (apply in64_iff; consts; lia)|]; f_equal; lia.
Qed.

(* |-2^63| = 2^63 does not fit: the float 2^63 *)
Lemma abs_min_int_is_float :
  eval_un (UMath FAbs) (NInt min_int64) = RFloat (- i2f min_int64)%float
  /\ in64 (Z.abs min_int64) = false /\ bits_of_f (- i2f min_int64)%float = float_of_int (Z.abs min_int64).
Proof. vm_compute. repeat split. Qed.

Lemma ceil_floor_round_int_identity a :
  eval_un (UMath FCeil) (NInt a) = RInt a /\ eval_un (UMath FFloor) (NInt a) = RInt a /\ eval_un (UMath FRound) (NInt a) = RInt a.
Proof. repeat split. Qed.

Lemma sgn_int_exact a : eval_un (UMath FSgn) (NInt a) = RInt (Z.sgn a).
Proof.
  cbn [eval_un math_unary_i]. f_equal.
  destruct (Z.ltb_spec 0 a); [rewrite Z.sgn_pos by lia; reflexivity|].
  destruct (Z.ltb_spec a 0); [rewrite Z.sgn_neg by lia; reflexivity|].
  replace a with 0 by lia. reflexivity.
Qed.

(* int-ness: an int unless the value does not fit (only abs of -2^63) *)
Lemma math_unary_int_stays_int u a : in64 a = true -> (u, a) <> (FAbs, min_int64) ->
  exists n, eval_un (UMath u) (NInt a) = RInt n /\ in64 n = true.
Proof.
  intros Ha Hne. destruct u.
  - assert (a <> min_int64) by (intros ->; apply Hne; reflexivity).
    exists (Z.abs a). split; [apply abs_int_exact; assumption|].
    apply in64_iff in Ha. apply in64_iff. unfold min_int64 in *. consts. lia.
  - exists a. split; [reflexivity|exact Ha].
  - exists a. split; [reflexivity|exact Ha].
  - exists a. split; [reflexivity|exact Ha].
  - exists (Z.sgn a). split; [apply sgn_int_exact|]. apply in64_iff. consts. pose proof (Z.sgn_spec a). lia.
Qed.

(* ---------------------------------------------------------------- roundm *)
(* the multiple of m nearest x, halves away from zero: sign(x) * floor((2|x| + |m|) / (2|m|)) * |m| *)
Definition roundm_spec (x m : Z) : Z := Z.sgn x * ((2 * Z.abs x + Z.abs m) / (2 * Z.abs m)) * Z.abs m.

Lemma round_quotient ux um : 0 <= ux -> 0 < um ->
  (if um - ux mod um <=? ux mod um then ux / um + 1 else ux / um) = (2 * ux + um) / (2 * um).
Proof.
  intros Hx Hm.
  pose proof (Z.div_mod ux um ltac:(lia)) as Hdm. pose proof (Z.mod_pos_bound ux um Hm) as Hb.
  set (q := ux / um) in *. set (r := ux mod um) in *.
  destruct (Z.leb_spec (um - r) r) as [Hup|Hdn].
  - apply (Z.div_unique_pos _ _ (q + 1) (2 * r - um)); lia.
  - apply (Z.div_unique_pos _ _ q (2 * r + um)); lia.
Qed.

Lemma roundm_cases x m : in64 x = true -> in64 m = true -> m <> 0 ->
  roundm_ii x m = if in64 (roundm_spec x m) then RInt (roundm_spec x m) else RFloat (mlr_roundm (i2f x) (i2f m)).
Proof.
  intros Hx Hm Hm0. unfold roundm_ii, roundm_spec.
  destruct (Z.eqb_spec m 0) as [|_]; [contradiction|].
  rewrite (umag_abs x Hx), (umag_abs m Hm).
  apply in64_iff in Hx, Hm.
  assert (Hum : 0 < Z.abs m) by lia. assert (Hux : 0 <= Z.abs x) by lia.
  destruct (Z.eqb_spec (Z.abs m) 0) as [|_]; [lia|].
  cbv zeta.
  set (ux := Z.abs x) in *. set (um := Z.abs m) in *.
  assert (Hq : 0 <= ux / um <= two63).
  { split; [apply Z.div_pos; lia|]. apply Z.div_le_upper_bound; [lia|]. consts. nia. }
  assert (Hq1 : (ux / um + 1) mod two64 = ux / um + 1) by (consts; apply Z.mod_small; consts; lia).
  rewrite Hq1, (round_quotient ux um Hux Hum).
  set (K := (2 * ux + um) / (2 * um)).
  assert (HK : 0 <= K) by (apply Z.div_pos; lia).
  assert (Hp : 0 <= K * um) by nia.
  destruct (Z.ltb_spec x 0) as [Hneg|Hnn].
  - rewrite (hi_lo_le _ Hp). rewrite Z.sgn_neg by lia.
    replace (-1 * K * um) with (- (K * um)) by lia.
    destruct (Z.leb_spec (K * um) two63) as [Hle|Hgt].
    + rewrite (neg_u64_to_int64 (K * um)) by lia.
      replace (in64 (- (K * um))) with true; [reflexivity|]. symmetry. apply in64_iff. consts. lia.
    + replace (in64 (- (K * um))) with false; [reflexivity|]. symmetry. apply in64_false_iff. consts. lia.
  - rewrite (hi_lo_lt _ Hp).
    destruct (Z.eq_dec x 0) as [Hx0|Hx0].
    + assert (ux = 0) by (unfold ux; lia).
      assert (K = 0) by (unfold K; apply Z.div_small; lia).
      replace (K * um) with 0 by lia. rewrite Hx0. reflexivity.
    + rewrite Z.sgn_pos by lia. replace (1 * K * um) with (K * um) by lia.
      destruct (Z.ltb_spec (K * um) two63) as [Hlt|Hge].
      * rewrite (Z.mod_small (K * um)) by (consts; lia). rewrite wrap64_id by (apply in64_iff; consts; lia).
        replace (in64 (K * um)) with true; [reflexivity|]. symmetry. apply in64_iff. consts. lia.
      * replace (in64 (K * um)) with false; [reflexivity|]. symmetry. apply in64_false_iff. consts. lia.
Qed.

Lemma roundm_exact x m : in64 x = true -> in64 m = true -> m <> 0 -> in64 (roundm_spec x m) = true ->
  eval_bin ORoundm (NInt x) (NInt m) = RInt (roundm_spec x m).
Proof. intros Hx Hm Hm0 Hr. cbn [eval_bin]. rewrite (roundm_cases x m Hx Hm Hm0), Hr. reflexivity. Qed.

Lemma roundm_overflow_float x m : in64 x = true -> in64 m = true -> m <> 0 -> in64 (roundm_spec x m) = false ->
  eval_bin ORoundm (NInt x) (NInt m) = RFloat (mlr_roundm (i2f x) (i2f m)).
Proof. intros Hx Hm Hm0 Hr. cbn [eval_bin]. rewrite (roundm_cases x m Hx Hm Hm0), Hr. reflexivity. Qed.

Lemma roundm_zero_modulus_float x : eval_bin ORoundm (NInt x) (NInt 0) = RFloat (mlr_roundm (i2f x) (i2f 0)).
Proof. reflexivity. Qed.

(* what roundm_spec is: a multiple of m, no farther from x than any other multiple, ties resolved away from zero *)
Lemma roundm_spec_nearest x m : m <> 0 ->
  (exists k, roundm_spec x m = k * m)
  /\ 2 * Z.abs (x - roundm_spec x m) <= Z.abs m
  /\ (forall k, Z.abs (x - roundm_spec x m) <= Z.abs (x - k * m))
  /\ (2 * Z.abs (x - roundm_spec x m) = Z.abs m -> Z.abs x < Z.abs (roundm_spec x m)).
Proof.
  intros Hm0. unfold roundm_spec.
  assert (Hum : 0 < Z.abs m) by lia.
  set (ux := Z.abs x). set (um := Z.abs m) in *.
  set (K := (2 * ux + um) / (2 * um)).
  pose proof (Z.div_mod (2 * ux + um) (2 * um) ltac:(lia)) as Hdm.
  pose proof (Z.mod_pos_bound (2 * ux + um) (2 * um) ltac:(lia)) as Hb.
  fold K in Hdm. set (t := (2 * ux + um) mod (2 * um)) in *.
  assert (Hux : 0 <= ux) by (unfold ux; lia).
  assert (HK : 0 <= K) by (apply Z.div_pos; lia).
  (* |x| - K*um = (t - um)/2 , so 2 * | |x| - K um | = |t - um| <= um *)
  assert (Hd : 2 * (ux - K * um) = t - um) by lia.
  assert (Hsx : x = Z.sgn x * ux) by (unfold ux; pose proof (Z.sgn_spec x); destruct (Z.abs_spec x); nia).
  assert (Hdist : Z.abs (x - Z.sgn x * K * um) = Z.abs (ux - K * um) \/ (x = 0 /\ K = 0)).
  { destruct (Z.sgn_spec x) as [[Hc Hs]|[[Hc Hs]|[Hc Hs]]].
    - left. f_equal. rewrite Hs. unfold ux. lia.
    - right. split; [lia|]. unfold K. apply Z.div_small. unfold ux. lia.
    - left. replace (x - Z.sgn x * K * um) with (- (ux - K * um)) by (rewrite Hs; unfold ux; lia). apply Z.abs_opp. }
  assert (Hhalf : 2 * Z.abs (x - Z.sgn x * K * um) <= um).
  { destruct Hdist as [Hd1|[Hx0 HK0]]; [rewrite Hd1; lia|]. rewrite Hx0, HK0. cbn. lia. }
  repeat split.
  - exists (Z.sgn x * K * Z.sgn m). unfold um. pose proof (Z.sgn_spec m). destruct (Z.abs_spec m); nia.
  - exact Hhalf.
  - intros k.
    destruct (Z.eq_dec (k * m) (Z.sgn x * K * um)) as [->|Hne]; [lia|].
    (* two distinct multiples of m are at least |m| apart *)
    assert (Hmult : exists j, Z.sgn x * K * um = j * m).
    { exists (Z.sgn x * K * Z.sgn m). unfold um. pose proof (Z.sgn_spec m). destruct (Z.abs_spec m); nia. }
    destruct Hmult as (j & Hj).
    assert (Hgap : um <= Z.abs (k * m - j * m)).
    { replace (k * m - j * m) with ((k - j) * m) by lia. rewrite Z.abs_mul. fold um.
      assert (k - j <> 0) by (intros Hz; apply Hne; rewrite Hj; f_equal; lia).
      assert (1 <= Z.abs (k - j)) by lia. nia. }
    rewrite Hj in *. lia.
  - intros Htie.
    destruct Hdist as [Hd1|[Hx0 HK0]].
    + rewrite Hd1 in Htie.
      (* tie: t = 0 or t = 2um (impossible) -> t = 0 -> K um = ux + um/2 > ux *)
      assert (t = 0) by lia.
      assert (K * um > ux) by lia.
      rewrite !Z.abs_mul. fold um.
      assert (x <> 0) by (intros ->; unfold ux in *; cbn in *; nia).
      assert (Z.abs (Z.sgn x) = 1) by (pose proof (Z.sgn_spec x); lia).
      rewrite (Z.abs_eq K) by lia. rewrite (Z.abs_eq um) by lia. fold ux. nia.
    + rewrite Hx0, HK0 in Htie. cbn in Htie. lia.
Qed.
