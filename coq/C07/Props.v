(* C07 property theorems.  Only statements closed by [exact]; each followed by Print Assumptions.
   All are stated over C07.Model (the definitions C07.Harness evaluates against the implementation).
   Ints are Z constrained by in64; float results are opaque (no floating-point reasoning here). *)
(* Floats is deliberately not imported here: the primitive float operations then print fully qualified
   (PrimFloat.add ...) in Print Assumptions, which lists kernel primitives under "Axioms:". *)
From Miller Require Import Base.Bytes C06.Model C07.Model C07.Proofs C07.ProofsBits C07.ProofsInt C07.ProofsPow C07.ProofsTimes C07.ProofsMod C07.ProofsPanic C07.ProofsWit C07.ProofsMixed C07.ProofsConv.
Open Scope Z_scope.

(* ---- + and - : exact when the result fits ---- *)
Theorem C07_plus_exact_when_fits :
  forall a b, in64 a = true -> in64 b = true -> in64 (a + b) = true -> eval_bin OPlus (NInt a) (NInt b) = RInt (a + b).
Proof. exact plus_exact. Qed.
Print Assumptions C07_plus_exact_when_fits.

Theorem C07_minus_exact_when_fits :
  forall a b, in64 a = true -> in64 b = true -> in64 (a - b) = true -> eval_bin OMinus (NInt a) (NInt b) = RInt (a - b).
Proof. exact minus_exact. Qed.
Print Assumptions C07_minus_exact_when_fits.

(* ---- + and - : overflow gives the float sum / difference of the converted operands, for ALL int64 operands
   (repaired by /repo 9dd59d176: the -2^63 corners are now detected) ---- *)
Theorem C07_plus_overflows_to_float :
  forall a b, in64 a = true -> in64 b = true -> in64 (a + b) = false ->
  eval_bin OPlus (NInt a) (NInt b) = RFloat (PrimFloat.add (i2f a) (i2f b)).
Proof. exact plus_overflow_float. Qed.
Print Assumptions C07_plus_overflows_to_float.

Theorem C07_minus_overflows_to_float :
  forall a b, in64 a = true -> in64 b = true -> in64 (a - b) = false ->
  eval_bin OMinus (NInt a) (NInt b) = RFloat (PrimFloat.sub (i2f a) (i2f b)).
Proof. exact minus_overflow_float. Qed.
Print Assumptions C07_minus_overflows_to_float.

(* never a wrapped integer *)
Theorem C07_plus_never_wraps :
  forall a b n, in64 a = true -> in64 b = true -> eval_bin OPlus (NInt a) (NInt b) = RInt n -> n = a + b.
Proof. exact plus_int_is_exact. Qed.
Print Assumptions C07_plus_never_wraps.

Theorem C07_minus_never_wraps :
  forall a b n, in64 a = true -> in64 b = true -> eval_bin OMinus (NInt a) (NInt b) = RInt n -> n = a - b.
Proof. exact minus_int_is_exact. Qed.
Print Assumptions C07_minus_never_wraps.

(* ---- * : the exact product whenever it fits in 64 bits, the float product of the converted operands otherwise, for ALL
   int64 operands (/repo fix: the 128-bit product of the magnitudes by math/bits.Mul64 decides; formerly a float-magnitude
   threshold answered with a float within 1024 of 2^63: C07_times_exact_when_fits_refuted at (2^63-1)*1) ---- *)
Theorem C07_times_exact_when_fits :
  forall a b, in64 a = true -> in64 b = true -> in64 (a * b) = true -> eval_bin OTimes (NInt a) (NInt b) = RInt (a * b).
Proof. exact times_exact. Qed.
Print Assumptions C07_times_exact_when_fits.

Theorem C07_times_never_wraps :
  forall a b n, in64 a = true -> in64 b = true -> eval_bin OTimes (NInt a) (NInt b) = RInt n -> n = a * b.
Proof. exact times_int_is_exact. Qed.
Print Assumptions C07_times_never_wraps.

Theorem C07_times_overflows_to_float :
  forall a b, in64 a = true -> in64 b = true -> in64 (a * b) = false ->
  eval_bin OTimes (NInt a) (NInt b) = RFloat (PrimFloat.mul (i2f a) (i2f b)).
Proof. exact times_overflow_is_float. Qed.
Print Assumptions C07_times_overflows_to_float.

Theorem C07_times_int_iff_product_fits :
  forall a b, in64 a = true -> in64 b = true -> ((exists n, eval_bin OTimes (NInt a) (NInt b) = RInt n) <-> in64 (a * b) = true).
Proof. exact times_int_iff_fits. Qed.
Print Assumptions C07_times_int_iff_product_fits.

Theorem C07_times_former_defect_witnesses :
  eval_bin OTimes (NInt 9223372036854775807) (NInt 1) = RInt 9223372036854775807
  /\ eval_bin OTimes (NInt (-2147483648)) (NInt 4294967296) = RInt min_int64
  /\ eval_bin OTimes (NInt 3037000499) (NInt 3037000499) = RInt 9223372030926249001
  /\ eval_bin OTimes (NInt min_int64) (NInt 1) = RInt min_int64
  /\ eval_bin OTimes (NInt (-1)) (NInt min_int64) = RFloat (PrimFloat.mul (i2f (-1)) (i2f min_int64))
  /\ eval_bin OTimes (NInt 2147483648) (NInt 4294967296) = RFloat (PrimFloat.mul (i2f 2147483648) (i2f 4294967296))
  /\ eval_bin OTimes (NInt (-2)) (NInt (-4611686018427387904)) = RFloat (PrimFloat.mul (i2f (-2)) (i2f (-4611686018427387904)))
  /\ bits_of_f (PrimFloat.mul (i2f 2147483648) (i2f 4294967296)) = float_of_int two63.
Proof. exact times_band_witnesses. Qed.
Print Assumptions C07_times_former_defect_witnesses.

(* ---- / : exact quotient when one exists (and fits), float otherwise ---- *)
Theorem C07_divide_exact_quotient :
  forall a b q, in64 a = true -> in64 b = true -> b <> 0 -> a = b * q -> in64 q = true ->
  eval_bin ODivide (NInt a) (NInt b) = RInt q.
Proof. exact divide_exact. Qed.
Print Assumptions C07_divide_exact_quotient.

Theorem C07_divide_inexact_is_float :
  forall a b, b <> 0 -> (forall q, a <> b * q) -> eval_bin ODivide (NInt a) (NInt b) = RFloat (PrimFloat.div (i2f a) (i2f b)).
Proof. exact divide_inexact_float. Qed.
Print Assumptions C07_divide_inexact_is_float.

(* an int result exactly when the divisor divides the dividend and the quotient fits (6/2 is int 3, 7/2 is float 3.5) *)
Theorem C07_divide_int_iff_divisible :
  forall a b n, in64 a = true -> in64 b = true -> b <> 0 ->
  (eval_bin ODivide (NInt a) (NInt b) = RInt n <-> (a = b * n /\ in64 n = true)).
Proof. exact (fun a b n Ha Hb Hb0 => divide_int_iff_divisible a b Ha Hb Hb0 n). Qed.
Print Assumptions C07_divide_int_iff_divisible.

Theorem C07_divide_not_divisible_is_float :
  forall a b, in64 a = true -> in64 b = true -> b <> 0 -> (forall q, ~ (a = b * q /\ in64 q = true)) ->
  exists f, eval_bin ODivide (NInt a) (NInt b) = RFloat f.
Proof. exact divide_float_iff_not_divisible. Qed.
Print Assumptions C07_divide_not_divisible_is_float.

Theorem C07_divide_examples :
  eval_bin ODivide (NInt 6) (NInt 2) = RInt 3 /\ (exists f, eval_bin ODivide (NInt 7) (NInt 2) = RFloat f /\ bits_of_f f = 4615063718147915776)
  /\ eval_bin ODivide (NInt (-6)) (NInt 3) = RInt (-2) /\ eval_bin ODivide (NInt min_int64) (NInt 1) = RInt min_int64 /\ eval_bin ODivide (NInt 0) (NInt 5) = RInt 0.
Proof. exact divide_examples. Qed.
Print Assumptions C07_divide_examples.

(* the one exact quotient of two int64s that does not fit, -2^63 / -1 = 2^63, is the float 2^63 for / and // (/repo 0499ffd56) *)
Theorem C07_divide_min_by_minus_one_is_float :
  eval_bin ODivide (NInt min_int64) (NInt (-1)) = RFloat (PrimFloat.opp (i2f min_int64))
  /\ eval_bin OIntDivide (NInt min_int64) (NInt (-1)) = RFloat (PrimFloat.opp (i2f min_int64))
  /\ min_int64 = -1 * two63 /\ in64 two63 = false /\ bits_of_f (PrimFloat.opp (i2f min_int64)) = float_of_int two63.
Proof. exact divide_hole_float. Qed.
Print Assumptions C07_divide_min_by_minus_one_is_float.

(* zero divisors of / // % give a float (Inf or NaN), not a crash *)
Theorem C07_zero_divisor_is_float :
  forall a, eval_bin ODivide (NInt a) (NInt 0) = RFloat (PrimFloat.div (i2f a) (i2f 0))
         /\ eval_bin OIntDivide (NInt a) (NInt 0) = RFloat (PrimFloat.div (i2f a) (i2f 0))
         /\ eval_bin OMod (NInt a) (NInt 0) = RFloat (PrimFloat.div (i2f a) (i2f 0)).
Proof. exact (fun a => conj (divide_by_zero_float a) (conj (int_divide_by_zero_float a) (modulus_by_zero_float a))). Qed.
Print Assumptions C07_zero_divisor_is_float.

(* ---- // floors (Z.div is the floor quotient); the excluded pair is exactly the one whose floor quotient does not
   fit (second theorem) and gives the float 2^63 (theorem above) ---- *)
Theorem C07_int_divide_floors :
  forall a b, in64 a = true -> in64 b = true -> b <> 0 -> (a, b) <> (min_int64, -1) ->
  eval_bin OIntDivide (NInt a) (NInt b) = RInt (a / b).
Proof. exact int_divide_floor. Qed.
Print Assumptions C07_int_divide_floors.

Theorem C07_floor_quotient_fits_except_min_by_minus_one :
  forall a b, in64 a = true -> in64 b = true -> b <> 0 -> (in64 (a / b) = false <-> (a, b) = (min_int64, -1)).
Proof. exact floor_quotient_fits. Qed.
Print Assumptions C07_floor_quotient_fits_except_min_by_minus_one.

(* ---- % : the floor modulus (Z.modulo), for ALL int64 operands with a non-zero divisor (/repo 7910d392d) ---- *)
Theorem C07_modulus_is_floor_mod :
  forall a b, in64 a = true -> in64 b = true -> b <> 0 -> eval_bin OMod (NInt a) (NInt b) = RInt (a mod b).
Proof. exact modulus_floor_mod. Qed.
Print Assumptions C07_modulus_is_floor_mod.

Theorem C07_modulus_takes_divisor_sign :
  forall a b m, in64 a = true -> in64 b = true -> b <> 0 ->
  eval_bin OMod (NInt a) (NInt b) = RInt m -> (0 < b -> 0 <= m < b) /\ (b < 0 -> b < m <= 0).
Proof. exact modulus_sign. Qed.
Print Assumptions C07_modulus_takes_divisor_sign.

Theorem C07_divmod_identity :
  forall a b q m, in64 a = true -> in64 b = true -> b <> 0 ->
  eval_bin OIntDivide (NInt a) (NInt b) = RInt q -> eval_bin OMod (NInt a) (NInt b) = RInt m -> a = b * q + m.
Proof. exact divmod_identity. Qed.
Print Assumptions C07_divmod_identity.

(* ---- ** : int ** int is the exact integer when it fits and a float otherwise (/repo fix: int_power, exact integer
   power with overflow detection; formerly through float64 math.Pow: C07_pow_exact_when_fits_refuted at 3**39).
   pow_float a b is the float math.Pow(float64 a, float64 b) of the model's port of go1.25 pow.go ---- *)
Theorem C07_pow_exact_when_fits :
  forall a b, in64 a = true -> 0 <= b -> in64 (a ^ b) = true -> eval_bin OPow (NInt a) (NInt b) = RInt (a ^ b).
Proof. exact pow_exact. Qed.
Print Assumptions C07_pow_exact_when_fits.

Theorem C07_pow_overflows_to_float :
  forall a b, in64 a = true -> 0 <= b -> in64 (a ^ b) = false ->
  eval_bin OPow (NInt a) (NInt b) = pow_float a b /\ forall n, pow_float a b <> RInt n.
Proof. exact (fun a b Ha Hb Hf => conj (pow_overflow_float a b Ha Hb Hf) (pow_float_not_int a b)). Qed.
Print Assumptions C07_pow_overflows_to_float.

Theorem C07_pow_never_wraps :
  forall a b n, in64 a = true -> 0 <= b -> eval_bin OPow (NInt a) (NInt b) = RInt n -> n = a ^ b.
Proof. exact pow_int_is_exact. Qed.
Print Assumptions C07_pow_never_wraps.

(* a negative exponent gives a float (2 ** -1 = 0.5; 2 ** -1075 is the float 0, formerly int 0), except for the
   bases 1 and -1 whose reciprocal powers are ints *)
Theorem C07_pow_negative_exponent :
  forall a b, b < 0 ->
  (a <> 1 -> a <> -1 -> eval_bin OPow (NInt a) (NInt b) = pow_float a b /\ forall n, pow_float a b <> RInt n)
  /\ eval_bin OPow (NInt 1) (NInt b) = RInt 1 /\ eval_bin OPow (NInt (-1)) (NInt b) = RInt (if Z.odd b then -1 else 1).
Proof.
  exact (fun a b Hb => conj (fun H1 Hm1 => conj (pow_negative_exponent_float a b Hb H1 Hm1) (pow_float_not_int a b))
                            (pow_negative_exponent_unit_base b Hb)).
Qed.
Print Assumptions C07_pow_negative_exponent.

Theorem C07_pow_former_defect_witnesses :
  eval_bin OPow (NInt 3) (NInt 39) = RInt 4052555153018976267 /\ 3 ^ 39 = 4052555153018976267
  /\ eval_bin OPow (NInt 7) (NInt 22) = RInt (7 ^ 22)
  /\ eval_bin OPow (NInt (-1)) (NInt 9007199254740993) = RInt (-1)
  /\ eval_bin OPow (NInt 9223372036854775807) (NInt 1) = RInt 9223372036854775807
  /\ eval_bin OPow (NInt (-2)) (NInt 63) = RInt min_int64
  /\ (exists f, eval_bin OPow (NInt 2) (NInt 63) = RFloat f /\ bits_of_f f = float_of_int two63)
  /\ (exists f, eval_bin OPow (NInt 2) (NInt (-1075)) = RFloat f /\ bits_of_f f = 0)
  /\ (exists f, eval_bin OPow (NInt 2) (NInt (-1)) = RFloat f /\ bits_of_f f = 4602678819172646912).
Proof. exact pow_former_witnesses. Qed.
Print Assumptions C07_pow_former_defect_witnesses.

(* ---- dot operators: 64-bit two's complement ---- *)
Theorem C07_dot_operators_wrap :
  forall a b, eval_bin ODotPlus (NInt a) (NInt b) = RInt (wrap64 (a + b))
           /\ eval_bin ODotMinus (NInt a) (NInt b) = RInt (wrap64 (a - b))
           /\ eval_bin ODotTimes (NInt a) (NInt b) = RInt (wrap64 (a * b))
           /\ (b <> 0 -> eval_bin ODotDivide (NInt a) (NInt b) = RInt (wrap64 (Z.quot a b)))
           /\ eval_bin ODotDivide (NInt a) (NInt 0) = RFloat (PrimFloat.div (i2f a) (i2f 0)).
Proof. exact (fun a b => conj (dotplus_wrap a b) (conj (dotminus_wrap a b) (conj (dottimes_wrap a b) (conj (dotdivide_trunc a b) (dotdivide_zero_float a))))). Qed.
Print Assumptions C07_dot_operators_wrap.

(* what wrap64 means: the unique int64 congruent to the exact value modulo 2^64 *)
Theorem C07_wrap64_is_twos_complement :
  forall n, in64 (wrap64 n) = true /\ wrap64 n mod two64 = n mod two64
         /\ (forall r, in64 r = true -> r mod two64 = n mod two64 -> r = wrap64 n)
         /\ (in64 n = true -> wrap64 n = n).
Proof. exact (fun n => conj (wrap64_in64 n) (conj (wrap64_congr n) (conj (wrap64_unique n) (wrap64_id n)))). Qed.
Print Assumptions C07_wrap64_is_twos_complement.

(* ---- & | ^ ~ : bitwise on the two's-complement representation, result again an int64 ---- *)
Theorem C07_bitand_twos_complement :
  forall a b, in64 a = true -> in64 b = true ->
  exists r, eval_bin OAnd (NInt a) (NInt b) = RInt r /\ in64 r = true /\
            forall i, 0 <= i -> Z.testbit r i = Z.testbit a i && Z.testbit b i.
Proof. exact bitand_spec. Qed.
Print Assumptions C07_bitand_twos_complement.

Theorem C07_bitor_twos_complement :
  forall a b, in64 a = true -> in64 b = true ->
  exists r, eval_bin OOr (NInt a) (NInt b) = RInt r /\ in64 r = true /\
            forall i, 0 <= i -> Z.testbit r i = Z.testbit a i || Z.testbit b i.
Proof. exact bitor_spec. Qed.
Print Assumptions C07_bitor_twos_complement.

Theorem C07_bitxor_twos_complement :
  forall a b, in64 a = true -> in64 b = true ->
  exists r, eval_bin OXor (NInt a) (NInt b) = RInt r /\ in64 r = true /\
            forall i, 0 <= i -> Z.testbit r i = xorb (Z.testbit a i) (Z.testbit b i).
Proof. exact bitxor_spec. Qed.
Print Assumptions C07_bitxor_twos_complement.

Theorem C07_bitnot_twos_complement :
  forall a, in64 a = true ->
  exists r, eval_un UNot (NInt a) = RInt r /\ in64 r = true /\ r = - a - 1 /\
            forall i, 0 <= i -> Z.testbit r i = negb (Z.testbit a i).
Proof. exact bitnot_spec. Qed.
Print Assumptions C07_bitnot_twos_complement.

(* the unsigned 64-bit patterns (x mod 2^64) of the results are the bitwise operations of the operand patterns *)
Theorem C07_bitops_on_unsigned_patterns :
  forall a b, u64 (Z.land a b) = Z.land (u64 a) (u64 b) /\ u64 (Z.lor a b) = Z.lor (u64 a) (u64 b)
           /\ u64 (Z.lxor a b) = Z.lxor (u64 a) (u64 b).
Proof. exact (fun a b => conj (u64_land a b) (conj (u64_lor a b) (u64_lxor a b))). Qed.
Print Assumptions C07_bitops_on_unsigned_patterns.

(* ---- shifts: counts 0..63 shift; negative counts and counts beyond 63 shift everything out ---- *)
Theorem C07_left_shift :
  forall a b, in64 b = true ->
  eval_bin OLsh (NInt a) (NInt b) = RInt (if (0 <=? b) && (b <? 64) then wrap64 (a * 2 ^ b) else 0).
Proof. exact lsh_spec. Qed.
Print Assumptions C07_left_shift.

Theorem C07_signed_right_shift :
  forall a b, in64 b = true ->
  eval_bin OSrsh (NInt a) (NInt b) = RInt (if (0 <=? b) && (b <? 64) then a / 2 ^ b else if a <? 0 then -1 else 0).
Proof. exact srsh_spec. Qed.
Print Assumptions C07_signed_right_shift.

Theorem C07_unsigned_right_shift :
  forall a b, in64 b = true ->
  eval_bin OUrsh (NInt a) (NInt b) = RInt (if (0 <=? b) && (b <? 64) then wrap64 (u64 a / 2 ^ b) else 0).
Proof. exact ursh_spec. Qed.
Print Assumptions C07_unsigned_right_shift.

(* ---- int-ness: min/max of ints are the exact int; abs/ceiling/floor/round/sgn/roundm of ints are the exact ints ---- *)
Theorem C07_min_max_of_ints_exact :
  forall a b, eval_bin OMin (NInt a) (NInt b) = RInt (Z.min a b) /\ eval_bin OMax (NInt a) (NInt b) = RInt (Z.max a b).
Proof. exact (fun a b => conj (min_ints a b) (max_ints a b)). Qed.
Print Assumptions C07_min_max_of_ints_exact.

(* abs/ceiling/floor/round/sgn of an int: the exact integer (/repo fix: integer kernels, no float64 round trip;
   formerly C07_int_preserving_value_refuted at floor(2^53+1), ceiling(2^63-1)) *)
Theorem C07_unary_math_of_int_exact :
  forall a, in64 a = true ->
  (a <> min_int64 -> eval_un (UMath FAbs) (NInt a) = RInt (Z.abs a))
  /\ eval_un (UMath FCeil) (NInt a) = RInt a /\ eval_un (UMath FFloor) (NInt a) = RInt a /\ eval_un (UMath FRound) (NInt a) = RInt a
  /\ eval_un (UMath FSgn) (NInt a) = RInt (Z.sgn a).
Proof.
  exact (fun a Ha => conj (abs_int_exact a Ha) (conj (proj1 (ceil_floor_round_int_identity a)) (conj (proj1 (proj2 (ceil_floor_round_int_identity a)))
                     (conj (proj2 (proj2 (ceil_floor_round_int_identity a))) (sgn_int_exact a))))).
Qed.
Print Assumptions C07_unary_math_of_int_exact.

(* the one int whose absolute value does not fit: abs(-2^63) overflows to the float 2^63, like the arithmetic operators *)
Theorem C07_abs_min_int_overflows_to_float :
  eval_un (UMath FAbs) (NInt min_int64) = RFloat (PrimFloat.opp (i2f min_int64))
  /\ in64 (Z.abs min_int64) = false /\ bits_of_f (PrimFloat.opp (i2f min_int64)) = float_of_int (Z.abs min_int64).
Proof. exact abs_min_int_is_float. Qed.
Print Assumptions C07_abs_min_int_overflows_to_float.

Theorem C07_unary_math_preserves_int :
  forall u a, in64 a = true -> (u, a) <> (FAbs, min_int64) -> exists n, eval_un (UMath u) (NInt a) = RInt n /\ in64 n = true.
Proof. exact math_unary_int_stays_int. Qed.
Print Assumptions C07_unary_math_preserves_int.

(* roundm of ints: the multiple of m nearest x, ties away from zero (roundm_spec; characterised by the next theorem),
   an int whenever it fits, the float round(x/m)*m otherwise; m = 0 gives the float round(x/0)*0 = NaN
   (/repo fix: exact integer arithmetic; formerly roundm(7,0) = -2^63 and low bits lost beyond 2^53) *)
Theorem C07_roundm_exact :
  forall x m, in64 x = true -> in64 m = true -> m <> 0 ->
  (in64 (roundm_spec x m) = true -> eval_bin ORoundm (NInt x) (NInt m) = RInt (roundm_spec x m))
  /\ (in64 (roundm_spec x m) = false -> eval_bin ORoundm (NInt x) (NInt m) = RFloat (mlr_roundm (i2f x) (i2f m))).
Proof. exact (fun x m Hx Hm Hm0 => conj (roundm_exact x m Hx Hm Hm0) (roundm_overflow_float x m Hx Hm Hm0)). Qed.
Print Assumptions C07_roundm_exact.

Theorem C07_roundm_spec_is_nearest_multiple :
  forall x m, m <> 0 ->
  (exists k, roundm_spec x m = k * m)
  /\ 2 * Z.abs (x - roundm_spec x m) <= Z.abs m
  /\ (forall k, Z.abs (x - roundm_spec x m) <= Z.abs (x - k * m))
  /\ (2 * Z.abs (x - roundm_spec x m) = Z.abs m -> Z.abs x < Z.abs (roundm_spec x m)).
Proof. exact roundm_spec_nearest. Qed.
Print Assumptions C07_roundm_spec_is_nearest_multiple.

Theorem C07_roundm_zero_modulus_is_float :
  forall x, eval_bin ORoundm (NInt x) (NInt 0) = RFloat (mlr_roundm (i2f x) (i2f 0)).
Proof. exact roundm_zero_modulus_float. Qed.
Print Assumptions C07_roundm_zero_modulus_is_float.

(* ---- madd/msub/mmul/mexp = exact modular arithmetic for m > 0, for ALL int64 operands (/repo fix: the exact math/big
   sum, difference, product is reduced; formerly the 64-bit wrapped value: C07_mod_ops_exact_refuted).
   m = 0: error value, theorem C07_zero_modulus_is_error; m < 0: mlrmod of the exact value, not specified by the property ---- *)
Theorem C07_madd_exact :
  forall a b m, in64 m = true -> 0 < m -> eval_tern TMadd (NInt a) (NInt b) (NInt m) = RInt ((a + b) mod m).
Proof. exact madd_exact. Qed.
Print Assumptions C07_madd_exact.

Theorem C07_msub_exact :
  forall a b m, in64 m = true -> 0 < m -> eval_tern TMsub (NInt a) (NInt b) (NInt m) = RInt ((a - b) mod m).
Proof. exact msub_exact. Qed.
Print Assumptions C07_msub_exact.

Theorem C07_mmul_exact :
  forall a b m, in64 m = true -> 0 < m -> eval_tern TMmul (NInt a) (NInt b) (NInt m) = RInt ((a * b) mod m).
Proof. exact mmul_exact. Qed.
Print Assumptions C07_mmul_exact.

(* mexp by the repeated-squaring invariant c * apower^u = a^e (mod m): every base, every exponent e >= 0, every modulus m > 0 *)
Theorem C07_mexp_exact :
  forall a e m, in64 m = true -> 0 < m -> 0 <= e -> in64 e = true ->
  eval_tern TMexp (NInt a) (NInt e) (NInt m) = RInt (a ^ e mod m).
Proof. exact mexp_exact. Qed.
Print Assumptions C07_mexp_exact.

Theorem C07_mod_ops_former_defect_witnesses :
  eval_tern TMadd (NInt (2 ^ 62)) (NInt (2 ^ 62)) (NInt 3) = RInt 2 /\ (2 ^ 62 + 2 ^ 62) mod 3 = 2 /\
  eval_tern TMmul (NInt (2 ^ 32)) (NInt (2 ^ 32)) (NInt 7) = RInt 2 /\ (2 ^ 32 * 2 ^ 32) mod 7 = 2 /\
  eval_tern TMexp (NInt (2 ^ 32)) (NInt 3) (NInt 3) = RInt 1 /\ (2 ^ 32) ^ 3 mod 3 = 1.
Proof. exact mop_former_wrap_witnesses. Qed.
Print Assumptions C07_mod_ops_former_defect_witnesses.

Theorem C07_mexp_negative_exponent_is_error :
  forall a e m, e < 0 -> eval_tern TMexp (NInt a) (NInt e) (NInt m) = RError.
Proof. exact mexp_negative_exponent_error. Qed.
Print Assumptions C07_mexp_negative_exponent_is_error.

(* ---- mixed int/float and float/float operands: the IEEE-754 double operation on the converted operands
   (to_f (NInt n) = i2f n = float64(n) correctly rounded, to_f (NFloat f) = f).  Definitional in the model -- it is what
   the *_f_if/_f_fi/_f_ff kernels do; the tie to the code is the bit-exact correspondence ---- *)
Theorem C07_mixed_arithmetic_is_ieee_on_converted_operands :
  forall x y, has_float x y ->
  eval_bin OPlus x y = RFloat (PrimFloat.add (to_f x) (to_f y)) /\ eval_bin OMinus x y = RFloat (PrimFloat.sub (to_f x) (to_f y)) /\
  eval_bin OTimes x y = RFloat (PrimFloat.mul (to_f x) (to_f y)) /\ eval_bin ODivide x y = RFloat (PrimFloat.div (to_f x) (to_f y)) /\
  eval_bin ODotPlus x y = RFloat (PrimFloat.add (to_f x) (to_f y)) /\ eval_bin ODotMinus x y = RFloat (PrimFloat.sub (to_f x) (to_f y)) /\
  eval_bin ODotTimes x y = RFloat (PrimFloat.mul (to_f x) (to_f y)) /\ eval_bin ODotDivide x y = RFloat (PrimFloat.div (to_f x) (to_f y)).
Proof. exact mixed_arith_ieee. Qed.
Print Assumptions C07_mixed_arithmetic_is_ieee_on_converted_operands.

(* ---- the conversion itself: float64(int64 n) of the model (i2f n = f_of_bits (float_of_int n), float_of_int in exact integer
   arithmetic) is the correctly rounded value for ALL int64 n, stated over Z (no real-number library): below 2^53 nothing is
   rounded away (the 53-bit significand is |n| 2^(52-e), e = log2 |n|); from 2^53 to 2^63 the significand q = rne_q |n| s at the unit
   2^s of |n|'s binade is within half a unit of |n|, an exact half only when q is even (round to nearest, ties to even); enc_q q s is
   the bit pattern of q 2^s (lemma enc_q_decodes in ProofsConv.v: f_of_bits of it is SF2Prim of that significand and exponent) ---- *)
Theorem C07_int_to_float_correctly_rounded :
  forall n, in64 n = true -> 2 ^ 53 <= Z.abs n ->
  let s := Z.log2 (Z.abs n) - 52 in
  let q := rne_q (Z.abs n) s in
  float_of_int n = (if n <? 0 then two63 else 0) + enc_q q s
  /\ 1 <= s <= 11 /\ 2 ^ 52 <= q <= 2 ^ 53
  /\ 2 * Z.abs (Z.abs n - q * 2 ^ s) <= 2 ^ s
  /\ (2 * Z.abs (Z.abs n - q * 2 ^ s) = 2 ^ s -> Z.even q = true).
Proof. exact float_of_int_rne. Qed.
Print Assumptions C07_int_to_float_correctly_rounded.

Theorem C07_int_to_float_exact_below_2p53 :
  forall n, n <> 0 -> Z.abs n < 2 ^ 53 ->
  let e := Z.log2 (Z.abs n) in
  float_of_int n = (if n <? 0 then two63 else 0) + ((e + 1023) * 2 ^ 52 + (Z.abs n * 2 ^ (52 - e) - 2 ^ 52))
  /\ 0 <= e <= 52 /\ 2 ^ 52 <= Z.abs n * 2 ^ (52 - e) < 2 ^ 53.
Proof. exact float_of_int_exact_small. Qed.
Print Assumptions C07_int_to_float_exact_below_2p53.

(* mixed int/float min and max: the float math.Min / math.Max of the converted operands, whatever the values -- when an int and a
   float are equal the result is still the float (max(1, 1.0) = 1.0; lemma mixed_min_max_examples).  f_min (f_min f f) is what the
   variadic fold computes for a float first argument *)
Theorem C07_mixed_min_max_is_float :
  forall a f y,
  (eval_bin OMin (NInt a) (NFloat f) = RFloat (f_min (i2f a) f) /\ eval_bin OMax (NInt a) (NFloat f) = RFloat (f_max (i2f a) f))
  /\ (eval_bin OMin (NFloat f) y = RFloat (f_min (f_min f f) (to_f y)) /\ eval_bin OMax (NFloat f) y = RFloat (f_max (f_max f f) (to_f y))).
Proof. exact (fun a f y => conj (mixed_min_max_int_float a f) (mixed_min_max_float_any f y)). Qed.
Print Assumptions C07_mixed_min_max_is_float.

Theorem C07_mixed_result_is_never_int :
  forall op x y n, has_float x y -> eval_bin op x y <> RInt n.
Proof. exact mixed_never_int. Qed.
Print Assumptions C07_mixed_result_is_never_int.

Theorem C07_bit_operators_reject_floats :
  forall op x y, has_float x y -> In op [OAnd; OOr; OXor; OLsh; OSrsh; OUrsh] -> eval_bin op x y = RError.
Proof. exact bitops_reject_floats. Qed.
Print Assumptions C07_bit_operators_reject_floats.

Theorem C07_modular_functions_reject_floats :
  forall op x y z, (exists f, x = NFloat f) \/ (exists f, y = NFloat f) \/ (exists f, z = NFloat f) -> eval_tern op x y z = RError.
Proof. exact modops_reject_floats. Qed.
Print Assumptions C07_modular_functions_reject_floats.

(* ---- never crashes: no operator, no function, no operands (/repo 94ff40520: int ./ 0 is the float a/0;
   /repo 83ceb0713: a zero modulus is an error value) ---- *)
Theorem C07_binary_never_panics : forall op x y, num_ok x -> num_ok y -> eval_bin op x y <> RPanic.
Proof. exact bin_no_panic. Qed.
Print Assumptions C07_binary_never_panics.

Theorem C07_unary_never_panics : forall op x, eval_un op x <> RPanic.
Proof. exact un_no_panic. Qed.
Print Assumptions C07_unary_never_panics.

Theorem C07_ternary_never_panics : forall op x y z, eval_tern op x y z <> RPanic.
Proof. exact tern_no_panic. Qed.
Print Assumptions C07_ternary_never_panics.

(* the same with the explicit list of operators and functions in scope (and the lists are complete for the model's
   operator types): the result is always a value -- int, float or error -- never the panic outcome.
   num_ok: an int operand is an int64 *)
Theorem C07_never_panics_explicit_list :
  (forall op x y, In op [OPlus; OMinus; OTimes; ODivide; OIntDivide; OMod; OPow; ODotPlus; ODotMinus; ODotTimes; ODotDivide;
                         OAnd; OOr; OXor; OLsh; OSrsh; OUrsh; ORoundm; OMin; OMax] -> num_ok x -> num_ok y -> is_value (eval_bin op x y))
  /\ (forall op x, In op [UNeg; UPos; UNot; UBitcount; UMath FAbs; UMath FCeil; UMath FFloor; UMath FRound; UMath FSgn] -> num_ok x -> is_value (eval_un op x))
  /\ (forall op x y z, In op [TMadd; TMsub; TMmul; TMexp] -> num_ok x -> num_ok y -> num_ok z -> is_value (eval_tern op x y z))
  /\ (forall op, In op all_binops) /\ (forall op, In op all_unops) /\ (forall op, In op all_ternops).
Proof. exact never_panics_all. Qed.
Print Assumptions C07_never_panics_explicit_list.

Theorem C07_zero_modulus_is_error : forall op a b, eval_tern op (NInt a) (NInt b) (NInt 0) = RError.
Proof. exact tern_zero_modulus_error. Qed.
Print Assumptions C07_zero_modulus_is_error.

(* the witnesses of the repaired defects, as instances of the theorems above (regression anchors) *)
Theorem C07_former_defect_witnesses :
  (eval_bin OPlus (NInt min_int64) (NInt min_int64) = RFloat (PrimFloat.add (i2f min_int64) (i2f min_int64)) /\
   eval_bin OMinus (NInt 0) (NInt min_int64) = RFloat (PrimFloat.sub (i2f 0) (i2f min_int64))) /\
  (in64 (16440948372290153 * 561) = false /\
   eval_bin OTimes (NInt 16440948372290153) (NInt 561) = RFloat (PrimFloat.mul (i2f 16440948372290153) (i2f 561)) /\
   bits_of_f (PrimFloat.mul (i2f 16440948372290153) (i2f 561)) = float_of_int 9223372036854774784) /\
  (eval_bin OMod (NInt (-10)) (NInt 5) = RInt 0 /\ eval_bin OMod (NInt 6) (NInt (-3)) = RInt 0 /\ eval_bin OMod (NInt 0) (NInt (-1)) = RInt 0
   /\ eval_bin OMod (NInt (-17)) (NInt 10) = RInt 3 /\ eval_bin OMod (NInt 13) (NInt 10) = RInt 3 /\ eval_bin OMod (NInt 7) (NInt (-3)) = RInt (-2)) /\
  (eval_tern TMexp (NInt 10) (NInt 1) (NInt 3) = RInt 1 /\ 10 ^ 1 mod 3 = 1 /\
   eval_tern TMexp (NInt 5) (NInt 0) (NInt 1) = RInt 0 /\ 5 ^ 0 mod 1 = 0).
Proof. exact (conj plus_minus_corners (conj times_former_wrap_witness (conj modulus_examples mexp_small_exponent_examples))). Qed.
Print Assumptions C07_former_defect_witnesses.

(* non-vacuity: concrete non-trivial inputs meet the hypotheses *)
Example C07_nonvacuous :
  in64 9223372036854775807 = true /\ in64 1 = true /\ in64 (9223372036854775807 + 1) = false
  /\ in64 (-7) = true /\ in64 2 = true /\ (2 <> 0) /\ (-7, 2) <> (min_int64, -1) /\ Z.rem (-7) 2 <> 0
  /\ eval_bin OIntDivide (NInt (-7)) (NInt 2) = RInt (-4) /\ eval_bin OMod (NInt (-7)) (NInt 2) = RInt 1
  /\ eval_bin OLsh (NInt 1) (NInt 63) = RInt min_int64 /\ eval_bin OUrsh (NInt (-1)) (NInt 60) = RInt 15
  /\ eval_tern TMexp (NInt 3) (NInt 200) (NInt 1000007) = RInt (3 ^ 200 mod 1000007)
  /\ (forall q, 7 <> 2 * q).
Proof. vm_compute. repeat split; try reflexivity; try discriminate; try (intros q; destruct q as [|p|p]; try destruct p; discriminate). Qed.

Example C07_nonvacuous_round2 :
  in64 (3 ^ 39) = true /\ in64 (2 ^ 63) = false /\ in64 ((-2) ^ 63) = true /\ in64 7 = true /\ (0 <? 7) = true
  /\ in64 (roundm_spec 7 2) = true /\ roundm_spec 7 2 = 8 /\ roundm_spec (-7) 2 = -8 /\ in64 (roundm_spec 9223372036854775807 2) = false
  /\ (2 ^ 53 <=? Z.abs 9007199254740993) = true /\ in64 9007199254740993 = true /\ (Z.abs (-5) <? 2 ^ 53) = true
  /\ eval_tern TMmul (NInt 9223372036854775807) (NInt 9223372036854775807) (NInt 9223372036854775806) = RInt 1.
Proof. vm_compute. repeat split. Qed.
