(* C07 lemmas: madd/msub/mmul/mexp against exact modular arithmetic; no-panic statements. *)
From Coq Require Import Floats Zpow_facts.
From Miller Require Import Base.Bytes C06.Model C07.Model C07.Proofs.
Open Scope Z_scope.

(* mlrmod with a positive modulus is the mathematical mod, for EVERY (unbounded) dividend *)
Lemma mlrmod_pos x m : in64 m = true -> 0 < m -> mlrmod x m = Some (x mod m).
Proof.
  intros Hm Hpos. unfold mlrmod, go_rem. destruct (Z.eqb_spec m 0) as [|_]; [lia|]. f_equal.
  pose proof (Z.quot_rem' x m) as Hqr. pose proof (Z.rem_bound_abs x m ltac:(lia)) as Hrb.
  set (q := Z.quot x m) in *. set (r := Z.rem x m) in *.
  apply in64_iff in Hm. consts.
  destruct (Z.ltb_spec r 0) as [Hneg|Hnn].
  - rewrite wrap64_id by (apply in64_iff; consts; lia).
    apply (Z.mod_unique x m (q - 1) (r + m)); [left; lia|lia].
  - apply (Z.mod_unique x m q r); [left; lia|lia].
Qed.

Lemma mlrmod_zero x : mlrmod x 0 = None. Proof. reflexivity. Qed.
Lemma mlrmod_nonzero x m : m <> 0 -> mlrmod x m <> None.
Proof. intros H. unfold mlrmod. destruct (Z.eqb_spec m 0); [contradiction|discriminate]. Qed.

(* madd / msub / mmul: the exact sum, difference, product is reduced (math/big intermediates): ALL operands *)
Lemma madd_exact a b m : in64 m = true -> 0 < m ->
  eval_tern TMadd (NInt a) (NInt b) (NInt m) = RInt ((a + b) mod m).
Proof.
  intros Hm Hpos. cbn [eval_tern]. destruct (Z.eqb_spec m 0); [lia|]. unfold imodadd. rewrite (mlrmod_pos _ _ Hm Hpos). reflexivity.
Qed.
Lemma msub_exact a b m : in64 m = true -> 0 < m ->
  eval_tern TMsub (NInt a) (NInt b) (NInt m) = RInt ((a - b) mod m).
Proof.
  intros Hm Hpos. cbn [eval_tern]. destruct (Z.eqb_spec m 0); [lia|]. unfold imodsub. rewrite (mlrmod_pos _ _ Hm Hpos). reflexivity.
Qed.
Lemma mmul_exact a b m : in64 m = true -> 0 < m ->
  eval_tern TMmul (NInt a) (NInt b) (NInt m) = RInt ((a * b) mod m).
Proof.
  intros Hm Hpos. cbn [eval_tern]. destruct (Z.eqb_spec m 0); [lia|]. unfold imodmul. rewrite (mlrmod_pos _ _ Hm Hpos). reflexivity.
Qed.

(* the result is the canonical residue *)
Lemma mod_op_range op a b m r : in64 m = true -> 0 < m -> In op [TMadd; TMsub; TMmul] ->
  eval_tern op (NInt a) (NInt b) (NInt m) = RInt r -> 0 <= r < m.
Proof.
  intros Hm Hpos Hin H. cbn [In] in Hin.
  destruct Hin as [<-|[<-|[<-|[]]]];
    [rewrite (madd_exact a b m Hm Hpos) in H|rewrite (msub_exact a b m Hm Hpos) in H|rewrite (mmul_exact a b m Hm Hpos) in H];
    inversion H; apply Z.mod_pos_bound; exact Hpos.
Qed.

(* mexp: repeated squaring, every product exact: invariant c * apower^u = a^e (mod m), no bound on a or m *)
Lemma mexp_loop_spec m : in64 m = true -> 0 < m ->
  forall fuel u ap c, 0 < u < 2 ^ Z.of_nat fuel ->
  mexp_loop fuel u ap c m = Some ((c * ap ^ u) mod m).
Proof.
  intros Hm Hpos.
  induction fuel as [|k IH]; intros u ap c Hu.
  - cbn in Hu. lia.
  - cbn [mexp_loop]. destruct (Z.eqb_spec u 0) as [|_]; [lia|].
    unfold imodmul. rewrite !(mlrmod_pos _ _ Hm Hpos).
    pose proof (Z.div_mod u 2 ltac:(lia)) as Hdm.
    assert (Hu2 : u / 2 < 2 ^ Z.of_nat k).
    { rewrite Nat2Z.inj_succ, Z.pow_succ_r in Hu by lia. apply Z.div_lt_upper_bound; lia. }
    assert (Hsq : forall j, 0 <= j -> ((ap * ap) mod m) ^ j mod m = (ap ^ (2 * j)) mod m).
    { intros j Hj. rewrite <- Zpower_mod by lia. rewrite Z.pow_mul_r by lia. f_equal. f_equal. lia. }
    destruct (Z.odd u) eqn:Eo.
    + assert (Hmod : u mod 2 = 1) by (rewrite Zmod_odd, Eo; reflexivity).
      destruct (Z.eq_dec (u / 2) 0) as [Hz|Hnz].
      * assert (u = 1) by lia. subst u. destruct k; cbn [mexp_loop Z.div]; rewrite ?Z.pow_1_r; reflexivity.
      * rewrite IH; [|lia]. f_equal.
        replace u with (2 * (u / 2) + 1) at 2 by lia.
        rewrite Z.pow_add_r, Z.pow_1_r by lia.
        rewrite Z.mul_mod_idemp_l by lia.
        rewrite <- Z.mul_mod_idemp_r by lia. rewrite Hsq by lia.
        rewrite Z.mul_mod_idemp_r by lia. f_equal. lia.
    + assert (Hmod : u mod 2 = 0) by (rewrite Zmod_odd, Eo; reflexivity).
      rewrite IH; [|lia]. f_equal.
      replace u with (2 * (u / 2)) at 2 by lia.
      rewrite <- Z.mul_mod_idemp_r by lia. rewrite Hsq by lia.
      rewrite Z.mul_mod_idemp_r by lia. reflexivity.
Qed.

Lemma mexp_exact a e m : in64 m = true -> 0 < m -> 0 <= e -> in64 e = true ->
  eval_tern TMexp (NInt a) (NInt e) (NInt m) = RInt (a ^ e mod m).
Proof.
  intros Hm Hpos He Hei. cbn [eval_tern]. destruct (Z.ltb_spec e 0); [lia|].
  destruct (Z.eqb_spec m 0); [lia|].
  unfold imodexp. rewrite (mlrmod_pos 1 m Hm Hpos).
  apply in64_iff in Hei. consts.
  assert (Hu : u64 e = e) by (unfold u64; consts; apply Z.mod_small; lia).
  rewrite Hu. destruct (Z.eq_dec e 0) as [->|He0].
  - cbn [mexp_loop Z.eqb]. rewrite Z.pow_0_r. reflexivity.
  - rewrite (mexp_loop_spec m Hm Hpos 64 e a (1 mod m)); [|change (2 ^ Z.of_nat 64) with 18446744073709551616; lia].
    rewrite Z.mul_mod_idemp_l by lia. rewrite Z.mul_1_l. reflexivity.
Qed.

(* exponents 0 and 1 are reduced like every other exponent *)
Lemma mexp_small_exponent_examples :
  eval_tern TMexp (NInt 10) (NInt 1) (NInt 3) = RInt 1 /\ 10 ^ 1 mod 3 = 1 /\
  eval_tern TMexp (NInt 5) (NInt 0) (NInt 1) = RInt 0 /\ 5 ^ 0 mod 1 = 0.
Proof. repeat split. Qed.

Lemma mexp_negative_exponent_error a e m : e < 0 -> eval_tern TMexp (NInt a) (NInt e) (NInt m) = RError.
Proof. intros H. cbn [eval_tern]. destruct (Z.ltb_spec e 0); [reflexivity|lia]. Qed.

(* the former reduce-after-wrap witnesses are now exact (regression anchors) *)
Lemma mop_former_wrap_witnesses :
  eval_tern TMadd (NInt (2 ^ 62)) (NInt (2 ^ 62)) (NInt 3) = RInt 2 /\ (2 ^ 62 + 2 ^ 62) mod 3 = 2 /\
  eval_tern TMmul (NInt (2 ^ 32)) (NInt (2 ^ 32)) (NInt 7) = RInt 2 /\ (2 ^ 32 * 2 ^ 32) mod 7 = 2 /\
  eval_tern TMexp (NInt (2 ^ 32)) (NInt 3) (NInt 3) = RInt 1 /\ (2 ^ 32) ^ 3 mod 3 = 1.
Proof. repeat split. Qed.

(* ---------------------------------------------------------------- panics *)
Lemma mexp_loop_no_panic m : m <> 0 -> forall fuel u ap c, mexp_loop fuel u ap c m <> None.
Proof.
  intros Hm. induction fuel as [|k IH]; intros u ap c; cbn [mexp_loop]; [discriminate|].
  destruct (u =? 0); [discriminate|].
  destruct (Z.odd u).
  - unfold imodmul. destruct (mlrmod (c * ap) m) eqn:E1; [|exfalso; exact (mlrmod_nonzero _ _ Hm E1)].
    destruct (mlrmod (ap * ap) m) eqn:E2; [apply IH|exfalso; exact (mlrmod_nonzero _ _ Hm E2)].
  - unfold imodmul. destruct (mlrmod (ap * ap) m) eqn:E2; [apply IH|exfalso; exact (mlrmod_nonzero _ _ Hm E2)].
Qed.

Lemma tern_no_panic op x y z : eval_tern op x y z <> RPanic.
Proof.
  destruct op, x as [a|fa], y as [b|fb], z as [m|fm]; cbn [eval_tern]; try (intros HH; discriminate HH);
    try (destruct (b <? 0); intros HH; discriminate HH);
    try (destruct (Z.eqb_spec m 0) as [|Hz]; [intros HH; discriminate HH|]; unfold imodadd, imodsub, imodmul;
         match goal with |- of_modop (mlrmod ?x m) <> _ => destruct (mlrmod x m) eqn:E; [intros HH; discriminate HH|exact (fun _ => mlrmod_nonzero _ _ Hz E)] end).
  destruct (b <? 0); [intros HH; discriminate HH|]. destruct (Z.eqb_spec m 0) as [|Hz]; [intros HH; discriminate HH|].
  unfold imodexp. destruct (mlrmod 1 m) eqn:E1; [|exfalso; exact (mlrmod_nonzero _ _ Hz E1)].
  destruct (mexp_loop 64 (u64 b) a z m) eqn:E; [intros HH; discriminate HH|exact (fun _ => mexp_loop_no_panic m Hz _ _ _ _ E)].
Qed.

(* a zero modulus is an error value *)
Lemma tern_zero_modulus_error op a b : eval_tern op (NInt a) (NInt b) (NInt 0) = RError.
Proof. destruct op; cbn [eval_tern]; try reflexivity. destruct (b <? 0); reflexivity. Qed.
