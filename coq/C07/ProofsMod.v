(* C07 lemmas: madd/msub/mmul/mexp against exact modular arithmetic; no-panic statements. *)
From Coq Require Import Floats Zpow_facts.
From Miller Require Import Base.Bytes C06.Model C07.Model C07.Proofs.
Open Scope Z_scope.

(* mlrmod with a positive modulus is the mathematical mod *)
Lemma mlrmod_pos x m : in64 x = true -> in64 m = true -> 0 < m -> mlrmod x m = Some (x mod m).
Proof.
  intros Hx Hm Hpos. unfold mlrmod, go_rem. destruct (Z.eqb_spec m 0) as [|_]; [lia|]. f_equal.
  pose proof (Z.quot_rem' x m) as Hqr. pose proof (Z.rem_bound_abs x m ltac:(lia)) as Hrb.
  set (q := Z.quot x m) in *. set (r := Z.rem x m) in *.
  apply in64_iff in Hx, Hm. consts.
  destruct (Z.ltb_spec r 0) as [Hneg|Hnn].
  - rewrite wrap64_id by (apply in64_iff; consts; lia).
    apply (Z.mod_unique x m (q - 1) (r + m)); [left; lia|lia].
  - apply (Z.mod_unique x m q r); [left; lia|lia].
Qed.

Lemma mlrmod_zero x : mlrmod x 0 = None. Proof. reflexivity. Qed.
Lemma mlrmod_nonzero x m : m <> 0 -> mlrmod x m <> None.
Proof. intros H. unfold mlrmod. destruct (Z.eqb_spec m 0); [contradiction|discriminate]. Qed.

Lemma madd_exact a b m : in64 m = true -> 0 < m -> in64 (a + b) = true ->
  eval_tern TMadd (NInt a) (NInt b) (NInt m) = RInt ((a + b) mod m).
Proof.
  intros Hm Hpos Hs. cbn [eval_tern]. destruct (Z.eqb_spec m 0); [lia|]. unfold imodadd. rewrite (wrap64_id _ Hs), (mlrmod_pos _ _ Hs Hm Hpos). reflexivity.
Qed.
Lemma msub_exact a b m : in64 m = true -> 0 < m -> in64 (a - b) = true ->
  eval_tern TMsub (NInt a) (NInt b) (NInt m) = RInt ((a - b) mod m).
Proof.
  intros Hm Hpos Hs. cbn [eval_tern]. destruct (Z.eqb_spec m 0); [lia|]. unfold imodsub. rewrite (wrap64_id _ Hs), (mlrmod_pos _ _ Hs Hm Hpos). reflexivity.
Qed.
Lemma mmul_exact a b m : in64 m = true -> 0 < m -> in64 (a * b) = true ->
  eval_tern TMmul (NInt a) (NInt b) (NInt m) = RInt ((a * b) mod m).
Proof.
  intros Hm Hpos Hs. cbn [eval_tern]. destruct (Z.eqb_spec m 0); [lia|]. unfold imodmul. rewrite (wrap64_id _ Hs), (mlrmod_pos _ _ Hs Hm Hpos). reflexivity.
Qed.

(* in general the sum/difference/product is reduced AFTER wrapping to 64 bits *)
Lemma mop_general a b m : in64 m = true -> 0 < m ->
  eval_tern TMadd (NInt a) (NInt b) (NInt m) = RInt (wrap64 (a + b) mod m) /\
  eval_tern TMsub (NInt a) (NInt b) (NInt m) = RInt (wrap64 (a - b) mod m) /\
  eval_tern TMmul (NInt a) (NInt b) (NInt m) = RInt (wrap64 (a * b) mod m).
Proof.
  intros Hm Hpos. cbn [eval_tern]. destruct (Z.eqb_spec m 0); [lia|]. unfold imodadd, imodsub, imodmul.
  rewrite !(mlrmod_pos _ _ (wrap64_in64 _) Hm Hpos). repeat split.
Qed.

(* mexp: repeated squaring.  Bound: |a| and m at most 3037000499 = floor(sqrt(2^63 - 1)) so no product wraps. *)
Definition sq_bound : Z := 3037000499.

Lemma mexp_loop_spec m : in64 m = true -> 0 < m -> m <= sq_bound ->
  forall fuel u ap c, 0 < u < 2 ^ Z.of_nat fuel -> Z.abs ap <= sq_bound -> (0 <= c < m \/ c = 1) ->
  mexp_loop fuel u ap c m = Some ((c * ap ^ u) mod m).
Proof.
  intros Hm Hpos Hmb. unfold sq_bound in *.
  induction fuel as [|k IH]; intros u ap c Hu Hap Hc.
  - cbn in Hu. lia.
  - cbn [mexp_loop]. destruct (Z.eqb_spec u 0) as [|_]; [lia|].
    assert (Hin1 : in64 (c * ap) = true) by (apply in64_iff; consts; apply in64_iff in Hm; consts; nia).
    assert (Hin2 : in64 (ap * ap) = true) by (apply in64_iff; consts; nia).
    rewrite (wrap64_id _ Hin1), (wrap64_id _ Hin2), (mlrmod_pos _ _ Hin1 Hm Hpos), (mlrmod_pos _ _ Hin2 Hm Hpos).
    pose proof (Z.mod_pos_bound (ap * ap) m Hpos) as Hb2.
    pose proof (Z.mod_pos_bound (c * ap) m Hpos) as Hb1.
    pose proof (Z.div_mod u 2 ltac:(lia)) as Hdm.
    assert (Hu2 : u / 2 < 2 ^ Z.of_nat k).
    { rewrite Nat2Z.inj_succ, Z.pow_succ_r in Hu by lia. apply Z.div_lt_upper_bound; lia. }
    assert (Hsq : forall j, 0 <= j -> ((ap * ap) mod m) ^ j mod m = (ap ^ (2 * j)) mod m).
    { intros j Hj. rewrite <- Zpower_mod by lia. rewrite Z.pow_mul_r by lia. f_equal. f_equal. lia. }
    destruct (Z.odd u) eqn:Eo.
    + assert (Hmod : u mod 2 = 1) by (rewrite Zmod_odd, Eo; reflexivity).
      destruct (Z.eq_dec (u / 2) 0) as [Hz|Hnz].
      * assert (u = 1) by lia. subst u. destruct k; cbn [mexp_loop Z.div]; rewrite ?Z.pow_1_r; reflexivity.
      * rewrite IH; [|lia|lia|left; lia]. f_equal.
        replace u with (2 * (u / 2) + 1) at 2 by lia.
        rewrite Z.pow_add_r, Z.pow_1_r by lia.
        rewrite Z.mul_mod_idemp_l by lia.
        rewrite <- Z.mul_mod_idemp_r by lia. rewrite Hsq by lia.
        rewrite Z.mul_mod_idemp_r by lia. f_equal. lia.
    + assert (Hmod : u mod 2 = 0) by (rewrite Zmod_odd, Eo; reflexivity).
      rewrite IH; [|lia|lia|exact Hc]. f_equal.
      replace u with (2 * (u / 2)) at 2 by lia.
      rewrite <- Z.mul_mod_idemp_r by lia. rewrite Hsq by lia.
      rewrite Z.mul_mod_idemp_r by lia. reflexivity.
Qed.

Lemma mexp_exact a e m : in64 m = true -> 0 < m -> m <= sq_bound -> Z.abs a <= sq_bound -> 0 <= e -> in64 e = true ->
  eval_tern TMexp (NInt a) (NInt e) (NInt m) = RInt (a ^ e mod m).
Proof.
  intros Hm Hpos Hmb Ha He Hei. cbn [eval_tern]. destruct (Z.ltb_spec e 0); [lia|].
  destruct (Z.eqb_spec m 0); [lia|].
  unfold imodexp. rewrite (mlrmod_pos 1 m eq_refl Hm Hpos).
  pose proof (Z.mod_pos_bound 1 m Hpos) as Hc0.
  apply in64_iff in Hei. consts.
  assert (Hu : u64 e = e) by (unfold u64; consts; apply Z.mod_small; lia).
  rewrite Hu. destruct (Z.eq_dec e 0) as [->|He0].
  - cbn [mexp_loop Z.eqb]. rewrite Z.pow_0_r. reflexivity.
  - rewrite (mexp_loop_spec m Hm Hpos Hmb 64 e a (1 mod m)); [|change (2 ^ Z.of_nat 64) with 18446744073709551616; lia|exact Ha|left; exact Hc0].
    rewrite Z.mul_mod_idemp_l by lia. rewrite Z.mul_1_l. reflexivity.
Qed.

(* exponents 0 and 1 are reduced like every other exponent *)
Lemma mexp_small_exponent_examples :
  eval_tern TMexp (NInt 10) (NInt 1) (NInt 3) = RInt 1 /\ 10 ^ 1 mod 3 = 1 /\
  eval_tern TMexp (NInt 5) (NInt 0) (NInt 1) = RInt 0 /\ 5 ^ 0 mod 1 = 0.
Proof. repeat split. Qed.

Lemma mexp_negative_exponent_error a e m : e < 0 -> eval_tern TMexp (NInt a) (NInt e) (NInt m) = RError.
Proof. intros H. cbn [eval_tern]. destruct (Z.ltb_spec e 0); [reflexivity|lia]. Qed.

(* intermediate wrap witnesses: sum and product reduced after wrapping *)
Lemma mop_wrap_witness :
  eval_tern TMadd (NInt (2 ^ 62)) (NInt (2 ^ 62)) (NInt 3) = RInt 1 /\ (2 ^ 62 + 2 ^ 62) mod 3 = 2 /\
  eval_tern TMmul (NInt (2 ^ 32)) (NInt (2 ^ 32)) (NInt 7) = RInt 0 /\ (2 ^ 32 * 2 ^ 32) mod 7 = 2.
Proof. repeat split. Qed.

(* ---------------------------------------------------------------- panics *)
Lemma mexp_loop_no_panic m : m <> 0 -> forall fuel u ap c, mexp_loop fuel u ap c m <> None.
Proof.
  intros Hm. induction fuel as [|k IH]; intros u ap c; cbn [mexp_loop]; [discriminate|].
  destruct (u =? 0); [discriminate|].
  destruct (Z.odd u).
  - destruct (mlrmod (wrap64 (c * ap)) m) eqn:E1; [|exfalso; exact (mlrmod_nonzero _ _ Hm E1)].
    destruct (mlrmod (wrap64 (ap * ap)) m) eqn:E2; [apply IH|exfalso; exact (mlrmod_nonzero _ _ Hm E2)].
  - destruct (mlrmod (wrap64 (ap * ap)) m) eqn:E2; [apply IH|exfalso; exact (mlrmod_nonzero _ _ Hm E2)].
Qed.

Lemma tern_no_panic op x y z : eval_tern op x y z <> RPanic.
Proof.
  destruct op, x as [a|fa], y as [b|fb], z as [m|fm]; cbn [eval_tern]; try (intros HH; discriminate HH);
    try (destruct (b <? 0); intros HH; discriminate HH);
    try (destruct (Z.eqb_spec m 0) as [|Hz]; [intros HH; discriminate HH|]; unfold imodadd, imodsub, imodmul;
         match goal with |- of_modop (mlrmod ?x m) <> _ => destruct (mlrmod x m) eqn:E; [intros HH; discriminate HH|exact (fun _ => mlrmod_nonzero _ _ Hz E)] end).
  destruct (b <? 0); [intros HH; discriminate HH|]. destruct (Z.eqb_spec m 0) as [|Hz]; [intros HH; discriminate HH|].
  unfold imodexp. destruct (mlrmod 1 m) eqn:E1; [|exfalso; exact (mlrmod_nonzero _ _ Hz E1)].
  destruct (mexp_loop 64 (u64 b) a z m) eqn:E; [intros HH; discriminate HH|exact (fun _ => mexp_loop_no_panic m Hz _ _ _ _ E)].
Qed.

(* a zero modulus is an error value *)
Lemma tern_zero_modulus_error op a b : eval_tern op (NInt a) (NInt b) (NInt 0) = RError.
Proof. destruct op; cbn [eval_tern]; try reflexivity. destruct (b <? 0); reflexivity. Qed.

Lemma un_no_panic op x : eval_un op x <> RPanic.
Proof. destruct op, x; discriminate. Qed.

Ltac top_cases :=
  cbv zeta;
  repeat (match goal with
          | |- (if ?c then _ else _) <> _ => destruct c
          | |- (match ?c with Some _ => _ | None => _ end) <> _ => destruct c
          end; cbv zeta);
  try (intros HH; discriminate HH).

Lemma bin_no_panic op x y : eval_bin op x y <> RPanic.
Proof.
  destruct op; destruct x as [a|fa], y as [b|fb];
    cbn [eval_bin min_variadic2 max_variadic2 min_bin max_bin num_of_res to_f];
    try (intros H; discriminate H).
  - unfold plus_ii. top_cases.
  - unfold minus_ii. top_cases.
  - unfold times_ii. top_cases.
  - unfold divide_ii. top_cases.
  - unfold int_divide_ii. top_cases.
  - unfold modulus_ii. top_cases.
  - unfold pow_ii. top_cases.
  - unfold pow_ff. top_cases.
  - unfold pow_ff. top_cases.
  - unfold pow_ff. top_cases.
  - unfold dotdivide_ii. top_cases.
  - unfold lsh_ii. top_cases.
  - unfold srsh_ii. top_cases.
  - unfold ursh_ii. top_cases.
Qed.

