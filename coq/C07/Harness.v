(* C07 correspondence harness: executable checks run by vm_compute on cases written by the Python driver
   (observations of the real pkg/bifs functions through `implrun bif`). *)
From Coq Require Import Floats.
From Miller Require Import Base.Bytes C06.Model C07.Model.
Open Scope Z_scope.

(* argument encoding: (0, n) an int64; (1, bits) a float64 given by its IEEE bit pattern *)
Definition num_of (a : Z * Z) : num := let '(k, v) := a in if k =? 0 then NInt v else NFloat (f_of_bits v).

Definition binop_of (c : Z) : option binop :=
  nth_error [OPlus; OMinus; OTimes; ODivide; OIntDivide; OMod; OPow; ODotPlus; ODotMinus; ODotTimes; ODotDivide;
             OAnd; OOr; OXor; OLsh; OSrsh; OUrsh; ORoundm; OMin; OMax] (Z.to_nat c).
Definition unop_of (c : Z) : option unop :=
  nth_error [UNeg; UPos; UNot; UBitcount; UMath FAbs; UMath FCeil; UMath FFloor; UMath FRound; UMath FSgn] (Z.to_nat (c - 100)).
Definition ternop_of (c : Z) : option ternop :=
  nth_error [TMadd; TMsub; TMmul; TMexp] (Z.to_nat (c - 200)).

Definition eval_case (opc : Z) (args : list (Z * Z)) : option res :=
  match args with
  | [x] => if (100 <=? opc) && (opc <? 200) then option_map (fun o => eval_un o (num_of x)) (unop_of opc) else None
  | [x; y] => if (0 <=? opc) && (opc <? 100) then option_map (fun o => eval_bin o (num_of x) (num_of y)) (binop_of opc) else None
  | [x; y; z] => if 200 <=? opc then option_map (fun o => eval_tern o (num_of x) (num_of y) (num_of z)) (ternop_of opc) else None
  | _ => None
  end.

(* observed encoding (kind, value): 0 int n; 1 float bits (every NaN sent as canonical_nan_bits); 2 error; 3 PANIC *)
Definition res_matches (r : res) (k v : Z) : bool :=
  match r with
  | RInt n => (k =? 0) && (v =? n)
  | RFloat f => (k =? 1) && (v =? bits_of_f f)
  | RError => k =? 2
  | RPanic => k =? 3
  | RUnmodelled => k =? 1          (* needs math.Exp/Log: only the kind is compared *)
  end.

(* round trip of the bit-pattern encoding itself, checked on every float operand the driver sends *)
Definition chk_bits (b : Z) : bool :=
  bits_of_f (f_of_bits b) =? (if ((b / 2 ^ 52) mod 2 ^ 11 =? 2047) && negb (b mod 2 ^ 52 =? 0) then canonical_nan_bits else b).

(* case = (opcode, args, observed kind, observed value) *)
Definition chk (c : Z * list (Z * Z) * Z * Z) : bool :=
  let '(opc, args, k, v) := c in
  forallb (fun a : Z * Z => if fst a =? 1 then chk_bits (snd a) else in64 (snd a)) args &&
  match eval_case opc args with
  | Some RUnmodelled => negb (forallb (fun a : Z * Z => fst a =? 0) args) && (k =? 1)   (* never for int operands: int ** int has no Exp/Log branch *)
  | Some r => res_matches r k v
  | None => false
  end.
