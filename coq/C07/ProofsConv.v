(* C07 lemmas: (1) float64(int64 n) as the model computes it (C06.Model.float_of_int, exact integer arithmetic) is the
   correctly rounded value -- round to nearest, ties to even, at 53 bits of precision -- for ALL int64 n, stated over Z
   (no real-number library, no axioms): exact for |n| < 2^53; for 2^53 <= |n| <= 2^63 the significand q in [2^52, 2^53]
   and the unit 2^s of n's binade satisfy 2 |n - q 2^s| <= 2^s with ties giving an even q.
   (2) mixed int/float min and max: the result is always the float math.Min/Max of the converted operands. *)
From Coq Require Import Floats.
From Miller Require Import Base.Bytes C06.Model C09.FloatMono C07.Model C07.Proofs C07.ProofsMixed.
Open Scope Z_scope.

(* the bit pattern of the positive double q * 2^s, 2^52 <= q <= 2^53 (q = 2^53 is renormalised to 2^52 * 2^(s+1)) *)
Definition enc_q (q s : Z) : Z :=
  if q =? 2 ^ 53 then (s + 1 + 52 + 1023) * 2 ^ 52 else (s + 52 + 1023) * 2 ^ 52 + (q - 2 ^ 52).

(* round to nearest, ties to even, of n / 2^s *)
Definition rne_q (n s : Z) : Z :=
  let q := n / 2 ^ s in let r := n mod 2 ^ s in
  if 2 * r <? 2 ^ s then q else if 2 ^ s <? 2 * r then q + 1 else if Z.even q then q else q + 1.

Lemma rpr_large n L : 53 <= L <= 63 -> 2 ^ L <= n < 2 ^ (L + 1) ->
  round_pos_rational n 1 = Some (enc_q (rne_q n (L - 52)) (L - 52)).
Proof.
  intros HL Hn.
  assert (Hl : Z.log2 n = L) by (apply Z.log2_unique; lia).
  unfold round_pos_rational. rewrite Hl. change (Z.log2 1) with 0. rewrite Z.sub_0_r.
  cbv zeta.
  replace (0 <=? L) with true by (symmetry; apply Z.leb_le; lia).
  replace (1 * 2 ^ L <=? n) with true by (symmetry; apply Z.leb_le; lia).
  replace (Z.max (L - 52) (-1074)) with (L - 52) by lia.
  replace (0 <=? L - 52) with true by (symmetry; apply Z.leb_le; lia).
  cbv iota beta. rewrite Z.mul_1_l.
  set (s := L - 52) in *.
  assert (Hs : 1 <= s <= 11) by (unfold s; lia).
  assert (Hp : 0 < 2 ^ s) by (apply Z.pow_pos_nonneg; lia).
  assert (H1 : 2 ^ L = 2 ^ 52 * 2 ^ s) by (rewrite <- Z.pow_add_r by lia; f_equal; unfold s; lia).
  assert (H2 : 2 ^ (L + 1) = 2 ^ 53 * 2 ^ s) by (rewrite <- Z.pow_add_r by lia; f_equal; unfold s; lia).
  pose proof (Z.div_mod n (2 ^ s) ltac:(lia)) as Hdm. pose proof (Z.mod_pos_bound n (2 ^ s) Hp) as Hb.
  fold (rne_q n s). unfold enc_q.
  assert (Hq : 2 ^ 52 <= n / 2 ^ s < 2 ^ 53).
  { split; [apply Z.div_le_lower_bound; lia|apply Z.div_lt_upper_bound; lia]. }
  assert (Hr : 2 ^ 52 <= rne_q n s <= 2 ^ 53).
  { unfold rne_q. cbv zeta. destruct (2 * (n mod 2 ^ s) <? 2 ^ s); [lia|]. destruct (2 ^ s <? 2 * (n mod 2 ^ s)); [lia|]. destruct (Z.even _); lia. }
  destruct (Z.eqb_spec (rne_q n s) (2 ^ 53)) as [He|Hne].
  - change (2 ^ 52 <? 2 ^ 52) with false. cbv iota.
    replace (2047 <=? s + 1 + 52 + 1023) with false by (symmetry; apply Z.leb_gt; lia).
    f_equal. lia.
  - replace (rne_q n s <? 2 ^ 52) with false by (symmetry; apply Z.ltb_ge; lia).
    replace (2047 <=? s + 52 + 1023) with false by (symmetry; apply Z.leb_gt; lia).
    reflexivity.
Qed.

Lemma rne_q_range n s : 2 ^ 52 <= n / 2 ^ s < 2 ^ 53 -> 2 ^ 52 <= rne_q n s <= 2 ^ 53.
Proof.
  intros H. unfold rne_q. cbv zeta.
  destruct (2 * (n mod 2 ^ s) <? 2 ^ s); [lia|]. destruct (2 ^ s <? 2 * (n mod 2 ^ s)); [lia|]. destruct (Z.even _); lia.
Qed.

(* rne_q is round-to-nearest-even: within half a unit, an exact half only towards the even significand *)
Lemma rne_q_nearest n s : 0 <= s -> 0 <= n ->
  2 * Z.abs (n - rne_q n s * 2 ^ s) <= 2 ^ s
  /\ (2 * Z.abs (n - rne_q n s * 2 ^ s) = 2 ^ s -> Z.even (rne_q n s) = true).
Proof.
  intros Hs Hn. assert (Hp : 0 < 2 ^ s) by (apply Z.pow_pos_nonneg; lia).
  pose proof (Z.div_mod n (2 ^ s) ltac:(lia)) as Hdm. pose proof (Z.mod_pos_bound n (2 ^ s) Hp) as Hb.
  unfold rne_q. cbv zeta. set (q := n / 2 ^ s) in *. set (r := n mod 2 ^ s) in *. set (p := 2 ^ s) in *.
  destruct (Z.ltb_spec (2 * r) p) as [Hlt|Hge].
  - split; [|intros Ht]; replace (n - q * p) with r in * by lia; rewrite Z.abs_eq in * by lia; lia.
  - destruct (Z.ltb_spec p (2 * r)) as [Hgt|Hle].
    + split; [|intros Ht]; replace (n - (q + 1) * p) with (r - p) in * by lia; rewrite Z.abs_neq in * by lia; lia.
    + destruct (Z.even q) eqn:Ev.
      * split; [|intros _; exact Ev]. replace (n - q * p) with r by lia. rewrite Z.abs_eq by lia. lia.
      * split; [|intros _; rewrite Z.even_add, Ev; reflexivity].
        replace (n - (q + 1) * p) with (r - p) by lia. rewrite Z.abs_neq by lia. lia.
Qed.

(* the decoded value of enc_q: f_of_bits unfolds to the primitive float with significand q2 and exponent s2, q2 2^s2 = q 2^s *)
Lemma enc_q_decodes q s : 2 ^ 52 <= q <= 2 ^ 53 -> 1 <= s <= 11 ->
  exists q2 s2, f_of_bits (enc_q q s) = SF2Prim (S754_finite false (Z.to_pos q2) s2)
             /\ 2 ^ 52 <= q2 < 2 ^ 53 /\ q2 * 2 ^ s2 = q * 2 ^ s.
Proof.
  intros Hq Hs. unfold enc_q.
  assert (Hdec : forall e m, 1 <= e < 2047 -> 0 <= m < 2 ^ 52 ->
                 f_of_bits (e * 2 ^ 52 + m) = SF2Prim (S754_finite false (Z.to_pos (m + 2 ^ 52)) (e - 1075))).
  { intros e m He Hm. unfold f_of_bits.
    assert (Hb : e * 2 ^ 52 + m < two63) by (consts; change (2 ^ 52) with 4503599627370496 in *; lia).
    assert (Hd : (e * 2 ^ 52 + m) / two63 = 0) by (apply Z.div_small; consts; change (2 ^ 52) with 4503599627370496 in *; lia).
    rewrite Hd. cbn [Z.odd].
    assert (He2 : (e * 2 ^ 52 + m) / 2 ^ 52 = e) by (symmetry; apply (Z.div_unique_pos _ _ e m); lia).
    assert (Hm2 : (e * 2 ^ 52 + m) mod 2 ^ 52 = m) by (symmetry; apply (Z.mod_unique_pos _ _ e m); lia).
    rewrite He2, Hm2. rewrite (Z.mod_small e) by (change (2 ^ 11) with 2048; lia).
    destruct (Z.eqb_spec e 2047); [lia|]. destruct (Z.eqb_spec e 0); [lia|]. reflexivity. }
  destruct (Z.eqb_spec q (2 ^ 53)) as [->|Hne].
  - exists (2 ^ 52), (s + 1). replace ((s + 1 + 52 + 1023) * 2 ^ 52) with ((s + 1 + 52 + 1023) * 2 ^ 52 + 0) by lia.
    rewrite Hdec by lia. split; [f_equal; f_equal; lia|]. split; [lia|].
    rewrite Z.pow_add_r by lia. change (2 ^ 53) with (2 ^ 52 * 2). change (2 ^ 1) with 2. ring.
  - exists q, s. rewrite Hdec by lia. split; [f_equal; f_equal; [f_equal; lia|lia]|]. split; [lia|reflexivity].
Qed.

(* float64(int64 n) for 2^53 <= |n| <= 2^63: correctly rounded *)
Lemma float_of_int_rne n : in64 n = true -> 2 ^ 53 <= Z.abs n ->
  let s := Z.log2 (Z.abs n) - 52 in
  let q := rne_q (Z.abs n) s in
  float_of_int n = (if n <? 0 then two63 else 0) + enc_q q s
  /\ 1 <= s <= 11 /\ 2 ^ 52 <= q <= 2 ^ 53
  /\ 2 * Z.abs (Z.abs n - q * 2 ^ s) <= 2 ^ s
  /\ (2 * Z.abs (Z.abs n - q * 2 ^ s) = 2 ^ s -> Z.even q = true).
Proof.
  intros Hn Hbig. cbv zeta. apply in64_iff in Hn.
  set (m := Z.abs n) in *.
  assert (Hm : 2 ^ 53 <= m <= 2 ^ 63).
  { split; [exact Hbig|]. unfold m. change (2 ^ 63) with 9223372036854775808. rewrite two63_val in Hn. destruct (Z.abs_spec n) as [[_ ->]|[_ ->]]; lia. }
  set (L := Z.log2 m).
  assert (Hlog : 2 ^ L <= m < 2 ^ (L + 1)).
  { pose proof (Z.log2_spec m ltac:(lia)) as H. unfold L. replace (Z.log2 m + 1) with (Z.succ (Z.log2 m)) by lia. exact H. }
  assert (HL : 53 <= L <= 63).
  { unfold L. split; [apply Z.log2_le_pow2; lia|]. assert (Z.log2 m < 64); [apply Z.log2_lt_pow2; [lia|]|lia].
    change (2 ^ 64) with 18446744073709551616. change (2 ^ 63) with 9223372036854775808 in Hm. lia. }
  pose proof (rpr_large m L HL Hlog) as Hr.
  pose proof (rne_q_nearest m (L - 52) ltac:(lia) ltac:(lia)) as (Hnear & Htie).
  assert (Hq : 2 ^ 52 <= rne_q m (L - 52) <= 2 ^ 53).
  { assert (Hp : 0 < 2 ^ (L - 52)) by (apply Z.pow_pos_nonneg; lia).
    assert (H1 : 2 ^ L = 2 ^ 52 * 2 ^ (L - 52)) by (rewrite <- Z.pow_add_r by lia; f_equal; lia).
    assert (H2 : 2 ^ (L + 1) = 2 ^ 53 * 2 ^ (L - 52)) by (rewrite <- Z.pow_add_r by lia; f_equal; lia).
    assert (Hq0 : 2 ^ 52 <= m / 2 ^ (L - 52) < 2 ^ 53) by (split; [apply Z.div_le_lower_bound; lia|apply Z.div_lt_upper_bound; lia]).
    apply rne_q_range. exact Hq0. }
  split; [|split; [lia|split; [exact Hq|split; [exact Hnear|exact Htie]]]].
  unfold float_of_int. destruct (Z.eqb_spec n 0) as [Hz|_]; [exfalso; unfold m in Hm; rewrite Hz in Hm; cbn in Hm; lia|].
  fold m. rewrite Hr. reflexivity.
Qed.

(* float64(int64 n) for |n| < 2^53: exact (the significand is n scaled to 53 bits, nothing is rounded away) *)
Lemma rpr_small n e : 0 <= e <= 52 -> 2 ^ e <= n < 2 ^ (e + 1) ->
  round_pos_rational n 1 = Some ((e + 1023) * 2 ^ 52 + (n * 2 ^ (52 - e) - 2 ^ 52)).
Proof. intros He Hn. exact (rpr_enc n e He Hn). Qed.      (* proved in C09/FloatMono.v about the same C06 model *)

Lemma float_of_int_exact_small n : n <> 0 -> Z.abs n < 2 ^ 53 ->
  let e := Z.log2 (Z.abs n) in
  float_of_int n = (if n <? 0 then two63 else 0) + ((e + 1023) * 2 ^ 52 + (Z.abs n * 2 ^ (52 - e) - 2 ^ 52))
  /\ 0 <= e <= 52 /\ 2 ^ 52 <= Z.abs n * 2 ^ (52 - e) < 2 ^ 53.
Proof.
  intros Hn0 Hsmall. cbv zeta. set (m := Z.abs n) in *. assert (Hm : 0 < m) by (unfold m; lia).
  set (e := Z.log2 m).
  assert (Hlog : 2 ^ e <= m < 2 ^ (e + 1)).
  { pose proof (Z.log2_spec m Hm) as H. unfold e. replace (Z.log2 m + 1) with (Z.succ (Z.log2 m)) by lia. exact H. }
  assert (He : 0 <= e <= 52).
  { unfold e. split; [apply Z.log2_nonneg|]. assert (Z.log2 m < 53); [apply Z.log2_lt_pow2; lia|lia]. }
  split; [|split; [exact He|]].
  - unfold float_of_int. destruct (Z.eqb_spec n 0); [contradiction|]. fold m. rewrite (rpr_small m e He Hlog). reflexivity.
  - assert (Hp : 0 < 2 ^ (52 - e)) by (apply Z.pow_pos_nonneg; lia).
    assert (H1 : 2 ^ e * 2 ^ (52 - e) = 2 ^ 52) by (rewrite <- Z.pow_add_r by lia; f_equal; lia).
    assert (H2 : 2 ^ (e + 1) * 2 ^ (52 - e) = 2 ^ 53) by (rewrite <- Z.pow_add_r by lia; f_equal; lia).
    split; [rewrite <- H1; apply Z.mul_le_mono_nonneg_r; lia|rewrite <- H2; apply Z.mul_lt_mono_pos_r; lia].
Qed.

(* ---------------------------------------------------------------- mixed int/float min and max: float always wins *)
Lemma mixed_min_max_int_float a f :
  eval_bin OMin (NInt a) (NFloat f) = RFloat (f_min (i2f a) f) /\ eval_bin OMax (NInt a) (NFloat f) = RFloat (f_max (i2f a) f).
Proof.
  cbn [eval_bin]. unfold min_variadic2, max_variadic2, min_bin, max_bin, num_of_res, to_f. rewrite !Z.ltb_irrefl. split; reflexivity.
Qed.

Lemma mixed_min_max_float_any f y :
  eval_bin OMin (NFloat f) y = RFloat (f_min (f_min f f) (to_f y)) /\ eval_bin OMax (NFloat f) y = RFloat (f_max (f_max f f) (to_f y)).
Proof. destruct y; split; reflexivity. Qed.

(* equal values of different types: the result is the float (max(1, 1.0) = 1.0, max(2, 1.0) = 2.0 as a float, min(1.0, 1) = 1.0) *)
Lemma mixed_min_max_examples :
  eval_bin OMax (NInt 1) (NFloat 1%float) = RFloat 1%float /\ eval_bin OMax (NFloat 1%float) (NInt 1) = RFloat 1%float
  /\ eval_bin OMax (NInt 2) (NFloat 1%float) = RFloat 2%float /\ eval_bin OMin (NFloat 1%float) (NInt 1) = RFloat 1%float
  /\ eval_bin OMin (NInt 1) (NFloat 2%float) = RFloat 1%float.
Proof. vm_compute. repeat split. Qed.
