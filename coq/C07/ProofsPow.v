(* C07 lemmas: int ** int.  int_power is the exact integer power with overflow detection (ALL int64 bases, ALL
   non-negative int64 exponents); otherwise the result is the float math.Pow of the converted operands. *)
From Coq Require Import Floats.
From Miller Require Import Base.Bytes C06.Model C07.Model C07.Proofs C07.ProofsInt.
Open Scope Z_scope.

(* hi != 0 || lo > 2^63 *)
Lemma hi_lo_gt p : 0 <= p -> negb (p / two64 =? 0) || (two63 <? p mod two64) = (two63 <? p).
Proof.
  intros Hp. pose proof (hi_lo_le p Hp) as H.
  destruct (p / two64 =? 0); cbn [negb orb andb] in *.
  - rewrite Z.ltb_antisym, H, <- Z.ltb_antisym. reflexivity.
  - symmetry. rewrite Z.ltb_antisym, <- H. reflexivity.
Qed.

Lemma ipow_loop_spec ua : 1 <= ua ->
  forall n mag, 1 <= mag <= two63 ->
  ipow_loop n mag ua = if mag * ua ^ Z.of_nat n <=? two63 then Some (mag * ua ^ Z.of_nat n) else None.
Proof.
  intros Hua. induction n as [|k IH]; intros mag Hmag.
  - cbn [ipow_loop Z.of_nat]. rewrite Z.pow_0_r, Z.mul_1_r.
    destruct (Z.leb_spec mag two63); [reflexivity|lia].
  - cbn [ipow_loop]. cbv zeta.
    assert (Hp : 0 <= mag * ua) by nia.
    rewrite (hi_lo_gt _ Hp).
    rewrite Nat2Z.inj_succ, Z.pow_succ_r by lia.
    assert (Hpk : 1 <= ua ^ Z.of_nat k) by (apply Z.lt_pred_le; apply Z.pow_pos_nonneg; lia).
    destruct (Z.ltb_spec two63 (mag * ua)) as [Hgt|Hle].
    + destruct (Z.leb_spec (mag * (ua * ua ^ Z.of_nat k)) two63) as [Hc|_]; [exfalso; nia|reflexivity].
    + rewrite (Z.mod_small (mag * ua)) by (consts; nia).
      rewrite IH by nia. replace (mag * ua * ua ^ Z.of_nat k) with (mag * (ua * ua ^ Z.of_nat k)) by ring. reflexivity.
Qed.

(* b & 1 == 1 on a two's-complement int is oddness *)
Lemma land1_odd b : (Z.land b 1 =? 1) = Z.odd b.
Proof.
  change 1 with (Z.ones 1) at 1. rewrite Z.land_ones by lia. change (2 ^ 1) with 2.
  rewrite Zmod_odd. destruct (Z.odd b); reflexivity.
Qed.

Lemma pow_sign a b : 0 <= b -> a ^ b = (if (a <? 0) && Z.odd b then -1 else 1) * Z.abs a ^ b.
Proof.
  intros Hb. destruct (Z.ltb_spec a 0) as [Hn|Hp]; cbn [andb].
  - replace a with (- Z.abs a) at 1 by lia.
    destruct (Z.odd b) eqn:Eo.
    + rewrite Z.pow_opp_odd by (apply Z.odd_spec; exact Eo). lia.
    + rewrite Z.pow_opp_even by (apply Z.even_spec; rewrite <- Z.negb_odd, Eo; reflexivity). lia.
  - rewrite Z.abs_eq by lia. lia.
Qed.

Lemma minus_one_pow b : 0 <= b -> (-1) ^ b = if Z.odd b then -1 else 1.
Proof.
  intros Hb. rewrite (pow_sign (-1) b Hb). cbn [Z.ltb Z.compare andb Z.abs]. rewrite Z.pow_1_l by lia.
  destruct (Z.odd b); reflexivity.
Qed.

(* int_power is the exact power exactly when it fits *)
Lemma int_power_spec a b : in64 a = true -> 0 <= b ->
  int_power a b = if in64 (a ^ b) then Some (a ^ b) else None.
Proof.
  intros Ha Hb. unfold int_power.
  destruct (Z.eqb_spec b 0) as [->|Hb0]; [reflexivity|].
  destruct (Z.eqb_spec a 0) as [->|Ha0]; cbn [orb]; [rewrite Z.pow_0_l by lia; reflexivity|].
  destruct (Z.eqb_spec a 1) as [->|Ha1]; [rewrite Z.pow_1_l by lia; reflexivity|].
  destruct (Z.eqb_spec a (-1)) as [->|Ham1].
  { rewrite land1_odd, minus_one_pow by lia. destruct (Z.odd b); reflexivity. }
  assert (Hua : 2 <= Z.abs a) by lia.
  rewrite (pow_sign a b Hb). rewrite land1_odd.
  set (M := Z.abs a ^ b).
  assert (HM : 1 <= M) by (apply Z.lt_pred_le; apply Z.pow_pos_nonneg; lia).
  destruct (Z.leb_spec 64 b) as [Hbig|Hsmall].
  - (* |a|^b >= 2^64 *)
    assert (two64 <= M).
    { unfold M. change two64 with (2 ^ 64).
      transitivity (2 ^ b); [apply Z.pow_le_mono_r; lia|apply Z.pow_le_mono_l; lia]. }
    replace (in64 ((if (a <? 0) && Z.odd b then -1 else 1) * M)) with false; [reflexivity|].
    symmetry. apply in64_false_iff. consts. destruct ((a <? 0) && Z.odd b); lia.
  - rewrite (umag_abs a Ha).
    rewrite (ipow_loop_spec (Z.abs a) ltac:(lia) (Z.to_nat b) 1 ltac:(consts; lia)).
    rewrite Z2Nat.id by lia. rewrite Z.mul_1_l. fold M.
    destruct (Z.leb_spec M two63) as [Hle|Hgt].
    + destruct ((a <? 0) && Z.odd b) eqn:Es.
      * replace (-1 * M) with (- M) by lia.
        rewrite <- (Z.mod_small M two64) at 1 by (consts; lia).
        rewrite (neg_u64_to_int64 M) by lia.
        replace (in64 (- M)) with true; [reflexivity|]. symmetry. apply in64_iff. consts. lia.
      * replace (1 * M) with M by lia.
        destruct (Z.eqb_spec M two63) as [He|Hne].
        -- replace (in64 M) with false; [reflexivity|]. symmetry. apply in64_false_iff. lia.
        -- rewrite wrap64_id by (apply in64_iff; consts; lia).
           replace (in64 M) with true; [reflexivity|]. symmetry. apply in64_iff. consts. lia.
    + replace (in64 ((if (a <? 0) && Z.odd b then -1 else 1) * M)) with false; [reflexivity|].
      symmetry. apply in64_false_iff. consts. destruct ((a <? 0) && Z.odd b); lia.
Qed.

Lemma pow_exact a b : in64 a = true -> 0 <= b -> in64 (a ^ b) = true ->
  eval_bin OPow (NInt a) (NInt b) = RInt (a ^ b).
Proof.
  intros Ha Hb Hf. cbn [eval_bin]. unfold pow_ii.
  destruct (Z.leb_spec 0 b); [|lia]. rewrite (int_power_spec a b Ha Hb), Hf. reflexivity.
Qed.

Lemma pow_overflow_float a b : in64 a = true -> 0 <= b -> in64 (a ^ b) = false ->
  eval_bin OPow (NInt a) (NInt b) = pow_float a b.
Proof.
  intros Ha Hb Hf. cbn [eval_bin]. unfold pow_ii.
  destruct (Z.leb_spec 0 b); [|lia]. rewrite (int_power_spec a b Ha Hb), Hf. reflexivity.
Qed.

(* an int result of ** is never a wrapped or rounded value *)
Lemma pow_float_not_int a b n : pow_float a b <> RInt n.
Proof. unfold pow_float. destruct (go_pow _ _); discriminate. Qed.

Lemma pow_int_is_exact a b n : in64 a = true -> 0 <= b -> eval_bin OPow (NInt a) (NInt b) = RInt n -> n = a ^ b.
Proof.
  intros Ha Hb H. destruct (in64 (a ^ b)) eqn:E.
  - rewrite (pow_exact a b Ha Hb E) in H. congruence.
  - rewrite (pow_overflow_float a b Ha Hb E) in H. exfalso. exact (pow_float_not_int _ _ _ H).
Qed.

(* negative exponent: a float, except for the bases 1 and -1 (the only ints with an int reciprocal) *)
Lemma pow_negative_exponent_float a b : b < 0 -> a <> 1 -> a <> -1 ->
  eval_bin OPow (NInt a) (NInt b) = pow_float a b.
Proof.
  intros Hb H1 Hm1. cbn [eval_bin]. unfold pow_ii. destruct (Z.leb_spec 0 b); [lia|].
  destruct (Z.eqb_spec a 1); [contradiction|]. destruct (Z.eqb_spec a (-1)); [contradiction|]. reflexivity.
Qed.

Lemma pow_negative_exponent_unit_base b : b < 0 ->
  eval_bin OPow (NInt 1) (NInt b) = RInt 1 /\ eval_bin OPow (NInt (-1)) (NInt b) = RInt (if Z.odd b then -1 else 1).
Proof.
  intros Hb. cbn [eval_bin]. unfold pow_ii. destruct (Z.leb_spec 0 b); [lia|]. cbn [Z.eqb orb Pos.eqb].
  assert (Hl : Z.land b 1 = if Z.odd b then 1 else 0).
  { change 1 with (Z.ones 1) at 1. rewrite Z.land_ones by lia. change (2 ^ 1) with 2.
    rewrite Zmod_odd. reflexivity. }
  rewrite Hl. destruct (Z.odd b); split; reflexivity.
Qed.

(* the RPanic branch of pow_ii (Go discards int_power's flag for the bases +-1) is unreachable *)
Lemma pow_ii_no_panic a b : pow_ii a b <> RPanic.
Proof.
  unfold pow_ii. destruct (0 <=? b).
  - destruct (int_power a b); [discriminate|]. unfold pow_float. destruct (go_pow _ _); discriminate.
  - destruct (Z.eqb_spec a 1) as [->|H1]; cbn [orb].
    + unfold int_power. destruct (Z.land b 1 =? 0); discriminate.
    + destruct (Z.eqb_spec a (-1)) as [->|Hm1].
      * unfold int_power. destruct (Z.land b 1 =? 0); discriminate.
      * unfold pow_float. destruct (go_pow _ _); discriminate.
Qed.

(* former defect witnesses, now exact / float *)
Lemma pow_former_witnesses :
  eval_bin OPow (NInt 3) (NInt 39) = RInt 4052555153018976267 /\ 3 ^ 39 = 4052555153018976267
  /\ eval_bin OPow (NInt 7) (NInt 22) = RInt (7 ^ 22)
  /\ eval_bin OPow (NInt (-1)) (NInt 9007199254740993) = RInt (-1)
  /\ eval_bin OPow (NInt 9223372036854775807) (NInt 1) = RInt 9223372036854775807
  /\ eval_bin OPow (NInt (-2)) (NInt 63) = RInt min_int64
  /\ (exists f, eval_bin OPow (NInt 2) (NInt 63) = RFloat f /\ bits_of_f f = float_of_int two63)
  /\ (exists f, eval_bin OPow (NInt 2) (NInt (-1075)) = RFloat f /\ bits_of_f f = 0)
  /\ (exists f, eval_bin OPow (NInt 2) (NInt (-1)) = RFloat f /\ bits_of_f f = 4602678819172646912).
Proof.
  split; [vm_compute; reflexivity|]. split; [vm_compute; reflexivity|]. split; [vm_compute; reflexivity|].
  split; [vm_compute; reflexivity|]. split; [vm_compute; reflexivity|]. split; [vm_compute; reflexivity|].
  split; [eexists; split; [vm_compute; reflexivity|vm_compute; reflexivity]|].
  split; eexists; (split; [vm_compute; reflexivity|vm_compute; reflexivity]).
Qed.
