(* C07 model: the int/float kernels of pkg/bifs/arithmetic.go, pkg/bifs/bits.go, the int-preserving part of
   pkg/bifs/mathlib.go (abs ceiling floor round sgn roundm in integer arithmetic, ** = int_power with a port of
   Go's math.Pow integer-exponent loop as the float fallback), min/max number kernels and madd/msub/mmul/mexp
   (exact math/big intermediates), plus the INT/FLOAT corner of their disposition matrices.  The model follows the
   code as repaired by the fix: commits listed in KNOWN_FINDINGS.txt.  Ints are Z with explicit wrap64 (Go int64 arithmetic wraps); floats are Coq primitive floats
   (IEEE-754 binary64, the same hardware operations Go uses).  Go run-time panics (integer division by zero)
   are the explicit outcome RPanic (after the fix: commits of round 1 no kernel can reach it: theorems C07_*_never_panics).  Definitions only. *)
From Coq Require Import Floats.
From Miller Require Import Base.Bytes C06.Model.
Open Scope Z_scope.

(* ------------------------------------------------------------------ numbers and outcomes *)
Inductive num := NInt (n : Z) | NFloat (f : float).
Inductive res :=
  | RInt (n : Z)            (* MT_INT *)
  | RFloat (f : float)      (* MT_FLOAT *)
  | RError                  (* MT_ERROR (type error / mexp negative exponent) *)
  | RPanic                  (* the Go code panics (process would crash) *)
  | RUnmodelled.            (* float result needing math.Exp/math.Log: outside the model *)

(* ------------------------------------------------------------------ float <-> bits, int64 <-> float64 *)
Definition canonical_nan_bits : Z := 9221120237041090561.      (* 0x7ff8000000000001, Go's math.NaN() *)

Definition f_of_bits (b : Z) : float :=
  let s := Z.odd (b / two63) in
  let e := (b / 2 ^ 52) mod 2 ^ 11 in
  let m := b mod 2 ^ 52 in
  if e =? 2047 then (if m =? 0 then (if s then neg_infinity else infinity) else nan)
  else if e =? 0 then
    (if m =? 0 then (if s then neg_zero else PrimFloat.zero) else SF2Prim (S754_finite s (Z.to_pos m) (-1074)))
  else SF2Prim (S754_finite s (Z.to_pos (m + 2 ^ 52)) (e - 1075)).

Definition bits_of_f (f : float) : Z :=
  match Prim2SF f with
  | S754_nan => canonical_nan_bits
  | S754_zero s => if s then two63 else 0
  | S754_infinity s => (if s then two63 else 0) + 2047 * 2 ^ 52
  | S754_finite s m e =>
      let m := Z.pos m in
      (if s then two63 else 0) + (if 2 ^ 52 <=? m then (e + 1075) * 2 ^ 52 + (m - 2 ^ 52) else m)
  end.

(* float64(int64 n): correctly rounded (C06.Model.float_of_int computes the bit pattern in exact integer arithmetic) *)
Definition i2f (n : Z) : float := f_of_bits (float_of_int n).

Definition min_int64 : Z := - two63.

(* int64(f) as compiled for amd64 (CVTTSD2SQ): truncation toward zero; NaN and out-of-range give 0x8000000000000000 *)
Definition f2i (f : float) : Z :=
  match Prim2SF f with
  | S754_zero _ => 0
  | S754_finite s m e =>
      let a := if 0 <=? e then Z.pos m * 2 ^ e else Z.pos m / 2 ^ (- e) in
      let v := if s then - a else a in
      if in64 v then v else min_int64
  | _ => min_int64
  end.

(* ------------------------------------------------------------------ math.Floor / Ceil / Round / Abs / lib.Sgn / Min / Max *)
Definition fzero (neg : bool) : float := if neg then neg_zero else PrimFloat.zero.

(* an integer of magnitude <= 2^53 as a float carrying the sign [neg] when it is zero *)
Definition f_of_small_Z (neg : bool) (k : Z) : float := if k =? 0 then fzero neg else i2f k.

Inductive rmode := MFloor | MCeil | MRound.

Definition f_integral (md : rmode) (f : float) : float :=
  match Prim2SF f with
  | S754_finite s m e =>
      if 0 <=? e then f
      else
        let d := 2 ^ (- e) in
        let q := Z.pos m / d in
        let r := Z.pos m mod d in
        if r =? 0 then f
        else
          let up :=                     (* magnitude goes up to q+1 ? *)
            match md with
            | MFloor => s               (* toward -inf: negative numbers grow in magnitude *)
            | MCeil => negb s
            | MRound => d <=? 2 * r     (* half away from zero *)
            end in
          let k := if up then q + 1 else q in
          f_of_small_Z s (if s then - k else k)
  | _ => f
  end.

Definition f_floor := f_integral MFloor.
Definition f_ceil := f_integral MCeil.
Definition f_round := f_integral MRound.

Definition f_sgn (a : float) : float :=
  if (0 <? a)%float then 1%float
  else if (a <? 0)%float then (-1)%float
  else if (a =? 0)%float then 0%float
  else nan.

Definition is_pinf (f : float) : bool := is_infinity f && negb (get_sign f).
Definition is_ninf (f : float) : bool := is_infinity f && get_sign f.

Definition f_max (x y : float) : float :=
  if is_pinf x || is_pinf y then infinity
  else if is_nan x || is_nan y then nan
  else if (x =? 0)%float && (x =? y)%float then (if get_sign x then y else x)
  else if (y <? x)%float then x else y.

Definition f_min (x y : float) : float :=
  if is_ninf x || is_ninf y then neg_infinity
  else if is_nan x || is_nan y then nan
  else if (x =? 0)%float && (x =? y)%float then (if get_sign x then x else y)
  else if (x <? y)%float then x else y.

(* ------------------------------------------------------------------ Go int64 division *)
Definition go_quot (a b : Z) : Z := wrap64 (Z.quot a b).      (* MinInt64 / -1 wraps to MinInt64 *)
Definition go_rem (a b : Z) : Z := Z.rem a b.                 (* MinInt64 % -1 = 0 *)

(* ------------------------------------------------------------------ arithmetic.go: int x int kernels *)
Definition plus_ii (a b : Z) : res :=
  let c := wrap64 (a + b) in
  let overflowed :=
    if 0 <? a then (0 <? b) && (c <? 0)
    else if a <? 0 then (b <? 0) && (0 <=? c)       (* c = 0 is the wrapped sum of two -2^63's *)
    else false in
  if overflowed then RFloat (i2f a + i2f b)%float else RInt c.

Definition minus_ii (a b : Z) : res :=
  let c := wrap64 (a - b) in
  let overflowed :=
    if 0 <=? a then (b <? 0) && (c <? 0)            (* a = 0: 0 - (-2^63) wraps to -2^63 *)
    else (0 <? b) && (0 <? c) in
  if overflowed then RFloat (i2f a - i2f b)%float else RInt c.

(* uint64 magnitude of an int64:  u := uint64(a); if a < 0 { u = -u }   (= |a|, also for -2^63: lemma umag_abs) *)
Definition umag (a : Z) : Z := if a <? 0 then (- (a mod two64)) mod two64 else a mod two64.

(* times_n_ii (repaired: /repo fix "int * int is exact whenever the product fits"): hi, lo := bits.Mul64(|a|, |b|); a product of
   operands with different signs fits iff its magnitude is <= 2^63, any other iff it is < 2^63; int64(-lo) / int64(lo);
   otherwise the float product of the converted operands *)
Definition times_ii (a b : Z) : res :=
  let p := umag a * umag b in
  let hi := p / two64 in
  let lo := p mod two64 in
  if negb (Bool.eqb (a <? 0) (b <? 0)) then
    (if (hi =? 0) && (lo <=? two63) then RInt (wrap64 ((- lo) mod two64)) else RFloat (i2f a * i2f b)%float)
  else
    (if (hi =? 0) && (lo <? two63) then RInt (wrap64 lo) else RFloat (i2f a * i2f b)%float).

Definition divide_ii (a b : Z) : res :=
  if b =? 0 then RFloat (i2f a / i2f b)%float
  else if (b =? -1) && (a =? min_int64) then RFloat (- i2f a)%float    (* the one quotient that does not fit *)
  else if go_rem a b =? 0 then RInt (go_quot a b)
  else RFloat (i2f a / i2f b)%float.

Definition int_divide_ii (a b : Z) : res :=
  if b =? 0 then RFloat (i2f a / i2f b)%float
  else if (b =? -1) && (a =? min_int64) then RFloat (- i2f a)%float
  else
    let q := go_quot a b in
    let r := go_rem a b in
    let dec := if a <? 0 then (0 <? b) && negb (r =? 0) else (b <? 0) && negb (r =? 0) in
    RInt (if dec then wrap64 (q - 1) else q).

Definition modulus_ii (a b : Z) : res :=
  if b =? 0 then RFloat (i2f a / i2f b)%float
  else
    let m := go_rem a b in
    let adj := negb (m =? 0) && negb (Bool.eqb (m <? 0) (b <? 0)) in    (* divisor's sign; an exact multiple is 0 *)
    RInt (if adj then wrap64 (m + b) else m).

Definition dotplus_ii (a b : Z) : res := RInt (wrap64 (a + b)).
Definition dotminus_ii (a b : Z) : res := RInt (wrap64 (a - b)).
Definition dottimes_ii (a b : Z) : res := RInt (wrap64 (a * b)).
Definition dotdivide_ii (a b : Z) : res := if b =? 0 then RFloat (i2f a / i2f b)%float else RInt (go_quot a b).

(* float kernels shared by the _if/_fi/_ff variants (operands already converted) *)
Definition int_divide_ff (a b : float) : float := f_floor (a / b)%float.
Definition modulus_ff (a b : float) : float := (a - b * f_floor (a / b))%float.

(* ------------------------------------------------------------------ bits.go *)
Definition u64 (a : Z) : Z := a mod two64.

Definition bitand_ii (a b : Z) : res := RInt (Z.land a b).
Definition bitor_ii (a b : Z) : res := RInt (Z.lor a b).
Definition bitxor_ii (a b : Z) : res := RInt (Z.lxor a b).
Definition bitnot_i (a : Z) : res := RInt (Z.lnot a).

(* x << uint64(b), x >> uint64(b): Go shifts by an unsigned count; counts >= 64 shift everything out *)
Definition lsh_ii (a b : Z) : res :=
  let u := u64 b in if 64 <=? u then RInt 0 else RInt (wrap64 (Z.shiftl a u)).
Definition srsh_ii (a b : Z) : res :=
  let u := u64 b in if 64 <=? u then RInt (if a <? 0 then -1 else 0) else RInt (Z.shiftr a u).
Definition ursh_ii (a b : Z) : res :=
  let u := u64 b in if 64 <=? u then RInt 0 else RInt (wrap64 (Z.shiftr (u64 a) u)).

Definition m01 : Z := 0x5555555555555555.
Definition m02 : Z := 0x3333333333333333.
Definition m04 : Z := 0x0f0f0f0f0f0f0f0f.
Definition m08 : Z := 0x00ff00ff00ff00ff.
Definition m16 : Z := 0x0000ffff0000ffff.
Definition m32 : Z := 0x00000000ffffffff.
Definition bc_step (a mask sh : Z) : Z := u64 (Z.land a mask + Z.land (Z.shiftr a sh) mask).
Definition bitcount_i (a : Z) : res :=
  let a := u64 a in
  let a := bc_step a m01 1 in let a := bc_step a m02 2 in let a := bc_step a m04 4 in
  let a := bc_step a m08 8 in let a := bc_step a m16 16 in let a := bc_step a m32 32 in
  RInt (wrap64 a).

(* ------------------------------------------------------------------ mathlib.go: int-preserving unary functions *)
Inductive ufun := FAbs | FCeil | FFloor | FRound | FSgn.
Definition apply_ufun (u : ufun) (x : float) : float :=
  match u with
  | FAbs => PrimFloat.abs x | FCeil => f_ceil x | FFloor => f_floor x | FRound => f_round x | FSgn => f_sgn x
  end.

(* BIF_abs/ceil/floor/round/sgn on MT_INT: abs_n_i, identity_i_i, sgn_i_i -- integer arithmetic, no float64 round trip;
   abs of the minimum int64 overflows to the float 2^63.  math_unary_f_f: f(x) *)
Definition math_unary_i (u : ufun) (a : Z) : res :=
  match u with
  | FAbs => if a =? min_int64 then RFloat (- i2f a)%float else RInt (if a <? 0 then wrap64 (- a) else a)
  | FCeil | FFloor | FRound => RInt a
  | FSgn => RInt (if 0 <? a then 1 else if a <? 0 then -1 else 0)
  end.
Definition math_unary_f (u : ufun) (x : float) : res := RFloat (apply_ufun u x).

Definition mlr_roundm (x m : float) : float := (f_round (x / m) * m)%float.
(* roundm_f_ii: the multiple of m nearest x, halves away from zero, by uint64 magnitudes and bits.Mul64; float
   round(x/m)*m when m = 0 (NaN) or when the multiple does not fit.  The Go division ux / um would panic for um = 0. *)
Definition roundm_ii (x m : Z) : res :=
  if m =? 0 then RFloat (mlr_roundm (i2f x) (i2f m))
  else
    let ux := umag x in
    let um := umag m in
    if um =? 0 then RPanic
    else
      let q := ux / um in
      let r := ux mod um in
      let q' := if um - r <=? r then (q + 1) mod two64 else q in
      let p := q' * um in                                   (* hi, lo := bits.Mul64(quotient, um) *)
      let hi := p / two64 in
      let lo := p mod two64 in
      if x <? 0 then
        (if (hi =? 0) && (lo <=? two63) then RInt (wrap64 ((- lo) mod two64)) else RFloat (mlr_roundm (i2f x) (i2f m)))
      else
        (if (hi =? 0) && (lo <? two63) then RInt (wrap64 lo) else RFloat (mlr_roundm (i2f x) (i2f m))).

(* ------------------------------------------------------------------ math.Pow (go1.25 pure-Go pow; no assembly on amd64) *)
Definition f_trunc (x : float) : float := if get_sign x then f_ceil x else f_floor x.

Definition is_odd_int (y : float) : bool :=
  if (0x1p+53 <=? PrimFloat.abs y)%float then false
  else let yi := f_trunc y in (y - yi =? 0)%float && Z.odd (f2i yi).

Definition pow_zero_case (x y : float) : float :=      (* x == 0, y <> 0, y not NaN *)
  if (y <? 0)%float then (if get_sign x && is_odd_int y then neg_infinity else infinity)
  else (if get_sign x && is_odd_int y then x else PrimFloat.zero).

Fixpoint pow_loop (fuel : nat) (i : Z) (x1 : float) (xe : Z) (a1 : float) (ae : Z) : float * Z :=
  match fuel with
  | O => (a1, ae)
  | S k =>
      if i =? 0 then (a1, ae)
      else if (xe <? -4096) || (4096 <? xe) then (a1, ae + xe)
      else
        let '(a1', ae') := if Z.odd i then ((a1 * x1)%float, ae + xe) else (a1, ae) in
        let x1' := (x1 * x1)%float in
        let xe' := 2 * xe in
        let '(x1'', xe'') := if (x1' <? 0.5)%float then ((x1' + x1')%float, xe' - 1) else (x1', xe') in
        pow_loop k (i / 2) x1'' xe'' a1' ae'
  end.

(* None: the result needs math.Exp/math.Log (non-integer exponent other than +-0.5) *)
Definition go_pow (x y : float) : option float :=
  if (y =? 0)%float || (x =? 1)%float then Some 1%float
  else if (y =? 1)%float then Some x
  else if is_nan x || is_nan y then Some nan
  else if (x =? 0)%float then Some (pow_zero_case x y)
  else if is_infinity y then
    (if (x =? -1)%float then Some 1%float
     else if Bool.eqb (PrimFloat.abs x <? 1)%float (negb (get_sign y)) then Some PrimFloat.zero
     else Some infinity)
  else if is_infinity x then
    (if get_sign x then Some (pow_zero_case neg_zero (- y)%float)     (* Pow(1/x, -y) = Pow(-0, -y) *)
     else if (y <? 0)%float then Some PrimFloat.zero else Some infinity)
  else if (y =? 0.5)%float then Some (PrimFloat.sqrt x)
  else if (y =? -0.5)%float then Some (1 / PrimFloat.sqrt x)%float
  else
    let ay := PrimFloat.abs y in
    let yi := f_floor ay in
    let yf := (ay - yi)%float in
    if negb (yf =? 0)%float && (x <? 0)%float then Some nan
    else if (0x1p+63 <=? yi)%float then
      (if (x =? -1)%float then Some 1%float
       else if Bool.eqb (PrimFloat.abs x <? 1)%float (0 <? y)%float then Some PrimFloat.zero
       else Some infinity)
    else if negb (yf =? 0)%float then None
    else
      let '(x1, xe) := Z.frexp x in
      let '(a1, ae) := pow_loop 64 (f2i yi) x1 xe 1%float 0 in
      let '(a1, ae) := if (y <? 0)%float then ((1 / a1)%float, - ae) else (a1, ae) in
      Some (Z.ldexp a1 ae).

(* int_power (mathlib.go): a**b for b >= 0 in exact integer arithmetic; None = the power does not fit in an int64.
   The loop multiplies the uint64 magnitude b times (b < 64), giving up as soon as the product exceeds 2^63. *)
Fixpoint ipow_loop (n : nat) (mag ua : Z) : option Z :=
  match n with
  | O => Some mag
  | S k =>
      let p := mag * ua in                                  (* hi, lo := bits.Mul64(magnitude, ua) *)
      if negb (p / two64 =? 0) || (two63 <? p mod two64) then None else ipow_loop k (p mod two64) ua
  end.

Definition int_power (a b : Z) : option Z :=
  if b =? 0 then Some 1
  else if (a =? 0) || (a =? 1) then Some a
  else if a =? -1 then Some (if Z.land b 1 =? 1 then -1 else 1)
  else if 64 <=? b then None
  else
    match ipow_loop (Z.to_nat b) 1 (umag a) with
    | None => None
    | Some mag =>
        if (a <? 0) && (Z.land b 1 =? 1) then Some (wrap64 ((- mag) mod two64))
        else if mag =? two63 then None
        else Some (wrap64 mag)
    end.

Definition pow_float (a b : Z) : res :=
  match go_pow (i2f a) (i2f b) with
  | Some fo => RFloat fo
  | None => RUnmodelled      (* unreachable: an int exponent has no fractional part *)
  end.

(* pow_f_ii: exact int when it fits, else math.Pow on the converted operands; a negative exponent gives a float
   except for the bases 1 and -1 *)
Definition pow_ii (a b : Z) : res :=
  if 0 <=? b then
    match int_power a b with
    | Some n => RInt n
    | None => pow_float a b
    end
  else if (a =? 1) || (a =? -1) then
    match int_power a (Z.land b 1) with
    | Some n => RInt n
    | None => RPanic         (* unreachable: Go discards the flag *)
    end
  else pow_float a b.
Definition pow_ff (x y : float) : res :=
  match go_pow x y with Some fo => RFloat fo | None => RUnmodelled end.

(* ------------------------------------------------------------------ madd / msub / mmul / mexp *)
(* mlrmod: a % m with the Go remainder, made non-negative by adding m; m = 0 panics *)
Definition mlrmod (a m : Z) : option Z :=
  if m =? 0 then None
  else let r := go_rem a m in Some (if r <? 0 then wrap64 (r + m) else r).

(* mlrmodbig on the exact math/big sum, difference or product: no 64-bit wrap before the reduction
   (mlrmod above is already a function of an unbounded Z; big.Int.Rem is the truncated remainder Z.rem) *)
Definition imodadd (a b m : Z) : option Z := mlrmod (a + b) m.
Definition imodsub (a b m : Z) : option Z := mlrmod (a - b) m.
Definition imodmul (a b m : Z) : option Z := mlrmod (a * b) m.

Fixpoint mexp_loop (fuel : nat) (u apower c m : Z) : option Z :=
  match fuel with
  | O => Some c
  | S k =>
      if u =? 0 then Some c
      else
        match (if Z.odd u then imodmul c apower m else Some c) with
        | None => None
        | Some c' =>
            match imodmul apower apower m with
            | None => None
            | Some ap' => mexp_loop k (u / 2) ap' c' m
            end
        end
  end.

Definition imodexp (a e m : Z) : option Z :=
  match mlrmod 1 m with
  | None => None
  | Some c0 => mexp_loop 64 (u64 e) a c0 m
  end.

Definition of_modop (r : option Z) : res := match r with Some n => RInt n | None => RPanic end.

(* ------------------------------------------------------------------ the INT/FLOAT corner of the disposition matrices *)
Inductive binop :=
  | OPlus | OMinus | OTimes | ODivide | OIntDivide | OMod | OPow
  | ODotPlus | ODotMinus | ODotTimes | ODotDivide
  | OAnd | OOr | OXor | OLsh | OSrsh | OUrsh
  | ORoundm | OMin | OMax.
Inductive unop := UNeg | UPos | UNot | UBitcount | UMath (u : ufun).
Inductive ternop := TMadd | TMsub | TMmul | TMexp.

Definition to_f (x : num) : float := match x with NInt n => i2f n | NFloat f => f end.

(* min_i_ii / max_i_ii return one of their arguments *)
Definition min_bin (x y : num) : res :=
  match x, y with
  | NInt a, NInt b => RInt (if a <? b then a else b)
  | _, _ => RFloat (f_min (to_f x) (to_f y))
  end.
Definition max_bin (x y : num) : res :=
  match x, y with
  | NInt a, NInt b => RInt (if b <? a then a else b)
  | _, _ => RFloat (f_max (to_f x) (to_f y))
  end.
Definition num_of_res (r : res) (d : num) : num :=
  match r with RInt n => NInt n | RFloat f => NFloat f | _ => d end.
(* BIF_min_variadic [x; y] = ArrayFold [x; y] x min_binary = min_binary (min_binary x x) y *)
Definition min_variadic2 (x y : num) : res := min_bin (num_of_res (min_bin x x) x) y.
Definition max_variadic2 (x y : num) : res := max_bin (num_of_res (max_bin x x) x) y.

Definition eval_bin (op : binop) (x y : num) : res :=
  match op with
  | OPlus => match x, y with NInt a, NInt b => plus_ii a b | _, _ => RFloat (to_f x + to_f y)%float end
  | OMinus => match x, y with NInt a, NInt b => minus_ii a b | _, _ => RFloat (to_f x - to_f y)%float end
  | OTimes => match x, y with NInt a, NInt b => times_ii a b | _, _ => RFloat (to_f x * to_f y)%float end
  | ODivide => match x, y with NInt a, NInt b => divide_ii a b | _, _ => RFloat (to_f x / to_f y)%float end
  | OIntDivide => match x, y with NInt a, NInt b => int_divide_ii a b | _, _ => RFloat (int_divide_ff (to_f x) (to_f y)) end
  | OMod => match x, y with NInt a, NInt b => modulus_ii a b | _, _ => RFloat (modulus_ff (to_f x) (to_f y)) end
  | OPow => match x, y with NInt a, NInt b => pow_ii a b | _, _ => pow_ff (to_f x) (to_f y) end
  | ODotPlus => match x, y with NInt a, NInt b => dotplus_ii a b | _, _ => RFloat (to_f x + to_f y)%float end
  | ODotMinus => match x, y with NInt a, NInt b => dotminus_ii a b | _, _ => RFloat (to_f x - to_f y)%float end
  | ODotTimes => match x, y with NInt a, NInt b => dottimes_ii a b | _, _ => RFloat (to_f x * to_f y)%float end
  | ODotDivide => match x, y with NInt a, NInt b => dotdivide_ii a b | _, _ => RFloat (to_f x / to_f y)%float end
  | OAnd => match x, y with NInt a, NInt b => bitand_ii a b | _, _ => RError end
  | OOr => match x, y with NInt a, NInt b => bitor_ii a b | _, _ => RError end
  | OXor => match x, y with NInt a, NInt b => bitxor_ii a b | _, _ => RError end
  | OLsh => match x, y with NInt a, NInt b => lsh_ii a b | _, _ => RError end
  | OSrsh => match x, y with NInt a, NInt b => srsh_ii a b | _, _ => RError end
  | OUrsh => match x, y with NInt a, NInt b => ursh_ii a b | _, _ => RError end
  | ORoundm => match x, y with NInt a, NInt b => roundm_ii a b | _, _ => RFloat (mlr_roundm (to_f x) (to_f y)) end
  | OMin => min_variadic2 x y
  | OMax => max_variadic2 x y
  end.

Definition eval_un (op : unop) (x : num) : res :=
  match op, x with
  | UNeg, NInt a => RInt (wrap64 (- a))
  | UNeg, NFloat f => RFloat (- f)%float
  | UPos, NInt a => RInt a
  | UPos, NFloat f => RFloat f
  | UNot, NInt a => bitnot_i a
  | UNot, NFloat _ => RError
  | UBitcount, NInt a => bitcount_i a
  | UBitcount, NFloat _ => RError
  | UMath u, NInt a => math_unary_i u a
  | UMath u, NFloat f => math_unary_f u f
  end.

(* imodop / BIF_mod_exp: all three must be ints; mexp rejects a negative exponent before anything else;
   a zero modulus is an error value (imodop checks it before calling the kernel, so of_modop never sees None) *)
Definition eval_tern (op : ternop) (x y z : num) : res :=
  match op, y with
  | TMexp, NInt e => if e <? 0 then RError else
      match x, z with
      | NInt a, NInt m => if m =? 0 then RError else of_modop (imodexp a e m)
      | _, _ => RError
      end
  | _, _ =>
      match x, y, z with
      | NInt a, NInt b, NInt m =>
          if m =? 0 then RError else
          of_modop (match op with
                    | TMadd => imodadd a b m | TMsub => imodsub a b m
                    | TMmul => imodmul a b m | TMexp => imodexp a b m end)
      | _, _, _ => RError
      end
  end.
