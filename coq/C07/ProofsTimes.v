(* C07 lemmas: int * int by the 128-bit product of the magnitudes (times_n_ii as repaired): the exact product whenever
   it fits in an int64, the float product of the converted operands otherwise, for ALL int64 operands. *)
From Coq Require Import Floats.
From Miller Require Import Base.Bytes C06.Model C07.Model C07.Proofs C07.ProofsInt.
Open Scope Z_scope.

(* hi == 0 && lo < 2^63   where hi:lo is the 128-bit value p >= 0 *)
Lemma hi_lo_lt p : 0 <= p -> (p / two64 =? 0) && (p mod two64 <? two63) = (p <? two63).
Proof.
  intros Hp. consts.
  pose proof (Z.div_mod p 18446744073709551616 ltac:(lia)) as Hdm.
  pose proof (Z.mod_pos_bound p 18446744073709551616 ltac:(lia)) as Hb.
  assert (0 <= p / 18446744073709551616) by (apply Z.div_pos; lia).
  destruct (Z.eqb_spec (p / 18446744073709551616) 0) as [Hz|Hz]; cbn [andb].
  - rewrite Hz in Hdm. replace (p mod 18446744073709551616) with p by lia. reflexivity.
  - symmetry. apply Z.ltb_ge. lia.
Qed.

(* int64(-lo) for a uint64 lo <= 2^63 *)
Lemma wrap_neg_lo lo : 0 <= lo <= two63 -> wrap64 ((- lo) mod two64) = - lo.
Proof.
  intros H. symmetry. apply wrap64_unique.
  - apply in64_iff. consts. lia.
  - rewrite Z.mod_mod by (consts; lia). reflexivity.
Qed.

(* the sign test of times_n_ii: (a < 0) != (b < 0) *)
Lemma times_sign_split a b :
  (negb (Bool.eqb (a <? 0) (b <? 0)) = true /\ a * b = - (Z.abs a * Z.abs b))
  \/ (negb (Bool.eqb (a <? 0) (b <? 0)) = false /\ a * b = Z.abs a * Z.abs b).
Proof.
  destruct (Z.ltb_spec a 0), (Z.ltb_spec b 0); cbn [Bool.eqb negb]; [right|left|left|right]; (split; [reflexivity|]); nia.
Qed.

Lemma times_ii_cases a b : in64 a = true -> in64 b = true ->
  times_ii a b = if in64 (a * b) then RInt (a * b) else RFloat (i2f a * i2f b)%float.
Proof.
  intros Ha Hb. unfold times_ii. rewrite (umag_abs a Ha), (umag_abs b Hb).
  set (p := Z.abs a * Z.abs b).
  assert (Hp : 0 <= p) by (unfold p; nia).
  cbv zeta. rewrite (hi_lo_le p Hp), (hi_lo_lt p Hp).
  destruct (times_sign_split a b) as [[Hs Hv]|[Hs Hv]]; rewrite Hs; fold p in Hv; rewrite Hv.
  - destruct (Z.leb_spec p two63) as [Hle|Hgt].
    + assert (Hlo : p mod two64 = p) by (apply Z.mod_small; consts; lia).
      rewrite Hlo, (wrap_neg_lo p (conj Hp Hle)).
      replace (in64 (- p)) with true; [reflexivity|]. symmetry. apply in64_iff. consts. lia.
    + replace (in64 (- p)) with false; [reflexivity|]. symmetry. apply in64_false_iff. consts. lia.
  - destruct (Z.ltb_spec p two63) as [Hlt|Hge].
    + assert (Hlo : p mod two64 = p) by (apply Z.mod_small; consts; lia).
      assert (Hin : in64 p = true) by (apply in64_iff; consts; lia).
      rewrite Hlo, (wrap64_id p Hin), Hin. reflexivity.
    + replace (in64 p) with false; [reflexivity|]. symmetry. apply in64_false_iff. consts. lia.
Qed.

Lemma times_exact a b : in64 a = true -> in64 b = true -> in64 (a * b) = true -> times_ii a b = RInt (a * b).
Proof. intros Ha Hb Hc. rewrite (times_ii_cases a b Ha Hb), Hc. reflexivity. Qed.

Lemma times_overflow_is_float a b : in64 a = true -> in64 b = true -> in64 (a * b) = false ->
  times_ii a b = RFloat (i2f a * i2f b)%float.
Proof. intros Ha Hb Hc. rewrite (times_ii_cases a b Ha Hb), Hc. reflexivity. Qed.

Lemma times_int_is_exact a b n : in64 a = true -> in64 b = true -> times_ii a b = RInt n -> n = a * b.
Proof.
  intros Ha Hb. rewrite (times_ii_cases a b Ha Hb). destruct (in64 (a * b)); [|discriminate].
  intros H. inversion H. reflexivity.
Qed.

(* int result iff the product fits *)
Lemma times_int_iff_fits a b : in64 a = true -> in64 b = true ->
  ((exists n, times_ii a b = RInt n) <-> in64 (a * b) = true).
Proof.
  intros Ha Hb. rewrite (times_ii_cases a b Ha Hb). destruct (in64 (a * b)); split; intros H;
    try reflexivity; try (eexists; reflexivity); try (destruct H; discriminate); discriminate.
Qed.

(* the witnesses of the former threshold band (products within 1024 of 2^63 were floats) and of the first repair
   (948308289: the wrapped product), and the products of magnitude exactly 2^63 *)
Lemma times_band_witnesses :
  times_ii 9223372036854775807 1 = RInt 9223372036854775807
  /\ times_ii (-2147483648) 4294967296 = RInt min_int64
  /\ times_ii 3037000499 3037000499 = RInt 9223372030926249001
  /\ times_ii min_int64 1 = RInt min_int64 /\ times_ii (-1) min_int64 = RFloat (i2f (-1) * i2f min_int64)%float
  /\ times_ii 2147483648 4294967296 = RFloat (i2f 2147483648 * i2f 4294967296)%float
  /\ times_ii (-2) (-4611686018427387904) = RFloat (i2f (-2) * i2f (-4611686018427387904))%float
  /\ bits_of_f (i2f 2147483648 * i2f 4294967296)%float = float_of_int two63.
Proof. vm_compute. repeat split. Qed.

(* ---------------------------------------------------------------- / : an int result exactly when b divides a and the quotient fits *)
Lemma divide_int_iff_divisible a b : in64 a = true -> in64 b = true -> b <> 0 ->
  forall n, divide_ii a b = RInt n <-> (a = b * n /\ in64 n = true).
Proof.
  intros Ha Hb Hb0 n. split.
  - unfold divide_ii. destruct (Z.eqb_spec b 0); [contradiction|].
    destruct ((b =? -1) && (a =? min_int64)) eqn:Eh; [discriminate|].
    unfold go_rem. destruct (Z.eqb_spec (Z.rem a b) 0) as [Hr|Hr]; [|discriminate].
    intros H; inversion H; subst n; clear H.
    assert (Hnh : ~ div_hole a b). { intros Hh. apply hole_test in Hh. congruence. }
    split.
    + rewrite (go_quot_exact a b Ha Hb Hb0 Hnh). pose proof (Z.quot_rem' a b). lia.
    + unfold go_quot. apply wrap64_in64.
  - intros [Hq Hi]. apply (divide_exact a b n Ha Hb Hb0 Hq Hi).
Qed.

Lemma divide_float_iff_not_divisible a b : in64 a = true -> in64 b = true -> b <> 0 ->
  (forall q, ~ (a = b * q /\ in64 q = true)) -> exists f, divide_ii a b = RFloat f.
Proof.
  intros Ha Hb Hb0 Hn. destruct (divide_ii a b) eqn:E.
  - exfalso. apply (Hn n). apply (divide_int_iff_divisible a b Ha Hb Hb0 n). exact E.
  - eexists; reflexivity.
  - exfalso. unfold divide_ii in E. repeat match type of E with (if ?c then _ else _) = _ => destruct c end; discriminate.
  - exfalso. unfold divide_ii in E. repeat match type of E with (if ?c then _ else _) = _ => destruct c end; discriminate.
  - exfalso. unfold divide_ii in E. repeat match type of E with (if ?c then _ else _) = _ => destruct c end; discriminate.
Qed.

Lemma divide_examples :
  divide_ii 6 2 = RInt 3 /\ (exists f, divide_ii 7 2 = RFloat f /\ bits_of_f f = 4615063718147915776)
  /\ divide_ii (-6) 3 = RInt (-2) /\ divide_ii min_int64 1 = RInt min_int64 /\ divide_ii 0 5 = RInt 0.
Proof.
  split; [vm_compute; reflexivity|]. split; [exists (i2f 7 / i2f 2)%float; split; vm_compute; reflexivity|].
  split; [vm_compute; reflexivity|]. split; vm_compute; reflexivity.
Qed.
