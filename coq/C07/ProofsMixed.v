(* C07 lemmas: the INT/FLOAT corner of the disposition matrices.  Mixed and float/float operands of the arithmetic
   operators are the IEEE operation on the converted operands (definitional in the model: this is what the Go kernels
   *_f_if / *_f_fi / *_f_ff do; the tie to the code is the bit-exact correspondence); the bit operators and the
   modular functions reject floats with an error value. *)
From Coq Require Import Floats.
From Miller Require Import Base.Bytes C06.Model C07.Model.
Open Scope Z_scope.

Definition has_float (x y : num) : Prop := (exists f, x = NFloat f) \/ (exists f, y = NFloat f).

Lemma mixed_arith_ieee x y : has_float x y ->
  eval_bin OPlus x y = RFloat (to_f x + to_f y)%float /\ eval_bin OMinus x y = RFloat (to_f x - to_f y)%float /\
  eval_bin OTimes x y = RFloat (to_f x * to_f y)%float /\ eval_bin ODivide x y = RFloat (to_f x / to_f y)%float /\
  eval_bin ODotPlus x y = RFloat (to_f x + to_f y)%float /\ eval_bin ODotMinus x y = RFloat (to_f x - to_f y)%float /\
  eval_bin ODotTimes x y = RFloat (to_f x * to_f y)%float /\ eval_bin ODotDivide x y = RFloat (to_f x / to_f y)%float.
Proof.
  intros Hf. destruct x as [a|fa], y as [b|fb]; cbn [eval_bin to_f]; repeat split;
    exfalso; destruct Hf as [(f & Hf)|(f & Hf)]; discriminate Hf.
Qed.

Lemma to_f_int n : to_f (NInt n) = i2f n. Proof. reflexivity. Qed.
Lemma to_f_float f : to_f (NFloat f) = f. Proof. reflexivity. Qed.

Lemma bitops_reject_floats op x y : has_float x y ->
  In op [OAnd; OOr; OXor; OLsh; OSrsh; OUrsh] -> eval_bin op x y = RError.
Proof.
  intros Hf Hin. cbn [In] in Hin.
  destruct x as [a|fa], y as [b|fb];
    try (repeat (destruct Hin as [<-|Hin]; [reflexivity|]); contradiction).
  exfalso; destruct Hf as [(f & Hf)|(f & Hf)]; discriminate Hf.
Qed.

Lemma modops_reject_floats op x y z :
  (exists f, x = NFloat f) \/ (exists f, y = NFloat f) \/ (exists f, z = NFloat f) -> eval_tern op x y z = RError.
Proof.
  intros H. destruct op, x as [a|fa], y as [b|fb], z as [m|fm]; cbn [eval_tern]; try reflexivity;
    try (destruct (b <? 0); reflexivity);
    exfalso; destruct H as [(f & H)|[(f & H)|(f & H)]]; discriminate.
Qed.

(* a mixed or float result of any binary arithmetic operator is never an int *)
Lemma mixed_never_int op x y n : has_float x y -> eval_bin op x y <> RInt n.
Proof.
  intros Hf. destruct x as [a|fa], y as [b|fb];
    [exfalso; destruct Hf as [(f & Hf)|(f & Hf)]; discriminate Hf| | |];
    destruct op; cbn [eval_bin min_variadic2 max_variadic2 min_bin max_bin num_of_res to_f]; try (intros HH; discriminate HH);
    unfold pow_ff; destruct (go_pow _ _); intros HH; discriminate HH.
Qed.
