(* C07 lemmas, integer side: no floating-point reasoning; float results are opaque values. *)
From Coq Require Import Floats.
From Miller Require Import Base.Bytes C06.Model C07.Model.
Open Scope Z_scope.

Lemma two63_val : two63 = 9223372036854775808. Proof. reflexivity. Qed.
Lemma two64_val : two64 = 18446744073709551616. Proof. reflexivity. Qed.

Ltac consts := rewrite ?two63_val, ?two64_val in *.
Ltac unb := unfold in64, min_int64 in *; consts;
            repeat match goal with
                   | H : (_ && _)%bool = true |- _ => apply andb_prop in H; destruct H
                   | H : (_ <=? _) = true |- _ => apply Z.leb_le in H
                   | H : (_ <? _) = true |- _ => apply Z.ltb_lt in H
                   | H : (_ <=? _) = false |- _ => apply Z.leb_gt in H
                   | H : (_ <? _) = false |- _ => apply Z.ltb_ge in H
                   | H : (_ =? _) = true |- _ => apply Z.eqb_eq in H
                   | H : (_ =? _) = false |- _ => apply Z.eqb_neq in H
                   end.

Lemma in64_iff n : in64 n = true <-> - two63 <= n < two63.
Proof. unfold in64. rewrite andb_true_iff, Z.leb_le, Z.ltb_lt. tauto. Qed.

Lemma in64_false_iff n : in64 n = false <-> n < - two63 \/ two63 <= n.
Proof. unfold in64. rewrite andb_false_iff, Z.leb_gt, Z.ltb_ge. tauto. Qed.

Lemma wrap64_cases n :
  exists k, wrap64 n = n + k * two64 /\ - two63 <= wrap64 n < two63.
Proof.
  unfold wrap64. consts.
  exists (- ((n + 9223372036854775808) / 18446744073709551616)).
  pose proof (Z.div_mod (n + 9223372036854775808) 18446744073709551616 ltac:(lia)).
  pose proof (Z.mod_pos_bound (n + 9223372036854775808) 18446744073709551616 ltac:(lia)).
  lia.
Qed.

Lemma wrap64_in64 n : in64 (wrap64 n) = true.
Proof. destruct (wrap64_cases n) as (k & _ & H). apply in64_iff. exact H. Qed.

Lemma wrap64_id n : in64 n = true -> wrap64 n = n.
Proof.
  intros H. apply in64_iff in H. destruct (wrap64_cases n) as (k & Hk & Hr). consts. nia.
Qed.

Lemma wrap64_congr n : (wrap64 n) mod two64 = n mod two64.
Proof.
  destruct (wrap64_cases n) as (k & Hk & _). rewrite Hk. apply Z.mod_add. consts. lia.
Qed.

Lemma wrap64_unique n r : in64 r = true -> r mod two64 = n mod two64 -> r = wrap64 n.
Proof.
  intros Hr Hm. pose proof (wrap64_in64 n) as Hw. pose proof (wrap64_congr n) as Hc.
  rewrite <- Hm in Hc. apply in64_iff in Hr, Hw. consts.
  pose proof (Z.div_mod r 18446744073709551616 ltac:(lia)).
  pose proof (Z.div_mod (wrap64 n) 18446744073709551616 ltac:(lia)). lia.
Qed.

Ltac bsplit E := match type of E with
                 | (_ <? _) = true => apply Z.ltb_lt in E | (_ <? _) = false => apply Z.ltb_ge in E
                 | (_ <=? _) = true => apply Z.leb_le in E | (_ <=? _) = false => apply Z.leb_gt in E
                 end.

(* ---------------------------------------------------------------- + and - *)
Lemma plus_exact a b : in64 a = true -> in64 b = true -> in64 (a + b) = true -> plus_ii a b = RInt (a + b).
Proof.
  intros Ha Hb Hc. unfold plus_ii. rewrite (wrap64_id _ Hc).
  apply in64_iff in Ha, Hb, Hc. consts.
  destruct (0 <? a) eqn:E1; [destruct (0 <? b) eqn:E2; destruct (a + b <? 0) eqn:E3; cbn [andb]; try reflexivity; unb; lia|].
  destruct (a <? 0) eqn:E4; [|reflexivity].
  destruct (b <? 0) eqn:E2; destruct (0 <=? a + b) eqn:E3; cbn [andb]; try reflexivity; unb; lia.
Qed.

Lemma plus_overflow_float a b :
  in64 a = true -> in64 b = true -> in64 (a + b) = false ->
  plus_ii a b = RFloat (i2f a + i2f b)%float.
Proof.
  intros Ha Hb Hc. unfold plus_ii.
  destruct (wrap64_cases (a + b)) as (k & Hk & Hr). set (c := wrap64 (a + b)) in *.
  apply in64_iff in Ha, Hb. apply in64_false_iff in Hc. consts.
  destruct Hc as [Hc|Hc].
  - assert (a < 0 /\ b < 0 /\ 0 <= c) as (Ha0 & Hb0 & Hc0) by nia.
    assert (E1 : (0 <? a) = false) by (apply Z.ltb_ge; lia).
    assert (E2 : (a <? 0) = true) by (apply Z.ltb_lt; lia).
    assert (E3 : (b <? 0) = true) by (apply Z.ltb_lt; lia).
    assert (E4 : (0 <=? c) = true) by (apply Z.leb_le; lia).
    rewrite E1, E2, E3, E4. reflexivity.
  - assert (0 < a /\ 0 < b /\ c < 0) as (Ha0 & Hb0 & Hc0) by nia.
    assert (E1 : (0 <? a) = true) by (apply Z.ltb_lt; lia).
    assert (E3 : (0 <? b) = true) by (apply Z.ltb_lt; lia).
    assert (E4 : (c <? 0) = true) by (apply Z.ltb_lt; lia).
    rewrite E1, E3, E4. reflexivity.
Qed.

Lemma minus_exact a b : in64 a = true -> in64 b = true -> in64 (a - b) = true -> minus_ii a b = RInt (a - b).
Proof.
  intros Ha Hb Hc. unfold minus_ii. rewrite (wrap64_id _ Hc).
  apply in64_iff in Ha, Hb, Hc. consts.
  destruct (0 <=? a) eqn:E1.
  - destruct (b <? 0) eqn:E2; destruct (a - b <? 0) eqn:E3; cbn [andb]; try reflexivity; unb; lia.
  - destruct (0 <? b) eqn:E2; destruct (0 <? a - b) eqn:E3; cbn [andb]; try reflexivity; unb; lia.
Qed.

Lemma minus_overflow_float a b :
  in64 a = true -> in64 b = true -> in64 (a - b) = false ->
  minus_ii a b = RFloat (i2f a - i2f b)%float.
Proof.
  intros Ha Hb Hc. unfold minus_ii.
  destruct (wrap64_cases (a - b)) as (k & Hk & Hr). set (c := wrap64 (a - b)) in *.
  apply in64_iff in Ha, Hb. apply in64_false_iff in Hc. consts.
  destruct Hc as [Hc|Hc].
  - assert (a < 0 /\ 0 < b /\ 0 < c) as (Ha0 & Hb0 & Hc0) by nia.
    assert (E1 : (0 <=? a) = false) by (apply Z.leb_gt; lia).
    assert (E3 : (0 <? b) = true) by (apply Z.ltb_lt; lia).
    assert (E4 : (0 <? c) = true) by (apply Z.ltb_lt; lia).
    rewrite E1, E3, E4. reflexivity.
  - assert (0 <= a /\ b < 0 /\ c < 0) as (Ha0 & Hb0 & Hc0) by nia.
    assert (E1 : (0 <=? a) = true) by (apply Z.leb_le; lia).
    assert (E3 : (b <? 0) = true) by (apply Z.ltb_lt; lia).
    assert (E4 : (c <? 0) = true) by (apply Z.ltb_lt; lia).
    rewrite E1, E3, E4. reflexivity.
Qed.

(* an int result of + / - is never a wrapped value *)
Lemma plus_int_is_exact a b n :
  in64 a = true -> in64 b = true -> plus_ii a b = RInt n -> n = a + b.
Proof.
  intros Ha Hb H. destruct (in64 (a + b)) eqn:E.
  - rewrite (plus_exact a b Ha Hb E) in H. congruence.
  - rewrite (plus_overflow_float a b Ha Hb E) in H. discriminate.
Qed.

Lemma minus_int_is_exact a b n :
  in64 a = true -> in64 b = true -> minus_ii a b = RInt n -> n = a - b.
Proof.
  intros Ha Hb H. destruct (in64 (a - b)) eqn:E.
  - rewrite (minus_exact a b Ha Hb E) in H. congruence.
  - rewrite (minus_overflow_float a b Ha Hb E) in H. discriminate.
Qed.

(* the two corners the sign test used to miss *)
Lemma plus_minus_corners :
  plus_ii min_int64 min_int64 = RFloat (i2f min_int64 + i2f min_int64)%float /\
  minus_ii 0 min_int64 = RFloat (i2f 0 - i2f min_int64)%float.
Proof. split; [apply plus_overflow_float|apply minus_overflow_float]; reflexivity. Qed.

(* ---------------------------------------------------------------- Go division *)
Definition div_hole (a b : Z) : Prop := (a, b) = (min_int64, -1).

Lemma go_quot_exact a b : in64 a = true -> in64 b = true -> b <> 0 -> ~ div_hole a b ->
  go_quot a b = Z.quot a b.
Proof.
  intros Ha Hb Hb0 Hne. unfold go_quot. apply wrap64_id. apply in64_iff.
  apply in64_iff in Ha, Hb. unfold div_hole, min_int64 in Hne. consts.
  assert (Hab : ~ (a = -9223372036854775808 /\ b = -1)) by (intros [-> ->]; apply Hne; reflexivity).
  Z.to_euclidean_division_equations. nia.
Qed.

Lemma hole_test a b : (b =? -1) && (a =? min_int64) = true <-> div_hole a b.
Proof.
  unfold div_hole. rewrite andb_true_iff, !Z.eqb_eq. split; [intros [-> ->]; reflexivity|intros H; inversion H; split; reflexivity].
Qed.

(* ---------------------------------------------------------------- / *)
Lemma divide_exact a b q : in64 a = true -> in64 b = true -> b <> 0 -> a = b * q -> in64 q = true ->
  divide_ii a b = RInt q.
Proof.
  intros Ha Hb Hb0 Hq Hqi. unfold divide_ii, go_rem.
  destruct (Z.eqb_spec b 0) as [|_]; [contradiction|].
  assert (Hh : ~ div_hole a b).
  { intros Hh. unfold div_hole in Hh. inversion Hh; subst. apply in64_iff in Hqi. unfold min_int64 in *. consts. lia. }
  destruct ((b =? -1) && (a =? min_int64)) eqn:Et; [exfalso; apply Hh, hole_test, Et|].
  assert (Hr : Z.rem a b = 0) by (subst a; rewrite Z.mul_comm; apply Z.rem_mul; exact Hb0).
  rewrite Hr. cbn [Z.eqb]. rewrite (go_quot_exact a b Ha Hb Hb0 Hh).
  subst a. rewrite Z.mul_comm, Z.quot_mul by exact Hb0. reflexivity.
Qed.

Lemma divide_inexact_float a b : b <> 0 -> (forall q, a <> b * q) ->
  divide_ii a b = RFloat (i2f a / i2f b)%float.
Proof.
  intros Hb0 Hq. unfold divide_ii, go_rem.
  destruct (Z.eqb_spec b 0) as [|_]; [contradiction|].
  destruct ((b =? -1) && (a =? min_int64)) eqn:Et.
  { exfalso. apply hole_test in Et. inversion Et; subst. apply (Hq two63). reflexivity. }
  destruct (Z.eqb_spec (Z.rem a b) 0) as [Hr|_]; [|reflexivity].
  exfalso. apply (Hq (Z.quot a b)). pose proof (Z.quot_rem' a b). lia.
Qed.

Lemma divide_by_zero_float a : divide_ii a 0 = RFloat (i2f a / i2f 0)%float.
Proof. reflexivity. Qed.

(* the one exact quotient that does not fit is the float 2^63 *)
Lemma divide_hole_float :
  divide_ii min_int64 (-1) = RFloat (- i2f min_int64)%float /\ int_divide_ii min_int64 (-1) = RFloat (- i2f min_int64)%float
  /\ min_int64 = -1 * two63 /\ in64 two63 = false /\ bits_of_f (- i2f min_int64)%float = float_of_int two63.
Proof. repeat split; vm_compute; reflexivity. Qed.

(* // floors *)
Lemma int_divide_floor a b : in64 a = true -> in64 b = true -> b <> 0 -> ~ div_hole a b ->
  int_divide_ii a b = RInt (a / b).
Proof.
  intros Ha Hb Hb0 Hh. unfold int_divide_ii, go_rem.
  destruct (Z.eqb_spec b 0) as [|_]; [contradiction|].
  destruct ((b =? -1) && (a =? min_int64)) eqn:Et; [exfalso; apply Hh, hole_test, Et|].
  rewrite (go_quot_exact a b Ha Hb Hb0 Hh).
  assert (Hq : in64 (Z.quot a b) = true) by (rewrite <- (go_quot_exact a b Ha Hb Hb0 Hh); apply wrap64_in64).
  f_equal.
  pose proof (Z.quot_rem' a b) as Hqr. pose proof (Z.rem_bound_abs a b Hb0) as Hrb.
  pose proof (Z.rem_sign_nz a b Hb0) as Hrs.
  set (q := Z.quot a b) in *. set (r := Z.rem a b) in *.
  assert (Hcase : forall d, (d = 0 \/ d = 1) -> a = b * (q - d) + (r + d * b) ->
                  (0 <= r + d * b < b \/ b < r + d * b <= 0) -> a / b = q - d).
  { intros d _ He Hbnd. symmetry. apply (Z.div_unique a b (q - d) (r + d * b)); [exact Hbnd| lia]. }
  apply in64_iff in Ha, Hb, Hq. consts.
  assert (Hsgn : r = 0 \/ (0 < r /\ 0 < a) \/ (r < 0 /\ a < 0)).
  { destruct (Z.eq_dec r 0) as [|Hr]; [left; assumption|right].
    specialize (Hrs Hr). pose proof (Z.sgn_spec r). pose proof (Z.sgn_spec a). lia. }
  destruct (a <? 0) eqn:Ea; [apply Z.ltb_lt in Ea|apply Z.ltb_ge in Ea].
  - destruct (0 <? b) eqn:Eb; [apply Z.ltb_lt in Eb|apply Z.ltb_ge in Eb]; cbn [andb].
    + destruct (Z.eqb_spec r 0) as [Hr|Hr]; cbn [negb].
      * rewrite (Hcase 0); [lia|lia|lia|lia].
      * rewrite (Hcase 1); [|lia|lia|lia]. apply wrap64_id. apply in64_iff. consts. nia.
    + rewrite (Hcase 0); [lia|lia|lia|lia].
  - destruct (b <? 0) eqn:Eb; [apply Z.ltb_lt in Eb|apply Z.ltb_ge in Eb]; cbn [andb].
    + destruct (Z.eqb_spec r 0) as [Hr|Hr]; cbn [negb].
      * rewrite (Hcase 0); [lia|lia|lia|lia].
      * rewrite (Hcase 1); [|lia|lia|lia]. apply wrap64_id. apply in64_iff. consts. nia.
    + rewrite (Hcase 0); [lia|lia|lia|lia].
Qed.

(* the hole is exactly where the floor quotient does not fit *)
Lemma floor_quotient_fits a b : in64 a = true -> in64 b = true -> b <> 0 -> (in64 (a / b) = false <-> div_hole a b).
Proof.
  intros Ha Hb Hb0. split.
  - intros Hq. destruct (Z.eq_dec a min_int64) as [->|Hna]; [destruct (Z.eq_dec b (-1)) as [->|Hnb]; [reflexivity|]|]; exfalso.
    + assert (Hh : ~ div_hole min_int64 b) by (intros Hh; inversion Hh; contradiction).
      pose proof (int_divide_floor _ _ Ha Hb Hb0 Hh) as He. unfold int_divide_ii in He.
      destruct (b =? 0); [discriminate|]. destruct ((b =? -1) && (min_int64 =? min_int64)); [discriminate|].
      inversion He as [He']. rewrite <- He' in Hq.
      match type of Hq with in64 (if ?c then wrap64 ?x else ?y) = false => destruct c; [rewrite wrap64_in64 in Hq|unfold go_quot in Hq; rewrite wrap64_in64 in Hq] end; discriminate.
    + assert (Hh : ~ div_hole a b) by (intros Hh; inversion Hh; contradiction).
      pose proof (int_divide_floor _ _ Ha Hb Hb0 Hh) as He. unfold int_divide_ii in He.
      destruct (b =? 0); [discriminate|]. destruct ((b =? -1) && (a =? min_int64)); [discriminate|].
      inversion He as [He']. rewrite <- He' in Hq.
      match type of Hq with in64 (if ?c then wrap64 ?x else ?y) = false => destruct c; [rewrite wrap64_in64 in Hq|unfold go_quot in Hq; rewrite wrap64_in64 in Hq] end; discriminate.
  - intros Hh. inversion Hh. reflexivity.
Qed.

(* % : floor modulus *)
Lemma modulus_floor_mod a b : in64 a = true -> in64 b = true -> b <> 0 -> modulus_ii a b = RInt (a mod b).
Proof.
  intros Ha Hb Hb0. unfold modulus_ii, go_rem.
  destruct (Z.eqb_spec b 0) as [|_]; [contradiction|].
  f_equal.
  pose proof (Z.quot_rem' a b) as Hqr. pose proof (Z.rem_bound_abs a b Hb0) as Hrb.
  set (q := Z.quot a b) in *. set (r := Z.rem a b) in *.
  assert (Hcase : forall d, a = b * (q - d) + (r + d * b) ->
                  (0 <= r + d * b < b \/ b < r + d * b <= 0) -> a mod b = r + d * b).
  { intros d He Hbnd. symmetry. apply (Z.mod_unique a b (q - d) (r + d * b)); [exact Hbnd| lia]. }
  apply in64_iff in Ha, Hb. consts.
  destruct (Z.eqb_spec r 0) as [Hr0|Hr0]; cbn [negb andb].
  - rewrite (Hcase 0); [lia|lia|lia].
  - destruct (r <? 0) eqn:Er; destruct (b <? 0) eqn:Eb; bsplit Er; bsplit Eb; cbn [Bool.eqb negb].
    + rewrite (Hcase 0); [lia|lia|lia].
    + rewrite (Hcase 1); [|lia|lia]. replace (r + 1 * b) with (r + b) by lia. apply wrap64_id. apply in64_iff. consts. lia.
    + rewrite (Hcase 1); [|lia|lia]. replace (r + 1 * b) with (r + b) by lia. apply wrap64_id. apply in64_iff. consts. lia.
    + rewrite (Hcase 0); [lia|lia|lia].
Qed.

Lemma modulus_sign a b m : in64 a = true -> in64 b = true -> b <> 0 ->
  modulus_ii a b = RInt m -> (0 < b -> 0 <= m < b) /\ (b < 0 -> b < m <= 0).
Proof.
  intros Ha Hb Hb0 H. rewrite (modulus_floor_mod a b Ha Hb Hb0) in H. inversion H; subst m.
  split; intros Hs; [apply Z.mod_pos_bound|apply Z.mod_neg_bound]; exact Hs.
Qed.

Lemma divmod_identity a b q m : in64 a = true -> in64 b = true -> b <> 0 ->
  int_divide_ii a b = RInt q -> modulus_ii a b = RInt m -> a = b * q + m.
Proof.
  intros Ha Hb Hb0 Hq Hm.
  assert (Hh : ~ div_hole a b).
  { intros Hh. inversion Hh; subst. destruct divide_hole_float as (_ & He & _). rewrite He in Hq. discriminate Hq. }
  rewrite (int_divide_floor a b Ha Hb Hb0 Hh) in Hq. rewrite (modulus_floor_mod a b Ha Hb Hb0) in Hm.
  inversion Hq; inversion Hm; subst. apply Z.div_mod. exact Hb0.
Qed.

Lemma modulus_examples :
  modulus_ii (-10) 5 = RInt 0 /\ modulus_ii 6 (-3) = RInt 0 /\ modulus_ii 0 (-1) = RInt 0
  /\ modulus_ii (-17) 10 = RInt 3 /\ modulus_ii 13 10 = RInt 3 /\ modulus_ii 7 (-3) = RInt (-2).
Proof. repeat split. Qed.

Lemma modulus_by_zero_float a : modulus_ii a 0 = RFloat (i2f a / i2f 0)%float.
Proof. reflexivity. Qed.
Lemma int_divide_by_zero_float a : int_divide_ii a 0 = RFloat (i2f a / i2f 0)%float.
Proof. reflexivity. Qed.

(* ---------------------------------------------------------------- dot operators: 64-bit two's complement *)
Lemma dotplus_wrap a b : dotplus_ii a b = RInt (wrap64 (a + b)). Proof. reflexivity. Qed.
Lemma dotminus_wrap a b : dotminus_ii a b = RInt (wrap64 (a - b)). Proof. reflexivity. Qed.
Lemma dottimes_wrap a b : dottimes_ii a b = RInt (wrap64 (a * b)). Proof. reflexivity. Qed.
Lemma dotdivide_trunc a b : b <> 0 -> dotdivide_ii a b = RInt (wrap64 (Z.quot a b)).
Proof. intros Hb. unfold dotdivide_ii. destruct (Z.eqb_spec b 0); [contradiction|reflexivity]. Qed.
Lemma dotdivide_zero_float a : dotdivide_ii a 0 = RFloat (i2f a / i2f 0)%float. Proof. reflexivity. Qed.

Lemma float_literal_values : bits_of_f 0x1p+53%float = float_of_int (2 ^ 53) /\ bits_of_f 0x1p+63%float = float_of_int (2 ^ 63).
Proof. vm_compute. repeat split. Qed.
