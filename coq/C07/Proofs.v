(* C07 lemmas, integer side: no floating-point reasoning; float results are opaque values. *)
From Coq Require Import Floats.
From Miller Require Import Base.Bytes C06.Model C07.Model.
Open Scope Z_scope.

Lemma two63_val : two63 = 9223372036854775808. Proof. reflexivity. Qed.
Lemma two64_val : two64 = 18446744073709551616. Proof. reflexivity. Qed.

Ltac consts := rewrite ?two63_val, ?two64_val in *.
Ltac unb := unfold in64, min_int64 in *; consts;
            repeat match goal with
                   | H : (_ && _)%bool = true |- _ => apply andb_prop in H; destruct H
                   | H : (_ <=? _) = true |- _ => apply Z.leb_le in H
                   | H : (_ <? _) = true |- _ => apply Z.ltb_lt in H
                   | H : (_ <=? _) = false |- _ => apply Z.leb_gt in H
                   | H : (_ <? _) = false |- _ => apply Z.ltb_ge in H
                   | H : (_ =? _) = true |- _ => apply Z.eqb_eq in H
                   | H : (_ =? _) = false |- _ => apply Z.eqb_neq in H
                   end.

Lemma in64_iff n : in64 n = true <-> - two63 <= n < two63.
Proof. unfold in64. rewrite andb_true_iff, Z.leb_le, Z.ltb_lt. tauto. Qed.

Lemma in64_false_iff n : in64 n = false <-> n < - two63 \/ two63 <= n.
Proof. unfold in64. rewrite andb_false_iff, Z.leb_gt, Z.ltb_ge. tauto. Qed.

Lemma wrap64_cases n :
  exists k, wrap64 n = n + k * two64 /\ - two63 <= wrap64 n < two63.
Proof.
  unfold wrap64. consts.
  exists (- ((n + 9223372036854775808) / 18446744073709551616)).
  pose proof (Z.div_mod (n + 9223372036854775808) 18446744073709551616 ltac:(lia)).
  pose proof (Z.mod_pos_bound (n + 9223372036854775808) 18446744073709551616 ltac:(lia)).
  lia.
Qed.

Lemma wrap64_in64 n : in64 (wrap64 n) = true.
Proof. destruct (wrap64_cases n) as (k & _ & H). apply in64_iff. exact H. Qed.

Lemma wrap64_id n : in64 n = true -> wrap64 n = n.
Proof.
  intros H. apply in64_iff in H. destruct (wrap64_cases n) as (k & Hk & Hr). consts. nia.
Qed.

Lemma wrap64_congr n : (wrap64 n) mod two64 = n mod two64.
Proof.
  destruct (wrap64_cases n) as (k & Hk & _). rewrite Hk. apply Z.mod_add. consts. lia.
Qed.

(* ---------------------------------------------------------------- + and - *)
Lemma plus_exact a b : in64 a = true -> in64 b = true -> in64 (a + b) = true -> plus_ii a b = RInt (a + b).
Proof.
  intros Ha Hb Hc. unfold plus_ii. rewrite (wrap64_id _ Hc).
  apply in64_iff in Ha, Hb, Hc. consts.
  destruct (0 <? a) eqn:E1; [destruct (0 <? b) eqn:E2; destruct (a + b <? 0) eqn:E3; cbn [andb]; try reflexivity; unb; lia|].
  destruct (a <? 0) eqn:E4; [|reflexivity].
  destruct (b <? 0) eqn:E2; destruct (0 <? a + b) eqn:E3; cbn [andb]; try reflexivity; unb; lia.
Qed.

Lemma plus_overflow_float a b :
  in64 a = true -> in64 b = true -> in64 (a + b) = false -> (a, b) <> (min_int64, min_int64) ->
  plus_ii a b = RFloat (i2f a + i2f b)%float.
Proof.
  intros Ha Hb Hc Hne. unfold plus_ii.
  destruct (wrap64_cases (a + b)) as (k & Hk & Hr). set (c := wrap64 (a + b)) in *.
  apply in64_iff in Ha, Hb. apply in64_false_iff in Hc. unfold min_int64 in Hne. consts.
  assert (Hab : ~ (a = -9223372036854775808 /\ b = -9223372036854775808)) by (intros [-> ->]; apply Hne; reflexivity).
  destruct Hc as [Hc|Hc].
  - (* below *) assert (a < 0 /\ b < 0 /\ 0 < c) as (Ha0 & Hb0 & Hc0) by nia.
    assert (E1 : (0 <? a) = false) by (apply Z.ltb_ge; lia).
    assert (E2 : (a <? 0) = true) by (apply Z.ltb_lt; lia).
    assert (E3 : (b <? 0) = true) by (apply Z.ltb_lt; lia).
    assert (E4 : (0 <? c) = true) by (apply Z.ltb_lt; lia).
    rewrite E1, E2, E3, E4. reflexivity.
  - assert (0 < a /\ 0 < b /\ c < 0) as (Ha0 & Hb0 & Hc0) by nia.
    assert (E1 : (0 <? a) = true) by (apply Z.ltb_lt; lia).
    assert (E3 : (0 <? b) = true) by (apply Z.ltb_lt; lia).
    assert (E4 : (c <? 0) = true) by (apply Z.ltb_lt; lia).
    rewrite E1, E3, E4. reflexivity.
Qed.

Lemma minus_exact a b : in64 a = true -> in64 b = true -> in64 (a - b) = true -> minus_ii a b = RInt (a - b).
Proof.
  intros Ha Hb Hc. unfold minus_ii. rewrite (wrap64_id _ Hc).
  apply in64_iff in Ha, Hb, Hc. consts.
  destruct (0 <? a) eqn:E1; [destruct (b <? 0) eqn:E2; destruct (a - b <? 0) eqn:E3; cbn [andb]; try reflexivity; unb; lia|].
  destruct (a <? 0) eqn:E4; [|reflexivity].
  destruct (0 <? b) eqn:E2; destruct (0 <? a - b) eqn:E3; cbn [andb]; try reflexivity; unb; lia.
Qed.

Lemma minus_overflow_float a b :
  in64 a = true -> in64 b = true -> in64 (a - b) = false -> (a, b) <> (0, min_int64) ->
  minus_ii a b = RFloat (i2f a - i2f b)%float.
Proof.
  intros Ha Hb Hc Hne. unfold minus_ii.
  destruct (wrap64_cases (a - b)) as (k & Hk & Hr). set (c := wrap64 (a - b)) in *.
  apply in64_iff in Ha, Hb. apply in64_false_iff in Hc. unfold min_int64 in Hne. consts.
  assert (Hab : ~ (a = 0 /\ b = -9223372036854775808)) by (intros [-> ->]; apply Hne; reflexivity).
  destruct Hc as [Hc|Hc].
  - assert (a < 0 /\ 0 < b /\ 0 < c) as (Ha0 & Hb0 & Hc0) by nia.
    assert (E1 : (0 <? a) = false) by (apply Z.ltb_ge; lia).
    assert (E2 : (a <? 0) = true) by (apply Z.ltb_lt; lia).
    assert (E3 : (0 <? b) = true) by (apply Z.ltb_lt; lia).
    assert (E4 : (0 <? c) = true) by (apply Z.ltb_lt; lia).
    rewrite E1, E2, E3, E4. reflexivity.
  - assert (0 < a /\ b < 0 /\ c < 0) as (Ha0 & Hb0 & Hc0) by nia.
    assert (E1 : (0 <? a) = true) by (apply Z.ltb_lt; lia).
    assert (E3 : (b <? 0) = true) by (apply Z.ltb_lt; lia).
    assert (E4 : (c <? 0) = true) by (apply Z.ltb_lt; lia).
    rewrite E1, E3, E4. reflexivity.
Qed.

(* an int result of + / - is never a wrapped value, outside the two holes of the sign test *)
Lemma plus_int_is_exact a b n :
  in64 a = true -> in64 b = true -> (a, b) <> (min_int64, min_int64) -> plus_ii a b = RInt n -> n = a + b.
Proof.
  intros Ha Hb Hne H. destruct (in64 (a + b)) eqn:E.
  - rewrite (plus_exact a b Ha Hb E) in H. congruence.
  - rewrite (plus_overflow_float a b Ha Hb E Hne) in H. discriminate.
Qed.

Lemma minus_int_is_exact a b n :
  in64 a = true -> in64 b = true -> (a, b) <> (0, min_int64) -> minus_ii a b = RInt n -> n = a - b.
Proof.
  intros Ha Hb Hne H. destruct (in64 (a - b)) eqn:E.
  - rewrite (minus_exact a b Ha Hb E) in H. congruence.
  - rewrite (minus_overflow_float a b Ha Hb E Hne) in H. discriminate.
Qed.

(* the two holes (witnesses for the _refuted theorems) *)
Lemma plus_hole : in64 (min_int64 + min_int64) = false /\ plus_ii min_int64 min_int64 = RInt 0.
Proof. split; vm_compute; reflexivity. Qed.
Lemma minus_hole : in64 (0 - min_int64) = false /\ minus_ii 0 min_int64 = RInt min_int64.
Proof. split; vm_compute; reflexivity. Qed.

(* ---------------------------------------------------------------- * : an int result is the wrapped product (definitional) *)
Lemma times_int_is_wrapped a b n : times_ii a b = RInt n -> n = wrap64 (a * b).
Proof. unfold times_ii. destruct (_ <? _)%float; congruence. Qed.

(* ---------------------------------------------------------------- / // % *)
Lemma go_quot_exact a b : in64 a = true -> in64 b = true -> b <> 0 -> (a, b) <> (min_int64, -1) ->
  go_quot a b = Z.quot a b.
Proof.
  intros Ha Hb Hb0 Hne. unfold go_quot. apply wrap64_id. apply in64_iff.
  apply in64_iff in Ha, Hb. unfold min_int64 in Hne. consts.
  assert (Hab : ~ (a = -9223372036854775808 /\ b = -1)) by (intros [-> ->]; apply Hne; reflexivity).
  Z.to_euclidean_division_equations. nia.
Qed.

Definition div_hole (a b : Z) : Prop := (a, b) = (min_int64, -1).

Lemma divide_exact a b q : in64 a = true -> in64 b = true -> b <> 0 -> ~ div_hole a b -> a = b * q ->
  divide_ii a b = RInt q.
Proof.
  intros Ha Hb Hb0 Hh Hq. unfold divide_ii, go_rem.
  destruct (Z.eqb_spec b 0) as [|_]; [contradiction|].
  assert (Hr : Z.rem a b = 0) by (subst a; rewrite Z.mul_comm; apply Z.rem_mul; exact Hb0).
  rewrite Hr. cbn [Z.eqb]. rewrite (go_quot_exact a b Ha Hb Hb0 Hh).
  subst a. rewrite Z.mul_comm, Z.quot_mul by exact Hb0. reflexivity.
Qed.

Lemma divide_inexact_float a b : b <> 0 -> (forall q, a <> b * q) ->
  divide_ii a b = RFloat (i2f a / i2f b)%float.
Proof.
  intros Hb0 Hq. unfold divide_ii, go_rem.
  destruct (Z.eqb_spec b 0) as [|_]; [contradiction|].
  destruct (Z.eqb_spec (Z.rem a b) 0) as [Hr|_]; [|reflexivity].
  exfalso. apply (Hq (Z.quot a b)). pose proof (Z.quot_rem' a b). lia.
Qed.

Lemma divide_by_zero_float a : divide_ii a 0 = RFloat (i2f a / i2f 0)%float.
Proof. reflexivity. Qed.

Lemma divide_hole_wraps : divide_ii min_int64 (-1) = RInt min_int64 /\ min_int64 = -1 * two63 /\ in64 two63 = false.
Proof. repeat split; vm_compute; reflexivity. Qed.

(* // floors *)
Lemma int_divide_floor a b : in64 a = true -> in64 b = true -> b <> 0 -> ~ div_hole a b ->
  int_divide_ii a b = RInt (a / b).
Proof.
  intros Ha Hb Hb0 Hh. unfold int_divide_ii, go_rem.
  destruct (Z.eqb_spec b 0) as [|_]; [contradiction|].
  rewrite (go_quot_exact a b Ha Hb Hb0 Hh).
  assert (Hq : in64 (Z.quot a b) = true) by (rewrite <- (go_quot_exact a b Ha Hb Hb0 Hh); apply wrap64_in64).
  f_equal.
  pose proof (Z.quot_rem' a b) as Hqr. pose proof (Z.rem_bound_abs a b Hb0) as Hrb.
  pose proof (Z.rem_sign_nz a b Hb0) as Hrs.
  pose proof (Z.div_mod a b Hb0) as Hdm.
  set (q := Z.quot a b) in *. set (r := Z.rem a b) in *.
  assert (Hcase : forall d, (d = 0 \/ d = 1) -> a = b * (q - d) + (r + d * b) ->
                  (0 <= r + d * b < b \/ b < r + d * b <= 0) -> a / b = q - d).
  { intros d _ He Hbnd. symmetry. apply (Z.div_unique a b (q - d) (r + d * b)); [exact Hbnd| lia]. }
  apply in64_iff in Ha, Hb, Hq. consts.
  assert (Hsgn : r = 0 \/ (0 < r /\ 0 < a) \/ (r < 0 /\ a < 0)).
  { destruct (Z.eq_dec r 0) as [|Hr]; [left; assumption|right].
    specialize (Hrs Hr). pose proof (Z.sgn_spec r). pose proof (Z.sgn_spec a). lia. }
  destruct (a <? 0) eqn:Ea; [apply Z.ltb_lt in Ea|apply Z.ltb_ge in Ea].
  - destruct (0 <? b) eqn:Eb; [apply Z.ltb_lt in Eb|apply Z.ltb_ge in Eb]; cbn [andb].
    + destruct (Z.eqb_spec r 0) as [Hr|Hr]; cbn [negb].
      * rewrite (Hcase 0); [lia|lia|lia|lia].
      * rewrite (Hcase 1); [|lia|lia|lia]. apply wrap64_id. apply in64_iff. consts. nia.
    + rewrite (Hcase 0); [lia|lia|lia|lia].
  - destruct (b <? 0) eqn:Eb; [apply Z.ltb_lt in Eb|apply Z.ltb_ge in Eb]; cbn [andb].
    + destruct (Z.eqb_spec r 0) as [Hr|Hr]; cbn [negb].
      * rewrite (Hcase 0); [lia|lia|lia|lia].
      * rewrite (Hcase 1); [|lia|lia|lia]. apply wrap64_id. apply in64_iff. consts. nia.
    + rewrite (Hcase 0); [lia|lia|lia|lia].
Qed.

(* % : today's kernel tests the sign of the DIVIDEND, so it is the pythonic modulus except when b divides a
   and a, b have opposite signs (then it returns b instead of 0) *)
Lemma modulus_partial a b : in64 a = true -> in64 b = true -> b <> 0 ->
  (Z.rem a b <> 0 \/ (0 <= a /\ 0 < b) \/ (a < 0 /\ b < 0)) ->
  modulus_ii a b = RInt (a mod b).
Proof.
  intros Ha Hb Hb0 Hside. unfold modulus_ii, go_rem.
  destruct (Z.eqb_spec b 0) as [|_]; [contradiction|].
  f_equal.
  pose proof (Z.quot_rem' a b) as Hqr. pose proof (Z.rem_bound_abs a b Hb0) as Hrb.
  pose proof (Z.rem_sign_nz a b Hb0) as Hrs.
  set (q := Z.quot a b) in *. set (r := Z.rem a b) in *.
  assert (Hcase : forall d, a = b * (q - d) + (r + d * b) ->
                  (0 <= r + d * b < b \/ b < r + d * b <= 0) -> a mod b = r + d * b).
  { intros d He Hbnd. symmetry. apply (Z.mod_unique a b (q - d) (r + d * b)); [exact Hbnd| lia]. }
  apply in64_iff in Ha, Hb. consts.
  assert (Hsgn : r = 0 \/ (0 < r /\ 0 < a) \/ (r < 0 /\ a < 0)).
  { destruct (Z.eq_dec r 0) as [|Hr]; [left; assumption|right].
    specialize (Hrs Hr). pose proof (Z.sgn_spec r). pose proof (Z.sgn_spec a). lia. }
  destruct (0 <=? a) eqn:Ea; [apply Z.leb_le in Ea|apply Z.leb_gt in Ea].
  - destruct (b <? 0) eqn:Eb; [apply Z.ltb_lt in Eb|apply Z.ltb_ge in Eb].
    + rewrite (Hcase 1); [|lia|lia]. replace (r + 1 * b) with (r + b) by lia. apply wrap64_id. apply in64_iff. consts. lia.
    + rewrite (Hcase 0); [lia|lia|lia].
  - destruct (0 <=? b) eqn:Eb; [apply Z.leb_le in Eb|apply Z.leb_gt in Eb].
    + rewrite (Hcase 1); [|lia|lia]. replace (r + 1 * b) with (r + b) by lia. apply wrap64_id. apply in64_iff. consts. lia.
    + rewrite (Hcase 0); [lia|lia|lia].
Qed.

(* consequence, same side condition: result has the divisor's sign (or is 0) and a = b*(a//b) + a%b *)
Lemma modulus_sign_partial a b m : in64 a = true -> in64 b = true -> b <> 0 ->
  (Z.rem a b <> 0 \/ (0 <= a /\ 0 < b) \/ (a < 0 /\ b < 0)) ->
  modulus_ii a b = RInt m -> (0 < b -> 0 <= m < b) /\ (b < 0 -> b < m <= 0).
Proof.
  intros Ha Hb Hb0 Hside H. rewrite (modulus_partial a b Ha Hb Hb0 Hside) in H. inversion H; subst m.
  split; intros Hs; [apply Z.mod_pos_bound|apply Z.mod_neg_bound]; exact Hs.
Qed.

Lemma divmod_identity_partial a b q m : in64 a = true -> in64 b = true -> b <> 0 -> ~ div_hole a b ->
  (Z.rem a b <> 0 \/ (0 <= a /\ 0 < b) \/ (a < 0 /\ b < 0)) ->
  int_divide_ii a b = RInt q -> modulus_ii a b = RInt m -> a = b * q + m.
Proof.
  intros Ha Hb Hb0 Hh Hside Hq Hm.
  rewrite (int_divide_floor a b Ha Hb Hb0 Hh) in Hq. rewrite (modulus_partial a b Ha Hb Hb0 Hside) in Hm.
  inversion Hq; inversion Hm; subst. apply Z.div_mod. exact Hb0.
Qed.

Lemma modulus_refuted_witness :
  in64 (-10) = true /\ in64 5 = true /\ modulus_ii (-10) 5 = RInt 5 /\ (-10) mod 5 = 0
  /\ modulus_ii 6 (-3) = RInt (-3) /\ 6 mod (-3) = 0
  /\ int_divide_ii (-10) 5 = RInt (-2) /\ -10 <> 5 * (-2) + 5.
Proof. repeat split; try (vm_compute; reflexivity). lia. Qed.

Lemma modulus_by_zero_float a : modulus_ii a 0 = RFloat (i2f a / i2f 0)%float.
Proof. reflexivity. Qed.
Lemma int_divide_by_zero_float a : int_divide_ii a 0 = RFloat (i2f a / i2f 0)%float.
Proof. reflexivity. Qed.

(* ---------------------------------------------------------------- dot operators: 64-bit two's complement *)
Lemma dotplus_wrap a b : dotplus_ii a b = RInt (wrap64 (a + b)). Proof. reflexivity. Qed.
Lemma dotminus_wrap a b : dotminus_ii a b = RInt (wrap64 (a - b)). Proof. reflexivity. Qed.
Lemma dottimes_wrap a b : dottimes_ii a b = RInt (wrap64 (a * b)). Proof. reflexivity. Qed.
Lemma dotdivide_trunc a b : b <> 0 -> dotdivide_ii a b = RInt (wrap64 (Z.quot a b)).
Proof. intros Hb. unfold dotdivide_ii. destruct (Z.eqb_spec b 0); [contradiction|reflexivity]. Qed.
Lemma dotdivide_zero_panics a : dotdivide_ii a 0 = RPanic. Proof. reflexivity. Qed.

(* the wrapped result is the unique int64 congruent to the exact result modulo 2^64 *)
Lemma wrap64_unique n r : in64 r = true -> r mod two64 = n mod two64 -> r = wrap64 n.
Proof.
  intros Hr Hm. pose proof (wrap64_in64 n) as Hw. pose proof (wrap64_congr n) as Hc.
  rewrite <- Hm in Hc. apply in64_iff in Hr, Hw. consts.
  pose proof (Z.div_mod r 18446744073709551616 ltac:(lia)).
  pose proof (Z.div_mod (wrap64 n) 18446744073709551616 ltac:(lia)). lia.
Qed.

(* the literal threshold of times_ii is the double 2^63 - 1024 *)
Lemma times_threshold_value : bits_of_f times_threshold = float_of_int 9223372036854774784
  /\ bits_of_f 0x1p+53%float = float_of_int (2 ^ 53) /\ bits_of_f 0x1p+63%float = float_of_int (2 ^ 63).
Proof. vm_compute. repeat split. Qed.
