(* C10: the definitional side ("recomputation from the definition over the contributing records").  Definitions only. *)
From Miller Require Export C10.Model C10.Verbs.
Open Scope char_scope.

(* ------------------------------------------------------------------ groups, from first principles *)
Section Groups.
  Context {R : Type} (key : R -> option bytes).
  (* r contributes to group k *)
  Definition keyb (k : bytes) (r : R) : bool := match key r with Some k' => beqb k k' | None => false end.
  Definition members (k : bytes) (rs : list R) : list R := filter (keyb k) rs.
  Definition has_key (r : R) : bool := match key r with Some _ => true | None => false end.
  (* keys in order of first appearance: scan left to right, append a key the first time it is seen *)
  Definition see (seen : list bytes) (r : R) : list bytes :=
    match key r with Some k => if mem k seen then seen else seen ++ [k] | None => seen end.
  Definition first_keys (rs : list R) : list bytes := fold_left see rs [].
End Groups.

Section GroupSpec.
  Context {R S : Type} (key : R -> option bytes) (init : R -> S) (upd : S -> R -> S).
  (* the state of group k: created from its first member, then every member (incl. the first) is accumulated, in order *)
  Definition group_state (k : bytes) (rs : list R) : option S :=
    match members key k rs with [] => None | r0 :: rest => Some (fold_left upd (r0 :: rest) (init r0)) end.
  Definition entry_of (rs : list R) (k : bytes) : list (bytes * S) :=
    match group_state k rs with Some s => [(k, s)] | None => [] end.
  Definition spec_groups (rs : list R) : omap S := flat_map (entry_of rs) (first_keys key rs).
End GroupSpec.

(* ------------------------------------------------------------------ sums, moments *)
Definition Qsum_list (l : list Q) : Q := fold_right Qplus 0 l.
Definition numerics (vs : list val) : list nv := flat_map (fun v => match numof v with Some x => [x] | None => [] end) vs.
Definition qs_of (vs : list val) : list Q := map qof (numerics vs).
Definition all_int (xs : list nv) : bool := forallb (fun x => match x with I _ => true | F _ => false end) xs.
Definition Zsum_list (l : list Z) : Z := fold_right Z.add 0%Z l.
Definition ints_of (xs : list nv) : list Z := flat_map (fun x => match x with I z => [z] | F _ => [] end) xs.

Definition mean_def (xs : list Q) : Q := Qsum_list xs / inject_Z (Z.of_nat (List.length xs)).
(* textbook unbiased sample variance: sum (x - mean)^2 / (n - 1) *)
Definition var_def (xs : list Q) : Q :=
  Qsum_list (map (fun x => (x - mean_def xs) * (x - mean_def xs)) xs) / inject_Z (Z.of_nat (List.length xs) - 1).
Fixpoint qpow (x : Q) (k : nat) : Q := match k with O => 1 | S k' => x * qpow x k' end.
Definition pow_sum (k : nat) (xs : list Q) : Q := Qsum_list (map (fun x => qpow x k) xs).
(* k-th central moment sum: sum (x - mean)^k *)
Definition central (k : nat) (xs : list Q) : Q := Qsum_list (map (fun x => qpow (x - mean_def xs) k) xs).

(* ------------------------------------------------------------------ counting *)
Fixpoint count_of (v : bytes) (vs : list bytes) : Z :=
  match vs with [] => 0%Z | x :: t => ((if beqb v x then 1 else 0) + count_of v t)%Z end.
(* distinct values in order of first appearance *)
Definition distinct (vs : list bytes) : list bytes := fold_left (fun seen v => if mem v seen then seen else seen ++ [v]) vs [].
Definition counts_def (vs : list bytes) : omap Z := map (fun v => (v, count_of v vs)) (distinct vs).

(* ------------------------------------------------------------------ order statistics *)
Definition val_le (a b : val) : Prop := val_lt b a = false.
