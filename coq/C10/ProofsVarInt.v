(* C10 proofs, part 16: the variance finalizer on exact (int) sums (fix: var of ints, pkg/bifs/stats.go).
   The code computes (n sum2 - sum^2) / (n (n-1)) from the exact integer sums with ONE rounding; the model's finalizer is
   the float formula taken exactly over Q.  They are the same rational number: *)
From Miller Require Import C10.Model.
From Coq Require Import Lia Field.

Lemma inject_Z_pos_neq0 n : (0 < n)%Z -> ~ inject_Z n == 0.
Proof. intros H E. unfold Qeq in E. cbn [inject_Z Qnum Qden] in E. lia. Qed.

Theorem var_finalizer_is_exact_quotient n s1 s2 : (2 <= n)%Z -> 0 <= inject_Z n * s2 - s1 * s1 ->
  exists q, finalize_var n s1 s2 = Some q /\ q == (inject_Z n * s2 - s1 * s1) / (inject_Z n * inject_Z (n - 1)).
Proof.
  intros Hn HD. unfold finalize_var. destruct (Z.ltb_spec n 2) as [L|_]; [lia|].
  assert (N0 : ~ inject_Z n == 0) by (apply inject_Z_pos_neq0; lia).
  assert (N1 : ~ inject_Z (n - 1) == 0) by (apply inject_Z_pos_neq0; lia).
  eexists. split; [reflexivity|]. unfold var_numerator.
  set (num := s2 - s1 / inject_Z n * (2 * s1 - inject_Z n * (s1 / inject_Z n))).
  assert (Hnum : num == (inject_Z n * s2 - s1 * s1) / inject_Z n) by (unfold num; field; exact N0).
  assert (Hpos : 0 <= num).
  { rewrite Hnum. unfold Qdiv. apply Qmult_le_0_compat; [exact HD|]. apply Qinv_le_0_compat.
    unfold Qle. cbn [inject_Z Qnum Qden]. lia. }
  apply Qle_bool_iff in Hpos. rewrite Hpos. rewrite Hnum. field. split; assumption.
Qed.

(* the witness of the repaired defect: three timestamp-scale ints, exact sums, var = 7/3 *)
Lemma var_timestamps_instance :
  exists q, run_acc false AVar [B "1700000001"; B "1700000004"; B "1700000002"] = OFlt q /\ q == 7 # 3.
Proof. eexists. split; [vm_compute; reflexivity|]. vm_compute. reflexivity. Qed.
