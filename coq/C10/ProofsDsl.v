(* C10, DSL statistics functions: each function of pkg/bifs/stats.go that has a stats1 accumulator counterpart IS that
   accumulator run over the same values ("the DSL function on the array of a group's values = the stats1 accumulator over
   the group's records"), with the precise side condition where the two treat empty values / strings differently;
   sum2/sum3/sum4 are the power sums by definition. *)
From Miller Require Import C10.Model C10.Verbs C10.Spec C10.ProofsAcc C10.ModelDsl.
From Coq Require Import Lia ZifyBool ZifyN ZifyNat.
Open Scope char_scope.

Definition is_num (v : val) : bool := match numof v with Some _ => true | None => false end.
(* no strings: numbers and empty values only *)
Definition no_strings (xs : list val) : bool := forallb (fun v => is_num v || is_void v) xs.
Definition all_num (xs : list val) : bool := forallb is_num xs.

(* ------------------------------------------------------------------ counting functions: unconditional *)
Lemma count_fold xs : forall s, st_count (fold_left (ingest ACount) xs s) = (st_count s + Z.of_nat (List.length xs))%Z.
Proof. induction xs as [|x xs IH]; intros s; cbn [fold_left List.length]; [lia|]. rewrite IH. cbn [ingest st_count]. lia. Qed.
Theorem dsl_count_is_accumulator : forall xs, dsl_stat DCount xs = run_acc false ACount xs.
Proof. intros xs. unfold run_acc. cbn [dsl_stat emit]. rewrite count_fold. cbn [st0 st_count]. unfold dsl_n. f_equal. Qed.

Lemma null_count_fold xs : forall s,
  st_count (fold_left (ingest ANullCount) xs s) = (st_count s + Z.of_nat (List.length (filter is_void xs)))%Z.
Proof.
  induction xs as [|x xs IH]; intros s; cbn [fold_left filter List.length]; [lia|]. rewrite IH. cbn [ingest].
  destruct (is_void x); cbn [st_count List.length]; lia.
Qed.
Theorem dsl_null_count_is_accumulator : forall xs, dsl_stat DNullCount xs = run_acc false ANullCount xs.
Proof. intros xs. unfold run_acc. cbn [dsl_stat emit]. rewrite null_count_fold. cbn [st0 st_count]. f_equal. Qed.

Definition counting (a : accname) : bool := match a with ADistinctCount | AMode | AAntimode => true | _ => false end.
Lemma counts_fold a xs : counting a = true -> forall s,
  st_counts (fold_left (ingest a) xs s) = fold_left (fun m v => cm_incr v m) xs (st_counts s).
Proof.
  intros Ha. induction xs as [|x xs IH]; intros s; cbn [fold_left]; [reflexivity|]. rewrite IH.
  destruct a; try discriminate; reflexivity.
Qed.
Theorem dsl_distinct_count_is_accumulator : forall xs, dsl_stat DDistinctCount xs = run_acc false ADistinctCount xs.
Proof. intros xs. unfold run_acc. cbn [dsl_stat emit]. rewrite counts_fold by reflexivity. reflexivity. Qed.
Theorem dsl_mode_is_accumulator : forall xs, dsl_stat DMode xs = run_acc false AMode xs.
Proof. intros xs. unfold run_acc. cbn [dsl_stat emit]. rewrite counts_fold by reflexivity. reflexivity. Qed.
Theorem dsl_antimode_is_accumulator : forall xs, dsl_stat DAntimode xs = run_acc false AAntimode xs.
Proof. intros xs. unfold run_acc. cbn [dsl_stat emit]. rewrite counts_fold by reflexivity. reflexivity. Qed.

(* ------------------------------------------------------------------ percentiles: unconditional *)
Lemma pctl_data_fold p xs : forall s, st_data (fold_left (ingest (APctl p)) xs s) = (st_data s ++ xs)%list.
Proof.
  induction xs as [|x xs IH]; intros s; cbn [fold_left]; [now rewrite app_nil_r|]. rewrite IH. cbn [ingest st_data].
  now rewrite <- app_assoc.
Qed.
Lemma sort_vals_nil_iff xs : sort_vals xs = [] -> xs = [].
Proof.
  unfold sort_vals. destruct xs as [|x xs]; [reflexivity|]. cbn [fold_left].
  assert (H : forall l acc, acc <> [] -> fold_left (fun acc x => insert_sorted x acc) l acc <> []).
  { induction l as [|y l IH]; intros acc Hacc; cbn [fold_left]; [exact Hacc|]. apply IH.
    destruct acc as [|z acc]; [congruence|]. cbn [insert_sorted]. destruct (val_lt z y); discriminate. }
  intros E. exfalso. apply (H xs (insert_sorted x [])); [cbn; discriminate|exact E].
Qed.
Theorem dsl_percentile_is_accumulator : forall il p xs, dsl_stat (DPercentile il p) xs = run_acc il (APctl p) xs.
Proof.
  intros il p xs. unfold run_acc. cbn [dsl_stat emit]. rewrite pctl_data_fold. cbn [st0 st_data app]. unfold pctl_of.
  destruct xs as [|x xs]; [reflexivity|].
  destruct (sort_vals (x :: xs)) eqn:E; [apply sort_vals_nil_iff in E; discriminate|reflexivity].
Qed.
Theorem dsl_median_is_accumulator : forall il xs, dsl_stat (DMedian il) xs = run_acc il (APctl 50) xs.
Proof. intros il xs. exact (dsl_percentile_is_accumulator il 50 xs). Qed.

(* percentile(xs, p, options) and the first entry of percentiles(xs, [p], options) are that function *)
Theorem dsl_percentile_call : forall q t opts o xs, parse_opts opts = Some o -> po_ais o = false ->
  dsl_call (CPctl (PNum q t) opts) (DArr xs) = ROne (dsl_stat (DPercentile (po_il o) q) xs).
Proof.
  intros q t opts o xs Ho Hs. cbn [dsl_call call_on]. unfold pctls_call. rewrite Ho, Hs. cbn [andb]. unfold pctls_impl.
  cbn [map pctl_one combine ptext fold_left oput fst snd]. destruct (po_oa o); reflexivity.
Qed.

(* ------------------------------------------------------------------ minlen / maxlen: unconditional *)
Lemma minlen_fold xs : forall r t, exists t',
  st_best (fold_left (ingest AMinLen) xs (mkst 0 (I 0) (I 0) (I 0) (I 0) [] (MInt r t) []))
  = MInt (fold_left (fun r v => let c := utf8_len v in if (c <? r)%Z then c else r) xs r) t'.
Proof.
  induction xs as [|x xs IH]; intros r t; cbn [fold_left]; [exists t; reflexivity|].
  cbn [ingest st_count st_s1 st_s2 st_s3 st_s4 st_counts st_best st_data mv_min]. cbv zeta.
  destruct (r <? utf8_len x)%Z eqn:E1; destruct (utf8_len x <? r)%Z eqn:E2; try lia.
  - apply IH.
  - apply IH.
  - assert (utf8_len x = r) by lia. subst r. apply IH.
Qed.
Lemma maxlen_fold xs : forall r t, exists t',
  st_best (fold_left (ingest AMaxLen) xs (mkst 0 (I 0) (I 0) (I 0) (I 0) [] (MInt r t) []))
  = MInt (fold_left (fun r v => let c := utf8_len v in if (r <? c)%Z then c else r) xs r) t'.
Proof.
  induction xs as [|x xs IH]; intros r t; cbn [fold_left]; [exists t; reflexivity|].
  cbn [ingest st_count st_s1 st_s2 st_s3 st_s4 st_counts st_best st_data mv_max]. cbv zeta.
  destruct (utf8_len x <? r)%Z eqn:E1; destruct (r <? utf8_len x)%Z eqn:E2; try lia.
  - apply IH.
  - apply IH.
  - assert (utf8_len x = r) by lia. subst r. apply IH.
Qed.
Theorem dsl_minlen_is_accumulator : forall xs, dsl_stat DMinLen xs = run_acc false AMinLen xs.
Proof.
  intros [|x xs]; [reflexivity|]. unfold run_acc. cbn [dsl_stat len_fold emit]. cbn [fold_left].
  cbn [ingest st0 st_count st_s1 st_s2 st_s3 st_s4 st_counts st_best st_data mv_min].
  destruct (minlen_fold xs (utf8_len x) []) as [t' E]. rewrite E. cbn [oval_of_mv]. cbv zeta.
  rewrite Z.ltb_irrefl. reflexivity.
Qed.
Theorem dsl_maxlen_is_accumulator : forall xs, dsl_stat DMaxLen xs = run_acc false AMaxLen xs.
Proof.
  intros [|x xs]; [reflexivity|]. unfold run_acc. cbn [dsl_stat len_fold emit]. cbn [fold_left].
  cbn [ingest st0 st_count st_s1 st_s2 st_s3 st_s4 st_counts st_best st_data mv_max].
  destruct (maxlen_fold xs (utf8_len x) []) as [t' E]. rewrite E. cbn [oval_of_mv]. cbv zeta.
  rewrite Z.ltb_irrefl. reflexivity.
Qed.

(* ------------------------------------------------------------------ sums *)
(* the difference to the accumulators, stated precisely: an empty value is skipped by every power sum (but counted in n),
   a string turns the sum into an error value (the accumulators skip both) *)
Lemma dsl_sum_skips_voids k xs : forall a, fold_left (sum_step k) xs a = fold_left (sum_step k) (filter (fun v => negb (is_void v)) xs) a.
Proof.
  induction xs as [|x xs IH]; intros a; cbn [fold_left filter]; [reflexivity|].
  destruct x as [|c x']; cbn [is_void negb].
  - rewrite <- IH. f_equal. destruct a; reflexivity.
  - cbn [fold_left]. apply IH.
Qed.
Lemma sum_err_sticky k xs : fold_left (sum_step k) xs SErr = SErr.
Proof. induction xs as [|x xs IH]; cbn [fold_left sum_step]; [reflexivity|exact IH]. Qed.
Theorem dsl_sum_string_is_error : forall k xs, no_strings xs = false -> dsl_sumk k xs = SErr.
Proof.
  intros k xs. unfold dsl_sumk. generalize (I 0). induction xs as [|x xs IH]; intros a H; [discriminate|].
  cbn [no_strings forallb] in H. cbn [fold_left sum_step]. unfold is_num in H.
  destruct (numof x) eqn:En; cbn [orb andb] in H.
  - apply IH. exact H.
  - destruct (is_void x); cbn [andb] in H; [apply IH; exact H|apply sum_err_sticky].
Qed.

(* the first three power sums are the accumulator's fields, value by value *)
Lemma sums_agree a xs : is_moment a = true -> no_strings xs = true -> forall s,
  fold_left (sum_step 1) xs (SNum (st_s1 s)) = SNum (st_s1 (fold_left (ingest a) xs s))
  /\ fold_left (sum_step 2) xs (SNum (st_s2 s)) = SNum (st_s2 (fold_left (ingest a) xs s))
  /\ fold_left (sum_step 3) xs (SNum (st_s3 s)) = SNum (st_s3 (fold_left (ingest a) xs s)).
Proof.
  intros Ha. induction xs as [|x xs IH]; intros Hn s; cbn [fold_left]; [repeat split|].
  cbn [no_strings forallb] in Hn. apply andb_prop in Hn. destruct Hn as [Hx Hn]. specialize (IH Hn (ingest a s x)).
  assert (Hstep : ingest a s x = match numof x with
                                 | None => s
                                 | Some y => let x2 := nv_times y y in let x3 := nv_times y x2 in let x4 := nv_times y x3 in
                                     mkst (st_count s + 1) (nv_plus (st_s1 s) y) (nv_plus (st_s2 s) x2) (nv_plus (st_s3 s) x3)
                                          (nv_plus (st_s4 s) x4) (st_counts s) (st_best s) (st_data s) end)
    by (destruct a; try discriminate; reflexivity).
  unfold is_num in Hx. cbn [sum_step]. rewrite Hstep in IH. destruct (numof x) as [y|] eqn:En.
  - cbv zeta in IH. cbn [st_s1 st_s2 st_s3] in IH. cbn [pow_elem]. rewrite Hstep. exact IH.
  - cbn [orb] in Hx. rewrite Hx. rewrite Hstep. exact IH.
Qed.
Theorem dsl_sum_is_accumulator : forall xs, no_strings xs = true -> dsl_stat DSum xs = run_acc false ASum xs.
Proof.
  intros xs Hn. unfold run_acc. cbn [dsl_stat emit]. unfold dsl_sumk.
  destruct (sums_agree ASum xs eq_refl Hn st0) as (E1 & _ & _). cbn [st0 st_s1] in E1. rewrite E1. reflexivity.
Qed.
Lemma count_moment a xs : is_moment a = true -> all_num xs = true -> forall s,
  st_count (fold_left (ingest a) xs s) = (st_count s + Z.of_nat (List.length xs))%Z.
Proof.
  intros Ha. induction xs as [|x xs IH]; intros Hn s; cbn [fold_left List.length]; [lia|].
  cbn [all_num forallb] in Hn. apply andb_prop in Hn. destruct Hn as [Hx Hn]. rewrite (IH Hn).
  unfold is_num in Hx. destruct (numof x) eqn:En; [|discriminate].
  destruct a; try discriminate; cbn [ingest]; rewrite En; cbn [st_count]; lia.
Qed.
Lemma all_num_no_strings xs : all_num xs = true -> no_strings xs = true.
Proof.
  induction xs as [|x xs IH]; [reflexivity|]. cbn [all_num no_strings forallb]. intros H. apply andb_prop in H.
  destruct H as [H1 H2]. rewrite H1. cbn [orb andb]. exact (IH H2).
Qed.
(* mean: n counts every element, so equality with the accumulator needs all values numeric (an empty value is counted
   by the DSL function and not by the accumulator) *)
Theorem dsl_mean_is_accumulator : forall xs, all_num xs = true -> dsl_stat DMean xs = run_acc false AMean xs.
Proof.
  intros xs Hn. unfold run_acc. cbn [dsl_stat emit]. rewrite (count_moment AMean xs eq_refl Hn). cbn [st0 st_count].
  unfold dsl_sumk, dsl_n. destruct (sums_agree AMean xs eq_refl (all_num_no_strings xs Hn) st0) as (E1 & _ & _).
  cbn [st0 st_s1] in E1. rewrite E1. replace (0 + Z.of_nat (List.length xs))%Z with (Z.of_nat (List.length xs)) by lia.
  destruct (Z.of_nat (List.length xs) =? 0)%Z eqn:E0; [reflexivity|].
  unfold finalize. cbn [emit st_count st_s1]. rewrite E0. reflexivity.
Qed.
(* the witness that the side condition is needed: mean([1,"",2]) is 1 (3/3), the accumulator gives 1.5 *)
Example dsl_mean_counts_voids : dsl_stat DMean [B "1"; []; B "2"] = OInt 1 /\ run_acc false AMean [B "1"; []; B "2"] = OFlt (3 # 2).
Proof. split; vm_compute; reflexivity. Qed.

(* variance, stddev, meaneb, skewness use n and the first three power sums *)
Definition uses_s3 (a : accname) : bool := match a with AVar | AStddev | AMeanEB | ASkewness => true | _ => false end.
Lemma sum_num_of_all_num k xs : all_num xs = true -> forall a, exists r, fold_left (sum_step k) xs (SNum a) = SNum r.
Proof.
  induction xs as [|x xs IH]; intros Hn a; cbn [fold_left]; [exists a; reflexivity|].
  cbn [all_num forallb] in Hn. apply andb_prop in Hn. destruct Hn as [Hx Hn]. unfold is_num in Hx.
  cbn [sum_step]. destruct (numof x); [|discriminate]. apply (IH Hn).
Qed.
Theorem dsl_moment_is_accumulator : forall a xs, uses_s3 a = true -> all_num xs = true -> dsl_moment a xs = run_acc false a xs.
Proof.
  intros a xs Ha Hn. assert (Hm : is_moment a = true) by (destruct a; try discriminate; reflexivity).
  unfold run_acc, dsl_moment, dsl_sumk, dsl_n.
  destruct (sums_agree a xs Hm (all_num_no_strings xs Hn) st0) as (E1 & E2 & E3). cbn [st0 st_s1 st_s2 st_s3] in E1, E2, E3.
  rewrite E1, E2, E3.
  pose proof (count_moment a xs Hm Hn st0) as Ec. cbn [st0 st_count] in Ec.
  destruct (fold_left (sum_step 4) xs (SNum (I 0))) eqn:E4.
  - unfold finalize. destruct a; try discriminate; cbn [emit st_count st_s1 st_s2 st_s3]; rewrite Ec;
      replace (0 + Z.of_nat (List.length xs))%Z with (Z.of_nat (List.length xs)) by lia; reflexivity.
  - exfalso. destruct (sum_num_of_all_num 4 xs Hn (I 0)) as [r Er]. congruence.
Qed.
Theorem dsl_variance_is_accumulator : forall xs, all_num xs = true -> dsl_stat DVariance xs = run_acc false AVar xs.
Proof. intros xs H. exact (dsl_moment_is_accumulator AVar xs eq_refl H). Qed.
Theorem dsl_stddev_is_accumulator : forall xs, all_num xs = true -> dsl_stat DStddev xs = run_acc false AStddev xs.
Proof. intros xs H. exact (dsl_moment_is_accumulator AStddev xs eq_refl H). Qed.
Theorem dsl_meaneb_is_accumulator : forall xs, all_num xs = true -> dsl_stat DMeanEB xs = run_acc false AMeanEB xs.
Proof. intros xs H. exact (dsl_moment_is_accumulator AMeanEB xs eq_refl H). Qed.
Theorem dsl_skewness_is_accumulator : forall xs, all_num xs = true -> dsl_stat DSkewness xs = run_acc false ASkewness xs.
Proof. intros xs H. exact (dsl_moment_is_accumulator ASkewness xs eq_refl H). Qed.
Example dsl_moment_hypotheses_satisfiable : all_num [B "4"; B "5"; B "9.5"] = true /\ dsl_stat DVariance [B "4"; B "5"; B "9.5"] = run_acc false AVar [B "4"; B "5"; B "9.5"].
Proof. split; vm_compute; reflexivity. Qed.

(* ------------------------------------------------------------------ sum2 / sum3 / sum4 are the power sums *)
Lemma qof_pow_elem k x : (1 <= k <= 4)%nat -> qof (pow_elem k x) == qpow (qof x) k.
Proof.
  intros Hk. destruct k as [|[|[|[|[|k]]]]]; try lia; cbn [pow_elem qpow]; rewrite ?qof_times; ring.
Qed.
Lemma dsl_sumk_value k xs : (1 <= k <= 4)%nat -> no_strings xs = true -> forall a,
  exists r, fold_left (sum_step k) xs (SNum a) = SNum r /\ qof r == qof a + pow_sum k (qs_of xs).
Proof.
  intros Hk. induction xs as [|x xs IH]; intros Hn a; cbn [fold_left].
  - exists a. split; [reflexivity|]. unfold pow_sum, qs_of. cbn. ring.
  - cbn [no_strings forallb] in Hn. apply andb_prop in Hn. destruct Hn as [Hx Hn]. unfold is_num in Hx.
    unfold qs_of. rewrite numerics_cons. cbn [sum_step]. destruct (numof x) as [y|] eqn:En.
    + destruct (IH Hn (nv_plus a (pow_elem k y))) as (r & E & Q). exists r. split; [exact E|].
      rewrite Q. rewrite qof_plus, (qof_pow_elem k y Hk). unfold pow_sum, qs_of. cbn [map]. rewrite Qsum_list_cons. ring.
    + cbn [orb] in Hx. rewrite Hx. destruct (IH Hn a) as (r & E & Q). exists r. split; [exact E|exact Q].
Qed.
(* sum2(xs), sum3(xs), sum4(xs) (and sum) on a collection without strings: a number whose value is the k-th power sum of
   the numeric elements; with a string: the error value (dsl_sum_string_is_error) *)
Theorem dsl_sumk_is_pow_sum : forall k xs, (1 <= k <= 4)%nat -> no_strings xs = true ->
  exists r, dsl_sumk k xs = SNum r /\ qof r == pow_sum k (qs_of xs).
Proof.
  intros k xs Hk Hn. destruct (dsl_sumk_value k xs Hk Hn (I 0)) as (r & E & Q). exists r. split; [exact E|].
  rewrite Q. cbn [qof]. unfold inject_Z. ring.
Qed.
Example dsl_sum3_example : exists q, dsl_stat DSum3 [B "3"; []; B "1.5"] = OFlt q /\ q == 30375 # 1000.
Proof. eexists. split; [vm_compute; reflexivity|]. vm_compute. reflexivity. Qed.
