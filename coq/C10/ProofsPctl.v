(* C10 proofs, part 2: percentile index arithmetic (pkg/bifs/percentiles.go) and the sort the keeper relies on. *)
From Miller Require Import C10.Model C10.Verbs C10.Spec.
From Coq Require Import Lqa Lia Permutation Sorted.
Open Scope Q_scope.

(* ---------------------------------------------------------------- non-interpolated index *)
Lemma pctl_index_range p n : (0 < n)%Z -> (0 <= pctl_index p n < n)%Z.
Proof.
  intros Hn. unfold pctl_index.
  destruct (n <=? Qfloor (p * inject_Z n / 100))%Z eqn:E1.
  - destruct (n - 1 <? 0)%Z eqn:E2; lia.
  - destruct (Qfloor (p * inject_Z n / 100) <? 0)%Z eqn:E2; lia.
Qed.

Lemma inject_Z_pos n : (0 < n)%Z -> 0 < inject_Z n.
Proof. intros H. unfold Qlt, inject_Z. cbn. lia. Qed.
Lemma inject_Z_nonneg n : (0 <= n)%Z -> 0 <= inject_Z n.
Proof. intros H. unfold Qle, inject_Z. cbn. lia. Qed.

Lemma pn_bounds p n : 0 <= p -> p <= 100 -> (0 < n)%Z -> 0 <= p * inject_Z n / 100 /\ p * inject_Z n / 100 <= inject_Z n.
Proof.
  intros H0 H1 Hn. pose proof (inject_Z_pos n Hn) as Hq. split.
  - assert (H : 0 <= p * inject_Z n) by (apply Qmult_le_0_compat; lra).
    apply Qle_shift_div_l; lra.
  - assert (H : p * inject_Z n <= 100 * inject_Z n) by (apply Qmult_le_compat_r; lra).
    apply Qle_shift_div_r; lra.
Qed.

(* inside 0..100 the index is floor(p*n/100), except that p*n/100 = n (p = 100) is pulled back to n-1 *)
Lemma pctl_index_formula p n : 0 <= p -> p <= 100 -> (0 < n)%Z ->
  pctl_index p n = Z.min (Qfloor (p * inject_Z n / 100)) (n - 1)
  /\ (0 <= Qfloor (p * inject_Z n / 100) <= n)%Z.
Proof.
  intros H0 H1 Hn. destruct (pn_bounds p n H0 H1 Hn) as [Hlo Hhi].
  assert (Hf0 : (0 <= Qfloor (p * inject_Z n / 100))%Z).
  { change 0%Z with (Qfloor 0). now apply Qfloor_resp_le. }
  assert (Hf1 : (Qfloor (p * inject_Z n / 100) <= n)%Z).
  { pose proof (Qfloor_resp_le _ _ Hhi) as H. now rewrite Qfloor_Z in H. }
  split; [|lia]. unfold pctl_index.
  destruct (n <=? Qfloor (p * inject_Z n / 100))%Z eqn:E1.
  - destruct (n - 1 <? 0)%Z eqn:E2; lia.
  - destruct (Qfloor (p * inject_Z n / 100) <? 0)%Z eqn:E2; lia.
Qed.

Lemma pctl_index_monotone p q n : p <= q -> (0 < n)%Z -> (pctl_index p n <= pctl_index q n)%Z.
Proof.
  intros Hpq Hn. pose proof (inject_Z_pos n Hn) as Hq.
  assert (Hle : p * inject_Z n / 100 <= q * inject_Z n / 100).
  { assert (H : p * inject_Z n <= q * inject_Z n) by (apply Qmult_le_compat_r; lra).
    unfold Qdiv. apply Qmult_le_compat_r; [exact H|]. unfold Qle; cbn; lia. }
  apply Qfloor_resp_le in Hle. unfold pctl_index.
  destruct (n <=? Qfloor (p * inject_Z n / 100))%Z eqn:E1, (n <=? Qfloor (q * inject_Z n / 100))%Z eqn:E2;
  repeat match goal with |- context [(?a <? 0)%Z] => destruct (a <? 0)%Z eqn:? end; lia.
Qed.

Lemma nthZ_some {A} (l : list A) i : (0 <= i < Z.of_nat (List.length l))%Z -> exists x, nthZ i l = Some x.
Proof.
  intros H. unfold nthZ. destruct (i <? 0)%Z eqn:E; [lia|].
  destruct (nth_error l (Z.to_nat i)) eqn:N; [eauto|]. apply nth_error_None in N. lia.
Qed.

(* the non-interpolated percentile is an element of the sorted data: never out of range, for EVERY p *)
Lemma pctl_nonint_is_element p sorted : sorted <> [] ->
  exists v, nthZ (pctl_index p (Z.of_nat (List.length sorted))) sorted = Some v /\ pctl_nonint p sorted = oval_of_val v.
Proof.
  intros Hne. assert (Hn : (0 < Z.of_nat (List.length sorted))%Z) by (destruct sorted; [congruence|cbn; lia]).
  destruct (nthZ_some sorted _ (pctl_index_range p _ Hn)) as [v Hv]. exists v. split; [exact Hv|].
  unfold pctl_nonint. now rewrite Hv.
Qed.

(* ---------------------------------------------------------------- interpolated index *)
Lemma findex_bounds p n : 0 <= p -> p <= 100 -> (0 < n)%Z -> 0 <= pctl_findex p n /\ pctl_findex p n <= inject_Z (n - 1).
Proof.
  intros H0 H1 Hn. unfold pctl_findex. assert (Hm : 0 <= inject_Z (n - 1)) by (apply inject_Z_nonneg; lia).
  assert (Hp : 0 <= p / 100) by (apply Qle_shift_div_l; lra). assert (Hp1 : p / 100 <= 1) by (apply Qle_shift_div_r; lra).
  assert (Hlo : 0 <= p / 100 * inject_Z (n - 1)) by (apply Qmult_le_0_compat; assumption).
  assert (Hhi : p / 100 * inject_Z (n - 1) <= 1 * inject_Z (n - 1)) by (apply Qmult_le_compat_r; assumption).
  destruct (Qle_bool 0 (p / 100 * inject_Z (n - 1))) eqn:E; split; lra.
Qed.

Lemma pctl_findex_nonneg p n : 0 <= pctl_findex p n.
Proof. unfold pctl_findex. destruct (Qle_bool 0 (p / 100 * inject_Z (n - 1))) eqn:E; [now apply Qle_bool_iff|lra]. Qed.

(* after fix: 444a9e97f the interpolated form never indexes out of range, for EVERY p *)
Lemma pctl_interp_never_panics p sorted : sorted <> [] -> pctl_interp p sorted <> OPanic.
Proof.
  intros Hne. assert (Hn : (0 < Z.of_nat (List.length sorted))%Z) by (destruct sorted; [congruence|cbn; lia]).
  unfold pctl_interp.
  set (n := Z.of_nat (List.length sorted)) in *. set (f := pctl_findex p n) in *.
  assert (Hf0 : (0 <= Qfloor f)%Z).
  { change 0%Z with (Qfloor 0). apply Qfloor_resp_le. apply pctl_findex_nonneg. }
  destruct (n - 1 <=? Qfloor f)%Z eqn:E.
  - destruct (nthZ_some sorted (n - 1)) as [v Hv]; [fold n; lia|]. rewrite Hv.
    unfold oval_of_val. destruct (classify v); discriminate.
  - apply Z.leb_gt in E.
    destruct (nthZ_some sorted (Qfloor f)) as [a Ha]; [fold n; lia|].
    destruct (nthZ_some sorted (Qfloor f + 1)) as [b Hb]; [fold n; lia|]. rewrite Ha, Hb.
    destruct (numof a), (numof b); discriminate.
Qed.

Lemma pctl_interp_no_panic p sorted : 0 <= p -> p <= 100 -> sorted <> [] -> pctl_interp p sorted <> OPanic.
Proof. intros _ _. apply pctl_interp_never_panics. Qed.

(* p above 100 clamps to the last element (witness p = 200) *)
Lemma pctl_interp_clamps_above : pctl_interp 200 [B "1"; B "2"] = oval_of_val (B "2").
Proof. vm_compute. reflexivity. Qed.

(* ---------------------------------------------------------------- the sort *)
Lemma insert_sorted_perm x l : Permutation (insert_sorted x l) (x :: l).
Proof.
  induction l as [|y l IH]; cbn; [reflexivity|].
  destruct (val_lt y x); [|reflexivity]. rewrite IH. apply perm_swap.
Qed.
Lemma sort_vals_perm_aux l acc : Permutation (fold_left (fun acc x => insert_sorted x acc) l acc) (acc ++ l).
Proof.
  revert acc; induction l as [|x l IH]; intros acc; cbn; [now rewrite app_nil_r|].
  rewrite IH, insert_sorted_perm. cbn. apply Permutation_middle.
Qed.
Lemma sort_vals_perm l : Permutation (sort_vals l) l.
Proof. unfold sort_vals. exact (sort_vals_perm_aux l []). Qed.
Lemma sort_vals_length l : List.length (sort_vals l) = List.length l.
Proof. apply Permutation_length, sort_vals_perm. Qed.

(* ---------------------------------------------------------------- sortedness *)
Lemma bltb_asym a : forall b, bltb a b = true -> bltb b a = false.
Proof.
  induction a as [|x a IH]; intros [|y b]; cbn [bltb]; try discriminate; try reflexivity.
  destruct (code x <? code y)%N eqn:E1, (code y <? code x)%N eqn:E2; try discriminate; try reflexivity.
  - apply N.ltb_lt in E1, E2. lia.
  - intros H. now apply IH.
Qed.

Lemma val_lt_asym a b : val_lt a b = true -> val_lt b a = false.
Proof.
  unfold val_lt. destruct (numof a) as [x|], (numof b) as [y|]; try discriminate; try reflexivity.
  - intros H. apply negb_true_iff in H. apply negb_false_iff.
    destruct (Qle_bool (qof x) (qof y)) eqn:E; [reflexivity|].
    assert (Hn1 : ~ (qof y <= qof x)%Q) by (intros C; apply Qle_bool_iff in C; congruence).
    assert (Hn2 : ~ (qof x <= qof y)%Q) by (intros C; apply Qle_bool_iff in C; congruence).
    destruct (Qlt_le_dec (qof x) (qof y)) as [L|L]; [apply Qlt_le_weak in L|]; contradiction.
  - apply bltb_asym.
Qed.

Lemma insert_sorted_sorted x l : LocallySorted val_le l -> LocallySorted val_le (insert_sorted x l).
Proof.
  induction l as [|y t IH]; intros Hs; cbn [insert_sorted]; [constructor|].
  destruct (val_lt y x) eqn:E.
  - assert (Ht : LocallySorted val_le t) by (inversion Hs; [constructor|assumption]).
    specialize (IH Ht). destruct t as [|z t'].
    + cbn [insert_sorted] in *. constructor; [constructor|]. unfold val_le. now apply val_lt_asym.
    + cbn [insert_sorted] in *. destruct (val_lt z x) eqn:E2.
      * constructor; [exact IH|]. inversion Hs; assumption.
      * constructor; [exact IH|]. unfold val_le. now apply val_lt_asym.
  - constructor; [exact Hs|exact E].
Qed.

Lemma sort_vals_sorted l : LocallySorted val_le (sort_vals l).
Proof.
  unfold sort_vals. assert (G : forall acc, LocallySorted val_le acc -> LocallySorted val_le (fold_left (fun acc x => insert_sorted x acc) l acc)).
  { induction l as [|x l IH]; intros acc Hs; cbn [fold_left]; [exact Hs|]. apply IH. now apply insert_sorted_sorted. }
  apply G. constructor.
Qed.
