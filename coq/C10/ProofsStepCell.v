(* C10 proofs, part 13: step -- the stepper state kept inside the verb for (group k, value field f, stepper `name`)
   sees exactly the events of f over the group's records (backward-looking steppers: window of one record, lead = 0).
   This ties the per-cell theorems of ProofsStep.v (step_state / step_cell) to verb_step's own state. *)
From Miller Require Import C10.Model C10.Verbs C10.Verbs2 C10.Spec C10.ProofsGroup C10.Proofs C10.ProofsStep C10.ProofsCells C10.ProofsWindow.
From Coq Require Import Lia.
Open Scope char_scope.

(* the cell, as a function of the group's events of f (None: the record lacks f): nothing exists before the first record
   carrying f; then an absent field clears the previous-value caches (sclear), a present one runs the stepper *)
Definition cell_ev (sp : stepper) (name f : bytes) (o : option stst) (e : option val) : option stst :=
  match e with
  | None => option_map (sclear sp) o
  | Some v => Some (fst (sprocess sp name f (match o with Some st => st | None => stst0 sp end) [Some ([(f, v)], [])]))
  end.
Definition cellst (g : sgroup) (f name : bytes) : option stst :=
  match oget f (sg_st g) with Some m => oget name m | None => None end.

(* with a one-record window the new state depends only on the old state and the value of f *)
Lemma sprocess_state_local sp name f st win r v : wkeys win = [Some r] -> get f r = Some v ->
  fst (sprocess sp name f st win) = fst (sprocess sp name f st [Some ([(f, v)], [])]).
Proof.
  intros Hw Hg. destruct win as [|[c|] [|x t]]; try discriminate Hw. cbn in Hw. injection Hw as Hc. subst r.
  destruct sp; cbn [sprocess fst]; rewrite ?Hg, ?get_single; cbn [fst snd nth];
    repeat match goal with
           | |- context [match ?x with _ => _ end] => destruct x eqn:?; cbn [fst snd]
           | |- context [if ?x then _ else _] => destruct x eqn:?; cbn [fst snd]
           end; try reflexivity; try congruence.
Qed.

(* ---- the per-stepper loops of sdispatch *)
Definition sclr (m : omap stst) (sp : stepreq) : omap stst :=
  match oget (snd sp) m with Some st => oput (snd sp) (sclear (fst sp) st) m | None => m end.
Definition sproc (f : bytes) (acc : omap stst * list (option wrec)) (sp : stepreq) : omap stst * list (option wrec) :=
  let '(m, win) := acc in
  let st := match oget (snd sp) m with Some st => st | None => stst0 (fst sp) end in
  let '(st', win') := sprocess (fst sp) (snd sp) f st win in
  (oput (snd sp) st' m, win').

Lemma sclr_other name sps : ~ In name (map snd sps) -> forall m, oget name (fold_left sclr sps m) = oget name m.
Proof.
  induction sps as [|[sp0 n0] sps IH]; intros Hni m; [reflexivity|]. cbn [fold_left]. rewrite IH by (intros H; apply Hni; now right).
  unfold sclr. cbn [fst snd]. destruct (oget n0 m); [|reflexivity]. rewrite oget_oput.
  destruct (beqb_spec name n0) as [->|_]; [exfalso; apply Hni; now left|reflexivity].
Qed.
Lemma sclr_get sp name sps : NoDup (map snd sps) -> In (sp, name) sps -> forall m,
  oget name (fold_left sclr sps m) = option_map (sclear sp) (oget name m).
Proof.
  induction sps as [|[sp0 n0] sps IH]; intros Hnd Hin m; [contradiction|]. cbn [map snd] in Hnd.
  inversion Hnd as [|? ? Hni Hnd']; subst. cbn [fold_left]. destruct Hin as [E|Hin].
  - injection E as -> ->. rewrite sclr_other by exact Hni. unfold sclr. cbn [fst snd].
    destruct (oget name m) eqn:Em; cbn [option_map]; [|exact Em]. rewrite oget_oput, beqb_refl. reflexivity.
  - rewrite IH by assumption. f_equal. unfold sclr. cbn [fst snd]. destruct (oget n0 m); [|reflexivity].
    rewrite oget_oput. destruct (beqb_spec name n0) as [->|_]; [|reflexivity].
    exfalso. apply Hni. change n0 with (snd (sp, n0)). now apply in_map.
Qed.

Lemma sproc_keys f sps : forall acc, wkeys (snd (fold_left (sproc f) sps acc)) = wkeys (snd acc).
Proof.
  induction sps as [|sp sps IH]; intros [m win]; [reflexivity|]. cbn [fold_left]. rewrite IH. unfold sproc.
  pose proof (sprocess_keys (fst sp) (snd sp) f (match oget (snd sp) m with Some st => st | None => stst0 (fst sp) end) win) as K.
  destruct (sprocess (fst sp) (snd sp) f _ win) as [st' win']. exact K.
Qed.
Lemma sproc_other f name sps : ~ In name (map snd sps) -> forall acc, oget name (fst (fold_left (sproc f) sps acc)) = oget name (fst acc).
Proof.
  induction sps as [|[sp0 n0] sps IH]; intros Hni [m win]; [reflexivity|]. cbn [fold_left]. rewrite IH by (intros H; apply Hni; now right).
  unfold sproc. cbn [fst snd]. destruct (sprocess sp0 n0 f _ win) as [st' win']. cbn [fst]. rewrite oget_oput.
  destruct (beqb_spec name n0) as [->|_]; [exfalso; apply Hni; now left|reflexivity].
Qed.
Lemma sproc_get f sp name sps r v : NoDup (map snd sps) -> In (sp, name) sps -> get f r = Some v -> forall m win,
  wkeys win = [Some r] ->
  oget name (fst (fold_left (sproc f) sps (m, win))) = cell_ev sp name f (oget name m) (Some v).
Proof.
  intros Hnd Hin Hg. induction sps as [|[sp0 n0] sps IH]; intros m win Hw; [contradiction|]. cbn [map snd] in Hnd.
  inversion Hnd as [|? ? Hni Hnd']; subst. cbn [fold_left]. destruct Hin as [E|Hin].
  - injection E as -> ->. rewrite sproc_other by exact Hni. unfold sproc. cbn [fst snd cell_ev].
    pose proof (sprocess_state_local sp name f (match oget name m with Some st => st | None => stst0 sp end) win r v Hw Hg) as L.
    destruct (sprocess sp name f _ win) as [st' win']. cbn [fst] in *. rewrite oget_oput, beqb_refl. now rewrite L.
  - pose proof (sproc_keys f [(sp0, n0)] (m, win)) as K. cbn [fold_left] in K.
    destruct (sproc f (m, win) (sp0, n0)) as [m1 win1] eqn:E1. cbn [snd] in K.
    rewrite (IH Hnd' Hin m1 win1) by (now rewrite K). f_equal.
    unfold sproc in E1. cbn [fst snd] in E1. destruct (sprocess sp0 n0 f _ win) as [st' win'].
    injection E1 as <- _. rewrite oget_oput. destruct (beqb_spec name n0) as [->|_]; [|reflexivity].
    exfalso. apply Hni. change n0 with (snd (sp, n0)). now apply in_map.
Qed.

(* ---- one field of sdispatch *)
Definition sfield (sps : list stepreq) (dr : record) (g : sgroup) (f : bytes) : sgroup :=
  match get f dr with
  | None =>
      match oget f (sg_st g) with
      | None => g
      | Some m => mksg (sg_win g) (oput f (fold_left sclr sps m) (sg_st g))
      end
  | Some _ =>
      let m0 := match oget f (sg_st g) with Some m => m | None => [] end in
      let '(m', win') := fold_left (sproc f) sps (m0, sg_win g) in
      mksg win' (oput f m' (sg_st g))
  end.
Lemma sdispatch_sfield sps fs dr g : sdispatch sps fs dr g = fold_left (sfield sps dr) fs g.
Proof. reflexivity. Qed.

Lemma sfield_keys sps dr g f : wkeys (sg_win (sfield sps dr g f)) = wkeys (sg_win g).
Proof.
  unfold sfield. destruct (get f dr).
  - pose proof (sproc_keys f sps (match oget f (sg_st g) with Some m => m | None => [] end, sg_win g)) as K.
    destruct (fold_left (sproc f) sps _) as [m' win']. exact K.
  - destruct (oget f (sg_st g)); reflexivity.
Qed.
Lemma sfield_other sps dr g f f' name : f' <> f -> cellst (sfield sps dr g f) f' name = cellst g f' name.
Proof.
  intros Hne. unfold sfield, cellst. destruct (get f dr).
  - destruct (fold_left (sproc f) sps _) as [m' win']. cbn [sg_st]. rewrite oget_oput.
    destruct (beqb_spec f' f); [contradiction|reflexivity].
  - destruct (oget f (sg_st g)); [|reflexivity]. cbn [sg_st]. rewrite oget_oput. destruct (beqb_spec f' f); [contradiction|reflexivity].
Qed.
Lemma sfield_get sps r g f sp name : NoDup (map snd sps) -> In (sp, name) sps -> wkeys (sg_win g) = [Some r] ->
  cellst (sfield sps r g f) f name = cell_ev sp name f (cellst g f name) (get f r).
Proof.
  intros Hnd Hin Hw. unfold sfield, cellst. destruct (get f r) as [v|] eqn:Hg.
  - pose proof (sproc_get f sp name sps r v Hnd Hin Hg (match oget f (sg_st g) with Some m => m | None => [] end) (sg_win g) Hw) as G.
    destruct (fold_left (sproc f) sps _) as [m' win']. cbn [fst sg_st] in *. rewrite oget_oput, beqb_refl. rewrite G.
    destruct (oget f (sg_st g)); reflexivity.
  - destruct (oget f (sg_st g)) as [m|] eqn:Em; cbn [sg_st].
    + rewrite oget_oput, beqb_refl. rewrite (sclr_get sp name sps Hnd Hin). reflexivity.
    + rewrite Em. reflexivity.
Qed.

(* ---- the whole field loop: the cell of f is touched by f's own iteration only *)
Lemma sdispatch_cell sps fs r f sp name : NoDup fs -> In f fs -> NoDup (map snd sps) -> In (sp, name) sps -> forall g,
  wkeys (sg_win g) = [Some r] ->
  cellst (sdispatch sps fs r g) f name = cell_ev sp name f (cellst g f name) (get f r).
Proof.
  intros Hndf Hinf Hnd Hin.
  enough (G : forall g, wkeys (sg_win g) = [Some r] ->
            cellst (fold_left (sfield sps r) fs g) f name = cell_ev sp name f (cellst g f name) (get f r))
    by (intros g Hw; rewrite sdispatch_sfield; now apply G).
  assert (Other : forall fs', ~ In f fs' -> forall g, cellst (fold_left (sfield sps r) fs' g) f name = cellst g f name).
  { induction fs' as [|f0 fs' IH]; intros Hni g; [reflexivity|]. cbn [fold_left]. rewrite IH by (intros H; apply Hni; now right).
    apply sfield_other. intros ->. apply Hni. now left. }
  induction fs as [|f0 fs IH]; intros g Hw; [contradiction|]. inversion Hndf as [|? ? Hni Hndf']; subst.
  cbn [fold_left].
  destruct Hinf as [->|Hinf].
  - rewrite Other by exact Hni. now apply sfield_get.
  - specialize (IH Hndf' Hinf (sfield sps r g f0)). rewrite sfield_keys in IH. specialize (IH Hw).
    etransitivity; [exact IH|]. f_equal. apply sfield_other. intros ->. contradiction.
Qed.

(* ---- the verb: the state of (group k, field f, stepper name) is the cell function folded over the group's events of f *)
Lemma tl_wkeys_single sps fs gs rs k :
  tl (wkeys (sg_win (match oget k (s_run sps fs gs 0 rs) with Some g => g | None => mksg (repeat None 1) [] end))) = [].
Proof.
  pose proof (step_window_invariant sps fs gs 0 rs k) as W. destruct (oget k (s_run sps fs gs 0 rs)) as [g|]; [|reflexivity].
  destruct W as [W _]. rewrite W. unfold last_n, padded.
  set (L := repeat None 1 ++ map Some (members (group_key gs) k rs)).
  assert (HL : (1 <= List.length L)%nat) by (subst L; rewrite app_length; cbn [repeat List.length]; lia).
  assert (Hlen : List.length (skipn (List.length L - 1) L) = 1%nat) by (rewrite skipn_length; lia).
  destruct (skipn (List.length L - 1) L) as [|x [|y t]]; cbn in Hlen; try lia. reflexivity.
Qed.

Theorem step_cell_state sps fs gs f sp name : NoDup fs -> In f fs -> NoDup (map snd sps) -> In (sp, name) sps -> forall rs k,
  match oget k (s_run sps fs gs 0 rs) with Some g => cellst g f name | None => None end
  = fold_left (cell_ev sp name f) (map (get f) (members (group_key gs) k rs)) None.
Proof.
  intros Hndf Hinf Hnd Hin. induction rs as [|r rs IH] using rev_ind; intros k; [reflexivity|].
  rewrite s_run_snoc, (members_snoc (group_key gs)). unfold keyb. destruct (group_key gs r) as [k'|] eqn:Hk.
  - cbv zeta. rewrite oget_oput. destruct (beqb_spec k k') as [->|Hne].
    + rewrite map_app, fold_left_app. cbn [map fold_left]. rewrite <- IH.
      rewrite (sdispatch_cell sps fs r f sp name Hndf Hinf Hnd Hin).
      * f_equal. unfold cellst. cbn [sg_st]. destruct (oget k' (s_run sps fs gs 0 rs)); reflexivity.
      * cbn [sg_win]. rewrite wkeys_shift, tl_wkeys_single. reflexivity.
    + rewrite app_nil_r. apply IH.
  - rewrite app_nil_r. apply IH.
Qed.

(* in terms of ProofsStep.step_state: drop the events before the first record carrying f *)
Fixpoint drop_absent (evs : list (option val)) : list (option val) :=
  match evs with None :: t => drop_absent t | _ => evs end.

Lemma cell_ev_fold sp name f evs : forall st,
  fold_left (cell_ev sp name f) evs (Some st) = Some (step_state sp name f st evs).
Proof.
  induction evs as [|[v|] evs IH]; intros st; cbn [fold_left step_state cell_ev option_map]; [reflexivity|apply IH|apply IH].
Qed.

Theorem step_cell_state_is_step_state sps fs gs f sp name rs k :
  NoDup fs -> In f fs -> NoDup (map snd sps) -> In (sp, name) sps ->
  match oget k (s_run sps fs gs 0 rs) with Some g => cellst g f name | None => None end
  = match drop_absent (map (get f) (members (group_key gs) k rs)) with
    | [] => None
    | evs => Some (step_state sp name f (stst0 sp) evs)
    end.
Proof.
  intros Hndf Hinf Hnd Hin. rewrite (step_cell_state sps fs gs f sp name Hndf Hinf Hnd Hin).
  induction (map (get f) (members (group_key gs) k rs)) as [|[v|] evs IH]; [reflexivity| |exact IH].
  cbn [drop_absent fold_left cell_ev]. rewrite cell_ev_fold. reflexivity.
Qed.

Example step_cell_state_example :
  let sps := [(SRsum, B "rsum"); (SDelta 1, B "delta")] in
  let rs := [[(B "a", B "p"); (B "y", B "0")]; [(B "a", B "q"); (B "x", B "5")]; [(B "a", B "p"); (B "x", B "2")];
             [(B "a", B "p"); (B "y", B "1")]; [(B "a", B "p"); (B "x", B "7")]] in
  NoDup [B "x"; B "y"] /\ NoDup (map snd sps)
  /\ map (get (B "x")) (members (group_key [B "a"]) (B "p") rs) = [None; Some (B "2"); None; Some (B "7")]
  /\ sx_acc (step_state SRsum (B "rsum") (B "x") (stst0 SRsum) [Some (B "2"); None; Some (B "7")]) = I 9.
Proof. vm_compute. repeat split; try reflexivity; repeat constructor; cbn; intuition discriminate. Qed.

Print Assumptions step_cell_state.
Print Assumptions step_cell_state_is_step_state.
