(* C10 proofs, part 15: stats2 (Verbs5.v).  (1) The sums kept for (group, pair of value fields) are the sums over exactly
   the numeric (x, y) pairs of the group's records carrying both fields non-empty; (2) they are the definitional power
   sums; (3) cov from the sums = sum (x-mean_x)(y-mean_y)/(n-1); (4) the OLS slope and intercept solve the normal equations
   of the least-squares fit; (5) r2 from the sums = cov^2/(var_x var_y) in its rational form. *)
From Miller Require Import C10.Model C10.Verbs C10.Verbs2 C10.Verbs5 C10.Spec C10.ProofsGroup C10.Proofs C10.ProofsCells.
From Coq Require Import Lia Field.
Open Scope char_scope.

Definition dflt_s2 (o : option s2st) : s2st := match o with Some s => s | None => s2st0 end.
Definition pair_values (p : bytes * bytes) (ms : list record) : list (Q * Q) :=
  flat_map (fun r => match pair_value p r with Some xy => [xy] | None => [] end) ms.

Definition s2_step (r : record) (m : omap s2st) (p : bytes * bytes) : omap s2st :=
  match pair_value p r with
  | None => m
  | Some xy => oput (pair_key p) (s2_ingest (match oget (pair_key p) m with Some s => s | None => s2st0 end) xy) m
  end.

Lemma s2_step_other r m q k : k <> pair_key q -> oget k (s2_step r m q) = oget k m.
Proof.
  intros N. unfold s2_step. destruct (pair_value q r); [|reflexivity]. rewrite oget_oput.
  destruct (beqb_spec k (pair_key q)); [contradiction|reflexivity].
Qed.
Lemma s2_fold_other r ps : forall m k, ~ In k (map pair_key ps) -> oget k (fold_left (s2_step r) ps m) = oget k m.
Proof.
  induction ps as [|q ps IH]; intros m k N; cbn [fold_left]; [reflexivity|].
  rewrite IH by (intros H; apply N; now right). apply s2_step_other. intros E. apply N. left. now symmetry.
Qed.

(* one record: the sums of the pair p move by the record's (x, y) if it has one, nothing else touches them *)
Lemma s2_ingest_rec_get ps r : NoDup (map pair_key ps) -> forall m p, In p ps ->
  oget (pair_key p) (s2_ingest_rec ps m r)
  = match pair_value p r with Some xy => Some (s2_ingest (dflt_s2 (oget (pair_key p) m)) xy) | None => oget (pair_key p) m end.
Proof.
  unfold s2_ingest_rec. change (fun m0 p0 => match pair_value p0 r with
       | None => m0
       | Some xy => oput (pair_key p0) (s2_ingest (match oget (pair_key p0) m0 with Some s => s | None => s2st0 end) xy) m0 end) with (s2_step r).
  induction ps as [|q ps IH]; intros Hnd m p Hin; [contradiction|]. cbn [map] in Hnd. inversion Hnd as [|? ? Hni Hnd']; subst.
  cbn [fold_left]. destruct Hin as [->|Hin].
  - rewrite s2_fold_other by exact Hni. unfold s2_step, dflt_s2. destruct (pair_value p r); [|reflexivity].
    rewrite oget_oput, beqb_refl. reflexivity.
  - rewrite IH by assumption. rewrite s2_step_other; [reflexivity|]. intros E. apply Hni. rewrite <- E. now apply in_map.
Qed.

(* THE link: after any list of records of one group, the sums kept for the pair are the sums over exactly the numeric pairs
   of those records that carry both fields non-empty, in order; no entry before the first such record *)
Theorem stats2_cell_is_sums_over_pairs ps ms p : NoDup (map pair_key ps) -> In p ps ->
  oget (pair_key p) (fold_left (s2_ingest_rec ps) ms [])
  = match pair_values p ms with [] => None | xys => Some (fold_left s2_ingest xys s2st0) end.
Proof.
  intros Hnd Hin. induction ms as [|r ms IH] using rev_ind; [reflexivity|].
  rewrite fold_left_app. cbn [fold_left]. rewrite s2_ingest_rec_get by assumption. rewrite IH.
  unfold pair_values. rewrite flat_map_app. cbn [flat_map]. rewrite app_nil_r. fold (pair_values p ms).
  destruct (pair_value p r) as [xy|].
  - destruct (pair_values p ms) as [|a l]; cbn [app dflt_s2]; [reflexivity|].
    change (a :: l ++ [xy]) with ((a :: l) ++ [xy]). rewrite fold_left_app. reflexivity.
  - rewrite app_nil_r. reflexivity.
Qed.

Lemma stats2_group_fold ps gs (ms : list record) : forall vs m,
  snd (fold_left (fun (s : list bytes * omap s2st) r => (match selected gs r with Some v => v | None => [] end, s2_ingest_rec ps (snd s) r)) ms (vs, m))
  = fold_left (s2_ingest_rec ps) ms m.
Proof. induction ms as [|r ms IH]; intros vs m; cbn [fold_left snd]; [reflexivity|apply IH]. Qed.

(* the verb: the sums of (group k, pair p) are the sums over exactly the (x, y) pairs of the members of group k *)
Theorem stats2_cell_sees_exactly_its_group ps gs rs k p : NoDup (map pair_key ps) -> In p ps ->
  match oget k (stats2_groups ps gs rs) with Some e => oget (pair_key p) (snd e) | None => None end
  = match pair_values p (members (group_key gs) k rs) with [] => None | xys => Some (fold_left s2_ingest xys s2st0) end.
Proof.
  intros Hnd Hin. unfold stats2_groups. rewrite oget_gfold. unfold group_state.
  pose proof (stats2_cell_is_sums_over_pairs ps (members (group_key gs) k rs) p Hnd Hin) as C.
  set (ms := members (group_key gs) k rs) in *. clearbody ms.
  destruct ms as [|r0 rest]; [reflexivity|]. rewrite stats2_group_fold. exact C.
Qed.

(* ---------------------------------------------------------------- the sums are the definitional sums *)
Definition sumq (f : Q * Q -> Q) (l : list (Q * Q)) : Q := Qsum_list (map f l).
Record s2eq (s : s2st) (l : list (Q * Q)) : Prop := {
  e_n : b_n s = Z.of_nat (List.length l);
  e_sx : b_sx s == sumq fst l; e_sy : b_sy s == sumq snd l;
  e_sx2 : b_sx2 s == sumq (fun p => fst p * fst p) l; e_sxy : b_sxy s == sumq (fun p => fst p * snd p) l;
  e_sy2 : b_sy2 s == sumq (fun p => snd p * snd p) l }.

Lemma Qsum_list_snoc l x : Qsum_list (l ++ [x]) == Qsum_list l + x.
Proof.
  induction l as [|y l IH]; cbn [app]; unfold Qsum_list in *; cbn [fold_right]; [ring|]. rewrite IH. ring.
Qed.
Lemma sumq_snoc f l x : sumq f (l ++ [x]) == sumq f l + f x.
Proof. unfold sumq. rewrite map_app. cbn [map]. apply Qsum_list_snoc. Qed.

Theorem s2_sums_are_definitional l : s2eq (fold_left s2_ingest l s2st0) l.
Proof.
  induction l as [|[x y] l IH] using rev_ind.
  - constructor; cbn; reflexivity.
  - rewrite fold_left_app. cbn [fold_left]. destruct IH as [En Ex Ey Ex2 Exy Ey2].
    set (s := fold_left s2_ingest l s2st0) in *. unfold s2_ingest.
    constructor; cbn [b_n b_sx b_sy b_sx2 b_sxy b_sy2]; rewrite ?sumq_snoc; cbn [fst snd].
    + rewrite En, app_length. cbn [List.length]. lia.
    + now rewrite Ex.
    + now rewrite Ey.
    + now rewrite Ex2.
    + now rewrite Exy.
    + now rewrite Ey2.
Qed.

(* ---------------------------------------------------------------- cov, OLS, r2 from the definitions *)
Definition nq (l : list (Q * Q)) : Q := inject_Z (Z.of_nat (List.length l)).
Definition meanx (l : list (Q * Q)) : Q := sumq fst l / nq l.
Definition meany (l : list (Q * Q)) : Q := sumq snd l / nq l.
(* centred sums: sum (x - mean_x)(y - mean_y) etc. *)
Definition cxy (l : list (Q * Q)) : Q := sumq (fun p => (fst p - meanx l) * (snd p - meany l)) l.
Definition cxx (l : list (Q * Q)) : Q := sumq (fun p => (fst p - meanx l) * (fst p - meanx l)) l.
Definition cyy (l : list (Q * Q)) : Q := sumq (fun p => (snd p - meany l) * (snd p - meany l)) l.

Lemma sumq_cons f p l : sumq f (p :: l) == f p + sumq f l.
Proof. unfold sumq. cbn [map]. unfold Qsum_list. cbn [fold_right]. reflexivity. Qed.

(* sum (x - a)(y - b) = sum xy - a sum y - b sum x + n a b, for any a, b *)
Lemma centred_expand a b l :
  sumq (fun p => (fst p - a) * (snd p - b)) l
  == sumq (fun p => fst p * snd p) l - a * sumq snd l - b * sumq fst l + nq l * a * b.
Proof.
  unfold nq. induction l as [|[x y] l IH].
  - unfold sumq, Qsum_list. cbn. ring.
  - rewrite !sumq_cons, IH. cbn [fst snd List.length]. rewrite Nat2Z.inj_succ, <- Z.add_1_r, inject_Z_plus. ring.
Qed.
Lemma centred_expand_xx a l :
  sumq (fun p => (fst p - a) * (fst p - a)) l
  == sumq (fun p => fst p * fst p) l - a * sumq fst l - a * sumq fst l + nq l * a * a.
Proof.
  unfold nq. induction l as [|[x y] l IH].
  - unfold sumq, Qsum_list. cbn. ring.
  - rewrite !sumq_cons, IH. cbn [fst snd List.length]. rewrite Nat2Z.inj_succ, <- Z.add_1_r, inject_Z_plus. ring.
Qed.
Lemma centred_expand_yy b l :
  sumq (fun p => (snd p - b) * (snd p - b)) l
  == sumq (fun p => snd p * snd p) l - b * sumq snd l - b * sumq snd l + nq l * b * b.
Proof.
  unfold nq. induction l as [|[x y] l IH].
  - unfold sumq, Qsum_list. cbn. ring.
  - rewrite !sumq_cons, IH. cbn [fst snd List.length]. rewrite Nat2Z.inj_succ, <- Z.add_1_r, inject_Z_plus. ring.
Qed.

Lemma nq_pos l : l <> [] -> ~ nq l == 0.
Proof.
  intros H E. unfold nq in E. destruct l as [|p l]; [congruence|]. cbn [List.length] in E.
  unfold Qeq in E. cbn [inject_Z Qnum Qden] in E. lia.
Qed.

(* cov: GetCov on the streamed sums = sum (x - mean_x)(y - mean_y) / (n - 1) *)
Theorem cov_stream_eq_def l : (2 <= List.length l)%nat ->
  cov_of (fold_left s2_ingest l s2st0) == cxy l / (nq l - 1).
Proof.
  intros H2. destruct (s2_sums_are_definitional l) as [En Ex Ey Ex2 Exy Ey2].
  assert (Hn : ~ nq l == 0) by (apply nq_pos; destruct l; [cbn in H2; lia|discriminate]).
  assert (Hn1 : ~ nq l - 1 == 0).
  { intros E. assert (E1 : nq l == 1) by (setoid_replace (nq l) with ((nq l - 1) + 1) by ring; rewrite E; ring).
    unfold nq, Qeq in E1. cbn [inject_Z Qnum Qden] in E1. lia. }
  unfold cov_of, cxy. rewrite centred_expand. unfold meanx, meany.
  rewrite En, Ex, Ey, Exy. fold (nq l). field. split; assumption.
Qed.

(* OLS: when D = n sum x^2 - (sum x)^2 <> 0 the slope m and intercept b of GetLinearRegressionOLS solve the normal
   equations of min sum (m x + b - y)^2:   m sum x^2 + b sum x = sum xy   and   m sum x + b n = sum y *)
Theorem ols_solves_normal_equations l : let s := fold_left s2_ingest l s2st0 in
  ~ ols_D s == 0 ->
  ols_m s * sumq (fun p => fst p * fst p) l + ols_b s * sumq fst l == sumq (fun p => fst p * snd p) l
  /\ ols_m s * sumq fst l + ols_b s * nq l == sumq snd l.
Proof.
  intros s HD. destruct (s2_sums_are_definitional l) as [En Ex Ey Ex2 Exy Ey2]. fold s in En, Ex, Ey, Ex2, Exy, Ey2.
  unfold ols_m, ols_b. unfold ols_D in *. unfold nq. rewrite <- En, <- Ex, <- Ey, <- Ex2, <- Exy.
  split; field; exact HD.
Qed.
(* and D is n times the centred sum of squares of x: the fit exists exactly when the x are not all equal *)
Theorem ols_D_is_n_cxx l : l <> [] -> ols_D (fold_left s2_ingest l s2st0) == nq l * cxx l.
Proof.
  intros Hne. destruct (s2_sums_are_definitional l) as [En Ex Ey Ex2 Exy Ey2]. pose proof (nq_pos l Hne) as Hn.
  unfold ols_D, cxx. rewrite centred_expand_xx. unfold meanx. rewrite En, Ex, Ex2. fold (nq l). field. exact Hn.
Qed.

(* r2: the streamed form (n sxy - sx sy)^2 / ((n sxx - sx^2)(n syy - sy^2)) = cxy^2 / (cxx cyy) *)
Theorem r2_stream_eq_def l : l <> [] -> let s := fold_left s2_ingest l s2st0 in
  r2_num s == nq l * nq l * (cxy l * cxy l) /\ r2_den s == nq l * nq l * (cxx l * cyy l).
Proof.
  intros Hne s. destruct (s2_sums_are_definitional l) as [En Ex Ey Ex2 Exy Ey2]. fold s in En, Ex, Ey, Ex2, Exy, Ey2.
  pose proof (nq_pos l Hne) as Hn.
  unfold r2_num, r2_den, cxy, cxx, cyy. rewrite centred_expand, centred_expand_xx, centred_expand_yy. unfold meanx, meany.
  rewrite En, Ex, Ey, Ex2, Exy, Ey2. fold (nq l). split; field; exact Hn.
Qed.
