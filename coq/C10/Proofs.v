(* C10 proofs, part 4: verb level.  Counts add up, records lacking a group-by field are skipped, count = group sizes,
   every stats1 cell is its accumulator run over exactly the group's values of that field. *)
From Miller Require Import C10.Model C10.Verbs C10.Spec C10.ProofsGroup C10.ProofsPctl C10.ProofsAcc.
From Coq Require Import Lia.
Open Scope char_scope.

(* ---------------------------------------------------------------- ordered map get/put *)
Section OMap2.
  Context {V : Type}.
  Lemma oget_oput k k' (v : V) m : oget k (oput k' v m) = if beqb k k' then Some v else oget k m.
  Proof.
    induction m as [|[k2 v2] m IH]; cbn [oput oget].
    - destruct (beqb k k'); reflexivity.
    - destruct (beqb_spec k' k2) as [->|Hne]; cbn [oget].
      + destruct (beqb k k2); reflexivity.
      + destruct (beqb_spec k k2) as [->|Hne2].
        * destruct (beqb_spec k2 k'); [congruence|reflexivity].
        * exact IH.
  Qed.

  (* a pass over a duplicate-free key list, each step rewriting (or leaving) its own key *)
  Definition ostep (h : bytes -> option V -> option V) (m : omap V) (k' : bytes) : omap V :=
    match h k' (oget k' m) with Some v => oput k' v m | None => m end.
  Lemma fold_oput_get (h : bytes -> option V -> option V) ks : NoDup ks -> forall m k,
    oget k (fold_left (ostep h) ks m)
    = if mem k ks then (match h k (oget k m) with Some v => Some v | None => oget k m end) else oget k m.
  Proof.
    induction ks as [|k0 ks IH]; intros Hnd m k; [reflexivity|].
    inversion Hnd as [|? ? Hni Hnd']; subst. cbn [fold_left]. rewrite IH by assumption. unfold ostep.
    change (mem k (k0 :: ks)) with (beqb k k0 || mem k ks).
    destruct (beqb_spec k k0) as [->|Hne]; cbn [orb].
    - destruct (mem k0 ks) eqn:M; [apply mem_In in M; contradiction|].
      destruct (h k0 (oget k0 m)); [|reflexivity]. rewrite oget_oput, beqb_refl. reflexivity.
    - assert (E : oget k (match h k0 (oget k0 m) with Some v => oput k0 v m | None => m end) = oget k m).
      { destruct (h k0 (oget k0 m)); [|reflexivity]. rewrite oget_oput. apply beqb_neq in Hne. now rewrite Hne. }
      rewrite E. reflexivity.
  Qed.
End OMap2.

(* ---------------------------------------------------------------- records lacking a group-by field *)
Lemma selected_none_iff gs r : selected gs r = None <-> exists g, In g gs /\ get g r = None.
Proof.
  induction gs as [|g gs IH]; cbn [selected].
  - split; [discriminate|intros (g & [] & _)].
  - destruct (get g r) eqn:E.
    + destruct (selected gs r) eqn:S.
      * split; [discriminate|]. intros (g' & [<-|Hin] & Hn); [congruence|].
        destruct IH as [_ IH2]. assert (X : Some l = None) by (apply IH2; eauto). discriminate.
      * split; [|reflexivity]. intros _. destruct IH as [IH1 _]. destruct (IH1 eq_refl) as (g' & Hin & Hn). exists g'. split; [now right|exact Hn].
    + split; [|reflexivity]. intros _. exists g. split; [now left|exact E].
Qed.

Lemma group_key_none_iff gs r : group_key gs r = None <-> exists g, In g gs /\ get g r = None.
Proof. unfold group_key. rewrite <- selected_none_iff. destruct (selected gs r); cbn; split; congruence. Qed.

Section Skip.
  Context {R S : Type} (key : R -> option bytes) (init : R -> S) (upd : S -> R -> S).
  (* records without a key leave the state untouched: the verb sees only the contributing records *)
  Lemma gfold_skips_keyless rs : gfold key init upd rs = gfold key init upd (filter (has_key key) rs).
  Proof.
    unfold gfold. generalize (@nil (bytes * S)). induction rs as [|r rs IH]; intros m; [reflexivity|].
    cbn [fold_left filter]. unfold has_key at 1, gstep at 2. destruct (key r) eqn:E.
    - cbn [fold_left]. unfold gstep at 3. rewrite E. apply IH.
    - apply IH.
  Qed.
End Skip.

(* ---------------------------------------------------------------- counts add up *)
Definition total (m : omap (list bytes * Z)) : Z := fold_right (fun e acc => (snd (snd e) + acc)%Z) 0%Z m.
Definition cnt_of (o : option (list bytes * Z)) : Z := match o with Some s => snd s | None => 0%Z end.

Lemma total_oput k v m : total (oput k v m) = (total m - cnt_of (oget k m) + snd v)%Z.
Proof.
  induction m as [|[k' v'] m IH]; cbn [oput oget total fold_right cnt_of].
  - cbn. lia.
  - destruct (beqb k k'); cbn [total fold_right fst snd cnt_of].
    + fold (total m). lia.
    + fold (total (oput k v m)). fold (total m). rewrite IH. lia.
Qed.

Theorem counts_add_up gs rs :
  total (count_groups gs rs) = Z.of_nat (List.length (filter (has_key (group_key gs)) rs)).
Proof.
  unfold count_groups, gfold.
  assert (G : forall m, total (fold_left (gstep (group_key gs)
                 (fun r => (match selected gs r with Some vs => vs | None => [] end, 0%Z))
                 (fun s _ => (fst s, (snd s + 1)%Z))) rs m)
              = (total m + Z.of_nat (List.length (filter (has_key (group_key gs)) rs)))%Z).
  { induction rs as [|r rs IH]; intros m; cbn [fold_left filter]; [cbn; lia|].
    rewrite IH. unfold gstep, has_key. destruct (group_key gs r) as [k|]; [|lia].
    rewrite total_oput. cbn [List.length]. destruct (oget k m) as [[vs c]|]; cbn [cnt_of fst snd]; lia. }
  rewrite G. cbn. lia.
Qed.

(* ---------------------------------------------------------------- count = group sizes in first-appearance order *)
Lemma count_fold (ms : list record) vs c :
  fold_left (fun (s : list bytes * Z) (_ : record) => (fst s, (snd s + 1)%Z)) ms (vs, c) = (vs, (c + Z.of_nat (List.length ms))%Z).
Proof.
  revert c; induction ms as [|r ms IH]; intros c; cbn [fold_left List.length]; [f_equal; lia|].
  cbn [fst snd]. rewrite IH. f_equal. lia.
Qed.

Theorem count_groups_def gs rs :
  map (fun e => (fst e, snd (snd e))) (count_groups gs rs)
  = map (fun k => (k, Z.of_nat (List.length (members (group_key gs) k rs)))) (first_keys (group_key gs) rs).
Proof.
  unfold count_groups. rewrite gfold_spec. unfold spec_groups.
  assert (H : forall k, In k (first_keys (group_key gs) rs) -> members (group_key gs) k rs <> []).
  { intros k Hin. apply mem_In in Hin. rewrite first_keys_mem in Hin. intros E. apply members_nil_iff in E. congruence. }
  induction (first_keys (group_key gs) rs) as [|k ks IH]; [reflexivity|].
  cbn [flat_map map]. rewrite map_app, IH by (intros; apply H; now right). f_equal.
  unfold entry_of, group_state. specialize (H k (or_introl eq_refl)).
  destruct (members (group_key gs) k rs) as [|r0 rest] eqn:E; [congruence|].
  rewrite count_fold. reflexivity.
Qed.

(* ---------------------------------------------------------------- stats1 cells *)
Definition values_of (f : bytes) (ms : list record) : list val :=
  flat_map (fun r => match get f r with Some v => [v] | None => [] end) ms.
Definition cell (accs : list accreq) (fs : list bytes) (ms : list record) (f : bytes) (a : accreq) : option accst :=
  match oget f (fold_left (fun l2 r => ingest_l2 accs fs r l2) ms []) with
  | Some l3 => oget (req_text a) l3
  | None => None
  end.
Definition dflt (o : option accst) : accst := match o with Some s => s | None => st0 end.

Lemma ingest_l3_get accs v l3 a : NoDup (map req_text accs) -> In a accs ->
  oget (req_text a) (ingest_l3 accs v l3) = Some (feed (fst a) (dflt (oget (req_text a) l3)) v).
Proof.
  intros Hnd Hin. unfold ingest_l3.
  (* view the pass as a pass over the texts *)
  assert (G : forall accs0 l, (forall b, In b accs0 -> In b accs) -> NoDup (map req_text accs0) ->
     fold_left (fun l3 a0 => oput (req_text a0) (feed (fst a0) (match oget (req_text a0) l3 with Some s => s | None => st0 end) v) l3) accs0 l
     = fold_left (ostep (fun t o => Some (feed (acc_of_text accs t) (dflt o) v))) (map req_text accs0) l).
  { induction accs0 as [|a0 rest IH]; intros l Hsub Hnd0; [reflexivity|]. cbn [fold_left map].
    inversion Hnd0; subst. rewrite IH; [|intros; apply Hsub; now right|assumption].
    f_equal. unfold ostep. unfold dflt. f_equal. f_equal.
    assert (Ha0 : In a0 accs) by (apply Hsub; now left).
    clear - Hnd Ha0. induction accs as [|b accs IHa]; [contradiction|]. cbn [acc_of_text].
    inversion Hnd as [|? ? Hni Hnd']; subst. destruct Ha0 as [->|Hin].
    - now rewrite beqb_refl.
    - destruct (beqb_spec (req_text b) (req_text a0)) as [E|_]; [|now apply IHa].
      exfalso. apply Hni. rewrite E. now apply in_map. }
  rewrite G by (auto). rewrite fold_oput_get by assumption.
  assert (M : mem (req_text a) (map req_text accs) = true) by (apply mem_In; now apply in_map). rewrite M.
  f_equal. f_equal.
  clear - Hnd Hin. induction accs as [|b accs IHa]; [contradiction|]. cbn [acc_of_text].
  inversion Hnd as [|? ? Hni Hnd']; subst. destruct Hin as [->|Hin].
  - now rewrite beqb_refl.
  - destruct (beqb_spec (req_text b) (req_text a)) as [E|_]; [|now apply IHa].
    exfalso. apply Hni. rewrite E. now apply in_map.
Qed.

Lemma ingest_l2_get accs fs r l2 f : NoDup fs ->
  oget f (ingest_l2 accs fs r l2)
  = if mem f fs then match get f r with
                     | Some v => Some (ingest_l3 accs v (match oget f l2 with Some l3 => l3 | None => [] end))
                     | None => oget f l2 end
    else oget f l2.
Proof.
  intros Hnd. unfold ingest_l2.
  assert (E : forall l, fold_left (fun l2 f0 => match get f0 r with
                                     | None => l2
                                     | Some v => oput f0 (ingest_l3 accs v (match oget f0 l2 with Some l3 => l3 | None => [] end)) l2
                                     end) fs l
              = fold_left (ostep (fun f0 o => match get f0 r with
                                     | Some v => Some (ingest_l3 accs v (match o with Some l3 => l3 | None => [] end))
                                     | None => None end)) fs l).
  { clear. induction fs as [|f0 fs IH]; intros l; [reflexivity|]. cbn [fold_left]. rewrite IH. f_equal.
    unfold ostep. destruct (get f0 r); reflexivity. }
  rewrite E, fold_oput_get by exact Hnd.
  destruct (mem f fs); [|reflexivity]. destruct (get f r); reflexivity.
Qed.

(* one more record: the cell ingests the record's value of f if there is one *)
Lemma cell_snoc accs fs ms r f a : NoDup fs -> NoDup (map req_text accs) -> In f fs -> In a accs ->
  cell accs fs (ms ++ [r]) f a
  = match get f r with
    | Some v => Some (feed (fst a) (dflt (cell accs fs ms f a)) v)
    | None => cell accs fs ms f a
    end.
Proof.
  intros Hf Ha Hinf Hina. unfold cell. rewrite fold_left_app. cbn [fold_left].
  set (l2 := fold_left (fun l2 r => ingest_l2 accs fs r l2) ms []).
  rewrite ingest_l2_get by assumption. apply mem_In in Hinf. rewrite Hinf.
  destruct (get f r) as [v|]; [|reflexivity].
  rewrite ingest_l3_get by assumption. destruct (oget f l2); reflexivity.
Qed.

(* THE link between the verb and the accumulators: after any list of records of one group, the accumulator state kept
   for (value field f, accumulator a) is that accumulator fed, in order, exactly the values of f carried by those records
   (records lacking f are left out of THIS accumulation only) *)
Theorem cell_is_accumulator_run accs fs ms f a : NoDup fs -> NoDup (map req_text accs) -> In f fs -> In a accs ->
  cell accs fs ms f a = match values_of f ms with
                        | [] => None
                        | vs => Some (fold_left (feed (fst a)) vs st0)
                        end.
Proof.
  intros Hf Ha Hinf Hina. induction ms as [|r ms IH] using rev_ind; [reflexivity|].
  rewrite cell_snoc by assumption. rewrite IH. unfold values_of. rewrite flat_map_app. cbn [flat_map]. rewrite app_nil_r.
  fold (values_of f ms). destruct (get f r) as [v|].
  - destruct (values_of f ms) as [|v0 vs0]; cbn [app dflt]; [reflexivity|].
    change (v0 :: vs0 ++ [v]) with ((v0 :: vs0) ++ [v]). rewrite fold_left_app. reflexivity.
  - rewrite app_nil_r. reflexivity.
Qed.

(* the per-group state of stats1 is the fold over the group's members (instance of gfold_spec) *)
Theorem stats1_groups_def accs fs gs rs :
  stats1_groups accs fs gs rs
  = spec_groups (group_key gs) (fun r => (match selected gs r with Some vs => vs | None => [] end, []))
                (fun s r => (fst s, ingest_l2 accs fs r (snd s))) rs.
Proof. unfold stats1_groups. apply gfold_spec. Qed.

Lemma stats1_group_fold accs fs (ms : list record) vs l2 :
  fold_left (fun (s : list bytes * level2) r => (fst s, ingest_l2 accs fs r (snd s))) ms (vs, l2)
  = (vs, fold_left (fun l2 r => ingest_l2 accs fs r l2) ms l2).
Proof. revert l2; induction ms as [|r ms IH]; intros l2; cbn [fold_left fst snd]; [reflexivity|apply IH]. Qed.

(* void values are not fed to any accumulator except null_count *)
Lemma feed_void a s : accname_eqb a ANullCount = false -> feed a s [] = s.
Proof. intros H. unfold feed. cbn [is_void]. now rewrite H. Qed.
Lemma feed_nonvoid a s v : v <> [] -> feed a s v = ingest a s v.
Proof. intros H. unfold feed. destruct v; [congruence|reflexivity]. Qed.
Lemma fold_feed_nonvoid a vs : accname_eqb a ANullCount = false -> forall s,
  fold_left (feed a) vs s = fold_left (ingest a) (filter (fun v => negb (is_void v)) vs) s.
Proof.
  intros H. induction vs as [|v vs IH]; intros s; [reflexivity|]. cbn [fold_left filter].
  destruct v as [|c v]; cbn [is_void negb].
  - rewrite feed_void by assumption. apply IH.
  - cbn [fold_left]. rewrite feed_nonvoid by discriminate. apply IH.
Qed.

(* ---------------------------------------------------------------- the grouping key and the exact texts *)
Lemma group_key_single g r : group_key [g] r = get g r.
Proof. unfold group_key. cbn [selected]. destruct (get g r); reflexivity. Qed.

Lemma group_key_collision :
  exists gs r1 r2, selected gs r1 <> selected gs r2 /\ group_key gs r1 = group_key gs r2 /\ group_key gs r1 <> None.
Proof.
  exists [B "a"; B "b"], [(B "a", B "x,y"); (B "b", B "z")], [(B "a", B "x"); (B "b", B "y,z")].
  vm_compute. repeat split; discriminate.
Qed.
