(* C10 proofs, part 11: closed forms and window invariants.
   A. step -a ewma: the stepper computes the recurrence, and the recurrence has the textbook closed form.
   B. stats1 -w n: the window kept for a group is exactly its last n contributing records; the accumulators are
      re-fed from exactly that window.
   C. interpolated percentiles: the value is the linear interpolation between the two bracketing order statistics.
   D. step -a shift_lead: the record window of a group holds exactly the records j..j+lead around the centre. *)
From Miller Require Import C10.Model C10.Verbs C10.Verbs2 C10.Spec C10.ProofsGroup C10.ProofsPctl C10.ProofsAcc
     C10.Proofs C10.ProofsStep.
From Coq Require Import Lqa Lia ZifyBool Sorted FinFun.
Open Scope char_scope.
Open Scope Q_scope.

(* ================================================================== A. EWMA *)
(* the recurrence of stepperEWMA.process: next = x * alpha + prev * (1 - alpha) *)
Definition ewma_rec (al x0 : Q) (xs : list Q) : Q := fold_left (fun prev x => x * al + prev * (1 - al)) xs x0.
(* sum_{j >= 0} al * (1-al)^(k+j) * rxs[j]   (rxs: newest first) *)
Fixpoint wsum (al : Q) (k : nat) (rxs : list Q) : Q :=
  match rxs with [] => 0 | x :: t => al * qpow (1 - al) k * x + wsum al (S k) t end.
(* (1-al)^n x0 + sum_{k=0}^{n-1} al (1-al)^k x_{n-k} *)
Definition ewma_closed (al x0 : Q) (xs : list Q) : Q := qpow (1 - al) (List.length xs) * x0 + wsum al 0 (rev xs).

Lemma wsum_shift al l : forall k, wsum al (S k) l == (1 - al) * wsum al k l.
Proof.
  induction l as [|x l IH]; intros k; cbn [wsum qpow]; [ring|]. rewrite (IH (S k)). ring.
Qed.

Theorem ewma_closed_form al x0 xs : ewma_rec al x0 xs == ewma_closed al x0 xs.
Proof.
  induction xs as [|x xs IH] using rev_ind.
  - unfold ewma_rec, ewma_closed. cbn [fold_left List.length rev wsum qpow]. ring.
  - unfold ewma_rec. rewrite fold_left_app. cbn [fold_left]. fold (ewma_rec al x0 xs). rewrite IH.
    unfold ewma_closed. rewrite rev_app_distr, app_length. cbn [rev app List.length wsum]. rewrite Nat.add_1_r.
    cbn [qpow]. rewrite wsum_shift. ring.
Qed.

(* the explicit sum: wsum al 0 l = sum_{j < |l|} al (1-al)^j l[j] *)
Lemma wsum_explicit al l : forall k,
  wsum al k l == Qsum_list (map (fun j => al * qpow (1 - al) (k + j) * nth j l 0) (seq 0 (List.length l))).
Proof.
  induction l as [|x l IH]; intros k; cbn [wsum List.length seq map]; [reflexivity|].
  rewrite Qsum_list_cons. rewrite <- seq_shift, map_map. rewrite (IH (S k)). cbn [nth]. rewrite Nat.add_0_r.
  apply Qplus_comp; [reflexivity|].
  assert (E : map (fun j : nat => al * qpow (1 - al) (S k + j) * nth j l 0) (seq 0 (List.length l))
            = map (fun x0 : nat => al * qpow (1 - al) (k + S x0) * nth (S x0) (x :: l) 0) (seq 0 (List.length l))).
  { apply map_ext. intros j. cbn [nth]. now rewrite Nat.add_succ_r. }
  rewrite E. reflexivity.
Qed.

(* the closed form written out: (1-al)^n x0 + sum_{k<n} al (1-al)^k x_{n-k}, where x_{n-k} = (rev xs)[k] *)
Theorem ewma_closed_explicit al x0 xs :
  ewma_rec al x0 xs
  == qpow (1 - al) (List.length xs) * x0
     + Qsum_list (map (fun k => al * qpow (1 - al) k * nth k (rev xs) 0) (seq 0 (List.length xs))).
Proof.
  rewrite ewma_closed_form. unfold ewma_closed. rewrite (wsum_explicit al (rev xs) 0), rev_length. reflexivity.
Qed.

(* the cell run that reads the ewma output field: the same loop as [step_cell], reading f_ewma_<sfx> *)
Definition ewma_key (f sfx : bytes) : bytes := (f ++ B "_ewma_" ++ sfx)%list.
Fixpoint ewma_cell (alphas : list (Q * bytes)) (name f sfx : bytes) (st : stst) (evs : list (option val)) : list (option oval) :=
  match evs with
  | [] => []
  | None :: t => None :: ewma_cell alphas name f sfx (sclear (SEwma alphas) st) t
  | Some v :: t =>
      let '(st', win') := sprocess (SEwma alphas) name f st [Some ([(f, v)], [])] in
      (match win' with Some c :: _ => oget (ewma_key f sfx) (snd c) | _ => None end) :: ewma_cell alphas name f sfx st' t
  end.

Lemma ewma_cell_app alphas name f sfx evs1 : forall st evs2,
  ewma_cell alphas name f sfx st (evs1 ++ evs2)
  = ewma_cell alphas name f sfx st evs1 ++ ewma_cell alphas name f sfx (step_state (SEwma alphas) name f st evs1) evs2.
Proof.
  induction evs1 as [|[v|] t IH]; intros st evs2; cbn [app ewma_cell step_state]; [reflexivity| |].
  - destruct (sprocess (SEwma alphas) name f st [Some ([(f, v)], [])]) as [st' win']. cbn [fst]. now rewrite IH.
  - now rewrite IH.
Qed.

(* the numbers the stepper ingests: present and numeric (absent fields and non-numeric texts leave the state alone) *)
Definition ewma_inputs (evs : list (option val)) : list nv :=
  flat_map (fun e => match e with Some v => match numof v with Some x => [x] | None => [] end | None => [] end) evs.
(* the previous value kept for one alpha: the first number as it is, then floats *)
Definition ewma_prev (al : Q) (x0 : nv) (rest : list nv) : nv :=
  match rest with [] => x0 | _ => F (ewma_rec al (qof x0) (map qof rest)) end.
Definition ewma_inv (alphas : list (Q * bytes)) (st : stst) (xs : list nv) : Prop :=
  match xs with
  | [] => sx_have st = false /\ sx_prevs st = []
  | x0 :: rest => sx_have st = true /\ sx_prevs st = map (fun ap => ewma_prev (fst ap) x0 rest) alphas
  end.

Lemma qof_ewma_prev al x0 rest : qof (ewma_prev al x0 rest) = ewma_rec al (qof x0) (map qof rest).
Proof. destruct rest; reflexivity. Qed.
Lemma ewma_prev_snoc al x0 rest x :
  F (qof x * al + qof (ewma_prev al x0 rest) * (1 - al)) = ewma_prev al x0 (rest ++ [x]).
Proof.
  rewrite qof_ewma_prev. unfold ewma_prev. destruct (rest ++ [x]) as [|y l] eqn:E; [destruct rest; discriminate|].
  rewrite <- E, map_app. unfold ewma_rec. rewrite fold_left_app. reflexivity.
Qed.
Lemma combine_map_self {A C} (h : A -> C) l : combine l (map h l) = map (fun a => (a, h a)) l.
Proof. induction l as [|a l IH]; cbn [map combine]; [reflexivity|now rewrite IH]. Qed.
Lemma fold_left_map' {A C D} (g : D -> C -> D) (h : A -> C) l : forall d,
  fold_left g (map h l) d = fold_left (fun d a => g d (h a)) l d.
Proof. induction l as [|a l IH]; intros d; cbn [map fold_left]; [reflexivity|apply IH]. Qed.

Lemma ewma_inv_step alphas name f st xs v : ewma_inv alphas st xs ->
  ewma_inv alphas (fst (sprocess (SEwma alphas) name f st [Some ([(f, v)], [])]))
           (xs ++ match numof v with Some x => [x] | None => [] end).
Proof.
  intros H. unfold sprocess. cbv zeta. cbn [fst snd]. rewrite get_single.
  destruct (numof v) as [x|]; [|rewrite app_nil_r; exact H].
  destruct xs as [|x0 rest]; cbn [ewma_inv] in H.
  - destruct H as [Hh _]. rewrite Hh. cbn [fst sx_have sx_prevs app ewma_inv]. split; reflexivity.
  - destruct H as [Hh Hp]. rewrite Hh, Hp. cbn [fst sx_have sx_prevs app ewma_inv]. split; [reflexivity|].
    rewrite combine_map_self, map_map. apply map_ext. intros [al sfx]. cbn [fst snd]. apply ewma_prev_snoc.
Qed.

Lemma ewma_state_inv alphas name f evs : forall st xs, ewma_inv alphas st xs ->
  ewma_inv alphas (step_state (SEwma alphas) name f st evs) (xs ++ ewma_inputs evs).
Proof.
  induction evs as [|[v|] t IH]; intros st xs H; cbn [step_state ewma_inputs flat_map].
  - now rewrite app_nil_r.
  - fold (ewma_inputs t). rewrite app_assoc. apply IH. now apply ewma_inv_step.
  - fold (ewma_inputs t). cbn [app sclear]. now apply IH.
Qed.

Section PutFold.
  Context {A : Type} (key : A -> bytes) (val : A -> oval).
  Lemma put_fold_other l : forall (c : wrec) k, ~ In k (map key l) ->
    oget k (snd (fold_left (fun c a => put_out (key a) (val a) c) l c)) = oget k (snd c).
  Proof.
    induction l as [|a l IH]; intros c k Hni; cbn [fold_left]; [reflexivity|].
    rewrite IH by (intros Hin; apply Hni; now right). unfold put_out. cbn [snd]. rewrite oget_oput.
    destruct (beqb_spec k (key a)) as [->|Hne]; [exfalso; apply Hni; now left|reflexivity].
  Qed.
  Lemma put_fold_get l : forall (c : wrec) a, NoDup (map key l) -> In a l ->
    oget (key a) (snd (fold_left (fun c a => put_out (key a) (val a) c) l c)) = Some (val a).
  Proof.
    induction l as [|b l IH]; intros c a Hnd Hin; [contradiction|].
    cbn [map] in Hnd. inversion Hnd as [|? ? Hni Hnd']; subst. cbn [fold_left]. destruct Hin as [->|Hin].
    - rewrite put_fold_other by assumption. unfold put_out. cbn [snd]. now rewrite oget_oput, beqb_refl.
    - now apply IH.
  Qed.
End PutFold.

Lemma ewma_keys_nodup f (alphas : list (Q * bytes)) : NoDup (map snd alphas) ->
  NoDup (map (fun a : Q * bytes => ewma_key f (snd a)) alphas).
Proof.
  intros Hnd. rewrite <- (map_map snd (ewma_key f)). apply Injective_map_NoDup; [|exact Hnd].
  intros s1 s2 E. unfold ewma_key in E. apply app_inv_head in E. now apply app_inv_head in E.
Qed.

Lemma ewma_out alphas name f sfx al st xs v x :
  NoDup (map snd alphas) -> In (al, sfx) alphas -> ewma_inv alphas st xs -> numof v = Some x ->
  (match snd (sprocess (SEwma alphas) name f st [Some ([(f, v)], [])]) with
   | Some c :: _ => oget (ewma_key f sfx) (snd c) | _ => None end)
  = Some (match xs with
          | [] => oval_of_val v
          | x0 :: rest => OFlt (ewma_rec al (qof x0) (map qof rest ++ [qof x]))
          end).
Proof.
  intros Hnd Hin Hinv Hx. unfold sprocess. cbv zeta. cbn [fst snd]. rewrite get_single, Hx.
  pose proof (ewma_keys_nodup f alphas Hnd) as Hk.
  destruct xs as [|x0 rest]; cbn [ewma_inv] in Hinv.
  - destruct Hinv as [Hh _]. rewrite Hh. cbn [snd set_center].
    exact (put_fold_get (fun a : Q * bytes => ewma_key f (snd a)) (fun _ => oval_of_val v) alphas _ (al, sfx) Hk Hin).
  - destruct Hinv as [Hh Hp]. rewrite Hh, Hp. cbn [snd set_center].
    rewrite (combine_map_self (fun ap : Q * bytes => ewma_prev (fst ap) x0 rest)), map_map. cbn [fst snd].
    rewrite combine_map_self, fold_left_map'. cbn [fst snd].
    etransitivity.
    + exact (put_fold_get (fun a : Q * bytes => ewma_key f (snd a))
               (fun a : Q * bytes => oval_of_nv (F (qof x * fst a + qof (ewma_prev (fst a) x0 rest) * (1 - fst a))))
               alphas _ (al, sfx) Hk Hin).
    + cbn [fst oval_of_nv]. rewrite qof_ewma_prev. unfold ewma_rec. rewrite fold_left_app. reflexivity.
Qed.

(* THE statement for ewma (any number of alphas with distinct suffixes, ANY history [pre] of the cell: records
   lacking the field and non-numeric texts are skipped): a record carrying the number x gets, in field
   f_ewma_<sfx>, its own value when it is the first number of the cell, and otherwise the recurrence run from the
   first number x0 over the later numbers, x included. *)
Theorem ewma_stepper_value alphas name f pre v x al sfx :
  NoDup (map snd alphas) -> In (al, sfx) alphas -> numof v = Some x ->
  ewma_cell alphas name f sfx (stst0 (SEwma alphas)) (pre ++ [Some v])
  = ewma_cell alphas name f sfx (stst0 (SEwma alphas)) pre
    ++ [Some (match ewma_inputs pre with
              | [] => oval_of_val v
              | x0 :: rest => OFlt (ewma_rec al (qof x0) (map qof rest ++ [qof x]))
              end)].
Proof.
  intros Hnd Hin Hx. rewrite ewma_cell_app. f_equal. cbn [ewma_cell].
  set (st := step_state (SEwma alphas) name f (stst0 (SEwma alphas)) pre).
  assert (Hinv : ewma_inv alphas st (ewma_inputs pre)).
  { unfold st. apply (ewma_state_inv alphas name f pre (stst0 (SEwma alphas)) []). split; reflexivity. }
  pose proof (ewma_out alphas name f sfx al st (ewma_inputs pre) v x Hnd Hin Hinv Hx) as Ho.
  destruct (sprocess (SEwma alphas) name f st [Some ([(f, v)], [])]) as [st' win']. cbn [snd] in Ho.
  now rewrite Ho.
Qed.

(* the state: after any history the previous values kept are, per alpha, the recurrence over the numbers seen *)
Theorem ewma_stepper_state alphas name f evs :
  sx_prevs (step_state (SEwma alphas) name f (stst0 (SEwma alphas)) evs)
  = match ewma_inputs evs with
    | [] => []
    | x0 :: rest => map (fun ap => ewma_prev (fst ap) x0 rest) alphas
    end
  /\ forall al x0 rest, ewma_inputs evs = x0 :: rest -> qof (ewma_prev al x0 rest) == ewma_closed al (qof x0) (map qof rest).
Proof.
  split.
  - pose proof (ewma_state_inv alphas name f evs (stst0 (SEwma alphas)) [] (conj eq_refl eq_refl)) as H. cbn [app] in H.
    destruct (ewma_inputs evs) as [|x0 rest]; cbn [ewma_inv] in H; exact (proj2 H).
  - intros al x0 rest _. rewrite qof_ewma_prev. apply ewma_closed_form.
Qed.

(* one alpha, the closed form: output value and stored state *)
Theorem ewma_single_closed al sfx name f pre v x x0 rest :
  numof v = Some x -> ewma_inputs pre = x0 :: rest ->
  exists q,
    ewma_cell [(al, sfx)] name f sfx (stst0 (SEwma [(al, sfx)])) (pre ++ [Some v])
    = ewma_cell [(al, sfx)] name f sfx (stst0 (SEwma [(al, sfx)])) pre ++ [Some (OFlt q)]
    /\ sx_prevs (step_state (SEwma [(al, sfx)]) name f (stst0 (SEwma [(al, sfx)])) (pre ++ [Some v])) = [F q]
    /\ q == ewma_closed al (qof x0) (map qof rest ++ [qof x]).
Proof.
  intros Hx Hpre. exists (ewma_rec al (qof x0) (map qof rest ++ [qof x])). split; [|split].
  - rewrite (ewma_stepper_value [(al, sfx)] name f pre v x al sfx); [now rewrite Hpre| |now left|exact Hx].
    cbn [map snd]. constructor; [intros []|constructor].
  - destruct (ewma_stepper_state [(al, sfx)] name f (pre ++ [Some v])) as [E _]. rewrite E.
    unfold ewma_inputs. rewrite flat_map_app. cbn [flat_map]. rewrite Hx. fold (ewma_inputs pre). rewrite Hpre.
    cbn [app map fst]. rewrite <- ewma_prev_snoc, qof_ewma_prev. unfold ewma_rec. now rewrite fold_left_app.
  - apply ewma_closed_form.
Qed.

(* any alphas: the value written for each alpha is the closed form for that alpha (each alpha is independent) *)
Theorem ewma_multi_closed alphas name f pre v x x0 rest al sfx :
  NoDup (map snd alphas) -> In (al, sfx) alphas -> numof v = Some x -> ewma_inputs pre = x0 :: rest ->
  exists q,
    ewma_cell alphas name f sfx (stst0 (SEwma alphas)) (pre ++ [Some v])
    = ewma_cell alphas name f sfx (stst0 (SEwma alphas)) pre ++ [Some (OFlt q)]
    /\ q == ewma_closed al (qof x0) (map qof rest ++ [qof x]).
Proof.
  intros Hnd Hin Hx Hpre. exists (ewma_rec al (qof x0) (map qof rest ++ [qof x])). split; [|apply ewma_closed_form].
  rewrite (ewma_stepper_value alphas name f pre v x al sfx Hnd Hin Hx). now rewrite Hpre.
Qed.

Example ewma_example :
  let alphas := [(1 # 10, B "0.1"); (9 # 10, B "0.9")] in
  let pre := [Some (B "1"); None; Some (B "abc"); Some (B "2.5")] in
  NoDup (map snd alphas) /\ In (9 # 10, B "0.9") alphas /\ numof (B "4") = Some (I 4)
  /\ ewma_inputs pre = [I 1; F (25 # 10)]
  /\ exists q, nth_error (ewma_cell alphas (B "ewma") (B "x") (B "0.9") (stst0 (SEwma alphas)) (pre ++ [Some (B "4")])) 4
               = Some (Some (OFlt q)) /\ Qeq_bool q (3835 # 1000) = true.
Proof.
  cbv zeta. split; [|split; [|split; [|split]]].
  - cbn [map snd]. constructor; [intros [E|[]]; discriminate E|constructor; [intros []|constructor]].
  - right. now left.
  - vm_compute. reflexivity.
  - vm_compute. reflexivity.
  - eexists. split; vm_compute; reflexivity.
Qed.

(* ================================================================== C. interpolated percentile value *)
Definition pf (p : Q) (l : list val) : Q := p / 100 * inject_Z (Z.of_nat (List.length l) - 1).
Definition pidx (p : Q) (l : list val) : Z := Qfloor (pf p l).
(* the number at (0-up) position j *)
Definition xq (l : list val) (j : Z) : Q :=
  match nthZ j l with Some v => match numof v with Some x => qof x | None => 0 end | None => 0 end.
Definition all_numeric (l : list val) : Prop := forall v, In v l -> numof v <> None.

Lemma pf_nonneg p l : 0 <= p -> l <> [] -> 0 <= pf p l.
Proof.
  intros Hp Hne. unfold pf. apply Qmult_le_0_compat.
  - apply Qle_shift_div_l; lra.
  - apply inject_Z_nonneg. destruct l; [congruence|]. cbn [List.length]. lia.
Qed.
Lemma pf_is_findex p l : 0 <= p -> l <> [] -> pctl_findex p (Z.of_nat (List.length l)) = pf p l.
Proof.
  intros Hp Hne. unfold pctl_findex. fold (pf p l). pose proof (pf_nonneg p l Hp Hne) as H.
  apply Qle_bool_iff in H. now rewrite H.
Qed.
Lemma nthZ_last {A} (l : list A) d : l <> [] -> nthZ (Z.of_nat (List.length l) - 1) l = Some (last l d).
Proof.
  intros Hne. destruct (exists_last Hne) as (l' & a & ->). rewrite last_last, app_length. cbn [List.length].
  unfold nthZ. destruct (Z.of_nat (List.length l' + 1) - 1 <? 0)%Z eqn:E; [lia|].
  replace (Z.to_nat (Z.of_nat (List.length l' + 1) - 1)) with (List.length l') by lia.
  rewrite nth_error_app2 by lia. now rewrite Nat.sub_diag.
Qed.
Lemma pidx_range p l : 0 <= p -> p <= 100 -> l <> [] -> (0 <= pidx p l <= Z.of_nat (List.length l) - 1)%Z.
Proof.
  intros H0 H1 Hne. assert (Hn : (0 < Z.of_nat (List.length l))%Z) by (destruct l; [congruence|cbn [List.length]; lia]).
  destruct (findex_bounds p _ H0 H1 Hn) as [Hlo Hhi]. rewrite pf_is_findex in Hlo, Hhi by assumption.
  unfold pidx. split.
  - change 0%Z with (Qfloor 0). now apply Qfloor_resp_le.
  - apply Qfloor_resp_le in Hhi. now rewrite Qfloor_Z in Hhi.
Qed.

(* THE statement: for 0 <= p <= 100 and non-empty all-numeric sorted data, with f = p/100*(n-1), i = floor f:
   at the top (i >= n-1) the value is the last element; otherwise it is x_i + (f - i) * (x_{i+1} - x_i), exactly *)
Theorem pctl_interp_value p sorted : 0 <= p -> p <= 100 -> sorted <> [] -> all_numeric sorted ->
  pctl_interp p sorted
  = if (Z.of_nat (List.length sorted) - 1 <=? pidx p sorted)%Z then oval_of_val (last sorted [])
    else OFlt (xq sorted (pidx p sorted)
               + (pf p sorted - inject_Z (pidx p sorted)) * (xq sorted (pidx p sorted + 1) - xq sorted (pidx p sorted))).
Proof.
  intros H0 H1 Hne Hnum. pose proof (pidx_range p sorted H0 H1 Hne) as Hr.
  unfold pctl_interp. cbv zeta. rewrite (pf_is_findex p sorted H0 Hne). fold (pidx p sorted).
  destruct (Z.of_nat (List.length sorted) - 1 <=? pidx p sorted)%Z eqn:E.
  - now rewrite (nthZ_last sorted [] Hne).
  - apply Z.leb_gt in E.
    destruct (nthZ_some sorted (pidx p sorted)) as [a Ha]; [lia|].
    destruct (nthZ_some sorted (pidx p sorted + 1)) as [b Hb]; [lia|].
    unfold xq. rewrite Ha, Hb.
    assert (Hina : In a sorted).
    { unfold nthZ in Ha. destruct (pidx p sorted <? 0)%Z; [discriminate|]. eapply nth_error_In; eassumption. }
    assert (Hinb : In b sorted).
    { unfold nthZ in Hb. destruct (pidx p sorted + 1 <? 0)%Z; [discriminate|]. eapply nth_error_In; eassumption. }
    pose proof (Hnum a Hina) as Na. pose proof (Hnum b Hinb) as Nb.
    destruct (numof a) as [x|]; [|congruence]. destruct (numof b) as [y|]; [|congruence]. reflexivity.
Qed.

Lemma sorted_adjacent {A} (R : A -> A -> Prop) l : LocallySorted R l ->
  forall j a b, nth_error l j = Some a -> nth_error l (S j) = Some b -> R a b.
Proof.
  intros Hs. induction Hs as [|a0|a0 b0 l0 Hs IH Hab]; intros j a b Ha Hb.
  - destruct j; discriminate.
  - destruct j as [|j]; cbn [nth_error] in Hb; [discriminate|destruct j; discriminate].
  - destruct j as [|j]; cbn [nth_error] in Ha, Hb.
    + injection Ha as <-. injection Hb as <-. exact Hab.
    + eapply IH; eassumption.
Qed.

(* bracketing: on sorted data the interpolated value lies between the two neighbouring order statistics *)
Theorem pctl_interp_bracket p sorted : 0 <= p -> p <= 100 -> sorted <> [] -> all_numeric sorted ->
  LocallySorted val_le sorted -> (pidx p sorted < Z.of_nat (List.length sorted) - 1)%Z ->
  let value := xq sorted (pidx p sorted)
               + (pf p sorted - inject_Z (pidx p sorted)) * (xq sorted (pidx p sorted + 1) - xq sorted (pidx p sorted)) in
  pctl_interp p sorted = OFlt value /\ xq sorted (pidx p sorted) <= value /\ value <= xq sorted (pidx p sorted + 1).
Proof.
  intros H0 H1 Hne Hnum Hs Hlt value. pose proof (pidx_range p sorted H0 H1 Hne) as Hr. split.
  - rewrite (pctl_interp_value p sorted H0 H1 Hne Hnum).
    destruct (Z.of_nat (List.length sorted) - 1 <=? pidx p sorted)%Z eqn:E; [lia|reflexivity].
  - subst value.
    destruct (nthZ_some sorted (pidx p sorted)) as [a Ha]; [lia|].
    destruct (nthZ_some sorted (pidx p sorted + 1)) as [b Hb]; [lia|].
    unfold xq. rewrite Ha, Hb. unfold nthZ in Ha, Hb.
    destruct (pidx p sorted <? 0)%Z eqn:E1; [lia|]. destruct (pidx p sorted + 1 <? 0)%Z eqn:E2; [lia|].
    replace (Z.to_nat (pidx p sorted + 1)) with (S (Z.to_nat (pidx p sorted))) in Hb by lia.
    pose proof (sorted_adjacent val_le sorted Hs _ a b Ha Hb) as Hab.
    pose proof (Hnum a (nth_error_In _ _ Ha)) as Na. pose proof (Hnum b (nth_error_In _ _ Hb)) as Nb.
    unfold val_le, val_lt in Hab.
    destruct (numof a) as [x|]; [|congruence]. destruct (numof b) as [y|]; [|congruence].
    apply negb_false_iff, Qle_bool_iff in Hab.
    pose proof (Qfloor_le (pf p sorted)) as Hfl. pose proof (Qlt_floor (pf p sorted)) as Hfu.
    fold (pidx p sorted) in Hfl, Hfu. rewrite inject_Z_plus in Hfu.
    set (t := pf p sorted - inject_Z (pidx p sorted)) in *. set (qx := qof x) in *. set (qy := qof y) in *.
    assert (Ht0 : 0 <= t) by (unfold t; lra).
    assert (Ht1 : 0 <= 1 - t) by (unfold t; change (inject_Z 1) with 1 in Hfu; lra).
    assert (Hd : 0 <= qy - qx) by lra.
    pose proof (Qmult_le_0_compat _ _ Ht0 Hd) as M1. pose proof (Qmult_le_0_compat _ _ Ht1 Hd) as M2.
    split; [lra|]. assert (E : qy - (qx + t * (qy - qx)) == (1 - t) * (qy - qx)) by ring. lra.
Qed.

Lemma oval_of_val_numeric v x : numof v = Some x -> oval_of_val v = oval_of_nv x.
Proof. unfold numof, oval_of_val. destruct (classify v); intros E; try discriminate; now inversion E. Qed.

(* p = 100: the last element, exactly *)
Theorem pctl_interp_100 sorted : sorted <> [] -> all_numeric sorted ->
  pctl_interp 100 sorted = oval_of_val (last sorted []).
Proof.
  intros Hne Hnum. rewrite (pctl_interp_value 100 sorted) by (assumption || lra).
  assert (Ef : pf 100 sorted == inject_Z (Z.of_nat (List.length sorted) - 1)) by (unfold pf; field).
  unfold pidx. rewrite Ef, Qfloor_Z, Z.leb_refl. reflexivity.
Qed.

(* p = 0: the value of the first element *)
Theorem pctl_interp_0 sorted : sorted <> [] -> all_numeric sorted ->
  exists q, oval_q (pctl_interp 0 sorted) = Some q /\ q == xq sorted 0.
Proof.
  intros Hne Hnum. rewrite (pctl_interp_value 0 sorted) by (assumption || lra).
  assert (Ef : pf 0 sorted == 0) by (unfold pf; field).
  assert (Ei : pidx 0 sorted = 0%Z) by (unfold pidx; rewrite Ef; reflexivity). rewrite Ei.
  destruct (Z.of_nat (List.length sorted) - 1 <=? 0)%Z eqn:E.
  - destruct sorted as [|v [|w l]]; [congruence| |cbn [List.length] in E; lia].
    cbn [last]. pose proof (Hnum v (or_introl eq_refl)) as Nv. destruct (numof v) as [x|] eqn:Hx; [|congruence].
    rewrite (oval_of_val_numeric v x Hx). exists (qof x). split; [destruct x; reflexivity|].
    unfold xq, nthZ. cbn [Z.ltb Z.compare Z.to_nat nth_error]. rewrite Hx. reflexivity.
  - eexists. split; [reflexivity|]. rewrite Ef. change (inject_Z 0) with 0. ring.
Qed.

Example pctl_interp_example :
  let sorted := [B "1"; B "2.5"; B "4"; B "10"] in
  0 <= 30 /\ 30 <= 100 /\ sorted <> [] /\ all_numeric sorted /\ LocallySorted val_le sorted
  /\ (pidx 30 sorted < Z.of_nat (List.length sorted) - 1)%Z
  /\ exists q, pctl_interp 30 sorted = OFlt q /\ Qeq_bool q (235 # 100) = true.
Proof.
  cbv zeta. split; [lra|]. split; [lra|]. split; [discriminate|]. split; [|split; [|split]].
  - intros v [<-|[<-|[<-|[<-|[]]]]]; vm_compute; discriminate.
  - repeat constructor.
  - vm_compute. reflexivity.
  - eexists. split; vm_compute; reflexivity.
Qed.

(* ================================================================== B. stats1 -w n: the sliding window *)
(* the effective window length: the code tests `n <= len(window)` before shifting, so -w 0 keeps one entry, as -w 1 *)
Definition wn (n : nat) : nat := Nat.max n 1.

Lemma wn_pos n : (1 <= n)%nat -> wn n = n.
Proof. unfold wn. lia. Qed.

Lemma tl_skipn {A} (l : list A) : forall k, tl (skipn k l) = skipn (S k) l.
Proof.
  induction l as [|x l IH]; intros k; [now destruct k|]. destruct k as [|k]; [reflexivity|]. exact (IH k).
Qed.

(* window eviction, one step: shift when full, then append *)
Lemma last_n_step {A} n (L : list A) e :
  (if (n <=? List.length (last_n (wn n) L))%nat then tl (last_n (wn n) L) else last_n (wn n) L) ++ [e]
  = last_n (wn n) (L ++ [e]).
Proof.
  unfold last_n, wn. rewrite app_length, skipn_length. cbn [List.length].
  destruct (le_lt_dec (Nat.max n 1) (List.length L)) as [Hle|Hlt].
  - replace (n <=? List.length L - (List.length L - Nat.max n 1))%nat with true by (symmetry; apply Nat.leb_le; lia).
    rewrite tl_skipn, skipn_app.
    replace (List.length L + 1 - Nat.max n 1 - List.length L)%nat with 0%nat by lia.
    replace (List.length L + 1 - Nat.max n 1)%nat with (S (List.length L - Nat.max n 1)) by lia. reflexivity.
  - replace (List.length L - Nat.max n 1)%nat with 0%nat by lia.
    replace (List.length L + 1 - Nat.max n 1)%nat with 0%nat by lia.
    change (skipn 0 L) with L. change (skipn 0 (L ++ [e])) with (L ++ [e]). rewrite Nat.sub_0_r.
    destruct (n <=? List.length L)%nat eqn:E; [|reflexivity].
    apply Nat.leb_le in E. assert (H0 : List.length L = 0%nat) by lia. destruct L; [reflexivity|discriminate].
Qed.
Lemma last_n_map {A C} (g : A -> C) n l : last_n n (map g l) = map g (last_n n l).
Proof. unfold last_n. now rewrite map_length, skipn_map. Qed.

Definition w_run (interp : bool) (accs : list accreq) (fs gs : list bytes) (n : nat) (rs : list record) :=
  w_groups (fold_left (stats1w_step interp accs fs gs n) rs (mkw [] [])).
Definition w_l2_of (o : option (list bytes * list record * level2)) : level2 :=
  match o with Some s => snd s | None => [] end.
Definition w_win_of (o : option (list bytes * list record * level2)) : list record :=
  match o with Some s => snd (fst s) | None => [] end.

Lemma w_run_snoc interp accs fs gs n rs r :
  w_run interp accs fs gs n (rs ++ [r])
  = match group_key gs r with
    | None => w_run interp accs fs gs n rs
    | Some k =>
        let o := oget k (w_run interp accs fs gs n rs) in
        let gv := match o with Some s => fst (fst s) | None => match selected gs r with Some vs => vs | None => [] end end in
        let win' := (if (n <=? List.length (w_win_of o))%nat then tl (w_win_of o) else w_win_of o) ++ [window_entry fs r] in
        oput k (gv, win', fold_left (fun l2 e => ingest_l2 accs fs e l2) win' (reset_l2 (w_l2_of o)))
             (w_run interp accs fs gs n rs)
    end.
Proof.
  unfold w_run. rewrite fold_left_app. cbn [fold_left].
  set (st := fold_left (stats1w_step interp accs fs gs n) rs (mkw [] [])).
  unfold stats1w_step. destruct (group_key gs r) as [k|]; [|reflexivity].
  destruct (oget k (w_groups st)) as [[[gv win] l2]|]; reflexivity.
Qed.

(* WINDOW EVICTION INVARIANT: over an arbitrary heterogeneous stream (other groups interleaved, records lacking a
   group-by field skipped), the window stored for key k is exactly the last (max n 1) window entries of the group's
   members, and the key has an entry iff the group has a member *)
Theorem stats1w_window_invariant interp accs fs gs n rs k :
  w_win_of (oget k (w_run interp accs fs gs n rs))
  = last_n (wn n) (map (window_entry fs) (members (group_key gs) k rs))
  /\ (oget k (w_run interp accs fs gs n rs) = None <-> members (group_key gs) k rs = []).
Proof.
  induction rs as [|r rs IH] using rev_ind.
  - split; [reflexivity|]. split; reflexivity.
  - destruct IH as [IHw IHn]. rewrite w_run_snoc, members_snoc. unfold keyb.
    destruct (group_key gs r) as [k'|] eqn:Hk.
    + cbv zeta. rewrite oget_oput. destruct (beqb_spec k k') as [<-|Hne].
      * cbn [w_win_of fst snd]. rewrite IHw, map_app. cbn [map]. split; [apply last_n_step|].
        split; [discriminate|]. intros E. destruct (members (group_key gs) k rs); discriminate E.
      * now rewrite app_nil_r.
    + now rewrite app_nil_r.
Qed.

(* the level-2 state stored after a record of group k: the previous maps reset, then re-fed from exactly the window *)
Theorem stats1w_l2_refed interp accs fs gs n rs r k : group_key gs r = Some k ->
  let win := last_n (wn n) (map (window_entry fs) (members (group_key gs) k (rs ++ [r]))) in
  w_win_of (oget k (w_run interp accs fs gs n (rs ++ [r]))) = win
  /\ w_l2_of (oget k (w_run interp accs fs gs n (rs ++ [r])))
     = fold_left (fun l2 e => ingest_l2 accs fs e l2) win (reset_l2 (w_l2_of (oget k (w_run interp accs fs gs n rs)))).
Proof.
  intros Hk win. split; [apply stats1w_window_invariant|].
  subst win. rewrite members_snoc. unfold keyb. rewrite Hk, beqb_refl, map_app. cbn [map].
  rewrite <- last_n_step. rewrite <- (proj1 (stats1w_window_invariant interp accs fs gs n rs k)).
  rewrite w_run_snoc, Hk. cbv zeta. rewrite oget_oput, beqb_refl. reflexivity.
Qed.

(* ---- accumulator states after re-feeding from a reset map *)
Definition cell_from (accs : list accreq) (fs : list bytes) (ms : list record) (l2 : level2) (f : bytes) (a : accreq) : option accst :=
  match oget f (fold_left (fun l2 r => ingest_l2 accs fs r l2) ms l2) with
  | Some l3 => oget (req_text a) l3
  | None => None
  end.
(* every accumulator state present is the initial state (what Reset leaves) *)
Definition all_reset (l2 : level2) : Prop := forall f l3 t s, oget f l2 = Some l3 -> oget t l3 = Some s -> s = st0.

Lemma reset_l3_get (l3 : level3) t s : oget t (map (fun ae : bytes * accst => (fst ae, st0)) l3) = Some s -> s = st0.
Proof.
  induction l3 as [|[t0 s0] l3 IH]; cbn [map oget fst]; [discriminate|].
  destruct (beqb t t0); [intros E; now inversion E|exact IH].
Qed.
Lemma reset_l2_all_reset l2 : all_reset (reset_l2 l2).
Proof.
  unfold all_reset, reset_l2. induction l2 as [|[f0 l0] l2 IH]; intros f l3 t s H1 H2; cbn [map oget fst snd] in H1; [discriminate|].
  destruct (beqb f f0).
  - inversion H1; subst. eapply reset_l3_get; eassumption.
  - eapply IH; eassumption.
Qed.

Lemma cell_from_snoc accs fs ms l2 r f a : NoDup fs -> NoDup (map req_text accs) -> In f fs -> In a accs ->
  cell_from accs fs (ms ++ [r]) l2 f a
  = match get f r with
    | Some v => Some (feed (fst a) (dflt (cell_from accs fs ms l2 f a)) v)
    | None => cell_from accs fs ms l2 f a
    end.
Proof.
  intros Hf Ha Hinf Hina. unfold cell_from. rewrite fold_left_app. cbn [fold_left].
  set (m := fold_left (fun l2 r => ingest_l2 accs fs r l2) ms l2).
  rewrite ingest_l2_get by assumption. apply mem_In in Hinf. rewrite Hinf.
  destruct (get f r) as [v|]; [|reflexivity].
  rewrite ingest_l3_get by assumption. destruct (oget f m); reflexivity.
Qed.

(* the variant of [cell_is_accumulator_run] that starts from a reset map: entries may exist, holding st0 *)
Theorem cell_from_reset_run accs fs ms l2 f a :
  NoDup fs -> NoDup (map req_text accs) -> In f fs -> In a accs -> all_reset l2 ->
  cell_from accs fs ms l2 f a
  = match values_of f ms with
    | [] => cell_from accs fs [] l2 f a
    | vs => Some (fold_left (feed (fst a)) vs st0)
    end
  /\ dflt (cell_from accs fs ms l2 f a) = fold_left (feed (fst a)) (values_of f ms) st0.
Proof.
  intros Hf Ha Hinf Hina Hres.
  assert (H0 : dflt (cell_from accs fs [] l2 f a) = st0).
  { unfold cell_from. cbn [fold_left]. destruct (oget f l2) as [l3|] eqn:E1; [|reflexivity].
    destruct (oget (req_text a) l3) as [s|] eqn:E2; [|reflexivity]. cbn [dflt]. eapply Hres; eassumption. }
  assert (G : cell_from accs fs ms l2 f a
              = match values_of f ms with
                | [] => cell_from accs fs [] l2 f a
                | vs => Some (fold_left (feed (fst a)) vs st0)
                end).
  { induction ms as [|r ms IH] using rev_ind; [reflexivity|].
    rewrite cell_from_snoc by assumption. rewrite IH. unfold values_of. rewrite flat_map_app. cbn [flat_map]. rewrite app_nil_r.
    fold (values_of f ms). destruct (get f r) as [v|].
    - destruct (values_of f ms) as [|v0 vs0]; cbn [app].
      + rewrite H0. reflexivity.
      + cbn [dflt]. change (v0 :: vs0 ++ [v]) with ((v0 :: vs0) ++ [v]). rewrite fold_left_app. reflexivity.
    - rewrite app_nil_r. reflexivity. }
  split; [exact G|]. rewrite G. destruct (values_of f ms); [exact H0|reflexivity].
Qed.

Lemma get_window_entry fs r f : get f (window_entry fs r) = if mem f fs then get f r else None.
Proof.
  unfold window_entry. induction fs as [|f0 fs IH]; [reflexivity|]. cbn [flat_map].
  change (mem f (f0 :: fs)) with (beqb f f0 || mem f fs).
  destruct (get f0 r) as [v|] eqn:E; cbn [app get].
  - destruct (beqb_spec f f0) as [->|Hne]; cbn [orb]; [now rewrite E|exact IH].
  - rewrite IH. destruct (beqb_spec f f0) as [->|Hne]; cbn [orb]; [|reflexivity]. rewrite E. now destruct (mem f0 fs).
Qed.
Lemma values_of_window_entries fs f ms : In f fs -> values_of f (map (window_entry fs) ms) = values_of f ms.
Proof.
  intros Hin. apply mem_In in Hin. unfold values_of. induction ms as [|r ms IH]; [reflexivity|].
  cbn [map flat_map]. rewrite IH, get_window_entry, Hin. reflexivity.
Qed.

(* THE statement for the windowed accumulators: after a record r of group k, the state held for (value field f,
   accumulator a) -- the one [emit_l2] turns into the statistic appended to r -- is the accumulator fed, in order,
   exactly the values of f carried by the last (max n 1) members of the group, r included *)
Theorem stats1w_cell_is_window_run interp accs fs gs n rs r k f a :
  NoDup fs -> NoDup (map req_text accs) -> In f fs -> In a accs -> group_key gs r = Some k ->
  let l2' := w_l2_of (oget k (w_run interp accs fs gs n (rs ++ [r]))) in
  let vs := values_of f (last_n (wn n) (members (group_key gs) k (rs ++ [r]))) in
  dflt (match oget f l2' with Some l3 => oget (req_text a) l3 | None => None end) = fold_left (feed (fst a)) vs st0
  /\ (vs <> [] -> exists l3, oget f l2' = Some l3 /\ oget (req_text a) l3 = Some (fold_left (feed (fst a)) vs st0)).
Proof.
  intros Hf Ha Hinf Hina Hk l2' vs.
  destruct (stats1w_l2_refed interp accs fs gs n rs r k Hk) as [_ El2]. cbv zeta in El2.
  set (win := last_n (wn n) (map (window_entry fs) (members (group_key gs) k (rs ++ [r])))) in El2.
  set (prev := reset_l2 (w_l2_of (oget k (w_run interp accs fs gs n rs)))) in El2.
  assert (Evs : values_of f win = vs).
  { unfold win, vs. rewrite last_n_map. now apply values_of_window_entries. }
  destruct (cell_from_reset_run accs fs win prev f a Hf Ha Hinf Hina (reset_l2_all_reset _)) as [G D].
  unfold cell_from in G, D. fold l2' in El2. rewrite <- El2 in G, D. rewrite Evs in G, D. split; [exact D|].
  intros Hne. destruct vs as [|v0 vs0]; [congruence|].
  destruct (oget f l2') as [l3|]; [|discriminate G]. exists l3. split; [reflexivity|exact G].
Qed.

Example stats1w_example :
  let fs := [B "x"; B "y"] in let gs := [B "g"] in let accs := [(ASum, B "sum"); (ACount, B "count")] in
  let rs := [[(B "g", B "a"); (B "x", B "1")]; [(B "g", B "b"); (B "x", B "7")]; [(B "x", B "9")];
             [(B "g", B "a"); (B "y", B "5")]; [(B "g", B "a"); (B "x", B "3"); (B "y", B "2")]] in
  let r := [(B "g", B "a"); (B "x", B "4")] in
  NoDup fs /\ NoDup (map req_text accs) /\ In (B "x") fs /\ In (ASum, B "sum") accs /\ group_key gs r = Some (B "a")
  /\ values_of (B "x") (last_n (wn 2) (members (group_key gs) (B "a") (rs ++ [r]))) = [B "3"; B "4"]
  /\ w_win_of (oget (B "a") (w_run false accs fs gs 2 (rs ++ [r]))) = [[(B "x", B "3"); (B "y", B "2")]; [(B "x", B "4")]].
Proof.
  cbv zeta. split; [|split; [|split; [|split; [|split; [|split]]]]].
  - apply nodupb_NoDup. vm_compute. reflexivity.
  - apply nodupb_NoDup. vm_compute. reflexivity.
  - now left.
  - now left.
  - vm_compute. reflexivity.
  - vm_compute. reflexivity.
  - vm_compute. reflexivity.
Qed.

(* the record emitted for r carries exactly the statistics of that level-2 state *)
Theorem stats1w_emitted interp accs fs gs n rs r k : group_key gs r = Some k ->
  exists gv,
    oget k (w_run interp accs fs gs n (rs ++ [r]))
    = Some (gv, w_win_of (oget k (w_run interp accs fs gs n (rs ++ [r]))), w_l2_of (oget k (w_run interp accs fs gs n (rs ++ [r]))))
    /\ verb_stats1_w interp accs fs gs n (rs ++ [r])
       = verb_stats1_w interp accs fs gs n rs
         ++ [put_all (group_fields gs gv ++ emit_l2 interp accs (w_l2_of (oget k (w_run interp accs fs gs n (rs ++ [r]))))) (otext_rec r)].
Proof.
  intros Hk. unfold verb_stats1_w, w_run. rewrite fold_left_app. cbn [fold_left].
  set (st := fold_left (stats1w_step interp accs fs gs n) rs (mkw [] [])).
  unfold stats1w_step. rewrite Hk.
  destruct (oget k (w_groups st)) as [[[gv win] l2]|]; cbn [w_groups w_out]; rewrite oget_oput, beqb_refl;
    cbn [w_win_of w_l2_of fst snd]; eexists; split; reflexivity.
Qed.

(* ================================================================== D. step -a shift_lead: the record window *)
(* the input records in a window (the outputs under construction projected away) *)
Definition wkeys (win : list (option wrec)) : list (option record) := map (option_map fst) win.

Lemma fold_keeps_fst {A} (g : wrec -> A -> wrec) l : (forall c a, fst (g c a) = fst c) ->
  forall c, fst (fold_left g l c) = fst c.
Proof. intros Hg. induction l as [|a l IH]; intros c; cbn [fold_left]; [reflexivity|]. now rewrite IH. Qed.

(* a stepper only edits the output part of the window centre *)
Lemma sprocess_keys sp name f st win : wkeys (snd (sprocess sp name f st win)) = wkeys win.
Proof.
  destruct win as [|[c|] t]; [reflexivity| |reflexivity].
  assert (SC : forall c', fst c' = fst c -> wkeys (set_center (Some c :: t) c') = wkeys (Some c :: t)).
  { intros c' E. cbn [set_center wkeys map option_map]. now rewrite E. }
  unfold sprocess. cbv zeta.
  destruct sp; cbv beta iota;
    repeat (match goal with
            | |- context [match ?x with _ => _ end] => destruct x; cbv beta iota
            end);
    cbn [snd]; try reflexivity; try (apply SC; reflexivity); apply SC; apply fold_keeps_fst; intros; reflexivity.
Qed.

Lemma sdispatch_inner_keys sps f : forall (m : omap stst) win,
  wkeys (snd (fold_left (fun (acc : omap stst * list (option wrec)) sp =>
                           let '(m, win) := acc in
                           let st := match oget (snd sp) m with Some st => st | None => stst0 (fst sp) end in
                           let '(st', win') := sprocess (fst sp) (snd sp) f st win in
                           (oput (snd sp) st' m, win')) sps (m, win)))
  = wkeys win.
Proof.
  induction sps as [|sp sps IH]; intros m win; cbn [fold_left]; [reflexivity|].
  pose proof (sprocess_keys (fst sp) (snd sp) f (match oget (snd sp) m with Some st => st | None => stst0 (fst sp) end) win) as Hp.
  destruct (sprocess (fst sp) (snd sp) f (match oget (snd sp) m with Some st => st | None => stst0 (fst sp) end) win) as [st' win'].
  cbn [snd] in Hp. rewrite IH. exact Hp.
Qed.

Lemma sdispatch_keys sps fs dr : forall g, wkeys (sg_win (sdispatch sps fs dr g)) = wkeys (sg_win g).
Proof.
  unfold sdispatch. induction fs as [|f fs IH]; intros g; cbn [fold_left]; [reflexivity|]. rewrite IH.
  destruct (get f dr) as [v|].
  - pose proof (sdispatch_inner_keys sps f (match oget f (sg_st g) with Some m => m | None => [] end) (sg_win g)) as Hi.
    match goal with H : wkeys (snd ?X) = _ |- _ => destruct X as [m' win'] end. cbn [snd] in Hi. exact Hi.
  - destruct (oget f (sg_st g)); reflexivity.
Qed.
Lemma sdispatch_length sps fs dr g : List.length (sg_win (sdispatch sps fs dr g)) = List.length (sg_win g).
Proof.
  pose proof (sdispatch_keys sps fs dr g) as H. apply (f_equal (@List.length _)) in H. unfold wkeys in H.
  now rewrite !map_length in H.
Qed.

Definition s_run (sps : list stepreq) (fs gs : list bytes) (lead : nat) (rs : list record) : omap sgroup :=
  s_groups (fold_left (step_record sps fs gs lead) rs (mkst_ [] [] [])).

Lemma s_run_snoc sps fs gs lead rs r :
  s_run sps fs gs lead (rs ++ [r])
  = match group_key gs r with
    | None => s_run sps fs gs lead rs
    | Some k =>
        let g := match oget k (s_run sps fs gs lead rs) with Some g => g | None => mksg (repeat None (S lead)) [] end in
        oput k (sdispatch sps fs r (mksg (tl (sg_win g) ++ [Some (r, otext_rec r)]) (sg_st g))) (s_run sps fs gs lead rs)
    end.
Proof.
  unfold s_run. rewrite fold_left_app. cbn [fold_left]. unfold step_record.
  destruct (group_key gs r); reflexivity.
Qed.

Lemma last_n_full_step {A} n (L : list A) e : (1 <= n <= List.length L)%nat ->
  tl (last_n n L) ++ [e] = last_n n (L ++ [e]).
Proof.
  intros Hn. pose proof (last_n_step n L e) as H. replace (wn n) with n in H by (unfold wn; lia).
  replace (n <=? List.length (last_n n L))%nat with true in H; [exact H|].
  symmetry. apply Nat.leb_le. unfold last_n. rewrite skipn_length. lia.
Qed.
Lemma map_tl' {A C} (g : A -> C) l : map g (tl l) = tl (map g l).
Proof. now destruct l. Qed.
Lemma map_repeat' {A C} (g : A -> C) x n : map g (repeat x n) = repeat (g x) n.
Proof. induction n as [|n IH]; cbn [repeat map]; [reflexivity|now rewrite IH]. Qed.

Lemma wkeys_shift w r o : wkeys (tl w ++ [Some (r, o)]) = tl (wkeys w) ++ [Some r].
Proof. unfold wkeys. now rewrite map_app, map_tl'. Qed.

Definition padded (lead : nat) (ms : list record) : list (option record) := repeat None (S lead) ++ map Some ms.

(* WINDOW INVARIANT of step: over an arbitrary stream, the record window kept for group k holds exactly the last
   (lead+1) of: lead+1 empty slots followed by the group's members -- i.e. the members j..j+lead around the centre *)
Theorem step_window_invariant sps fs gs lead rs k :
  match oget k (s_run sps fs gs lead rs) with
  | Some g => wkeys (sg_win g) = last_n (S lead) (padded lead (members (group_key gs) k rs))
              /\ members (group_key gs) k rs <> []
  | None => members (group_key gs) k rs = []
  end.
Proof.
  induction rs as [|r rs IH] using rev_ind; [reflexivity|].
  rewrite s_run_snoc, members_snoc. unfold keyb. destruct (group_key gs r) as [k'|] eqn:Hk.
  - cbv zeta. rewrite oget_oput. destruct (beqb_spec k k') as [<-|Hne]; [|now rewrite app_nil_r].
    rewrite sdispatch_keys. cbn [sg_win]. split; [|intros E; destruct (members (group_key gs) k rs); discriminate E].
    rewrite wkeys_shift.
    assert (E : wkeys (sg_win (match oget k (s_run sps fs gs lead rs) with Some g => g | None => mksg (repeat None (S lead)) [] end))
                = last_n (S lead) (padded lead (members (group_key gs) k rs))).
    { destruct (oget k (s_run sps fs gs lead rs)) as [g|]; [exact (proj1 IH)|].
      rewrite IH. cbn [sg_win]. unfold wkeys, padded. rewrite map_repeat'. cbn [map option_map]. rewrite app_nil_r.
      unfold last_n. rewrite repeat_length, Nat.sub_diag. reflexivity. }
    rewrite E. unfold padded. rewrite map_app, app_assoc. cbn [map]. apply last_n_full_step.
    rewrite app_length, repeat_length. lia.
  - now rewrite app_nil_r.
Qed.

(* reading the invariant: position j of the window (0 = centre) is the group's member number |ms| + j - (lead+1),
   when that exists *)
Lemma nth_skipn' {A} (d : A) : forall m j l, nth j (skipn m l) d = nth (m + j) l d.
Proof.
  induction m as [|m IH]; intros j l; [reflexivity|]. destruct l as [|x l]; [now destruct j|]. exact (IH j l).
Qed.
Lemma nth_repeat_none {A} n j : nth j (repeat (@None A) n) None = None.
Proof. revert j; induction n as [|n IH]; intros [|j]; cbn [repeat nth]; auto. Qed.
Lemma nth_map_some {A} (l : list A) : forall j, nth j (map Some l) None = nth_error l j.
Proof. induction l as [|x l IH]; intros [|j]; cbn [map nth nth_error]; auto. Qed.

Theorem step_window_slot lead (ms : list record) j :
  nth j (last_n (S lead) (padded lead ms)) None
  = if (S lead <=? List.length ms + j)%nat then nth_error ms (List.length ms + j - S lead) else None.
Proof.
  unfold last_n, padded. rewrite nth_skipn', app_length, repeat_length, map_length.
  replace (S lead + List.length ms - S lead + j)%nat with (List.length ms + j)%nat by lia.
  destruct (S lead <=? List.length ms + j)%nat eqn:E.
  - apply Nat.leb_le in E. rewrite app_nth2 by (rewrite repeat_length; lia). rewrite repeat_length. apply nth_map_some.
  - apply Nat.leb_gt in E. rewrite app_nth1 by (rewrite repeat_length; lia). apply nth_repeat_none.
Qed.

(* shift_lead_n acts on the centre: it writes the text of field f of the record n places ahead in the window, the
   empty text when there is no such record, and nothing when that record lacks f *)
Theorem shift_lead_writes n name f st c t :
  sprocess (SShiftLead n) name f st (Some c :: t)
  = (st, match nth n (Some c :: t) None with
         | None => Some (put_out (out_name f name) (OText []) c) :: t
         | Some nx => match get f (fst nx) with
                      | Some v => Some (put_out (out_name f name) (OText v) c) :: t
                      | None => Some c :: t
                      end
         end).
Proof.
  unfold sprocess. cbv zeta. destruct (nth n (Some c :: t) None) as [nx|]; [destruct (get f (fst nx))|]; reflexivity.
Qed.

Theorem shift_lead_value n name f st c t :
  exists c', snd (sprocess (SShiftLead n) name f st (Some c :: t)) = Some c' :: t /\ fst c' = fst c
    /\ match nth n (wkeys (Some c :: t)) None with
       | None => oget (out_name f name) (snd c') = Some (OText [])
       | Some r' => match get f r' with
                    | Some v => oget (out_name f name) (snd c') = Some (OText v)
                    | None => c' = c
                    end
       end.
Proof.
  rewrite shift_lead_writes. cbn [snd].
  assert (E : nth n (wkeys (Some c :: t)) None = option_map fst (nth n (Some c :: t) None)).
  { unfold wkeys. change (@None record) with (option_map (@fst record orec) None). now rewrite map_nth. }
  rewrite E. clear E.
  destruct (nth n (Some c :: t) None) as [nx|]; cbn [option_map].
  - destruct (get f (fst nx)) as [v|]; eexists; (split; [reflexivity|split; [reflexivity|]]); [|reflexivity].
    unfold put_out. cbn [snd]. now rewrite oget_oput, beqb_refl.
  - eexists. split; [reflexivity|split; [reflexivity|]]. unfold put_out. cbn [snd]. now rewrite oget_oput, beqb_refl.
Qed.

(* invariant + stepper: with the window of a group whose members so far are ms, shift_lead_n writes into the centre
   (member number |ms| - (lead+1)) the text of field f of member number |ms| + n - (lead+1) -- the record n places
   after the centre -- or the empty text when the group has no such member (yet) *)
Theorem shift_lead_reads_ahead lead n name f st c t (ms : list record) :
  wkeys (Some c :: t) = last_n (S lead) (padded lead ms) ->
  exists c', snd (sprocess (SShiftLead n) name f st (Some c :: t)) = Some c' :: t /\ fst c' = fst c
    /\ Some (fst c) = (if (S lead <=? List.length ms + 0)%nat then nth_error ms (List.length ms + 0 - S lead) else None)
    /\ match (if (S lead <=? List.length ms + n)%nat then nth_error ms (List.length ms + n - S lead) else None) with
       | None => oget (out_name f name) (snd c') = Some (OText [])
       | Some r' => match get f r' with
                    | Some v => oget (out_name f name) (snd c') = Some (OText v)
                    | None => c' = c
                    end
       end.
Proof.
  intros Hw. destruct (shift_lead_value n name f st c t) as (c' & E1 & E2 & E3).
  exists c'. split; [exact E1|]. split; [exact E2|]. split.
  - rewrite <- step_window_slot, <- Hw. reflexivity.
  - rewrite <- step_window_slot, <- Hw. exact E3.
Qed.

Example step_window_example :
  let sps := [(SShiftLead 2, B "shift_lead_2"); (SCounter, B "counter")] in
  let rs := [[(B "g", B "a"); (B "x", B "1")]; [(B "g", B "b"); (B "x", B "7")]; [(B "x", B "9")];
             [(B "g", B "a"); (B "x", B "2")]; [(B "g", B "a"); (B "y", B "5")]; [(B "g", B "a"); (B "x", B "4")]] in
  option_map (fun g => wkeys (sg_win g)) (oget (B "a") (s_run sps [B "x"] [B "g"] 2 rs))
  = Some [Some [(B "g", B "a"); (B "x", B "2")]; Some [(B "g", B "a"); (B "y", B "5")]; Some [(B "g", B "a"); (B "x", B "4")]]
  /\ last_n 3 (padded 2 (members (group_key [B "g"]) (B "a") rs))
     = [Some [(B "g", B "a"); (B "x", B "2")]; Some [(B "g", B "a"); (B "y", B "5")]; Some [(B "g", B "a"); (B "x", B "4")]].
Proof. cbv zeta. split; vm_compute; reflexivity. Qed.

Example shift_lead_reads_ahead_example :
  let ms := [[(B "x", B "1")]; [(B "x", B "2")]; [(B "y", B "5")]; [(B "x", B "4")]] in
  let win := [Some ([(B "x", B "2")], []); Some ([(B "y", B "5")], []); Some ([(B "x", B "4")], [])] in
  wkeys win = last_n 3 (padded 2 ms)
  /\ snd (sprocess (SShiftLead 2) (B "shift_lead_2") (B "x") (stst0 (SShiftLead 2)) win)
     = Some ([(B "x", B "2")], [(B "x_shift_lead_2", OText (B "4"))]) :: tl win.
Proof. cbv zeta. split; vm_compute; reflexivity. Qed.

Print Assumptions ewma_closed_form.
Print Assumptions ewma_closed_explicit.
Print Assumptions ewma_stepper_value.
Print Assumptions ewma_stepper_state.
Print Assumptions ewma_single_closed.
Print Assumptions ewma_multi_closed.
Print Assumptions pctl_interp_value.
Print Assumptions pctl_interp_bracket.
Print Assumptions pctl_interp_100.
Print Assumptions pctl_interp_0.
Print Assumptions stats1w_window_invariant.
Print Assumptions stats1w_l2_refed.
Print Assumptions cell_from_reset_run.
Print Assumptions stats1w_cell_is_window_run.
Print Assumptions stats1w_emitted.
Print Assumptions sdispatch_keys.
Print Assumptions step_window_invariant.
Print Assumptions step_window_slot.
Print Assumptions shift_lead_writes.
Print Assumptions shift_lead_value.
Print Assumptions shift_lead_reads_ahead.
