(* C10 property theorems.  Only statements closed by [exact]; each followed by Print Assumptions.
   All are about the definitions Harness.v evaluates against the implementation (Model.v, Verbs.v). *)
From Miller Require Import C10.Model C10.Verbs C10.Spec C10.ProofsGroup C10.ProofsPctl C10.ProofsAcc C10.Proofs C10.ProofsMode C10.ProofsMinMax C10.Verbs2 C10.ProofsFrac C10.ProofsStep.
From Coq Require Import Permutation.
Open Scope char_scope.

(* ---- grouping: the streaming ordered-map bookkeeping IS the partition of the contributing records into groups,
        groups in first-appearance order, each group state = fold over its members in arrival order (any verb) *)
Theorem C10_grouped_fold_equals_partition :
  forall (R S : Type) (key : R -> option bytes) (init : R -> S) (upd : S -> R -> S) (rs : list R),
    gfold key init upd rs = spec_groups key init upd rs.
Proof. exact (@gfold_spec). Qed.
Print Assumptions C10_grouped_fold_equals_partition.

Theorem C10_groups_in_first_appearance_order :
  forall gs rs, okeys (count_groups gs rs) = first_keys (group_key gs) rs /\ NoDup (first_keys (group_key gs) rs).
Proof.
  exact (fun gs rs => conj (eq_trans (f_equal okeys (gfold_spec _ _ _ rs)) (okeys_spec_groups _ _ _ rs)) (first_keys_nodup _ rs)).
Qed.
Print Assumptions C10_groups_in_first_appearance_order.

(* count -g: one entry per group, the number of its members *)
Theorem C10_count_equals_group_sizes :
  forall gs rs,
    map (fun e => (fst e, snd (snd e))) (count_groups gs rs)
    = map (fun k => (k, Z.of_nat (List.length (members (group_key gs) k rs)))) (first_keys (group_key gs) rs).
Proof. exact count_groups_def. Qed.
Print Assumptions C10_count_equals_group_sizes.

(* counts over all groups add up to the number of contributing records *)
Theorem C10_counts_add_up :
  forall gs rs, total (count_groups gs rs) = Z.of_nat (List.length (filter (has_key (group_key gs)) rs)).
Proof. exact counts_add_up. Qed.
Print Assumptions C10_counts_add_up.

(* a record has no grouping key exactly when it lacks one of the group-by fields, and such records change nothing *)
Theorem C10_record_lacking_group_field_is_skipped :
  forall gs, (forall r, group_key gs r = None <-> exists g, In g gs /\ get g r = None)
  /\ forall (S : Type) (init : record -> S) upd rs,
       gfold (group_key gs) init upd rs = gfold (group_key gs) init upd (filter (has_key (group_key gs)) rs).
Proof. exact (fun gs => conj (group_key_none_iff gs) (fun S init upd rs => gfold_skips_keyless (group_key gs) init upd rs)). Qed.
Print Assumptions C10_record_lacking_group_field_is_skipped.

(* groups are formed by the exact text: true for one group-by field ... *)
Theorem C10_group_key_exact_text_partial : forall g r, group_key [g] r = get g r.
Proof. exact group_key_single. Qed.
Print Assumptions C10_group_key_exact_text_partial.
(* ... but FALSE for several fields: the code joins the texts with "," so (x,y | z) and (x | y,z) share a group *)
Theorem C10_group_key_exact_text_refuted :
  exists gs r1 r2, selected gs r1 <> selected gs r2 /\ group_key gs r1 = group_key gs r2 /\ group_key gs r1 <> None.
Proof. exact group_key_collision. Qed.
Print Assumptions C10_group_key_exact_text_refuted.

(* stats1: the state kept for (group, value field f, accumulator a) is accumulator a fed exactly the values of f
   carried by the group's records, in order; a record lacking f is left out of that accumulation only *)
Theorem C10_stats1_groups_are_the_partition :
  forall accs fs gs rs,
    stats1_groups accs fs gs rs
    = spec_groups (group_key gs) (fun r => (match selected gs r with Some vs => vs | None => [] end, []))
                  (fun s r => (fst s, ingest_l2 accs fs r (snd s))) rs.
Proof. exact stats1_groups_def. Qed.
Print Assumptions C10_stats1_groups_are_the_partition.

Theorem C10_stats1_cell_is_accumulator_run :
  forall accs fs ms f a, NoDup fs -> NoDup (map req_text accs) -> In f fs -> In a accs ->
    cell accs fs ms f a = match values_of f ms with [] => None | vs => Some (fold_left (feed (fst a)) vs st0) end.
Proof. exact cell_is_accumulator_run. Qed.
Print Assumptions C10_stats1_cell_is_accumulator_run.

Theorem C10_empty_values_are_not_accumulated :
  forall a vs s, accname_eqb a ANullCount = false ->
    fold_left (feed a) vs s = fold_left (ingest a) (filter (fun v => negb (is_void v)) vs) s.
Proof. exact (fun a vs s H => fold_feed_nonvoid a vs H s). Qed.
Print Assumptions C10_empty_values_are_not_accumulated.

(* ---- accumulators: streaming = definition, exactly, over Q / Z *)
Theorem C10_sum_equals_definition :
  forall vs, exists q, oval_q (run_acc false ASum vs) = Some q /\ (q == Qsum_list (qs_of vs))%Q.
Proof. exact sum_value. Qed.
Print Assumptions C10_sum_equals_definition.

Theorem C10_int_sums_stay_int :
  forall vs, all_int (numerics vs) = true ->
    (Zsum_list (map Z.abs (ints_of (numerics vs))) <= 9223372036854775807)%Z ->
    run_acc false ASum vs = OInt (Zsum_list (ints_of (numerics vs))).
Proof. exact sum_ints_stay_int. Qed.
Print Assumptions C10_int_sums_stay_int.

Theorem C10_mean_equals_definition :
  forall vs, (qs_of vs <> [] -> exists q, oval_q (run_acc false AMean vs) = Some q /\ (q == mean_def (qs_of vs))%Q)
          /\ (qs_of vs = [] -> run_acc false AMean vs = OVoid).
Proof. exact (fun vs => conj (mean_value vs) (mean_empty vs)). Qed.
Print Assumptions C10_mean_equals_definition.

(* var = sum (x-mean)^2/(n-1): the streaming formula sum2 - mean*(2 sum - n mean) equals it and its clamp never fires *)
Theorem C10_var_equals_definition :
  forall vs, ((2 <= List.length (qs_of vs))%nat -> exists q, run_acc false AVar vs = OFlt q /\ (q == var_def (qs_of vs))%Q)
          /\ ((List.length (qs_of vs) < 2)%nat -> run_acc false AVar vs = OVoid).
Proof. exact (fun vs => conj (var_stream_eq_def vs) (var_too_few vs)). Qed.
Print Assumptions C10_var_equals_definition.

Theorem C10_stddev_equals_definition :
  forall vs, (2 <= List.length (qs_of vs))%nat -> exists q, run_acc false AStddev vs = OSqrt q /\ (q == var_def (qs_of vs))%Q.
Proof. exact stddev_stream_eq_def. Qed.
Print Assumptions C10_stddev_equals_definition.

Theorem C10_meaneb_equals_definition :
  forall vs, (2 <= List.length (qs_of vs))%nat ->
    exists q, run_acc false AMeanEB vs = OSqrt q /\ (q == var_def (qs_of vs) / inject_Z (Z.of_nat (List.length (qs_of vs))))%Q.
Proof. exact meaneb_stream_eq_def. Qed.
Print Assumptions C10_meaneb_equals_definition.

(* min / max of ints stay ints: the exact extreme value, printed as one of the input texts *)
Theorem C10_min_of_ints_stays_int :
  forall vs, vs <> [] -> all_ints vs ->
    exists z t, run_acc false AMin vs = OInt z /\ In t vs /\ classify t = NInt z
      /\ (forall v z', In v vs -> classify v = NInt z' -> (z <= z')%Z).
Proof. exact min_ints_stay_int. Qed.
Print Assumptions C10_min_of_ints_stays_int.

Theorem C10_max_of_ints_stays_int :
  forall vs, vs <> [] -> all_ints vs ->
    exists z t, run_acc false AMax vs = OInt z /\ In t vs /\ classify t = NInt z
      /\ (forall v z', In v vs -> classify v = NInt z' -> (z' <= z)%Z).
Proof. exact max_ints_stay_int. Qed.
Print Assumptions C10_max_of_ints_stays_int.

(* counts by value text (mode, antimode, distinct_count, count-distinct): first-seen order, number of occurrences *)
Theorem C10_counts_by_value_equal_occurrences :
  forall vs, fold_left (fun m v => cm_incr v m) vs []
    = map (fun k => (k, Z.of_nat (List.length (members (fun x : bytes => Some x) k vs)))) (first_keys (fun x : bytes => Some x) vs).
Proof. exact counts_map_entries. Qed.
Print Assumptions C10_counts_by_value_equal_occurrences.

(* mode: a text with the largest number of occurrences; among ties the first seen wins *)
Theorem C10_mode_is_first_seen_of_most_frequent :
  forall vs, vs <> [] ->
    let m := map (fun k => (k, Z.of_nat (List.length (members (fun x : bytes => Some x) k vs)))) (first_keys (fun x : bytes => Some x) vs) in
    exists k c, run_acc false AMode vs = OText k /\ is_first_max m k c.
Proof. exact mode_accumulator_spec. Qed.
Print Assumptions C10_mode_is_first_seen_of_most_frequent.

Theorem C10_antimode_tie_break_first_seen :
  forall m, m <> [] -> exists k c, antimode_of m = OText k /\ is_first_min m k c.
Proof. exact antimode_is_first_of_the_least_frequent. Qed.
Print Assumptions C10_antimode_tie_break_first_seen.

Theorem C10_distinct_count_equals_number_of_distinct_texts :
  forall vs, run_acc false ADistinctCount vs = OInt (Z.of_nat (List.length (first_keys (fun x : bytes => Some x) vs))).
Proof. exact distinct_count_spec. Qed.
Print Assumptions C10_distinct_count_equals_number_of_distinct_texts.

(* ---- percentiles *)
(* non-interpolated: for EVERY p (also outside 0..100) the index is inside the data; inside 0..100 it is
   floor(p*n/100) with p = 100 pulled back to the last element; monotone in p *)
Theorem C10_percentile_index_in_range : forall p n, (0 < n)%Z -> (0 <= pctl_index p n < n)%Z.
Proof. exact pctl_index_range. Qed.
Print Assumptions C10_percentile_index_in_range.

Theorem C10_percentile_index_formula :
  forall p n, (0 <= p)%Q -> (p <= 100)%Q -> (0 < n)%Z ->
    pctl_index p n = Z.min (Qfloor (p * inject_Z n / 100)) (n - 1) /\ (0 <= Qfloor (p * inject_Z n / 100) <= n)%Z.
Proof. exact pctl_index_formula. Qed.
Print Assumptions C10_percentile_index_formula.

Theorem C10_percentile_index_monotone : forall p q n, (p <= q)%Q -> (0 < n)%Z -> (pctl_index p n <= pctl_index q n)%Z.
Proof. exact pctl_index_monotone. Qed.
Print Assumptions C10_percentile_index_monotone.

Theorem C10_percentile_is_an_element :
  forall p sorted, sorted <> [] ->
    exists v, nthZ (pctl_index p (Z.of_nat (List.length sorted))) sorted = Some v /\ pctl_nonint p sorted = oval_of_val v.
Proof. exact pctl_nonint_is_element. Qed.
Print Assumptions C10_percentile_is_an_element.

Theorem C10_sorted_data_is_a_permutation : forall l, Permutation (sort_vals l) l.
Proof. exact sort_vals_perm. Qed.
Print Assumptions C10_sorted_data_is_a_permutation.

(* the data the index is applied to is sorted (non-decreasing in the keeper's collation: numbers by value, before strings) *)
Theorem C10_sorted_data_is_sorted : forall l, Sorted.LocallySorted val_le (sort_vals l).
Proof. exact sort_vals_sorted. Qed.
Print Assumptions C10_sorted_data_is_sorted.

(* interpolated: the indices exist for EVERY p (the DSL percentile functions accept any p): clamped at both ends
   (above 100 since fix: 444a9e97f; before it the code indexed past the end and panicked) *)
Theorem C10_interpolated_percentile_never_out_of_range :
  forall p sorted, sorted <> [] -> pctl_interp p sorted <> OPanic.
Proof. exact pctl_interp_never_panics. Qed.
Print Assumptions C10_interpolated_percentile_never_out_of_range.

Theorem C10_interpolated_percentile_clamps_above_instance :
  pctl_interp 200 [B "1"; B "2"] = oval_of_val (B "2").
Proof. exact pctl_interp_clamps_above. Qed.
Print Assumptions C10_interpolated_percentile_clamps_above_instance.

(* ---- non-vacuity: concrete inputs meet the hypotheses and give the expected numbers *)
Example C10_nonvacuous :
  let vs := [B "3"; B ""; B "4.5"; B "pan"; B "-2"] in
  let rs := [[(B "a", B "pan"); (B "x", B "3")]; [(B "x", B "7")]; [(B "a", B "wye"); (B "x", B "5")]; [(B "a", B "pan"); (B "x", B "")]] in
  (2 <= List.length (qs_of vs))%nat
  /\ run_acc false ASum vs = OFlt (Qmake 55 10)
  /\ run_acc false ASum [B "4611686018427387905"; B "-1"; B "7"] = OInt 4611686018427387911
  /\ all_int (numerics [B "4611686018427387905"; B "-1"; B "7"]) = true
  /\ map (fun e => (fst e, snd (snd e))) (count_groups [B "a"] rs) = [(B "pan", 2%Z); (B "wye", 1%Z)]
  /\ filter (has_key (group_key [B "a"])) rs <> rs
  /\ pctl_index (Qmake 25 1) 5 = 1%Z /\ pctl_index (Qmake 100 1) 5 = 4%Z /\ pctl_index (Qmake 250 1) 5 = 4%Z
  /\ pctl_nonint (Qmake 50 1) (sort_vals [B "5"; B "1"; B "3"; B "2"]) = OInt 3
  /\ nodupb (map req_text [(ACount, []); (APctl (Qmake 50 1), B "median")]) = true
  /\ run_acc false AMode [B "3"; B "4"; B "4"; B "3"; B "5"] = OText (B "3")
  /\ run_acc false AMin [B "7"; B "-2"; B "11"] = OInt (-2).
Proof. vm_compute. repeat split; try reflexivity; try discriminate; try lia. Qed.

(* ================================================================== fraction *)
(* per (group, field) cell, on the functions verb_fraction calls (frac_value, sum_step): the fractions add up to 1
   (to 100 with -p) whenever the cell's sum is non-zero; with -c the i-th value is the running sum over the total.
   The tie "the cell sees exactly the group's values of the field" is by correspondence. *)
Theorem C10_fractions_sum_to_one :
  forall mult xs S, frac_cell_sum xs = Some S -> ~ (qof S == 0)%Q ->
    (ovals_sum (frac_cell_run false mult S (I 0) xs) == qof mult)%Q.
Proof. exact fractions_sum_to_one. Qed.
Print Assumptions C10_fractions_sum_to_one.

Theorem C10_cumulative_fractions_are_running_sums :
  forall mult S xs, ~ (qof S == 0)%Q -> forall cum,
    Forall2 (fun o r => exists q, oval_q o = Some q /\ (q == r / qof S * qof mult)%Q)
            (frac_cell_run true mult S cum xs) (running (qof cum) (map qof xs)).
Proof. exact cumulative_fractions_are_running_sums. Qed.
Print Assumptions C10_cumulative_fractions_are_running_sums.

(* ================================================================== histogram *)
Theorem C10_histogram_bin_in_range :
  forall lo hi nbins v, (lo < hi)%Q -> (0 < nbins)%Z -> (lo <= v)%Q -> (v <= hi)%Q ->
    exists i, hist_bin lo hi nbins v = Some i /\ (0 <= i < nbins)%Z.
Proof. exact hist_bin_in_range. Qed.
Print Assumptions C10_histogram_bin_in_range.

Theorem C10_histogram_out_of_range_dropped :
  forall lo hi nbins v, (lo < hi)%Q -> ((v < lo)%Q \/ (hi < v)%Q) -> hist_bin lo hi nbins v = None.
Proof. exact hist_bin_outside_dropped. Qed.
Print Assumptions C10_histogram_out_of_range_dropped.

Theorem C10_histogram_counts_add_up :
  forall lo hi nbins (vs : list Q), (lo < hi)%Q -> (0 < nbins)%Z ->
    let step := fun cs v => match hist_bin lo hi nbins v with
                            | Some i => if (i <? 0)%Z then cs else incr_nth (Z.to_nat i) cs | None => cs end in
    Zsum (fold_left step vs (repeat 0%Z (Z.to_nat nbins))) = Z.of_nat (List.length (filter (in_hist lo hi) vs)).
Proof. exact hist_counts_add_up. Qed.
Print Assumptions C10_histogram_counts_add_up.

(* ================================================================== step (per (group, field) cell run, step_cell) *)
(* counter / rsum / rprod: the operation folded over all contributing (present, non-empty, numeric) values so far *)
Theorem C10_step_running_value :
  forall sp name f pre v x, is_running sp = true -> numeric_or_void pre -> is_void v = false -> numof v = Some x ->
    exists o q, step_cell sp name f (stst0 sp) (pre ++ [Some v]) = step_cell sp name f (stst0 sp) pre ++ [Some o]
      /\ oval_q o = Some q /\ (q == fold_left (run_op sp) (contributing pre ++ [qof x]) (run_init sp))%Q.
Proof. exact running_stepper_value. Qed.
Print Assumptions C10_step_running_value.

Theorem C10_step_running_empty_value :
  forall sp name f pre v, is_running sp = true -> is_void v = true ->
    step_cell sp name f (stst0 sp) (pre ++ [Some v]) = step_cell sp name f (stst0 sp) pre ++ [Some (OText [])].
Proof. exact running_stepper_void. Qed.
Print Assumptions C10_step_running_empty_value.

Theorem C10_step_shift_lag_value :
  forall n name f pre v, (1 <= n)%nat ->
    step_cell (SShiftLag n) name f (stst0 (SShiftLag n)) (pre ++ [Some v])
    = step_cell (SShiftLag n) name f (stst0 (SShiftLag n)) pre ++ [Some (OText (match nback n pre with Some p => p | None => [] end))].
Proof. exact shift_lag_value. Qed.
Print Assumptions C10_step_shift_lag_value.

Theorem C10_step_delta_value :
  forall n name f pre v, (1 <= n)%nat -> is_void v = false ->
    step_cell (SDelta n) name f (stst0 (SDelta n)) (pre ++ [Some v])
    = step_cell (SDelta n) name f (stst0 (SDelta n)) pre
      ++ [Some (match nback_num (SDelta n) n pre with Some p => bin_num (fun x y => Some (nv_minus x y)) v p | None => OInt 0 end)].
Proof. exact delta_value. Qed.
Print Assumptions C10_step_delta_value.

Theorem C10_step_ratio_value :
  forall n name f pre v, (1 <= n)%nat -> is_void v = false ->
    step_cell (SRatio n) name f (stst0 (SRatio n)) (pre ++ [Some v])
    = step_cell (SRatio n) name f (stst0 (SRatio n)) pre
      ++ [Some (match nback_num (SRatio n) n pre with Some p => bin_num nv_div v p | None => OInt 1 end)].
Proof. exact ratio_value. Qed.
Print Assumptions C10_step_ratio_value.

Theorem C10_step_delta_is_the_difference :
  forall v p x y, numof v = Some x -> numof p = Some y ->
    exists q, oval_q (bin_num (fun a b => Some (nv_minus a b)) v p) = Some q /\ (q == qof x - qof y)%Q.
Proof. exact delta_is_the_difference. Qed.
Print Assumptions C10_step_delta_is_the_difference.

Theorem C10_step_from_first_value :
  forall name f v0 pre v,
    exists rest, step_cell SFromFirst name f (stst0 SFromFirst) (Some v0 :: pre ++ [Some v])
               = Some (OInt 0) :: rest ++ [Some (bin_num (fun a b => Some (nv_minus a b)) v v0)].
Proof. exact (fun name f v0 pre v => from_first_value name f v0 pre v (fun _ _ => Logic.I)). Qed.
Print Assumptions C10_step_from_first_value.

(* every record is emitted exactly once.  PARTIAL: stated on the witnesses of the repaired defect (fix: 1cf092ed2; before it
   shift_lead_n, n >= 2, lost the records of groups shorter than n: C10_step_emits_every_record_refuted of the earlier rounds)
   -- a one-record stream under shift_lead_2, and two interleaved short groups under shift_lead_3 + counter: every record comes
   out once, in arrival order, with an empty look-ahead value.  The statement for ALL streams (length (verb_step ..) = length rs)
   is not proved; the correspondence check and the oracle compare the record counts on every generated stream. *)
Theorem C10_step_emits_records_of_short_groups_partial :
  verb_step [(SShiftLead 2, B "shift_lead_2")] [B "x"] [] [[(B "x", B "1")]]
  = [[(B "x", OText (B "1")); (B "x_shift_lead_2", OText [])]]
  /\ verb_step [(SShiftLead 3, B "shift_lead_3"); (SCounter, B "counter")] [B "x"] [B "g"]
               [[(B "g", B "a"); (B "x", B "1")]; [(B "g", B "b"); (B "x", B "5")]; [(B "g", B "a"); (B "x", B "2")]]
     = [[(B "g", OText (B "a")); (B "x", OText (B "1")); (B "x_shift_lead_3", OText []); (B "x_counter", OInt 1)];
        [(B "g", OText (B "b")); (B "x", OText (B "5")); (B "x_shift_lead_3", OText []); (B "x_counter", OInt 1)];
        [(B "g", OText (B "a")); (B "x", OText (B "2")); (B "x_shift_lead_3", OText []); (B "x_counter", OInt 2)]].
Proof. exact shift_lead_short_group_is_emitted. Qed.
Print Assumptions C10_step_emits_records_of_short_groups_partial.

Example C10_nonvacuous_verbs :
  verb_fraction [B "x"] [] false false [[(B "x", B "1")]; [(B "x", B "3")]]
  = [[(B "x", OText (B "1")); (B "x_fraction", OFlt (Qmake 1 4))]; [(B "x", OText (B "3")); (B "x_fraction", OFlt (Qmake 3 4))]]
  /\ frac_cell_sum [I 1; I 3] = Some (I 4)
  /\ hist_bin 0 10 5 (Qmake 7 2) = Some 1%Z /\ hist_bin 0 10 5 10 = Some 4%Z /\ hist_bin 0 10 5 11 = None
  /\ step_cell SRsum (B "rsum") (B "x") (stst0 SRsum) [Some (B "2"); None; Some []; Some (B "5")]
     = [Some (OInt 2); None; Some (OText []); Some (OInt 7)]
  /\ step_cell (SDelta 2) (B "delta_2") (B "x") (stst0 (SDelta 2)) [Some (B "2"); Some (B "3"); Some (B "7")]
     = [Some (OInt 0); Some (OInt 0); Some (OInt 5)]
  /\ is_running SRprod = true.
Proof. vm_compute. repeat split; reflexivity. Qed.

Example C10_nonvacuous_step_domain : numeric_or_void [Some (B "2"); None; Some []].
Proof.
  intros v [H|[H|[H|[]]]]; [injection H as <-; right; eexists; vm_compute; reflexivity|discriminate H|injection H as <-; left; reflexivity].
Qed.

(* ================================================================== round 2: every verb's cell sees exactly its group's values *)
(* (imports for the sections below) *)
From Miller Require Import C10.ProofsCells C10.ProofsCells2 C10.ProofsSum C10.ProofsMoments C10.ProofsWindow.

(* the sum of ints is an int EXACTLY when every partial sum (arrival order) fits int64 -- the code adds with the
   auto-overflowing `+`: one overflow turns the running sum into a float for good; its exact value is still the sum *)
Theorem C10_int_sum_stays_int_iff_partial_sums_fit :
  forall vs, all_int (numerics vs) = true ->
    (partials_fit 0 (ints_of (numerics vs)) = true -> run_acc false ASum vs = OInt (Zsum_list (ints_of (numerics vs))))
    /\ (partials_fit 0 (ints_of (numerics vs)) = false ->
        exists q, run_acc false ASum vs = OFlt q /\ (q == inject_Z (Zsum_list (ints_of (numerics vs))))%Q).
Proof. exact int_sum_stays_int_iff. Qed.
Print Assumptions C10_int_sum_stays_int_iff_partial_sums_fit.

(* ---- fraction: the verb (both passes, every output record) IS the definitional recomputation: record r arriving after
   [pre] gets, per value field it carries, value / (sum over ALL members of its group carrying the field), with -c the
   numerator is the running sum over the members seen so far *)
Theorem C10_fraction_sum_cell_is_group_sum :
  forall fs gs rs k f, NoDup fs -> In f fs ->
    gcell (fold_left (frac_pass1 fs gs) rs []) k f = frac_cell_sum (numerics (values_of f (members (group_key gs) k rs))).
Proof. exact fraction_sum_cell. Qed.
Print Assumptions C10_fraction_sum_cell_is_group_sum.

Theorem C10_fraction_equals_definition :
  forall fs gs pct cumu rs, NoDup fs -> verb_fraction fs gs pct cumu rs = spec_fraction_from fs gs pct cumu rs [] rs.
Proof. exact fraction_equals_definition. Qed.
Print Assumptions C10_fraction_equals_definition.

(* ---- histogram: the counts of value field f are the bin counts of exactly the numeric values of f *)
Theorem C10_histogram_cell_counts_the_fields_values :
  forall lo hi nbins fs rs f, NoDup fs -> In f fs ->
    oget f (hist_counts lo hi nbins fs rs)
    = Some (fold_left (hist_step lo hi nbins) (qs_of (values_of f rs)) (repeat 0%Z (Z.to_nat nbins))).
Proof. exact histogram_cell. Qed.
Print Assumptions C10_histogram_cell_counts_the_fields_values.

(* ---- count-similar: records grouped at the end, groups in first-appearance order, each with its group's size *)
Theorem C10_count_similar_equals_definition :
  forall gs out rs,
    verb_count_similar gs out rs
    = flat_map (fun k => map (fun r => oput out (OInt (Z.of_nat (List.length (members (group_key gs) k rs)))) (otext_rec r))
                             (members (group_key gs) k rs))
               (first_keys (group_key gs) rs).
Proof. exact count_similar_equals_definition. Qed.
Print Assumptions C10_count_similar_equals_definition.

Theorem C10_count_similar_emits_every_contributing_record :
  forall gs out rs, List.length (verb_count_similar gs out rs) = List.length (filter (has_key (group_key gs)) rs).
Proof. exact count_similar_emits_every_contributing_record. Qed.
Print Assumptions C10_count_similar_emits_every_contributing_record.

(* ---- count / uniq -g [-c|-n] / count-distinct -f [-n] / most-frequent share one state: per group (first-appearance
   order) the group-by texts of its first member and the number of its members *)
Theorem C10_count_groups_entries :
  forall gs rs,
    count_groups gs rs
    = map (fun k => (k, (first_sel gs (members (group_key gs) k rs), Z.of_nat (List.length (members (group_key gs) k rs)))))
          (first_keys (group_key gs) rs).
Proof. exact count_groups_entries. Qed.
Print Assumptions C10_count_groups_entries.

Theorem C10_uniq_equals_definition :
  forall gs show_counts only_n out rs,
    verb_uniq gs show_counts only_n out rs
    = if only_n then [[(B "count", OInt (Z.of_nat (List.length (first_keys (group_key gs) rs))))]]
      else map (fun k => put_all (group_fields gs (first_sel gs (members (group_key gs) k rs))
                                  ++ (if show_counts then [(out, OInt (Z.of_nat (List.length (members (group_key gs) k rs))))] else [])) [])
               (first_keys (group_key gs) rs).
Proof. exact uniq_equals_definition. Qed.
Print Assumptions C10_uniq_equals_definition.

(* count-distinct -u: per listed field the counts by value of exactly that field's values (counts map:
   C10_counts_by_value_equal_occurrences) *)
Theorem C10_count_distinct_u_cell :
  forall fs f rs, NoDup fs -> In f fs ->
    dfl_cm (oget f (fold_left (unlashed_step fs) rs [])) = fold_left (fun cm v => cm_incr v cm) (values_of f rs) [].
Proof. exact count_distinct_u_cell. Qed.
Print Assumptions C10_count_distinct_u_cell.

(* ---- top: per (group, value field) the best n of exactly the group's values of that field; the contributing records
   are those carrying every group-by and every value field *)
Theorem C10_top_equals_model_over_named_groups :
  forall n domax out fs gs rs,
    verb_top n domax out fs gs rs
    = flat_map (fun e : bytes * (list bytes * omap (list val)) =>
                map (fun i =>
                       fold_left (fun o fl => oput ((fst fl) ++ B "_top")%list
                                                   (match nth_error (snd fl) i with Some v => oval_of_val v | None => OText [] end)
                                                   (oput out (OInt (Z.of_nat i + 1)) o))
                                 (snd (snd e)) (put_all (group_fields gs (fst (snd e))) []))
                    (seq 0 n)) (top_groups n domax fs gs rs).
Proof. exact verb_top_groups. Qed.
Print Assumptions C10_top_equals_model_over_named_groups.

Theorem C10_top_cell_is_best_n_of_group_values :
  forall n domax fs gs rs k f, NoDup fs -> In f fs ->
    match oget k (top_groups n domax fs gs rs) with Some s => oget f (snd s) | None => None end
    = match values_of f (members (top_key fs gs) k rs) with
      | [] => None
      | vs => Some (firstn n (top_sorted domax vs))
      end.
Proof. exact top_cell. Qed.
Print Assumptions C10_top_cell_is_best_n_of_group_values.

Theorem C10_top_sorted_is_a_permutation : forall domax vs, Permutation (top_sorted domax vs) vs.
Proof. exact top_sorted_perm. Qed.
Print Assumptions C10_top_sorted_is_a_permutation.

(* ---- most-frequent / least-frequent: the (group, size) entries sorted by size (descending for most-frequent), groups
   of equal size in first-appearance order (the model's order: Go's sort.Slice is an insertion sort up to 12 elements;
   beyond 12 the check verifies the sortedness relation on the output instead), then the first maxn *)
Theorem C10_frequent_is_sorted_stable_permutation :
  forall descending maxn show_counts out gs rs,
    verb_frequent descending maxn show_counts out gs rs
    = map (fun e => put_all (group_fields gs (fst (snd e)) ++ (if show_counts then [(out, OInt (snd (snd e)))] else [])) [])
          (firstn maxn (freq_sorted descending gs rs))
    /\ sortedk (freq_key descending) (freq_sorted descending gs rs)
    /\ Permutation (freq_sorted descending gs rs) (count_groups gs rs)
    /\ forall c, filter (has_key_c (freq_key descending) c) (freq_sorted descending gs rs)
                 = filter (has_key_c (freq_key descending) c) (count_groups gs rs).
Proof. exact (fun d m s o gs rs => conj (verb_frequent_unfold d m s o gs rs) (frequent_order d gs rs)). Qed.
Print Assumptions C10_frequent_is_sorted_stable_permutation.

Example C10_nonvacuous_cells :
  NoDup [B "x"; B "y"] /\ In (B "y") [B "x"; B "y"]
  /\ (let rs := [[(B "a", B "p"); (B "x", B "1")]; [(B "x", B "7")]; [(B "a", B "q"); (B "x", B "5"); (B "y", B "2")]; [(B "a", B "p"); (B "x", B "3"); (B "y", B "6")]] in
      verb_fraction [B "x"; B "y"] [B "a"] false true rs = spec_fraction_from [B "x"; B "y"] [B "a"] false true rs [] rs
      /\ nth 3 (verb_fraction [B "x"; B "y"] [B "a"] false true rs) []
         = [(B "a", OText (B "p")); (B "x", OText (B "3")); (B "y", OText (B "6")); (B "x_cumulative_fraction", OInt 1); (B "y_cumulative_fraction", OInt 1)]
      /\ values_of (B "x") (members (group_key [B "a"]) (B "p") rs) = [B "1"; B "3"]
      /\ firstn 1 (top_sorted true [B "1"; B "3"]) = [B "3"]
      /\ map (fun e => fst e) (freq_sorted true [B "a"] rs) = [B "p"; B "q"]).
Proof. vm_compute. repeat split; try reflexivity; repeat constructor; cbn; intuition discriminate. Qed.

(* ================================================================== higher moments, lengths, mad *)
(* skewness = (sum (x-mean)^3 / n) / (sum (x-mean)^2 / (n-1))^(3/2): the 3/2 power is irrational, the theorem is on the
   rational numerator and denominator the model hands to pow (the correspondence compares the float) *)
Theorem C10_skewness_equals_definition :
  forall vs,
    let xs := qs_of vs in let fn := inject_Z (Z.of_nat (List.length xs)) in
    ((List.length xs < 2)%nat -> run_acc false ASkewness vs = OVoid)
    /\ ((2 <= List.length xs)%nat -> (central 2 xs == 0)%Q -> run_acc false ASkewness vs = ONan)
    /\ ((2 <= List.length xs)%nat -> ~ (central 2 xs == 0)%Q ->
        exists nu de, run_acc false ASkewness vs = OPow15 nu de
          /\ (nu == central 3 xs / fn)%Q /\ (de == central 2 xs / (fn - 1))%Q /\ (0 < de)%Q).
Proof. exact skewness_stream_eq_def. Qed.
Print Assumptions C10_skewness_equals_definition.

Theorem C10_kurtosis_equals_definition :
  forall vs,
    let xs := qs_of vs in let fn := inject_Z (Z.of_nat (List.length xs)) in
    ((List.length xs < 2)%nat -> run_acc false AKurtosis vs = OVoid)
    /\ ((2 <= List.length xs)%nat -> (central 2 xs == 0)%Q -> run_acc false AKurtosis vs = ONan)
    /\ ((2 <= List.length xs)%nat -> ~ (central 2 xs == 0)%Q ->
        exists q, run_acc false AKurtosis vs = OFlt q
          /\ (q == (central 4 xs / fn) / ((central 2 xs / fn) * (central 2 xs / fn)) - 3)%Q).
Proof. exact kurtosis_stream_eq_def. Qed.
Print Assumptions C10_kurtosis_equals_definition.

Theorem C10_mad_equals_definition :
  forall vs, qs_of vs <> [] ->
    let xs := qs_of vs in
    exists q, run_acc false AMad vs = OFlt q
      /\ (q == Qsum_list (map (fun x => Qabs (mean_def xs - x)) xs) / inject_Z (Z.of_nat (List.length xs)))%Q.
Proof. exact mad_equals_definition. Qed.
Print Assumptions C10_mad_equals_definition.

Theorem C10_count_and_null_count :
  forall vs, run_acc false ACount vs = OInt (Z.of_nat (List.length vs))
          /\ run_acc false ANullCount vs = OInt (Z.of_nat (List.length (filter is_void vs))).
Proof. exact (fun vs => conj (count_is_number_of_values vs) (null_count_is_number_of_empty_values vs)). Qed.
Print Assumptions C10_count_and_null_count.

(* minlen / maxlen: the extreme number of UTF-8 characters (C15's strlen on well-formed UTF-8) *)
Theorem C10_minlen_maxlen_are_extreme_character_counts :
  forall vs, vs <> [] -> forallb C15.Model.valid_utf8 vs = true ->
    (exists z, run_acc false AMinLen vs = OInt z /\ In z (map C15.Model.strlen vs) /\ (forall v, In v vs -> (z <= C15.Model.strlen v)%Z))
    /\ (exists z, run_acc false AMaxLen vs = OInt z /\ In z (map C15.Model.strlen vs) /\ (forall v, In v vs -> (C15.Model.strlen v <= z)%Z)).
Proof. exact (fun vs Hne Hv => conj (minlen_is_min_rune_count vs Hne Hv) (maxlen_is_max_rune_count vs Hne Hv)). Qed.
Print Assumptions C10_minlen_maxlen_are_extreme_character_counts.

(* ================================================================== ewma, sliding windows, interpolation value *)
(* the recurrence next = alpha*x + (1-alpha)*prev equals the closed form (1-alpha)^n x0 + sum_k alpha (1-alpha)^k x_(n-k) *)
Theorem C10_ewma_recurrence_equals_closed_form :
  forall al x0 xs,
    (ewma_rec al x0 xs
     == qpow (1 - al) (List.length xs) * x0
        + Qsum_list (map (fun k => al * qpow (1 - al) k * nth k (rev xs) 0) (seq 0 (List.length xs))))%Q.
Proof. exact ewma_closed_explicit. Qed.
Print Assumptions C10_ewma_recurrence_equals_closed_form.

(* step -a ewma -d alphas [-o suffixes]: for every alpha the value written for a numeric value is the recurrence over
   exactly the numeric values of the cell so far (records lacking the field and non-numeric texts are skipped) *)
Theorem C10_step_ewma_value :
  forall alphas name f pre v x al sfx,
    NoDup (map snd alphas) -> In (al, sfx) alphas -> numof v = Some x ->
    ewma_cell alphas name f sfx (stst0 (SEwma alphas)) (pre ++ [Some v])
    = ewma_cell alphas name f sfx (stst0 (SEwma alphas)) pre
      ++ [Some (match ewma_inputs pre with
                | [] => oval_of_val v
                | x0 :: rest => OFlt (ewma_rec al (qof x0) (map qof rest ++ [qof x]))
                end)].
Proof. exact ewma_stepper_value. Qed.
Print Assumptions C10_step_ewma_value.

(* stats1 -w n: the window kept for a group holds exactly its last n contributing records (eviction invariant), and every
   accumulator printed with a record has been fed exactly the window's values of its field *)
Theorem C10_stats1_window_holds_last_n_of_group :
  forall interp accs fs gs n rs k,
    w_win_of (oget k (w_run interp accs fs gs n rs))
    = last_n (wn n) (map (window_entry fs) (members (group_key gs) k rs))
    /\ (oget k (w_run interp accs fs gs n rs) = None <-> members (group_key gs) k rs = []).
Proof. exact stats1w_window_invariant. Qed.
Print Assumptions C10_stats1_window_holds_last_n_of_group.

Theorem C10_stats1_window_cell_is_accumulator_over_window :
  forall interp accs fs gs n rs r k f a,
    NoDup fs -> NoDup (map req_text accs) -> In f fs -> In a accs -> group_key gs r = Some k ->
    let l2' := w_l2_of (oget k (w_run interp accs fs gs n (rs ++ [r]))) in
    let vs := values_of f (last_n (wn n) (members (group_key gs) k (rs ++ [r]))) in
    dflt (match oget f l2' with Some l3 => oget (req_text a) l3 | None => None end) = fold_left (feed (fst a)) vs st0
    /\ (vs <> [] -> exists l3, oget f l2' = Some l3 /\ oget (req_text a) l3 = Some (fold_left (feed (fst a)) vs st0)).
Proof. exact stats1w_cell_is_window_run. Qed.
Print Assumptions C10_stats1_window_cell_is_accumulator_over_window.

Theorem C10_stats1_window_emits_the_window_statistics :
  forall interp accs fs gs n rs r k, group_key gs r = Some k ->
    exists gv,
      oget k (w_run interp accs fs gs n (rs ++ [r]))
      = Some (gv, w_win_of (oget k (w_run interp accs fs gs n (rs ++ [r]))), w_l2_of (oget k (w_run interp accs fs gs n (rs ++ [r]))))
      /\ verb_stats1_w interp accs fs gs n (rs ++ [r])
         = verb_stats1_w interp accs fs gs n rs
           ++ [put_all (group_fields gs gv ++ emit_l2 interp accs (w_l2_of (oget k (w_run interp accs fs gs n (rs ++ [r]))))) (otext_rec r)].
Proof. exact stats1w_emitted. Qed.
Print Assumptions C10_stats1_window_emits_the_window_statistics.

(* interpolated percentile: the VALUE for 0 <= p <= 100 on numeric data: x_i + (f - i)(x_(i+1) - x_i) with
   f = p/100 (n-1), i = floor f, between the two neighbours; the last element at the top *)
Theorem C10_interpolated_percentile_value :
  forall p sorted, (0 <= p)%Q -> (p <= 100)%Q -> sorted <> [] -> all_numeric sorted ->
    pctl_interp p sorted
    = if (Z.of_nat (List.length sorted) - 1 <=? pidx p sorted)%Z then oval_of_val (last sorted [])
      else OFlt (xq sorted (pidx p sorted)
                 + (pf p sorted - inject_Z (pidx p sorted)) * (xq sorted (pidx p sorted + 1) - xq sorted (pidx p sorted))).
Proof. exact pctl_interp_value. Qed.
Print Assumptions C10_interpolated_percentile_value.

Theorem C10_interpolated_percentile_between_neighbours :
  forall p sorted, (0 <= p)%Q -> (p <= 100)%Q -> sorted <> [] -> all_numeric sorted ->
    Sorted.LocallySorted val_le sorted -> (pidx p sorted < Z.of_nat (List.length sorted) - 1)%Z ->
    let value := (xq sorted (pidx p sorted)
                 + (pf p sorted - inject_Z (pidx p sorted)) * (xq sorted (pidx p sorted + 1) - xq sorted (pidx p sorted)))%Q in
    pctl_interp p sorted = OFlt value /\ (xq sorted (pidx p sorted) <= value)%Q /\ (value <= xq sorted (pidx p sorted + 1))%Q.
Proof. exact pctl_interp_bracket. Qed.
Print Assumptions C10_interpolated_percentile_between_neighbours.

(* step: the window kept for a group holds exactly the group's records centre .. centre+lead that exist, and
   shift_lead_n writes into the centre the field of the record n places ahead (empty when there is none) *)
Theorem C10_step_window_holds_the_groups_records :
  forall sps fs gs lead rs k,
    match oget k (s_run sps fs gs lead rs) with
    | Some g => wkeys (sg_win g) = last_n (S lead) (padded lead (members (group_key gs) k rs))
                /\ members (group_key gs) k rs <> []
    | None => members (group_key gs) k rs = []
    end.
Proof. exact step_window_invariant. Qed.
Print Assumptions C10_step_window_holds_the_groups_records.

Theorem C10_step_shift_lead_reads_n_ahead :
  forall lead n name f st c t (ms : list record),
    wkeys (Some c :: t) = last_n (S lead) (padded lead ms) ->
    exists c', snd (sprocess (SShiftLead n) name f st (Some c :: t)) = Some c' :: t /\ fst c' = fst c
      /\ Some (fst c) = (if (S lead <=? List.length ms + 0)%nat then nth_error ms (List.length ms + 0 - S lead) else None)
      /\ match (if (S lead <=? List.length ms + n)%nat then nth_error ms (List.length ms + n - S lead) else None) with
         | None => oget (out_name f name) (snd c') = Some (OText [])
         | Some r' => match get f r' with
                      | Some v => oget (out_name f name) (snd c') = Some (OText v)
                      | None => c' = c
                      end
         end.
Proof. exact shift_lead_reads_ahead. Qed.
Print Assumptions C10_step_shift_lead_reads_n_ahead.

(* ================================================================== merge-fields, fill-down *)
From Miller Require Import C10.ProofsMerge.

(* merge-fields -r: per record, every requested accumulator is run over exactly the non-empty values of the fields whose
   name contains one of the substrings, in record order; those fields are removed unless -k *)
Theorem C10_merge_fields_r_equals_definition :
  forall interp keep accs subs base r,
    verb_merge_fields_one interp keep accs (MFSubs subs) base r
    = fold_left (fun o e => oput (base ++ "_" :: fst e)%list (run_acc interp (fst (snd e)) (mf_subs_values subs r)) o)
                (mf_accs accs) (mf_subs_rest keep subs r).
Proof. exact merge_fields_subs. Qed.
Print Assumptions C10_merge_fields_r_equals_definition.

(* merge-fields -f: the non-empty values of the listed fields present in the record, in the order of -f (a name listed
   twice without -k is gone the second time: the statement needs NoDup then, see merge_fields_names_dup_refuted) *)
Theorem C10_merge_fields_f_equals_definition :
  forall interp keep accs fs base r, keep = true \/ NoDup fs ->
    verb_merge_fields_one interp keep accs (MFNames fs) base r
    = fold_left (fun o e => oput (base ++ "_" :: fst e)%list (run_acc interp (fst (snd e)) (mf_names_values fs r)) o)
                (mf_accs accs) (mf_names_rest keep fs r).
Proof. exact merge_fields_names. Qed.
Print Assumptions C10_merge_fields_f_equals_definition.

(* merge-fields -c: the fields are partitioned by their short name (field name minus the first matching substring), short
   names in first-appearance order, each short name's accumulators run over exactly its fields' non-empty values *)
Theorem C10_merge_fields_c_equals_definition :
  forall interp keep accs subs base r,
    verb_merge_fields_one interp keep accs (MFCollapse subs) base r
    = fold_left (fun o sh => fold_left (fun o e => oput (sh ++ "_" :: fst e)%list (run_acc interp (fst (snd e)) (mf_collapse_values subs sh r)) o)
                                       (mf_accs accs) o)
                (first_keys (mf_ckey subs) r) (mf_subs_rest keep subs r).
Proof. exact merge_fields_collapse. Qed.
Print Assumptions C10_merge_fields_c_equals_definition.

(* fill-down -f [-a | --only-if-blank]: the i-th output is the i-th input with every listed field that is not present
   (absent; or, without -a, empty) set to its value in the LAST earlier record where it was present, if any *)
Theorem C10_fill_down_equals_definition :
  forall oia fs rs, NoDup fs -> verb_fill_down false oia fs rs = spec_fill_down_from oia fs [] rs.
Proof. exact fill_down_equals_definition. Qed.
Print Assumptions C10_fill_down_equals_definition.

Theorem C10_fill_down_all_equals_definition :
  forall oia fs rs, forallb wf_record rs = true -> verb_fill_down true oia fs rs = spec_fill_all_from oia [] rs.
Proof. exact fill_down_all_equals_definition. Qed.
Print Assumptions C10_fill_down_all_equals_definition.

Example C10_nonvacuous_merge_fill :
  NoDup [B "x"; B "y"]
  /\ forallb wf_record [[(B "x", B "1"); (B "y", B "")]; [(B "y", B "2")]] = true
  /\ verb_fill_down false false [B "x"; B "y"] [[(B "x", B "1"); (B "y", B "")]; [(B "y", B "2")]; [(B "x", B ""); (B "z", B "3")]]
     = [[(B "x", OText (B "1")); (B "y", OText [])]; [(B "y", OText (B "2")); (B "x", OText (B "1"))];
        [(B "x", OText (B "1")); (B "z", OText (B "3")); (B "y", OText (B "2"))]]
  /\ mf_subs_values [B "in_"] [(B "a_in_x", B "3"); (B "k", B "9"); (B "b_in_y", B ""); (B "c_in_z", B "4")] = [B "3"; B "4"].
Proof. vm_compute. repeat split; try reflexivity; repeat constructor; cbn; intuition discriminate. Qed.

(* ================================================================== step: the verb's own per-(group, field, stepper) state *)
From Miller Require Import C10.ProofsStepCell.
(* backward-looking steppers (window of one record): the state kept inside verb_step for (group k, value field f,
   stepper `name`) is the per-cell run (the step_state / step_cell of the C10_step_* theorems above) over exactly the
   events of f over the group's records, starting at the first record that carries f; other groups' records, other
   fields and other steppers do not touch it *)
Theorem C10_step_cell_sees_exactly_its_groups_events :
  forall sps fs gs f sp name rs k,
    NoDup fs -> In f fs -> NoDup (map snd sps) -> In (sp, name) sps ->
    match oget k (s_run sps fs gs 0 rs) with Some g => cellst g f name | None => None end
    = match drop_absent (map (get f) (members (group_key gs) k rs)) with
      | [] => None
      | evs => Some (step_state sp name f (stst0 sp) evs)
      end.
Proof. exact step_cell_state_is_step_state. Qed.
Print Assumptions C10_step_cell_sees_exactly_its_groups_events.

(* ================================================================== DSL statistics functions (pkg/bifs/stats.go) *)
From Miller Require Import C10.ModelDsl C10.ProofsDsl.
(* the DSL function applied to the collection of a group's values IS the stats1 accumulator over the group's records
   (ModelDsl.dsl_stat transliterates the BIFs; run_acc is the accumulator the verbs use).  Unconditional for the counting
   / order functions; for the moment functions on all-numeric collections (the BIFs count empty values in n and turn a
   string into an error, the verb skips empties before feeding: dsl_mean_counts_voids, dsl_sum_string_is_error) *)
Theorem C10_dsl_counting_functions_are_the_accumulators :
  forall xs, dsl_stat DCount xs = run_acc false ACount xs
          /\ dsl_stat DNullCount xs = run_acc false ANullCount xs
          /\ dsl_stat DDistinctCount xs = run_acc false ADistinctCount xs
          /\ dsl_stat DMode xs = run_acc false AMode xs
          /\ dsl_stat DAntimode xs = run_acc false AAntimode xs
          /\ dsl_stat DMinLen xs = run_acc false AMinLen xs
          /\ dsl_stat DMaxLen xs = run_acc false AMaxLen xs.
Proof.
  exact (fun xs => conj (dsl_count_is_accumulator xs) (conj (dsl_null_count_is_accumulator xs) (conj (dsl_distinct_count_is_accumulator xs)
          (conj (dsl_mode_is_accumulator xs) (conj (dsl_antimode_is_accumulator xs) (conj (dsl_minlen_is_accumulator xs) (dsl_maxlen_is_accumulator xs))))))).
Qed.
Print Assumptions C10_dsl_counting_functions_are_the_accumulators.

Theorem C10_dsl_percentile_functions_are_the_accumulators :
  forall il p xs, dsl_stat (DPercentile il p) xs = run_acc il (APctl p) xs /\ dsl_stat (DMedian il) xs = run_acc il (APctl 50) xs.
Proof. exact (fun il p xs => conj (dsl_percentile_is_accumulator il p xs) (dsl_median_is_accumulator il xs)). Qed.
Print Assumptions C10_dsl_percentile_functions_are_the_accumulators.

Theorem C10_dsl_moment_functions_are_the_accumulators :
  forall xs, (no_strings xs = true -> dsl_stat DSum xs = run_acc false ASum xs)
          /\ (all_num xs = true ->
              dsl_stat DMean xs = run_acc false AMean xs /\ dsl_stat DVariance xs = run_acc false AVar xs
              /\ dsl_stat DStddev xs = run_acc false AStddev xs /\ dsl_stat DMeanEB xs = run_acc false AMeanEB xs
              /\ dsl_stat DSkewness xs = run_acc false ASkewness xs).
Proof.
  exact (fun xs => conj (dsl_sum_is_accumulator xs)
          (fun H => conj (dsl_mean_is_accumulator xs H) (conj (dsl_variance_is_accumulator xs H) (conj (dsl_stddev_is_accumulator xs H)
                    (conj (dsl_meaneb_is_accumulator xs H) (dsl_skewness_is_accumulator xs H)))))).
Qed.
Print Assumptions C10_dsl_moment_functions_are_the_accumulators.

(* sum, sum2, sum3, sum4 = the power sums of the numeric elements, exactly over Q *)
Theorem C10_dsl_power_sums_equal_definition :
  forall k xs, (1 <= k <= 4)%nat -> no_strings xs = true ->
    exists r, dsl_sumk k xs = SNum r /\ (qof r == pow_sum k (qs_of xs))%Q.
Proof. exact dsl_sumk_is_pow_sum. Qed.
Print Assumptions C10_dsl_power_sums_equal_definition.

Example C10_nonvacuous_dsl :
  all_num [B "4"; B "5"; B "9.5"] = true /\ no_strings [B "4"; B ""; B "9.5"] = true
  /\ dsl_stat DMean [B "4"; B "5"; B "9"] = OInt 6 /\ dsl_stat DCount [B "4"; B ""; B "x"] = OInt 3.
Proof. vm_compute. repeat split; reflexivity. Qed.

(* ================================================================== round 3: stats1 as a whole (Verbs4.v) *)
From Miller Require Import C10.Verbs4 C10.ProofsStats1G.
(* names given twice in -a / -f are kept once (fix: df62dcee7): the NoDup hypotheses of C10_stats1_cell_is_accumulator_run
   hold for what the verb runs on, for ANY -a and -f lists; every requested name survives *)
Theorem C10_stats1_names_given_twice_are_kept_once :
  forall accs fs, NoDup (uniq_names fs) /\ NoDup (map req_text (uniq_accs accs))
    /\ (forall f, In f (uniq_names fs) <-> In f fs)
    /\ (forall a, In a accs -> In (req_text a) (map req_text (uniq_accs accs)))
    /\ (forall a, In a (uniq_accs accs) -> In a accs).
Proof.
  exact (fun accs fs =>
           conj (uniq_names_nodup fs)
          (conj (uniq_accs_nodup accs)
          (conj (fun f => uniq_names_in f fs)
          (conj (fun a => uniq_accs_texts a accs)
                (fun a => uniq_accs_sub a accs))))).
Qed.
Print Assumptions C10_stats1_names_given_twice_are_kept_once.

(* stats1 with value fields by name (-f) or by regex (--fr/--fx) and group-by fields by name (-g) or by regex (--gr/--gx):
   the accumulator state of (group k, value field f selected by the option, accumulator a) is that accumulator fed exactly the
   values of f over the members of group k (the partition by the grouping key), in arrival order -- nothing from other groups or
   fields, every contributing record once; no hypothesis on the -a/-f lists; regex selection needs records with distinct names *)
Theorem C10_stats1_any_selection_cell_sees_exactly_its_group :
  forall accs fsl gsl rs k f a,
    sel_wf fsl rs -> fsel_selects fsl f = true -> In a (uniq_accs accs) ->
    (match oget k (stats1g_groups accs fsl gsl rs) with
     | Some pl => match oget f (snd pl) with Some l3 => oget (req_text a) l3 | None => None end
     | None => None
     end
     = match values_of f (members (gkey_sel gsl) k rs) with
       | [] => None
       | vs => Some (fold_left (feed (fst a)) vs st0)
       end)
    /\ match oget k (stats1g_groups accs fsl gsl rs), members (gkey_sel gsl) k rs with
       | Some pl, r0 :: _ => fst pl = dflt_pairs (gpairs gsl r0)
       | None, [] => True
       | _, _ => False
       end.
Proof. exact stats1g_cell_sees_exactly_its_group. Qed.
Print Assumptions C10_stats1_any_selection_cell_sees_exactly_its_group.

Theorem C10_stats1_any_selection_groups_are_the_partition :
  forall accs fsl gsl rs,
    stats1g_groups accs fsl gsl rs
    = spec_groups (gkey_sel gsl) (fun r => (dflt_pairs (gpairs gsl r), [])) (fun s r => (fst s, ingest_sel accs fsl r (snd s))) rs.
Proof. exact stats1g_groups_def. Qed.
Print Assumptions C10_stats1_any_selection_groups_are_the_partition.

(* --gr/--gx (fix: 06ddd9e93): the matched field names are part of the group.  Records with one matched group-by field each
   are in the same group exactly when the field name AND the text are the same (names without "="); before the repair a=1 and
   b=1 were one group.  PARTIAL for several matched fields: name=value pairs are joined with ",", so texts holding ",name="
   can still collide (the comma-joined key of finding group-key-comma-collision) *)
Theorem C10_stats1_regex_group_key_exact_name_and_text_partial :
  forall inv ps r1 r2 n1 v1 n2 v2,
    gmatched inv ps r1 = [(n1, v1)] -> gmatched inv ps r2 = [(n2, v2)] -> ~ In "="%char n1 -> ~ In "="%char n2 ->
    (gkey_sel (GRegex inv ps) r1 = gkey_sel (GRegex inv ps) r2 <-> n1 = n2 /\ v1 = v2).
Proof. exact regex_group_key_single_field. Qed.
Print Assumptions C10_stats1_regex_group_key_exact_name_and_text_partial.

Example C10_nonvacuous_stats1_selection :
  let rs := [[(B "a", B "1"); (B "x", B "3"); (B "xy", B "7")]; [(B "b", B "1"); (B "x", B "4")]; [(B "a", B "1"); (B "x", B "5")]] in
  let gsl := GRegex false [mkpat true true (B "a"); mkpat true true (B "b")] in
  let fsl := FRegex false [mkpat true false (B "x")] in
  sel_wf fsl rs /\ fsel_selects fsl (B "xy") = true /\ In (ASum, []) (uniq_accs [(ASum, []); (ACount, []); (ASum, [])])
  /\ gkey_sel gsl (nth 0 rs []) <> gkey_sel gsl (nth 1 rs [])
  /\ verb_stats1g false [(ASum, []); (ACount, []); (ASum, [])] fsl gsl rs
     = [[(B "a", OText (B "1")); (B "x_sum", OInt 8); (B "x_count", OInt 2); (B "xy_sum", OInt 7); (B "xy_count", OInt 1)];
        [(B "b", OText (B "1")); (B "x_sum", OInt 4); (B "x_count", OInt 1)]]
  /\ gmatched false [mkpat true true (B "a"); mkpat true true (B "b")] (nth 1 rs []) = [(B "b", B "1")].
Proof. vm_compute. repeat split; try reflexivity; try discriminate; try (repeat constructor); auto. Qed.

(* ================================================================== round 3: stats2 (Verbs5.v) *)
From Miller Require Import C10.Verbs5 C10.ProofsStats2.
(* the sums kept for (group k, pair p of value fields) are the sums over exactly the numeric (x, y) pairs of the members of
   group k that carry both fields non-empty, in arrival order; no entry (no output fields) before the first such record *)
Theorem C10_stats2_cell_sees_exactly_its_group :
  forall ps gs rs k p, NoDup (map pair_key ps) -> In p ps ->
    match oget k (stats2_groups ps gs rs) with Some e => oget (pair_key p) (snd e) | None => None end
    = match pair_values p (members (group_key gs) k rs) with [] => None | xys => Some (fold_left s2_ingest xys s2st0) end.
Proof. exact stats2_cell_sees_exactly_its_group. Qed.
Print Assumptions C10_stats2_cell_sees_exactly_its_group.

(* streaming = definition: count, sum x, sum y, sum x^2, sum xy, sum y^2 are the definitional sums, for every order of arrival *)
Theorem C10_stats2_sums_are_the_definitional_sums : forall l, s2eq (fold_left s2_ingest l s2st0) l.
Proof. exact s2_sums_are_definitional. Qed.
Print Assumptions C10_stats2_sums_are_the_definitional_sums.

(* cov: the streamed formula = sum (x - mean_x)(y - mean_y) / (n - 1) *)
Theorem C10_stats2_cov_equals_definition :
  forall l, (2 <= List.length l)%nat -> (cov_of (fold_left s2_ingest l s2st0) == cxy l / (nq l - 1))%Q.
Proof. exact cov_stream_eq_def. Qed.
Print Assumptions C10_stats2_cov_equals_definition.

(* linreg-ols: m and b solve the normal equations of the least-squares fit whenever D <> 0, and D = n sum (x - mean_x)^2 *)
Theorem C10_stats2_ols_solves_the_normal_equations :
  forall l, let s := fold_left s2_ingest l s2st0 in
    (~ (ols_D s == 0)%Q ->
     (ols_m s * sumq (fun p => fst p * fst p) l + ols_b s * sumq fst l == sumq (fun p => fst p * snd p) l)%Q
     /\ (ols_m s * sumq fst l + ols_b s * nq l == sumq snd l)%Q)
    /\ (l <> [] -> (ols_D s == nq l * cxx l)%Q).
Proof. exact (fun l => conj (ols_solves_normal_equations l) (ols_D_is_n_cxx l)). Qed.
Print Assumptions C10_stats2_ols_solves_the_normal_equations.

(* r2: numerator and denominator of the streamed quotient are n^2 cxy^2 and n^2 cxx cyy: r2 = cxy^2 / (cxx cyy) *)
Theorem C10_stats2_r2_equals_definition :
  forall l, l <> [] -> let s := fold_left s2_ingest l s2st0 in
    (r2_num s == nq l * nq l * (cxy l * cxy l))%Q /\ (r2_den s == nq l * nq l * (cxx l * cyy l))%Q.
Proof. exact r2_stream_eq_def. Qed.
Print Assumptions C10_stats2_r2_equals_definition.

Example C10_nonvacuous_stats2 :
  let rs := [[(B "g", B "a"); (B "x", B "1"); (B "y", B "2")]; [(B "g", B "b"); (B "x", B "5"); (B "y", B "5")];
             [(B "g", B "a"); (B "x", B "2"); (B "y", B "")]; [(B "g", B "a"); (B "x", B "3"); (B "y", B "8")]] in
  NoDup (map pair_key (pairs_of_list [B "x"; B "y"])) /\ In (B "x", B "y") (pairs_of_list [B "x"; B "y"])
  /\ pair_values (B "x", B "y") (members (group_key [B "g"]) (B "a") rs) = [(1, 2); (3, 8)]
  /\ verb_stats2 [S2Ols; S2Cov] [B "x"; B "y"] [B "g"] rs
     = [[(B "g", OText (B "a")); (B "x_y_ols_m", OFlt (Qmake 12 4)); (B "x_y_ols_b", OFlt (Qmake (-4) 4)); (B "x_y_ols_n", OInt 2);
         (B "x_y_cov", OFlt (cov_of (mks2 2 4 10 10 26 68)))];
        [(B "g", OText (B "b")); (B "x_y_ols_m", OVoid); (B "x_y_ols_b", OVoid); (B "x_y_ols_n", OInt 1); (B "x_y_cov", OVoid)]].
Proof. vm_compute. repeat split; try reflexivity; repeat constructor; cbn; intuition discriminate. Qed.

(* ================================================================== var / stddev / meaneb of ints (fix: exact integer sums) *)
From Miller Require Import C10.ProofsVarInt.
(* the finalizer of the model (the streaming formula taken exactly over Q) IS the quotient (n sum2 - sum^2) / (n (n-1)) the
   repaired code computes from the exact integer sums with one rounding; C10_var_equals_definition ties it to sum (x-mean)^2/(n-1) *)
Theorem C10_var_finalizer_is_the_exact_integer_quotient :
  forall n s1 s2, (2 <= n)%Z -> (0 <= inject_Z n * s2 - s1 * s1)%Q ->
    exists q, finalize_var n s1 s2 = Some q /\ (q == (inject_Z n * s2 - s1 * s1) / (inject_Z n * inject_Z (n - 1)))%Q.
Proof. exact var_finalizer_is_exact_quotient. Qed.
Print Assumptions C10_var_finalizer_is_the_exact_integer_quotient.

(* the witness of the repaired defect (the float formula gave 512) *)
Theorem C10_var_of_timestamp_scale_ints_instance :
  exists q, run_acc false AVar [B "1700000001"; B "1700000004"; B "1700000002"] = OFlt q /\ (q == 7 # 3)%Q.
Proof. exact var_timestamps_instance. Qed.
Print Assumptions C10_var_of_timestamp_scale_ints_instance.
