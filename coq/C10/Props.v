(* C10 property theorems.  Only statements closed by [exact]; each followed by Print Assumptions.
   All are about the definitions Harness.v evaluates against the implementation (Model.v, Verbs.v). *)
From Miller Require Import C10.Model C10.Verbs C10.Spec C10.ProofsGroup C10.ProofsPctl C10.ProofsAcc C10.Proofs C10.ProofsMode C10.ProofsMinMax C10.Verbs2 C10.ProofsFrac C10.ProofsStep.
From Coq Require Import Permutation.
Open Scope char_scope.

(* ---- grouping: the streaming ordered-map bookkeeping IS the partition of the contributing records into groups,
        groups in first-appearance order, each group state = fold over its members in arrival order (any verb) *)
Theorem C10_grouped_fold_equals_partition :
  forall (R S : Type) (key : R -> option bytes) (init : R -> S) (upd : S -> R -> S) (rs : list R),
    gfold key init upd rs = spec_groups key init upd rs.
Proof. exact (@gfold_spec). Qed.
Print Assumptions C10_grouped_fold_equals_partition.

Theorem C10_groups_in_first_appearance_order :
  forall gs rs, okeys (count_groups gs rs) = first_keys (group_key gs) rs /\ NoDup (first_keys (group_key gs) rs).
Proof.
  exact (fun gs rs => conj (eq_trans (f_equal okeys (gfold_spec _ _ _ rs)) (okeys_spec_groups _ _ _ rs)) (first_keys_nodup _ rs)).
Qed.
Print Assumptions C10_groups_in_first_appearance_order.

(* count -g: one entry per group, the number of its members *)
Theorem C10_count_equals_group_sizes :
  forall gs rs,
    map (fun e => (fst e, snd (snd e))) (count_groups gs rs)
    = map (fun k => (k, Z.of_nat (List.length (members (group_key gs) k rs)))) (first_keys (group_key gs) rs).
Proof. exact count_groups_def. Qed.
Print Assumptions C10_count_equals_group_sizes.

(* counts over all groups add up to the number of contributing records *)
Theorem C10_counts_add_up :
  forall gs rs, total (count_groups gs rs) = Z.of_nat (List.length (filter (has_key (group_key gs)) rs)).
Proof. exact counts_add_up. Qed.
Print Assumptions C10_counts_add_up.

(* a record has no grouping key exactly when it lacks one of the group-by fields, and such records change nothing *)
Theorem C10_record_lacking_group_field_is_skipped :
  forall gs, (forall r, group_key gs r = None <-> exists g, In g gs /\ get g r = None)
  /\ forall (S : Type) (init : record -> S) upd rs,
       gfold (group_key gs) init upd rs = gfold (group_key gs) init upd (filter (has_key (group_key gs)) rs).
Proof. exact (fun gs => conj (group_key_none_iff gs) (fun S init upd rs => gfold_skips_keyless (group_key gs) init upd rs)). Qed.
Print Assumptions C10_record_lacking_group_field_is_skipped.

(* groups are formed by the exact text: true for one group-by field ... *)
Theorem C10_group_key_exact_text_partial : forall g r, group_key [g] r = get g r.
Proof. exact group_key_single. Qed.
Print Assumptions C10_group_key_exact_text_partial.
(* ... but FALSE for several fields: the code joins the texts with "," so (x,y | z) and (x | y,z) share a group *)
Theorem C10_group_key_exact_text_refuted :
  exists gs r1 r2, selected gs r1 <> selected gs r2 /\ group_key gs r1 = group_key gs r2 /\ group_key gs r1 <> None.
Proof. exact group_key_collision. Qed.
Print Assumptions C10_group_key_exact_text_refuted.

(* stats1: the state kept for (group, value field f, accumulator a) is accumulator a fed exactly the values of f
   carried by the group's records, in order; a record lacking f is left out of that accumulation only *)
Theorem C10_stats1_groups_are_the_partition :
  forall accs fs gs rs,
    stats1_groups accs fs gs rs
    = spec_groups (group_key gs) (fun r => (match selected gs r with Some vs => vs | None => [] end, []))
                  (fun s r => (fst s, ingest_l2 accs fs r (snd s))) rs.
Proof. exact stats1_groups_def. Qed.
Print Assumptions C10_stats1_groups_are_the_partition.

Theorem C10_stats1_cell_is_accumulator_run :
  forall accs fs ms f a, NoDup fs -> NoDup (map req_text accs) -> In f fs -> In a accs ->
    cell accs fs ms f a = match values_of f ms with [] => None | vs => Some (fold_left (feed (fst a)) vs st0) end.
Proof. exact cell_is_accumulator_run. Qed.
Print Assumptions C10_stats1_cell_is_accumulator_run.

Theorem C10_empty_values_are_not_accumulated :
  forall a vs s, accname_eqb a ANullCount = false ->
    fold_left (feed a) vs s = fold_left (ingest a) (filter (fun v => negb (is_void v)) vs) s.
Proof. exact (fun a vs s H => fold_feed_nonvoid a vs H s). Qed.
Print Assumptions C10_empty_values_are_not_accumulated.

(* ---- accumulators: streaming = definition, exactly, over Q / Z *)
Theorem C10_sum_equals_definition :
  forall vs, exists q, oval_q (run_acc false ASum vs) = Some q /\ (q == Qsum_list (qs_of vs))%Q.
Proof. exact sum_value. Qed.
Print Assumptions C10_sum_equals_definition.

Theorem C10_int_sums_stay_int :
  forall vs, all_int (numerics vs) = true ->
    (Zsum_list (map Z.abs (ints_of (numerics vs))) <= 9223372036854775807)%Z ->
    run_acc false ASum vs = OInt (Zsum_list (ints_of (numerics vs))).
Proof. exact sum_ints_stay_int. Qed.
Print Assumptions C10_int_sums_stay_int.

Theorem C10_mean_equals_definition :
  forall vs, (qs_of vs <> [] -> exists q, oval_q (run_acc false AMean vs) = Some q /\ (q == mean_def (qs_of vs))%Q)
          /\ (qs_of vs = [] -> run_acc false AMean vs = OVoid).
Proof. exact (fun vs => conj (mean_value vs) (mean_empty vs)). Qed.
Print Assumptions C10_mean_equals_definition.

(* var = sum (x-mean)^2/(n-1): the streaming formula sum2 - mean*(2 sum - n mean) equals it and its clamp never fires *)
Theorem C10_var_equals_definition :
  forall vs, ((2 <= List.length (qs_of vs))%nat -> exists q, run_acc false AVar vs = OFlt q /\ (q == var_def (qs_of vs))%Q)
          /\ ((List.length (qs_of vs) < 2)%nat -> run_acc false AVar vs = OVoid).
Proof. exact (fun vs => conj (var_stream_eq_def vs) (var_too_few vs)). Qed.
Print Assumptions C10_var_equals_definition.

Theorem C10_stddev_equals_definition :
  forall vs, (2 <= List.length (qs_of vs))%nat -> exists q, run_acc false AStddev vs = OSqrt q /\ (q == var_def (qs_of vs))%Q.
Proof. exact stddev_stream_eq_def. Qed.
Print Assumptions C10_stddev_equals_definition.

Theorem C10_meaneb_equals_definition :
  forall vs, (2 <= List.length (qs_of vs))%nat ->
    exists q, run_acc false AMeanEB vs = OSqrt q /\ (q == var_def (qs_of vs) / inject_Z (Z.of_nat (List.length (qs_of vs))))%Q.
Proof. exact meaneb_stream_eq_def. Qed.
Print Assumptions C10_meaneb_equals_definition.

(* min / max of ints stay ints: the exact extreme value, printed as one of the input texts *)
Theorem C10_min_of_ints_stays_int :
  forall vs, vs <> [] -> all_ints vs ->
    exists z t, run_acc false AMin vs = OInt z /\ In t vs /\ classify t = NInt z
      /\ (forall v z', In v vs -> classify v = NInt z' -> (z <= z')%Z).
Proof. exact min_ints_stay_int. Qed.
Print Assumptions C10_min_of_ints_stays_int.

Theorem C10_max_of_ints_stays_int :
  forall vs, vs <> [] -> all_ints vs ->
    exists z t, run_acc false AMax vs = OInt z /\ In t vs /\ classify t = NInt z
      /\ (forall v z', In v vs -> classify v = NInt z' -> (z' <= z)%Z).
Proof. exact max_ints_stay_int. Qed.
Print Assumptions C10_max_of_ints_stays_int.

(* counts by value text (mode, antimode, distinct_count, count-distinct): first-seen order, number of occurrences *)
Theorem C10_counts_by_value_equal_occurrences :
  forall vs, fold_left (fun m v => cm_incr v m) vs []
    = map (fun k => (k, Z.of_nat (List.length (members (fun x : bytes => Some x) k vs)))) (first_keys (fun x : bytes => Some x) vs).
Proof. exact counts_map_entries. Qed.
Print Assumptions C10_counts_by_value_equal_occurrences.

(* mode: a text with the largest number of occurrences; among ties the first seen wins *)
Theorem C10_mode_is_first_seen_of_most_frequent :
  forall vs, vs <> [] ->
    let m := map (fun k => (k, Z.of_nat (List.length (members (fun x : bytes => Some x) k vs)))) (first_keys (fun x : bytes => Some x) vs) in
    exists k c, run_acc false AMode vs = OText k /\ is_first_max m k c.
Proof. exact mode_accumulator_spec. Qed.
Print Assumptions C10_mode_is_first_seen_of_most_frequent.

Theorem C10_antimode_tie_break_first_seen :
  forall m, m <> [] -> exists k c, antimode_of m = OText k /\ is_first_min m k c.
Proof. exact antimode_is_first_of_the_least_frequent. Qed.
Print Assumptions C10_antimode_tie_break_first_seen.

Theorem C10_distinct_count_equals_number_of_distinct_texts :
  forall vs, run_acc false ADistinctCount vs = OInt (Z.of_nat (List.length (first_keys (fun x : bytes => Some x) vs))).
Proof. exact distinct_count_spec. Qed.
Print Assumptions C10_distinct_count_equals_number_of_distinct_texts.

(* ---- percentiles *)
(* non-interpolated: for EVERY p (also outside 0..100) the index is inside the data; inside 0..100 it is
   floor(p*n/100) with p = 100 pulled back to the last element; monotone in p *)
Theorem C10_percentile_index_in_range : forall p n, (0 < n)%Z -> (0 <= pctl_index p n < n)%Z.
Proof. exact pctl_index_range. Qed.
Print Assumptions C10_percentile_index_in_range.

Theorem C10_percentile_index_formula :
  forall p n, (0 <= p)%Q -> (p <= 100)%Q -> (0 < n)%Z ->
    pctl_index p n = Z.min (Qfloor (p * inject_Z n / 100)) (n - 1) /\ (0 <= Qfloor (p * inject_Z n / 100) <= n)%Z.
Proof. exact pctl_index_formula. Qed.
Print Assumptions C10_percentile_index_formula.

Theorem C10_percentile_index_monotone : forall p q n, (p <= q)%Q -> (0 < n)%Z -> (pctl_index p n <= pctl_index q n)%Z.
Proof. exact pctl_index_monotone. Qed.
Print Assumptions C10_percentile_index_monotone.

Theorem C10_percentile_is_an_element :
  forall p sorted, sorted <> [] ->
    exists v, nthZ (pctl_index p (Z.of_nat (List.length sorted))) sorted = Some v /\ pctl_nonint p sorted = oval_of_val v.
Proof. exact pctl_nonint_is_element. Qed.
Print Assumptions C10_percentile_is_an_element.

Theorem C10_sorted_data_is_a_permutation : forall l, Permutation (sort_vals l) l.
Proof. exact sort_vals_perm. Qed.
Print Assumptions C10_sorted_data_is_a_permutation.

(* the data the index is applied to is sorted (non-decreasing in the keeper's collation: numbers by value, before strings) *)
Theorem C10_sorted_data_is_sorted : forall l, Sorted.LocallySorted val_le (sort_vals l).
Proof. exact sort_vals_sorted. Qed.
Print Assumptions C10_sorted_data_is_sorted.

(* interpolated: the indices exist for EVERY p (the DSL percentile functions accept any p): clamped at both ends
   (above 100 since fix: 444a9e97f; before it the code indexed past the end and panicked) *)
Theorem C10_interpolated_percentile_never_out_of_range :
  forall p sorted, sorted <> [] -> pctl_interp p sorted <> OPanic.
Proof. exact pctl_interp_never_panics. Qed.
Print Assumptions C10_interpolated_percentile_never_out_of_range.

Theorem C10_interpolated_percentile_clamps_above_instance :
  pctl_interp 200 [B "1"; B "2"] = oval_of_val (B "2").
Proof. exact pctl_interp_clamps_above. Qed.
Print Assumptions C10_interpolated_percentile_clamps_above_instance.

(* ---- non-vacuity: concrete inputs meet the hypotheses and give the expected numbers *)
Example C10_nonvacuous :
  let vs := [B "3"; B ""; B "4.5"; B "pan"; B "-2"] in
  let rs := [[(B "a", B "pan"); (B "x", B "3")]; [(B "x", B "7")]; [(B "a", B "wye"); (B "x", B "5")]; [(B "a", B "pan"); (B "x", B "")]] in
  (2 <= List.length (qs_of vs))%nat
  /\ run_acc false ASum vs = OFlt (Qmake 55 10)
  /\ run_acc false ASum [B "4611686018427387905"; B "-1"; B "7"] = OInt 4611686018427387911
  /\ all_int (numerics [B "4611686018427387905"; B "-1"; B "7"]) = true
  /\ map (fun e => (fst e, snd (snd e))) (count_groups [B "a"] rs) = [(B "pan", 2%Z); (B "wye", 1%Z)]
  /\ filter (has_key (group_key [B "a"])) rs <> rs
  /\ pctl_index (Qmake 25 1) 5 = 1%Z /\ pctl_index (Qmake 100 1) 5 = 4%Z /\ pctl_index (Qmake 250 1) 5 = 4%Z
  /\ pctl_nonint (Qmake 50 1) (sort_vals [B "5"; B "1"; B "3"; B "2"]) = OInt 3
  /\ nodupb (map req_text [(ACount, []); (APctl (Qmake 50 1), B "median")]) = true
  /\ run_acc false AMode [B "3"; B "4"; B "4"; B "3"; B "5"] = OText (B "3")
  /\ run_acc false AMin [B "7"; B "-2"; B "11"] = OInt (-2).
Proof. vm_compute. repeat split; try reflexivity; try discriminate; try lia. Qed.

(* ================================================================== fraction *)
(* per (group, field) cell, on the functions verb_fraction calls (frac_value, sum_step): the fractions add up to 1
   (to 100 with -p) whenever the cell's sum is non-zero; with -c the i-th value is the running sum over the total.
   The tie "the cell sees exactly the group's values of the field" is by correspondence. *)
Theorem C10_fractions_sum_to_one :
  forall mult xs S, frac_cell_sum xs = Some S -> ~ (qof S == 0)%Q ->
    (ovals_sum (frac_cell_run false mult S (I 0) xs) == qof mult)%Q.
Proof. exact fractions_sum_to_one. Qed.
Print Assumptions C10_fractions_sum_to_one.

Theorem C10_cumulative_fractions_are_running_sums :
  forall mult S xs, ~ (qof S == 0)%Q -> forall cum,
    Forall2 (fun o r => exists q, oval_q o = Some q /\ (q == r / qof S * qof mult)%Q)
            (frac_cell_run true mult S cum xs) (running (qof cum) (map qof xs)).
Proof. exact cumulative_fractions_are_running_sums. Qed.
Print Assumptions C10_cumulative_fractions_are_running_sums.

(* ================================================================== histogram *)
Theorem C10_histogram_bin_in_range :
  forall lo hi nbins v, (lo < hi)%Q -> (0 < nbins)%Z -> (lo <= v)%Q -> (v <= hi)%Q ->
    exists i, hist_bin lo hi nbins v = Some i /\ (0 <= i < nbins)%Z.
Proof. exact hist_bin_in_range. Qed.
Print Assumptions C10_histogram_bin_in_range.

Theorem C10_histogram_out_of_range_dropped :
  forall lo hi nbins v, (lo < hi)%Q -> ((v < lo)%Q \/ (hi < v)%Q) -> hist_bin lo hi nbins v = None.
Proof. exact hist_bin_outside_dropped. Qed.
Print Assumptions C10_histogram_out_of_range_dropped.

Theorem C10_histogram_counts_add_up :
  forall lo hi nbins (vs : list Q), (lo < hi)%Q -> (0 < nbins)%Z ->
    let step := fun cs v => match hist_bin lo hi nbins v with
                            | Some i => if (i <? 0)%Z then cs else incr_nth (Z.to_nat i) cs | None => cs end in
    Zsum (fold_left step vs (repeat 0%Z (Z.to_nat nbins))) = Z.of_nat (List.length (filter (in_hist lo hi) vs)).
Proof. exact hist_counts_add_up. Qed.
Print Assumptions C10_histogram_counts_add_up.

(* ================================================================== step (per (group, field) cell run, step_cell) *)
(* counter / rsum / rprod: the operation folded over all contributing (present, non-empty, numeric) values so far *)
Theorem C10_step_running_value :
  forall sp name f pre v x, is_running sp = true -> numeric_or_void pre -> is_void v = false -> numof v = Some x ->
    exists o q, step_cell sp name f (stst0 sp) (pre ++ [Some v]) = step_cell sp name f (stst0 sp) pre ++ [Some o]
      /\ oval_q o = Some q /\ (q == fold_left (run_op sp) (contributing pre ++ [qof x]) (run_init sp))%Q.
Proof. exact running_stepper_value. Qed.
Print Assumptions C10_step_running_value.

Theorem C10_step_running_empty_value :
  forall sp name f pre v, is_running sp = true -> is_void v = true ->
    step_cell sp name f (stst0 sp) (pre ++ [Some v]) = step_cell sp name f (stst0 sp) pre ++ [Some (OText [])].
Proof. exact running_stepper_void. Qed.
Print Assumptions C10_step_running_empty_value.

Theorem C10_step_shift_lag_value :
  forall n name f pre v, (1 <= n)%nat ->
    step_cell (SShiftLag n) name f (stst0 (SShiftLag n)) (pre ++ [Some v])
    = step_cell (SShiftLag n) name f (stst0 (SShiftLag n)) pre ++ [Some (OText (match nback n pre with Some p => p | None => [] end))].
Proof. exact shift_lag_value. Qed.
Print Assumptions C10_step_shift_lag_value.

Theorem C10_step_delta_value :
  forall n name f pre v, (1 <= n)%nat -> is_void v = false ->
    step_cell (SDelta n) name f (stst0 (SDelta n)) (pre ++ [Some v])
    = step_cell (SDelta n) name f (stst0 (SDelta n)) pre
      ++ [Some (match nback_num (SDelta n) n pre with Some p => bin_num (fun x y => Some (nv_minus x y)) v p | None => OInt 0 end)].
Proof. exact delta_value. Qed.
Print Assumptions C10_step_delta_value.

Theorem C10_step_ratio_value :
  forall n name f pre v, (1 <= n)%nat -> is_void v = false ->
    step_cell (SRatio n) name f (stst0 (SRatio n)) (pre ++ [Some v])
    = step_cell (SRatio n) name f (stst0 (SRatio n)) pre
      ++ [Some (match nback_num (SRatio n) n pre with Some p => bin_num nv_div v p | None => OInt 1 end)].
Proof. exact ratio_value. Qed.
Print Assumptions C10_step_ratio_value.

Theorem C10_step_delta_is_the_difference :
  forall v p x y, numof v = Some x -> numof p = Some y ->
    exists q, oval_q (bin_num (fun a b => Some (nv_minus a b)) v p) = Some q /\ (q == qof x - qof y)%Q.
Proof. exact delta_is_the_difference. Qed.
Print Assumptions C10_step_delta_is_the_difference.

Theorem C10_step_from_first_value :
  forall name f v0 pre v,
    exists rest, step_cell SFromFirst name f (stst0 SFromFirst) (Some v0 :: pre ++ [Some v])
               = Some (OInt 0) :: rest ++ [Some (bin_num (fun a b => Some (nv_minus a b)) v v0)].
Proof. exact (fun name f v0 pre v => from_first_value name f v0 pre v (fun _ _ => Logic.I)). Qed.
Print Assumptions C10_step_from_first_value.

(* every record is emitted exactly once: FALSE for shift_lead_n with n >= 2 on a group with fewer than n records *)
Theorem C10_step_emits_every_record_refuted :
  exists sps fs gs rs, (List.length (verb_step sps fs gs rs) < List.length rs)%nat.
Proof. exact shift_lead_drops_records. Qed.
Print Assumptions C10_step_emits_every_record_refuted.

Example C10_nonvacuous_verbs :
  verb_fraction [B "x"] [] false false [[(B "x", B "1")]; [(B "x", B "3")]]
  = [[(B "x", OText (B "1")); (B "x_fraction", OFlt (Qmake 1 4))]; [(B "x", OText (B "3")); (B "x_fraction", OFlt (Qmake 3 4))]]
  /\ frac_cell_sum [I 1; I 3] = Some (I 4)
  /\ hist_bin 0 10 5 (Qmake 7 2) = Some 1%Z /\ hist_bin 0 10 5 10 = Some 4%Z /\ hist_bin 0 10 5 11 = None
  /\ step_cell SRsum (B "rsum") (B "x") (stst0 SRsum) [Some (B "2"); None; Some []; Some (B "5")]
     = [Some (OInt 2); None; Some (OText []); Some (OInt 7)]
  /\ step_cell (SDelta 2) (B "delta_2") (B "x") (stst0 (SDelta 2)) [Some (B "2"); Some (B "3"); Some (B "7")]
     = [Some (OInt 0); Some (OInt 0); Some (OInt 5)]
  /\ is_running SRprod = true.
Proof. vm_compute. repeat split; reflexivity. Qed.

Example C10_nonvacuous_step_domain : numeric_or_void [Some (B "2"); None; Some []].
Proof.
  intros v [H|[H|[H|[]]]]; [injection H as <-; right; eexists; vm_compute; reflexivity|discriminate H|injection H as <-; left; reflexivity].
Qed.
