(* C10 proofs, part 3: streaming accumulators = definitions (sums, mean, variance family) over Q / Z. *)
From Miller Require Import C10.Model C10.Verbs C10.Spec.
From Coq Require Import Lqa Lia Qfield.
Open Scope Q_scope.

(* ---------------------------------------------------------------- kernels compute the exact value *)
Lemma qof_plus a b : qof (nv_plus a b) == qof a + qof b.
Proof.
  destruct a as [x|p], b as [y|q]; cbn [nv_plus qof]; try reflexivity.
  destruct (in64 (x + y)); cbn [qof]; [rewrite inject_Z_plus; reflexivity|reflexivity].
Qed.
Lemma qof_times a b : qof (nv_times a b) == qof a * qof b.
Proof.
  destruct a as [x|p], b as [y|q]; cbn [nv_times qof]; try reflexivity.
  destruct (Z.abs (x * y) <=? 9223372036854774784)%Z; cbn [qof]; [rewrite inject_Z_mult; reflexivity|reflexivity].
Qed.

Lemma inject_Z_nonzero n : (n <> 0)%Z -> ~ inject_Z n == 0.
Proof. intros H E. unfold Qeq, inject_Z in E. cbn in E. lia. Qed.

Lemma qof_div_int a n : (n <> 0)%Z -> qof (nv_div_int a n) == qof a / inject_Z n.
Proof.
  intros Hn. pose proof (inject_Z_nonzero n Hn) as Hq. destruct a as [x|p]; cbn [nv_div_int qof]; [|reflexivity].
  destruct (x mod n =? 0)%Z eqn:E; cbn [qof]; [|reflexivity].
  apply Z.eqb_eq in E. pose proof (Z.div_mod x n Hn) as D. rewrite E, Z.add_0_r in D.
  rewrite D at 2. rewrite inject_Z_mult. field. exact Hq.
Qed.

(* ---------------------------------------------------------------- power sums *)
Definition is_moment (a : accname) : bool :=
  match a with ASum | AMean | AVar | AStddev | AMeanEB | ASkewness | AKurtosis => true | _ => false end.

Lemma Qsum_list_cons x l : Qsum_list (x :: l) = x + Qsum_list l.
Proof. reflexivity. Qed.

Lemma numerics_cons v vs : numerics (v :: vs) = match numof v with Some x => x :: numerics vs | None => numerics vs end.
Proof. unfold numerics. cbn [flat_map]. destruct (numof v); reflexivity. Qed.

Lemma moments_from a vs : is_moment a = true -> forall s,
  let s' := fold_left (ingest a) vs s in
  st_count s' = (st_count s + Z.of_nat (List.length (numerics vs)))%Z
  /\ qof (st_s1 s') == qof (st_s1 s) + pow_sum 1 (qs_of vs)
  /\ qof (st_s2 s') == qof (st_s2 s) + pow_sum 2 (qs_of vs)
  /\ qof (st_s3 s') == qof (st_s3 s) + pow_sum 3 (qs_of vs)
  /\ qof (st_s4 s') == qof (st_s4 s) + pow_sum 4 (qs_of vs).
Proof.
  intros Ha. induction vs as [|v vs IH]; intros s; cbn [fold_left].
  - unfold qs_of, pow_sum. cbn [numerics flat_map map Qsum_list fold_right List.length Z.of_nat].
    repeat split; try lia; ring.
  - specialize (IH (ingest a s v)). cbv zeta in IH |- *. destruct IH as (I0 & I1 & I2 & I3 & I4).
    unfold qs_of in *. rewrite numerics_cons.
    assert (Hstep : ingest a s v = match numof v with
                                   | None => s
                                   | Some x => let x2 := nv_times x x in let x3 := nv_times x x2 in let x4 := nv_times x x3 in
                                       mkst (st_count s + 1) (nv_plus (st_s1 s) x) (nv_plus (st_s2 s) x2) (nv_plus (st_s3 s) x3)
                                            (nv_plus (st_s4 s) x4) (st_counts s) (st_best s) (st_data s) end)
      by (destruct a; try discriminate; reflexivity).
    rewrite Hstep in *. clear Hstep. destruct (numof v) as [x|]; [|repeat split; assumption].
    cbv zeta in *. cbn [st_count st_s1 st_s2 st_s3 st_s4] in *. unfold pow_sum in *. cbn [List.length map]. rewrite !Qsum_list_cons.
    rewrite I0, I1, I2, I3, I4. rewrite !qof_plus, !qof_times.
    repeat split; try lia; cbn [qpow]; ring.
Qed.

Lemma moments a vs : is_moment a = true ->
  let s := fold_left (ingest a) vs st0 in
  st_count s = Z.of_nat (List.length (qs_of vs))
  /\ qof (st_s1 s) == pow_sum 1 (qs_of vs) /\ qof (st_s2 s) == pow_sum 2 (qs_of vs)
  /\ qof (st_s3 s) == pow_sum 3 (qs_of vs) /\ qof (st_s4 s) == pow_sum 4 (qs_of vs).
Proof.
  intros Ha. destruct (moments_from a vs Ha st0) as (I0 & I1 & I2 & I3 & I4). cbv zeta.
  unfold qs_of in *. rewrite map_length. cbn [st0 st_count st_s1 st_s2 st_s3 st_s4 qof] in *.
  repeat split; [lia| rewrite I1 | rewrite I2 | rewrite I3 | rewrite I4]; unfold inject_Z; ring.
Qed.

Lemma pow_sum_1 xs : pow_sum 1 xs == Qsum_list xs.
Proof. unfold pow_sum. induction xs as [|x xs IH]; cbn [map]; [reflexivity|]. rewrite !Qsum_list_cons, IH. cbn [qpow]. ring. Qed.

(* ---------------------------------------------------------------- sum *)
Definition oval_q (o : oval) : option Q := match o with OInt z => Some (inject_Z z) | OFlt q => Some q | _ => None end.

Theorem sum_value vs : exists q, oval_q (run_acc false ASum vs) = Some q /\ q == Qsum_list (qs_of vs).
Proof.
  destruct (moments ASum vs eq_refl) as (_ & I1 & _). unfold run_acc. cbn [emit].
  destruct (st_s1 (fold_left (ingest ASum) vs st0)) as [z|q]; cbn [oval_of_nv oval_q qof] in *;
    eexists; (split; [reflexivity|]); rewrite I1; apply pow_sum_1.
Qed.

Lemma Zsum_abs_nonneg zs : (0 <= Zsum_list (map Z.abs zs))%Z.
Proof. induction zs as [|z zs IH]; cbn [map]; [cbn; lia|]. change (Zsum_list (Z.abs z :: map Z.abs zs)) with (Z.abs z + Zsum_list (map Z.abs zs))%Z. lia. Qed.

(* st_s1 of the sum accumulator evolves independently of the other fields *)
Lemma sum_s1_only vs : forall s s', st_s1 s = st_s1 s' ->
  st_s1 (fold_left (ingest ASum) vs s) = st_s1 (fold_left (ingest ASum) vs s').
Proof.
  induction vs as [|v vs IH]; intros s s' H; cbn [fold_left]; [exact H|].
  apply IH. cbn [ingest]. destruct (numof v); cbn [st_s1]; congruence.
Qed.

Lemma Zsum_list_cons z zs : Zsum_list (z :: zs) = (z + Zsum_list zs)%Z.
Proof. reflexivity. Qed.

(* sums of ints stay ints: exact, as long as the magnitudes add up within int64 *)
Lemma sum_ints_from vs : forall acc : Z,
  all_int (numerics vs) = true ->
  (Z.abs acc + Zsum_list (map Z.abs (ints_of (numerics vs))) <= 9223372036854775807)%Z ->
  st_s1 (fold_left (ingest ASum) vs (mkst (st_count st0) (I acc) (st_s2 st0) (st_s3 st0) (st_s4 st0) [] MAbsent []))
  = I (acc + Zsum_list (ints_of (numerics vs))).
Proof.
  induction vs as [|v vs IH]; intros acc Hall Hb.
  - cbn [fold_left st_s1 numerics flat_map ints_of Zsum_list fold_right]. f_equal. lia.
  - rewrite numerics_cons in Hall, Hb |- *. cbn [fold_left ingest]. destruct (numof v) as [[z|q]|].
    + change (ints_of (I z :: numerics vs)) with (z :: ints_of (numerics vs)) in *.
      change (all_int (I z :: numerics vs)) with (all_int (numerics vs)) in Hall.
      cbn [map] in Hb. rewrite Zsum_list_cons in Hb |- *.
      cbn [st_s1 st_count st_s2 st_s3 st_s4 st_counts st_best st_data nv_plus].
      pose proof (Zsum_abs_nonneg (ints_of (numerics vs))) as Hnn.
      assert (Hin : in64 (acc + z) = true) by (unfold in64; apply andb_true_intro; split; apply Z.leb_le; lia). rewrite Hin.
      etransitivity;
        [apply sum_s1_only with (s' := mkst (st_count st0) (I (acc + z)) (st_s2 st0) (st_s3 st0) (st_s4 st0) [] MAbsent []); reflexivity|].
      rewrite IH; [f_equal; lia|assumption|lia].
    + cbn in Hall. discriminate.
    + apply IH; assumption.
Qed.

Theorem sum_ints_stay_int vs :
  all_int (numerics vs) = true ->
  (Zsum_list (map Z.abs (ints_of (numerics vs))) <= 9223372036854775807)%Z ->
  run_acc false ASum vs = OInt (Zsum_list (ints_of (numerics vs))).
Proof.
  intros Hall Hb. unfold run_acc. cbn [emit]. change st0 with (mkst (st_count st0) (I 0) (st_s2 st0) (st_s3 st0) (st_s4 st0) [] MAbsent []).
  rewrite sum_ints_from; [reflexivity|assumption|cbn; lia].
Qed.

(* ---------------------------------------------------------------- mean *)
Theorem mean_value vs : qs_of vs <> [] ->
  exists q, oval_q (run_acc false AMean vs) = Some q /\ q == mean_def (qs_of vs).
Proof.
  intros Hne. destruct (moments AMean vs eq_refl) as (I0 & I1 & _). unfold run_acc. cbn [emit].
  set (s := fold_left (ingest AMean) vs st0) in *.
  assert (Hn : (st_count s <> 0)%Z) by (rewrite I0; destruct (qs_of vs); [congruence|cbn; lia]).
  apply Z.eqb_neq in Hn as Hn'. rewrite Hn'.
  pose proof (qof_div_int (st_s1 s) (st_count s) Hn) as Hd.
  destruct (nv_div_int (st_s1 s) (st_count s)) as [z|q]; cbn [oval_of_nv oval_q qof] in *;
    eexists; (split; [reflexivity|]); rewrite Hd, I1, I0; unfold mean_def; now rewrite pow_sum_1.
Qed.
Theorem mean_empty vs : qs_of vs = [] -> run_acc false AMean vs = OVoid.
Proof.
  intros He. destruct (moments AMean vs eq_refl) as (I0 & _). unfold run_acc. cbn [emit]. rewrite I0, He. reflexivity.
Qed.

(* ---------------------------------------------------------------- variance *)
Lemma inject_Z_succ n : inject_Z (Z.of_nat (S n)) == inject_Z (Z.of_nat n) + 1.
Proof. rewrite Nat2Z.inj_succ. unfold Z.succ. rewrite inject_Z_plus. reflexivity. Qed.

(* sum (x-m)^2 = sum x^2 - 2 m sum x + n m^2, for every m *)
Lemma sumsq_dev xs m :
  Qsum_list (map (fun x => (x - m) * (x - m)) xs)
  == pow_sum 2 xs - 2 * m * Qsum_list xs + inject_Z (Z.of_nat (List.length xs)) * m * m.
Proof.
  unfold pow_sum. induction xs as [|x xs IH].
  - cbn. ring.
  - cbn [map List.length]. rewrite !Qsum_list_cons, IH, inject_Z_succ. cbn [qpow]. ring.
Qed.

Lemma Qsum_sq_nonneg xs m : 0 <= Qsum_list (map (fun x => (x - m) * (x - m)) xs).
Proof.
  induction xs as [|x xs IH]; cbn [map]; [cbn; lra|]. rewrite Qsum_list_cons.
  assert (0 <= (x - m) * (x - m)) by (destruct (Qlt_le_dec (x - m) 0); nra). lra.
Qed.

(* the code's numerator sum2 - mean*(2*sum - n*mean) IS sum (x-mean)^2; the round-off clamp never fires over Q *)
Lemma var_numerator_def xs : xs <> [] ->
  var_numerator (Z.of_nat (List.length xs)) (Qsum_list xs) (pow_sum 2 xs)
  == Qsum_list (map (fun x => (x - mean_def xs) * (x - mean_def xs)) xs).
Proof.
  intros Hne. unfold var_numerator.
  set (n := inject_Z (Z.of_nat (List.length xs))).
  assert (Hn : ~ n == 0) by (apply inject_Z_nonzero; destruct xs; [congruence|cbn; lia]).
  assert (E : pow_sum 2 xs - Qsum_list xs / n * (2 * Qsum_list xs - n * (Qsum_list xs / n))
              == Qsum_list (map (fun x => (x - mean_def xs) * (x - mean_def xs)) xs)).
  { rewrite sumsq_dev. unfold mean_def. fold n. field. exact Hn. }
  destruct (Qle_bool 0 _) eqn:B; [exact E|].
  exfalso. assert (Hle : 0 <= pow_sum 2 xs - Qsum_list xs / n * (2 * Qsum_list xs - n * (Qsum_list xs / n)))
    by (rewrite E; apply Qsum_sq_nonneg).
  apply Qle_bool_iff in Hle. congruence.
Qed.

Lemma var_numerator_compat n a a' b b' : a == a' -> b == b' -> var_numerator n a b == var_numerator n a' b'.
Proof.
  intros Ha Hb. unfold var_numerator.
  assert (E : b - a / inject_Z n * (2 * a - inject_Z n * (a / inject_Z n)) == b' - a' / inject_Z n * (2 * a' - inject_Z n * (a' / inject_Z n)))
    by (rewrite Ha, Hb; reflexivity).
  destruct (Qle_bool 0 (b - _)) eqn:B1, (Qle_bool 0 (b' - _)) eqn:B2; try reflexivity; try exact E.
  - apply Qle_bool_iff in B1. rewrite E in B1. apply Qle_bool_iff in B1. congruence.
  - apply Qle_bool_iff in B2. rewrite <- E in B2. apply Qle_bool_iff in B2. congruence.
Qed.

Theorem finalize_var_def a vs : is_moment a = true -> (2 <= List.length (qs_of vs))%nat ->
  let s := fold_left (ingest a) vs st0 in
  exists q, finalize_var (st_count s) (qof (st_s1 s)) (qof (st_s2 s)) = Some q /\ q == var_def (qs_of vs).
Proof.
  intros Ha Hlen. destruct (moments a vs Ha) as (I0 & I1 & I2 & _). cbv zeta.
  set (s := fold_left (ingest a) vs st0) in *. unfold finalize_var. rewrite I0.
  destruct (Z.of_nat (List.length (qs_of vs)) <? 2)%Z eqn:E; [lia|]. eexists. split; [reflexivity|].
  rewrite (var_numerator_compat _ _ (Qsum_list (qs_of vs)) _ (pow_sum 2 (qs_of vs))); [|now rewrite I1, pow_sum_1|exact I2].
  rewrite var_numerator_def by (destruct (qs_of vs); [cbn in Hlen; lia|congruence]).
  unfold var_def. reflexivity.
Qed.

Theorem var_stream_eq_def vs : (2 <= List.length (qs_of vs))%nat ->
  exists q, run_acc false AVar vs = OFlt q /\ q == var_def (qs_of vs).
Proof.
  intros H. destruct (finalize_var_def AVar vs eq_refl H) as (q & E & Hq). exists q. split; [|exact Hq].
  unfold run_acc. cbn [emit]. now rewrite E.
Qed.
Theorem stddev_stream_eq_def vs : (2 <= List.length (qs_of vs))%nat ->
  exists q, run_acc false AStddev vs = OSqrt q /\ q == var_def (qs_of vs).
Proof.
  intros H. destruct (finalize_var_def AStddev vs eq_refl H) as (q & E & Hq). exists q. split; [|exact Hq].
  unfold run_acc. cbn [emit]. now rewrite E.
Qed.
Theorem meaneb_stream_eq_def vs : (2 <= List.length (qs_of vs))%nat ->
  exists q, run_acc false AMeanEB vs = OSqrt q /\ q == var_def (qs_of vs) / inject_Z (Z.of_nat (List.length (qs_of vs))).
Proof.
  intros H. destruct (finalize_var_def AMeanEB vs eq_refl H) as (q & E & Hq).
  destruct (moments AMeanEB vs eq_refl) as (I0 & _).
  eexists. split; [unfold run_acc; cbn [emit]; rewrite E; reflexivity|]. rewrite I0, Hq. reflexivity.
Qed.
Theorem var_too_few vs : (List.length (qs_of vs) < 2)%nat -> run_acc false AVar vs = OVoid.
Proof.
  intros H. destruct (moments AVar vs eq_refl) as (I0 & _). unfold run_acc. cbn [emit]. unfold finalize_var. rewrite I0.
  destruct (Z.of_nat (List.length (qs_of vs)) <? 2)%Z eqn:E; [reflexivity|lia].
Qed.
