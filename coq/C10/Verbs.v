(* C10 model, part 2: grouping (GetSelectedValuesJoined + lib.OrderedMap) and the verbs, as coded:
   count, count-distinct, count-similar, uniq -g, stats1 (plain, -s is not modelled, -w sliding window),
   Definitions only. *)
From Miller Require Export C10.Model.
Open Scope char_scope.

(* output records: insertion-ordered, values are what the accumulators emit *)
Definition orec := list (bytes * oval).
Definition otext_rec (r : record) : orec := map (fun kv => (fst kv, OText (snd kv))) r.

(* ------------------------------------------------------------------ grouping key *)
Definition join_comma (l : list bytes) : bytes :=
  match l with [] => [] | x :: t => fold_left (fun acc y => acc ++ "," :: y) t x end.
Fixpoint selected (fs : list bytes) (r : record) : option (list bytes) :=
  match fs with
  | [] => Some []
  | f :: t => match get f r, selected t r with Some v, Some vs => Some (v :: vs) | _, _ => None end
  end.
(* GetSelectedValuesJoined: None when a field is missing; values joined with "," *)
Definition group_key (gs : list bytes) (r : record) : option bytes := option_map join_comma (selected gs r).

(* ------------------------------------------------------------------ generic grouped streaming fold *)
Section GFold.
  Context {R S : Type}.
  Variables (key : R -> option bytes) (init : R -> S) (upd : S -> R -> S).
  Definition gstep (m : omap S) (r : R) : omap S :=
    match key r with
    | None => m
    | Some k => oput k (upd (match oget k m with Some s => s | None => init r end) r) m
    end.
  Definition gfold (rs : list R) : omap S := fold_left gstep rs [].
End GFold.

(* PutCopy of (name_i, value_i) pairs into a fresh record *)
Definition put_all (kvs : list (bytes * oval)) (r : orec) : orec := fold_left (fun acc kv => oput (fst kv) (snd kv) acc) kvs r.
Definition group_fields (gs : list bytes) (vals : list bytes) : list (bytes * oval) :=
  map (fun kv => (fst kv, OText (snd kv))) (combine gs vals).

(* ------------------------------------------------------------------ count *)
Definition count_groups (gs : list bytes) (rs : list record) : omap (list bytes * Z) :=
  gfold (group_key gs)
        (fun r => (match selected gs r with Some vs => vs | None => [] end, 0%Z))
        (fun s _ => (fst s, (snd s + 1)%Z)) rs.

(* gs = None: `count` without -g *)
Definition verb_count (gs : option (list bytes)) (only_n : bool) (out : bytes) (rs : list record) : list orec :=
  match gs with
  | None => [[(out, OInt (Z.of_nat (List.length rs)))]]
  | Some gs =>
      let m := count_groups gs rs in
      if only_n then [[(out, OInt (Z.of_nat (List.length m)))]]
      else map (fun e => put_all (group_fields gs (fst (snd e)) ++ [(out, OInt (snd (snd e)))]) []) m
  end.

(* ------------------------------------------------------------------ uniq -g / count-distinct -f (lashed) *)
(* transformWithCounts (show_counts: uniq -c, count-distinct), transformNumDistinctOnly (-n),
   transformWithoutCounts (plain uniq -g: emits at first sight) *)
Definition verb_uniq (gs : list bytes) (show_counts only_n : bool) (out : bytes) (rs : list record) : list orec :=
  let m := count_groups gs rs in
  if only_n then [[(B "count", OInt (Z.of_nat (List.length m)))]]
  else map (fun e => put_all (group_fields gs (fst (snd e)) ++ (if show_counts then [(out, OInt (snd (snd e)))] else [])) []) m.

(* count-distinct -u (transformUnlashed): per field name (first-seen order of names; every listed name is
   registered by every record), counts by value text *)
Definition unlashed_step (fs : list bytes) (m : omap (omap Z)) (r : record) : omap (omap Z) :=
  fold_left (fun m f =>
               let cm := match oget f m with Some cm => cm | None => [] end in
               oput f (match get f r with Some v => cm_incr v cm | None => cm end) m) fs m.
Definition verb_count_distinct_u (fs : list bytes) (rs : list record) : list orec :=
  let m := fold_left (unlashed_step fs) rs [] in
  flat_map (fun e => map (fun vc => [(B "field", OText (fst e)); (B "value", OText (fst vc)); (B "count", OInt (snd vc))]) (snd e)) m.

(* ------------------------------------------------------------------ count-similar *)
Definition verb_count_similar (gs : list bytes) (out : bytes) (rs : list record) : list orec :=
  let m := gfold (group_key gs) (fun _ => []) (fun (s : list record) r => s ++ [r]) rs in
  flat_map (fun e => let n := OInt (Z.of_nat (List.length (snd e))) in
                     map (fun r => oput out n (otext_rec r)) (snd e)) m.

(* ------------------------------------------------------------------ stats1 *)
Definition accname_text (a : accname) (ptext : bytes) : bytes :=
  match a with
  | ACount => B "count" | ANullCount => B "null_count" | ADistinctCount => B "distinct_count" | AMode => B "mode"
  | AAntimode => B "antimode" | ASum => B "sum" | AMean => B "mean" | AVar => B "var" | AStddev => B "stddev"
  | AMeanEB => B "meaneb" | ASkewness => B "skewness" | AKurtosis => B "kurtosis" | AMin => B "min" | AMax => B "max"
  | AMinLen => B "minlen" | AMaxLen => B "maxlen" | AMad => B "mad" | APctl _ => ptext
  end.
(* an accumulator request: the model name and the text it was requested under (p25, median, ...) *)
Definition accreq := (accname * bytes)%type.
Definition req_text (a : accreq) : bytes := accname_text (fst a) (snd a).

Definition level3 := omap accst.              (* accumulator text -> state *)
Definition level2 := omap level3.             (* value field name -> ... *)

(* ingestWithoutValueFieldRegexes for one record *)
Definition feed (a : accname) (s : accst) (v : val) : accst :=
  if is_void v && negb (accname_eqb a ANullCount) then s else ingest a s v.
Definition ingest_l3 (accs : list accreq) (v : val) (l3 : level3) : level3 :=
  fold_left (fun l3 a =>
               let s := match oget (req_text a) l3 with Some s => s | None => st0 end in
               oput (req_text a) (feed (fst a) s v) l3) accs l3.
Definition ingest_l2 (accs : list accreq) (fs : list bytes) (r : record) (l2 : level2) : level2 :=
  fold_left (fun l2 f =>
               match get f r with
               | None => l2
               | Some v => oput f (ingest_l3 accs v (match oget f l2 with Some l3 => l3 | None => [] end)) l2
               end) fs l2.

Definition stats1_groups (accs : list accreq) (fs gs : list bytes) (rs : list record) : omap (list bytes * level2) :=
  gfold (group_key gs)
        (fun r => (match selected gs r with Some vs => vs | None => [] end, []))
        (fun s r => (fst s, ingest_l2 accs fs r (snd s))) rs.

(* the accumulator behind a request text (first request with that text) *)
Fixpoint acc_of_text (accs : list accreq) (t : bytes) : accname :=
  match accs with [] => ACount | a :: rest => if beqb (req_text a) t then fst a else acc_of_text rest t end.

Definition emit_l2 (interp : bool) (accs : list accreq) (l2 : level2) : list (bytes * oval) :=
  flat_map (fun fe => map (fun ae => ((fst fe ++ "_" :: fst ae)%list, emit interp (acc_of_text accs (fst ae)) (snd ae))) (snd fe)) l2.

Definition verb_stats1 (interp : bool) (accs : list accreq) (fs gs : list bytes) (rs : list record) : list orec :=
  map (fun e => put_all (group_fields gs (fst (snd e)) ++ emit_l2 interp accs (snd (snd e))) [])
      (stats1_groups accs fs gs rs).

(* stats1 -w n (handleInputRecordWindowed): per group the last n window entries (value fields only); after every
   record the group's accumulators are reset and re-fed from the window; statistics are appended to the record.
   The level-2/3 maps persist (Reset keeps the entries), so output field order is first-seen order. *)
Definition window_entry (fs : list bytes) (r : record) : record :=
  flat_map (fun f => match get f r with Some v => [(f, v)] | None => [] end) fs.
Definition reset_l2 (l2 : level2) : level2 := map (fun fe => (fst fe, map (fun ae => (fst ae, st0)) (snd fe))) l2.
Definition last_n {A} (n : nat) (l : list A) : list A := skipn (List.length l - n) l.

Record wstate := mkw { w_groups : omap (list bytes * list record * level2); w_out : list orec }.
Definition stats1w_step (interp : bool) (accs : list accreq) (fs gs : list bytes) (n : nat) (st : wstate) (r : record) : wstate :=
  match group_key gs r with
  | None => st
  | Some k =>
      let '(gv, win, l2) := match oget k (w_groups st) with
                            | Some x => x
                            | None => (match selected gs r with Some vs => vs | None => [] end, [], [])
                            end in
      let win' := (if (n <=? List.length win)%nat then tl win else win) ++ [window_entry fs r] in
      let l2' := fold_left (fun l2 e => ingest_l2 accs fs e l2) win' (reset_l2 l2) in
      mkw (oput k (gv, win', l2') (w_groups st))
          (w_out st ++ [put_all (group_fields gs gv ++ emit_l2 interp accs l2') (otext_rec r)])
  end.
Definition verb_stats1_w (interp : bool) (accs : list accreq) (fs gs : list bytes) (n : nat) (rs : list record) : list orec :=
  w_out (fold_left (stats1w_step interp accs fs gs n) rs (mkw [] [])).
