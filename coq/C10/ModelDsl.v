(* C10 model, DSL statistics functions (pkg/bifs/stats.go): count, sum, sum2, sum3, sum4, mean, variance, stddev, meaneb,
   skewness, kurtosis, minlen, maxlen, null_count, distinct_count, mode, antimode, median, percentile, percentiles (with
   the options map), sort_collection -- on arrays, on maps (the values of the map), on empty collections and on
   non-collections.  Definitions only (proofs: ProofsDsl.v).

   Value domain: an element is a byte string whose type is inferred from its text ([Model.classify]), as for values that
   come from record fields: canonical ints, d+.d+ decimals, the empty string (VOID), everything else a string.  (JSON string
   elements that look like numbers -- type string, text "1" -- are outside this domain.)
   An error value prints as the text (error); it is modelled as [OText "(error)"]. *)
From Miller Require Export C10.Model C10.Verbs.
Open Scope char_scope.

Definition err_text : bytes := B "(error)".
Definition OErr : oval := OText err_text.

(* ------------------------------------------------------------------ collection_sum_of_function *)
(* the running value of CollectionFold(collection, 0, a + f(b)): a number, or an error once a string was met.
   plus_dispositions: (INT|FLOAT, VOID) = _1___ (the void is skipped), (INT|FLOAT, ERROR) = error, (ERROR, _) = error;
   times_dispositions: (VOID, VOID) = void, (STRING, STRING) = error *)
Inductive sv := SNum (x : nv) | SErr.

(* f(element): BIF_sum e; BIF_sum2 e*e; BIF_sum3 e*(e*e); BIF_sum4 sq := e*e; sq*sq *)
Definition pow_elem (k : nat) (x : nv) : nv :=
  match k with
  | 1%nat => x
  | 2%nat => nv_times x x
  | 3%nat => nv_times x (nv_times x x)
  | _ => nv_times (nv_times x x) (nv_times x x)
  end.

Definition sum_step (k : nat) (a : sv) (v : val) : sv :=
  match a with
  | SErr => SErr
  | SNum s => match numof v with
              | Some x => SNum (nv_plus s (pow_elem k x))
              | None => if is_void v then SNum s else SErr
              end
  end.
Definition dsl_sumk (k : nat) (xs : list val) : sv := fold_left (sum_step k) xs (SNum (I 0)).
Definition oval_of_sv (s : sv) : oval := match s with SNum x => oval_of_nv x | SErr => OErr end.

(* ------------------------------------------------------------------ the functions with a scalar result *)
Inductive dslfun :=
| DCount | DSum | DSum2 | DSum3 | DSum4 | DMean | DVariance | DStddev | DMeanEB | DSkewness | DKurtosis
| DMinLen | DMaxLen | DNullCount | DDistinctCount | DMode | DAntimode
| DMedian (il : bool) | DPercentile (il : bool) (p : Q).

(* BIF_count: len(array) / FieldCount -- every element counts, void or not *)
Definition dsl_n (xs : list val) : Z := Z.of_nat (List.length xs).

(* the finalizers BIF_finalize_variance / _stddev / _mean_eb / _skewness / _kurtosis and BIF_divide(sum, n) are the code
   the stats1 accumulators call too: [Model.emit] on a state holding n and the power sums *)
Definition finalize (a : accname) (n : Z) (s1 s2 s3 s4 : nv) : oval := emit false a (mkst n s1 s2 s3 s4 [] MAbsent []).

(* BIF_variance ...: n := count; sum := BIF_sum; sum2 := BIF_sum2 (...); finalize.  A string in the collection makes
   every power sum an error value: the functions hand that error back (repaired by the fix of first_non_numeric in
   stats.go; the unrepaired code stopped the process in lib.InternalCodingErrorIf) *)
Definition dsl_moment (a : accname) (xs : list val) : oval :=
  match dsl_sumk 1 xs, dsl_sumk 2 xs, dsl_sumk 3 xs, dsl_sumk 4 xs with
  | SNum s1, SNum s2, SNum s3, SNum s4 => finalize a (dsl_n xs) s1 s2 s3 s4
  | _, _, _, _ => OErr
  end.

(* counts by OriginalString in first-seen order (lib.OrderedMap in bif_mode_or_antimode; a Go map in BIF_distinct_count,
   of which only the size is used) *)
Definition dsl_counts (xs : list val) : omap Z := fold_left (fun m v => cm_incr v m) xs [].

(* BIF_minlen_variadic / BIF_minlen_within_map_values: retval := len(first); for each: if clen < retval then retval := clen *)
Definition len_fold (better : Z -> Z -> bool) (xs : list val) : oval :=
  match xs with
  | [] => OVoid
  | x :: _ => OInt (fold_left (fun r v => let c := utf8_len v in if better c r then c else r) xs (utf8_len x))
  end.

(* bif_percentiles_impl for one numeric percentile on the sorted array *)
Definition pctl_of (il : bool) (p : Q) (sorted : list val) : oval :=
  match sorted with
  | [] => OVoid
  | _ => if il then pctl_interp p sorted else pctl_nonint p sorted
  end.

Definition dsl_stat (f : dslfun) (xs : list val) : oval :=
  match f with
  | DCount => OInt (dsl_n xs)
  | DSum => oval_of_sv (dsl_sumk 1 xs)
  | DSum2 => oval_of_sv (dsl_sumk 2 xs)
  | DSum3 => oval_of_sv (dsl_sumk 3 xs)
  | DSum4 => oval_of_sv (dsl_sumk 4 xs)
  | DMean =>                                    (* n == 0 -> VOID; BIF_divide(sum, n): (ERROR, INT) = error *)
      if (dsl_n xs =? 0)%Z then OVoid else
      match dsl_sumk 1 xs with SNum s => finalize AMean (dsl_n xs) s (I 0) (I 0) (I 0) | SErr => OErr end
  | DVariance => dsl_moment AVar xs
  | DStddev => dsl_moment AStddev xs
  | DMeanEB => dsl_moment AMeanEB xs
  | DSkewness => dsl_moment ASkewness xs
  | DKurtosis => dsl_moment AKurtosis xs
  | DMinLen => len_fold (fun c r => (c <? r)%Z) xs
  | DMaxLen => len_fold (fun c r => (r <? c)%Z) xs
  | DNullCount => OInt (Z.of_nat (List.length (filter is_void xs)))     (* sum of 1 for void (or JSON null) elements *)
  | DDistinctCount => OInt (Z.of_nat (List.length (dsl_counts xs)))
  | DMode => mode_of (dsl_counts xs)            (* empty collection -> VOID; ties: first seen *)
  | DAntimode => antimode_of (dsl_counts xs)
  | DMedian il => pctl_of il 50 (sort_vals xs)
  | DPercentile il p => pctl_of il p (sort_vals xs)
  end.

(* ------------------------------------------------------------------ percentiles with its options map *)
Record popts := mkpo { po_ais : bool; po_il : bool; po_oa : bool }.
Definition popts0 : popts := mkpo false false false.

(* one entry of the options map: key text and its value when that is a boolean (None: any other value) *)
Definition optent := (bytes * option bool)%type.
(* the switch in bif_percentiles_with_options_aux: later entries override earlier ones, unknown keys are ignored,
   a non-boolean value for a known key is an error *)
Definition opt_step (o : option popts) (e : optent) : option popts :=
  match o with
  | None => None
  | Some o =>
      let '(k, v) := e in
      if beqb k (B "array_is_sorted") || beqb k (B "ais") then option_map (fun b => mkpo b (po_il o) (po_oa o)) v
      else if beqb k (B "interpolate_linearly") || beqb k (B "il") then option_map (fun b => mkpo (po_ais o) b (po_oa o)) v
      else if beqb k (B "output_array_not_map") || beqb k (B "oa") then option_map (fun b => mkpo (po_ais o) (po_il o) b) v
      else Some o
  end.
Definition parse_opts (es : option (list optent)) : option popts :=
  match es with None => Some popts0 | Some es => fold_left opt_step es (Some popts0) end.

(* a requested percentile: a number with its text (the output map key is ps[i].String(), the text as given),
   or a value that is not a number *)
Inductive pval := PNum (q : Q) (t : bytes) | PBad (t : bytes).
Definition ptext (p : pval) : bytes := match p with PNum _ t => t | PBad t => t end.
Definition pctl_one (il : bool) (sorted : list val) (p : pval) : oval :=
  match p with PBad _ => OErr | PNum q _ => pctl_of il q sorted end.

Inductive dres := ROne (o : oval) | RArr (os : list oval) | RMap (kvs : list (bytes * oval)) | RAbsent.

(* bif_percentiles_impl: outputs in request order; the map form PutCopy's them under the percentile's text
   (a repeated text keeps its first position) *)
Definition pctls_impl (o : popts) (ps : list pval) (sorted : list val) : dres :=
  let outs := map (pctl_one (po_il o) sorted) ps in
  if po_oa o then RArr outs
  else RMap (fold_left (fun m kv => oput (fst kv) (snd kv) m) (combine (map ptext ps) outs) []).

(* ------------------------------------------------------------------ the calls, on any argument *)
Inductive darg := DArr (xs : list val) | DMap (kvs : list (bytes * val)) | DScalar (v : val) | DAbsent.
Inductive dcall :=
| CStat (f : dslfun)                                              (* one-argument forms; DMedian/DPercentile: see CMed/CPctl *)
| CSort
| CPctls (ps : option (list pval)) (opts : option (list optent))  (* ps = None: the second argument is not an array *)
| CPctl (p : pval) (opts : option (list optent))
| CMed (opts : option (list optent)).

(* bif_percentiles_with_options_aux after check_collection *)
Definition pctls_call (ps : option (list pval)) (opts : option (list optent)) (is_array : bool) (xs : list val) : dres :=
  match parse_opts opts with
  | None => ROne OErr
  | Some o =>
      if po_ais o && negb is_array then ROne OErr            (* FromNotArrayError *)
      else match ps with
           | None => ROne OErr                                (* percentiles argument is not an array *)
           | Some ps => pctls_impl o ps (if po_ais o then xs else sort_vals xs)
           end
  end.
(* bif_percentile_with_options_aux: the first output *)
Definition first_of (r : dres) : dres :=
  match r with
  | RArr (o :: _) => ROne o
  | RMap ((_, o) :: _) => ROne o
  | RArr [] | RMap [] => ROne OErr
  | _ => r
  end.

Definition call_on (c : dcall) (is_array : bool) (xs : list val) : dres :=
  match c with
  | CStat f => ROne (dsl_stat f xs)
  | CSort => RArr (map oval_of_val (sort_vals xs))
  | CPctls ps opts => pctls_call ps opts is_array xs
  | CPctl p opts => first_of (pctls_call (Some [p]) opts is_array xs)
  | CMed opts => first_of (pctls_call (Some [PNum 50 (B "50")]) opts is_array xs)
  end.

(* check_collection: array or map -> the function proper on the values; absent -> absent; anything else -> error *)
Definition dsl_call (c : dcall) (a : darg) : dres :=
  match a with
  | DArr xs => call_on c true xs
  | DMap kvs => call_on c false (map snd kvs)
  | DScalar _ => ROne OErr
  | DAbsent => RAbsent
  end.
