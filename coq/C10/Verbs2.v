(* C10 model, part 3: fraction, step, merge-fields, histogram, top, most/least-frequent, fill-down -- as coded.
   Definitions only. *)
From Miller Require Export C10.Model C10.Verbs.
Open Scope char_scope.

(* BIF_divide on numbers: int/int exact when divisible, else float; None = division by zero (NaN / +-Inf in Go) *)
Definition nv_div (a b : nv) : option nv :=
  match a, b with
  | I x, I y => if (y =? 0)%Z then None
                else if (x mod y =? 0)%Z then Some (I (x / y)) else Some (F (inject_Z x / inject_Z y))
  | _, _ => if Qeq_bool (qof b) 0 then None else Some (F (qof a / qof b))
  end.
Definition nv_is_zero (a : nv) : bool := Qeq_bool (qof a) 0.      (* mlrval.Equals(x, FromInt(0)) *)
Definition dflt_nv (o : option nv) (d : nv) : nv := match o with Some x => x | None => d end.
Definition err_text : oval := OText (B "(error)").

(* ================================================================== fraction (pkg/transformers/fraction.go) *)
(* one output value: numerator = value (+ running cumulative with -c); 0 for a zero numerator; error for a zero sum *)
Definition frac_value (cumu : bool) (mult : nv) (x cum sum : nv) : oval :=
  let num := if cumu then nv_plus x cum else x in
  if nv_is_zero num then OInt 0
  else match nv_div num sum with Some q => oval_of_nv (nv_times q mult) | None => err_text end.

Definition sum_step (o : option nv) (x : nv) : nv := match o with None => x | Some s => nv_plus s x end.

(* pass 1: sums per (group, field); non-numeric values are outside the domain (AssertNumeric is fatal in the code) *)
Definition frac_pass1 (fs gs : list bytes) (sums : omap (omap nv)) (r : record) : omap (omap nv) :=
  match group_key gs r with
  | None => sums
  | Some k =>
      let sg := match oget k sums with Some m => m | None => [] end in
      oput k (fold_left (fun m f => match get f r with
                                    | None => m
                                    | Some v => match numof v with None => m | Some x => oput f (sum_step (oget f m) x) m end
                                    end) fs sg) sums
  end.

Definition frac_suffix (pct cumu : bool) : bytes :=
  ((if cumu then B "_cumulative" else []) ++ (if pct then B "_percent" else B "_fraction"))%list.

(* pass 2: every record passes through, decorated; cumulative sums advance per (group, field) *)
Definition frac_pass2 (fs gs : list bytes) (pct cumu : bool) (sums : omap (omap nv))
           (st : omap (omap nv) * list orec) (r : record) : omap (omap nv) * list orec :=
  let '(cumus, out) := st in
  match group_key gs r with
  | None => (cumus, out ++ [otext_rec r])
  | Some k =>
      let sg := match oget k sums with Some m => m | None => [] end in
      let cg := match oget k cumus with Some m => m | None => [] end in
      let '(cg', o') :=
        fold_left (fun (acc : omap nv * orec) f =>
                     let '(cg, o) := acc in
                     match get f r with
                     | None => acc
                     | Some v =>
                         match numof v with
                         | None => acc
                         | Some x =>
                             let cum := dflt_nv (oget f cg) (I 0) in
                             let value := frac_value cumu (if pct then I 100 else I 1) x cum (dflt_nv (oget f sg) (I 0)) in
                             (if cumu then oput f (nv_plus cum x) cg else cg, oput (f ++ frac_suffix pct cumu)%list value o)
                         end
                     end) fs (cg, otext_rec r) in
      (oput k cg' cumus, out ++ [o'])
  end.

Definition verb_fraction (fs gs : list bytes) (pct cumu : bool) (rs : list record) : list orec :=
  let sums := fold_left (frac_pass1 fs gs) rs [] in
  snd (fold_left (frac_pass2 fs gs pct cumu sums) rs ([], [])).

(* the run of one (group, field) cell on its values, in order: what the two passes compute for it *)
Definition frac_cell_sum (xs : list nv) : option nv := fold_left (fun o x => Some (sum_step o x)) xs None.
Fixpoint frac_cell_run (cumu : bool) (mult : nv) (sum : nv) (cum : nv) (xs : list nv) : list oval :=
  match xs with
  | [] => []
  | x :: t => frac_value cumu mult x cum sum :: frac_cell_run cumu mult sum (if cumu then nv_plus cum x else cum) t
  end.

(* ================================================================== step (pkg/transformers/step.go) *)
Inductive stepper :=
| SCounter | SRsum | SRprod | SFromFirst
| SDelta (n : nat) | SRatio (n : nat) | SShiftLag (n : nat) | SShiftLead (n : nat)
| SEwma (alphas : list (Q * bytes)).            (* (alpha, output suffix) *)
Definition stepreq := (stepper * bytes)%type.     (* with the name it was requested under *)

(* stepper state.  ring: the last pushes, newest first, at most n long (tValueRing) *)
Record stst := mkss_ { sx_ring : list (option val); sx_acc : nv; sx_first : option val; sx_prevs : list nv; sx_have : bool }.
Definition stst0 (sp : stepper) : stst :=
  mkss_ [] (match sp with SRprod => I 1 | _ => I 0 end) None [] false.

(* push: returns the value from n pushes back and whether n pushes have been seen *)
Definition ring_push (n : nat) (v : option val) (ring : list (option val)) : option val * bool * list (option val) :=
  let has := (n <=? List.length ring)%nat in
  (if has then nth (n - 1) ring None else None, has, firstn n (v :: ring)).

Definition wrec := (record * orec)%type.          (* input texts, output record under construction *)
Definition lead_of (sp : stepper) : nat := match sp with SShiftLead n => n | _ => 0%nat end.

Definition out_name (f name : bytes) : bytes := (f ++ "_" :: name)%list.
Definition set_center (win : list (option wrec)) (c : wrec) : list (option wrec) :=
  match win with [] => [] | _ :: t => Some c :: t end.
Definition put_out (k : bytes) (v : oval) (c : wrec) : wrec := (fst c, oput k v (snd c)).

Definition bin_num (op : nv -> nv -> option nv) (a b : val) : oval :=
  match numof a, numof b with
  | Some x, Some y => match op x y with Some z => oval_of_nv z | None => ONan end
  | _, _ => err_text
  end.

(* stepper.process(windowKeeper): acts on the record at the window center (position 0) *)
Definition sprocess (sp : stepper) (name f : bytes) (st : stst) (win : list (option wrec)) : stst * list (option wrec) :=
  match win with
  | Some c :: _ =>
      let cur := get f (fst c) in
      let o := out_name f name in
      match sp with
      | SCounter | SRsum | SRprod =>
          match cur with
          | None => (st, win)
          | Some v =>
              if is_void v then (st, set_center win (put_out o (OText []) c))
              else match numof v with
                   | None => (st, set_center win (put_out o err_text c))
                   | Some x =>
                       let acc := match sp with
                                  | SCounter => nv_plus (sx_acc st) (I 1)
                                  | SRsum => nv_plus x (sx_acc st)
                                  | _ => nv_times x (sx_acc st)
                                  end in
                       (mkss_ (sx_ring st) acc (sx_first st) (sx_prevs st) (sx_have st), set_center win (put_out o (oval_of_nv acc) c))
                   end
          end
      | SFromFirst =>
          match cur with
          | None => (st, win)
          | Some v =>
              match sx_first st with
              | None => (mkss_ (sx_ring st) (sx_acc st) (Some v) (sx_prevs st) (sx_have st), set_center win (put_out o (OInt 0) c))
              | Some v0 => (st, set_center win (put_out o (bin_num (fun x y => Some (nv_minus x y)) v v0) c))
              end
          end
      | SDelta n | SRatio n =>
          match cur with
          | None => (mkss_ (snd (ring_push n None (sx_ring st))) (sx_acc st) (sx_first st) (sx_prevs st) (sx_have st), win)
          | Some v =>
              if is_void v then
                (mkss_ (snd (ring_push n None (sx_ring st))) (sx_acc st) (sx_first st) (sx_prevs st) (sx_have st),
                 set_center win (put_out o (OText []) c))
              else
                let '(prev, has, ring') := ring_push n (Some v) (sx_ring st) in
                let value := match has, prev with
                             | true, Some p => match sp with
                                               | SDelta _ => bin_num (fun x y => Some (nv_minus x y)) v p
                                               | _ => bin_num nv_div v p
                                               end
                             | _, _ => OInt (match sp with SDelta _ => 0 | _ => 1 end)
                             end in
                (mkss_ ring' (sx_acc st) (sx_first st) (sx_prevs st) (sx_have st), set_center win (put_out o value c))
          end
      | SShiftLag n =>
          let '(prev, has, ring') := ring_push n cur (sx_ring st) in
          let value := match has, prev with true, Some p => OText p | _, _ => OText [] end in
          (mkss_ ring' (sx_acc st) (sx_first st) (sx_prevs st) (sx_have st), set_center win (put_out o value c))
      | SShiftLead n =>
          match nth n win None with
          | None => (st, set_center win (put_out o (OText []) c))
          | Some nx => match get f (fst nx) with
                       | Some v => (st, set_center win (put_out o (OText v) c))
                       | None => (st, win)
                       end
          end
      | SEwma alphas =>
          match cur with
          | None => (st, win)
          | Some v =>
              match numof v with
              | None => (st, win)                                      (* outside the domain *)
              | Some x =>
                  if sx_have st then
                    let nexts := map (fun ap => F (qof x * fst (fst ap) + qof (snd ap) * (1 - fst (fst ap))))
                                     (combine alphas (sx_prevs st)) in
                    (mkss_ (sx_ring st) (sx_acc st) (sx_first st) nexts true,
                     set_center win (fold_left (fun c an => put_out (f ++ B "_ewma_" ++ snd (fst an))%list (oval_of_nv (snd an)) c)
                                               (combine alphas nexts) c))
                  else
                    (mkss_ (sx_ring st) (sx_acc st) (sx_first st) (map (fun _ => x) alphas) true,
                     set_center win (fold_left (fun c a => put_out (f ++ B "_ewma_" ++ snd a)%list (oval_of_val v) c) alphas c))
              end
          end
      end
  | _ => (st, win)
  end.

(* clearPrevValue: the steppers that cache previous values push a nil *)
Definition sclear (sp : stepper) (st : stst) : stst :=
  match sp with
  | SDelta n | SRatio n | SShiftLag n => mkss_ (snd (ring_push n None (sx_ring st))) (sx_acc st) (sx_first st) (sx_prevs st) (sx_have st)
  | _ => st
  end.

Record sgroup := mksg { sg_win : list (option wrec); sg_st : omap (omap stst) }.

(* the per-value-field loop of handleRecord / handleDrainRecord; [dr] is the record whose fields decide
   present/absent (the newest record while reading, the drained record at end of stream) *)
Definition sdispatch (sps : list stepreq) (fs : list bytes) (dr : record) (g : sgroup) : sgroup :=
  fold_left
    (fun g f =>
       match get f dr with
       | None =>
           match oget f (sg_st g) with
           | None => g
           | Some m => mksg (sg_win g)
                            (oput f (fold_left (fun m sp => match oget (snd sp) m with
                                                            | Some st => oput (snd sp) (sclear (fst sp) st) m
                                                            | None => m end) sps m) (sg_st g))
           end
       | Some _ =>
           let m0 := match oget f (sg_st g) with Some m => m | None => [] end in
           let '(m', win') :=
             fold_left (fun (acc : omap stst * list (option wrec)) sp =>
                          let '(m, win) := acc in
                          let st := match oget (snd sp) m with Some st => st | None => stst0 (fst sp) end in
                          let '(st', win') := sprocess (fst sp) (snd sp) f st win in
                          (oput (snd sp) st' m, win')) sps (m0, sg_win g) in
           mksg win' (oput f m' (sg_st g))
       end) fs g.

Record sstate := mkst_ { s_groups : omap sgroup; s_log : list bytes; s_out : list orec }.
Fixpoint remove_first (k : bytes) (l : list bytes) : list bytes :=
  match l with [] => [] | x :: t => if beqb k x then t else x :: remove_first k t end.
Definition emit_center (g : sgroup) (out : list orec) : list orec :=
  match sg_win g with Some c :: _ => out ++ [snd c] | _ => out end.
Definition has_center (g : sgroup) : bool := match sg_win g with Some _ :: _ => true | _ => false end.

Definition step_record (sps : list stepreq) (fs gs : list bytes) (lead : nat) (s : sstate) (r : record) : sstate :=
  match group_key gs r with
  | None => mkst_ (s_groups s) (s_log s) (s_out s ++ [otext_rec r])
  | Some k =>
      let g := match oget k (s_groups s) with Some g => g | None => mksg (repeat None (S lead)) [] end in
      let g1 := mksg (tl (sg_win g) ++ [Some (r, otext_rec r)]) (sg_st g) in
      let g2 := sdispatch sps fs r g1 in
      mkst_ (oput k g2 (s_groups s))
            (if has_center g2 then remove_first k (s_log s ++ [k]) else s_log s ++ [k])
            (emit_center g2 (s_out s))
  end.

(* end of stream: every logged (not yet emitted) record, in arrival order: shift its group's window once, then (fix:
   1cf092ed2) up to [lead] more times while the window centre is still empty -- a group shorter than the look-ahead has
   not reached the centre yet --, run the steppers as directed by THAT record's fields, emit the window centre *)
Fixpoint shift_to_center (n : nat) (win : list (option wrec)) : list (option wrec) :=
  match n with
  | O => win
  | S n' => match win with Some _ :: _ => win | _ => shift_to_center n' (tl win ++ [None]) end
  end.
Definition step_drain (sps : list stepreq) (fs : list bytes) (lead : nat) (s : sstate) : sstate :=
  fst (fold_left
    (fun (acc : sstate * omap (list record)) k =>
       let '(s, pend) := acc in
       match oget k (s_groups s), oget k pend with
       | Some g, Some (dr :: rest) =>
           let g1 := mksg (shift_to_center lead (tl (sg_win g) ++ [None])) (sg_st g) in
           let g2 := sdispatch sps fs dr g1 in
           (mkst_ (oput k g2 (s_groups s)) (s_log s) (emit_center g2 (s_out s)), oput k rest pend)
       | _, _ => acc
       end)
    (s_log s)
    (s, map (fun e => (fst e, flat_map (fun w => match w with Some c => [fst c] | None => [] end) (tl (sg_win (snd e))))) (s_groups s))).

Definition verb_step (sps : list stepreq) (fs gs : list bytes) (rs : list record) : list orec :=
  let lead := fold_left Nat.max (map (fun sp => lead_of (fst sp)) sps) 0%nat in
  s_out (step_drain sps fs lead (fold_left (step_record sps fs gs lead) rs (mkst_ [] [] []))).

(* the sequence of values a backward-looking stepper writes for one (group, field) cell, given the cell's events
   in order (Some v: the record carries the field; None: it does not) -- what sdispatch/sprocess do to that cell *)
Fixpoint step_cell (sp : stepper) (name f : bytes) (st : stst) (evs : list (option val)) : list (option oval) :=
  match evs with
  | [] => []
  | None :: t => None :: step_cell sp name f (sclear sp st) t
  | Some v :: t =>
      let '(st', win') := sprocess sp name f st [Some ([(f, v)], [])] in
      (match win' with Some c :: _ => oget (out_name f name) (snd c) | _ => None end) :: step_cell sp name f st' t
  end.

(* ================================================================== merge-fields *)
Fixpoint contains (sub s : bytes) : bool :=
  prefixb sub s || match s with [] => false | _ :: t => contains sub t end.
Fixpoint remove_first_sub (sub s : bytes) : bytes :=
  if prefixb sub s then skipn (List.length sub) s
  else match s with [] => [] | c :: t => c :: remove_first_sub sub t end.

Fixpoint orec_remove (k : bytes) (r : orec) : orec :=
  match r with [] => [] | (k', v) :: t => if beqb k k' then t else (k', v) :: orec_remove k t end.

(* accumulators keyed by name (namedAccumulators is an ordered map: a repeated name is one accumulator) *)
Definition mf_accs (accs : list accreq) : omap (accname * accst) :=
  fold_left (fun m a => oput (req_text a) (fst a, st0) m) accs [].
Definition mf_feed (v : val) (m : omap (accname * accst)) : omap (accname * accst) :=
  map (fun e => (fst e, (fst (snd e), ingest (fst (snd e)) (snd (snd e)) v))) m.
Definition mf_emit (interp : bool) (base : bytes) (m : omap (accname * accst)) (r : orec) : orec :=
  fold_left (fun r e => oput (base ++ "_" :: fst e)%list (emit interp (fst (snd e)) (snd (snd e))) r) m r.

Inductive mfmode := MFNames (fs : list bytes) | MFSubs (subs : list bytes) | MFCollapse (subs : list bytes).

Definition first_match (subs : list bytes) (name : bytes) : option bytes := find (fun s => contains s name) subs.

Definition verb_merge_fields_one (interp keep : bool) (accs : list accreq) (mode : mfmode) (base : bytes) (r : record) : orec :=
  match mode with
  | MFNames fs =>
      let '(m, o) := fold_left (fun (acc : omap (accname * accst) * orec) f =>
                                  let '(m, o) := acc in
                                  match get f r with       (* fields are read from the record as it is being edited: a name listed twice is gone the second time unless -k *)
                                  | None => acc
                                  | Some v =>
                                      match oget f o with
                                      | None => acc
                                      | Some _ => (if is_void v then m else mf_feed v m, if keep then o else orec_remove f o)
                                      end
                                  end) fs (mf_accs accs, otext_rec r) in
      mf_emit interp base m o
  | MFSubs subs =>
      let '(m, o) := fold_left (fun (acc : omap (accname * accst) * orec) kv =>
                                  let '(m, o) := acc in
                                  match first_match subs (fst kv) with
                                  | None => acc
                                  | Some _ => (if is_void (snd kv) then m else mf_feed (snd kv) m, if keep then o else orec_remove (fst kv) o)
                                  end) r (mf_accs accs, otext_rec r) in
      mf_emit interp base m o
  | MFCollapse subs =>
      let '(cm, o) := fold_left (fun (acc : omap (omap (accname * accst)) * orec) kv =>
                                   let '(cm, o) := acc in
                                   match first_match subs (fst kv) with
                                   | None => acc
                                   | Some s =>
                                       let short := remove_first_sub s (fst kv) in
                                       let m := match oget short cm with Some m => m | None => mf_accs accs end in
                                       (oput short (if is_void (snd kv) then m else mf_feed (snd kv) m) cm,
                                        if keep then o else orec_remove (fst kv) o)
                                   end) r ([], otext_rec r) in
      fold_left (fun o e => mf_emit interp (fst e) (snd e) o) cm o
  end.
Definition verb_merge_fields (interp keep : bool) (accs : list accreq) (mode : mfmode) (base : bytes) (rs : list record) : list orec :=
  map (verb_merge_fields_one interp keep accs mode base) rs.

(* ================================================================== histogram (non-auto) *)
(* bin index: int((v - lo) * mul) with mul = nbins/(hi-lo), for lo <= v < hi; v = hi goes to the last bin; else dropped *)
Definition hist_bin (lo hi : Q) (nbins : Z) (v : Q) : option Z :=
  if Qle_bool lo v && negb (Qle_bool hi v) then Some (Qfloor ((v - lo) * (inject_Z nbins / (hi - lo))))
  else if Qeq_bool v hi then Some (nbins - 1)%Z
  else None.
Fixpoint incr_nth (i : nat) (l : list Z) : list Z :=
  match l, i with
  | [], _ => []
  | c :: t, O => (c + 1)%Z :: t
  | c :: t, S j => c :: incr_nth j t
  end.
Definition hist_ingest (lo hi : Q) (nbins : Z) (fs : list bytes) (counts : omap (list Z)) (r : record) : omap (list Z) :=
  fold_left (fun m f => match get f r with
                        | None => m
                        | Some v => match numof v with
                                    | None => m                  (* the code stops with an error: outside the domain *)
                                    | Some x => match hist_bin lo hi nbins (qof x), oget f m with
                                                | Some i, Some cs => if (i <? 0)%Z then m else oput f (incr_nth (Z.to_nat i) cs) m
                                                | _, _ => m
                                                end
                                    end
                        end) fs counts.
Definition hist_counts (lo hi : Q) (nbins : Z) (fs : list bytes) (rs : list record) : omap (list Z) :=
  fold_left (hist_ingest lo hi nbins fs) rs
            (fold_left (fun m f => oput f (repeat 0%Z (Z.to_nat nbins)) m) fs []).
Definition verb_histogram (lo hi : Q) (nbins : Z) (prefix : bytes) (fs : list bytes) (rs : list record) : list orec :=
  let counts := hist_counts lo hi nbins fs rs in
  let mul := inject_Z nbins / (hi - lo) in
  map (fun i =>
         fold_left (fun o f => oput (prefix ++ f ++ B "_count")%list
                                    (OInt (nth i (match oget f counts with Some cs => cs | None => [] end) 0%Z)) o) fs
                   [((prefix ++ B "bin_lo")%list, OFlt (lo + inject_Z (Z.of_nat i) / mul));
                    ((prefix ++ B "bin_hi")%list, OFlt (lo + inject_Z (Z.of_nat i + 1) / mul))])
      (seq 0 (Z.to_nat nbins)).

(* ================================================================== top *)
(* TopKeeper: the best n values so far, best first; ties: the position among equal values is not modelled
   (not observable on values of one kind) *)
Fixpoint top_insert (better : val -> val -> bool) (x : val) (l : list val) : list val :=
  match l with [] => [x] | y :: t => if better x y then x :: y :: t else y :: top_insert better x t end.
Definition top_add (n : nat) (domax : bool) (x : val) (l : list val) : list val :=
  firstn n (top_insert (fun a b => if domax then val_lt b a else val_lt a b) x l).

Definition verb_top (n : nat) (domax : bool) (out : bytes) (fs gs : list bytes) (rs : list record) : list orec :=
  let groups := gfold (fun r => match selected fs r with Some _ => group_key gs r | None => None end)
                      (fun r => (match selected gs r with Some vs => vs | None => [] end, []))
                      (fun (s : list bytes * omap (list val)) r =>
                         (fst s, fold_left (fun m f => match get f r with
                                                       | Some v => oput f (top_add n domax v (match oget f m with Some l => l | None => [] end)) m
                                                       | None => m end) fs (snd s))) rs in
  flat_map (fun e =>
              map (fun i =>
                     fold_left (fun o fl => oput ((fst fl) ++ B "_top")%list
                                                 (match nth_error (snd fl) i with Some v => oval_of_val v | None => OText [] end)
                                                 (oput out (OInt (Z.of_nat i + 1)) o))
                               (snd (snd e)) (put_all (group_fields gs (fst (snd e))) []))
                  (seq 0 n)) groups.

(* ================================================================== most / least frequent *)
(* sort.Slice on <= 12 elements is an insertion sort: stable *)
Fixpoint ins_by {A} (less : A -> A -> bool) (x : A) (l : list A) : list A :=
  match l with [] => [x] | y :: t => if less x y then x :: y :: t else y :: ins_by less x t end.
Definition stable_sort {A} (less : A -> A -> bool) (l : list A) : list A :=
  fold_left (fun acc x => ins_by less x acc) l [].   (* ins_by puts x AFTER every element it is not less than *)

Definition verb_frequent (descending : bool) (maxn : nat) (show_counts : bool) (out : bytes) (gs : list bytes) (rs : list record) : list orec :=
  let m := count_groups gs rs in
  let sorted := stable_sort (fun a b : bytes * (list bytes * Z) =>
                               if descending then (snd (snd b) <? snd (snd a))%Z else (snd (snd a) <? snd (snd b))%Z) m in
  map (fun e => put_all (group_fields gs (fst (snd e)) ++ (if show_counts then [(out, OInt (snd (snd e)))] else [])) [])
      (firstn maxn sorted).

(* ================================================================== fill-down *)
Definition fd_step (all only_if_absent : bool) (fs : list bytes) (st : omap bytes * list orec) (r : record) : omap bytes * list orec :=
  let '(last, out) := st in
  let names := if all then keys r else fs in
  let '(last', r') :=
    fold_left (fun (acc : omap bytes * record) f =>
                 let '(last, r) := acc in
                 let present := match get f r with
                                | Some v => if only_if_absent then true else negb (is_void v)
                                | None => false end in
                 if present then (match get f r with Some v => oput f v last | None => last end, r)
                 else match oget f last with Some p => (last, put f p r) | None => (last, r) end) names (last, r) in
  (last', out ++ [otext_rec r']).
Definition verb_fill_down (all only_if_absent : bool) (fs : list bytes) (rs : list record) : list orec :=
  snd (fold_left (fd_step all only_if_absent fs) rs ([], [])).
