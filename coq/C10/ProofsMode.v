(* C10 proofs, part 5: counts-by-value maps (mode, antimode, distinct_count, count-distinct) and the tie-break. *)
From Miller Require Import C10.Model C10.Verbs C10.Spec C10.ProofsGroup.
From Coq Require Import Lia.
Open Scope Z_scope.

(* the counts map is the grouped fold with the value text itself as key *)
Lemma cm_incr_is_gstep v m : cm_incr v m = gstep (fun x : bytes => Some x) (fun _ => 0) (fun c _ => c + 1) m v.
Proof. unfold cm_incr, gstep. destruct (oget v m); reflexivity. Qed.

Lemma counts_fold_is_gfold vs : forall m,
  fold_left (fun m v => cm_incr v m) vs m = fold_left (gstep (fun x : bytes => Some x) (fun _ => 0) (fun c _ => c + 1)) vs m.
Proof. induction vs as [|v vs IH]; intros m; cbn [fold_left]; [reflexivity|]. now rewrite cm_incr_is_gstep, IH. Qed.

(* counts, in first-seen order of the distinct texts, each with its number of occurrences *)
Theorem counts_map_spec vs :
  fold_left (fun m v => cm_incr v m) vs [] = spec_groups (fun x : bytes => Some x) (fun _ => 0) (fun c _ => c + 1) vs.
Proof. rewrite counts_fold_is_gfold. apply gfold_spec. Qed.

Lemma incr_fold (ms : list bytes) c : fold_left (fun (c : Z) (_ : bytes) => c + 1) ms c = c + Z.of_nat (List.length ms).
Proof. revert c; induction ms as [|x ms IH]; intros c; cbn [fold_left List.length]; [lia|]. rewrite IH. lia. Qed.

Theorem counts_map_entries vs :
  fold_left (fun m v => cm_incr v m) vs []
  = map (fun k => (k, Z.of_nat (List.length (members (fun x : bytes => Some x) k vs)))) (first_keys (fun x : bytes => Some x) vs).
Proof.
  rewrite counts_map_spec. unfold spec_groups.
  assert (H : forall k, In k (first_keys (fun x : bytes => Some x) vs) -> members (fun x : bytes => Some x) k vs <> []).
  { intros k Hin. apply mem_In in Hin. rewrite first_keys_mem in Hin. intros E. apply members_nil_iff in E. congruence. }
  induction (first_keys (fun x : bytes => Some x) vs) as [|k ks IH]; [reflexivity|].
  cbn [flat_map map]. rewrite IH by (intros; apply H; now right). unfold entry_of, group_state.
  specialize (H k (or_introl eq_refl)). destruct (members (fun x : bytes => Some x) k vs) as [|r0 rest] eqn:E; [congruence|].
  rewrite incr_fold. cbn [app]. f_equal.
Qed.

(* the accumulators keep exactly that map *)
Lemma mode_counts a vs : (a = AMode \/ a = AAntimode \/ a = ADistinctCount) -> forall s,
  st_counts (fold_left (ingest a) vs s) = fold_left (fun m v => cm_incr v m) vs (st_counts s).
Proof.
  intros Ha. induction vs as [|v vs IH]; intros s; cbn [fold_left]; [reflexivity|]. rewrite IH.
  destruct Ha as [ -> | [ -> | -> ] ]; reflexivity.
Qed.

(* ---------------------------------------------------------------- tie-break: the first seen among the most frequent *)
Definition is_first_max (m : omap Z) (k : bytes) (c : Z) : Prop :=
  exists pre post, m = pre ++ (k, c) :: post /\ (forall e, In e pre -> snd e < c) /\ (forall e, In e post -> snd e <= c).
Definition is_first_min (m : omap Z) (k : bytes) (c : Z) : Prop :=
  exists pre post, m = pre ++ (k, c) :: post /\ (forall e, In e pre -> c < snd e) /\ (forall e, In e post -> c <= snd e).

Lemma scan_max_from m : forall k0 c0,
  (scan_best (fun c bc => bc <? c) (Some (k0, c0)) m = Some (k0, c0) /\ forall e, In e m -> snd e <= c0)
  \/ exists k c, scan_best (fun c bc => bc <? c) (Some (k0, c0)) m = Some (k, c) /\ c0 < c /\ is_first_max m k c.
Proof.
  induction m as [|[k1 c1] t IH]; intros k0 c0; cbn [scan_best].
  - left. split; [reflexivity|intros e []].
  - destruct (c0 <? c1) eqn:E.
    + apply Z.ltb_lt in E. right. destruct (IH k1 c1) as [[Hr Hall]|(k & c & Hr & Hlt & pre & post & Hm & Hpre & Hpost)].
      * exists k1, c1. split; [exact Hr|]. split; [exact E|]. exists [], t. split; [reflexivity|]. split; [intros e []|exact Hall].
      * exists k, c. split; [exact Hr|]. split; [lia|]. exists ((k1, c1) :: pre), post. split; [cbn; now rewrite Hm|].
        split; [|exact Hpost]. intros e [<-|Hin]; [cbn; lia|now apply Hpre].
    + apply Z.ltb_ge in E. destruct (IH k0 c0) as [[Hr Hall]|(k & c & Hr & Hlt & pre & post & Hm & Hpre & Hpost)].
      * left. split; [exact Hr|]. intros e [<-|Hin]; [cbn; lia|now apply Hall].
      * right. exists k, c. split; [exact Hr|]. split; [exact Hlt|]. exists ((k1, c1) :: pre), post. split; [cbn; now rewrite Hm|].
        split; [|exact Hpost]. intros e [<-|Hin]; [cbn; lia|now apply Hpre].
Qed.

Theorem mode_is_first_of_the_most_frequent m : m <> [] ->
  exists k c, mode_of m = OText k /\ is_first_max m k c.
Proof.
  destruct m as [|[k1 c1] t]; [congruence|]. intros _. unfold mode_of. cbn [scan_best].
  destruct (scan_max_from t k1 c1) as [[Hr Hall]|(k & c & Hr & Hlt & pre & post & Hm & Hpre & Hpost)]; rewrite Hr.
  - exists k1, c1. split; [reflexivity|]. exists [], t. split; [reflexivity|]. split; [intros e []|exact Hall].
  - exists k, c. split; [reflexivity|]. exists ((k1, c1) :: pre), post. split; [cbn; now rewrite Hm|].
    split; [|exact Hpost]. intros e [<-|Hin]; [cbn; lia|now apply Hpre].
Qed.

Lemma scan_min_from m : forall k0 c0,
  (scan_best (fun c bc => c <? bc) (Some (k0, c0)) m = Some (k0, c0) /\ forall e, In e m -> c0 <= snd e)
  \/ exists k c, scan_best (fun c bc => c <? bc) (Some (k0, c0)) m = Some (k, c) /\ c < c0 /\ is_first_min m k c.
Proof.
  induction m as [|[k1 c1] t IH]; intros k0 c0; cbn [scan_best].
  - left. split; [reflexivity|intros e []].
  - destruct (c1 <? c0) eqn:E.
    + apply Z.ltb_lt in E. right. destruct (IH k1 c1) as [[Hr Hall]|(k & c & Hr & Hlt & pre & post & Hm & Hpre & Hpost)].
      * exists k1, c1. split; [exact Hr|]. split; [exact E|]. exists [], t. split; [reflexivity|]. split; [intros e []|exact Hall].
      * exists k, c. split; [exact Hr|]. split; [lia|]. exists ((k1, c1) :: pre), post. split; [cbn; now rewrite Hm|].
        split; [|exact Hpost]. intros e [<-|Hin]; [cbn; lia|now apply Hpre].
    + apply Z.ltb_ge in E. destruct (IH k0 c0) as [[Hr Hall]|(k & c & Hr & Hlt & pre & post & Hm & Hpre & Hpost)].
      * left. split; [exact Hr|]. intros e [<-|Hin]; [cbn; lia|now apply Hall].
      * right. exists k, c. split; [exact Hr|]. split; [exact Hlt|]. exists ((k1, c1) :: pre), post. split; [cbn; now rewrite Hm|].
        split; [|exact Hpost]. intros e [<-|Hin]; [cbn; lia|now apply Hpre].
Qed.

Theorem antimode_is_first_of_the_least_frequent m : m <> [] ->
  exists k c, antimode_of m = OText k /\ is_first_min m k c.
Proof.
  destruct m as [|[k1 c1] t]; [congruence|]. intros _. unfold antimode_of. cbn [scan_best].
  destruct (scan_min_from t k1 c1) as [[Hr Hall]|(k & c & Hr & Hlt & pre & post & Hm & Hpre & Hpost)]; rewrite Hr.
  - exists k1, c1. split; [reflexivity|]. exists [], t. split; [reflexivity|]. split; [intros e []|exact Hall].
  - exists k, c. split; [reflexivity|]. exists ((k1, c1) :: pre), post. split; [cbn; now rewrite Hm|].
    split; [|exact Hpost]. intros e [<-|Hin]; [cbn; lia|now apply Hpre].
Qed.

(* the whole accumulator: mode of the values = first-seen text among those with the largest number of occurrences *)
Theorem mode_accumulator_spec vs : vs <> [] ->
  let m := map (fun k => (k, Z.of_nat (List.length (members (fun x : bytes => Some x) k vs)))) (first_keys (fun x : bytes => Some x) vs) in
  exists k c, run_acc false AMode vs = OText k /\ is_first_max m k c.
Proof.
  intros Hne m. unfold run_acc. cbn [emit]. rewrite (mode_counts AMode vs (or_introl eq_refl) st0). cbn [st0 st_counts].
  rewrite counts_map_entries. fold m. apply mode_is_first_of_the_most_frequent.
  subst m. destruct vs as [|v vs]; [congruence|]. intros E. apply (f_equal (@List.length _)) in E. rewrite map_length in E.
  assert (Hm : mem v (first_keys (fun x : bytes => Some x) (v :: vs)) = true).
  { rewrite first_keys_mem. cbn [existsb]. unfold keyb at 1. now rewrite beqb_refl. }
  destruct (first_keys (fun x : bytes => Some x) (v :: vs)); [discriminate Hm|discriminate E].
Qed.

Theorem distinct_count_spec vs :
  run_acc false ADistinctCount vs = OInt (Z.of_nat (List.length (first_keys (fun x : bytes => Some x) vs))).
Proof.
  unfold run_acc. cbn [emit]. rewrite (mode_counts ADistinctCount vs (or_intror (or_intror eq_refl)) st0). cbn [st0 st_counts].
  rewrite counts_map_entries, map_length. reflexivity.
Qed.
