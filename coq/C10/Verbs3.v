(* C10 model, part 4: verb options not covered by Verbs.v / Verbs2.v -- as coded:
   uniq -a [-c|-n], uniq/count-distinct -x, fill-empty, top with the TopKeeper's exact insertion index (top -a shows
   which of several records with equal values is kept), step -a slwin_B_F.
   Definitions only. *)
From Miller Require Export C10.Model C10.Verbs C10.Verbs2.
Open Scope char_scope.

(* ================================================================== uniq -a (pkg/transformers/uniq.go) *)
(* The map key is inrec.String(): the record as multi-line JSON (Mlrmap.String -> FormatAsJSON).  For field
   texts read from a file that encoding determines the (name, text) list and conversely (names and string values
   are quoted with escapes, numbers keep their original text), so key equality is modelled as record equality. *)
Fixpoint rc_incr (r : record) (m : list (record * Z)) : list (record * Z) :=
  match m with
  | [] => [(r, 1%Z)]
  | (r', c) :: t => if record_eqb r r' then (r', (c + 1)%Z) :: t else (r', c) :: rc_incr r t
  end.
Definition rc_has (r : record) (m : list (record * Z)) : bool := existsb (fun e => record_eqb r (fst e)) m.

(* Mlrmap.PrependReference: the value is replaced in place when the name exists, else a new FIRST field *)
Definition oprepend (k : bytes) (v : oval) (r : orec) : orec :=
  match oget k r with Some _ => oput k v r | None => (k, v) :: r end.

Inductive uniqa_mode := UAPlain | UACounts | UANum.
Definition verb_uniq_a (mode : uniqa_mode) (out : bytes) (rs : list record) : list orec :=
  match mode with
  | UACounts =>       (* transformUniqifyEntireRecordsShowCounts: at end of stream, first-seen order, count prepended *)
      map (fun e => oprepend out (OInt (snd e)) (otext_rec (fst e))) (fold_left (fun m r => rc_incr r m) rs [])
  | UANum =>          (* transformUniqifyEntireRecordsShowNumDistinctOnly: one record, named by -o *)
      [[(out, OInt (Z.of_nat (List.length (fold_left (fun m r => rc_incr r m) rs []))))]]
  | UAPlain =>        (* transformUniqifyEntireRecords: the record itself, at first sight *)
      snd (fold_left (fun (st : list (record * Z) * list orec) r =>
                        let '(m, o) := st in
                        if rc_has r m then (m, o) else (rc_incr r m, o ++ [otext_rec r])) rs ([], []))
  end.

(* ------------------------------------------------------------------ uniq -x / count-distinct -x *)
(* getFieldNamesForGrouping with invertFieldNames: the record's own field names except the listed ones
   (Mlrmap.GetKeysExcept).  The grouping key is still the joined VALUES only. *)
Definition keys_except (xs : list bytes) (r : record) : list bytes := filter (fun k => negb (mem k xs)) (keys r).

(* group state: the names and values of the first member, the count *)
Definition countx_groups (xs : list bytes) (rs : list record) : omap (list bytes * list bytes * Z) :=
  gfold (fun r => group_key (keys_except xs r) r)
        (fun r => (keys_except xs r, match selected (keys_except xs r) r with Some vs => vs | None => [] end, 0%Z))
        (fun s _ => (fst s, (snd s + 1)%Z)) rs.
(* transformWithCounts / transformNumDistinctOnly / transformWithoutCounts with -x.  The plain form emits at first
   sight, which is the same sequence as the groups' first members in first-appearance order. *)
Definition verb_uniq_x (xs : list bytes) (show_counts only_n : bool) (out : bytes) (rs : list record) : list orec :=
  let m := countx_groups xs rs in
  if only_n then [[(B "count", OInt (Z.of_nat (List.length m)))]]
  else map (fun e => let '(names, vals, c) := snd e in
                     put_all (group_fields names vals ++ (if show_counts then [(out, OInt c)] else [])) []) m.

(* ================================================================== fill-empty (pkg/transformers/fill_empty.go) *)
(* every void value is replaced by the fill value; -S / type inference of the fill value do not change its text *)
Definition verb_fill_empty (fill : bytes) (rs : list record) : list orec :=
  map (fun r => map (fun kv => (fst kv, OText (if is_void (snd kv) then fill else snd kv))) r) rs.

(* ================================================================== top, exact keeper (pkg/transformers/utils/top_keeper.go) *)
(* mlrval collation on field values (cmp_dispositions): numbers by value, numbers before strings, strings bytewise *)
Definition vcmp (a b : val) : comparison := if val_lt a b then Lt else if val_lt b a then Gt else Eq.
(* the keeper's order: Lt = "sorts before".  --max keeps descending values, --min ascending *)
Definition keeper_ord (domax : bool) (a b : val) : comparison := if domax then vcmp b a else vcmp a b.
Definition not_after (c : comparison) : bool := match c with Gt => false | _ => true end.
Definition nthv (i : Z) (l : list val) : val := nth (Z.to_nat i) l [].

(* the loop of BsearchMlrvalArrayForDescendingInsert / ...ForAscendingInsert (the two differ by the order only) *)
Fixpoint bsearch_loop (fuel : nat) (ord : val -> val -> comparison) (arr : list val) (value : val) (lo hi mid : Z) : Z :=
  match fuel with
  | O => lo
  | S fuel' =>
      if (lo <? hi)%Z then
        match ord value (nthv mid arr) with
        | Eq => mid
        | c =>
            let '(lo', hi') := match c with Lt => (lo, mid) | _ => (mid, hi) end in
            let newmid := ((hi' + lo') / 2)%Z in
            if (mid =? newmid)%Z then
              if not_after (ord value (nthv lo' arr)) then lo'
              else if not_after (ord value (nthv hi' arr)) then hi'
              else (hi' + 1)%Z
            else bsearch_loop fuel' ord arr value lo' hi' newmid
        end
      else lo
  end.
Definition bsearch_insert (ord : val -> val -> comparison) (arr : list val) (value : val) : Z :=
  let size := Z.of_nat (List.length arr) in
  if (size =? 0)%Z then 0%Z
  else match ord value (nthv 0 arr) with
       | Lt => 0%Z
       | _ => match ord value (nthv (size - 1) arr) with
              | Gt => size
              | _ => bsearch_loop (S (S (List.length arr))) ord arr value 0 (size - 1) ((size - 1) / 2)
              end
       end.

Definition insert_at {A} (i : nat) (x : A) (l : list A) : list A := (firstn i l ++ x :: skipn i l)%list.
(* TopKeeper.Add: values with the records they came from, best first *)
Definition tk_add (cap : nat) (domax : bool) (v : val) (r : record) (k : list (val * record)) : list (val * record) :=
  let d := Z.to_nat (bsearch_insert (keeper_ord domax) (map fst k) v) in
  if (List.length k <? cap)%nat then insert_at d (v, r) k
  else if (cap <=? d)%nat then k
  else firstn cap (insert_at d (v, r) k).     (* slots d .. size-2 move up by one, the last one is dropped *)

(* TransformerTop.ingest / emit.  [showfull] = -a (one value field: the parser rejects more): the kept records;
   otherwise one record per rank with the kept values' own texts (TopValues[i].Copy(); -F is ignored by the code) *)
Definition verb_top2 (showfull : bool) (n : nat) (domax : bool) (out : bytes) (fs gs : list bytes) (rs : list record) : list orec :=
  let groups := gfold (fun r => match selected fs r with Some _ => group_key gs r | None => None end)
                      (fun r => (match selected gs r with Some vs => vs | None => [] end, []))
                      (fun (s : list bytes * omap (list (val * record))) r =>
                         (fst s, fold_left (fun m f => match get f r with
                                                       | Some v => oput f (tk_add n domax v r (match oget f m with Some l => l | None => [] end)) m
                                                       | None => m end) fs (snd s))) rs in
  flat_map (fun e =>
              if showfull then flat_map (fun fl => map (fun vr => otext_rec (snd vr)) (snd fl)) (snd (snd e))
              else
                map (fun i =>
                       fold_left (fun o fl => oput ((fst fl) ++ B "_top")%list
                                                   (match nth_error (snd fl) i with Some vr => OText (fst vr) | None => OText [] end)
                                                   (oput out (OInt (Z.of_nat i + 1)) o))
                                 (snd (snd e)) (put_all (group_fields gs (fst (snd e))) []))
                    (seq 0 n)) groups.

(* ================================================================== step -a slwin_B_F (pkg/transformers/step.go: tStepperSlwin) *)
(* utils.TWindowKeeper: itemsBackward (newest first), currentItem :: itemsForward *)
Record slgroup := mkslg { slg_back : list (option wrec); slg_win : list (option wrec) }.
(* TWindowKeeper.Ingest *)
Definition wk_ingest (nb : nat) (x : option wrec) (g : slgroup) : slgroup :=
  mkslg (firstn nb (hd None (slg_win g) :: slg_back g)) (tl (slg_win g) ++ [x]).
(* TWindowKeeper.Get: 0 = current, i > 0 forward, i < 0 backward *)
Definition wk_get (g : slgroup) (i : Z) : option wrec :=
  if (0 <=? i)%Z then nth (Z.to_nat i) (slg_win g) None else nth (Z.to_nat (- i - 1)) (slg_back g) None.

Fixpoint dec_digits (fuel : nat) (n : N) (acc : bytes) : bytes :=
  match fuel with
  | O => acc
  | S k => let acc' := ascii_of_N (48 + n mod 10) :: acc in if (n <? 10)%N then acc' else dec_digits k (n / 10)%N acc'
  end.
Definition dec_of_nat (n : nat) : bytes := dec_digits 20 (N.of_nat n) [].
(* stepperSlwinAlloc: fmt.Sprintf("%s_%d_%d", inputFieldName, nb, nf) *)
Definition slwin_out (f : bytes) (nb nf : nat) : bytes := (f ++ "_" :: dec_of_nat nb ++ "_" :: dec_of_nat nf)%list.

Definition zrange (lo hi : Z) : list Z := map (fun k => (lo + Z.of_nat k)%Z) (seq 0 (Z.to_nat (hi - lo + 1))).

(* tStepperSlwin.process: sum (a float from the start: 0.0) and count of the non-void values of the field over the
   window positions -nb..nf that hold a record carrying it; the centre gets sum/count, or void when count = 0.
   Field values are read from the input texts (the records in the window also carry the outputs already written;
   an output name equal to a value field name is outside the generated domain).  Non-numeric texts are outside the
   domain (BIF_plus gives an error value). *)
Definition slwin_process (f : bytes) (nb nf : nat) (g : slgroup) : slgroup :=
  let '(sum, count) :=
    fold_left (fun (acc : Q * Z) i =>
                 match wk_get g i with
                 | None => acc
                 | Some c =>
                     match get f (fst c) with
                     | None => acc
                     | Some v => if is_void v then acc
                                 else match numof v with Some x => (Qred (fst acc + qof x), (snd acc + 1)%Z) | None => acc end
                     end
                 end) (zrange (- Z.of_nat nb) (Z.of_nat nf)) (0, 0%Z) in
  match slg_win g with
  | Some c :: t =>
      mkslg (slg_back g)
            (Some (put_out (slwin_out f nb nf) (if (count =? 0)%Z then OText [] else OFlt (sum / inject_Z count)) c) :: t)
  | _ => g
  end.

(* the per-value-field loop of handleRecord / handleDrainRecord: [dr] (the newest record while reading, the logged
   record while draining) decides which value fields are stepped; slwin keeps no state and is no prev-cache clearer *)
Definition slwin_dispatch (wins : list (nat * nat)) (fs : list bytes) (dr : record) (g : slgroup) : slgroup :=
  fold_left (fun g f => match get f dr with
                        | None => g
                        | Some _ => fold_left (fun g w => slwin_process f (fst w) (snd w) g) wins g
                        end) fs g.

Record slstate := mksls { sl_groups : omap slgroup; sl_log : list bytes; sl_out : list orec }.
Definition sl_emit_center (g : slgroup) (out : list orec) : list orec :=
  match slg_win g with Some c :: _ => out ++ [snd c] | _ => out end.
Definition sl_has_center (g : slgroup) : bool := match slg_win g with Some _ :: _ => true | _ => false end.

(* handleRecord *)
Definition slwin_record (wins : list (nat * nat)) (fs gs : list bytes) (nb nf : nat) (s : slstate) (r : record) : slstate :=
  match group_key gs r with
  | None => mksls (sl_groups s) (sl_log s) (sl_out s ++ [otext_rec r])
  | Some k =>
      let g := match oget k (sl_groups s) with Some g => g | None => mkslg (repeat None nb) (repeat None (S nf)) end in
      let g1 := wk_ingest nb (Some (r, otext_rec r)) g in
      let g2 := slwin_dispatch wins fs r g1 in
      mksls (oput k g2 (sl_groups s))
            (if sl_has_center g2 then remove_first k (sl_log s ++ [k]) else (sl_log s ++ [k])%list)
            (sl_emit_center g2 (sl_out s))
  end.

(* end of stream: every logged record in arrival order: Ingest(nil) on its group's window, then (fix: 1cf092ed2) up to
   [nf] more times while the centre is empty, handleDrainRecord *)
Fixpoint sl_shift_to_center (n nb : nat) (g : slgroup) : slgroup :=
  match n with
  | O => g
  | S n' => match slg_win g with Some _ :: _ => g | _ => sl_shift_to_center n' nb (wk_ingest nb None g) end
  end.
Definition slwin_drain (wins : list (nat * nat)) (fs : list bytes) (nb nf : nat) (s : slstate) : slstate :=
  fst (fold_left
    (fun (acc : slstate * omap (list record)) k =>
       let '(s, pend) := acc in
       match oget k (sl_groups s), oget k pend with
       | Some g, Some (dr :: rest) =>
           let g1 := sl_shift_to_center nf nb (wk_ingest nb None g) in
           let g2 := slwin_dispatch wins fs dr g1 in
           (mksls (oput k g2 (sl_groups s)) (sl_log s) (sl_emit_center g2 (sl_out s)), oput k rest pend)
       | _, _ => acc
       end)
    (sl_log s)
    (s, map (fun e => (fst e, flat_map (fun w => match w with Some c => [fst c] | None => [] end) (tl (slg_win (snd e))))) (sl_groups s))).

(* step with a list of slwin steppers only: wins = the (back, forward) pairs in -a order *)
Definition verb_step_slwin (wins : list (nat * nat)) (fs gs : list bytes) (rs : list record) : list orec :=
  let nb := fold_left Nat.max (map fst wins) 0%nat in
  let nf := fold_left Nat.max (map snd wins) 0%nat in
  sl_out (slwin_drain wins fs nb nf (fold_left (slwin_record wins fs gs nb nf) rs (mksls [] [] []))).
