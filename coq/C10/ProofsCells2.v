(* C10 proofs, part 10: histogram, count-similar, uniq / count-distinct, count-distinct -u, top: each cell is the fold
   over exactly the values (records) of its group, and the verb output is the definitional recomputation. *)
From Miller Require Import C10.Model C10.Verbs C10.Verbs2 C10.Spec C10.ProofsGroup C10.ProofsPctl C10.ProofsAcc C10.Proofs C10.ProofsFrac C10.ProofsCells.
From Coq Require Import Lia Permutation Sorted.
Open Scope char_scope.

(* ================================================================== histogram *)
Definition hist_step (lo hi : Q) (nbins : Z) (cs : list Z) (v : Q) : list Z :=
  match hist_bin lo hi nbins v with Some i => if (i <? 0)%Z then cs else incr_nth (Z.to_nat i) cs | None => cs end.
Definition hist_cu (lo hi : Q) (nbins : Z) (o : option (list Z)) (v : val) : option (list Z) :=
  match numof v with
  | None => None
  | Some x => match hist_bin lo hi nbins (qof x), o with
              | Some i, Some cs => if (i <? 0)%Z then None else Some (incr_nth (Z.to_nat i) cs)
              | _, _ => None
              end
  end.

Lemma hist_ingest_cells lo hi nbins fs counts r : hist_ingest lo hi nbins fs counts r = cell_rec (hist_cu lo hi nbins) fs counts r.
Proof.
  unfold hist_ingest, cell_rec. apply fold_left_ext. intros m f. unfold ostep, hist_cu.
  destruct (get f r) as [v|]; [|reflexivity]. destruct (numof v) as [x|]; [|reflexivity].
  destruct (hist_bin lo hi nbins (qof x)) as [i|]; [|reflexivity]. destruct (oget f m); [|reflexivity].
  destruct (i <? 0)%Z; reflexivity.
Qed.

Lemma hist_init_get (z : list Z) fs f : NoDup fs -> In f fs -> oget f (fold_left (fun m f => oput f z m) fs []) = Some z.
Proof.
  intros Hnd Hin.
  rewrite (fold_left_ext (fun m f => oput f z m) (ostep (fun _ _ => Some z))) by reflexivity.
  rewrite fold_oput_get by exact Hnd. apply mem_In in Hin. now rewrite Hin.
Qed.

Lemma hist_fold_values lo hi nbins vs : forall cs,
  fold_left (cell_upd (hist_cu lo hi nbins)) vs (Some cs) = Some (fold_left (hist_step lo hi nbins) (qs_of vs) cs).
Proof.
  induction vs as [|v vs IH]; intros cs; [reflexivity|]. cbn [fold_left]. unfold qs_of. rewrite numerics_cons.
  unfold cell_upd at 2, hist_cu. destruct (numof v) as [x|]; [|apply IH]. cbn [map fold_left]. unfold hist_step at 2.
  destruct (hist_bin lo hi nbins (qof x)) as [i|]; [|apply IH]. destruct (i <? 0)%Z; apply IH.
Qed.

(* the counts kept for value field f are the bin counts of exactly the numeric values of f carried by the records *)
Theorem histogram_cell lo hi nbins fs rs f : NoDup fs -> In f fs ->
  oget f (hist_counts lo hi nbins fs rs)
  = Some (fold_left (hist_step lo hi nbins) (qs_of (values_of f rs)) (repeat 0%Z (Z.to_nat nbins))).
Proof.
  intros Hnd Hin. unfold hist_counts.
  rewrite (fold_left_ext (hist_ingest lo hi nbins fs) (cell_rec (hist_cu lo hi nbins) fs)) by (intros; apply hist_ingest_cells).
  rewrite (cells_get (hist_cu lo hi nbins) fs f Hnd Hin), hist_init_get by assumption. apply hist_fold_values.
Qed.

(* ================================================================== count-similar *)
Lemma fold_snoc {A} (l : list A) : forall s, fold_left (fun s r => s ++ [r]) l s = s ++ l.
Proof. induction l as [|x l IH]; intros s; cbn [fold_left]; [now rewrite app_nil_r|]. rewrite IH, <- app_assoc. reflexivity. Qed.

Lemma flat_map_flat_map {A B C} (f : A -> list B) (g : B -> list C) l : flat_map g (flat_map f l) = flat_map (fun x => flat_map g (f x)) l.
Proof. induction l as [|x l IH]; [reflexivity|]. cbn [flat_map]. now rewrite flat_map_app, IH. Qed.

(* the records come out grouped, groups in first-appearance order, each record with the size of its group appended *)
Theorem count_similar_equals_definition gs out rs :
  verb_count_similar gs out rs
  = flat_map (fun k => map (fun r => oput out (OInt (Z.of_nat (List.length (members (group_key gs) k rs)))) (otext_rec r))
                           (members (group_key gs) k rs))
             (first_keys (group_key gs) rs).
Proof.
  unfold verb_count_similar. rewrite gfold_spec. unfold spec_groups. rewrite flat_map_flat_map.
  apply flat_map_ext. intros k. unfold entry_of, group_state.
  destruct (members (group_key gs) k rs) as [|r0 rest] eqn:E; [reflexivity|].
  cbn [flat_map snd]. rewrite app_nil_r. change (fold_left (fun (s : list record) r => s ++ [r]) (r0 :: rest) []) with (fold_left (fun (s : list record) r => s ++ [r]) (r0 :: rest) []).
  rewrite fold_snoc. reflexivity.
Qed.

(* every contributing record is emitted exactly once *)
Section Weights.
  Context {V : Type} (w : V -> Z).
  Definition wtotal (m : omap V) : Z := fold_right (fun e acc => (w (snd e) + acc)%Z) 0%Z m.
  Lemma wtotal_oput k v m : wtotal (oput k v m) = (wtotal m - match oget k m with Some x => w x | None => 0 end + w v)%Z.
  Proof.
    induction m as [|[k' v'] m IH]; cbn [oput oget wtotal fold_right snd]; [lia|].
    destruct (beqb k k'); cbn [wtotal fold_right snd].
    - fold (wtotal m). lia.
    - fold (wtotal (oput k v m)). fold (wtotal m). rewrite IH. lia.
  Qed.
End Weights.

Theorem count_similar_emits_every_contributing_record gs out rs :
  List.length (verb_count_similar gs out rs) = List.length (filter (has_key (group_key gs)) rs).
Proof.
  unfold verb_count_similar. cbv zeta.
  set (m := gfold _ _ _ rs).
  assert (L : Z.of_nat (List.length (flat_map (fun e : bytes * list record =>
                 map (fun r => oput out (OInt (Z.of_nat (List.length (snd e)))) (otext_rec r)) (snd e)) m))
              = wtotal (fun l : list record => Z.of_nat (List.length l)) m).
  { induction m as [|e m IH]; [reflexivity|]. cbn [flat_map]. rewrite app_length, map_length, Nat2Z.inj_add, IH. reflexivity. }
  apply Nat2Z.inj. etransitivity; [exact L|]. clear L. subst m. unfold gfold.
  assert (G : forall m0, wtotal (fun l : list record => Z.of_nat (List.length l))
                (fold_left (gstep (group_key gs) (fun _ => []) (fun (s : list record) r => s ++ [r])) rs m0)
              = (wtotal (fun l : list record => Z.of_nat (List.length l)) m0 + Z.of_nat (List.length (filter (has_key (group_key gs)) rs)))%Z).
  { induction rs as [|r rs IH]; intros m0; cbn [fold_left filter]; [cbn; lia|].
    rewrite IH. unfold gstep, has_key. destruct (group_key gs r) as [k|]; [|lia].
    rewrite wtotal_oput. cbn [List.length]. destruct (oget k m0); rewrite app_length; cbn [List.length]; lia. }
  rewrite G. cbn. lia.
Qed.

(* ================================================================== uniq -g [-c|-n], count-distinct -f [-n] *)
Definition first_sel (gs : list bytes) (ms : list record) : list bytes :=
  match ms with r0 :: _ => match selected gs r0 with Some vs => vs | None => [] end | [] => [] end.

(* the whole state of count / uniq / count-distinct / most-frequent: per group (first-appearance order) the group-by
   texts of its first member and the number of its members *)
Theorem count_groups_entries gs rs :
  count_groups gs rs
  = map (fun k => (k, (first_sel gs (members (group_key gs) k rs), Z.of_nat (List.length (members (group_key gs) k rs)))))
        (first_keys (group_key gs) rs).
Proof.
  unfold count_groups. rewrite gfold_spec. unfold spec_groups.
  assert (H : forall k, In k (first_keys (group_key gs) rs) -> members (group_key gs) k rs <> []).
  { intros k Hin. apply mem_In in Hin. rewrite first_keys_mem in Hin. intros E. apply members_nil_iff in E. congruence. }
  induction (first_keys (group_key gs) rs) as [|k ks IH]; [reflexivity|].
  cbn [flat_map map]. rewrite IH by (intros; apply H; now right).
  unfold entry_of, group_state. specialize (H k (or_introl eq_refl)).
  destruct (members (group_key gs) k rs) as [|r0 rest] eqn:E; [congruence|].
  rewrite count_fold. reflexivity.
Qed.

Theorem uniq_equals_definition gs show_counts only_n out rs :
  verb_uniq gs show_counts only_n out rs
  = if only_n then [[(B "count", OInt (Z.of_nat (List.length (first_keys (group_key gs) rs))))]]
    else map (fun k => put_all (group_fields gs (first_sel gs (members (group_key gs) k rs))
                                ++ (if show_counts then [(out, OInt (Z.of_nat (List.length (members (group_key gs) k rs))))] else [])) [])
             (first_keys (group_key gs) rs).
Proof.
  unfold verb_uniq. rewrite count_groups_entries. destruct only_n.
  - now rewrite map_length.
  - rewrite map_map. reflexivity.
Qed.

(* ================================================================== count-distinct -u *)
Definition dfl_cm (o : option (omap Z)) : omap Z := match o with Some cm => cm | None => [] end.

Lemma unlashed_step_ostep fs m r :
  unlashed_step fs m r
  = fold_left (ostep (fun f o => Some (match get f r with Some v => cm_incr v (dfl_cm o) | None => dfl_cm o end))) fs m.
Proof. unfold unlashed_step. apply fold_left_ext. intros m0 f. reflexivity. Qed.

Lemma unlashed_get fs f : NoDup fs -> In f fs -> forall rs m,
  dfl_cm (oget f (fold_left (unlashed_step fs) rs m)) = fold_left (fun cm v => cm_incr v cm) (values_of f rs) (dfl_cm (oget f m)).
Proof.
  intros Hnd Hin. apply mem_In in Hin. induction rs as [|r rs IH]; intros m; [reflexivity|].
  cbn [fold_left]. rewrite IH, unlashed_step_ostep, fold_oput_get, Hin by exact Hnd.
  unfold values_of at 2. cbn [flat_map]. fold (values_of f rs). destruct (get f r); reflexivity.
Qed.

(* per listed field, the counts by value text of exactly the values of that field, first-seen order (the counts map is
   the one of C10_counts_by_value_equal_occurrences) *)
Theorem count_distinct_u_cell fs f rs : NoDup fs -> In f fs ->
  dfl_cm (oget f (fold_left (unlashed_step fs) rs [])) = fold_left (fun cm v => cm_incr v cm) (values_of f rs) [].
Proof. intros Hnd Hin. now rewrite (unlashed_get fs f Hnd Hin). Qed.

(* ================================================================== top *)
Definition top_cu (n : nat) (domax : bool) (o : option (list val)) (v : val) : option (list val) :=
  Some (top_add n domax v (match o with Some l => l | None => [] end)).
Definition top_key (fs gs : list bytes) (r : record) : option bytes :=
  match selected fs r with Some _ => group_key gs r | None => None end.
Definition top_groups (n : nat) (domax : bool) (fs gs : list bytes) (rs : list record) : omap (list bytes * omap (list val)) :=
  gfold (top_key fs gs)
        (fun r => (match selected gs r with Some vs => vs | None => [] end, []))
        (fun (s : list bytes * omap (list val)) r => (fst s, cell_rec (top_cu n domax) fs (snd s) r)) rs.

Lemma fold_left_snd {A B X} (g : B -> X -> B) l : forall (a : A) b,
  fold_left (fun (s : A * B) x => (fst s, g (snd s) x)) l (a, b) = (a, fold_left g l b).
Proof. induction l as [|x l IH]; intros a b; cbn [fold_left fst snd]; [reflexivity|apply IH]. Qed.

(* the model's grouped state, named *)
Lemma verb_top_groups n domax out fs gs rs :
  verb_top n domax out fs gs rs
  = flat_map (fun e : bytes * (list bytes * omap (list val)) =>
              map (fun i =>
                     fold_left (fun o fl => oput ((fst fl) ++ B "_top")%list
                                                 (match nth_error (snd fl) i with Some v => oval_of_val v | None => OText [] end)
                                                 (oput out (OInt (Z.of_nat i + 1)) o))
                               (snd (snd e)) (put_all (group_fields gs (fst (snd e))) []))
                  (seq 0 n)) (top_groups n domax fs gs rs).
Proof.
  unfold verb_top. cbv zeta. unfold top_groups.
  match goal with |- flat_map _ ?a = flat_map _ ?b => assert (E : a = b) end.
  { unfold gfold. apply fold_left_ext. intros m r. unfold gstep, top_key.
    destruct (match selected fs r with Some _ => group_key gs r | None => None end) as [k|]; [|reflexivity].
    f_equal. f_equal. unfold cell_rec. apply fold_left_ext. intros m0 f. unfold ostep, top_cu. destruct (get f r); reflexivity. }
  rewrite E. reflexivity.
Qed.

(* keeping only the best n at every step = the best n of all *)
Lemma firstn_top_insert better n x : forall l, firstn n (top_insert better x (firstn n l)) = firstn n (top_insert better x l).
Proof.
  induction n as [|n IH]; intros l; [reflexivity|]. destruct l as [|y l]; [reflexivity|].
  rewrite firstn_cons. cbn [top_insert]. destruct (better x y).
  - rewrite !firstn_cons. f_equal. destruct n as [|n']; [reflexivity|]. rewrite !firstn_cons. f_equal.
    rewrite firstn_firstn. f_equal. lia.
  - rewrite !firstn_cons. f_equal. apply IH.
Qed.

Definition top_better (domax : bool) (a b : val) : bool := if domax then val_lt b a else val_lt a b.
(* all the values, best first (insertion sort as TopKeeper.Add orders them) *)
Definition top_sorted (domax : bool) (vs : list val) : list val :=
  fold_left (fun l v => top_insert (top_better domax) v l) vs [].

Lemma top_add_fold n domax vs : forall l,
  fold_left (fun l v => top_add n domax v l) vs (firstn n l)
  = firstn n (fold_left (fun l v => top_insert (top_better domax) v l) vs l).
Proof.
  induction vs as [|v vs IH]; intros l; [reflexivity|]. cbn [fold_left]. unfold top_add at 2.
  fold (top_better domax). rewrite firstn_top_insert. apply IH.
Qed.

Lemma top_insert_perm better x l : Permutation (top_insert better x l) (x :: l).
Proof.
  induction l as [|y l IH]; [apply Permutation_refl|]. cbn [top_insert]. destruct (better x y); [apply Permutation_refl|].
  eapply Permutation_trans; [apply perm_skip, IH|apply perm_swap].
Qed.
Lemma top_sorted_perm domax vs : Permutation (top_sorted domax vs) vs.
Proof.
  unfold top_sorted.
  assert (G : forall acc, Permutation (fold_left (fun l v => top_insert (top_better domax) v l) vs acc) (acc ++ vs)).
  { induction vs as [|v vs IH]; intros acc; cbn [fold_left]; [rewrite app_nil_r; apply Permutation_refl|].
    eapply Permutation_trans; [apply IH|]. eapply Permutation_trans; [apply Permutation_app_tail, top_insert_perm|].
    cbn [app]. apply Permutation_middle. }
  exact (G []).
Qed.

Lemma top_fold_values n domax vs : forall o,
  fold_left (cell_upd (top_cu n domax)) vs o
  = match vs with [] => o | _ => Some (fold_left (fun l v => top_add n domax v l) vs (match o with Some l => l | None => [] end)) end.
Proof.
  induction vs as [|v vs IH]; intros o; [reflexivity|]. cbn [fold_left]. rewrite IH. unfold cell_upd, top_cu.
  destruct vs; reflexivity.
Qed.

(* top: the list kept for (group k, field f) is the best n of exactly the values of f carried by the members of k
   (members: the records having every group-by AND every value field) *)
Theorem top_cell n domax fs gs rs k f : NoDup fs -> In f fs ->
  match oget k (top_groups n domax fs gs rs) with Some s => oget f (snd s) | None => None end
  = match values_of f (members (top_key fs gs) k rs) with
    | [] => None
    | vs => Some (firstn n (top_sorted domax vs))
    end.
Proof.
  intros Hnd Hin. unfold top_groups. rewrite oget_gfold. unfold group_state.
  destruct (members (top_key fs gs) k rs) as [|r0 rest]; [reflexivity|].
  rewrite fold_left_snd. cbn [snd]. rewrite (cells_get (top_cu n domax) fs f Hnd Hin). cbn [oget].
  rewrite top_fold_values. destruct (values_of f (r0 :: rest)) as [|v vs]; [reflexivity|].
  f_equal. pose proof (top_add_fold n domax (v :: vs) []) as E. rewrite firstn_nil in E. exact E.
Qed.

(* every member of a top group carries every value field *)
Lemma top_members_have_fields fs gs k rs r f : In r (members (top_key fs gs) k rs) -> In f fs -> get f r <> None.
Proof.
  unfold members. rewrite filter_In. intros [_ Hk] Hf. unfold keyb, top_key in Hk.
  destruct (selected fs r) eqn:S; [|discriminate]. intros Hn.
  assert (X : selected fs r = None) by (apply selected_none_iff; eauto). congruence.
Qed.

(* ================================================================== most-frequent / least-frequent *)
Lemma filter_none {A} (p : A -> bool) l : (forall x, In x l -> p x = false) -> filter p l = [].
Proof.
  induction l as [|x l IH]; intros H; [reflexivity|]. cbn [filter]. rewrite H by (now left). apply IH. intros y Hy. apply H. now right.
Qed.

Section StableSort.
  Context {A : Type} (less : A -> A -> bool) (key : A -> Z).
  Hypothesis Hless : forall a b, less a b = (key a <? key b)%Z.

  Fixpoint sortedk (l : list A) : Prop :=
    match l with [] => True | y :: t => Forall (fun z => (key y <= key z)%Z) t /\ sortedk t end.

  Lemma ins_by_perm x l : Permutation (ins_by less x l) (x :: l).
  Proof.
    induction l as [|y l IH]; [apply Permutation_refl|]. cbn [ins_by]. destruct (less x y); [apply Permutation_refl|].
    eapply Permutation_trans; [apply perm_skip, IH|apply perm_swap].
  Qed.

  Lemma ins_by_sorted x l : sortedk l -> sortedk (ins_by less x l).
  Proof.
    induction l as [|y l IH]; intros Hs; cbn [ins_by]; [cbn; auto|].
    destruct Hs as [Hall Hs]. rewrite Hless. destruct (Z.ltb_spec (key x) (key y)) as [Hlt|Hge].
    - cbn [sortedk]. repeat split; [|assumption|assumption].
      constructor; [lia|]. eapply Forall_impl; [|exact Hall]. cbn beta. intros z Hz. lia.
    - cbn [sortedk]. split; [|now apply IH].
      eapply Permutation_Forall; [apply Permutation_sym, ins_by_perm|]. constructor; [lia|exact Hall].
  Qed.

  Definition has_key_c (c : Z) (a : A) : bool := (key a =? c)%Z.

  (* stability: x goes behind every element with the same key *)
  Lemma ins_by_stable c x l : sortedk l ->
    filter (has_key_c c) (ins_by less x l) = filter (has_key_c c) l ++ (if has_key_c c x then [x] else []).
  Proof.
    induction l as [|y l IH]; intros Hs; cbn [ins_by]; [cbn [filter]; now destruct (has_key_c c x)|].
    destruct Hs as [Hall Hs]. rewrite Hless. destruct (Z.ltb_spec (key x) (key y)) as [Hlt|Hge].
    - unfold has_key_c at 3. destruct (Z.eqb_spec (key x) c) as [Hc|Hc].
      + (* nothing from y on has key c *)
        assert (E : filter (has_key_c c) (y :: l) = []).
        { apply filter_none. intros z [<-|Hz]; unfold has_key_c; apply Z.eqb_neq; [lia|].
          rewrite Forall_forall in Hall. specialize (Hall z Hz). lia. }
        change (filter (has_key_c c) (x :: y :: l)) with (if has_key_c c x then x :: filter (has_key_c c) (y :: l) else filter (has_key_c c) (y :: l)).
        rewrite E. cbn [app].
        unfold has_key_c. destruct (Z.eqb_spec (key x) c); [reflexivity|contradiction].
      + rewrite app_nil_r. cbn [filter]. unfold has_key_c at 1. destruct (Z.eqb_spec (key x) c); [contradiction|reflexivity].
    - cbn [filter]. rewrite IH by assumption. destruct (has_key_c c y); reflexivity.
  Qed.

  Lemma stable_sort_from l : forall acc, sortedk acc ->
    sortedk (fold_left (fun acc x => ins_by less x acc) l acc)
    /\ Permutation (fold_left (fun acc x => ins_by less x acc) l acc) (acc ++ l)
    /\ forall c, filter (has_key_c c) (fold_left (fun acc x => ins_by less x acc) l acc)
                 = filter (has_key_c c) acc ++ filter (has_key_c c) l.
  Proof.
    induction l as [|x l IH]; intros acc Hs; cbn [fold_left].
    - repeat split; [assumption|rewrite app_nil_r; apply Permutation_refl|intros; cbn [filter]; now rewrite app_nil_r].
    - destruct (IH (ins_by less x acc) (ins_by_sorted x acc Hs)) as (S1 & P1 & F1). repeat split; [exact S1| |].
      + eapply Permutation_trans; [exact P1|]. eapply Permutation_trans; [apply Permutation_app_tail, ins_by_perm|].
        cbn [app]. apply Permutation_middle.
      + intros c. rewrite F1, ins_by_stable by exact Hs. cbn [filter]. rewrite <- app_assoc.
        destruct (has_key_c c x); reflexivity.
  Qed.

  (* the three facts that determine the result: sorted by key, a permutation, equal keys keep their input order *)
  Theorem stable_sort_spec l :
    sortedk (stable_sort less l) /\ Permutation (stable_sort less l) l
    /\ forall c, filter (has_key_c c) (stable_sort less l) = filter (has_key_c c) l.
  Proof. unfold stable_sort. destruct (stable_sort_from l [] Logic.I) as (S1 & P1 & F1). repeat split; assumption. Qed.
End StableSort.

Definition freq_key (descending : bool) (e : bytes * (list bytes * Z)) : Z := if descending then (- snd (snd e))%Z else snd (snd e).
Definition freq_sorted (descending : bool) (gs : list bytes) (rs : list record) : list (bytes * (list bytes * Z)) :=
  stable_sort (fun a b : bytes * (list bytes * Z) =>
                 if descending then (snd (snd b) <? snd (snd a))%Z else (snd (snd a) <? snd (snd b))%Z) (count_groups gs rs).

Lemma verb_frequent_unfold descending maxn show_counts out gs rs :
  verb_frequent descending maxn show_counts out gs rs
  = map (fun e => put_all (group_fields gs (fst (snd e)) ++ (if show_counts then [(out, OInt (snd (snd e)))] else [])) [])
        (firstn maxn (freq_sorted descending gs rs)).
Proof. reflexivity. Qed.

(* most-frequent / least-frequent: the groups (with their sizes, C10_count_groups_entries) sorted by size, descending
   for most-frequent, groups of equal size in first-appearance order; then the first maxn *)
Theorem frequent_order descending gs rs :
  sortedk (freq_key descending) (freq_sorted descending gs rs)
  /\ Permutation (freq_sorted descending gs rs) (count_groups gs rs)
  /\ forall c, filter (has_key_c (freq_key descending) c) (freq_sorted descending gs rs)
               = filter (has_key_c (freq_key descending) c) (count_groups gs rs).
Proof.
  unfold freq_sorted. apply stable_sort_spec. intros a b. unfold freq_key. destruct descending; [|reflexivity].
  destruct (Z.ltb_spec (snd (snd b)) (snd (snd a))), (Z.ltb_spec (- snd (snd a)) (- snd (snd b))); try reflexivity; lia.
Qed.
