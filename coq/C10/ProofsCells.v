(* C10 proofs, part 9: "the cell sees exactly its group's values" for the verbs other than stats1/count:
   a generic lemma for per-(group, field) cells kept in nested insertion-ordered maps, then fraction (both passes,
   the whole output), histogram, count-similar, uniq / count-distinct, count-distinct -u, top, most/least-frequent,
   merge-fields, fill-down and the grouping of step. *)
From Miller Require Import C10.Model C10.Verbs C10.Verbs2 C10.Spec C10.ProofsGroup C10.ProofsPctl C10.ProofsAcc C10.Proofs C10.ProofsFrac.
From Coq Require Import Lia Permutation Sorted.
Open Scope char_scope.

(* ---------------------------------------------------------------- small list facts *)
Lemma fold_left_ext {A B} (f g : A -> B -> A) l : (forall a x, f a x = g a x) -> forall a, fold_left f l a = fold_left g l a.
Proof. intros H. induction l as [|x l IH]; intros a; cbn [fold_left]; [reflexivity|]. rewrite H. apply IH. Qed.

Lemma fold_left_ext_in {A B} (f g : A -> B -> A) l : (forall x, In x l -> forall a, f a x = g a x) -> forall a, fold_left f l a = fold_left g l a.
Proof.
  induction l as [|x l IH]; intros H a; cbn [fold_left]; [reflexivity|].
  rewrite H by (now left). apply IH. intros y Hy. apply H. now right.
Qed.

Lemma fold_left_pair {A B X} (fa : A -> X -> A) (fb : B -> X -> B) l : forall a b,
  fold_left (fun (p : A * B) x => (fa (fst p) x, fb (snd p) x)) l (a, b) = (fold_left fa l a, fold_left fb l b).
Proof. induction l as [|x l IH]; intros a b; cbn [fold_left fst snd]; [reflexivity|apply IH]. Qed.

Lemma values_of_app f a b : values_of f (a ++ b) = values_of f a ++ values_of f b.
Proof. unfold values_of. apply flat_map_app. Qed.

(* ---------------------------------------------------------------- the state of a group in the definitional partition *)
Section SpecGet.
  Context {R S : Type} (key : R -> option bytes) (init : R -> S) (upd : S -> R -> S).
  Lemma oget_spec_groups k rs : oget k (spec_groups key init upd rs) = group_state key init upd k rs.
  Proof.
    unfold spec_groups. rewrite oget_flat_entries by apply first_keys_nodup.
    destruct (mem k (first_keys key rs)) eqn:M; [reflexivity|].
    rewrite first_keys_mem in M. apply members_nil_iff in M. unfold group_state. now rewrite M.
  Qed.
  Lemma oget_gfold k rs : oget k (gfold key init upd rs) = group_state key init upd k rs.
  Proof. rewrite gfold_spec. apply oget_spec_groups. Qed.
End SpecGet.

(* ---------------------------------------------------------------- cells: a map field name -> V updated record by record *)
Section Cells.
  Context {V : Type}.
  Variable cu : option V -> val -> option V.        (* None: the cell is left as it is *)
  (* one record: walk the field list, update the cell of every field the record carries *)
  Definition cell_rec (fs : list bytes) (m : omap V) (r : record) : omap V :=
    fold_left (ostep (fun f o => match get f r with Some v => cu o v | None => None end)) fs m.
  Definition cell_upd (o : option V) (v : val) : option V := match cu o v with Some x => Some x | None => o end.

  Lemma cell_rec_get fs m r f : NoDup fs ->
    oget f (cell_rec fs m r)
    = if mem f fs then match get f r with Some v => cell_upd (oget f m) v | None => oget f m end else oget f m.
  Proof.
    intros Hnd. unfold cell_rec. rewrite fold_oput_get by exact Hnd.
    destruct (mem f fs); [|reflexivity]. unfold cell_upd. destruct (get f r); reflexivity.
  Qed.

  (* after any list of records the cell of f is the update folded over exactly the values of f those records carry *)
  Lemma cells_get fs f : NoDup fs -> In f fs -> forall ms m,
    oget f (fold_left (cell_rec fs) ms m) = fold_left cell_upd (values_of f ms) (oget f m).
  Proof.
    intros Hnd Hin. apply mem_In in Hin. induction ms as [|r ms IH]; intros m; [reflexivity|].
    cbn [fold_left]. rewrite IH, cell_rec_get, Hin by exact Hnd. unfold values_of at 2. cbn [flat_map].
    fold (values_of f ms). destruct (get f r); reflexivity.
  Qed.
End Cells.

(* the cell of (group k, field f) of a grouped cell map *)
Definition gcell {V} (m : omap (omap V)) (k f : bytes) : option V :=
  oget f (match oget k m with Some c => c | None => [] end).

Lemma gcells_get {V} (cu : option V -> val -> option V) key fs f rs k : NoDup fs -> In f fs ->
  gcell (gfold key (fun _ : record => []) (fun c r => cell_rec cu fs c r) rs) k f
  = fold_left (cell_upd cu) (values_of f (members key k rs)) None.
Proof.
  intros Hnd Hin. unfold gcell. rewrite oget_gfold. unfold group_state.
  destruct (members key k rs) as [|r0 rest]; [reflexivity|].
  now rewrite (cells_get cu fs f Hnd Hin).
Qed.

(* ================================================================== fraction *)
Definition frac_cu (o : option nv) (v : val) : option nv := match numof v with Some x => Some (sum_step o x) | None => None end.

Lemma frac_pass1_gstep fs gs sums r :
  frac_pass1 fs gs sums r = gstep (group_key gs) (fun _ : record => []) (fun c r => cell_rec frac_cu fs c r) sums r.
Proof.
  unfold frac_pass1, gstep. destruct (group_key gs r) as [k|]; [|reflexivity]. f_equal. unfold cell_rec.
  apply fold_left_ext. intros m f. unfold ostep, frac_cu. destruct (get f r) as [v|]; [|reflexivity].
  destruct (numof v); reflexivity.
Qed.

Lemma frac_pass1_gfold fs gs rs :
  fold_left (frac_pass1 fs gs) rs [] = gfold (group_key gs) (fun _ : record => []) (fun c r => cell_rec frac_cu fs c r) rs.
Proof. unfold gfold. apply fold_left_ext. intros; apply frac_pass1_gstep. Qed.

Lemma frac_fold_numerics vs : forall o,
  fold_left (cell_upd frac_cu) vs o = fold_left (fun o x => Some (sum_step o x)) (numerics vs) o.
Proof.
  induction vs as [|v vs IH]; intros o; [reflexivity|]. cbn [fold_left]. rewrite numerics_cons.
  unfold cell_upd at 2, frac_cu. destruct (numof v); cbn [fold_left]; apply IH.
Qed.

(* pass 1: the sum kept for (group k, field f) is the sum of exactly the numeric values of f carried by the members of k *)
Theorem fraction_sum_cell fs gs rs k f : NoDup fs -> In f fs ->
  gcell (fold_left (frac_pass1 fs gs) rs []) k f = frac_cell_sum (numerics (values_of f (members (group_key gs) k rs))).
Proof.
  intros Hnd Hin. rewrite frac_pass1_gfold, gcells_get by assumption. unfold frac_cell_sum. apply frac_fold_numerics.
Qed.

(* pass 2: the running (cumulative) sums *)
Definition cum_cu (cumu : bool) (o : option nv) (v : val) : option nv :=
  if cumu then match numof v with Some x => Some (nv_plus (dflt_nv o (I 0)) x) | None => None end else None.

(* what pass 2 writes for one record, given the sums and the cumulative sums of its group so far *)
Definition frac_rec_out (fs : list bytes) (pct cumu : bool) (sg cg : omap nv) (r : record) : orec :=
  fold_left (fun o f => match get f r with
                        | Some v => match numof v with
                                    | Some x => oput (f ++ frac_suffix pct cumu)%list
                                                     (frac_value cumu (if pct then I 100 else I 1) x (dflt_nv (oget f cg) (I 0)) (dflt_nv (oget f sg) (I 0))) o
                                    | None => o end
                        | None => o end) fs (otext_rec r).

Lemma frac_inner fs (pct cumu : bool) (sg : omap nv) r : NoDup fs -> forall cg o,
  fold_left (fun (acc : omap nv * orec) f =>
               let '(cg, o) := acc in
               match get f r with
               | None => acc
               | Some v =>
                   match numof v with
                   | None => acc
                   | Some x =>
                       let cum := dflt_nv (oget f cg) (I 0) in
                       let value := frac_value cumu (if pct then I 100 else I 1) x cum (dflt_nv (oget f sg) (I 0)) in
                       (if cumu then oput f (nv_plus cum x) cg else cg, oput (f ++ frac_suffix pct cumu)%list value o)
                   end
               end) fs (cg, o)
  = (cell_rec (cum_cu cumu) fs cg r,
     fold_left (fun o f => match get f r with
                           | Some v => match numof v with
                                       | Some x => oput (f ++ frac_suffix pct cumu)%list
                                                        (frac_value cumu (if pct then I 100 else I 1) x (dflt_nv (oget f cg) (I 0)) (dflt_nv (oget f sg) (I 0))) o
                                       | None => o end
                           | None => o end) fs o).
Proof.
  induction fs as [|f0 fs IH]; intros Hnd cg o; [reflexivity|].
  inversion Hnd as [|? ? Hni Hnd']; subst. cbn [fold_left]. unfold cell_rec. cbn [fold_left]. fold (cell_rec (cum_cu cumu) fs).
  unfold ostep at 2, cum_cu at 2.
  destruct (get f0 r) as [v|]; [|destruct cumu; now apply IH].
  destruct (numof v) as [x|]; [|destruct cumu; now apply IH].
  destruct cumu.
  - rewrite IH by assumption. f_equal. apply fold_left_ext_in. intros f Hf o'.
    assert (E : oget f (oput f0 (nv_plus (dflt_nv (oget f0 cg) (I 0)) x) cg) = oget f cg).
    { rewrite oget_oput. destruct (beqb_spec f f0) as [->|_]; [contradiction|reflexivity]. }
    now rewrite E.
  - now apply IH.
Qed.

Lemma frac_pass2_step fs gs (pct cumu : bool) sums cumus out r : NoDup fs ->
  frac_pass2 fs gs pct cumu sums (cumus, out) r
  = (gstep (group_key gs) (fun _ : record => []) (fun c r => cell_rec (cum_cu cumu) fs c r) cumus r,
     out ++ [match group_key gs r with
             | None => otext_rec r
             | Some k => frac_rec_out fs pct cumu (match oget k sums with Some m => m | None => [] end)
                                      (match oget k cumus with Some m => m | None => [] end) r
             end]).
Proof.
  intros Hnd. unfold frac_pass2, gstep. destruct (group_key gs r) as [k|]; [|reflexivity].
  rewrite frac_inner by exact Hnd. reflexivity.
Qed.

(* ---- the definitional side of fraction: for the record r arriving after [pre], out of the whole input [all] *)
Definition frac_cum_def (cumu : bool) (gs : list bytes) (k f : bytes) (pre : list record) : nv :=
  if cumu then fold_left nv_plus (numerics (values_of f (members (group_key gs) k pre))) (I 0) else I 0.
Definition frac_sum_def (gs : list bytes) (k f : bytes) (all : list record) : nv :=
  dflt_nv (frac_cell_sum (numerics (values_of f (members (group_key gs) k all)))) (I 0).
Definition spec_fraction_rec (fs gs : list bytes) (pct cumu : bool) (all pre : list record) (r : record) : orec :=
  match group_key gs r with
  | None => otext_rec r
  | Some k =>
      fold_left (fun o f => match get f r with
                            | Some v => match numof v with
                                        | Some x => oput (f ++ frac_suffix pct cumu)%list
                                                         (frac_value cumu (if pct then I 100 else I 1) x
                                                                     (frac_cum_def cumu gs k f pre) (frac_sum_def gs k f all)) o
                                        | None => o end
                            | None => o end) fs (otext_rec r)
  end.
Fixpoint spec_fraction_from (fs gs : list bytes) (pct cumu : bool) (all pre rest : list record) : list orec :=
  match rest with
  | [] => []
  | r :: t => spec_fraction_rec fs gs pct cumu all pre r :: spec_fraction_from fs gs pct cumu all (pre ++ [r]) t
  end.

Lemma cum_fold_numerics cumu vs : forall o,
  dflt_nv (fold_left (cell_upd (cum_cu cumu)) vs o) (I 0)
  = if cumu then fold_left nv_plus (numerics vs) (dflt_nv o (I 0)) else dflt_nv o (I 0).
Proof.
  induction vs as [|v vs IH]; intros o; [now destruct cumu|]. cbn [fold_left]. rewrite IH, numerics_cons.
  unfold cell_upd, cum_cu. destruct cumu; [|reflexivity]. destruct (numof v); reflexivity.
Qed.

Theorem fraction_equals_definition fs gs pct cumu rs : NoDup fs ->
  verb_fraction fs gs pct cumu rs = spec_fraction_from fs gs pct cumu rs [] rs.
Proof.
  intros Hnd. unfold verb_fraction. set (sums := fold_left (frac_pass1 fs gs) rs []).
  assert (G : forall rest pre out,
             snd (fold_left (frac_pass2 fs gs pct cumu sums) rest
                    (gfold (group_key gs) (fun _ : record => []) (fun c r => cell_rec (cum_cu cumu) fs c r) pre, out))
             = out ++ spec_fraction_from fs gs pct cumu rs pre rest).
  { induction rest as [|r rest IH]; intros pre out; cbn [fold_left spec_fraction_from]; [now rewrite app_nil_r|].
    rewrite frac_pass2_step by exact Hnd.
    replace (gstep (group_key gs) (fun _ : record => []) (fun c r0 => cell_rec (cum_cu cumu) fs c r0)
                   (gfold (group_key gs) (fun _ : record => []) (fun c r0 => cell_rec (cum_cu cumu) fs c r0) pre) r)
      with (gfold (group_key gs) (fun _ : record => []) (fun c r0 => cell_rec (cum_cu cumu) fs c r0) (pre ++ [r]))
      by (unfold gfold; now rewrite fold_left_app).
    rewrite IH, <- app_assoc. f_equal. cbn [app]. f_equal.
    unfold spec_fraction_rec. destruct (group_key gs r) as [k|]; [|reflexivity].
    unfold frac_rec_out. apply fold_left_ext_in. intros f Hf o.
    destruct (get f r) as [v|]; [|reflexivity]. destruct (numof v) as [x|]; [|reflexivity].
    f_equal. f_equal.
    - pose proof (gcells_get (cum_cu cumu) (group_key gs) fs f pre k Hnd Hf) as E. unfold gcell in E. rewrite E.
      rewrite cum_fold_numerics. reflexivity.
    - pose proof (fraction_sum_cell fs gs rs k f Hnd Hf) as E. unfold gcell in E. fold sums in E. rewrite E. reflexivity. }
  specialize (G rs [] []). cbn [app] in G. exact G.
Qed.
