(* C10 correspondence harness: cases written by harness/py/checks/c10.py are evaluated with vm_compute.
   A case = (verb spec, input records, records observed from the scratch-built mlr).  Observed values carry their
   printed text and, when the text is a number, its exact rational value (parsed by the Python side). *)
From Miller Require Import C10.Model C10.Verbs C10.Verbs2 C10.Verbs3 C10.Verbs4 C10.Verbs5.
Open Scope char_scope.

Inductive s1mode := M1End | M1Iter | M1Win (n : nat).
Inductive vspec :=
| SCount (gs : option (list bytes)) (only_n : bool) (out : bytes)
| SUniq (gs : list bytes) (show_counts only_n : bool) (out : bytes)
| SCountDistinctU (fs : list bytes)
| SCountSimilar (gs : list bytes) (out : bytes)
| SStats1 (interp : bool) (accs : list accreq) (fs gs : list bytes)
| SStats1W (interp : bool) (accs : list accreq) (fs gs : list bytes) (n : nat)
| SAcc (interp : bool) (a : accname) (vs : list val)      (* a DSL statistics function on an array of numbers *)
| SPctls (interp : bool) (ps : list Q) (vs : list val)    (* percentiles(xs, [p...]) on one array: sorted once *)
| SFraction (fs gs : list bytes) (pct cumu : bool)
| SStep (sps : list stepreq) (fs gs : list bytes)
| SMergeFields (interp keep : bool) (accs : list accreq) (mode : mfmode) (base : bytes)
| SHistogram (lo hi : Q) (nbins : Z) (prefix : bytes) (fs : list bytes)
| STop (n : nat) (domax : bool) (out : bytes) (fs gs : list bytes)
| SFrequent (descending : bool) (maxn : nat) (show_counts : bool) (out : bytes) (gs : list bytes)
| SFillDown (all only_if_absent : bool) (fs : list bytes)
(* Verbs3.v *)
| SUniqA (mode : uniqa_mode) (out : bytes)
| SUniqX (xs : list bytes) (show_counts only_n : bool) (out : bytes)
| SFillEmpty (fill : bytes)
| STop2 (showfull : bool) (n : nat) (domax : bool) (out : bytes) (fs gs : list bytes)
| SStepSlwin (wins : list (nat * nat)) (fs gs : list bytes)
(* Verbs4.v: stats1 with -f/--fr/--fx, -g/--gr/--gx, end-of-stream / -s / -w n *)
| SStats1G (interp : bool) (accs : list accreq) (fsl : fsel) (gsl : gsel) (mode : s1mode)
(* Verbs5.v: stats2, end of stream or -s *)
| SStats2 (iter : bool) (accs : list s2acc) (fs gs : list bytes).

Definition run_spec (v : vspec) (rs : list record) : list orec :=
  match v with
  | SCount gs n out => verb_count gs n out rs
  | SUniq gs c n out => verb_uniq gs c n out rs
  | SCountDistinctU fs => verb_count_distinct_u fs rs
  | SCountSimilar gs out => verb_count_similar gs out rs
  | SStats1 i accs fs gs => verb_stats1 i (uniq_accs accs) (uniq_names fs) gs rs       (* names given twice are kept once (fix: df62dcee7) *)
  | SStats1W i accs fs gs n => verb_stats1_w i (uniq_accs accs) (uniq_names fs) gs n rs
  | SAcc i a vs => [[(B "r", run_acc i a vs)]]
  | SPctls i ps vs => let d := sort_vals vs in
                      [map (fun p => (B "p", match d with [] => OVoid | _ => if i then pctl_interp p d else pctl_nonint p d end)) ps]
  | SFraction fs gs p c => verb_fraction fs gs p c rs
  | SStep sps fs gs => verb_step sps fs gs rs
  | SMergeFields i k accs mode base => verb_merge_fields i k accs mode base rs
  | SHistogram lo hi nb pre fs => verb_histogram lo hi nb pre fs rs
  | STop n mx out fs gs => verb_top n mx out fs gs rs
  | SFrequent d n sc out gs => verb_frequent d n sc out gs rs
  | SFillDown a o fs => verb_fill_down a o fs rs
  | SUniqA mode out => verb_uniq_a mode out rs
  | SUniqX xs c n out => verb_uniq_x xs c n out rs
  | SFillEmpty fill => verb_fill_empty fill rs
  | STop2 a n mx out fs gs => verb_top2 a n mx out fs gs rs
  | SStepSlwin wins fs gs => verb_step_slwin wins fs gs rs
  | SStats1G i accs fsl gsl M1End => verb_stats1g i accs fsl gsl rs
  | SStats1G i accs fsl gsl M1Iter => verb_stats1g_s i accs fsl gsl rs
  | SStats1G i accs fsl gsl (M1Win n) => verb_stats1g_w i accs fsl gsl n rs
  | SStats2 false accs fs gs => verb_stats2 accs fs gs rs
  | SStats2 true accs fs gs => verb_stats2_s accs fs gs rs
  end.

Definition obsval := (bytes * option Q)%type.
Definition obsrec := list (bytes * obsval).

Definition eps9 : Q := 1 # 1000000000.
Definition eps8 : Q := 1 # 100000000.
Definition Qmaxb1 (q : Q) : Q := if Qle_bool 1 (Qabs q) then Qabs q else 1.
Definition close (q o : Q) : bool := Qle_bool (Qabs (o - q)) (eps9 * Qmaxb1 q).
(* o ~ sqrt(q'), stated without irrationals: |o^2 - q'| <= 3|o|d + d^2 with d = 1e-8 max(1,|o|) *)
Definition sq_close (scale q' o : Q) : bool :=
  let d := eps8 * Qmaxb1 o in
  Qle_bool (Qabs (o * o * scale - q')) ((3 * Qabs o * d + d * d) * scale).

Definition oval_matches (m : oval) (o : obsval) : bool :=
  let '(t, oq) := o in
  match m with
  | OInt z => match classify t with NInt z' => (z =? z')%Z | _ => false end
  | OFlt q => match oq with Some o => close (Qred q) o | None => false end
  | OSqrt q => match oq with Some o => Qle_bool 0 o && sq_close 1 (Qred q) o | None => false end
  | OPow15 nu de =>
      match oq with
      | Some o => let nu := Qred nu in let de := Qred de in
                  (Qle_bool 0 (o * nu)) && sq_close (de * de * de) (nu * nu) o
      | None => false
      end
  | OText b => beqb b t
  | OVoid => is_void t
  | ONan => match oq with None => nonempty t | Some _ => false end
  | OPanic => false
  end.

Fixpoint orec_matches (m : orec) (o : obsrec) : bool :=
  match m, o with
  | [], [] => true
  | (k, v) :: m', (k', ov) :: o' => beqb k k' && oval_matches v ov && orec_matches m' o'
  | _, _ => false
  end.
Fixpoint orecs_match (m : list orec) (o : list obsrec) : bool :=
  match m, o with
  | [], [] => true
  | x :: m', y :: o' => orec_matches x y && orecs_match m' o'
  | _, _ => false
  end.

Definition chk (c : vspec * list record * list obsrec) : bool :=
  let '(v, rs, obs) := c in orecs_match (run_spec v rs) obs.

(* debugging aid for the Python side: what the model computes *)
Definition model_out (c : vspec * list record * list obsrec) : list orec := let '(v, rs, _) := c in run_spec v rs.
