(* C10 model, part 1: numbers from field text, the arithmetic kernels the accumulators call, the streaming
   accumulators of pkg/transformers/utils/stats1_accumulators.go + pkg/bifs/stats.go + pkg/bifs/percentiles.go,
   and the insertion-ordered map of pkg/lib/ordered_map.go.  Definitions only (proofs: Proofs*.v).

   Numbers: field values are byte strings.  The model recognises the sub-grammar the correspondence generator
   stays inside (see [classify]): canonical decimal ints, simple decimals d+.d+, the empty string, everything else
   is a string.  Float arithmetic is modelled EXACTLY over Q (the theorems are exact over Q; the float instance is
   tied by the correspondence check within 1e-9, see Harness.v). *)
From Miller Require Export Base.Bytes Base.Record.
From Coq Require Export QArith Qabs Qround.
Open Scope char_scope.

(* ------------------------------------------------------------------ text -> number *)
Inductive num := NInt (z : Z) | NFlt (q : Q) | NStr | NVoid.

Definition is_digit (c : ascii) : bool := in_range "0" "9" c.
Definition digit_val (c : ascii) : Z := Z.of_N (code c) - 48.
Fixpoint dec_acc (acc : Z) (s : bytes) : Z :=
  match s with [] => acc | c :: t => dec_acc (acc * 10 + digit_val c) t end.
Definition dec_val (s : bytes) : Z := dec_acc 0 s.
Definition nonempty {A} (l : list A) : bool := match l with [] => false | _ => true end.
Definition all_digits (s : bytes) : bool := nonempty s && forallb is_digit s.
(* no leading zero unless the numeral is exactly "0" *)
Definition canonical_digits (s : bytes) : bool :=
  all_digits s && match s with "0" :: _ :: _ => false | _ => true end.

Fixpoint split_dot (s : bytes) : bytes * option bytes :=
  match s with
  | [] => ([], None)
  | "." :: t => ([], Some t)
  | c :: t => let '(a, b) := split_dot t in (c :: a, b)
  end.

Definition in64 (z : Z) : bool := (- 9223372036854775808 <=? z)%Z && (z <=? 9223372036854775807)%Z.
Fixpoint pow10p (n : nat) : positive := match n with O => 1%positive | S k => (10 * pow10p k)%positive end.

Definition classify (s : bytes) : num :=
  match s with
  | [] => NVoid
  | _ =>
    let '(neg, body) := match s with "-" :: t => (true, t) | _ => (false, s) end in
    let sg := fun z : Z => if neg then (- z)%Z else z in
    match split_dot body with
    | (ip, None) =>
        if canonical_digits ip && negb (neg && beqb ip ["0"]) then
          (if in64 (sg (dec_val ip)) then NInt (sg (dec_val ip)) else NFlt (inject_Z (sg (dec_val ip))))
        else NStr
    | (ip, Some fp) =>
        if canonical_digits ip && all_digits fp then NFlt (Qmake (sg (dec_val (ip ++ fp)%list)) (pow10p (List.length fp)))
        else NStr
    end
  end.

(* ------------------------------------------------------------------ numeric values and kernels (pkg/bifs/arithmetic.go) *)
Inductive nv := I (z : Z) | F (q : Q).
Definition qof (v : nv) : Q := match v with I z => inject_Z z | F q => q end.

(* plus_n_ii: int unless the 64-bit sum overflows, then float *)
Definition nv_plus (a b : nv) : nv :=
  match a, b with
  | I x, I y => if in64 (x + y) then I (x + y) else F (inject_Z x + inject_Z y)
  | _, _ => F (qof a + qof b)
  end.
(* times_n_ii: int unless |product| exceeds 9223372036854774784 (the float threshold in the code), then float *)
Definition nv_times (a b : nv) : nv :=
  match a, b with
  | I x, I y => if (Z.abs (x * y) <=? 9223372036854774784)%Z then I (x * y) else F (inject_Z x * inject_Z y)
  | _, _ => F (qof a * qof b)
  end.
Definition nv_minus (a b : nv) : nv :=
  match a, b with
  | I x, I y => if in64 (x - y) then I (x - y) else F (inject_Z x - inject_Z y)
  | _, _ => F (qof a - qof b)
  end.
(* divide_n_ii: exact int when divisible (b <> 0), else float *)
Definition nv_div_int (a : nv) (n : Z) : nv :=
  match a with
  | I x => if (x mod n =? 0)%Z then I (x / n) else F (inject_Z x / inject_Z n)
  | F q => F (q / inject_Z n)
  end.

(* ------------------------------------------------------------------ values as the accumulators see them *)
(* a field value with its original text and inferred number *)
Definition val := bytes.
Definition numof (v : val) : option nv :=
  match classify v with NInt z => Some (I z) | NFlt q => Some (F q) | _ => None end.
Definition is_void (v : val) : bool := match v with [] => true | _ => false end.

(* bytewise string order (Go string <) *)
Fixpoint bltb (a b : bytes) : bool :=
  match a, b with
  | [], [] => false
  | [], _ :: _ => true
  | _ :: _, [] => false
  | x :: a', y :: b' => if (code x <? code y)%N then true else if (code y <? code x)%N then false else bltb a' b'
  end.

(* min/max accumulator value: ABSENT, an int with the text it came from (min_i_ii returns the input), a float
   (math.Min result, re-formatted), a string *)
Inductive mv := MAbsent | MInt (z : Z) (t : bytes) | MFlt (q : Q) | MStr (t : bytes).
Definition mv_of (v : val) : mv :=
  match classify v with NInt z => MInt z v | NFlt q => MFlt q | _ => MStr v end.
Definition Qminb (a b : Q) : Q := if Qle_bool a b then a else b.
Definition Qmaxb (a b : Q) : Q := if Qle_bool a b then b else a.
(* min_dispositions: numerics < strings; absent loses *)
Definition mv_min (a b : mv) : mv :=
  match a, b with
  | MAbsent, _ => b
  | _, MAbsent => a
  | MInt x _, MInt y _ => if (x <? y)%Z then a else b
  | MInt x _, MFlt q => MFlt (Qminb (inject_Z x) q)
  | MFlt q, MInt y _ => MFlt (Qminb q (inject_Z y))
  | MFlt p, MFlt q => MFlt (Qminb p q)
  | MStr _, MInt _ _ | MStr _, MFlt _ => b
  | MInt _ _, MStr _ | MFlt _, MStr _ => a
  | MStr s, MStr t => if bltb s t then a else b
  end.
Definition mv_max (a b : mv) : mv :=
  match a, b with
  | MAbsent, _ => b
  | _, MAbsent => a
  | MInt x _, MInt y _ => if (y <? x)%Z then a else b
  | MInt x _, MFlt q => MFlt (Qmaxb (inject_Z x) q)
  | MFlt q, MInt y _ => MFlt (Qmaxb q (inject_Z y))
  | MFlt p, MFlt q => MFlt (Qmaxb p q)
  | MStr _, MInt _ _ | MStr _, MFlt _ => a
  | MInt _ _, MStr _ | MFlt _, MStr _ => b
  | MStr s, MStr t => if bltb t s then a else b
  end.

(* ------------------------------------------------------------------ insertion-ordered map (pkg/lib/ordered_map.go) *)
Section OMap.
  Context {V : Type}.
  Definition omap := list (bytes * V).
  Fixpoint oget (k : bytes) (m : omap) : option V :=
    match m with [] => None | (k', v) :: t => if beqb k k' then Some v else oget k t end.
  Fixpoint oput (k : bytes) (v : V) (m : omap) : omap :=
    match m with
    | [] => [(k, v)]
    | (k', v') :: t => if beqb k k' then (k', v) :: t else (k', v') :: oput k v t
    end.
  Definition okeys (m : omap) : list bytes := map fst m.
End OMap.
Arguments omap V : clear implicits.

(* counts-by-value map used by mode / antimode / distinct_count / count-distinct / uniq *)
Definition cm_incr (k : bytes) (m : omap Z) : omap Z :=
  match oget k m with None => oput k 1%Z m | Some c => oput k (c + 1)%Z m end.

(* ------------------------------------------------------------------ what an accumulator emits *)
Inductive oval :=
| OInt (z : Z)            (* an int: printed text must be exactly this int *)
| OFlt (q : Q)            (* a float computed by float arithmetic; exact value over Q *)
| OSqrt (q : Q)           (* sqrt of q (stddev, meaneb) *)
| OPow15 (num den : Q)    (* num / den^1.5 (skewness) *)
| OText (t : bytes)       (* verbatim text *)
| OVoid                   (* empty *)
| ONan                    (* 0/0 or x/0 in float arithmetic: NaN or +-Inf *)
| OPanic.                 (* the Go code indexes out of range *)

Definition oval_of_nv (v : nv) : oval := match v with I z => OInt z | F q => OFlt q end.
Definition oval_of_mv (m : mv) : oval :=
  match m with MAbsent => OVoid | MInt z _ => OInt z | MFlt q => OFlt q | MStr t => OText t end.
Definition oval_of_val (v : val) : oval :=
  match classify v with NInt z => OInt z | NFlt q => OFlt q | NVoid => OVoid | NStr => OText v end.

(* ------------------------------------------------------------------ percentiles (pkg/bifs/percentiles.go) *)
(* mlrval.LessThan on the values a percentile keeper holds: numerics by value, numerics before strings, strings bytewise *)
Definition val_lt (a b : val) : bool :=
  match numof a, numof b with
  | Some x, Some y => negb (Qle_bool (qof y) (qof x))
  | Some _, None => true
  | None, Some _ => false
  | None, None => bltb a b
  end.
Fixpoint insert_sorted (x : val) (l : list val) : list val :=
  match l with
  | [] => [x]
  | y :: t => if val_lt y x then y :: insert_sorted x t else x :: y :: t
  end.
(* a stable insertion sort: equal elements keep arrival order (sort.Slice gives SOME order of equal elements;
   the harness compares numerically, so the choice is not observable for numbers) *)
Definition sort_vals (l : list val) : list val := fold_left (fun acc x => insert_sorted x acc) l [].

(* GetPercentileNonInterpolated: index := int(p*n/100), clamped to [0, n-1] *)
Definition pctl_index (p : Q) (n : Z) : Z :=
  let i := Qfloor (p * inject_Z n / 100) in
  let i := if (n <=? i)%Z then (n - 1)%Z else i in
  if (i <? 0)%Z then 0%Z else i.
Definition nthZ {A} (i : Z) (l : list A) : option A := if (i <? 0)%Z then None else nth_error l (Z.to_nat i).

Definition pctl_nonint (p : Q) (sorted : list val) : oval :=
  match nthZ (pctl_index p (Z.of_nat (List.length sorted))) sorted with
  | Some v => oval_of_val v
  | None => OPanic
  end.

(* GetPercentileLinearlyInterpolated: findex := (p/100)*(n-1), clamped below at 0; iindex := floor;
   if iindex >= n-1 then array[n-1] (clamped above; repaired by fix: 444a9e97f -- it indexed array[iindex]) else
   linear interpolation *)
Definition pctl_findex (p : Q) (n : Z) : Q :=
  let f := p / 100 * inject_Z (n - 1) in if Qle_bool 0 f then f else 0.
Definition pctl_interp (p : Q) (sorted : list val) : oval :=
  let n := Z.of_nat (List.length sorted) in
  let f := pctl_findex p n in
  let i := Qfloor f in
  if (n - 1 <=? i)%Z then
    match nthZ (n - 1) sorted with Some v => oval_of_val v | None => OPanic end
  else
    match nthZ i sorted, nthZ (i + 1) sorted with
    | Some a, Some b =>
        match numof a, numof b with
        | Some x, Some y => OFlt (qof x + (f - inject_Z i) * (qof y - qof x))
        | _, _ => OText (B "(error)")
        end
    | _, _ => OPanic
    end.

(* ------------------------------------------------------------------ the accumulators *)
Inductive accname :=
| ACount | ANullCount | ADistinctCount | AMode | AAntimode | ASum | AMean | AVar | AStddev | AMeanEB
| ASkewness | AKurtosis | AMin | AMax | AMinLen | AMaxLen | AMad | APctl (p : Q).

Definition accname_eqb (a b : accname) : bool :=
  match a, b with
  | ACount, ACount | ANullCount, ANullCount | ADistinctCount, ADistinctCount | AMode, AMode | AAntimode, AAntimode
  | ASum, ASum | AMean, AMean | AVar, AVar | AStddev, AStddev | AMeanEB, AMeanEB | ASkewness, ASkewness
  | AKurtosis, AKurtosis | AMin, AMin | AMax, AMax | AMinLen, AMinLen | AMaxLen, AMaxLen | AMad, AMad => true
  | APctl p, APctl q => Qeq_bool p q
  | _, _ => false
  end.

(* one state record serves every accumulator kind; each kind uses its own fields *)
Record accst := mkst {
  st_count : Z;                 (* count / number of numeric values *)
  st_s1 : nv; st_s2 : nv; st_s3 : nv; st_s4 : nv;   (* power sums *)
  st_counts : omap Z;           (* counts by value text, first-seen order *)
  st_best : mv;                 (* min / max *)
  st_data : list val            (* percentile keeper / mad samples, arrival order *)
}.
Definition st0 : accst := mkst 0 (I 0) (I 0) (I 0) (I 0) [] MAbsent [].

Definition utf8_len (v : val) : Z :=
  Z.of_nat (List.length (filter (fun c => negb ((128 <=? code c)%N && (code c <? 192)%N)) v)).

Definition ingest (a : accname) (s : accst) (v : val) : accst :=
  match a with
  | ACount => mkst (st_count s + 1) (st_s1 s) (st_s2 s) (st_s3 s) (st_s4 s) (st_counts s) (st_best s) (st_data s)
  | ANullCount => if is_void v then mkst (st_count s + 1) (st_s1 s) (st_s2 s) (st_s3 s) (st_s4 s) (st_counts s) (st_best s) (st_data s) else s
  | ADistinctCount | AMode | AAntimode =>
      mkst (st_count s) (st_s1 s) (st_s2 s) (st_s3 s) (st_s4 s) (cm_incr v (st_counts s)) (st_best s) (st_data s)
  | ASum | AMean | AVar | AStddev | AMeanEB | ASkewness | AKurtosis =>
      match numof v with
      | None => s
      | Some x =>
          let x2 := nv_times x x in let x3 := nv_times x x2 in let x4 := nv_times x x3 in
          mkst (st_count s + 1) (nv_plus (st_s1 s) x) (nv_plus (st_s2 s) x2) (nv_plus (st_s3 s) x3) (nv_plus (st_s4 s) x4)
               (st_counts s) (st_best s) (st_data s)
      end
  | AMin => mkst (st_count s) (st_s1 s) (st_s2 s) (st_s3 s) (st_s4 s) (st_counts s) (mv_min (st_best s) (mv_of v)) (st_data s)
  | AMax => mkst (st_count s) (st_s1 s) (st_s2 s) (st_s3 s) (st_s4 s) (st_counts s) (mv_max (st_best s) (mv_of v)) (st_data s)
  | AMinLen => mkst (st_count s) (st_s1 s) (st_s2 s) (st_s3 s) (st_s4 s) (st_counts s) (mv_min (st_best s) (MInt (utf8_len v) [])) (st_data s)
  | AMaxLen => mkst (st_count s) (st_s1 s) (st_s2 s) (st_s3 s) (st_s4 s) (st_counts s) (mv_max (st_best s) (MInt (utf8_len v) [])) (st_data s)
  | AMad => match numof v with None => s | Some _ =>
              mkst (st_count s) (st_s1 s) (st_s2 s) (st_s3 s) (st_s4 s) (st_counts s) (st_best s) (st_data s ++ [v]) end
  | APctl _ => mkst (st_count s) (st_s1 s) (st_s2 s) (st_s3 s) (st_s4 s) (st_counts s) (st_best s) (st_data s ++ [v])
  end.

(* mode: scan the counts in first-seen order, replace on strictly greater (the code's `maxValue == ""` test is the
   "nothing chosen yet" flag; keys are never empty where the model is used: void values are not ingested) *)
Fixpoint scan_best (better : Z -> Z -> bool) (cur : option (bytes * Z)) (m : omap Z) : option (bytes * Z) :=
  match m with
  | [] => cur
  | (k, c) :: t =>
      match cur with
      | None => scan_best better (Some (k, c)) t
      | Some (_, bc) => if better c bc then scan_best better (Some (k, c)) t else scan_best better cur t
      end
  end.
Definition mode_of (m : omap Z) : oval :=
  match scan_best (fun c bc => (bc <? c)%Z) None m with Some (k, _) => OText k | None => OVoid end.
Definition antimode_of (m : omap Z) : oval :=
  match scan_best (fun c bc => (c <? bc)%Z) None m with Some (k, _) => OText k | None => OVoid end.

(* BIF_finalize_variance: mean := sum/n; numerator := sum2 - mean*(2*sum - n*mean); clamp at 0; / (n-1) *)
Definition var_numerator (n : Z) (s1 s2 : Q) : Q :=
  let mean := s1 / inject_Z n in
  let num := s2 - mean * (2 * s1 - inject_Z n * mean) in
  if Qle_bool 0 num then num else 0.
Definition finalize_var (n : Z) (s1 s2 : Q) : option Q :=
  if (n <? 2)%Z then None else Some (var_numerator n s1 s2 / inject_Z (n - 1)).
(* BIF_finalize_skewness: numerator := (sum3 - mean*(3*sum2 - 2*n*mean^2))/n; denominator := pow((sum2 - n*mean^2)/(n-1), 1.5) *)
Definition skew_parts (n : Z) (s1 s2 s3 : Q) : Q * Q :=
  let fn := inject_Z n in
  let mean := s1 / fn in
  ((s3 - mean * (3 * s2 - 2 * fn * mean * mean)) / fn, (s2 - fn * mean * mean) / (fn - 1)).
(* BIF_finalize_kurtosis *)
Definition kurt_den (n : Z) (s1 s2 : Q) : Q :=
  let fn := inject_Z n in let mean := s1 / fn in (s2 - fn * mean * mean) / fn.
Definition finalize_kurt (n : Z) (s1 s2 s3 s4 : Q) : Q :=
  let fn := inject_Z n in
  let mean := s1 / fn in
  let num := (s4 - mean * (4 * s3 - mean * (6 * s2 - 3 * fn * mean * mean))) / fn in
  let den := (s2 - fn * mean * mean) / fn in
  num / (den * den) - 3.

Definition Qsum (l : list Q) : Q := fold_left Qplus l 0.

Definition emit (interp : bool) (a : accname) (s : accst) : oval :=
  match a with
  | ACount | ANullCount => OInt (st_count s)
  | ADistinctCount => OInt (Z.of_nat (List.length (st_counts s)))
  | AMode => mode_of (st_counts s)
  | AAntimode => antimode_of (st_counts s)
  | ASum => oval_of_nv (st_s1 s)
  | AMean => if (st_count s =? 0)%Z then OVoid else oval_of_nv (nv_div_int (st_s1 s) (st_count s))
  | AVar => match finalize_var (st_count s) (qof (st_s1 s)) (qof (st_s2 s)) with Some q => OFlt q | None => OVoid end
  | AStddev => match finalize_var (st_count s) (qof (st_s1 s)) (qof (st_s2 s)) with Some q => OSqrt q | None => OVoid end
  | AMeanEB => match finalize_var (st_count s) (qof (st_s1 s)) (qof (st_s2 s)) with
               | Some q => OSqrt (q / inject_Z (st_count s)) | None => OVoid end
  | ASkewness => if (st_count s <? 2)%Z then OVoid else
                 let '(nu, de) := skew_parts (st_count s) (qof (st_s1 s)) (qof (st_s2 s)) (qof (st_s3 s)) in
                 if Qle_bool de 0 then ONan else OPow15 nu de
  | AKurtosis => if (st_count s <? 2)%Z then OVoid else
                 if Qle_bool (kurt_den (st_count s) (qof (st_s1 s)) (qof (st_s2 s))) 0 then ONan else
                 OFlt (finalize_kurt (st_count s) (qof (st_s1 s)) (qof (st_s2 s)) (qof (st_s3 s)) (qof (st_s4 s)))
  | AMin | AMax | AMinLen | AMaxLen => oval_of_mv (st_best s)
  | AMad =>
      match st_data s with
      | [] => OVoid
      | d =>
          let xs := flat_map (fun v => match numof v with Some x => [qof x] | None => [] end) d in
          let n := inject_Z (Z.of_nat (List.length xs)) in
          let mean := Qsum xs / n in
          OFlt (Qsum (map (fun x => Qabs (mean - x)) xs) / n)
      end
  | APctl p =>
      match st_data s with
      | [] => OVoid
      | d => if interp then pctl_interp p (sort_vals d) else pctl_nonint p (sort_vals d)
      end
  end.

(* the accumulator run on a list of values, as the code runs it *)
Definition run_acc (interp : bool) (a : accname) (vs : list val) : oval := emit interp a (fold_left (ingest a) vs st0).
