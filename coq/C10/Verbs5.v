(* C10 model, part 6: stats2 (pkg/transformers/stats2.go, pkg/transformers/utils/stats2_accumulators.go,
   pkg/lib/stats.go) with the accumulators linreg-ols, r2, cov, corr -- end-of-stream output and -s.
   The bivariate sums are float64 in the code; the model keeps them exactly over Q (tied by correspondence within
   1e-9 on inputs exactly representable in binary64).  Not modelled: linreg-pca (Jacobi eigen-solver), logireg, cov
   matrix output (covx), --fit.  Values must be numeric (GetNumericToFloatValueOrDie stops the process otherwise: outside
   the domain); absent or empty values leave the pair out of the accumulation.
   Definitions only. *)
From Miller Require Export C10.Model C10.Verbs C10.Verbs2.
Open Scope char_scope.

Inductive s2acc := S2Ols | S2R2 | S2Cov | S2Corr.
Definition s2acc_text (a : s2acc) : bytes :=
  match a with S2Ols => B "linreg-ols" | S2R2 => B "r2" | S2Cov => B "cov" | S2Corr => B "corr" end.

Record s2st := mks2 { b_n : Z; b_sx : Q; b_sy : Q; b_sx2 : Q; b_sxy : Q; b_sy2 : Q }.
Definition s2st0 : s2st := mks2 0 0 0 0 0 0.
(* Ingest of every bivariate accumulator: count++, sumx += x, sumy += y, sumx2 += x*x, sumxy += x*y, sumy2 += y*y *)
Definition s2_ingest (s : s2st) (xy : Q * Q) : s2st :=
  let '(x, y) := xy in
  mks2 (b_n s + 1) (b_sx s + x) (b_sy s + y) (b_sx2 s + x * x) (b_sxy s + x * y) (b_sy2 s + y * y).

(* lib.GetLinearRegressionOLS *)
Definition ols_D (s : s2st) : Q := inject_Z (b_n s) * b_sx2 s - b_sx s * b_sx s.
Definition ols_m (s : s2st) : Q := (inject_Z (b_n s) * b_sxy s - b_sx s * b_sy s) / ols_D s.
Definition ols_b (s : s2st) : Q := (- b_sx s * b_sxy s + b_sx2 s * b_sy s) / ols_D s.
(* Stats2R2Accumulator.Populate *)
Definition r2_num (s : s2st) : Q := let t := inject_Z (b_n s) * b_sxy s - b_sx s * b_sy s in t * t.
Definition r2_den (s : s2st) : Q :=
  (inject_Z (b_n s) * b_sx2 s - b_sx s * b_sx s) * (inject_Z (b_n s) * b_sy2 s - b_sy s * b_sy s).
(* lib.GetCov *)
Definition cov_of (s : s2st) : Q :=
  let n := inject_Z (b_n s) in
  let mx := b_sx s / n in let my := b_sy s / n in
  (b_sxy s - mx * b_sy s - my * b_sx s + n * mx * my) / (n - 1).
(* lib.GetVar (the same finalizer as the univariate variance) *)
Definition var_of (n : Z) (s1 s2 : Q) : Q := var_numerator n s1 s2 / inject_Z (n - 1).

Definition q_or_nan (den : Q) (q : Q) : oval := if Qeq_bool den 0 then ONan else OFlt q.

(* Populate: the fields one accumulator writes for the pair (f1, f2) *)
Definition s2_fields (a : s2acc) (f1 f2 : bytes) (s : s2st) : list (bytes * oval) :=
  let pre := (f1 ++ "_" :: f2 ++ ["_"])%list in
  let few := (b_n s <? 2)%Z in
  match a with
  | S2Ols => [((pre ++ B "ols_m")%list, if few then OVoid else q_or_nan (ols_D s) (ols_m s));
              ((pre ++ B "ols_b")%list, if few then OVoid else q_or_nan (ols_D s) (ols_b s));
              ((pre ++ B "ols_n")%list, OInt (b_n s))]
  | S2R2 => [((pre ++ B "r2")%list, if few then OVoid else q_or_nan (r2_den s) (r2_num s / r2_den s))]
  | S2Cov => [((pre ++ B "cov")%list, if few then OVoid else OFlt (cov_of s))]
  | S2Corr =>
      (* cov / sqrt(varx) / sqrt(vary) = (cov varx vary) / (varx vary)^1.5 *)
      let vx := var_of (b_n s) (b_sx s) (b_sx2 s) in
      let vy := var_of (b_n s) (b_sy s) (b_sy2 s) in
      [((pre ++ B "corr")%list, if few then OVoid else if Qle_bool (vx * vy) 0 then ONan else OPow15 (cov_of s * (vx * vy)) (vx * vy))]
  end.

(* the value-field pairs of -f x1,y1,x2,y2,... *)
Fixpoint pairs_of_list (fs : list bytes) : list (bytes * bytes) :=
  match fs with a :: b :: t => (a, b) :: pairs_of_list t | _ => [] end.
Definition pair_key (p : bytes * bytes) : bytes := (fst p ++ ascii_of_N 1 :: snd p)%list.

(* the numeric pair a record contributes for (f1, f2): both present, both non-empty (and numeric: the domain) *)
Definition pair_value (p : bytes * bytes) (r : record) : option (Q * Q) :=
  match get (fst p) r, get (snd p) r with
  | Some v1, Some v2 =>
      if is_void v1 || is_void v2 then None
      else match numof v1, numof v2 with Some x, Some y => Some (qof x, qof y) | _, _ => None end
  | _, _ => None
  end.

(* per group: pair key -> sums; an entry exists once the pair has been ingested (the accumulators are created then) *)
Definition s2_ingest_rec (ps : list (bytes * bytes)) (m : omap s2st) (r : record) : omap s2st :=
  fold_left (fun m p => match pair_value p r with
                        | None => m
                        | Some xy => oput (pair_key p) (s2_ingest (match oget (pair_key p) m with Some s => s | None => s2st0 end) xy) m
                        end) ps m.

(* the group remembers the group-by values of its LAST member (groupingKeysToGroupByFieldValues.Put on every record) *)
Definition stats2_groups (ps : list (bytes * bytes)) (gs : list bytes) (rs : list record) : omap (list bytes * omap s2st) :=
  gfold (group_key gs) (fun r => ([], []))
        (fun s r => (match selected gs r with Some vs => vs | None => [] end, s2_ingest_rec ps (snd s) r)) rs.

Definition s2_emit (accs : list s2acc) (ps : list (bytes * bytes)) (m : omap s2st) : list (bytes * oval) :=
  flat_map (fun p => match oget (pair_key p) m with
                     | None => []
                     | Some s => flat_map (fun a => s2_fields a (fst p) (snd p) s) accs
                     end) ps.

Definition verb_stats2 (accs : list s2acc) (fs gs : list bytes) (rs : list record) : list orec :=
  let ps := pairs_of_list fs in
  map (fun e => put_all (group_fields gs (fst (snd e)) ++ s2_emit accs ps (snd (snd e))) []) (stats2_groups ps gs rs).

(* -s: every contributing record is emitted with the statistics so far of the pairs it carries (populateRecord is called
   for a pair only when the record has both values); records lacking a group-by field pass through unchanged *)
Definition stats2s_step (accs : list s2acc) (ps : list (bytes * bytes)) (gs : list bytes)
           (st : omap (omap s2st) * list orec) (r : record) : omap (omap s2st) * list orec :=
  match group_key gs r with
  | None => (fst st, snd st ++ [otext_rec r])       (* ingest does nothing; Transform still emits the record *)
  | Some k =>
      let m := match oget k (fst st) with Some m => m | None => [] end in
      let '(m', o') :=
        fold_left (fun (acc : omap s2st * orec) p =>
                     match pair_value p r with
                     | None => acc
                     | Some xy =>
                         let s := s2_ingest (match oget (pair_key p) (fst acc) with Some s => s | None => s2st0 end) xy in
                         (oput (pair_key p) s (fst acc), put_all (flat_map (fun a => s2_fields a (fst p) (snd p) s) accs) (snd acc))
                     end) ps (m, otext_rec r) in
      (oput k m' (fst st), snd st ++ [o'])
  end.
Definition verb_stats2_s (accs : list s2acc) (fs gs : list bytes) (rs : list record) : list orec :=
  snd (fold_left (stats2s_step accs (pairs_of_list fs) gs) rs ([], [])).
