(* C10 proofs, part 7: fraction (sums to one / running sums) and histogram (bin index, dropping, counts add up). *)
From Miller Require Import C10.Model C10.Verbs C10.Verbs2 C10.Spec C10.ProofsAcc.
From Coq Require Import Lqa Lia Qfield.
Open Scope Q_scope.

Lemma Qeq_bool_false a b : Qeq_bool a b = false -> ~ a == b.
Proof. intros H E. apply Qeq_eq_bool in E. congruence. Qed.

Lemma nv_div_spec a b q : nv_div a b = Some q -> ~ qof b == 0 /\ qof q == qof a / qof b.
Proof.
  destruct a as [x|p], b as [y|r]; cbn [nv_div qof].
  - destruct (y =? 0)%Z eqn:E0; [discriminate|]. apply Z.eqb_neq in E0.
    pose proof (inject_Z_nonzero y E0) as Hy.
    destruct (x mod y =? 0)%Z eqn:E; intros H; injection H as <-; cbn [qof]; (split; [exact Hy|]); [|reflexivity].
    apply Z.eqb_eq in E. pose proof (Z.div_mod x y E0) as D. rewrite E, Z.add_0_r in D.
    rewrite D at 2. rewrite inject_Z_mult. field. exact Hy.
  - destruct (Qeq_bool r 0) eqn:E; [discriminate|]. intros H; injection H as <-. split; [now apply Qeq_bool_false|reflexivity].
  - destruct (Qeq_bool (inject_Z y) 0) eqn:E; [discriminate|]. intros H; injection H as <-. split; [now apply Qeq_bool_false|reflexivity].
  - destruct (Qeq_bool r 0) eqn:E; [discriminate|]. intros H; injection H as <-. split; [now apply Qeq_bool_false|reflexivity].
Qed.

Lemma nv_div_some a b : ~ qof b == 0 -> exists q, nv_div a b = Some q.
Proof.
  intros Hb. destruct a as [x|p], b as [y|r]; cbn [nv_div qof] in *.
  - destruct (y =? 0)%Z eqn:E0; [apply Z.eqb_eq in E0; subst; exfalso; apply Hb; reflexivity|].
    destruct (x mod y =? 0)%Z; eauto.
  - destruct (Qeq_bool r 0) eqn:E; [apply Qeq_bool_iff in E; contradiction|eauto].
  - destruct (Qeq_bool (inject_Z y) 0) eqn:E; [apply Qeq_bool_iff in E; contradiction|eauto].
  - destruct (Qeq_bool r 0) eqn:E; [apply Qeq_bool_iff in E; contradiction|eauto].
Qed.

Definition frac_num (cumu : bool) (x cum : nv) : Q := if cumu then qof x + qof cum else qof x.

(* one output value is numerator / sum * multiplier, exactly (the "0 for a zero numerator" shortcut agrees) *)
Lemma frac_value_q cumu mult x cum S : ~ qof S == 0 ->
  exists q, oval_q (frac_value cumu mult x cum S) = Some q /\ q == frac_num cumu x cum / qof S * qof mult.
Proof.
  intros HS. unfold frac_value. set (num := if cumu then nv_plus x cum else x).
  assert (Hnum : qof num == frac_num cumu x cum) by (unfold num, frac_num; destruct cumu; [apply qof_plus|reflexivity]).
  unfold nv_is_zero. destruct (Qeq_bool (qof num) 0) eqn:E.
  - apply Qeq_bool_iff in E. exists (inject_Z 0). split; [reflexivity|]. rewrite <- Hnum, E. unfold inject_Z. field. exact HS.
  - destruct (nv_div_some num S HS) as [q Hq]. rewrite Hq. destruct (nv_div_spec _ _ _ Hq) as [_ Hv].
    pose proof (qof_times q mult) as Ht.
    destruct (nv_times q mult) as [z|r]; cbn [oval_of_nv oval_q qof] in *; eexists; (split; [reflexivity|]); rewrite Ht, Hv, Hnum; reflexivity.
Qed.

Definition ovals_sum (l : list oval) : Q :=
  fold_right (fun o acc => match oval_q o with Some q => q + acc | None => acc end) 0 l.

Lemma frac_run_sum mult S xs : ~ qof S == 0 -> forall cum,
  ovals_sum (frac_cell_run false mult S cum xs) == Qsum_list (map qof xs) / qof S * qof mult.
Proof.
  intros HS. induction xs as [|x xs IH]; intros cum; cbn [frac_cell_run map ovals_sum fold_right].
  - cbn. field. exact HS.
  - destruct (frac_value_q false mult x cum S HS) as (q & Eq & Hq). rewrite Eq. fold (ovals_sum (frac_cell_run false mult S cum xs)).
    rewrite IH, Hq. unfold frac_num. rewrite Qsum_list_cons. field. exact HS.
Qed.

Lemma frac_sum_from xs : forall s, exists S, fold_left (fun o x => Some (sum_step o x)) xs (Some s) = Some S
                                         /\ qof S == qof s + Qsum_list (map qof xs).
Proof.
  induction xs as [|x xs IH]; intros s; cbn [fold_left map].
  - exists s. split; [reflexivity|]. cbn. ring.
  - destruct (IH (sum_step (Some s) x)) as (S & E & H). exists S. split; [exact E|]. rewrite H. cbn [sum_step].
    rewrite qof_plus, Qsum_list_cons. ring.
Qed.

Lemma frac_cell_sum_spec xs S : frac_cell_sum xs = Some S -> qof S == Qsum_list (map qof xs).
Proof.
  unfold frac_cell_sum. destruct xs as [|x xs]; [discriminate|]. cbn [fold_left sum_step map].
  destruct (frac_sum_from xs x) as (S' & E & H). rewrite E. intros H0; injection H0 as <-. rewrite H, Qsum_list_cons. reflexivity.
Qed.

(* the fractions of a (group, field) cell add up to 1 (to 100 with -p) whenever the sum is non-zero *)
Theorem fractions_sum_to_one mult xs S : frac_cell_sum xs = Some S -> ~ qof S == 0 ->
  ovals_sum (frac_cell_run false mult S (I 0) xs) == qof mult.
Proof.
  intros HS Hnz. rewrite frac_run_sum by exact Hnz. rewrite <- (frac_cell_sum_spec xs S HS). field. exact Hnz.
Qed.

(* -c: the i-th output is the running sum up to and including i, over the total *)
Fixpoint running (acc : Q) (xs : list Q) : list Q := match xs with [] => [] | x :: t => (acc + x) :: running (acc + x) t end.

Theorem cumulative_fractions_are_running_sums mult S xs : ~ qof S == 0 -> forall cum,
  Forall2 (fun o r => exists q, oval_q o = Some q /\ q == r / qof S * qof mult)
          (frac_cell_run true mult S cum xs) (running (qof cum) (map qof xs)).
Proof.
  intros HS. induction xs as [|x xs IH]; intros cum; cbn [frac_cell_run map running]; constructor.
  - destruct (frac_value_q true mult x cum S HS) as (q & Eq & Hq). exists q. split; [exact Eq|]. rewrite Hq. unfold frac_num. field. exact HS.
  - specialize (IH (nv_plus cum x)).
    assert (E : forall a b l, a == b -> Forall2 (fun o r => exists q, oval_q o = Some q /\ q == r / qof S * qof mult) l (running a (map qof xs)) ->
                Forall2 (fun o r => exists q, oval_q o = Some q /\ q == r / qof S * qof mult) l (running b (map qof xs))).
    { clear. generalize (map qof xs). intros ys. induction ys as [|y ys IHy]; intros a b l Hab H; cbn [running] in *; inversion H as [|o r l' rs' Hhd Htl]; subst; constructor.
      - destruct Hhd as (q & E1 & E2). exists q. split; [exact E1|]. rewrite E2, Hab. reflexivity.
      - eapply IHy; [|eassumption]. rewrite Hab. reflexivity. }
    eapply E; [|exact IH]. apply qof_plus.
Qed.

(* ---------------------------------------------------------------- histogram *)
Lemma Qle_bool_false a b : Qle_bool a b = false -> b < a.
Proof. intros H. destruct (Qlt_le_dec b a) as [L|L]; [exact L|]. apply Qle_bool_iff in L. congruence. Qed.

(* a value inside [lo, hi] lands in a bin 0 .. nbins-1; a value outside is dropped *)
Theorem hist_bin_in_range lo hi nbins v : lo < hi -> (0 < nbins)%Z -> lo <= v -> v <= hi ->
  exists i, hist_bin lo hi nbins v = Some i /\ (0 <= i < nbins)%Z.
Proof.
  intros Hlh Hn Hlo Hhi. unfold hist_bin.
  assert (Hlo' : Qle_bool lo v = true) by now apply Qle_bool_iff. rewrite Hlo'. cbn [andb].
  destruct (Qle_bool hi v) eqn:E; cbn [negb].
  - apply Qle_bool_iff in E. assert (Ev : v == hi) by (apply Qle_antisym; assumption).
    apply Qeq_eq_bool in Ev. rewrite Ev. exists (nbins - 1)%Z. split; [reflexivity|lia].
  - apply Qle_bool_false in E. eexists. split; [reflexivity|].
    assert (Hd : 0 < hi - lo) by lra.
    assert (Hq : 0 < inject_Z nbins) by (unfold Qlt, inject_Z; cbn; lia).
    set (t := (v - lo) * (inject_Z nbins / (hi - lo))).
    assert (Ht0 : 0 <= t).
    { unfold t. apply Qmult_le_0_compat; [lra|]. apply Qle_shift_div_l; [exact Hd|]. lra. }
    assert (Ht1 : t < inject_Z nbins).
    { unfold t. assert (X : (v - lo) * (inject_Z nbins / (hi - lo)) == inject_Z nbins * ((v - lo) / (hi - lo))) by (field; lra).
      rewrite X. assert (Y : (v - lo) / (hi - lo) < 1) by (apply Qlt_shift_div_r; lra).
      assert (Z0 : inject_Z nbins * ((v - lo) / (hi - lo)) < inject_Z nbins * 1) by (apply Qmult_lt_l; assumption). lra. }
    clearbody t. split.
    + change 0%Z with (Qfloor 0). now apply Qfloor_resp_le.
    + apply Qlt_le_weak in Ht1 as Hle. pose proof (Qfloor_le t) as Hf.
      destruct (Z_lt_le_dec (Qfloor t) nbins) as [L|L]; [exact L|exfalso].
      assert (inject_Z nbins <= inject_Z (Qfloor t)) by (unfold Qle, inject_Z; cbn; lia). lra.
Qed.

Theorem hist_bin_outside_dropped lo hi nbins v : lo < hi -> (v < lo \/ hi < v) -> hist_bin lo hi nbins v = None.
Proof.
  intros Hlh Hout. unfold hist_bin. destruct Hout as [H|H].
  - assert (E : Qle_bool lo v = false) by (destruct (Qle_bool lo v) eqn:E; [apply Qle_bool_iff in E; lra|reflexivity]).
    rewrite E. cbn [andb]. destruct (Qeq_bool v hi) eqn:E2; [apply Qeq_bool_iff in E2; lra|reflexivity].
  - assert (E : Qle_bool hi v = true) by (apply Qle_bool_iff; lra). rewrite E. rewrite andb_false_r.
    destruct (Qeq_bool v hi) eqn:E2; [apply Qeq_bool_iff in E2; lra|reflexivity].
Qed.

Definition Zsum (l : list Z) : Z := fold_right Z.add 0%Z l.
Lemma incr_nth_sum i l : (i < List.length l)%nat -> Zsum (incr_nth i l) = (Zsum l + 1)%Z.
Proof.
  revert i; induction l as [|c t IH]; intros i Hi; [cbn in Hi; lia|]. destruct i; cbn [incr_nth Zsum fold_right].
  - lia.
  - fold (Zsum (incr_nth i t)). fold (Zsum t). rewrite IH by (cbn in Hi; lia). lia.
Qed.
Lemma incr_nth_length i l : List.length (incr_nth i l) = List.length l.
Proof. revert i; induction l as [|c t IH]; intros i; [destruct i; reflexivity|]. destruct i; cbn [incr_nth List.length]; [reflexivity|now rewrite IH]. Qed.

(* counts of one field add up to the number of its values inside [lo, hi] *)
Definition in_hist (lo hi : Q) (v : Q) : bool := Qle_bool lo v && Qle_bool v hi.
Theorem hist_counts_add_up lo hi nbins (vs : list Q) : lo < hi -> (0 < nbins)%Z ->
  let step := fun cs v => match hist_bin lo hi nbins v with
                          | Some i => if (i <? 0)%Z then cs else incr_nth (Z.to_nat i) cs | None => cs end in
  Zsum (fold_left step vs (repeat 0%Z (Z.to_nat nbins))) = Z.of_nat (List.length (filter (in_hist lo hi) vs)).
Proof.
  intros Hlh Hn step.
  assert (G : forall cs, List.length cs = Z.to_nat nbins ->
            Zsum (fold_left step vs cs) = (Zsum cs + Z.of_nat (List.length (filter (in_hist lo hi) vs)))%Z).
  { induction vs as [|v vs IH]; intros cs Hlen; cbn [fold_left filter]; [cbn; lia|].
    unfold in_hist at 1. destruct (Qle_bool lo v) eqn:E1, (Qle_bool v hi) eqn:E2; cbn [andb].
    - apply Qle_bool_iff in E1, E2. destruct (hist_bin_in_range lo hi nbins v Hlh Hn E1 E2) as (i & Hi & Hr).
      unfold step at 2. rewrite Hi. destruct (i <? 0)%Z eqn:E; [lia|].
      rewrite IH by (rewrite incr_nth_length; exact Hlen). rewrite incr_nth_sum by lia. cbn [List.length]. lia.
    - apply Qle_bool_false in E2. unfold step at 2. rewrite (hist_bin_outside_dropped lo hi nbins v Hlh (or_intror E2)). now apply IH.
    - apply Qle_bool_false in E1. unfold step at 2. rewrite (hist_bin_outside_dropped lo hi nbins v Hlh (or_introl E1)). now apply IH.
    - apply Qle_bool_false in E1. unfold step at 2. rewrite (hist_bin_outside_dropped lo hi nbins v Hlh (or_introl E1)). now apply IH. }
  rewrite G by apply repeat_length.
  assert (Z0 : forall n, Zsum (repeat 0%Z n) = 0%Z) by (induction n; cbn; [reflexivity|assumption]). rewrite Z0. lia.
Qed.
