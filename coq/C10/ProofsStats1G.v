(* C10 proofs, part 14: stats1 as a whole (Verbs4.v): names given twice, field selection by regex, the grouping key of
   --gr/--gx, and "the cell sees exactly its group's values" for every selection form. *)
From Miller Require Import C10.Model C10.Verbs C10.Verbs2 C10.Verbs4 C10.Spec C10.ProofsGroup C10.Proofs C10.ProofsCells.
From Coq Require Import Lia.
Open Scope char_scope.

(* ---------------------------------------------------------------- names given twice are kept once *)
Lemma uniq_names_in x l : In x (uniq_names l) <-> In x l.
Proof.
  induction l as [|y l IH]; [tauto|]. cbn [uniq_names In]. rewrite filter_In, IH.
  destruct (beqb_spec y x) as [->|N]; cbn [negb]; [tauto|]. split; [tauto|]. intros [H|H]; [tauto|]. right. split; [assumption|reflexivity].
Qed.
Lemma uniq_names_nodup l : NoDup (uniq_names l).
Proof.
  induction l as [|y l IH]; [constructor|]. cbn [uniq_names]. constructor.
  - rewrite filter_In. intros [_ H]. now rewrite beqb_refl in H.
  - now apply NoDup_filter.
Qed.
Lemma uniq_names_mem x l : mem x (uniq_names l) = mem x l.
Proof.
  destruct (mem x l) eqn:M.
  - apply mem_In. apply uniq_names_in. now apply mem_In.
  - destruct (mem x (uniq_names l)) eqn:M'; [|reflexivity]. exfalso.
    assert (H : mem x l = true) by (apply mem_In; apply uniq_names_in; apply mem_In; exact M'). congruence.
Qed.
Lemma uniq_accs_sub a l : In a (uniq_accs l) -> In a l.
Proof.
  induction l as [|b l IH]; [tauto|]. cbn [uniq_accs In]. rewrite filter_In. intros [H|[H _]]; [now left|right; now apply IH].
Qed.
Lemma uniq_accs_nodup l : NoDup (map req_text (uniq_accs l)).
Proof.
  induction l as [|b l IH]; [constructor|]. cbn [uniq_accs map]. constructor.
  - rewrite in_map_iff. intros [c [E Hc]]. apply filter_In in Hc. destruct Hc as [_ Hc]. rewrite E, beqb_refl in Hc. discriminate.
  - revert IH. generalize (uniq_accs l) as t. intros t. induction t as [|c t IHt]; intros IH; [constructor|]. cbn [filter].
    cbn [map] in IH. inversion IH as [|? ? Hni Hnd]; subst. destruct (negb (beqb (req_text b) (req_text c))); [|now apply IHt].
    cbn [map]. constructor; [|now apply IHt]. rewrite in_map_iff. intros [d [E Hd]]. apply filter_In in Hd. apply Hni. rewrite <- E. apply in_map. tauto.
Qed.
(* every requested name survives: the first request under that name *)
Lemma uniq_accs_texts a l : In a l -> In (req_text a) (map req_text (uniq_accs l)).
Proof.
  induction l as [|b l IH]; [tauto|]. cbn [uniq_accs map In]. intros [->|H]; [now left|].
  destruct (beqb_spec (req_text b) (req_text a)) as [E|N]; [now left|]. right.
  specialize (IH H). rewrite in_map_iff in IH |- *. destruct IH as [c [E Hc]]. exists c. split; [assumption|]. apply filter_In. split; [assumption|].
  destruct (beqb_spec (req_text b) (req_text c)) as [E'|]; [congruence|reflexivity].
Qed.

(* ---------------------------------------------------------------- value-field selection *)
Definition fsel_selects (fsl : fsel) (f : bytes) : bool :=
  match fsl with FNames fs => mem f fs | FRegex inv ps => pats_match inv ps f end.

Lemma get_some_in_keys f r v : get f r = Some v -> In f (keys r).
Proof.
  induction r as [|[k w] r IH]; cbn [get keys map fst]; [discriminate|]. intros H.
  destruct (beqb_spec f k) as [E|N]; [left; now symmetry|]. right. apply IH. exact H.
Qed.

Lemma vfields_nodup fsl r : wf_record r = true -> NoDup (vfields fsl r).
Proof.
  intros W. destruct fsl as [fs|inv ps]; cbn [vfields]; [apply uniq_names_nodup|]. apply NoDup_filter. now apply nodupb_NoDup.
Qed.
Lemma vfields_nodup_names fs r : NoDup (vfields (FNames fs) r).
Proof. apply uniq_names_nodup. Qed.

(* the record's own value of a selected field is always fed *)
Lemma vfields_mem fsl r f v : fsel_selects fsl f = true -> get f r = Some v -> mem f (vfields fsl r) = true.
Proof.
  intros S G. destruct fsl as [fs|inv ps]; cbn [vfields fsel_selects] in *.
  - now rewrite uniq_names_mem.
  - apply mem_In. apply filter_In. split; [exact (get_some_in_keys f r v G)|exact S].
Qed.

Definition sel_wf (fsl : fsel) (ms : list record) : Prop :=
  match fsl with FNames _ => True | FRegex _ _ => Forall (fun r => wf_record r = true) ms end.

Definition cellg (accs : list accreq) (fsl : fsel) (ms : list record) (l0 : level2) (f : bytes) (a : accreq) : option accst :=
  match oget f (fold_left (fun l2 r => ingest_sel accs fsl r l2) ms l0) with
  | Some l3 => oget (req_text a) l3
  | None => None
  end.

Lemma cellg_snoc accs fsl ms l0 r f a :
  (match fsl with FNames _ => True | FRegex _ _ => wf_record r = true end) ->
  fsel_selects fsl f = true -> In a (uniq_accs accs) ->
  cellg accs fsl (ms ++ [r]) l0 f a
  = match get f r with
    | Some v => Some (feed (fst a) (dflt (cellg accs fsl ms l0 f a)) v)
    | None => cellg accs fsl ms l0 f a
    end.
Proof.
  intros W S Ha. unfold cellg. rewrite fold_left_app. cbn [fold_left].
  set (l2 := fold_left (fun l2 r => ingest_sel accs fsl r l2) ms l0). unfold ingest_sel.
  assert (Hnd : NoDup (vfields fsl r)) by (destruct fsl; [apply uniq_names_nodup|now apply vfields_nodup]).
  rewrite ingest_l2_get by exact Hnd.
  destruct (get f r) as [v|] eqn:G.
  - rewrite (vfields_mem fsl r f v S G). cbv beta iota. rewrite ingest_l3_get by (try apply uniq_accs_nodup; assumption).
    destruct (oget f l2); reflexivity.
  - destruct (mem f (vfields fsl r)); reflexivity.
Qed.

(* THE link for every selection form: after any list of records of one group the state kept for (value field f,
   accumulator a) is the accumulator fed, in order, exactly the values of f carried by those records *)
Theorem cellg_is_accumulator_run accs fsl ms f a :
  sel_wf fsl ms -> fsel_selects fsl f = true -> In a (uniq_accs accs) ->
  cellg accs fsl ms [] f a = match values_of f ms with
                             | [] => None
                             | vs => Some (fold_left (feed (fst a)) vs st0)
                             end.
Proof.
  intros W S Ha. induction ms as [|r ms IH] using rev_ind; [reflexivity|].
  assert (W' : sel_wf fsl ms /\ match fsl with FNames _ => True | FRegex _ _ => wf_record r = true end).
  { destruct fsl; cbn [sel_wf] in *; [tauto|]. apply Forall_app in W. destruct W as [W1 W2]. split; [assumption|now inversion W2]. }
  destruct W' as [W1 W2]. rewrite cellg_snoc by assumption. rewrite IH by assumption.
  unfold values_of. rewrite flat_map_app. cbn [flat_map]. rewrite app_nil_r. fold (values_of f ms).
  destruct (get f r) as [v|].
  - destruct (values_of f ms) as [|v0 vs0]; cbn [app dflt]; [reflexivity|].
    change (v0 :: vs0 ++ [v]) with ((v0 :: vs0) ++ [v]). rewrite fold_left_app. reflexivity.
  - rewrite app_nil_r. reflexivity.
Qed.

(* ---------------------------------------------------------------- the groups of the verb are the partition by the key *)
Theorem stats1g_groups_def accs fsl gsl rs :
  stats1g_groups accs fsl gsl rs
  = spec_groups (gkey_sel gsl) (fun r => (dflt_pairs (gpairs gsl r), [])) (fun s r => (fst s, ingest_sel accs fsl r (snd s))) rs.
Proof. unfold stats1g_groups. apply gfold_spec. Qed.

Lemma stats1g_group_fold accs fsl (ms : list record) (p : record) l2 :
  fold_left (fun (s : record * level2) r => (fst s, ingest_sel accs fsl r (snd s))) ms (p, l2)
  = (p, fold_left (fun l2 r => ingest_sel accs fsl r l2) ms l2).
Proof. revert l2; induction ms as [|r ms IH]; intros l2; cbn [fold_left fst snd]; [reflexivity|apply IH]. Qed.

Lemma members_wf {R} (key : R -> option bytes) (P : R -> Prop) k rs : Forall P rs -> Forall P (members key k rs).
Proof. intros H. unfold members. apply Forall_forall. intros x Hx. apply filter_In in Hx. rewrite Forall_forall in H. now apply H. Qed.

(* stats1 with any selection form: the accumulator state of (group k, value field f, accumulator a) is that accumulator
   fed exactly the values of f over the members of group k, in arrival order; the group also keeps the group-by
   (name, value) pairs of its first member *)
Theorem stats1g_cell_sees_exactly_its_group accs fsl gsl rs k f a :
  sel_wf fsl rs -> fsel_selects fsl f = true -> In a (uniq_accs accs) ->
  (match oget k (stats1g_groups accs fsl gsl rs) with
   | Some pl => match oget f (snd pl) with Some l3 => oget (req_text a) l3 | None => None end
   | None => None
   end
   = match values_of f (members (gkey_sel gsl) k rs) with
     | [] => None
     | vs => Some (fold_left (feed (fst a)) vs st0)
     end)
  /\ match oget k (stats1g_groups accs fsl gsl rs), members (gkey_sel gsl) k rs with
     | Some pl, r0 :: _ => fst pl = dflt_pairs (gpairs gsl r0)
     | None, [] => True
     | _, _ => False
     end.
Proof.
  intros W S Ha. unfold stats1g_groups. rewrite oget_gfold. unfold group_state.
  assert (Wm : sel_wf fsl (members (gkey_sel gsl) k rs)) by (destruct fsl; cbn [sel_wf] in *; [exact Logic.I|now apply members_wf]).
  pose proof (cellg_is_accumulator_run accs fsl (members (gkey_sel gsl) k rs) f a Wm S Ha) as C. unfold cellg in C.
  set (ms := members (gkey_sel gsl) k rs) in *. clearbody ms.
  destruct ms as [|r0 rest]; [split; [reflexivity|exact Logic.I]|].
  rewrite stats1g_group_fold. cbn [fst snd]. split; [exact C|reflexivity].
Qed.

(* ---------------------------------------------------------------- the grouping key of --gr/--gx (fix: 06ddd9e93) *)
(* name=value determines the name and the value when the name holds no "=" *)
Lemma name_eq_value_inj n1 v1 n2 v2 :
  ~ In "="%char n1 -> ~ In "="%char n2 -> name_eq_value (n1, v1) = name_eq_value (n2, v2) -> n1 = n2 /\ v1 = v2.
Proof.
  unfold name_eq_value. cbn [fst snd]. revert n2. induction n1 as [|c n1 IH]; intros [|d n2] H1 H2 E; cbn [app] in E.
  - injection E as E. now split.
  - injection E as Ec E. exfalso. apply H2. left. now symmetry.
  - injection E as Ec E. exfalso. apply H1. now left.
  - injection E as Ec E. subst d. destruct (IH n2) as [-> ->]; [intros H; apply H1; now right|intros H; apply H2; now right|exact E|now split].
Qed.
(* records with ONE matched group-by field each: same group iff same field name and same text (names without "=") *)
Theorem regex_group_key_single_field inv ps r1 r2 n1 v1 n2 v2 :
  gmatched inv ps r1 = [(n1, v1)] -> gmatched inv ps r2 = [(n2, v2)] -> ~ In "="%char n1 -> ~ In "="%char n2 ->
  (gkey_sel (GRegex inv ps) r1 = gkey_sel (GRegex inv ps) r2 <-> n1 = n2 /\ v1 = v2).
Proof.
  intros E1 E2 H1 H2. cbn [gkey_sel]. rewrite E1, E2. cbn [map join_comma fold_left]. split.
  - intros E. injection E as E. now apply name_eq_value_inj.
  - intros [-> ->]. reflexivity.
Qed.
(* the witness of the repaired defect: a=1 and b=1 are different groups *)
Lemma regex_group_key_regression :
  gkey_sel (GRegex false [mkpat true true (B "a"); mkpat true true (B "b")]) [(B "a", B "1"); (B "x", B "3")]
  <> gkey_sel (GRegex false [mkpat true true (B "a"); mkpat true true (B "b")]) [(B "b", B "1"); (B "x", B "4")].
Proof. vm_compute. discriminate. Qed.

(* the selection predicate is what the patterns say *)
Lemma pat_match_anchored_both l name : pat_match (mkpat true true l) name = beqb l name.
Proof. reflexivity. Qed.
Lemma vfields_regex inv ps r f : In f (vfields (FRegex inv ps) r) <-> In f (keys r) /\ pats_match inv ps f = true.
Proof. cbn [vfields]. apply filter_In. Qed.
