(* C10 proofs, part 6: min / max over ints stay ints (the int value and the text of one of the inputs). *)
From Miller Require Import C10.Model C10.Verbs C10.Spec.
From Coq Require Import Lia.
Open Scope Z_scope.

Definition all_ints (vs : list val) : Prop := forall v, In v vs -> exists z, classify v = NInt z.

Lemma best_only a vs : (a = AMin \/ a = AMax) -> forall s s', st_best s = st_best s' ->
  st_best (fold_left (ingest a) vs s) = st_best (fold_left (ingest a) vs s').
Proof.
  intros Ha. induction vs as [|v vs IH]; intros s s' H; cbn [fold_left]; [exact H|].
  apply IH. destruct Ha as [ -> | -> ]; cbn [ingest st_best]; now rewrite H.
Qed.

Lemma min_from vs : all_ints vs -> forall s z0 t0, st_best s = MInt z0 t0 ->
  exists z t, st_best (fold_left (ingest AMin) vs s) = MInt z t
    /\ z <= z0 /\ (forall v z', In v vs -> classify v = NInt z' -> z <= z')
    /\ ((z = z0 /\ t = t0) \/ (In t vs /\ classify t = NInt z)).
Proof.
  induction vs as [|v vs IH]; intros Hall s z0 t0 Hs; cbn [fold_left].
  - exists z0, t0. repeat split; [exact Hs|lia|intros ? ? []|now left].
  - destruct (Hall v (or_introl eq_refl)) as [zv Hv].
    assert (Hall' : all_ints vs) by (intros w Hw; apply Hall; now right).
    assert (Hb : st_best (ingest AMin s v) = if z0 <? zv then MInt z0 t0 else MInt zv v).
    { cbn [ingest st_best]. rewrite Hs. unfold mv_of. rewrite Hv. reflexivity. }
    destruct (z0 <? zv) eqn:E.
    + apply Z.ltb_lt in E. destruct (IH Hall' _ z0 t0 Hb) as (z & t & Hr & Hle & Hmin & Hwho).
      exists z, t. repeat split; [exact Hr|lia| |].
      * intros w z' [<-|Hw] Hc; [rewrite Hv in Hc; injection Hc as <-; lia|eauto].
      * destruct Hwho as [H|[Hin Hc]]; [now left|right; split; [now right|exact Hc]].
    + apply Z.ltb_ge in E. destruct (IH Hall' _ zv v Hb) as (z & t & Hr & Hle & Hmin & Hwho).
      exists z, t. repeat split; [exact Hr|lia| |].
      * intros w z' [<-|Hw] Hc; [rewrite Hv in Hc; injection Hc as <-; lia|eauto].
      * right. destruct Hwho as [[-> ->]|[Hin Hc]]; [split; [now left|exact Hv]|split; [now right|exact Hc]].
Qed.

Theorem min_ints_stay_int vs : vs <> [] -> all_ints vs ->
  exists z t, run_acc false AMin vs = OInt z /\ In t vs /\ classify t = NInt z
    /\ (forall v z', In v vs -> classify v = NInt z' -> z <= z').
Proof.
  intros Hne Hall. destruct vs as [|v vs]; [congruence|]. destruct (Hall v (or_introl eq_refl)) as [zv Hv].
  unfold run_acc. cbn [fold_left].
  assert (Hb : st_best (ingest AMin st0 v) = MInt zv v) by (cbn [ingest st_best st0]; unfold mv_of; rewrite Hv; reflexivity).
  destruct (min_from vs (fun w Hw => Hall w (or_intror Hw)) _ zv v Hb) as (z & t & Hr & Hle & Hmin & Hwho).
  exists z, t. cbn [emit]. rewrite Hr. cbn [oval_of_mv]. repeat split.
  - destruct Hwho as [[-> ->]|[Hin _]]; [now left|now right].
  - destruct Hwho as [[-> ->]|[_ Hc]]; [exact Hv|exact Hc].
  - intros w z' [<-|Hw] Hc; [rewrite Hv in Hc; injection Hc as <-; lia|eauto].
Qed.

Lemma max_from vs : all_ints vs -> forall s z0 t0, st_best s = MInt z0 t0 ->
  exists z t, st_best (fold_left (ingest AMax) vs s) = MInt z t
    /\ z0 <= z /\ (forall v z', In v vs -> classify v = NInt z' -> z' <= z)
    /\ ((z = z0 /\ t = t0) \/ (In t vs /\ classify t = NInt z)).
Proof.
  induction vs as [|v vs IH]; intros Hall s z0 t0 Hs; cbn [fold_left].
  - exists z0, t0. repeat split; [exact Hs|lia|intros ? ? []|now left].
  - destruct (Hall v (or_introl eq_refl)) as [zv Hv].
    assert (Hall' : all_ints vs) by (intros w Hw; apply Hall; now right).
    assert (Hb : st_best (ingest AMax s v) = if zv <? z0 then MInt z0 t0 else MInt zv v).
    { cbn [ingest st_best]. rewrite Hs. unfold mv_of. rewrite Hv. reflexivity. }
    destruct (zv <? z0) eqn:E.
    + apply Z.ltb_lt in E. destruct (IH Hall' _ z0 t0 Hb) as (z & t & Hr & Hle & Hmax & Hwho).
      exists z, t. repeat split; [exact Hr|lia| |].
      * intros w z' [<-|Hw] Hc; [rewrite Hv in Hc; injection Hc as <-; lia|eauto].
      * destruct Hwho as [H|[Hin Hc]]; [now left|right; split; [now right|exact Hc]].
    + apply Z.ltb_ge in E. destruct (IH Hall' _ zv v Hb) as (z & t & Hr & Hle & Hmax & Hwho).
      exists z, t. repeat split; [exact Hr|lia| |].
      * intros w z' [<-|Hw] Hc; [rewrite Hv in Hc; injection Hc as <-; lia|eauto].
      * right. destruct Hwho as [[-> ->]|[Hin Hc]]; [split; [now left|exact Hv]|split; [now right|exact Hc]].
Qed.

Theorem max_ints_stay_int vs : vs <> [] -> all_ints vs ->
  exists z t, run_acc false AMax vs = OInt z /\ In t vs /\ classify t = NInt z
    /\ (forall v z', In v vs -> classify v = NInt z' -> z' <= z).
Proof.
  intros Hne Hall. destruct vs as [|v vs]; [congruence|]. destruct (Hall v (or_introl eq_refl)) as [zv Hv].
  unfold run_acc. cbn [fold_left].
  assert (Hb : st_best (ingest AMax st0 v) = MInt zv v) by (cbn [ingest st_best st0]; unfold mv_of; rewrite Hv; reflexivity).
  destruct (max_from vs (fun w Hw => Hall w (or_intror Hw)) _ zv v Hb) as (z & t & Hr & Hle & Hmax & Hwho).
  exists z, t. cbn [emit]. rewrite Hr. cbn [oval_of_mv]. repeat split.
  - destruct Hwho as [[-> ->]|[Hin _]]; [now left|now right].
  - destruct Hwho as [[-> ->]|[_ Hc]]; [exact Hv|exact Hc].
  - intros w z' [<-|Hw] Hc; [rewrite Hv in Hc; injection Hc as <-; lia|eauto].
Qed.
