(* C10 correspondence harness for the DSL statistics functions: cases written by harness/py/checks/c10_dsl.py
   (a call, its argument, what the scratch-built mlr printed through json_stringify) are evaluated with vm_compute. *)
From Miller Require Import C10.Model C10.Verbs C10.Harness C10.ModelDsl.
Open Scope char_scope.

Inductive dspec := DS (c : dcall) (a : darg).

(* what mlr printed: a scalar, an array, a map (keys in printed order), or absent *)
Inductive dobs := BOne (o : obsval) | BArr (os : list obsval) | BMap (kvs : list (bytes * obsval)) | BAbsent.

Fixpoint ovals_match (m : list oval) (o : list obsval) : bool :=
  match m, o with
  | [], [] => true
  | x :: m', y :: o' => oval_matches x y && ovals_match m' o'
  | _, _ => false
  end.

Definition dres_matches (r : dres) (o : dobs) : bool :=
  match r, o with
  | ROne v, BOne ov => oval_matches v ov
  | RArr vs, BArr os => ovals_match vs os
  | RMap kvs, BMap okvs => orec_matches kvs okvs
  | RAbsent, BAbsent => true
  | _, _ => false
  end.

Definition chkd (c : dspec * dobs) : bool :=
  let '(DS f a, o) := c in dres_matches (dsl_call f a) o.

(* debugging aid for the Python side *)
Definition model_outd (c : dspec * dobs) : dres := let '(DS f a, _) := c in dsl_call f a.
