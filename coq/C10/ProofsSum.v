(* C10 proofs, part 11: sums of ints stay ints -- the exact condition.  The code adds with `+` on Mlrvals
   (bifs.BIF_plus, plus_n_ii): int + int is an int unless that 64-bit addition overflows, in which case the result is
   converted to float, and float + anything is float.  So the sum of ints is an int exactly when EVERY partial sum, in
   arrival order, fits in int64; otherwise it is a float (whose exact value over Q is still the sum). *)
From Miller Require Import C10.Model C10.Verbs C10.Spec C10.ProofsAcc.
From Coq Require Import Lia.
Open Scope char_scope.

Fixpoint partials_fit (acc : Z) (zs : list Z) : bool :=
  match zs with [] => true | z :: t => in64 (acc + z) && partials_fit (acc + z) t end.

Lemma ingest_sum_s1 s v : st_s1 (ingest ASum s v) = match numof v with Some x => nv_plus (st_s1 s) x | None => st_s1 s end.
Proof. cbn [ingest]. destruct (numof v); reflexivity. Qed.

Lemma sum_float_stays_float vs : forall s q, st_s1 s = F q -> exists q', st_s1 (fold_left (ingest ASum) vs s) = F q'.
Proof.
  induction vs as [|v vs IH]; intros s q Hs; cbn [fold_left]; [eauto|].
  assert (H : exists q1, st_s1 (ingest ASum s v) = F q1).
  { rewrite ingest_sum_s1, Hs. destruct (numof v) as [[z|p]|]; cbn [nv_plus]; eauto. }
  destruct H as (q1 & H1). exact (IH _ _ H1).
Qed.

Lemma sum_ints_exact vs : forall s acc, all_int (numerics vs) = true -> st_s1 s = I acc ->
  match st_s1 (fold_left (ingest ASum) vs s) with
  | I z => partials_fit acc (ints_of (numerics vs)) = true /\ z = (acc + Zsum_list (ints_of (numerics vs)))%Z
  | F _ => partials_fit acc (ints_of (numerics vs)) = false
  end.
Proof.
  induction vs as [|v vs IH]; intros s acc Hall Hs.
  - cbn [fold_left numerics flat_map ints_of partials_fit Zsum_list fold_right]. rewrite Hs. split; [reflexivity|lia].
  - rewrite numerics_cons in Hall |- *. cbn [fold_left]. pose proof (ingest_sum_s1 s v) as E. rewrite Hs in E.
    destruct (numof v) as [[z|q]|].
    + change (ints_of (I z :: numerics vs)) with (z :: ints_of (numerics vs)).
      change (all_int (I z :: numerics vs)) with (all_int (numerics vs)) in Hall.
      cbn [partials_fit]. rewrite Zsum_list_cons. cbn [nv_plus] in E. destruct (in64 (acc + z)) eqn:Hin.
      * specialize (IH _ _ Hall E). destruct (st_s1 (fold_left (ingest ASum) vs (ingest ASum s v))); cbn [andb]; [|exact IH].
        destruct IH as [IH1 IH2]. split; [exact IH1|lia].
      * destruct (sum_float_stays_float vs _ _ E) as (q' & Hq). rewrite Hq. reflexivity.
    + cbn in Hall. discriminate.
    + exact (IH _ _ Hall E).
Qed.

Lemma qs_of_all_int vs : all_int (numerics vs) = true -> Qsum_list (qs_of vs) == inject_Z (Zsum_list (ints_of (numerics vs))).
Proof.
  unfold qs_of. induction (numerics vs) as [|x xs IH]; intros Hall; [reflexivity|].
  destruct x as [z|q]; [|cbn in Hall; discriminate]. change (all_int (I z :: xs)) with (all_int xs) in Hall.
  change (ints_of (I z :: xs)) with (z :: ints_of xs). cbn [map]. rewrite Qsum_list_cons, Zsum_list_cons, IH by exact Hall.
  cbn [qof]. rewrite inject_Z_plus. reflexivity.
Qed.

(* sums of ints stay ints exactly when every partial sum fits; otherwise the sum is a float, still the exact sum over Q *)
Theorem int_sum_stays_int_iff vs : all_int (numerics vs) = true ->
  (partials_fit 0 (ints_of (numerics vs)) = true -> run_acc false ASum vs = OInt (Zsum_list (ints_of (numerics vs))))
  /\ (partials_fit 0 (ints_of (numerics vs)) = false ->
      exists q, run_acc false ASum vs = OFlt q /\ q == inject_Z (Zsum_list (ints_of (numerics vs)))).
Proof.
  intros Hall. pose proof (sum_ints_exact vs st0 0 Hall eq_refl) as H. pose proof (sum_value vs) as (q & Hq & Hsum).
  unfold run_acc in *. cbn [emit] in *. destruct (st_s1 (fold_left (ingest ASum) vs st0)) as [z|p]; cbn [oval_of_nv] in *.
  - destruct H as [Hfit ->]. split; [reflexivity|congruence].
  - split; [congruence|]. intros _. exists p. split; [reflexivity|]. cbn [oval_q] in Hq. injection Hq as <-.
    rewrite Hsum. now apply qs_of_all_int.
Qed.

(* when the magnitudes add up within int64 every partial sum fits (the sufficient condition of C10_int_sums_stay_int) *)
Lemma partials_fit_of_abs zs : forall acc,
  (Z.abs acc + Zsum_list (map Z.abs zs) <= 9223372036854775807)%Z -> partials_fit acc zs = true.
Proof.
  induction zs as [|z zs IH]; intros acc Hb; [reflexivity|]. cbn [partials_fit map] in *. rewrite Zsum_list_cons in Hb.
  pose proof (Zsum_abs_nonneg zs) as Hnn. apply andb_true_intro. split.
  - unfold in64. apply andb_true_intro. split; apply Z.leb_le; lia.
  - apply IH. lia.
Qed.

Example partials_fit_examples :
  partials_fit 0 [9223372036854775807; -5; 3]%Z = true
  /\ partials_fit 0 [9223372036854775807; 3; -5]%Z = false
  /\ run_acc false ASum [B "9223372036854775807"; B "-5"; B "3"] = OInt 9223372036854775805
  /\ run_acc false ASum [B "9223372036854775807"; B "3"; B "-5"] = OFlt (inject_Z 9223372036854775805).
Proof. vm_compute. repeat split; reflexivity. Qed.
