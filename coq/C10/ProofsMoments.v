(* C10 proofs, part 9: skewness / kurtosis = the central-moment definitions over Q; mad, count, null_count,
   minlen / maxlen against their definitions; utf8_len against C15's character count on well-formed UTF-8. *)
From Miller Require Import C10.Model C10.Verbs C10.Spec C10.ProofsAcc.
From Miller Require C15.Model.
From Coq Require Import Lqa Lia Qfield ZifyBool ZifyN ZifyNat.
Open Scope Q_scope.

(* ---------------------------------------------------------------- sums of powers of deviations, for EVERY m *)
Lemma dev2 xs m :
  Qsum_list (map (fun x => qpow (x - m) 2) xs)
  == pow_sum 2 xs - 2 * m * pow_sum 1 xs + inject_Z (Z.of_nat (List.length xs)) * m * m.
Proof.
  unfold pow_sum. induction xs as [|x xs IH].
  - cbn [map List.length Z.of_nat]. unfold Qsum_list, inject_Z. cbn [fold_right]. ring.
  - cbn [map List.length]. rewrite !Qsum_list_cons, IH, inject_Z_succ. cbn [qpow]. ring.
Qed.

Lemma dev3 xs m :
  Qsum_list (map (fun x => qpow (x - m) 3) xs)
  == pow_sum 3 xs - 3 * m * pow_sum 2 xs + 3 * m * m * pow_sum 1 xs
     - inject_Z (Z.of_nat (List.length xs)) * m * m * m.
Proof.
  unfold pow_sum. induction xs as [|x xs IH].
  - cbn [map List.length Z.of_nat]. unfold Qsum_list, inject_Z. cbn [fold_right]. ring.
  - cbn [map List.length]. rewrite !Qsum_list_cons, IH, inject_Z_succ. cbn [qpow]. ring.
Qed.

Lemma dev4 xs m :
  Qsum_list (map (fun x => qpow (x - m) 4) xs)
  == pow_sum 4 xs - 4 * m * pow_sum 3 xs + 6 * m * m * pow_sum 2 xs - 4 * m * m * m * pow_sum 1 xs
     + inject_Z (Z.of_nat (List.length xs)) * m * m * m * m.
Proof.
  unfold pow_sum. induction xs as [|x xs IH].
  - cbn [map List.length Z.of_nat]. unfold Qsum_list, inject_Z. cbn [fold_right]. ring.
  - cbn [map List.length]. rewrite !Qsum_list_cons, IH, inject_Z_succ. cbn [qpow]. ring.
Qed.

Lemma len_nonzero (xs : list Q) : xs <> [] -> ~ inject_Z (Z.of_nat (List.length xs)) == 0.
Proof. intros Hne. apply inject_Z_nonzero. destruct xs; [congruence|cbn [List.length]; lia]. Qed.

Lemma mean_pow1 xs : mean_def xs == pow_sum 1 xs / inject_Z (Z.of_nat (List.length xs)).
Proof. unfold mean_def. rewrite pow_sum_1. reflexivity. Qed.

(* the code's expressions, with mean = s1/n, ARE the central moment sums *)
Lemma central2_eq xs : xs <> [] ->
  let fn := inject_Z (Z.of_nat (List.length xs)) in let mean := pow_sum 1 xs / fn in
  central 2 xs == pow_sum 2 xs - fn * mean * mean.
Proof.
  intros Hne fn mean. pose proof (len_nonzero xs Hne) as Hn. fold fn in Hn.
  unfold central. rewrite dev2, mean_pow1. fold fn. subst mean.
  generalize (pow_sum 1 xs) (pow_sum 2 xs) fn Hn. clear. intros s1 s2 n Hn. field. exact Hn.
Qed.

Lemma central3_eq xs : xs <> [] ->
  let fn := inject_Z (Z.of_nat (List.length xs)) in let mean := pow_sum 1 xs / fn in
  central 3 xs == pow_sum 3 xs - mean * (3 * pow_sum 2 xs - 2 * fn * mean * mean).
Proof.
  intros Hne fn mean. pose proof (len_nonzero xs Hne) as Hn. fold fn in Hn.
  unfold central. rewrite dev3, mean_pow1. fold fn. subst mean.
  generalize (pow_sum 1 xs) (pow_sum 2 xs) (pow_sum 3 xs) fn Hn. clear. intros s1 s2 s3 n Hn. field. exact Hn.
Qed.

Lemma central4_eq xs : xs <> [] ->
  let fn := inject_Z (Z.of_nat (List.length xs)) in let mean := pow_sum 1 xs / fn in
  central 4 xs == pow_sum 4 xs - mean * (4 * pow_sum 3 xs - mean * (6 * pow_sum 2 xs - 3 * fn * mean * mean)).
Proof.
  intros Hne fn mean. pose proof (len_nonzero xs Hne) as Hn. fold fn in Hn.
  unfold central. rewrite dev4, mean_pow1. fold fn. subst mean.
  generalize (pow_sum 1 xs) (pow_sum 2 xs) (pow_sum 3 xs) (pow_sum 4 xs) fn Hn. clear.
  intros s1 s2 s3 s4 n Hn. field. exact Hn.
Qed.

Lemma sq_nonneg (y : Q) : 0 <= qpow y 2.
Proof. cbn [qpow]. destruct (Qlt_le_dec y 0); nra. Qed.

Lemma central2_nonneg xs : 0 <= central 2 xs.
Proof.
  unfold central. generalize (mean_def xs). intros m.
  induction xs as [|x xs IH]; cbn [map]; [unfold Qsum_list; cbn [fold_right]; lra|].
  rewrite Qsum_list_cons. pose proof (sq_nonneg (x - m)) as Hx. lra.
Qed.

(* central 2 xs == 0 says: every value equals the mean *)
Lemma sumsq_zero_all xs m : Qsum_list (map (fun x => qpow (x - m) 2) xs) == 0 -> forall x, In x xs -> x == m.
Proof.
  induction xs as [|y xs IH]; intros Hz x Hin; [destruct Hin|].
  cbn [map] in Hz. rewrite Qsum_list_cons in Hz.
  pose proof (sq_nonneg (y - m)) as Hy.
  assert (Hrest : 0 <= Qsum_list (map (fun x => qpow (x - m) 2) xs)).
  { clear. induction xs as [|x xs IH]; cbn [map]; [unfold Qsum_list; cbn [fold_right]; lra|].
    rewrite Qsum_list_cons. pose proof (sq_nonneg (x - m)) as Hx. lra. }
  destruct Hin as [<-|Hin].
  - assert (Hy0 : qpow (y - m) 2 == 0) by lra. cbn [qpow] in Hy0.
    destruct (Qlt_le_dec y m) as [Hl|Hl]; [exfalso; nra|]. destruct (Qlt_le_dec m y) as [Hl'|Hl']; [exfalso; nra|]. lra.
  - apply IH; [lra|exact Hin].
Qed.

Lemma central2_zero_iff_all_equal xs : central 2 xs == 0 <-> (forall x, In x xs -> x == mean_def xs).
Proof.
  split.
  - intros Hz. apply sumsq_zero_all. exact Hz.
  - intros Hall. unfold central. generalize dependent (mean_def xs). intros m Hall.
    induction xs as [|x xs IH]; cbn [map]; [reflexivity|]. rewrite Qsum_list_cons, IH by (intros y Hy; apply Hall; now right).
    cbn [qpow]. pose proof (Hall x (or_introl eq_refl)) as Hx. rewrite Hx. ring.
Qed.

Lemma fn_gt_1 (n : nat) : (2 <= n)%nat -> 1 < inject_Z (Z.of_nat n).
Proof. intros Hn. change 1 with (inject_Z 1). rewrite <- Zlt_Qlt. lia. Qed.

Lemma qs_nonempty_of_len (xs : list Q) : (2 <= List.length xs)%nat -> xs <> [].
Proof. intros H E. rewrite E in H. cbn [List.length] in H. lia. Qed.

(* ---------------------------------------------------------------- skewness *)
Lemma skew_parts_def vs : (2 <= List.length (qs_of vs))%nat ->
  let xs := qs_of vs in let fn := inject_Z (Z.of_nat (List.length xs)) in
  let s := fold_left (ingest ASkewness) vs st0 in
  fst (skew_parts (st_count s) (qof (st_s1 s)) (qof (st_s2 s)) (qof (st_s3 s))) == central 3 xs / fn
  /\ snd (skew_parts (st_count s) (qof (st_s1 s)) (qof (st_s2 s)) (qof (st_s3 s))) == central 2 xs / (fn - 1).
Proof.
  intros Hlen. destruct (moments ASkewness vs eq_refl) as (I0 & I1 & I2 & I3 & _). cbv zeta in *.
  set (s := fold_left (ingest ASkewness) vs st0) in *.
  pose proof (qs_nonempty_of_len _ Hlen) as Hne.
  pose proof (central2_eq _ Hne) as C2. pose proof (central3_eq _ Hne) as C3. cbv zeta in C2, C3.
  unfold skew_parts. cbn [fst snd]. rewrite I0, I1, I2, I3, C2, C3. split; reflexivity.
Qed.

Theorem skewness_stream_eq_def vs :
  let xs := qs_of vs in let fn := inject_Z (Z.of_nat (List.length xs)) in
  ((List.length xs < 2)%nat -> run_acc false ASkewness vs = OVoid)
  /\ ((2 <= List.length xs)%nat -> central 2 xs == 0 -> run_acc false ASkewness vs = ONan)
  /\ ((2 <= List.length xs)%nat -> ~ central 2 xs == 0 ->
      exists nu de, run_acc false ASkewness vs = OPow15 nu de
        /\ nu == central 3 xs / fn /\ de == central 2 xs / (fn - 1) /\ 0 < de).
Proof.
  intros xs fn. destruct (moments ASkewness vs eq_refl) as (I0 & _). cbv zeta in I0. fold xs in I0.
  unfold run_acc. cbn [emit]. rewrite I0.
  split; [|split].
  - intros Hlt. destruct (Z.of_nat (List.length xs) <? 2)%Z eqn:E; [reflexivity|lia].
  - intros Hlen Hz. destruct (Z.of_nat (List.length xs) <? 2)%Z eqn:E; [lia|].
    destruct (skew_parts_def vs Hlen) as [_ Hde]. cbv zeta in Hde. fold xs in Hde. rewrite I0 in Hde.
    destruct (skew_parts _ _ _ _) as [nu de]. cbn [snd] in Hde.
    assert (Hd0 : de == 0) by (rewrite Hde, Hz; unfold Qdiv; ring).
    assert (Hb : Qle_bool de 0 = true) by (apply Qle_bool_iff; rewrite Hd0; apply Qle_refl).
    rewrite Hb. reflexivity.
  - intros Hlen Hnz. destruct (Z.of_nat (List.length xs) <? 2)%Z eqn:E; [lia|].
    destruct (skew_parts_def vs Hlen) as [Hnu Hde]. cbv zeta in Hnu, Hde. fold xs in Hnu, Hde. rewrite I0 in Hnu, Hde.
    destruct (skew_parts _ _ _ _) as [nu de]. cbn [fst snd] in Hnu, Hde.
    pose proof (central2_nonneg xs) as Hnn. pose proof (fn_gt_1 _ Hlen) as Hfn. fold xs fn in Hfn, Hnu, Hde.
    assert (Hpos : 0 < central 2 xs).
    { destruct (Qlt_le_dec 0 (central 2 xs)) as [H|H]; [exact H|]. exfalso. apply Hnz. apply Qle_antisym; assumption. }
    assert (Hdpos : 0 < de).
    { rewrite Hde. apply Qlt_shift_div_l; [lra|]. rewrite Qmult_0_l. exact Hpos. }
    assert (Hb : Qle_bool de 0 = false).
    { destruct (Qle_bool de 0) eqn:B; [|reflexivity]. apply Qle_bool_iff in B. exfalso. lra. }
    rewrite Hb. exists nu, de. repeat split; assumption.
Qed.

(* ---------------------------------------------------------------- kurtosis *)
Lemma kurt_def vs : (2 <= List.length (qs_of vs))%nat ->
  let xs := qs_of vs in let fn := inject_Z (Z.of_nat (List.length xs)) in
  let s := fold_left (ingest AKurtosis) vs st0 in
  kurt_den (st_count s) (qof (st_s1 s)) (qof (st_s2 s)) == central 2 xs / fn
  /\ finalize_kurt (st_count s) (qof (st_s1 s)) (qof (st_s2 s)) (qof (st_s3 s)) (qof (st_s4 s))
     == (central 4 xs / fn) / ((central 2 xs / fn) * (central 2 xs / fn)) - 3.
Proof.
  intros Hlen. destruct (moments AKurtosis vs eq_refl) as (I0 & I1 & I2 & I3 & I4). cbv zeta in *.
  set (s := fold_left (ingest AKurtosis) vs st0) in *.
  pose proof (qs_nonempty_of_len _ Hlen) as Hne.
  pose proof (central2_eq _ Hne) as C2. pose proof (central4_eq _ Hne) as C4. cbv zeta in C2, C4.
  unfold kurt_den, finalize_kurt. rewrite I0, I1, I2, I3, I4, C2, C4. split; reflexivity.
Qed.

Theorem kurtosis_stream_eq_def vs :
  let xs := qs_of vs in let fn := inject_Z (Z.of_nat (List.length xs)) in
  ((List.length xs < 2)%nat -> run_acc false AKurtosis vs = OVoid)
  /\ ((2 <= List.length xs)%nat -> central 2 xs == 0 -> run_acc false AKurtosis vs = ONan)
  /\ ((2 <= List.length xs)%nat -> ~ central 2 xs == 0 ->
      exists q, run_acc false AKurtosis vs = OFlt q
        /\ q == (central 4 xs / fn) / ((central 2 xs / fn) * (central 2 xs / fn)) - 3).
Proof.
  intros xs fn. destruct (moments AKurtosis vs eq_refl) as (I0 & _). cbv zeta in I0. fold xs in I0.
  unfold run_acc. cbn [emit].
  split; [|split].
  - intros Hlt. rewrite I0. destruct (Z.of_nat (List.length xs) <? 2)%Z eqn:E; [reflexivity|lia].
  - intros Hlen Hz. destruct (kurt_def vs Hlen) as [Hde _]. cbv zeta in Hde. fold xs in Hde.
    set (kd := kurt_den _ _ _) in *.
    destruct (st_count _ <? 2)%Z eqn:E; [rewrite I0 in E; lia|].
    assert (Hd0 : kd == 0) by (rewrite Hde, Hz; unfold Qdiv; ring).
    assert (Hb : Qle_bool kd 0 = true) by (apply Qle_bool_iff; rewrite Hd0; apply Qle_refl).
    rewrite Hb. reflexivity.
  - intros Hlen Hnz. destruct (kurt_def vs Hlen) as [Hde Hq]. cbv zeta in Hde, Hq. fold xs fn in Hde, Hq.
    set (kd := kurt_den _ _ _) in *.
    destruct (st_count _ <? 2)%Z eqn:E; [rewrite I0 in E; lia|].
    pose proof (central2_nonneg xs) as Hnn. pose proof (fn_gt_1 _ Hlen) as Hfn. fold xs fn in Hfn.
    assert (Hpos : 0 < central 2 xs).
    { destruct (Qlt_le_dec 0 (central 2 xs)) as [H|H]; [exact H|]. exfalso. apply Hnz. apply Qle_antisym; assumption. }
    assert (Hdpos : 0 < kd).
    { rewrite Hde. apply Qlt_shift_div_l; [lra|]. rewrite Qmult_0_l. exact Hpos. }
    assert (Hb : Qle_bool kd 0 = false).
    { destruct (Qle_bool kd 0) eqn:B; [|reflexivity]. apply Qle_bool_iff in B. exfalso. lra. }
    rewrite Hb. eexists. split; [reflexivity|exact Hq].
Qed.

(* ---------------------------------------------------------------- count, null_count *)
Lemma count_from vs : forall s, st_count (fold_left (ingest ACount) vs s) = (st_count s + Z.of_nat (List.length vs))%Z.
Proof.
  induction vs as [|v vs IH]; intros s; cbn [fold_left List.length].
  - lia.
  - rewrite IH. cbn [ingest st_count]. lia.
Qed.

Theorem count_is_number_of_values vs : run_acc false ACount vs = OInt (Z.of_nat (List.length vs)).
Proof. unfold run_acc. cbn [emit]. rewrite count_from. cbn [st0 st_count]. f_equal. Qed.

Lemma null_count_from vs : forall s,
  st_count (fold_left (ingest ANullCount) vs s) = (st_count s + Z.of_nat (List.length (filter is_void vs)))%Z.
Proof.
  induction vs as [|v vs IH]; intros s; cbn [fold_left filter].
  - cbn [List.length]. lia.
  - rewrite IH. cbn [ingest]. destruct (is_void v); cbn [st_count List.length]; lia.
Qed.

Theorem null_count_is_number_of_empty_values vs :
  run_acc false ANullCount vs = OInt (Z.of_nat (List.length (filter is_void vs))).
Proof. unfold run_acc. cbn [emit]. rewrite null_count_from. cbn [st0 st_count]. f_equal. Qed.

(* ---------------------------------------------------------------- mean absolute deviation *)
Definition isnum (v : val) : bool := match numof v with Some _ => true | None => false end.

Lemma mad_data_from vs : forall s, st_data (fold_left (ingest AMad) vs s) = st_data s ++ filter isnum vs.
Proof.
  induction vs as [|v vs IH]; intros s; cbn [fold_left filter].
  - now rewrite app_nil_r.
  - rewrite IH. unfold isnum. cbn [ingest]. destruct (numof v); cbn [st_data]; [rewrite <- app_assoc; reflexivity|reflexivity].
Qed.

Lemma flat_filter vs :
  flat_map (fun v => match numof v with Some x => [qof x] | None => [] end) (filter isnum vs) = qs_of vs.
Proof.
  unfold qs_of. induction vs as [|v vs IH]; [reflexivity|]. rewrite numerics_cons. cbn [filter]. unfold isnum at 1.
  destruct (numof v) as [x|] eqn:E; [|exact IH].
  cbn [flat_map map]. rewrite E, IH. reflexivity.
Qed.

Lemma fold_left_Qplus l : forall a, fold_left Qplus l a == a + Qsum_list l.
Proof.
  induction l as [|x l IH]; intros a; cbn [fold_left].
  - unfold Qsum_list. cbn [fold_right]. ring.
  - rewrite IH, Qsum_list_cons. ring.
Qed.
Lemma Qsum_eq l : Qsum l == Qsum_list l.
Proof. unfold Qsum. rewrite fold_left_Qplus. ring. Qed.

Lemma Qsum_list_map_ext (f g : Q -> Q) l : (forall x, f x == g x) -> Qsum_list (map f l) == Qsum_list (map g l).
Proof.
  intros H. induction l as [|x l IH]; cbn [map]; [reflexivity|]. rewrite !Qsum_list_cons, IH, (H x). reflexivity.
Qed.

Theorem mad_equals_definition vs : qs_of vs <> [] ->
  let xs := qs_of vs in
  exists q, run_acc false AMad vs = OFlt q
    /\ q == Qsum_list (map (fun x => Qabs (mean_def xs - x)) xs) / inject_Z (Z.of_nat (List.length xs)).
Proof.
  intros Hne xs. unfold run_acc. cbn [emit].
  pose proof (mad_data_from vs st0) as Hd. cbn [st0 st_data app] in Hd. rewrite Hd. clear Hd.
  destruct (filter isnum vs) as [|d0 dt] eqn:E.
  - exfalso. apply Hne. rewrite <- flat_filter, E. reflexivity.
  - rewrite <- E, flat_filter. fold xs. cbv zeta. eexists. split; [reflexivity|].
    rewrite Qsum_eq. apply Qdiv_comp; [|reflexivity].
    apply Qsum_list_map_ext. intros x. rewrite Qsum_eq. unfold mean_def. reflexivity.
Qed.

Theorem mad_empty vs : qs_of vs = [] -> run_acc false AMad vs = OVoid.
Proof.
  intros He. unfold run_acc. cbn [emit].
  pose proof (mad_data_from vs st0) as Hd. cbn [st0 st_data app] in Hd. rewrite Hd. clear Hd.
  destruct (filter isnum vs) as [|d0 dt] eqn:E; [reflexivity|]. exfalso.
  pose proof (flat_filter vs) as F. rewrite E, He in F. cbn [flat_map] in F. unfold isnum in E.
  assert (Hin : In d0 (filter (fun v => match numof v with Some _ => true | None => false end) vs)) by (rewrite E; now left).
  apply filter_In in Hin. destruct Hin as [_ Hn]. destruct (numof d0); [cbn [app] in F; discriminate|discriminate].
Qed.

(* ---------------------------------------------------------------- minlen / maxlen *)
Lemma minlen_from vs : forall s z0, st_best s = MInt z0 [] ->
  exists z, st_best (fold_left (ingest AMinLen) vs s) = MInt z []
    /\ (z <= z0)%Z /\ (forall v, In v vs -> (z <= utf8_len v)%Z) /\ (z = z0 \/ In z (map utf8_len vs)).
Proof.
  induction vs as [|v vs IH]; intros s z0 Hs; cbn [fold_left].
  - exists z0. split; [exact Hs|]. split; [lia|]. split; [intros ? []|now left].
  - assert (Hb : st_best (ingest AMinLen s v) = MInt (if (z0 <? utf8_len v)%Z then z0 else utf8_len v) []).
    { cbn [ingest st_best]. rewrite Hs. cbn [mv_min]. destruct (z0 <? utf8_len v)%Z; reflexivity. }
    destruct (IH _ _ Hb) as (z & Hr & Hle & Hmin & Hwho).
    exists z. split; [exact Hr|]. cbn [map].
    destruct (z0 <? utf8_len v)%Z eqn:E; [apply Z.ltb_lt in E|apply Z.ltb_ge in E].
    + split; [lia|]. split; [intros w [<-|Hw]; [lia|auto]|]. destruct Hwho as [H|H]; [now left|right; now right].
    + split; [lia|]. split; [intros w [<-|Hw]; [lia|auto]|]. destruct Hwho as [H|H]; [right; left; now rewrite H|right; now right].
Qed.

Theorem minlen_is_min_of_lengths vs : vs <> [] ->
  exists z, run_acc false AMinLen vs = OInt z /\ In z (map utf8_len vs) /\ (forall v, In v vs -> (z <= utf8_len v)%Z).
Proof.
  intros Hne. destruct vs as [|v vs]; [congruence|]. unfold run_acc. cbn [fold_left].
  assert (Hb : st_best (ingest AMinLen st0 v) = MInt (utf8_len v) []) by reflexivity.
  destruct (minlen_from vs _ _ Hb) as (z & Hr & Hle & Hmin & Hwho).
  exists z. cbn [emit]. rewrite Hr. cbn [oval_of_mv map]. split; [reflexivity|]. split.
  - destruct Hwho as [->|H]; [now left|now right].
  - intros w [<-|Hw]; [exact Hle|auto].
Qed.

Lemma maxlen_from vs : forall s z0, st_best s = MInt z0 [] ->
  exists z, st_best (fold_left (ingest AMaxLen) vs s) = MInt z []
    /\ (z0 <= z)%Z /\ (forall v, In v vs -> (utf8_len v <= z)%Z) /\ (z = z0 \/ In z (map utf8_len vs)).
Proof.
  induction vs as [|v vs IH]; intros s z0 Hs; cbn [fold_left].
  - exists z0. split; [exact Hs|]. split; [lia|]. split; [intros ? []|now left].
  - assert (Hb : st_best (ingest AMaxLen s v) = MInt (if (utf8_len v <? z0)%Z then z0 else utf8_len v) []).
    { cbn [ingest st_best]. rewrite Hs. cbn [mv_max]. destruct (utf8_len v <? z0)%Z; reflexivity. }
    destruct (IH _ _ Hb) as (z & Hr & Hle & Hmax & Hwho).
    exists z. split; [exact Hr|]. cbn [map].
    destruct (utf8_len v <? z0)%Z eqn:E; [apply Z.ltb_lt in E|apply Z.ltb_ge in E].
    + split; [lia|]. split; [intros w [<-|Hw]; [lia|auto]|]. destruct Hwho as [H|H]; [now left|right; now right].
    + split; [lia|]. split; [intros w [<-|Hw]; [lia|auto]|]. destruct Hwho as [H|H]; [right; left; now rewrite H|right; now right].
Qed.

Theorem maxlen_is_max_of_lengths vs : vs <> [] ->
  exists z, run_acc false AMaxLen vs = OInt z /\ In z (map utf8_len vs) /\ (forall v, In v vs -> (utf8_len v <= z)%Z).
Proof.
  intros Hne. destruct vs as [|v vs]; [congruence|]. unfold run_acc. cbn [fold_left].
  assert (Hb : st_best (ingest AMaxLen st0 v) = MInt (utf8_len v) []) by reflexivity.
  destruct (maxlen_from vs _ _ Hb) as (z & Hr & Hle & Hmax & Hwho).
  exists z. cbn [emit]. rewrite Hr. cbn [oval_of_mv map]. split; [reflexivity|]. split.
  - destruct Hwho as [->|H]; [now left|now right].
  - intros w [<-|Hw]; [exact Hle|auto].
Qed.

Theorem minlen_empty interp : run_acc interp AMinLen [] = OVoid.
Proof. reflexivity. Qed.
Theorem maxlen_empty interp : run_acc interp AMaxLen [] = OVoid.
Proof. reflexivity. Qed.

(* ---------------------------------------------------------------- utf8_len = C15's strlen on well-formed UTF-8 *)
(* utf8_len counts the bytes that are not continuation bytes (10xxxxxx); C15.Model.strlen is the length of the Go
   decoding []rune(s) (utf8.RuneCountInString).  They agree on every well-formed UTF-8 string (C15.Model.valid_utf8);
   on ill-formed input they differ (a stray continuation byte is one rune for Go, zero for utf8_len). *)
Definition nc (c : ascii) : bool := negb ((128 <=? code c)%N && (code c <? 192)%N).

Lemma utf8_len_cons c t : utf8_len (c :: t) = ((if nc c then 1 else 0) + utf8_len t)%Z.
Proof.
  unfold utf8_len. cbn [filter]. fold (nc c). destruct (nc c); cbn [List.length]; lia.
Qed.

Lemma nc_ascii c : (C15.Model.bn c <? 128)%N = true -> nc c = true.
Proof. unfold nc, C15.Model.bn. lia. Qed.
Lemma nc_lead lo hi c : (192 <= lo)%N -> C15.Model.inr lo hi c = true -> nc c = true.
Proof. unfold nc, C15.Model.inr, C15.Model.bn. lia. Qed.
Lemma nc_cont c : C15.Model.cont c = true -> nc c = false.
Proof. unfold nc, C15.Model.cont, C15.Model.bn. lia. Qed.
Lemma ok3_cont x b1 :
  (if (x =? 224)%N then C15.Model.inr 160 191 b1 else if (x =? 237)%N then C15.Model.inr 128 159 b1 else C15.Model.cont b1) = true
  -> C15.Model.cont b1 = true.
Proof. unfold C15.Model.inr, C15.Model.cont. destruct (x =? 224)%N, (x =? 237)%N; lia. Qed.
Lemma ok4_cont x b1 :
  (if (x =? 240)%N then C15.Model.inr 144 191 b1 else if (x =? 244)%N then C15.Model.inr 128 143 b1 else C15.Model.cont b1) = true
  -> C15.Model.cont b1 = true.
Proof. unfold C15.Model.inr, C15.Model.cont. destruct (x =? 240)%N, (x =? 244)%N; lia. Qed.

Lemma utf8_len_strlen_n : forall n v, (List.length v <= n)%nat -> C15.Model.valid_utf8 v = true ->
  utf8_len v = C15.Model.strlen v.
Proof.
  unfold C15.Model.strlen.
  induction n as [|n IH]; intros v Hlen Hv.
  - destruct v; [reflexivity|cbn [List.length] in Hlen; lia].
  - destruct v as [|b0 t]; [reflexivity|]. cbn [List.length] in Hlen.
    cbn [C15.Model.valid_utf8] in Hv. cbn [C15.Model.runes]. cbv zeta in *.
    destruct (N.ltb (C15.Model.bn b0) 128) eqn:E0.
    { rewrite utf8_len_cons, (nc_ascii _ E0). cbn [List.length]. rewrite (IH t) by (try lia; exact Hv). lia. }
    destruct (C15.Model.inr 194 223 b0) eqn:E1.
    { destruct t as [|b1 t1]; [discriminate|]. apply andb_true_iff in Hv. destruct Hv as [H1 H2].
      cbn [List.length] in *. rewrite H1. cbn [List.length].
      rewrite !utf8_len_cons, (nc_lead 194 223 b0) by (try lia; exact E1). rewrite (nc_cont _ H1).
      rewrite (IH t1) by (try lia; exact H2). lia. }
    destruct (C15.Model.inr 224 239 b0) eqn:E2.
    { destruct t as [|b1 [|b2 t2]]; try discriminate.
      apply andb_true_iff in Hv. destruct Hv as [H12 H3].
      cbn [List.length] in *. rewrite H12. cbn [List.length].
      apply andb_true_iff in H12. destruct H12 as [Hk1 Hk2]. apply ok3_cont in Hk1.
      rewrite !utf8_len_cons, (nc_lead 224 239 b0) by (try lia; exact E2). rewrite (nc_cont _ Hk1), (nc_cont _ Hk2).
      rewrite (IH t2) by (try lia; exact H3). lia. }
    destruct (C15.Model.inr 240 244 b0) eqn:E3; [|discriminate].
    destruct t as [|b1 [|b2 [|b3 t3]]]; try discriminate.
    apply andb_true_iff in Hv. destruct Hv as [H123 H4].
    cbn [List.length] in *. rewrite H123. cbn [List.length].
    apply andb_true_iff in H123. destruct H123 as [H12 Hk3]. apply andb_true_iff in H12. destruct H12 as [Hk1 Hk2].
    apply ok4_cont in Hk1.
    rewrite !utf8_len_cons, (nc_lead 240 244 b0) by (try lia; exact E3).
    rewrite (nc_cont _ Hk1), (nc_cont _ Hk2), (nc_cont _ Hk3).
    rewrite (IH t3) by (try lia; exact H4). lia.
Qed.

Theorem utf8_len_is_rune_count v : C15.Model.valid_utf8 v = true -> utf8_len v = C15.Model.strlen v.
Proof. intros H. exact (utf8_len_strlen_n (List.length v) v (le_n _) H). Qed.

Lemma ascii_valid s : forallb (fun c => (code c <? 128)%N) s = true -> C15.Model.valid_utf8 s = true.
Proof.
  induction s as [|c t IH]; intros H; [reflexivity|]. cbn [forallb] in H. apply andb_true_iff in H. destruct H as [H1 H2].
  cbn [C15.Model.valid_utf8]. cbv zeta. unfold C15.Model.bn. rewrite H1. now apply IH.
Qed.

Theorem utf8_len_ascii v : forallb (fun c => (code c <? 128)%N) v = true -> utf8_len v = Z.of_nat (List.length v).
Proof.
  induction v as [|c t IH]; intros H; [reflexivity|]. cbn [forallb] in H. apply andb_true_iff in H. destruct H as [H1 H2].
  rewrite utf8_len_cons, (IH H2). assert (Hc : nc c = true) by (unfold nc; lia). rewrite Hc. cbn [List.length]. lia.
Qed.

(* the min/max length theorems, restated with C15's character count on well-formed inputs *)
Corollary minlen_is_min_rune_count vs : vs <> [] -> forallb C15.Model.valid_utf8 vs = true ->
  exists z, run_acc false AMinLen vs = OInt z /\ In z (map C15.Model.strlen vs)
    /\ (forall v, In v vs -> (z <= C15.Model.strlen v)%Z).
Proof.
  intros Hne Hval. destruct (minlen_is_min_of_lengths vs Hne) as (z & Hr & Hin & Hmin).
  assert (Hv : forall v, In v vs -> utf8_len v = C15.Model.strlen v)
    by (intros v Hv; apply utf8_len_is_rune_count; rewrite forallb_forall in Hval; now apply Hval).
  exists z. split; [exact Hr|]. split.
  - apply in_map_iff in Hin. destruct Hin as (w & <- & Hw). rewrite (Hv w Hw). now apply in_map.
  - intros v Hin'. rewrite <- (Hv v Hin'). now apply Hmin.
Qed.
Corollary maxlen_is_max_rune_count vs : vs <> [] -> forallb C15.Model.valid_utf8 vs = true ->
  exists z, run_acc false AMaxLen vs = OInt z /\ In z (map C15.Model.strlen vs)
    /\ (forall v, In v vs -> (C15.Model.strlen v <= z)%Z).
Proof.
  intros Hne Hval. destruct (maxlen_is_max_of_lengths vs Hne) as (z & Hr & Hin & Hmax).
  assert (Hv : forall v, In v vs -> utf8_len v = C15.Model.strlen v)
    by (intros v Hv; apply utf8_len_is_rune_count; rewrite forallb_forall in Hval; now apply Hval).
  exists z. split; [exact Hr|]. split.
  - apply in_map_iff in Hin. destruct Hin as (w & <- & Hw). rewrite (Hv w Hw). now apply in_map.
  - intros v Hin'. rewrite <- (Hv v Hin'). now apply Hmax.
Qed.

(* ---------------------------------------------------------------- the premises are satisfiable (non-trivial inputs) *)
Definition ex_vs : list val := [B "4"; B "x"; B "5"; B ""; B "9.5"; B "10"; B "11"].
Definition ex_same : list val := [B "3"; B "x"; B "3"; B "3.0"].
Definition ex_strs : list val := [bs [104; 195; 169; 108; 108; 111]%N; B "ab"; bs [226; 130; 172]%N; B "wxyz"].

(* five numeric values (a non-numeric and an empty one are skipped), not all equal *)
Example moments_hyp_sat : (2 <= List.length (qs_of ex_vs))%nat /\ ~ central 2 (qs_of ex_vs) == 0.
Proof. split; [vm_compute; lia|]. vm_compute. discriminate. Qed.
Example moments_hyp_sat_values :
  match run_acc false ASkewness ex_vs with OPow15 nu de => Qeq_bool nu (-8112 # 1000) && Qeq_bool de (1005 # 100) | _ => false end = true
  /\ match run_acc false AKurtosis ex_vs with
     | OFlt q => Qeq_bool q (-5363261718750000000000000000000 # 3156328125000000000000000000000) | _ => false end = true.
Proof. split; vm_compute; reflexivity. Qed.
(* three equal numeric values written differently: NaN *)
Example moments_nan_hyp_sat : (2 <= List.length (qs_of ex_same))%nat /\ central 2 (qs_of ex_same) == 0
  /\ run_acc false ASkewness ex_same = ONan /\ run_acc false AKurtosis ex_same = ONan.
Proof. split; [vm_compute; lia|]. split; [vm_compute; reflexivity|]. split; vm_compute; reflexivity. Qed.
Example moments_too_few_sat : (List.length (qs_of [B "x"; B "7"; B ""]) < 2)%nat
  /\ run_acc false ASkewness [B "x"; B "7"; B ""] = OVoid /\ run_acc false AKurtosis [B "x"; B "7"; B ""] = OVoid.
Proof. split; [vm_compute; lia|]. split; vm_compute; reflexivity. Qed.

Example mad_hyp_sat : qs_of ex_vs <> []
  /\ match run_acc false AMad ex_vs with OFlt q => Qeq_bool q (272 # 100) | _ => false end = true.
Proof. split; [vm_compute; discriminate|vm_compute; reflexivity]. Qed.
Example mad_empty_sat : qs_of [B "x"; B ""] = [] /\ [B "x"; B ""] <> [].
Proof. split; [vm_compute; reflexivity|discriminate]. Qed.

Example count_examples : run_acc false ACount ex_vs = OInt 7 /\ run_acc false ANullCount ex_vs = OInt 1
  /\ run_acc false ANullCount ex_same = OInt 0.
Proof. repeat split; vm_compute; reflexivity. Qed.

(* "héllo" (6 bytes, 5 characters), "ab", the euro sign (3 bytes, 1 character), "wxyz" *)
Example lens_hyp_sat : ex_strs <> [] /\ forallb C15.Model.valid_utf8 ex_strs = true
  /\ map utf8_len ex_strs = [5; 2; 1; 4]%Z
  /\ run_acc false AMinLen ex_strs = OInt 1 /\ run_acc false AMaxLen ex_strs = OInt 5.
Proof. split; [discriminate|]. repeat split; vm_compute; reflexivity. Qed.
Example utf8_valid_hyp_sat : C15.Model.valid_utf8 (bs [104; 195; 169; 108; 108; 111]%N) = true
  /\ forallb (fun c => (code c <? 128)%N) (bs [104; 195; 169; 108; 108; 111]%N) = false
  /\ forallb (fun c => (code c <? 128)%N) (B "wxyz") = true.
Proof. repeat split; vm_compute; reflexivity. Qed.
(* the well-formedness premise of utf8_len_is_rune_count is needed: a stray continuation byte is one character
   for Go's decoder and none for utf8_len *)
Example utf8_len_differs_on_ill_formed :
  C15.Model.valid_utf8 (bs [128]%N) = false /\ utf8_len (bs [128]%N) = 0%Z /\ C15.Model.strlen (bs [128]%N) = 1%Z.
Proof. repeat split; vm_compute; reflexivity. Qed.

Print Assumptions skewness_stream_eq_def.
Print Assumptions kurtosis_stream_eq_def.
Print Assumptions central2_zero_iff_all_equal.
Print Assumptions count_is_number_of_values.
Print Assumptions null_count_is_number_of_empty_values.
Print Assumptions mad_equals_definition.
Print Assumptions mad_empty.
Print Assumptions minlen_is_min_of_lengths.
Print Assumptions maxlen_is_max_of_lengths.
Print Assumptions utf8_len_is_rune_count.
Print Assumptions utf8_len_ascii.
Print Assumptions minlen_is_min_rune_count.
Print Assumptions maxlen_is_max_rune_count.
