(* C10 proofs, part 11: merge-fields (-f, -r, -c) and fill-down: the accumulators of merge-fields are fed exactly the
   non-empty values of the selected fields of ONE record (per short name with -c), in order; fill-down writes the value
   of the last earlier record in which the field was present. *)
From Miller Require Import C10.Model C10.Verbs C10.Verbs2 C10.Spec C10.ProofsGroup C10.ProofsPctl C10.ProofsAcc C10.Proofs C10.ProofsFrac C10.ProofsCells C10.ProofsCells2.
From Coq Require Import Lia.
Open Scope char_scope.

(* ---------------------------------------------------------------- small facts *)
Lemma map_id_triple (m : omap (accname * accst)) :
  map (fun e : bytes * (accname * accst) => (fst e, (fst (snd e), snd (snd e)))) m = m.
Proof. induction m as [|[k [a s]] m IH]; cbn [map fst snd]; [reflexivity|now rewrite IH]. Qed.

Lemma fold_left_map {A B C} (f : A -> C -> A) (g : B -> C) l : forall a,
  fold_left f (map g l) a = fold_left (fun a x => f a (g x)) l a.
Proof. induction l as [|x l IH]; intros a; cbn [map fold_left]; [reflexivity|apply IH]. Qed.

Lemma fold_left_flat_map {A B C} (f : A -> C -> A) (g : B -> list C) l : forall a,
  fold_left f (flat_map g l) a = fold_left (fun a x => fold_left f (g x) a) l a.
Proof. induction l as [|x l IH]; intros a; cbn [flat_map fold_left]; [reflexivity|]. rewrite fold_left_app. apply IH. Qed.

Lemma in_oput {V} k (v : V) m e : In e (oput k v m) -> e = (k, v) \/ In e m.
Proof.
  induction m as [|[k' v'] m IH]; cbn [oput].
  - intros [H|[]]. left. now symmetry.
  - destruct (beqb_spec k k') as [->|Hne]; cbn [In].
    + intros [H|H]; [left; now symmetry|right; now right].
    + intros [H|H]; [right; now left|]. destruct (IH H) as [H1|H1]; [now left|right; now right].
Qed.

Definition nonvoid (v : val) : bool := negb (is_void v).

(* ================================================================== M1: the accumulators see exactly the fed values *)
Theorem mf_feed_all vs : forall m : omap (accname * accst),
  fold_left (fun m v => mf_feed v m) vs m
  = map (fun e => (fst e, (fst (snd e), fold_left (ingest (fst (snd e))) vs (snd (snd e))))) m.
Proof.
  induction vs as [|v vs IH]; intros m; cbn [fold_left].
  - symmetry. apply map_id_triple.
  - rewrite IH. unfold mf_feed. rewrite map_map. apply map_ext. intros [k [a s]]. reflexivity.
Qed.

Lemma mf_accs_st0 accs e : In e (mf_accs accs) -> snd (snd e) = st0.
Proof.
  unfold mf_accs.
  assert (G : forall m : omap (accname * accst), (forall e, In e m -> snd (snd e) = st0) ->
              forall e, In e (fold_left (fun m a => oput (req_text a) (fst a, st0) m) accs m) -> snd (snd e) = st0).
  { induction accs as [|a accs IH]; intros m Hm e0 He; cbn [fold_left] in He; [now apply Hm|].
    apply (IH (oput (req_text a) (fst a, st0) m)); [|exact He].
    intros e1 H1. apply in_oput in H1 as [->|H1]; [reflexivity|now apply Hm]. }
  apply G. intros e0 [].
Qed.

(* with distinct request texts the accumulator map lists the requests in order *)
Lemma mf_accs_nodup accs : NoDup (map req_text accs) ->
  mf_accs accs = map (fun a => (req_text a, (fst a, st0))) accs.
Proof.
  unfold mf_accs.
  assert (G : forall m : omap (accname * accst), NoDup (map req_text accs) ->
              (forall a, In a accs -> mem (req_text a) (okeys m) = false) ->
              fold_left (fun m a => oput (req_text a) (fst a, st0) m) accs m
              = m ++ map (fun a => (req_text a, (fst a, st0))) accs).
  { induction accs as [|a accs IH]; intros m Hnd Hm; cbn [fold_left map]; [now rewrite app_nil_r|].
    inversion Hnd as [|? ? Hni Hnd']; subst.
    rewrite oput_notin by (apply Hm; now left). rewrite IH; [now rewrite <- app_assoc|exact Hnd'|].
    intros a' Ha'. unfold okeys. rewrite map_app. fold (@okeys (accname * accst) m). rewrite mem_app.
    rewrite Hm by (now right). cbn. rewrite orb_false_r. apply beqb_neq. intros E. apply Hni. rewrite <- E.
    now apply in_map. }
  intros Hnd. rewrite G; [reflexivity|exact Hnd|reflexivity].
Qed.

Theorem mf_emit_run interp base accs vs o :
  mf_emit interp base (fold_left (fun m v => mf_feed v m) vs (mf_accs accs)) o
  = fold_left (fun o e => oput (base ++ "_" :: fst e)%list (run_acc interp (fst (snd e)) vs) o) (mf_accs accs) o.
Proof.
  rewrite mf_feed_all. unfold mf_emit. rewrite fold_left_map. apply fold_left_ext_in. intros e He o'.
  cbn [fst snd]. unfold run_acc. now rewrite (mf_accs_st0 accs e He).
Qed.

(* the same with the requests themselves, when their texts are distinct *)
Corollary mf_emit_run_reqs interp base accs vs o : NoDup (map req_text accs) ->
  mf_emit interp base (fold_left (fun m v => mf_feed v m) vs (mf_accs accs)) o
  = fold_left (fun o a => oput (base ++ "_" :: req_text a)%list (run_acc interp (fst a) vs) o) accs o.
Proof. intros Hnd. rewrite mf_emit_run, mf_accs_nodup by exact Hnd. now rewrite fold_left_map. Qed.

Example mf_emit_run_reqs_sat : NoDup (map req_text [(ASum, []); (ACount, []); (APctl 50, B "p50")]).
Proof. apply nodupb_NoDup. vm_compute. reflexivity. Qed.

(* ================================================================== M2: merge-fields -r *)
Definition mf_matched (subs : list bytes) (kv : field) : bool :=
  match first_match subs (fst kv) with Some _ => true | None => false end.

Lemma mf_subs_fold (keep : bool) subs l : forall (m : omap (accname * accst)) (o : orec),
  fold_left (fun (acc : omap (accname * accst) * orec) (kv : field) =>
               let '(m, o) := acc in
               match first_match subs (fst kv) with
               | None => acc
               | Some _ => (if is_void (snd kv) then m else mf_feed (snd kv) m, if keep then o else orec_remove (fst kv) o)
               end) l (m, o)
  = (fold_left (fun m v => mf_feed v m) (filter nonvoid (map snd (filter (mf_matched subs) l))) m,
     if keep then o else fold_left (fun o kv => orec_remove (fst kv) o) (filter (mf_matched subs) l) o).
Proof.
  induction l as [|kv l IH]; intros m o; cbn [fold_left filter map]; [now destruct keep|].
  destruct (first_match subs (fst kv)) as [s|] eqn:E.
  - assert (Hm : mf_matched subs kv = true) by (unfold mf_matched; now rewrite E).
    rewrite Hm, IH. cbn [map filter fold_left]. unfold nonvoid at 2.
    destruct (is_void (snd kv)); cbn [negb fold_left]; destruct keep; reflexivity.
  - assert (Hm : mf_matched subs kv = false) by (unfold mf_matched; now rewrite E).
    rewrite Hm. apply IH.
Qed.

(* the values merged from one record: the non-empty values of exactly the fields whose name contains one of the
   substrings, in record order *)
Definition mf_subs_values (subs : list bytes) (r : record) : list val :=
  filter (fun v => negb (is_void v)) (map snd (filter (mf_matched subs) r)).
Definition mf_subs_rest (keep : bool) (subs : list bytes) (r : record) : orec :=
  if keep then otext_rec r
  else fold_left (fun o kv => orec_remove (fst kv) o) (filter (mf_matched subs) r) (otext_rec r).

Theorem merge_fields_subs_fed interp keep accs subs base r :
  verb_merge_fields_one interp keep accs (MFSubs subs) base r
  = mf_emit interp base (fold_left (fun m v => mf_feed v m) (mf_subs_values subs r) (mf_accs accs)) (mf_subs_rest keep subs r).
Proof. unfold verb_merge_fields_one. rewrite mf_subs_fold. reflexivity. Qed.

Theorem merge_fields_subs interp keep accs subs base r :
  verb_merge_fields_one interp keep accs (MFSubs subs) base r
  = fold_left (fun o e => oput (base ++ "_" :: fst e)%list (run_acc interp (fst (snd e)) (mf_subs_values subs r)) o)
              (mf_accs accs) (mf_subs_rest keep subs r).
Proof. rewrite merge_fields_subs_fed. apply mf_emit_run. Qed.

(* ================================================================== M4: merge-fields -c *)
(* the short name a field is collapsed under *)
Definition mf_ckey (subs : list bytes) (kv : field) : option bytes :=
  match first_match subs (fst kv) with Some s => Some (remove_first_sub s (fst kv)) | None => None end.
Definition mf_cupd (m : omap (accname * accst)) (kv : field) : omap (accname * accst) :=
  if is_void (snd kv) then m else mf_feed (snd kv) m.

Lemma mf_remove_fold (keep : bool) subs l : forall o : orec,
  fold_left (fun o kv => if mf_matched subs kv then (if keep then o else orec_remove (fst kv) o) else o) l o
  = if keep then o else fold_left (fun o kv => orec_remove (fst kv) o) (filter (mf_matched subs) l) o.
Proof.
  induction l as [|kv l IH]; intros o; cbn [fold_left filter]; [now destruct keep|].
  rewrite IH. destruct (mf_matched subs kv); destruct keep; reflexivity.
Qed.

Lemma mf_collapse_fold (keep : bool) accs subs l : forall (cm : omap (omap (accname * accst))) (o : orec),
  fold_left (fun (acc : omap (omap (accname * accst)) * orec) (kv : field) =>
               let '(cm, o) := acc in
               match first_match subs (fst kv) with
               | None => acc
               | Some s =>
                   let short := remove_first_sub s (fst kv) in
                   let m := match oget short cm with Some m => m | None => mf_accs accs end in
                   (oput short (if is_void (snd kv) then m else mf_feed (snd kv) m) cm,
                    if keep then o else orec_remove (fst kv) o)
               end) l (cm, o)
  = (fold_left (gstep (mf_ckey subs) (fun _ => mf_accs accs) mf_cupd) l cm,
     if keep then o else fold_left (fun o kv => orec_remove (fst kv) o) (filter (mf_matched subs) l) o).
Proof.
  intros cm o. rewrite <- mf_remove_fold, <- fold_left_pair. apply fold_left_ext. intros [cm' o'] kv.
  cbn [fst snd]. unfold gstep, mf_ckey, mf_matched, mf_cupd. destruct (first_match subs (fst kv)); reflexivity.
Qed.

(* the collapse map IS the grouped fold of the record's fields keyed by short name *)
Theorem merge_fields_collapse_gfold interp keep accs subs base r :
  verb_merge_fields_one interp keep accs (MFCollapse subs) base r
  = fold_left (fun o e => mf_emit interp (fst e) (snd e) o)
              (gfold (mf_ckey subs) (fun _ => mf_accs accs) mf_cupd r) (mf_subs_rest keep subs r).
Proof. unfold verb_merge_fields_one. rewrite mf_collapse_fold. reflexivity. Qed.

Lemma mf_cupd_fold ms : forall m,
  fold_left mf_cupd ms m = fold_left (fun m v => mf_feed v m) (filter nonvoid (map snd ms)) m.
Proof.
  induction ms as [|kv ms IH]; intros m; cbn [fold_left map filter]; [reflexivity|]. rewrite IH.
  unfold mf_cupd at 1, nonvoid at 2. destruct (is_void (snd kv)); reflexivity.
Qed.

(* the values collapsed under short name sh: the non-empty values of the fields with that short name, in record order *)
Definition mf_collapse_values (subs : list bytes) (sh : bytes) (r : record) : list val :=
  filter (fun v => negb (is_void v)) (map snd (members (mf_ckey subs) sh r)).

Theorem mf_collapse_get accs subs sh r :
  oget sh (gfold (mf_ckey subs) (fun _ => mf_accs accs) mf_cupd r)
  = match members (mf_ckey subs) sh r with
    | [] => None
    | _ => Some (fold_left (fun m v => mf_feed v m) (mf_collapse_values subs sh r) (mf_accs accs))
    end.
Proof.
  rewrite oget_gfold. unfold group_state, mf_collapse_values. destruct (members (mf_ckey subs) sh r) as [|kv0 rest]; [reflexivity|].
  now rewrite mf_cupd_fold.
Qed.

Theorem mf_collapse_keys accs subs r :
  okeys (gfold (mf_ckey subs) (fun _ => mf_accs accs) mf_cupd r) = first_keys (mf_ckey subs) r.
Proof. rewrite gfold_spec. apply okeys_spec_groups. Qed.

(* the whole output of -c: for every short name in order of first appearance, every accumulator run on exactly the
   non-empty values of the fields of that short name *)
Theorem merge_fields_collapse interp keep accs subs base r :
  verb_merge_fields_one interp keep accs (MFCollapse subs) base r
  = fold_left (fun o sh =>
                 fold_left (fun o e => oput (sh ++ "_" :: fst e)%list (run_acc interp (fst (snd e)) (mf_collapse_values subs sh r)) o)
                           (mf_accs accs) o)
              (first_keys (mf_ckey subs) r) (mf_subs_rest keep subs r).
Proof.
  rewrite merge_fields_collapse_gfold, gfold_spec. unfold spec_groups. rewrite fold_left_flat_map.
  apply fold_left_ext_in. intros sh Hin o.
  assert (Hne : members (mf_ckey subs) sh r <> []).
  { apply mem_In in Hin. rewrite first_keys_mem in Hin. intros E. apply members_nil_iff in E. congruence. }
  unfold entry_of, group_state, mf_collapse_values.
  destruct (members (mf_ckey subs) sh r) as [|kv0 rest]; [congruence|].
  rewrite mf_cupd_fold. cbn [fold_left fst snd]. apply mf_emit_run.
Qed.

(* ================================================================== F1: fill-down -f *)
Definition fd_present (oia : bool) (f : bytes) (r : record) : bool :=
  match get f r with Some v => if oia then true else negb (is_void v) | None => false end.
(* the value of f in the LAST record of pre in which f is present *)
Definition last_present (oia : bool) (f : bytes) (pre : list record) : option bytes :=
  match find (fd_present oia f) (rev pre) with Some r => get f r | None => None end.

Lemma last_present_snoc oia f pre r :
  last_present oia f (pre ++ [r]) = if fd_present oia f r then get f r else last_present oia f pre.
Proof. unfold last_present. rewrite rev_app_distr. cbn [rev app find]. destruct (fd_present oia f r); reflexivity. Qed.

(* the record r arriving after pre: every listed field that is not present is set to its last present value, if any *)
Definition spec_fill_rec (oia : bool) (fs : list bytes) (pre : list record) (r : record) : record :=
  fold_left (fun r' f => if fd_present oia f r then r'
                         else match last_present oia f pre with Some p => put f p r' | None => r' end) fs r.
Fixpoint spec_fill_down_from (oia : bool) (fs : list bytes) (pre rest : list record) : list orec :=
  match rest with
  | [] => []
  | r :: t => otext_rec (spec_fill_rec oia fs pre r) :: spec_fill_down_from oia fs (pre ++ [r]) t
  end.

(* the per-field step of fd_step, named *)
Definition fd_inner_fn (only_if_absent : bool) (acc : omap bytes * record) (f : bytes) : omap bytes * record :=
  let '(last, r) := acc in
  let present := match get f r with
                 | Some v => if only_if_absent then true else negb (is_void v)
                 | None => false end in
  if present then (match get f r with Some v => oput f v last | None => last end, r)
  else match oget f last with Some p => (last, put f p r) | None => (last, r) end.
Definition fd_last_step (oia : bool) (r : record) (last : omap bytes) (f : bytes) : omap bytes :=
  if fd_present oia f r then match get f r with Some v => oput f v last | None => last end else last.
Definition fd_rec_step (oia : bool) (r : record) (last : omap bytes) (r' : record) (f : bytes) : record :=
  if fd_present oia f r then r' else match oget f last with Some p => put f p r' | None => r' end.

Lemma fd_step_names all oia fs last out r :
  fd_step all oia fs (last, out) r
  = let '(last', r') := fold_left (fd_inner_fn oia) (if all then keys r else fs) (last, r) in (last', out ++ [otext_rec r']).
Proof. reflexivity. Qed.

Lemma fd_inner_step oia last r f :
  fd_inner_fn oia (last, r) f = (fd_last_step oia r last f, fd_rec_step oia r last r f).
Proof.
  unfold fd_inner_fn, fd_last_step, fd_rec_step, fd_present.
  destruct (get f r) as [v|]; [destruct oia; [reflexivity|destruct (is_void v); cbn [negb]; [|reflexivity]]|];
    destruct (oget f last); reflexivity.
Qed.

Lemma get_fd_rec_step oia r last r' f0 f : f0 <> f -> get f (fd_rec_step oia r last r' f0) = get f r'.
Proof.
  intros Hne. unfold fd_rec_step. destruct (fd_present oia f0 r); [reflexivity|].
  destruct (oget f0 last); [now apply get_put_other|reflexivity].
Qed.
Lemma oget_fd_last_step oia r last f0 f : f0 <> f -> oget f (fd_last_step oia r last f0) = oget f last.
Proof.
  intros Hne. unfold fd_last_step. destruct (fd_present oia f0 r); [|reflexivity].
  destruct (get f0 r); [|reflexivity]. rewrite oget_oput.
  destruct (beqb_spec f f0); [congruence|reflexivity].
Qed.

Lemma fd_inner oia fs : NoDup fs -> forall last r,
  fold_left (fd_inner_fn oia) fs (last, r)
  = (fold_left (fd_last_step oia r) fs last, fold_left (fd_rec_step oia r last) fs r).
Proof.
  induction fs as [|f0 fs IH]; intros Hnd last r; cbn [fold_left]; [reflexivity|].
  inversion Hnd as [|? ? Hni Hnd']; subst. rewrite fd_inner_step, IH by exact Hnd'.
  assert (Hg : forall f, In f fs -> get f (fd_rec_step oia r last r f0) = get f r).
  { intros f Hf. apply get_fd_rec_step. intros ->. contradiction. }
  assert (Ho : forall f, In f fs -> oget f (fd_last_step oia r last f0) = oget f last).
  { intros f Hf. apply oget_fd_last_step. intros ->. contradiction. }
  set (r1 := fd_rec_step oia r last r f0) in *. set (last1 := fd_last_step oia r last f0) in *.
  apply f_equal2; apply fold_left_ext_in; intros f Hf a.
  - unfold fd_last_step, fd_present. now rewrite (Hg f Hf).
  - unfold fd_rec_step, fd_present. now rewrite (Hg f Hf), (Ho f Hf).
Qed.

Lemma fd_last_get oia fs r : NoDup fs -> forall last f, In f fs ->
  oget f (fold_left (fd_last_step oia r) fs last) = if fd_present oia f r then get f r else oget f last.
Proof.
  intros Hnd last f Hin.
  rewrite (fold_left_ext (fd_last_step oia r) (ostep (fun f _ => if fd_present oia f r then get f r else None))).
  - rewrite fold_oput_get by exact Hnd. apply mem_In in Hin. rewrite Hin.
    unfold fd_present. destruct (get f r) as [v|]; [|reflexivity].
    destruct oia; [reflexivity|]. destruct (is_void v); reflexivity.
  - intros m f1. unfold fd_last_step, ostep, fd_present. destruct (get f1 r) as [v|]; [|reflexivity].
    destruct oia; [reflexivity|]. destruct (is_void v); reflexivity.
Qed.

Lemma fd_outer oia fs : NoDup fs -> forall rest pre last out,
  (forall f, In f fs -> oget f last = last_present oia f pre) ->
  snd (fold_left (fd_step false oia fs) rest (last, out)) = out ++ spec_fill_down_from oia fs pre rest.
Proof.
  intros Hnd. induction rest as [|r rest IH]; intros pre last out Hinv; cbn [fold_left spec_fill_down_from snd];
    [now rewrite app_nil_r|].
  rewrite fd_step_names, fd_inner by exact Hnd.
  rewrite (IH (pre ++ [r])).
  - rewrite <- app_assoc. cbn [app]. do 3 f_equal. unfold spec_fill_rec. apply fold_left_ext_in. intros f Hf a.
    unfold fd_rec_step. now rewrite (Hinv f Hf).
  - intros f Hf. rewrite fd_last_get, last_present_snoc by assumption. now rewrite (Hinv f Hf).
Qed.

Theorem fill_down_equals_definition oia fs rs : NoDup fs ->
  verb_fill_down false oia fs rs = spec_fill_down_from oia fs [] rs.
Proof.
  intros Hnd. unfold verb_fill_down. apply (fd_outer oia fs Hnd rs [] [] []).
  intros f Hf. reflexivity.
Qed.

(* the i-th output record, stated by position *)
Lemma spec_fill_down_nth oia fs rest : forall pre i r,
  nth_error rest i = Some r ->
  nth_error (spec_fill_down_from oia fs pre rest) i = Some (otext_rec (spec_fill_rec oia fs (pre ++ firstn i rest) r)).
Proof.
  induction rest as [|r0 rest IH]; intros pre i r H; [destruct i; discriminate|].
  destruct i as [|i]; cbn [nth_error spec_fill_down_from firstn] in *.
  - injection H as ->. now rewrite app_nil_r.
  - rewrite (IH (pre ++ [r0]) i r H), <- app_assoc. reflexivity.
Qed.

Theorem fill_down_nth oia fs rs i r : NoDup fs -> nth_error rs i = Some r ->
  nth_error (verb_fill_down false oia fs rs) i = Some (otext_rec (spec_fill_rec oia fs (firstn i rs) r)).
Proof. intros Hnd H. rewrite fill_down_equals_definition by exact Hnd. now rewrite (spec_fill_down_nth oia fs rs [] i r H). Qed.

Example fill_down_sat :
  NoDup [B "a"; B "b"] /\
  verb_fill_down false false [B "a"; B "b"] [[(B "a", B "1"); (B "b", B "x")]; [(B "a", B ""); (B "c", B "3")]; [(B "c", B "4")]]
  = [[(B "a", OText (B "1")); (B "b", OText (B "x"))];
     [(B "a", OText (B "1")); (B "c", OText (B "3")); (B "b", OText (B "x"))];
     [(B "c", OText (B "4")); (B "a", OText (B "1")); (B "b", OText (B "x"))]].
Proof. split; [apply nodupb_NoDup; vm_compute; reflexivity|vm_compute; reflexivity]. Qed.

(* ================================================================== F2: fill-down --all *)
Lemma get_in_keys f r : In f (keys r) -> get f r <> None.
Proof.
  induction r as [|[k v] r IH]; cbn [keys map fst In get]; [tauto|].
  intros [->|H]; [rewrite beqb_refl; discriminate|]. destruct (beqb f k); [discriminate|now apply IH].
Qed.

Lemma fd_inner_all_present r names : forall last,
  (forall f, In f names -> get f r <> None) -> snd (fold_left (fd_inner_fn true) names (last, r)) = r.
Proof.
  induction names as [|f0 names IH]; intros last H; cbn [fold_left]; [reflexivity|].
  rewrite fd_inner_step.
  assert (E : fd_rec_step true r last r f0 = r).
  { unfold fd_rec_step, fd_present. destruct (get f0 r) eqn:G; [reflexivity|]. exfalso. apply (H f0); [now left|exact G]. }
  rewrite E. apply IH. intros f Hf. apply H. now right.
Qed.

(* all = true, only_if_absent = true: every field of the record's own key list is present (it has the key): records pass
   through unchanged *)
Theorem fill_down_all_absent_identity fs rs : verb_fill_down true true fs rs = map otext_rec rs.
Proof.
  unfold verb_fill_down.
  assert (G : forall rest last out, snd (fold_left (fd_step true true fs) rest (last, out)) = out ++ map otext_rec rest).
  { induction rest as [|r rest IH]; intros last out; cbn [fold_left map snd]; [now rewrite app_nil_r|].
    rewrite fd_step_names.
    pose proof (fd_inner_all_present r (keys r) last (fun f Hf => get_in_keys f r Hf)) as E.
    destruct (fold_left (fd_inner_fn true) (keys r) (last, r)) as [last' r'] eqn:F. cbn [snd] in E. subst r'.
    rewrite IH, <- app_assoc. reflexivity. }
  apply (G rs [] []).
Qed.

(* all = true, either only_if_absent, records with distinct keys (wf_record: always so for records read by Miller): the
   field list is the record's own key list; whether the statement survives duplicate keys was not examined *)
Fixpoint spec_fill_all_from (oia : bool) (pre rest : list record) : list orec :=
  match rest with
  | [] => []
  | r :: t => otext_rec (spec_fill_rec oia (keys r) pre r) :: spec_fill_all_from oia (pre ++ [r]) t
  end.

Lemma get_notin_keys f r : mem f (keys r) = false -> get f r = None.
Proof.
  induction r as [|[k v] r IH]; cbn [keys map fst get]; [reflexivity|].
  change (mem f (k :: map fst r)) with (beqb f k || mem f (keys r)). destruct (beqb f k); cbn [orb]; [discriminate|exact IH].
Qed.

Lemma fd_last_get_any oia fs r : NoDup fs -> forall last f,
  oget f (fold_left (fd_last_step oia r) fs last)
  = if mem f fs then (if fd_present oia f r then get f r else oget f last) else oget f last.
Proof.
  intros Hnd last f.
  rewrite (fold_left_ext (fd_last_step oia r) (ostep (fun f _ => if fd_present oia f r then get f r else None))).
  - rewrite fold_oput_get by exact Hnd. destruct (mem f fs); [|reflexivity].
    unfold fd_present. destruct (get f r) as [v|]; [|reflexivity].
    destruct oia; [reflexivity|]. destruct (is_void v); reflexivity.
  - intros m f1. unfold fd_last_step, ostep, fd_present. destruct (get f1 r) as [v|]; [|reflexivity].
    destruct oia; [reflexivity|]. destruct (is_void v); reflexivity.
Qed.

Lemma fd_outer_all oia fs : forall rest pre last out,
  forallb wf_record rest = true ->
  (forall f, oget f last = last_present oia f pre) ->
  snd (fold_left (fd_step true oia fs) rest (last, out)) = out ++ spec_fill_all_from oia pre rest.
Proof.
  induction rest as [|r rest IH]; intros pre last out Hwf Hinv; cbn [fold_left spec_fill_all_from snd];
    [now rewrite app_nil_r|].
  cbn [forallb] in Hwf. apply andb_true_iff in Hwf as [Hr Hrest]. apply nodupb_NoDup in Hr.
  rewrite fd_step_names, fd_inner by exact Hr.
  rewrite (IH (pre ++ [r])).
  - rewrite <- app_assoc. cbn [app]. do 3 f_equal. unfold spec_fill_rec. apply fold_left_ext_in. intros f Hf a.
    unfold fd_rec_step. now rewrite (Hinv f).
  - exact Hrest.
  - intros f. rewrite fd_last_get_any, last_present_snoc, Hinv by exact Hr.
    destruct (mem f (keys r)) eqn:M; [reflexivity|].
    unfold fd_present. now rewrite (get_notin_keys f r M).
Qed.

Theorem fill_down_all_equals_definition oia fs rs : forallb wf_record rs = true ->
  verb_fill_down true oia fs rs = spec_fill_all_from oia [] rs.
Proof.
  intros Hwf. unfold verb_fill_down. apply (fd_outer_all oia fs rs [] [] [] Hwf). intros f. reflexivity.
Qed.

Example fill_down_all_sat :
  forallb wf_record [[(B "a", B "1"); (B "b", B "x")]; [(B "a", B ""); (B "c", B "3")]; [(B "b", B ""); (B "a", B "")]] = true /\
  verb_fill_down true false [] [[(B "a", B "1"); (B "b", B "x")]; [(B "a", B ""); (B "c", B "3")]; [(B "b", B ""); (B "a", B "")]]
  = [[(B "a", OText (B "1")); (B "b", OText (B "x"))];
     [(B "a", OText (B "1")); (B "c", OText (B "3"))];
     [(B "b", OText (B "x")); (B "a", OText (B "1"))]].
Proof. split; vm_compute; reflexivity. Qed.

(* ================================================================== M3: merge-fields -f *)
Definition mf_names_fn (keep : bool) (r : record) (acc : omap (accname * accst) * orec) (f : bytes) : omap (accname * accst) * orec :=
  let '(m, o) := acc in
  match get f r with
  | None => acc
  | Some v =>
      match oget f o with
      | None => acc
      | Some _ => (if is_void v then m else mf_feed v m, if keep then o else orec_remove f o)
      end
  end.

Lemma mf_names_unfold interp keep accs fs base r :
  verb_merge_fields_one interp keep accs (MFNames fs) base r
  = let '(m, o) := fold_left (mf_names_fn keep r) fs (mf_accs accs, otext_rec r) in mf_emit interp base m o.
Proof. reflexivity. Qed.

Lemma mf_names_step keep r m o f :
  mf_names_fn keep r (m, o) f
  = match get f r with
    | None => (m, o)
    | Some v => match oget f o with
                | None => (m, o)
                | Some _ => (if is_void v then m else mf_feed v m, if keep then o else orec_remove f o)
                end
    end.
Proof. reflexivity. Qed.

Lemma oget_otext_rec f r : oget f (otext_rec r) = option_map OText (get f r).
Proof.
  induction r as [|[k v] r IH]; cbn [otext_rec map oget get fst snd option_map]; [reflexivity|].
  destruct (beqb f k); [reflexivity|exact IH].
Qed.

Lemma oget_orec_remove_other g f (o : orec) : g <> f -> oget f (orec_remove g o) = oget f o.
Proof.
  intros Hne. induction o as [|[k v] o IH]; cbn [orec_remove oget]; [reflexivity|].
  destruct (beqb_spec g k) as [->|Hgk]; cbn [oget].
  - destruct (beqb_spec f k); [congruence|reflexivity].
  - destruct (beqb f k); [reflexivity|exact IH].
Qed.

(* the values merged from one record: the non-empty values of the listed fields the record carries, in the order of fs *)
Definition mf_names_values (fs : list bytes) (r : record) : list val :=
  filter (fun v => negb (is_void v)) (flat_map (fun f => match get f r with Some v => [v] | None => [] end) fs).
Definition mf_names_rest (keep : bool) (fs : list bytes) (r : record) : orec :=
  if keep then otext_rec r else fold_left (fun o f => orec_remove f o) (filter (fun f => has f r) fs) (otext_rec r).

Lemma mf_names_fold_keep r (o : orec) fs : (forall f, get f r <> None -> oget f o <> None) -> forall m,
  fold_left (mf_names_fn true r) fs (m, o)
  = (fold_left (fun m v => mf_feed v m) (filter nonvoid (flat_map (fun f => match get f r with Some v => [v] | None => [] end) fs)) m, o).
Proof.
  intros Ho. induction fs as [|f0 fs IH]; intros m; cbn [fold_left flat_map filter]; [reflexivity|].
  rewrite mf_names_step. destruct (get f0 r) as [v|] eqn:G; [|apply IH].
  destruct (oget f0 o) eqn:O; [|exfalso; apply (Ho f0); [congruence|exact O]].
  rewrite IH. cbn [app filter]. unfold nonvoid at 2. destruct (is_void v); reflexivity.
Qed.

Lemma mf_names_fold_remove r fs : NoDup fs -> forall m (o : orec),
  (forall f, In f fs -> get f r <> None -> oget f o <> None) ->
  fold_left (mf_names_fn false r) fs (m, o)
  = (fold_left (fun m v => mf_feed v m) (filter nonvoid (flat_map (fun f => match get f r with Some v => [v] | None => [] end) fs)) m,
     fold_left (fun o f => orec_remove f o) (filter (fun f => has f r) fs) o).
Proof.
  induction fs as [|f0 fs IH]; intros Hnd m o Ho; cbn [fold_left flat_map filter]; [reflexivity|].
  inversion Hnd as [|? ? Hni Hnd']; subst.
  rewrite mf_names_step. unfold has at 1. destruct (get f0 r) as [v|] eqn:G.
  - destruct (oget f0 o) eqn:O; [|exfalso; apply (Ho f0); [now left|congruence|exact O]].
    rewrite IH; [|exact Hnd'|].
    + cbn [app filter fold_left]. unfold nonvoid at 2. destruct (is_void v); reflexivity.
    + intros f Hf Hg. rewrite oget_orec_remove_other by (intros ->; contradiction). apply Ho; [now right|exact Hg].
  - apply IH; [exact Hnd'|]. intros f Hf Hg. apply Ho; [now right|exact Hg].
Qed.

Theorem merge_fields_names_fed interp keep accs fs base r : keep = true \/ NoDup fs ->
  verb_merge_fields_one interp keep accs (MFNames fs) base r
  = mf_emit interp base (fold_left (fun m v => mf_feed v m) (mf_names_values fs r) (mf_accs accs)) (mf_names_rest keep fs r).
Proof.
  intros H. rewrite mf_names_unfold.
  assert (Ho : forall f, get f r <> None -> oget f (otext_rec r) <> None).
  { intros f Hg. rewrite oget_otext_rec. destruct (get f r); [discriminate|congruence]. }
  destruct keep.
  - rewrite mf_names_fold_keep by exact Ho. reflexivity.
  - destruct H as [H|H]; [discriminate|]. rewrite mf_names_fold_remove; [reflexivity|exact H|].
    intros f _. apply Ho.
Qed.

Theorem merge_fields_names interp keep accs fs base r : keep = true \/ NoDup fs ->
  verb_merge_fields_one interp keep accs (MFNames fs) base r
  = fold_left (fun o e => oput (base ++ "_" :: fst e)%list (run_acc interp (fst (snd e)) (mf_names_values fs r)) o)
              (mf_accs accs) (mf_names_rest keep fs r).
Proof. intros H. rewrite merge_fields_names_fed by exact H. apply mf_emit_run. Qed.

Example merge_fields_names_sat :
  (false = true \/ NoDup [B "x"; B "y"]) /\
  verb_merge_fields_one false false [(ASum, []); (ACount, [])] (MFNames [B "x"; B "y"]) (B "out")
                        [(B "x", B "1"); (B "z", B "7"); (B "y", B "2")]
  = [(B "z", OText (B "7")); (B "out_sum", OInt 3); (B "out_count", OInt 2)].
Proof. split; [right; apply nodupb_NoDup; vm_compute; reflexivity|vm_compute; reflexivity]. Qed.

(* a name listed twice: with -k it is read twice (the formula above says so too: no NoDup needed) ... *)
Example merge_fields_names_dup_keep :
  verb_merge_fields_one false true [(ASum, [])] (MFNames [B "x"; B "x"]) (B "out") [(B "x", B "1")]
  = [(B "x", OText (B "1")); (B "out_sum", OInt 2)].
Proof. vm_compute. reflexivity. Qed.
(* ... without -k it is gone the second time: the statement is false without NoDup fs *)
Example merge_fields_names_dup_refuted :
  exists fs r, verb_merge_fields_one false false [(ASum, [])] (MFNames fs) (B "out") r
               <> fold_left (fun o e => oput (B "out" ++ "_" :: fst e)%list (run_acc false (fst (snd e)) (mf_names_values fs r)) o)
                            (mf_accs [(ASum, [])]) (mf_names_rest false fs r).
Proof. exists [B "x"; B "x"], [(B "x", B "1")]. vm_compute. discriminate. Qed.

(* concrete runs of -r and -c *)
Example merge_fields_subs_run :
  verb_merge_fields_one false false [(ASum, [])] (MFSubs [B "in_"; B "out_"]) (B "bar")
                        [(B "a_in_x", B "1"); (B "k", B "v"); (B "a_out_x", B ""); (B "b_out_y", B "4")]
  = [(B "k", OText (B "v")); (B "bar_sum", OInt 5)]
  /\ mf_subs_values [B "in_"; B "out_"] [(B "a_in_x", B "1"); (B "k", B "v"); (B "a_out_x", B ""); (B "b_out_y", B "4")] = [B "1"; B "4"].
Proof. split; vm_compute; reflexivity. Qed.

Example merge_fields_collapse_run :
  verb_merge_fields_one false false [(ASum, [])] (MFCollapse [B "in_"; B "out_"]) (B "bar")
                        [(B "a_in_x", B "1"); (B "k", B "v"); (B "b_out_y", B "4"); (B "a_out_x", B "2")]
  = [(B "k", OText (B "v")); (B "a_x_sum", OInt 3); (B "b_y_sum", OInt 4)]
  /\ first_keys (mf_ckey [B "in_"; B "out_"]) [(B "a_in_x", B "1"); (B "k", B "v"); (B "b_out_y", B "4"); (B "a_out_x", B "2")] = [B "a_x"; B "b_y"]
  /\ mf_collapse_values [B "in_"; B "out_"] (B "a_x") [(B "a_in_x", B "1"); (B "k", B "v"); (B "b_out_y", B "4"); (B "a_out_x", B "2")] = [B "1"; B "2"].
Proof. repeat split; vm_compute; reflexivity. Qed.

Print Assumptions mf_feed_all.
Print Assumptions mf_emit_run.
Print Assumptions mf_emit_run_reqs.
Print Assumptions merge_fields_subs.
Print Assumptions merge_fields_names.
Print Assumptions merge_fields_collapse_gfold.
Print Assumptions mf_collapse_get.
Print Assumptions mf_collapse_keys.
Print Assumptions merge_fields_collapse.
Print Assumptions fill_down_equals_definition.
Print Assumptions fill_down_nth.
Print Assumptions fill_down_all_absent_identity.
Print Assumptions fill_down_all_equals_definition.
