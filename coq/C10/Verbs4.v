(* C10 model, part 5: stats1 as a whole (pkg/transformers/stats1.go after fix: df62dcee7 and fix: 06ddd9e93):
   - names given twice in -a / -f are kept once (NewTransformerStats1: stats1UniqueNames),
   - value fields by name (-f) or by regex (--fr, inverted --fx), group-by fields by name (-g) or by regex
     (--gr, inverted --gx): the matched field NAMES are part of the grouping key (name=value joined with ","),
   - end-of-stream output, -s (interim output with every record), -w n (sliding window).
   Regexes: the model covers the sub-language ^?literal$? (unanchored search for a literal, optionally anchored at
   either end) -- what the correspondence generator uses; Go's regexp.MatchString on those is exactly [pat_match].
   Definitions only. *)
From Miller Require Export C10.Model C10.Verbs C10.Verbs2.
Open Scope char_scope.

(* ------------------------------------------------------------------ names given twice *)
Fixpoint uniq_names (l : list bytes) : list bytes :=
  match l with [] => [] | x :: t => x :: filter (fun y => negb (beqb x y)) (uniq_names t) end.
Fixpoint uniq_accs (l : list accreq) : list accreq :=
  match l with [] => [] | a :: t => a :: filter (fun b => negb (beqb (req_text a) (req_text b))) (uniq_accs t) end.

(* ------------------------------------------------------------------ field-name patterns *)
Record pat := mkpat { p_head : bool; p_tail : bool; p_lit : bytes }.      (* ^lit$ with either anchor optional *)
Fixpoint suffixb (sub s : bytes) : bool :=
  beqb sub s || match s with [] => false | _ :: t => suffixb sub t end.
Definition pat_match (p : pat) (name : bytes) : bool :=
  match p_head p, p_tail p with
  | true, true => beqb (p_lit p) name
  | true, false => prefixb (p_lit p) name
  | false, true => suffixb (p_lit p) name
  | false, false => contains (p_lit p) name
  end.
(* matchValueFieldName / matchGroupByFieldName: some regex matches, XOR invert *)
Definition pats_match (invert : bool) (ps : list pat) (name : bytes) : bool := xorb (existsb (fun p => pat_match p name) ps) invert.

Inductive fsel := FNames (fs : list bytes) | FRegex (invert : bool) (ps : list pat).
Inductive gsel := GNames (gs : list bytes) | GRegex (invert : bool) (ps : list pat).

(* the value fields one record feeds, in feeding order: the -f list (names once), or the record's own matching names *)
Definition vfields (sel : fsel) (r : record) : list bytes :=
  match sel with
  | FNames fs => uniq_names fs
  | FRegex inv ps => filter (pats_match inv ps) (keys r)
  end.
Definition ingest_sel (accs : list accreq) (sel : fsel) (r : record) (l2 : level2) : level2 :=
  ingest_l2 (uniq_accs accs) (vfields sel r) r l2.

(* group-by (name, value) pairs of a record; None: the record lacks a -g field and is skipped *)
Definition gmatched (inv : bool) (ps : list pat) (r : record) : record := filter (fun kv => pats_match inv ps (fst kv)) r.
Definition gpairs (sel : gsel) (r : record) : option record :=
  match sel with
  | GNames gs => option_map (combine gs) (selected gs r)
  | GRegex inv ps => Some (gmatched inv ps r)
  end.
(* the grouping key: values joined by "," for -g; name=value joined by "," for --gr/--gx (fix: 06ddd9e93) *)
Definition name_eq_value (kv : bytes * bytes) : bytes := (fst kv ++ "=" :: snd kv)%list.
Definition gkey_sel (sel : gsel) (r : record) : option bytes :=
  match sel with
  | GNames gs => group_key gs r
  | GRegex inv ps => Some (join_comma (map name_eq_value (gmatched inv ps r)))
  end.
(* groupByFieldNamesForOutput: the -g names, or the union of the matched names over the records seen, first seen first *)
Definition see_names (seen : list bytes) (names : list bytes) : list bytes :=
  fold_left (fun seen k => if mem k seen then seen else seen ++ [k]) names seen.
Definition out_names_step (sel : gsel) (seen : list bytes) (r : record) : list bytes :=
  match sel with
  | GNames gs => seen
  | GRegex inv ps => see_names seen (keys (gmatched inv ps r))
  end.
Definition out_names0 (sel : gsel) : list bytes := match sel with GNames gs => gs | GRegex _ _ => [] end.
Definition out_names (sel : gsel) (rs : list record) : list bytes := fold_left (out_names_step sel) rs (out_names0 sel).
(* emitIntoOutputRecord, first loop: the output names the group has a value for *)
Definition group_out (names : list bytes) (pairs : record) : list (bytes * oval) :=
  flat_map (fun n => match get n pairs with Some v => [(n, OText v)] | None => [] end) names.

Definition dflt_pairs (o : option record) : record := match o with Some p => p | None => [] end.

(* ------------------------------------------------------------------ end-of-stream output *)
Definition stats1g_groups (accs : list accreq) (fsl : fsel) (gsl : gsel) (rs : list record) : omap (record * level2) :=
  gfold (gkey_sel gsl) (fun r => (dflt_pairs (gpairs gsl r), [])) (fun s r => (fst s, ingest_sel accs fsl r (snd s))) rs.
Definition verb_stats1g (interp : bool) (accs : list accreq) (fsl : fsel) (gsl : gsel) (rs : list record) : list orec :=
  let names := out_names gsl rs in
  map (fun e => put_all (group_out names (fst (snd e)) ++ emit_l2 interp (uniq_accs accs) (snd (snd e))) [])
      (stats1g_groups accs fsl gsl rs).

(* ------------------------------------------------------------------ -s: interim output with every contributing record *)
(* the record itself gets the group-by fields (the stored ones of the group's first member for -g; its own for
   --gr/--gx) and the statistics so far; a record lacking a -g field is dropped *)
Record s1state := mks1 { s1_groups : omap (record * level2); s1_names : list bytes; s1_out : list orec }.
Definition stats1s_step (interp : bool) (accs : list accreq) (fsl : fsel) (gsl : gsel) (st : s1state) (r : record) : s1state :=
  match gkey_sel gsl r with
  | None => st
  | Some k =>
      let names := out_names_step gsl (s1_names st) r in
      let own := dflt_pairs (gpairs gsl r) in
      let '(stored, l2) := match oget k (s1_groups st) with Some x => x | None => (own, []) end in
      let shown := match gsl with GNames _ => stored | GRegex _ _ => own end in
      let l2' := ingest_sel accs fsl r l2 in
      mks1 (oput k (stored, l2') (s1_groups st)) names
           (s1_out st ++ [put_all (group_out names shown ++ emit_l2 interp (uniq_accs accs) l2') (otext_rec r)])
  end.
Definition verb_stats1g_s (interp : bool) (accs : list accreq) (fsl : fsel) (gsl : gsel) (rs : list record) : list orec :=
  s1_out (fold_left (stats1s_step interp accs fsl gsl) rs (mks1 [] (out_names0 gsl) [])).

(* ------------------------------------------------------------------ -w n *)
Definition window_entry_sel (fsl : fsel) (r : record) : record :=
  match fsl with
  | FNames fs => window_entry (uniq_names fs) r
  | FRegex inv ps => filter (fun kv => pats_match inv ps (fst kv)) r
  end.
Record w1state := mkw1 { w1_groups : omap (record * list record * level2); w1_names : list bytes; w1_out : list orec }.
Definition stats1gw_step (interp : bool) (accs : list accreq) (fsl : fsel) (gsl : gsel) (n : nat) (st : w1state) (r : record) : w1state :=
  match gkey_sel gsl r with
  | None => st
  | Some k =>
      let names := out_names_step gsl (w1_names st) r in
      let own := dflt_pairs (gpairs gsl r) in
      let '(stored, win, l2) := match oget k (w1_groups st) with Some x => x | None => (own, [], []) end in
      let shown := match gsl with GNames _ => stored | GRegex _ _ => own end in
      let win' := (if (n <=? List.length win)%nat then tl win else win) ++ [window_entry_sel fsl r] in
      let l2' := fold_left (fun l2 e => ingest_sel accs fsl e l2) win' (reset_l2 l2) in
      mkw1 (oput k (stored, win', l2') (w1_groups st)) names
           (w1_out st ++ [put_all (group_out names shown ++ emit_l2 interp (uniq_accs accs) l2') (otext_rec r)])
  end.
Definition verb_stats1g_w (interp : bool) (accs : list accreq) (fsl : fsel) (gsl : gsel) (n : nat) (rs : list record) : list orec :=
  w1_out (fold_left (stats1gw_step interp accs fsl gsl n) rs (mkw1 [] (out_names0 gsl) [])).
