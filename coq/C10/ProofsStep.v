(* C10 proofs, part 8: step -- running accumulations and n-back steppers equal their definitions, on the cell run. *)
From Miller Require Import C10.Model C10.Verbs C10.Verbs2 C10.Spec C10.ProofsAcc C10.ProofsGroup.
From Coq Require Import Lqa Lia.
Open Scope Q_scope.

(* state after a list of events of one (group, field) cell *)
Fixpoint step_state (sp : stepper) (name f : bytes) (st : stst) (evs : list (option val)) : stst :=
  match evs with
  | [] => st
  | None :: t => step_state sp name f (sclear sp st) t
  | Some v :: t => step_state sp name f (fst (sprocess sp name f st [Some ([(f, v)], [])])) t
  end.

Lemma step_cell_app sp name f evs1 : forall st evs2,
  step_cell sp name f st (evs1 ++ evs2) = step_cell sp name f st evs1 ++ step_cell sp name f (step_state sp name f st evs1) evs2.
Proof.
  induction evs1 as [|[v|] t IH]; intros st evs2; cbn [app step_cell step_state]; [reflexivity| |].
  - destruct (sprocess sp name f st [Some ([(f, v)], [])]) as [st' win']. cbn [fst]. now rewrite IH.
  - now rewrite IH.
Qed.
Lemma step_state_app sp name f evs1 : forall st evs2,
  step_state sp name f st (evs1 ++ evs2) = step_state sp name f (step_state sp name f st evs1) evs2.
Proof. induction evs1 as [|[v|] t IH]; intros st evs2; cbn [app step_state]; auto. Qed.

Lemma get_single f v : get f [(f, v)] = Some v.
Proof. cbn [get]. now rewrite beqb_refl. Qed.
Lemma oget_single (k : bytes) (o : oval) : oget k (oput k o []) = Some o.
Proof. cbn [oput oget]. now rewrite beqb_refl. Qed.

(* ---------------------------------------------------------------- counter / rsum / rprod *)
Definition is_running (sp : stepper) : bool := match sp with SCounter | SRsum | SRprod => true | _ => false end.
Definition run_op (sp : stepper) (acc x : Q) : Q := match sp with SCounter => acc + 1 | SRsum => x + acc | _ => x * acc end.
Definition run_init (sp : stepper) : Q := match sp with SRprod => 1 | _ => 0 end.
(* the contributing values: present, non-empty, numeric *)
Definition contributing (evs : list (option val)) : list Q :=
  flat_map (fun e => match e with Some v => if is_void v then [] else match numof v with Some x => [qof x] | None => [] end | None => [] end) evs.

Lemma run_fold_compat sp xs : forall a b, a == b -> fold_left (run_op sp) xs a == fold_left (run_op sp) xs b.
Proof.
  induction xs as [|x xs IH]; intros a b H; cbn [fold_left]; [exact H|]. apply IH. destruct sp; cbn [run_op]; rewrite H; reflexivity.
Qed.

Definition cell_out (sp : stepper) (name f : bytes) (st : stst) (v : val) : option oval :=
  match snd (sprocess sp name f st [Some ([(f, v)], [])]) with Some c :: _ => oget (out_name f name) (snd c) | _ => None end.

Lemma step_cell_cons sp name f st v t :
  step_cell sp name f st (Some v :: t)
  = cell_out sp name f st v :: step_cell sp name f (fst (sprocess sp name f st [Some ([(f, v)], [])])) t.
Proof. cbn [step_cell]. unfold cell_out. destruct (sprocess sp name f st [Some ([(f, v)], [])]) as [st' win']. reflexivity. Qed.

(* one present, non-empty, numeric value: the accumulator advances by the operation and its new value is written *)
Lemma run_step sp name f st v x : is_running sp = true -> is_void v = false -> numof v = Some x ->
  let st' := fst (sprocess sp name f st [Some ([(f, v)], [])]) in
  qof (sx_acc st') == run_op sp (qof (sx_acc st)) (qof x) /\ cell_out sp name f st v = Some (oval_of_nv (sx_acc st')).
Proof.
  intros Hs Hv Hx. unfold cell_out, sprocess. cbv zeta. cbn [fst snd]. rewrite get_single, Hv, Hx.
  destruct sp; try discriminate; cbn [fst snd sx_acc set_center put_out run_op]; rewrite oget_single;
    (split; [|reflexivity]); rewrite ?qof_plus, ?qof_times; cbn [qof]; try reflexivity.
Qed.
Lemma run_step_void sp name f st v : is_running sp = true -> is_void v = true ->
  fst (sprocess sp name f st [Some ([(f, v)], [])]) = st /\ cell_out sp name f st v = Some (OText []).
Proof.
  intros Hs Hv. unfold cell_out, sprocess. cbv zeta. cbn [fst snd]. rewrite get_single, Hv.
  destruct sp; try discriminate; cbn [fst snd set_center put_out]; rewrite oget_single; split; reflexivity.
Qed.

Definition numeric_or_void (evs : list (option val)) : Prop :=
  forall v, In (Some v) evs -> is_void v = true \/ exists x, numof v = Some x.

Lemma run_state sp name f : is_running sp = true -> forall evs st, numeric_or_void evs ->
  qof (sx_acc (step_state sp name f st evs)) == fold_left (run_op sp) (contributing evs) (qof (sx_acc st)).
Proof.
  intros Hs. induction evs as [|[v|] t IH]; intros st Hd; cbn [step_state contributing flat_map]; [reflexivity| |].
  - assert (Hd' : numeric_or_void t) by (intros w Hw; apply Hd; now right).
    destruct (Hd v (or_introl eq_refl)) as [Hv|[x Hx]].
    + rewrite Hv. cbn [app]. destruct (run_step_void sp name f st v Hs Hv) as [E _]. rewrite E. now apply IH.
    + destruct (is_void v) eqn:Hv.
      * cbn [app]. destruct (run_step_void sp name f st v Hs Hv) as [E _]. rewrite E. now apply IH.
      * rewrite Hx. cbn [app fold_left]. destruct (run_step sp name f st v x Hs Hv Hx) as [E _]. rewrite IH by assumption.
        apply run_fold_compat. exact E.
  - assert (Hd' : numeric_or_void t) by (intros w Hw; apply Hd; now right).
    cbn [app]. destruct sp; try discriminate; now apply IH.
Qed.

(* THE statement for counter / rsum / rprod: after any history [pre] of the cell, a record carrying the number x gets
   the operation folded over all contributing values so far, x included (counter: their number; rsum: their sum;
   rprod: their product); an empty value gets an empty output and contributes nothing *)
Theorem running_stepper_value sp name f pre v x : is_running sp = true -> numeric_or_void pre ->
  is_void v = false -> numof v = Some x ->
  exists o q, step_cell sp name f (stst0 sp) (pre ++ [Some v]) = step_cell sp name f (stst0 sp) pre ++ [Some o]
    /\ oval_q o = Some q /\ q == fold_left (run_op sp) (contributing pre ++ [qof x]) (run_init sp).
Proof.
  intros Hs Hd Hv Hx. rewrite step_cell_app, step_cell_cons. cbn [step_cell].
  set (st := step_state sp name f (stst0 sp) pre).
  destruct (run_step sp name f st v x Hs Hv Hx) as [E1 E2]. rewrite E2.
  exists (oval_of_nv (sx_acc (fst (sprocess sp name f st [Some ([(f, v)], [])])))), (qof (sx_acc (fst (sprocess sp name f st [Some ([(f, v)], [])])))).
  split; [reflexivity|]. split; [destruct (sx_acc _); reflexivity|].
  rewrite E1. rewrite fold_left_app. cbn [fold_left]. unfold st.
  assert (E0 : qof (sx_acc (step_state sp name f (stst0 sp) pre)) == fold_left (run_op sp) (contributing pre) (run_init sp)).
  { rewrite run_state by assumption. apply run_fold_compat. destruct sp; try discriminate; reflexivity. }
  destruct sp; try discriminate; cbn [run_op]; rewrite E0; reflexivity.
Qed.
Theorem running_stepper_void sp name f pre v : is_running sp = true -> is_void v = true ->
  step_cell sp name f (stst0 sp) (pre ++ [Some v]) = step_cell sp name f (stst0 sp) pre ++ [Some (OText [])].
Proof.
  intros Hs Hv. rewrite step_cell_app, step_cell_cons. cbn [step_cell].
  destruct (run_step_void sp name f (step_state sp name f (stst0 sp) pre) v Hs Hv) as [_ E]. now rewrite E.
Qed.

(* ---------------------------------------------------------------- n-back steppers: shift_lag_n, delta_n, ratio_n *)
Definition is_nback (sp : stepper) (n : nat) : Prop := sp = SShiftLag n \/ sp = SDelta n \/ sp = SRatio n.
(* what an event leaves in the ring: shift_lag keeps the text as it is; delta / ratio keep only non-empty values *)
Definition norm (sp : stepper) (e : option val) : option val :=
  match sp, e with
  | SShiftLag _, _ => e
  | _, Some v => if is_void v then None else Some v
  | _, None => None
  end.

Lemma firstn_cons_firstn {A} n (x : A) l : (1 <= n)%nat -> firstn n (x :: firstn n l) = firstn n (x :: l).
Proof. destruct n as [|m]; [lia|]. intros _. rewrite !firstn_cons. f_equal. rewrite firstn_firstn. f_equal. lia. Qed.
Lemma nth_error_firstn_lt {A} (l : list A) : forall n i, (i < n)%nat -> nth_error (firstn n l) i = nth_error l i.
Proof.
  induction l as [|x l IH]; intros n i Hi; [now rewrite firstn_nil|].
  destruct n as [|n]; [lia|]. destruct i as [|i]; cbn [firstn nth_error]; [reflexivity|]. apply IH. lia.
Qed.

Lemma ring_step sp n name f st e : is_nback sp n ->
  sx_ring (match e with
           | Some v => fst (sprocess sp name f st [Some ([(f, v)], [])])
           | None => sclear sp st end) = firstn n (norm sp e :: sx_ring st).
Proof.
  intros [ -> | [ -> | -> ] ]; destruct e as [v|]; cbn [sclear norm sx_ring ring_push snd]; try reflexivity;
    unfold sprocess; cbv zeta; cbn [fst snd]; rewrite get_single; cbn [ring_push]; try reflexivity;
    destruct (is_void v); reflexivity.
Qed.

Lemma ring_state sp n name f : is_nback sp n -> (1 <= n)%nat -> forall evs pre st,
  sx_ring st = firstn n (rev (map (norm sp) pre)) ->
  sx_ring (step_state sp name f st evs) = firstn n (rev (map (norm sp) (pre ++ evs))).
Proof.
  intros Hs Hn. induction evs as [|e t IH]; intros pre st Hr; [now rewrite app_nil_r|].
  replace (pre ++ e :: t) with ((pre ++ [e]) ++ t) by (rewrite <- app_assoc; reflexivity).
  assert (Hstep : step_state sp name f st (e :: t) =
                  step_state sp name f (match e with Some v => fst (sprocess sp name f st [Some ([(f, v)], [])]) | None => sclear sp st end) t)
    by (destruct e; reflexivity).
  rewrite Hstep. apply IH. pose proof (ring_step sp n name f st e Hs) as Hrs. cbv beta in Hrs. etransitivity; [exact Hrs|].
  rewrite Hr, map_app, rev_app_distr. cbn [map rev app]. now apply firstn_cons_firstn.
Qed.

(* the value n events back, as the ring returns it *)
Definition nback (n : nat) (hist : list (option val)) : option val :=
  match nth_error (rev hist) (n - 1) with Some x => x | None => None end.

Lemma ring_push_back n v ring hist : (1 <= n)%nat -> ring = firstn n (rev hist) ->
  (let '(prev, has, _) := ring_push n v ring in if has then prev else None) = nback n hist.
Proof.
  intros Hn ->. unfold ring_push, nback. destruct (n <=? List.length (firstn n (rev hist)))%nat eqn:E.
  - apply Nat.leb_le in E. rewrite firstn_length in E.
    assert (Hlt : (n - 1 < List.length (rev hist))%nat) by lia.
    rewrite <- (nth_error_firstn_lt (rev hist) n (n - 1)) by lia.
    destruct (nth_error (firstn n (rev hist)) (n - 1)) eqn:N.
    + now rewrite (nth_error_nth _ _ None N).
    + apply nth_error_None in N. rewrite firstn_length in N. lia.
  - apply Nat.leb_gt in E. rewrite firstn_length in E.
    assert (N : nth_error (rev hist) (n - 1) = None) by (apply nth_error_None; lia). now rewrite N.
Qed.

(* shift_lag_n: the text of the field n records back in the group, empty when there is none or it lacked the field *)
Theorem shift_lag_value n name f pre v : (1 <= n)%nat ->
  step_cell (SShiftLag n) name f (stst0 (SShiftLag n)) (pre ++ [Some v])
  = step_cell (SShiftLag n) name f (stst0 (SShiftLag n)) pre
    ++ [Some (OText (match nback n pre with Some p => p | None => [] end))].
Proof.
  intros Hn. rewrite step_cell_app, step_cell_cons. cbn [step_cell]. f_equal. f_equal.
  set (st := step_state (SShiftLag n) name f (stst0 (SShiftLag n)) pre).
  assert (Hr : sx_ring st = firstn n (rev pre)).
  { unfold st. rewrite (ring_state (SShiftLag n) n name f (or_introl eq_refl) Hn pre [] (stst0 (SShiftLag n))); [|destruct n; reflexivity].
    cbn [app]. f_equal. f_equal. clear. induction pre as [|e t IH]; [reflexivity|]. cbn [map norm]. now rewrite IH. }
  unfold cell_out, sprocess. cbv zeta. cbn [fst snd]. rewrite get_single.
  match goal with |- context [ring_push n ?a ?r] =>
    pose proof (ring_push_back n a r pre Hn Hr) as Hb; destruct (ring_push n a r) as [[prev has] ring'] end.
  cbn [snd set_center put_out fst]. rewrite oget_single.
  rewrite <- Hb. destruct has, prev; reflexivity.
Qed.

(* delta_n / ratio_n: current value against the non-empty value n records back; 0 / 1 when there is none *)
Definition nback_num (sp : stepper) (n : nat) (pre : list (option val)) : option val := nback n (map (norm sp) pre).

Theorem delta_value n name f pre v : (1 <= n)%nat -> is_void v = false ->
  step_cell (SDelta n) name f (stst0 (SDelta n)) (pre ++ [Some v])
  = step_cell (SDelta n) name f (stst0 (SDelta n)) pre
    ++ [Some (match nback_num (SDelta n) n pre with
              | Some p => bin_num (fun x y => Some (nv_minus x y)) v p
              | None => OInt 0 end)].
Proof.
  intros Hn Hv. rewrite step_cell_app, step_cell_cons. cbn [step_cell]. f_equal. f_equal.
  set (st := step_state (SDelta n) name f (stst0 (SDelta n)) pre).
  assert (Hr : sx_ring st = firstn n (rev (map (norm (SDelta n)) pre))).
  { unfold st. rewrite (ring_state (SDelta n) n name f (or_intror (or_introl eq_refl)) Hn pre [] (stst0 (SDelta n))); [|destruct n; reflexivity].
    reflexivity. }
  unfold cell_out, sprocess. cbv zeta. cbn [fst snd]. rewrite get_single, Hv.
  match goal with |- context [ring_push n ?a ?r] =>
    pose proof (ring_push_back n a r (map (norm (SDelta n)) pre) Hn Hr) as Hb; destruct (ring_push n a r) as [[prev has] ring'] end.
  cbn [snd set_center put_out fst]. rewrite oget_single.
  unfold nback_num. rewrite <- Hb. destruct has, prev; reflexivity.
Qed.

Theorem ratio_value n name f pre v : (1 <= n)%nat -> is_void v = false ->
  step_cell (SRatio n) name f (stst0 (SRatio n)) (pre ++ [Some v])
  = step_cell (SRatio n) name f (stst0 (SRatio n)) pre
    ++ [Some (match nback_num (SRatio n) n pre with
              | Some p => bin_num nv_div v p
              | None => OInt 1 end)].
Proof.
  intros Hn Hv. rewrite step_cell_app, step_cell_cons. cbn [step_cell]. f_equal. f_equal.
  set (st := step_state (SRatio n) name f (stst0 (SRatio n)) pre).
  assert (Hr : sx_ring st = firstn n (rev (map (norm (SRatio n)) pre))).
  { unfold st. rewrite (ring_state (SRatio n) n name f (or_intror (or_intror eq_refl)) Hn pre [] (stst0 (SRatio n))); [|destruct n; reflexivity].
    reflexivity. }
  unfold cell_out, sprocess. cbv zeta. cbn [fst snd]. rewrite get_single, Hv.
  match goal with |- context [ring_push n ?a ?r] =>
    pose proof (ring_push_back n a r (map (norm (SRatio n)) pre) Hn Hr) as Hb; destruct (ring_push n a r) as [[prev has] ring'] end.
  cbn [snd set_center put_out fst]. rewrite oget_single.
  unfold nback_num. rewrite <- Hb. destruct has, prev; reflexivity.
Qed.

(* the arithmetic inside: exact difference / quotient over Q *)
Lemma qof_minus a b : qof (nv_minus a b) == qof a - qof b.
Proof.
  destruct a as [x|p], b as [y|q]; cbn [nv_minus qof]; try reflexivity.
  destruct (in64 (x - y)); cbn [qof]; [|reflexivity]. unfold Z.sub. rewrite inject_Z_plus, inject_Z_opp. reflexivity.
Qed.
Theorem delta_is_the_difference v p x y : numof v = Some x -> numof p = Some y ->
  exists q, oval_q (bin_num (fun a b => Some (nv_minus a b)) v p) = Some q /\ q == qof x - qof y.
Proof.
  intros Hx Hy. unfold bin_num. rewrite Hx, Hy. pose proof (qof_minus x y) as H.
  destruct (nv_minus x y); cbn [oval_of_nv oval_q qof] in *; eexists; (split; [reflexivity|exact H]).
Qed.

(* from-first: 0 on the first record carrying the field, afterwards current minus that first value *)
Theorem from_first_value name f v0 pre v : (forall e, In e pre -> True) ->
  exists rest, step_cell SFromFirst name f (stst0 SFromFirst) (Some v0 :: pre ++ [Some v])
             = Some (OInt 0) :: rest ++ [Some (bin_num (fun a b => Some (nv_minus a b)) v v0)].
Proof.
  intros _. rewrite step_cell_cons.
  assert (E0 : cell_out SFromFirst name f (stst0 SFromFirst) v0 = Some (OInt 0))
    by (unfold cell_out, sprocess; cbv zeta; cbn [fst snd]; rewrite get_single; cbn [stst0 sx_first snd set_center put_out fst]; now rewrite oget_single).
  rewrite E0. set (st1 := fst (sprocess SFromFirst name f (stst0 SFromFirst) [Some ([(f, v0)], [])])).
  assert (H1 : sx_first st1 = Some v0) by (unfold st1, sprocess; cbv zeta; cbn [fst snd]; rewrite get_single; reflexivity).
  assert (Hkeep : forall evs st, sx_first st = Some v0 -> sx_first (step_state SFromFirst name f st evs) = Some v0).
  { induction evs as [|[w|] t IH]; intros st Hs; cbn [step_state sclear]; [exact Hs| |now apply IH].
    apply IH. unfold sprocess. cbv zeta. cbn [fst snd]. rewrite get_single, Hs. exact Hs. }
  exists (step_cell SFromFirst name f st1 pre). f_equal. rewrite step_cell_app, step_cell_cons. cbn [step_cell]. f_equal. f_equal.
  unfold cell_out, sprocess. cbv zeta. cbn [fst snd]. rewrite get_single, (Hkeep pre st1 H1). cbn [snd set_center put_out fst].
  now rewrite oget_single.
Qed.

(* ---------------------------------------------------------------- shift_lead_n, n >= 2: short groups (fix: 1cf092ed2: the
   drain keeps shifting until the group's oldest pending record is at the window centre; before it these records were lost) *)
Lemma shift_lead_short_group_is_emitted :
  verb_step [(SShiftLead 2, B "shift_lead_2")] [B "x"] [] [[(B "x", B "1")]]
  = [[(B "x", OText (B "1")); (B "x_shift_lead_2", OText [])]]
  /\ verb_step [(SShiftLead 3, B "shift_lead_3"); (SCounter, B "counter")] [B "x"] [B "g"]
               [[(B "g", B "a"); (B "x", B "1")]; [(B "g", B "b"); (B "x", B "5")]; [(B "g", B "a"); (B "x", B "2")]]
     = [[(B "g", OText (B "a")); (B "x", OText (B "1")); (B "x_shift_lead_3", OText []); (B "x_counter", OInt 1)];
        [(B "g", OText (B "b")); (B "x", OText (B "5")); (B "x_shift_lead_3", OText []); (B "x_counter", OInt 1)];
        [(B "g", OText (B "a")); (B "x", OText (B "2")); (B "x_shift_lead_3", OText []); (B "x_counter", OInt 2)]].
Proof. vm_compute. split; reflexivity. Qed.
Lemma shift_lead_1_keeps_this_record :
  verb_step [(SShiftLead 1, B "shift_lead")] [B "x"] [] [[(B "x", B "1")]; [(B "x", B "2")]]
  = [[(B "x", OText (B "1")); (B "x_shift_lead", OText (B "2"))]; [(B "x", OText (B "2")); (B "x_shift_lead", OText [])]].
Proof. vm_compute. reflexivity. Qed.
