(* C10 proofs, part 1: the grouped streaming fold over lib.OrderedMap equals the definitional partition into groups. *)
From Miller Require Import C10.Model C10.Verbs C10.Spec.
Open Scope char_scope.

Lemma beqb_eq a b : beqb a b = true <-> a = b.
Proof. destruct (beqb_spec a b); split; congruence. Qed.
Lemma beqb_neq a b : beqb a b = false <-> a <> b.
Proof. destruct (beqb_spec a b); split; congruence. Qed.
Lemma beqb_sym a b : beqb a b = beqb b a.
Proof. destruct (beqb_spec a b), (beqb_spec b a); congruence. Qed.

Lemma mem_app k l1 l2 : mem k (l1 ++ l2) = mem k l1 || mem k l2.
Proof. unfold mem. apply existsb_app. Qed.

Lemma NoDup_app_snoc {A} (l : list A) x : NoDup l -> ~ In x l -> NoDup (l ++ [x]).
Proof.
  induction l as [|y l IH]; intros Hnd Hni; cbn; [constructor; [auto|constructor]|].
  inversion Hnd as [|? ? Hy Hl]; subst. constructor.
  - rewrite in_app_iff. intros [H|[H|[]]]; [contradiction|]. apply Hni. now left.
  - apply IH; [assumption|]. intros H. apply Hni. now right.
Qed.

(* ---------------------------------------------------------------- ordered-map facts *)
Section OMapFacts.
  Context {V : Type}.
  Implicit Types m : omap V.

  Lemma oget_app_notin k m1 m2 : mem k (okeys m1) = false -> oget k (m1 ++ m2) = oget k m2.
  Proof.
    induction m1 as [|[k' v] m1 IH]; cbn; [reflexivity|].
    destruct (beqb k k'); cbn; [discriminate|]. exact IH.
  Qed.
  Lemma oget_notin k m : mem k (okeys m) = false -> oget k m = None.
  Proof. intros H. rewrite <- (app_nil_r m). now rewrite oget_app_notin. Qed.
  Lemma oput_notin k v m : mem k (okeys m) = false -> oput k v m = m ++ [(k, v)].
  Proof.
    induction m as [|[k' v'] m IH]; cbn; [reflexivity|].
    destruct (beqb k k'); cbn; [discriminate|]. intros H. now rewrite IH.
  Qed.
  Lemma oput_app_notin k v m1 m2 : mem k (okeys m1) = false -> oput k v (m1 ++ m2) = m1 ++ oput k v m2.
  Proof.
    induction m1 as [|[k' v'] m1 IH]; cbn; [reflexivity|].
    destruct (beqb k k'); cbn; [discriminate|]. intros H. now rewrite IH.
  Qed.
  Lemma okeys_oput_in k v m : mem k (okeys m) = true -> okeys (oput k v m) = okeys m.
  Proof.
    induction m as [|[k' v'] m IH]; cbn; [discriminate|].
    destruct (beqb k k') eqn:E; cbn; [reflexivity|]. intros H. unfold okeys in IH. now rewrite IH.
  Qed.
End OMapFacts.

(* ---------------------------------------------------------------- first_keys / members *)
Section GroupFacts.
  Context {R S : Type} (key : R -> option bytes) (init : R -> S) (upd : S -> R -> S).
  Notation members := (members key).
  Notation first_keys := (first_keys key).
  Notation group_state := (group_state key init upd).
  Notation entry_of := (entry_of key init upd).
  Notation spec_groups := (spec_groups key init upd).

  Lemma first_keys_snoc rs r : first_keys (rs ++ [r]) = see key (first_keys rs) r.
  Proof. unfold Spec.first_keys. now rewrite fold_left_app. Qed.

  Lemma members_snoc k rs r : members k (rs ++ [r]) = members k rs ++ (if keyb key k r then [r] else []).
  Proof. unfold Spec.members. rewrite filter_app. cbn. now destruct (keyb key k r). Qed.

  (* a key is among the first_keys iff some record carries it *)
  Lemma first_keys_mem k rs : mem k (first_keys rs) = existsb (keyb key k) rs.
  Proof.
    induction rs as [|r rs IH] using rev_ind; [reflexivity|].
    rewrite first_keys_snoc, existsb_app. cbn [existsb]. rewrite orb_false_r. unfold see, keyb at 2.
    destruct (key r) as [k'|]; [|now rewrite IH, orb_false_r].
    destruct (mem k' (first_keys rs)) eqn:E.
    - rewrite IH. destruct (beqb_spec k k') as [->|Hne]; [|now rewrite orb_false_r].
      rewrite <- IH, E. reflexivity.
    - rewrite <- IH. unfold mem. rewrite existsb_app. cbn [existsb]. now rewrite orb_false_r.
  Qed.

  Lemma members_nil_iff k rs : members k rs = [] <-> existsb (keyb key k) rs = false.
  Proof.
    unfold Spec.members. induction rs as [|r rs IH]; cbn; [tauto|].
    destruct (keyb key k r); cbn; [split; discriminate|exact IH].
  Qed.

  Lemma first_keys_nodup rs : NoDup (first_keys rs).
  Proof.
    induction rs as [|r rs IH] using rev_ind; [constructor|].
    rewrite first_keys_snoc. unfold see. destruct (key r) as [k|]; [|exact IH].
    destruct (mem k (first_keys rs)) eqn:E; [exact IH|].
    apply NoDup_app_snoc; [exact IH|]. intros Hin. apply mem_In in Hin. congruence.
  Qed.

  (* entries of keys different from the new record's key are unchanged *)
  Lemma entry_of_other rs r k : keyb key k r = false -> entry_of (rs ++ [r]) k = entry_of rs k.
  Proof. intros H. unfold Spec.entry_of, Spec.group_state. rewrite members_snoc, H, app_nil_r. reflexivity. Qed.

  Lemma group_state_snoc_same rs r k :
    key r = Some k ->
    group_state k (rs ++ [r]) =
      Some (upd (match group_state k rs with Some s => s | None => init r end) r).
  Proof.
    intros Hk. unfold Spec.group_state. rewrite members_snoc.
    assert (Hb : keyb key k r = true) by (unfold keyb; rewrite Hk; apply beqb_refl). rewrite Hb.
    destruct (members k rs) as [|r0 rest]; cbn [app]; [reflexivity|].
    change (r0 :: rest ++ [r]) with ((r0 :: rest) ++ [r]). now rewrite fold_left_app.
  Qed.

  Lemma okeys_flat_entries rs ks : forall k, mem k (okeys (flat_map (entry_of rs) ks)) = true -> mem k ks = true.
  Proof.
    induction ks as [|k0 ks IH]; intros k; [auto|]. cbn [flat_map].
    unfold okeys. rewrite map_app. fold (@okeys S). rewrite mem_app. unfold Spec.entry_of at 1.
    cbn [mem existsb]. fold (mem k ks).
    destruct (group_state k0 rs); cbn [map fst existsb].
    - unfold mem at 1. cbn [existsb]. rewrite orb_false_r. fold (@okeys S).
      intros H. apply orb_true_iff in H as [H|H]; [now rewrite H|].
      rewrite (IH _ H). apply orb_true_r.
    - unfold mem at 1. cbn [existsb orb]. fold (@okeys S). intros H. rewrite (IH _ H). apply orb_true_r.
  Qed.

  Lemma oget_flat_entries rs ks k :
    NoDup ks -> oget k (flat_map (entry_of rs) ks) = if mem k ks then group_state k rs else None.
  Proof.
    induction ks as [|k0 ks IH]; intros Hnd; [reflexivity|].
    inversion Hnd as [|? ? Hni Hnd']; subst. cbn [flat_map mem existsb].
    destruct (beqb_spec k k0) as [->|Hne]; cbn [orb].
    - unfold Spec.entry_of at 1. destruct (group_state k0 rs) eqn:E; cbn [app oget].
      + now rewrite beqb_refl.
      + rewrite IH by assumption. fold (mem k0 ks).
        destruct (mem k0 ks) eqn:M; [apply mem_In in M; contradiction|reflexivity].
    - unfold Spec.entry_of at 1. destruct (group_state k0 rs); cbn [app oget].
      + apply beqb_neq in Hne. rewrite Hne. fold (mem k ks). now apply IH.
      + fold (mem k ks). now apply IH.
  Qed.

  Lemma flat_entries_ext rs rs' ks : (forall k, In k ks -> entry_of rs' k = entry_of rs k) ->
    flat_map (entry_of rs') ks = flat_map (entry_of rs) ks.
  Proof.
    induction ks as [|k0 ks IH]; intros H; [reflexivity|]. cbn. rewrite H by (left; reflexivity).
    f_equal. apply IH. intros k Hk. apply H. now right.
  Qed.

  (* replacing the state of a present key *)
  Lemma oput_flat_entries rs r ks k :
    NoDup ks -> key r = Some k -> mem k ks = true -> group_state k rs <> None ->
    oput k (upd (match group_state k rs with Some s => s | None => init r end) r) (flat_map (entry_of rs) ks)
    = flat_map (entry_of (rs ++ [r])) ks.
  Proof.
    intros Hnd Hk. induction ks as [|k0 ks IH]; intros Hm Hs; [discriminate|].
    inversion Hnd as [|? ? Hni Hnd']; subst. cbn [flat_map].
    destruct (beqb_spec k k0) as [<-|Hne].
    - unfold Spec.entry_of at 1 3. rewrite (group_state_snoc_same rs r k Hk).
      destruct (group_state k rs) as [s|] eqn:E; [|congruence]. cbn [app oput]. rewrite beqb_refl. f_equal.
      symmetry. apply flat_entries_ext. intros k' Hin. apply entry_of_other.
      unfold keyb. rewrite Hk. apply beqb_neq. intros ->. contradiction.
    - assert (Hother : entry_of (rs ++ [r]) k0 = entry_of rs k0).
      { apply entry_of_other. unfold keyb. rewrite Hk. apply beqb_neq. congruence. }
      rewrite Hother. rewrite oput_app_notin.
      + f_equal. apply IH; [assumption| |assumption].
        cbn in Hm. apply beqb_neq in Hne. now rewrite Hne in Hm.
      + unfold Spec.entry_of. destruct (group_state k0 rs); cbn; [|reflexivity].
        apply beqb_neq in Hne. now rewrite Hne.
  Qed.

  Theorem gfold_step rs r : spec_groups (rs ++ [r]) = gstep key init upd (spec_groups rs) r.
  Proof.
    unfold Spec.spec_groups, gstep. rewrite first_keys_snoc. unfold see.
    destruct (key r) as [k|] eqn:Hk.
    - pose proof (first_keys_nodup rs) as Hnd.
      rewrite (oget_flat_entries rs (first_keys rs) k Hnd).
      destruct (mem k (first_keys rs)) eqn:M.
      + assert (Hs : group_state k rs <> None).
        { unfold Spec.group_state. destruct (members k rs) eqn:E; [|discriminate].
          apply members_nil_iff in E. rewrite first_keys_mem in M. congruence. }
        symmetry. now apply oput_flat_entries.
      + rewrite flat_map_app. cbn [flat_map]. rewrite app_nil_r.
        assert (Hnone : group_state k rs = None).
        { unfold Spec.group_state. rewrite first_keys_mem in M. apply members_nil_iff in M. now rewrite M. }
        unfold Spec.entry_of at 2. rewrite (group_state_snoc_same rs r k Hk), Hnone.
        rewrite oput_notin.
        * f_equal. apply flat_entries_ext. intros k' Hin. apply entry_of_other.
          unfold keyb. rewrite Hk. apply beqb_neq. intros ->. apply mem_In in Hin. congruence.
        * destruct (mem k (okeys (flat_map (entry_of rs) (first_keys rs)))) eqn:E; [|reflexivity].
          apply okeys_flat_entries in E. congruence.
    - apply flat_entries_ext. intros k Hin. apply entry_of_other. unfold keyb. now rewrite Hk.
  Qed.

  (* the streaming fold IS the definitional partition *)
  Theorem gfold_spec rs : gfold key init upd rs = spec_groups rs.
  Proof.
    unfold gfold. induction rs as [|r rs IH] using rev_ind; [reflexivity|].
    rewrite fold_left_app. cbn [fold_left]. rewrite IH. symmetry. apply gfold_step.
  Qed.

  (* keys of the result: exactly the first-appearance keys *)
  Lemma okeys_spec_groups rs : okeys (spec_groups rs) = first_keys rs.
  Proof.
    unfold Spec.spec_groups. assert (H : forall k, In k (first_keys rs) -> group_state k rs <> None).
    { intros k Hin. apply mem_In in Hin. rewrite first_keys_mem in Hin. unfold Spec.group_state.
      destruct (members k rs) eqn:E; [|discriminate]. apply members_nil_iff in E. congruence. }
    induction (first_keys rs) as [|k ks IH]; [reflexivity|]. cbn [flat_map]. unfold okeys in *. rewrite map_app.
    rewrite IH by (intros; apply H; now right). unfold Spec.entry_of.
    destruct (group_state k rs) eqn:E; [reflexivity|]. exfalso. apply (H k); [now left|assumption].
  Qed.
End GroupFacts.
