(* PPRINT --barred output read back with --barred-input: writer then reader is the identity, for EVERY display-width
   function and both alignments.  The reader (RecordReaderPprintBarredOrMarkdown) splits on "|" and trims every cell
   with strings.TrimSpace, so the empty value and "-" are ordinary values here. *)
From Miller Require Import Base.Bytes Base.Record C01.Model C01.ModelXtab C01.ModelLite C01.ModelPprint
     C01.ProofsUtil C01.ProofsTsv C01.ProofsDkvp C01.ProofsCsv C01.ProofsLite C01.ProofsPprint.
Open Scope char_scope.

(* ---------------------------------------------------------------- strings.TrimSpace on a padded cell *)
Definition trim_ok (x : bytes) : bool := is_nil x || (Nat.eqb (ws_head x) 0 && Nat.eqb (ws_head_rev (rev x)) 0).

Lemma uws2_sp a : uws2 a (code SP) = false.
Proof. unfold uws2. change (code SP) with 32%N. destruct (a =? 194)%N; reflexivity. Qed.
Lemma uws3_sp3 a b : uws3 a b (code SP) = false.
Proof.
  unfold uws3. change (code SP) with 32%N.
  destruct (a =? 225)%N, (b =? 154)%N, (a =? 226)%N, (b =? 128)%N, (b =? 129)%N, (a =? 227)%N; reflexivity.
Qed.

Lemma trim_go_spaces head n s : (forall t, head (SP :: t) = 1) -> trim_go head 0 (spaces n ++ s) = trim_go head 0 s.
Proof. intros Hh. induction n as [|n IH]; [reflexivity|]. rewrite spaces_S. cbn [app trim_go]. now rewrite Hh. Qed.
Lemma trim_go_stop head s : head s = 0 -> trim_go head 0 s = s.
Proof. intros H. destruct s; [reflexivity|]. cbn [trim_go]. now rewrite H. Qed.
Lemma ws_head_sp t : ws_head (SP :: t) = 1. Proof. reflexivity. Qed.
Lemma ws_head_rev_sp t : ws_head_rev (SP :: t) = 1. Proof. reflexivity. Qed.

Lemma ws_head_app_spaces x m : x <> [] -> ws_head x = 0 -> ws_head (x ++ spaces m) = 0.
Proof.
  intros Hx H. destruct x as [|a [|b [|c x']]]; [congruence| | |exact H].
  - cbn [ws_head] in H. destruct (ascii_space a) eqn:Ea; [discriminate|].
    destruct m as [|[|m]]; cbn [app]; [cbn [ws_head]; now rewrite Ea| |].
    + rewrite spaces_S. cbn [spaces repeat_bytes app ws_head]. now rewrite Ea, uws2_sp.
    + rewrite !spaces_S. cbn [app ws_head]. now rewrite Ea, uws2_sp, uws3_sp3.
  - cbn [ws_head] in H. destruct (ascii_space a) eqn:Ea; [discriminate|]. destruct (uws2 (code a) (code b)) eqn:E2; [discriminate|].
    destruct m as [|m]; cbn [app]; [cbn [ws_head]; now rewrite Ea, E2|].
    rewrite spaces_S. cbn [app ws_head]. now rewrite Ea, E2, uws3_sp3.
Qed.

Lemma rev_spaces n : rev (spaces n) = spaces n.
Proof.
  induction n as [|n IH]; [reflexivity|]. rewrite spaces_S. cbn [rev]. rewrite IH.
  rewrite <- (app_nil_r (spaces n ++ [SP])), <- app_assoc. cbn [app]. rewrite spaces_snoc. now rewrite app_nil_r.
Qed.

Lemma trim_padded a b x : trim_ok x = true -> trim_space (spaces a ++ x ++ spaces b) = x.
Proof.
  unfold trim_ok, trim_space. intros H. rewrite (trim_go_spaces ws_head) by apply ws_head_sp.
  destruct x as [|c x].
  - cbn [app]. rewrite <- (app_nil_r (spaces b)). rewrite (trim_go_spaces ws_head) by apply ws_head_sp. reflexivity.
  - cbn [is_nil orb] in H. apply andb_true_iff in H as [H1 H2]. apply Nat.eqb_eq in H1, H2.
    rewrite (trim_go_stop ws_head) by (apply ws_head_app_spaces; [discriminate|exact H1]).
    rewrite rev_app_distr, rev_spaces. rewrite (trim_go_spaces ws_head_rev) by apply ws_head_rev_sp.
    rewrite (trim_go_stop ws_head_rev) by exact H2. apply rev_involutive.
Qed.

Lemma spaces_end n : spaces n ++ [SP] = spaces (S n).
Proof. rewrite spaces_snoc. now rewrite app_nil_r. Qed.

Lemma trim_cell w right wd x : trim_ok x = true -> trim_space (SP :: pp_pad w right wd x ++ [SP]) = x.
Proof.
  intros H. unfold pp_pad. destruct right.
  - rewrite <- app_assoc. change (SP :: spaces (wd - w x) ++ x ++ [SP]) with (spaces (S (wd - w x)) ++ x ++ spaces 1).
    now apply trim_padded.
  - rewrite <- app_assoc, spaces_end. change (SP :: x ++ spaces (S (wd - w x))) with (spaces 1 ++ x ++ spaces (S (wd - w x))).
    now apply trim_padded.
Qed.

(* ---------------------------------------------------------------- a barred row is the "|"-join of its padded cells *)
Definition bcell (p : bytes) : bytes := SP :: p ++ [SP].

Lemma join_bar_end (fs : list bytes) : join [BAR] (fs ++ [[]]) = List.concat (map (fun f => f ++ [BAR]) fs).
Proof.
  induction fs as [|f fs IH]; [reflexivity|]. cbn [app map List.concat].
  destruct fs as [|g fs]; [cbn [app join map List.concat]; symmetry; apply app_nil_r|].
  change ((g :: fs) ++ [[]]) with (g :: fs ++ [[]]) in *. rewrite join_cons2. rewrite IH. now rewrite app_assoc.
Qed.

Lemma row_join ps : ps <> [] ->
  B "| " ++ join (B " | ") ps ++ B " |" = join [BAR] ([] :: map bcell ps ++ [[]]).
Proof.
  intros Hne.
  assert (H : forall ps, ps <> [] -> SP :: join (B " | ") ps ++ B " |" = List.concat (map (fun f => f ++ [BAR]) (map bcell ps))).
  { clear. induction ps as [|p ps IH]; intros Hne; [congruence|]. destruct ps as [|q ps].
    - cbn [join map List.concat]. rewrite app_nil_r. unfold bcell. cbn [B list_ascii_of_string app].
      rewrite <- app_assoc. reflexivity.
    - rewrite join_cons2.
      change (List.concat (map (fun f => f ++ [BAR]) (map bcell (p :: q :: ps))))
        with ((bcell p ++ [BAR]) ++ List.concat (map (fun f => f ++ [BAR]) (map bcell (q :: ps)))).
      rewrite <- IH by discriminate. unfold bcell. cbn [B list_ascii_of_string].
      cbn [app]. rewrite <- ?app_assoc. cbn [app]. rewrite <- ?app_assoc. cbn [app]. reflexivity. }
  destruct (map bcell ps ++ [[]]) as [|f fs] eqn:E; [destruct (map bcell ps); discriminate|].
  rewrite join_cons2, <- E, join_bar_end, <- H by assumption. reflexivity.
Qed.

Definition padded (w : bytes -> nat) (right : bool) (wds : list nat) (cells : list bytes) : list bytes :=
  map (fun wx => pp_pad w right (fst wx) (snd wx)) (combine wds cells).

Lemma nochar_pad c w right wd x : eqc SP c = false -> nochar c x = true -> nochar c (pp_pad w right wd x) = true.
Proof. intros Hc Hx. unfold pp_pad. destruct right; rewrite nochar_app, Hx, nochar_spaces by assumption; reflexivity. Qed.

Lemma middle_row (M : list bytes) : middle ([] :: M ++ [[]]) = M.
Proof. unfold middle. cbn [tl]. apply removelast_last. Qed.

Section Row.
Variables (w : bytes -> nat) (right : bool).

Lemma barred_row_fields wds cells :
  cells <> [] -> List.length wds = List.length cells -> forallb (nochar BAR) cells = true ->
  field_split [BAR] false (barred_row w right wds cells) = [] :: map bcell (padded w right wds cells) ++ [[]].
Proof.
  intros Hne Hl Hb. unfold barred_row. fold (padded w right wds cells).
  assert (Hp : padded w right wds cells <> []).
  { unfold padded. destruct wds, cells; try discriminate; congruence. }
  rewrite row_join by assumption. unfold field_split. apply split_string_join; [discriminate| |intros E; injection E as E; destruct (map bcell (padded w right wds cells)); discriminate].
  cbn [forallb]. cbn [freeof forallb andb]. rewrite forallb_app. cbn [forallb freeof]. rewrite andb_true_r.
  rewrite forallb_map. unfold padded. rewrite forallb_map. rewrite forallb_forall. intros [wd x] Hin.
  apply in_combine_r in Hin. rewrite forallb_forall in Hb. specialize (Hb x Hin). cbn [fst snd].
  rewrite <- nochar_freeof. unfold bcell.
  change (SP :: pp_pad w right wd x ++ [SP]) with ([SP] ++ pp_pad w right wd x ++ [SP]).
  rewrite !nochar_app, nochar_pad by (reflexivity || assumption). reflexivity.
Qed.

Lemma trim_padded_cells wds cells :
  List.length wds = List.length cells -> forallb trim_ok cells = true ->
  map trim_space (map bcell (padded w right wds cells)) = cells.
Proof.
  revert wds. induction cells as [|x cells IH]; intros wds Hl H; [destruct wds; reflexivity|].
  destruct wds as [|wd wds]; [discriminate|]. cbn [forallb] in H. apply andb_true_iff in H as [Hx H].
  unfold padded. cbn [combine map fst snd]. unfold bcell at 1. rewrite trim_cell by assumption. f_equal.
  apply IH; [now injection Hl|assumption].
Qed.
End Row.

(* ---------------------------------------------------------------- the reader, generic in the separator matcher *)
Section Read.
Variables (is_sep : bytes -> bool) (d rg : bool).
Notation R := (barred_read_go is_sep false d rg).

Definition row_reads (l : bytes) (fs : list bytes) : Prop :=
  is_nil l = false /\ is_sep l = false /\ Nat.ltb (List.length (field_split [BAR] false l)) 2 = false
  /\ map trim_space (middle (field_split [BAR] false l)) = fs.

Lemma B_header hl ks rest : row_reads hl ks -> R None (hl :: rest) = R (Some ks) rest.
Proof. intros (H1 & H2 & H3 & H4). cbn [barred_read_go]. now rewrite H1, H2, H3, H4. Qed.
Lemma B_skip l hdr rest : is_nil l = false -> is_sep l = true -> R hdr (l :: rest) = R hdr rest.
Proof. intros H1 H2. cbn [barred_read_go]. now rewrite H1, H2. Qed.
Lemma B_blank hdr rest : R hdr ([] :: rest) = R None rest.
Proof. reflexivity. Qed.
Lemma B_data l r rest : row_reads l (values r) -> NoDup (keys r) ->
  R (Some (keys r)) (l :: rest) = match R (Some (keys r)) rest with None => None | Some rs => Some (r :: rs) end.
Proof.
  intros (H1 & H2 & H3 & H4) Hnd. cbn [barred_read_go]. rewrite H1, H2, H3, H4.
  assert (Hl : List.length (keys r) = List.length (values r)) by (unfold keys, values; now rewrite !map_length).
  rewrite Hl, Nat.eqb_refl. cbn [orb].
  rewrite attach_combine; [cbn [app]; now rewrite combine_keys_values|exact Hl|exact Hnd].
Qed.
Lemma B_batch (dl : record -> bytes) ks batch : forall rest,
  (forall r, In r batch -> keys r = ks /\ row_reads (dl r) (values r) /\ NoDup (keys r)) ->
  R (Some ks) (map dl batch ++ rest) = match R (Some ks) rest with None => None | Some rs => Some (batch ++ rs) end.
Proof.
  induction batch as [|r batch IH]; intros rest H; [cbn [map app]; now destruct (R (Some ks) rest)|].
  destruct (H r (or_introl eq_refl)) as (Hk & Hs & Hnd). cbn [map app]. rewrite <- Hk.
  rewrite B_data by assumption. rewrite Hk. rewrite IH by (intros r' Hr'; apply H; now right).
  now destruct (R (Some ks) rest).
Qed.
End Read.

(* ---------------------------------------------------------------- bar lines *)
Definition pm (c : ascii) : bool := eqc c "+" || eqc c "-".
Lemma forallb_join (P : ascii -> bool) sep fs :
  forallb P sep = true -> forallb (forallb P) fs = true -> forallb P (join sep fs) = true.
Proof.
  intros Hs. induction fs as [|x fs IH]; intros H; [reflexivity|].
  cbn [forallb] in H. apply andb_true_iff in H as [Hx H]. destruct fs as [|y fs]; [exact Hx|].
  rewrite join_cons2, !forallb_app, Hx, Hs. cbn [andb]. now apply IH.
Qed.
Lemma forallb_repeat (P : ascii -> bool) c n : P c = true -> forallb P (repeat_bytes n [c]) = true.
Proof. intros H. induction n as [|n IH]; [reflexivity|]. cbn [repeat_bytes app forallb]. now rewrite H, IH. Qed.

Lemma bar_line_sep wds : sep_barred (bar_line wds) = true /\ is_nil (bar_line wds) = false /\ line_ok false (bar_line wds) = true.
Proof.
  unfold bar_line. set (m := join (B "-+-") (map (fun wd => repeat_bytes wd ["-"]) wds)).
  assert (Hm : forallb pm m = true).
  { apply forallb_join; [reflexivity|]. rewrite forallb_map. apply forallb_true. intros n. now apply forallb_repeat. }
  assert (Hrev : rev (B "+-" ++ m ++ B "-+") = "+" :: "-" :: rev m ++ B "-+").
  { rewrite !rev_app_distr. reflexivity. }
  assert (Hall : forallb pm (B "+-" ++ m ++ B "-+") = true) by (rewrite !forallb_app, Hm; reflexivity).
  assert (Hlast : last_is "+" (B "+-" ++ m ++ B "-+") = true) by (unfold last_is; rewrite Hrev; reflexivity).
  split; [|split].
  - unfold sep_barred. rewrite Hlast. fold pm. rewrite Hall. reflexivity.
  - reflexivity.
  - unfold line_ok, ends_cr. rewrite Hrev. cbn [orb negb]. rewrite andb_true_r.
    unfold nochar. rewrite forallb_forall in *. intros c Hc. specialize (Hall c Hc). unfold pm in Hall.
    apply orb_true_iff in Hall as [E|E]; apply eqc_eq in E; subst; reflexivity.
Qed.

(* ---------------------------------------------------------------- the domain *)
Definition bp_key_ok (k : bytes) : bool := nochar BAR k && nochar LF k && nochar COMMA k && trim_ok k.
Definition bp_val_ok (v : bytes) : bool := nochar BAR v && nochar LF v && trim_ok v.
(* records non-empty with unique keys; cells free of "|" and LF and stable under strings.TrimSpace (no leading or
   trailing white space; empty is fine); keys free of "," (batching) *)
Definition bp_rec_ok (r : record) : bool :=
  negb (is_nil r) && nodupb (keys r) && forallb bp_key_ok (keys r) && forallb bp_val_ok (values r).
Definition wf_barred (recs : list record) : bool := forallb bp_rec_ok recs.

Section Main.
Variables (w : bytes -> nat) (right crlf d rg : bool).
Notation R := (barred_read_go sep_barred false d rg).

Definition blines (b : list record) : list bytes :=
  let wds := fun r : record => map (pp_width w b) (keys r) in
  [bar_line (wds (hd [] b)); barred_row w right (wds (hd [] b)) (keys (hd [] b)); bar_line (wds (hd [] b))]
  ++ map (fun r => barred_row w right (wds r) (values r)) b ++ [bar_line (wds (last b (hd [] b)))].

Lemma bp_facts r : bp_rec_ok r = true ->
  r <> [] /\ NoDup (keys r) /\ forallb bp_key_ok (keys r) = true /\ forallb bp_val_ok (values r) = true.
Proof.
  unfold bp_rec_ok. intros H. repeat (apply andb_true_iff in H as [H ?]).
  repeat split; try assumption; [destruct r; [discriminate|discriminate]|now apply nodupb_NoDup].
Qed.

Lemma rows_text (f g : record -> bytes) ors (l : list record) :
  (forall r, In r l -> f r = g r ++ ors) -> List.concat (map f l) = List.concat (map (fun x => x ++ ors) (map g l)).
Proof.
  induction l as [|r l IH]; intros H; [reflexivity|]. cbn [map List.concat].
  rewrite (H r (or_introl eq_refl)). f_equal. apply IH. intros r' Hr'. apply H. now right.
Qed.

Lemma batch_text b : b <> [] -> Forall (fun r => bp_rec_ok r = true) b ->
  barred_batch_text w right false (ors_of crlf) b = unlines (ors_of crlf) (blines b).
Proof.
  intros Hne Hall. destruct b as [|r0 b'] eqn:Eb; [congruence|]. unfold barred_batch_text, blines. cbn [hd].
  assert (H0 : r0 <> []) by (inversion Hall; subst; now apply bp_facts).
  replace (forallb is_nil (r0 :: b')) with false by (destruct r0; [congruence|reflexivity]).
  assert (Hlast : last (r0 :: b') r0 <> []).
  { assert (Hin : In (last (r0 :: b') r0) (r0 :: b')).
    { clear. generalize r0 at 1 3. induction b' as [|x t IH]; intros y; [now left|].
      change (last (y :: x :: t) r0) with (last (x :: t) r0). right. apply IH. }
    rewrite Forall_forall in Hall. now apply bp_facts, Hall. }
  set (bb := r0 :: b') in *. cbn [negb].
  assert (Hbt : forall r, r <> [] -> bar_text (ors_of crlf) (map (pp_width w bb) (keys r))
                                 = bar_line (map (pp_width w bb) (keys r)) ++ ors_of crlf).
  { intros r Hr. destruct r; [congruence|reflexivity]. }
  rewrite !Hbt by assumption.
  replace (barred_row_text w right (ors_of crlf) (map (pp_width w bb) (keys r0)) (keys r0))
    with (barred_row w right (map (pp_width w bb) (keys r0)) (keys r0) ++ ors_of crlf)
    by (destruct r0; [congruence|reflexivity]).
  rewrite (rows_text _ (fun r => barred_row w right (map (pp_width w bb) (keys r)) (values r)) (ors_of crlf)).
  2:{ intros r Hr. rewrite Forall_forall in Hall. specialize (Hall r Hr).
      destruct (bp_facts r Hall) as (Hr0 & _). unfold barred_row_text. destruct r; [congruence|reflexivity]. }
  unfold unlines. rewrite !map_app, !concat_app. cbn [map List.concat]. rewrite ?app_nil_r.
  rewrite <- ?app_assoc. reflexivity.
Qed.

Lemma row_facts wds cells :
  cells <> [] -> List.length wds = List.length cells -> forallb (nochar BAR) cells = true -> forallb (nochar LF) cells = true ->
  forallb trim_ok cells = true ->
  row_reads sep_barred (barred_row w right wds cells) cells /\ line_ok crlf (barred_row w right wds cells) = true.
Proof.
  intros Hne Hl Hb Hlf Ht. split; [split; [reflexivity|split; [reflexivity|split]]|].
  - rewrite barred_row_fields by assumption. cbn [List.length]. rewrite app_length. cbn [List.length]. apply Nat.ltb_ge. lia.
  - rewrite barred_row_fields by assumption. rewrite middle_row. now apply trim_padded_cells.
  - unfold barred_row, line_ok. fold (padded w right wds cells).
    assert (Hn : nochar LF (B "| " ++ join (B " | ") (padded w right wds cells) ++ B " |") = true).
    { rewrite !nochar_app. cbn [B list_ascii_of_string]. rewrite nochar_join; [reflexivity|reflexivity|].
      unfold padded. rewrite forallb_map. rewrite forallb_forall. intros [wd x] Hin. apply in_combine_r in Hin.
      rewrite forallb_forall in Hlf. cbn [fst snd]. apply nochar_pad; [reflexivity|now apply Hlf]. }
    rewrite Hn. rewrite app_assoc. rewrite ends_cr_app_ne by discriminate. cbn. now destruct crlf.
Qed.

Lemma widths_len (f : bytes -> nat) (r : record) : List.length (map f (keys r)) = List.length (keys r)
  /\ List.length (map f (keys r)) = List.length (values r).
Proof. unfold keys, values. rewrite !map_length. auto. Qed.

Lemma key_row_facts f r : bp_rec_ok r = true ->
  row_reads sep_barred (barred_row w right (map f (keys r)) (keys r)) (keys r)
  /\ line_ok crlf (barred_row w right (map f (keys r)) (keys r)) = true.
Proof.
  intros H. destruct (bp_facts r H) as (Hne & _ & Hk & _).
  assert (Hx : forall P : bytes -> bool, (forall k, bp_key_ok k = true -> P k = true) -> forallb P (keys r) = true).
  { intros P HP. rewrite forallb_forall in *. intros k Hin. apply HP, Hk, Hin. }
  apply row_facts; [destruct r; [congruence|discriminate]|apply widths_len| | |]; apply Hx; intros k Hk0;
    unfold bp_key_ok in Hk0; repeat (apply andb_true_iff in Hk0 as [Hk0 ?]); assumption.
Qed.
Lemma val_row_facts f r : bp_rec_ok r = true ->
  row_reads sep_barred (barred_row w right (map f (keys r)) (values r)) (values r)
  /\ line_ok crlf (barred_row w right (map f (keys r)) (values r)) = true.
Proof.
  intros H. destruct (bp_facts r H) as (Hne & _ & _ & Hv).
  assert (Hx : forall P : bytes -> bool, (forall k, bp_val_ok k = true -> P k = true) -> forallb P (values r) = true).
  { intros P HP. rewrite forallb_forall in *. intros k Hin. apply HP, Hv, Hin. }
  apply row_facts; [destruct r; [congruence|discriminate]|apply widths_len| | |]; apply Hx; intros k Hk0;
    unfold bp_val_ok in Hk0; repeat (apply andb_true_iff in Hk0 as [Hk0 ?]); assumption.
Qed.

Lemma bp_keys_of_jk r r' : bp_rec_ok r = true -> bp_rec_ok r' = true -> jk r = jk r' -> keys r = keys r'.
Proof.
  intros H H' E. destruct (bp_facts r H) as (Hne & _ & Hk & _). destruct (bp_facts r' H') as (Hne' & _ & Hk' & _).
  assert (Hf : forall r0, forallb bp_key_ok (keys r0) = true -> forallb (freeof [","]) (keys r0) = true).
  { intros r0 H0. rewrite forallb_forall in *. intros k Hin. specialize (H0 k Hin). unfold bp_key_ok in H0.
    apply andb_true_iff in H0 as [H0 _]. apply andb_true_iff in H0 as [_ H0]. now rewrite <- nochar_freeof. }
  apply (join_inj [","]); try (now apply Hf); try discriminate; try assumption.
  - destruct r; [congruence|discriminate].
  - destruct r'; [congruence|discriminate].
Qed.

Lemma bar_skip wds hdr rest : R hdr (bar_line wds :: rest) = R hdr rest.
Proof. destruct (bar_line_sep wds) as (H1 & H2 & _). now apply B_skip. Qed.

Lemma read_batches bs :
  Forall batch_inv bs -> Forall (Forall (fun r => bp_rec_ok r = true)) bs ->
  R None (sep_lines blines bs) = Some (List.concat bs).
Proof.
  induction bs as [|b bs IH]; intros Hinv Hok; [reflexivity|].
  inversion Hinv as [|? ? Hb Hbs]; subst. inversion Hok as [|? ? Hob Hobs]; subst. destruct Hb as [Hne Hj].
  assert (H0 : bp_rec_ok (hd [] b) = true).
  { rewrite Forall_forall in Hob. apply Hob. destruct b; [congruence|now left]. }
  assert (Hread : forall rest, R None (blines b ++ rest)
            = match R (Some (keys (hd [] b))) rest with None => None | Some rs => Some (b ++ rs) end).
  { intros rest. unfold blines. cbn [app]. rewrite bar_skip.
    rewrite (B_header sep_barred d rg _ (keys (hd [] b))) by (apply key_row_facts; assumption).
    rewrite bar_skip. rewrite <- app_assoc.
    rewrite B_batch.
    - cbn [app]. now rewrite bar_skip.
    - intros r Hr. rewrite Forall_forall in Hob. pose proof (Hob r Hr) as Hr_ok.
      destruct (bp_facts r Hr_ok) as (_ & Hnd & _).
      split; [apply bp_keys_of_jk; [assumption|assumption|now apply Hj]|].
      split; [apply val_row_facts; assumption|exact Hnd]. }
  destruct bs as [|b2 bs].
  - cbn [sep_lines List.concat]. rewrite <- (app_nil_r (blines b)). rewrite Hread. cbn [barred_read_go]. reflexivity.
  - change (sep_lines blines (b :: b2 :: bs)) with (blines b ++ [[]] ++ sep_lines blines (b2 :: bs)).
    rewrite Hread. cbn [app]. rewrite B_blank. rewrite IH by assumption. reflexivity.
Qed.

Lemma bar_ok wds : line_ok crlf (bar_line wds) = true.
Proof.
  destruct (bar_line_sep wds) as (_ & _ & H). unfold line_ok in *. apply andb_true_iff in H as [H1 H2].
  rewrite H1. cbn [orb] in H2. rewrite H2. now rewrite orb_true_r.
Qed.

Lemma all_lines_ok bs :
  Forall batch_inv bs -> Forall (Forall (fun r => bp_rec_ok r = true)) bs ->
  forallb (line_ok crlf) (sep_lines blines bs) = true.
Proof.
  induction bs as [|b bs IH]; intros Hinv Hok; [reflexivity|].
  inversion Hinv as [|? ? Hb Hbs]; subst. inversion Hok as [|? ? Hob Hobs]; subst. destruct Hb as [Hne Hj].
  assert (HL : forallb (line_ok crlf) (blines b) = true).
  { unfold blines. cbn [app forallb]. rewrite !bar_ok. rewrite forallb_app. cbn [forallb]. rewrite bar_ok. cbn [andb].
    rewrite andb_true_r. apply andb_true_iff. split.
    - apply key_row_facts. rewrite Forall_forall in Hob. apply Hob. destruct b; [congruence|now left].
    - rewrite forallb_map. rewrite forallb_forall. intros r Hr. rewrite Forall_forall in Hob. apply val_row_facts. now apply Hob. }
  destruct bs as [|b2 bs]; [exact HL|].
  change (sep_lines blines (b :: b2 :: bs)) with (blines b ++ [[]] ++ sep_lines blines (b2 :: bs)).
  rewrite forallb_app, HL. cbn [andb app forallb]. rewrite (IH Hbs Hobs). rewrite andb_true_r. unfold line_ok. cbn. now destruct crlf.
Qed.
End Main.

Lemma pprint_barred_roundtrip w right crlf dedupe ragged recs :
  wf_barred recs = true ->
  read_pprint_barred false dedupe ragged (write_pprint_g w right true false crlf recs) = Some recs.
Proof.
  unfold wf_barred. intros Hrecs.
  destruct (pp_all_batches_spec recs) as [Hcat Hinv].
  assert (Hok : Forall (Forall (fun r => bp_rec_ok r = true)) (pp_all_batches recs)).
  { rewrite Forall_forall. intros b Hb. rewrite Forall_forall. intros r Hr. rewrite forallb_forall in Hrecs. apply Hrecs.
    rewrite <- Hcat. apply in_concat. exists b. split; assumption. }
  assert (Hnn : Forall (fun b => forallb is_nil b = false) (pp_all_batches recs)).
  { rewrite Forall_forall in *. intros b Hb. destruct (Hinv b Hb) as [Hne _]. specialize (Hok b Hb).
    destruct b as [|r b]; [exfalso; now apply Hne|]. inversion Hok; subst. cbn [forallb].
    destruct (bp_facts r) as (Hr & _); [assumption|]. destruct r; [congruence|reflexivity]. }
  unfold read_pprint_barred, read_barred, write_pprint_g.
  assert (Ht : pp_texts (fun b => barred_batch_text w right false (ors_of crlf) b) (ors_of crlf) (pp_all_batches recs)
               = pp_texts (fun b => unlines (ors_of crlf) (blines w right b)) (ors_of crlf) (pp_all_batches recs)).
  { revert Hinv Hok. generalize (pp_all_batches recs). intros bs. induction bs as [|b bs IH]; intros Hinv Hok; [reflexivity|].
    inversion Hinv as [|? ? [Hne _] Hbs]; subst. inversion Hok as [|? ? Hob Hobs]; subst.
    destruct bs as [|b2 bs]; [cbn [pp_texts]; now apply batch_text|].
    change (pp_texts ?f ?o (b :: b2 :: bs)) with (f b ++ (if forallb is_nil b then [] else o) ++ pp_texts f o (b2 :: bs)).
    rewrite IH by assumption. now rewrite batch_text. }
  rewrite Ht. rewrite (pp_texts_lines (ors_of crlf) (blines w right) _ Hnn).
  rewrite lines_of_unlines by (now apply all_lines_ok).
  rewrite (read_batches w right crlf dedupe ragged) by assumption. now rewrite Hcat.
Qed.
